/-
C09 — Wire format: encode/decode are inverse, total, and exactly PROTOCOL.md.
Property theorems only; every theorem here is audited by `Audit/C09.lean` (`#print axioms`).
-/
import Penguin.Model.Frame
import Penguin.Spec.Layout
import Penguin.Lemmas.Frame
import Penguin.Lemmas.MuxWfFrames
import Penguin.Lemmas.PairBytes
import Penguin.Lemmas.MuxWfSettle

namespace Penguin.C09
open Penguin Penguin.Constants

/-- Every frame the public constructors can build encodes to exactly the layout of PROTOCOL.md. -/
theorem encode_eq_layout (f : Frame) : encode f = Spec.Layout.build f := by
  cases f <;> rfl

/-- Decoding the encoding of a frame yields an equal frame (all field values in range, any host and
    payload including empty ones). -/
theorem decode_encode (f : Frame) (h : f.wf) : decode (encode f) = .ok f :=
  Lemmas.Frame.decode_encode f h

/-- A vectored `Push` encodes like the single `Push` of the concatenation, hence decodes to it. -/
theorem encode_pushVectored (id : Nat) (pieces : List Bytes) :
    encodePushVectored id pieces = encode (.push id pieces.flatten) := rfl

theorem decode_pushVectored (id : Nat) (pieces : List Bytes) (h : id < 4294967296) :
    decode (encodePushVectored id pieces) = .ok (.push id pieces.flatten) := by
  rw [encode_pushVectored]; exact decode_encode _ h

/-- `encode` is injective on well-formed frames: the bytes determine every field. -/
theorem encode_injective (f g : Frame) (hf : f.wf) (hg : g.wf) (h : encode f = encode g) : f = g := by
  have h1 := decode_encode f hf
  have h2 := decode_encode g hg
  rw [h] at h1; rw [h1] at h2; exact Except.ok.inj h2

/-- Decoding succeeds exactly on the byte strings that are valid under PROTOCOL.md. -/
theorem decode_ok_iff_valid (bs : Bytes) :
    (∃ f, decode bs = .ok f) ↔ Spec.Layout.Valid bs = true :=
  Lemmas.Frame.decode_ok_iff_valid bs

/-- … and yields the field values the layout prescribes: the decoded frame is in range and its
    layout is the input (version nibble normalised), up to ignored trailing bytes, which only
    `Acknowledge`, `Reset` and `Finish` can have. -/
theorem decode_fields (bs : Bytes) (f : Frame) (h : decode bs = .ok f) :
    f.wf ∧ ∃ tail, Spec.Layout.normalizeVersion bs = Spec.Layout.build f ++ tail ∧
      (tail = [] ∨ (∃ id n, f = .acknowledge id n) ∨ (∃ id, f = .reset id) ∨ (∃ id, f = .finish id)) :=
  Lemmas.Frame.decode_fields bs f h

/-- Which error for which defect (the error kinds are part of the API). -/
theorem decode_err_short (bs : Bytes) (h : bs.length < 5) : decode bs = .error .tooShort :=
  Lemmas.Frame.decode_err_short bs h

theorem decode_err_version (b0 : UInt8) (rest : Bytes) (hl : 4 ≤ rest.length)
    (h7 : b0.toNat / 16 ≠ 7) (h0 : b0.toNat / 16 ≠ 0) :
    decode (b0 :: rest) = .error (.version (b0.toNat / 16)) :=
  Lemmas.Frame.decode_err_version b0 rest hl h7 h0

theorem decode_err_opcode (b0 : UInt8) (rest : Bytes) (hl : 4 ≤ rest.length)
    (hv : b0.toNat / 16 = 7 ∨ b0.toNat / 16 = 0) (ho : 6 < b0.toNat % 16) :
    decode (b0 :: rest) = .error (.opcode (b0.toNat % 16)) :=
  Lemmas.Frame.decode_err_opcode b0 rest hl hv ho

theorem decode_err_bindType (i0 i1 i2 i3 t p0 p1 : UInt8) (host : Bytes)
    (ht1 : t.toNat ≠ 1) (ht3 : t.toNat ≠ 3) :
    decode (0x75 :: i0 :: i1 :: i2 :: i3 :: t :: p0 :: p1 :: host) = .error (.bindType t.toNat) :=
  Lemmas.Frame.decode_err_bindType i0 i1 i2 i3 t p0 p1 host ht1 ht3

/-- `append_push_data` on an encoded `Push` is the encoding of the `Push` with the data appended. -/
theorem appendPush_encode (id : Nat) (d e : Bytes) :
    appendPushData (encode (.push id d)) e = some (encode (.push id (d ++ e))) := by
  simp [appendPushData, encode, verOp, decodeOp, opPush, protocolVersion, lenientVersionZero,
    decOpConnect, decOpAcknowledge, decOpReset, decOpFinish, decOpPush, List.append_assoc]

/-- The seven opcodes written by the encoder are pairwise distinct and are the seven the decoder reads. -/
theorem opcode_tables_agree :
    [opConnect, opAcknowledge, opReset, opFinish, opPush, opBind, opDatagram].Nodup ∧
    [opConnect, opAcknowledge, opReset, opFinish, opPush, opBind, opDatagram] =
    [decOpConnect, decOpAcknowledge, decOpReset, decOpFinish, decOpPush, decOpBind, decOpDatagram] := by
  decide

/-! Non-vacuity: the hypotheses above are met by concrete non-trivial frames. -/

example : (Frame.datagram 7 53 [0x78] [0x31]).wf := by decide
example : decode (encode (.datagram 7 53 [0x78] [0x31])) = .ok (.datagram 7 53 [0x78] [0x31]) := by decide
example : Spec.Layout.Valid [0x76, 0, 0, 0, 7, 1, 0, 0x35, 0x78, 0x31] = true := by decide
example : Spec.Layout.Valid [0x76, 0, 0, 0, 7, 0, 0, 0x35] = true := by decide   -- empty host, empty payload
example : decode [0x05, 0, 0, 0, 7, 3, 0, 0x35] = .ok (.bind 7 .datagram 53 []) := by decide  -- lenient version 0

/-! ### What travels is what was queued: two endpoint models over BYTE wires

`Penguin.Pair` joins two endpoint models by wires that carry structured frames; the real wires carry
`encode f` and the receiver decodes.  `Penguin.PairBytes` is that system.  The theorems below say
that nothing is lost by reasoning over frames: every message an endpoint model ever emits is in the
codec's ranges, so the round trip above applies to everything that travels, in every run.

Hypotheses, all of them ranges the Rust types enforce: the windows are `u32` (`WireCfg.wa/wb`), the
flow-id scripts hold `next_u32` values (`WireCfg.ids`), and the application's arguments are in range
(`Act.inRange`: the port of `new_stream_channel` is a `u16`, a `Datagram`'s flow id a `u32` and its
port a `u16`; a `Datagram` host longer than 255 bytes is refused by `send_datagram` itself). -/

open Penguin.Mux Penguin.Pair Penguin.PairBytes in
/-- Every message either endpoint model has queued or put on a wire, in every reachable state of the
    pair, is well-formed: ids, windows and acknowledge counts below 2^32, ports below 2^16, `Datagram`
    hosts of at most 255 bytes. -/
theorem emitted_messages_wellformed_in_every_run {oa ob : Opts} {ra rb : List Nat} (c : WireCfg oa ob ra rb)
    (as : List (Side × Act)) (has : ∀ sa ∈ as, sa.2.inRange) :
    let p := Pair.run (Pair.init oa ob ra rb) as
    ∀ m ∈ p.a.outq ++ p.ab ++ p.b.outq ++ p.ba, m.wf := by
  intro p m hm
  have h := reach_wf c as has
  simp only [List.mem_append] at hm
  rcases hm with ((hm | hm) | hm) | hm
  · exact h.a.out m hm
  · exact h.ab m hm
  · exact h.b.out m hm
  · exact h.ba m hm

open Penguin.Mux Penguin.Pair Penguin.PairBytes in
/-- The same for one endpoint on its own, at the level the correspondence harness drives it: from a
    state satisfying the endpoint invariant, with well-formed messages queued, every application
    call the pair model uses and the processing of any decoded frame leave only well-formed messages
    in the outbound queue.  (The per-function lemmas, including Bind requests and dropping the
    `Multiplexor`, are `Good.appOpen`, `Good.appWrite`, `Good.appRead`, `Good.appShutdown`,
    `Good.closeFlow`, `Good.appSendDgram`, `Good.appBindReq`, `Good.appBindReply`, `Good.appBindDrop`,
    `Good.appDropMux`, `Good.unpark`, `Good.runRetries`, `Good.processFrame` in `Lemmas/MuxWfFrames.lean`.) -/
theorem processFrame_replies_wellformed (e : EP) (h : Good e) (bs : Bytes) (f : Frame) (hd : decode bs = .ok f)
    (ig : Bool) : OutWf (processFrame e f ig).1 ∧ EPwf (processFrame e f ig).1 :=
  have hf := (decode_fields bs f hd).1
  ⟨(h.processFrame f hf ig).out, (h.processFrame f hf ig).toEPwf⟩

open Penguin.Mux Penguin.PairBytes in
/-- One endpoint at the level the correspondence harness drives it (`Mux.applyOp`: one application
    call or one delivery, then the task and the open futures run to quiescence — Bind requests,
    dropping the `Multiplexor` and the whole wind-down included): after EVERY history of stimuli in
    range, every message a further stimulus hands to the sink is well-formed, so its bytes decode to
    exactly that message at the peer. -/
theorem stimulus_wires_roundtrip (o : Opts) (r : List Nat) (ho : o.rwnd < 4294967296) (hr : ∀ k ∈ r, k < 4294967296)
    (ops : List Mux.Op) (hops : ∀ op ∈ ops, op.inRange) (op : Mux.Op) (hop : op.inRange) :
    ∀ m ∈ Pair.wiresOf (applyOp (runOps { opts := o, rng := r } ops) op).2.2, m.wf ∧ decMsg (encMsg m) = .msg m := by
  intro m hm
  have h := ((Good_init o r ho hr).runOps ops hops).applyOp op hop
  exact ⟨h.2 m hm, decMsg_encMsg m (h.2 m hm)⟩

open Penguin.Mux Penguin.Pair Penguin.PairBytes in
/-- Lock step: from the encoding of any reachable frame-level state, every action of the byte-wire
    pair is the encoding of the same action of the frame-wire pair — enabled in the one exactly when
    enabled in the other (in particular `recv` is never disabled by a decode error). -/
theorem byte_pair_lock_step {oa ob : Opts} {ra rb : List Nat} (c : WireCfg oa ob ra rb)
    (as : List (Side × Act)) (has : ∀ sa ∈ as, sa.2.inRange) (s : Side) (a : Act) :
    let p := Pair.run (Pair.init oa ob ra rb) as
    stepb (enc p) s a = (Pair.step p s a).map enc :=
  stepb_enc _ (reach_wf c as has) s a

open Penguin.Mux Penguin.Pair Penguin.PairBytes in
/-- The byte-wire pair refines the frame-wire pair: after every action list, its state is the
    frame-level state with every message in transit encoded — same endpoints, same observations. -/
theorem byte_pair_refines_frame_pair {oa ob : Opts} {ra rb : List Nat} (c : WireCfg oa ob ra rb)
    (as : List (Side × Act)) (has : ∀ sa ∈ as, sa.2.inRange) :
    runb (initb oa ob ra rb) as = enc (Pair.run (Pair.init oa ob ra rb) as) :=
  reach_enc c as has

open Penguin.Mux Penguin.Pair Penguin.PairBytes in
/-- In every reachable state of the byte-wire pair, each message on a wire decodes to exactly the
    message the sender had queued (the frame-level wire, position by position), and the endpoints are
    those of the frame-level run. -/
theorem wire_bytes_roundtrip_in_every_run {oa ob : Opts} {ra rb : List Nat} (c : WireCfg oa ob ra rb)
    (as : List (Side × Act)) (has : ∀ sa ∈ as, sa.2.inRange) :
    let pb := runb (initb oa ob ra rb) as
    let p := Pair.run (Pair.init oa ob ra rb) as
    pb.ab.map decMsg = p.ab.map .msg ∧ pb.ba.map decMsg = p.ba.map .msg ∧ pb.a = p.a ∧ pb.b = p.b := by
  intro pb p
  have h := reach_wf c as has
  have he : pb = enc p := reach_enc c as has
  rw [he]
  exact ⟨map_decMsg_enc _ h.ab, map_decMsg_enc _ h.ba, rfl, rfl⟩

open Penguin.Mux Penguin.Pair Penguin.PairBytes in
/-- No `recv` of the byte-wire pair ever meets a Binary message that fails to decode: in every
    reachable state the oldest message in transit to either endpoint decodes. -/
theorem never_undecodable {oa ob : Opts} {ra rb : List Nat} (c : WireCfg oa ob ra rb)
    (as : List (Side × Act)) (has : ∀ sa ∈ as, sa.2.inRange) :
    let pb := runb (initb oa ob ra rb) as
    ¬ undecodableHead pb ∧ ¬ undecodableHead pb.swap := by
  intro pb
  have he : pb = enc _ := reach_enc c as has
  rw [he]
  exact PairBytes.never_undecodable _ (reach_wf c as has)

/-! Non-vacuity: a concrete run over byte wires (windows 2, threshold 1) that opens a stream to
    `h:80` and writes three bytes; the bytes on the wire are the `Connect`, the `Acknowledge` and the
    `Push` of PROTOCOL.md. -/
section
open Penguin.Mux Penguin.Pair Penguin.PairBytes
private def bcfg : Mux.Opts := { rwnd := 2, threshold := 1 }
private def bacts1 : List (Pair.Side × Pair.Act) := [(.A, .open 1 [104] 80), (.A, .xmit)]
private def bacts2 : List (Pair.Side × Pair.Act) := bacts1 ++ [(.B, .recv), (.B, .xmit)]
private def bacts3 : List (Pair.Side × Pair.Act) :=
  bacts2 ++ [(.A, .recv), (.A, .runDone), (.B, .accept), (.A, .write 0 [1, 2, 3]), (.A, .xmit)]
example : WireCfg bcfg bcfg [7, 8] [9, 10] := ⟨by decide, by decide, by decide⟩
example : ∀ sa ∈ bacts3, sa.2.inRange := by decide
example : (runb (initb bcfg bcfg [7, 8] [9, 10]) bacts1).ab = [.bin [0x70, 0, 0, 0, 7, 0, 0, 0, 2, 0, 80, 104]] := by decide
example : (runb (initb bcfg bcfg [7, 8] [9, 10]) bacts2).ba = [.bin [0x71, 0, 0, 0, 7, 0, 0, 0, 2]] := by decide
example : (runb (initb bcfg bcfg [7, 8] [9, 10]) bacts3).ab = [.bin [0x74, 0, 0, 0, 7, 1, 2, 3]] := by decide
example : (runb (initb bcfg bcfg [7, 8] [9, 10]) bacts3).ab.map decMsg = [.msg (.frame (.push 7 [1, 2, 3]))] := by decide
example : (runb (initb bcfg bcfg [7, 8] [9, 10]) (bacts3 ++ [(.B, .recv), (.B, .read 0 9)])).gb.rlog 0 = [1, 2, 3] := by decide
-- `processFrame_replies_wellformed`, `stimulus_wires_roundtrip`: a reachable endpoint state and stimuli in range
example : Good (runOps { opts := bcfg, rng := [7, 8] } [.open 1 [104] 80, .deliver (.msg (.frame (.acknowledge 7 2)))]) :=
  (Good_init bcfg [7, 8] (by decide) (by decide)).runOps _ (by decide)
example : decode [0x74, 0, 0, 0, 7, 1, 2, 3] = .ok (.push 7 [1, 2, 3]) := by decide
example : Pair.wiresOf (applyOp (runOps { opts := bcfg, rng := [7, 8] } []) (.open 1 [104] 80)).2.2
    = [.frame (.connect 7 2 80 [104])] := by decide
-- out of range, the statement would be false: a port that is not a `u16` does not survive the wire
example : decode (encode (.connect 7 2 65616 [104])) = .ok (.connect 7 2 80 [104]) := by decide
end

end Penguin.C09
