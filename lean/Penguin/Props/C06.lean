/-
C06 — Abort is clean: peer is told, other streams untouched, flow ids released.
Theorems over the endpoint model. The part of the property that is FALSE of model and code — nothing
of an old stream affects a new stream on a reused id even while frames / the old handle of the
previous incarnation are still around — is refuted by concrete witnesses at the end
(`*_full_fails`), which are the known finding recorded in known_findings.txt (flow ids carry no
epoch; the drop notification carries only the id).
-/
import Penguin.Model.Mux
import Penguin.Lemmas.MuxBasic
import Penguin.Lemmas.MuxStep

namespace Penguin.C06
open Penguin Penguin.Mux

/-- Dropping a stream that was not shut down aborts it: the task removes the slot, closes the
    object in both directions and tells the peer with exactly one `Reset`. -/
theorem abort_tells_peer (e : EP) (fid i : Nat) (o : Obj)
    (hs : lookup e.flows fid = some (.established i)) (ho : e.objs[i]? = some o)
    (hf : o.finishSent = false) (hoc : e.outClosed = false) :
    (closeFlow e fid false).1.outq = e.outq ++ [.frame (.reset fid)] ∧
    lookup (closeFlow e fid false).1.flows fid = none ∧
    closedAt (closeFlow e fid false).1 i := by
  have ho' : ({ e with flows := erase e.flows fid } : EP).obj? i = some o := ho
  refine ⟨?_, ?_, ?_⟩
  · simp only [closeFlow, hs, closeLocal, ho', hf]
    simp [EP.enqFrame, enq_outq, hoc]
  · simp only [closeFlow, hs, closeLocal, ho', hf]
    simp [EP.enqFrame, lookup_erase_self]
  · simp only [closeFlow, hs]
    exact closeLocal_closes _ i fid false false

/-- Dropping a stream that had been shut down cleanly sends nothing more (no `Reset` after `Finish`). -/
theorem finished_drop_is_silent (e : EP) (fid i : Nat) (o : Obj)
    (hs : lookup e.flows fid = some (.established i)) (ho : e.objs[i]? = some o) (hf : o.finishSent = true) :
    (closeFlow e fid false).1.outq = e.outq ∧ lookup (closeFlow e fid false).1.flows fid = none := by
  have ho' : ({ e with flows := erase e.flows fid } : EP).obj? i = some o := ho
  simp only [closeFlow, hs, closeLocal, ho', hf]
  simp [lookup_erase_self]

/-- The peer's side of an abort: on `Reset` the slot is removed and the object closed, with no
    reply; reads then return what had been delivered and end-of-stream, writes fail with BrokenPipe
    (C08 `closed_stream_read_resolves` / `closed_stream_write_fails` apply to a closed object). -/
theorem reset_closes_stream (e : EP) (fid i : Nat) (o : Obj) (ig : Bool)
    (hs : lookup e.flows fid = some (.established i)) (ho : e.objs[i]? = some o) :
    lookup (processFrame e (.reset fid) ig).1.flows fid = none ∧
    closedAt (processFrame e (.reset fid) ig).1 i ∧
    (processFrame e (.reset fid) ig).1.outq = e.outq ∧
    (∀ x, (processFrame e (.reset fid) ig).1.objs[i]? = some x → x.rxq = o.rxq ∧ x.buf = o.buf) := by
  have ho' : ({ e with flows := erase e.flows fid } : EP).obj? i = some o := ho
  have hg : e.objs[i]? = some o := ho
  refine ⟨?_, ?_, ?_, ?_⟩
  · simp only [processFrame, closeFlow, hs, closeLocal, ho']
    simp [lookup_erase_self]
  · simp only [processFrame, closeFlow, hs]
    exact closeLocal_closes _ i fid true false
  · simp only [processFrame, closeFlow, hs, closeLocal, ho']
    simp
  · intro x hx
    simp only [processFrame, closeFlow, hs, closeLocal, ho'] at hx
    simp [modObj_get_self, hg, Obj.disallowWrite, Obj.wake] at hx
    subst hx
    split <;> exact ⟨rfl, rfl⟩

/-- All other streams on the connection keep their slot and all of their state when one is
    aborted or reset. -/
theorem bystanders_untouched (e : EP) (fid : Nat) (inh : Bool) :
    (∀ y s, lookup e.flows y = some s → y ≠ fid → lookup (closeFlow e fid inh).1.flows y = some s) ∧
    (∀ j, lookup e.flows fid ≠ some (.established j) → (closeFlow e fid inh).1.objs[j]? = e.objs[j]?) :=
  ⟨fun y s h hne => Mux.closeFlow_other_slot e fid inh y s h hne,
   fun j h => Mux.closeFlow_other_obj e fid inh j h⟩

/-- Once released, the id is free: a `Connect` with that id is accepted (not reset) and starts from a
    brand-new object — advertised credit, empty queue and buffer, flags clear — at a new index, so
    no buffered data, credit or closed flag of the old stream is carried over. -/
theorem fresh_after_release (e : EP) (fid rwnd port : Nat) (host : Bytes) (ig : Bool)
    (h0 : fid ≠ 0) (hfree : lookup e.flows fid = none) (hoc : e.outClosed = false) (hm : e.muxAlive = true) :
    let r := processFrame e (.connect fid rwnd port host) ig
    lookup r.1.flows fid = some (.established e.objs.length) ∧
    r.1.objs[e.objs.length]? = some (newObj e.opts fid rwnd host port) ∧
    (∀ j, j < e.objs.length → r.1.objs[j]? = e.objs[j]?) ∧
    r.1.outq = e.outq ++ [.frame (.acknowledge fid e.opts.rwnd)] := by
  have h := Mux.processFrame_connect_accepts e fid rwnd port host ig h0 hfree hoc hm
  simp only at h ⊢
  obtain ⟨h1, h2, h3, _, _⟩ := h
  refine ⟨h2, by rw [h1]; simp, ?_, h3⟩
  intro j hj
  rw [h1]; exact List.getElem?_append_left hj

/-- Released when quiescent: after the local abort (above) and after the peer's `Reset` has been
    processed there, neither endpoint holds a slot for the id. (Each half is a theorem above; the
    composition over the transport is exercised by the re-open probe of the correspondence.) -/
theorem released_locally_and_remotely (e : EP) (fid i : Nat) (o : Obj) (ig : Bool)
    (hs : lookup e.flows fid = some (.established i)) (ho : e.objs[i]? = some o) :
    lookup (closeFlow e fid false).1.flows fid = none ∧ lookup (processFrame e (.reset fid) ig).1.flows fid = none := by
  have ho' : ({ e with flows := erase e.flows fid } : EP).obj? i = some o := ho
  constructor
  · simp only [closeFlow, hs, closeLocal, ho']
    split <;> simp [EP.enqFrame, lookup_erase_self]
  · simp only [processFrame, closeFlow, hs, closeLocal, ho']
    simp [lookup_erase_self]

/-! #### The full statement fails under flow-id reuse (known finding) -/

/-- An endpoint whose application still holds the handle (object 0) of a stream on id 9 that the
    peer has already reset, and which has since accepted a *new* stream on the reused id 9
    (object 1). -/
def reuseWitness : EP :=
  { opts := {},
    objs := [{ fid := 9, cap := 4, credit := 0, threshold := 4, finishSent := true, senderAlive := false },
             { fid := 9, cap := 4, credit := 4, threshold := 4 }],
    handles := [0, 1],
    flows := [(9, .established 1)] }

/-- Dropping the OLD handle removes the NEW stream's slot, closes the new object and resets the new
    stream at the peer: state of one stream is not isolated from another when a flow id is reused
    while the old handle is alive. -/
theorem old_handle_drop_kills_new_incarnation_full_fails :
    let e := (settle (appDropStream reuseWitness 0).1).1
    lookup e.flows 9 = none ∧ (e.objs[1]?.map (·.finishSent)) = some true ∧
    (settle (appDropStream reuseWitness 0).1).2 = [.wire (.frame (.reset 9))] := by
  decide

/-- A `Reset` of the previous incarnation that is still in flight cancels a new open request on the
    reused id (it is indistinguishable from a rejection of the new `Connect`): the request gives up
    the id and proposes another one. -/
theorem stale_reset_cancels_new_request_full_fails :
    let e : EP := { opts := {}, flows := [(9, .requested 1)], rng := [10], inbox := [.msg (.frame (.reset 9))],
                    opens := [{ req := 1, host := [], port := 80, retriesLeft := 2 }] }
    lookup (settle e).1.flows 9 = none ∧ (settle e).2 = [.wire (.frame (.connect 10 4 80 []))] := by
  decide

/-! Non-vacuity -/
example : (closeFlow { opts := {}, flows := [(5, .established 0)],
                       objs := [{ fid := 5, cap := 4, credit := 4, threshold := 4 }] } 5 false).1.outq
    = [.frame (.reset 5)] := by decide

end Penguin.C06
