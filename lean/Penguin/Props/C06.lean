/-
C06 — Abort is clean: peer is told, other streams untouched, flow ids released.
Theorems over the endpoint model. The part of the property that is FALSE of model and code — nothing
of an old stream affects a new stream on a reused id even while frames / the old handle of the
previous incarnation are still around — is refuted by concrete witnesses at the end
(`*_full_fails`), which are the known finding recorded in known_findings.txt (flow ids carry no
epoch; the drop notification carries only the id).
-/
import Penguin.Model.Mux
import Penguin.Lemmas.MuxBasic
import Penguin.Lemmas.MuxStep
import Penguin.Lemmas.PairCor
import Penguin.Lemmas.MuxLeakDrop
import Penguin.Lemmas.MuxLeakOpen
import Penguin.Lemmas.PairHarness
import Penguin.Lemmas.MuxAccountCount
import Penguin.Lemmas.MuxAccountReq
import Penguin.Lemmas.MuxEndedTable

namespace Penguin.C06
open Penguin Penguin.Mux

/-- Dropping a stream that was not shut down aborts it: the task removes the slot, closes the
    object in both directions and tells the peer with exactly one `Reset`. -/
theorem abort_tells_peer (e : EP) (fid i : Nat) (o : Obj)
    (hs : lookup e.flows fid = some (.established i)) (ho : e.objs[i]? = some o)
    (hf : o.finishSent = false) (hoc : e.outClosed = false) :
    (closeFlow e fid false).1.outq = e.outq ++ [.frame (.reset fid)] ∧
    lookup (closeFlow e fid false).1.flows fid = none ∧
    closedAt (closeFlow e fid false).1 i := by
  have ho' : ({ e with flows := erase e.flows fid } : EP).obj? i = some o := ho
  refine ⟨?_, ?_, ?_⟩
  · simp only [closeFlow, hs, closeLocal, ho', hf]
    simp [EP.enqFrame, enq_outq, hoc]
  · simp only [closeFlow, hs, closeLocal, ho', hf]
    simp [EP.enqFrame, lookup_erase_self]
  · simp only [closeFlow, hs]
    exact closeLocal_closes _ i fid false false

/-- Dropping a stream that had been shut down cleanly sends nothing more (no `Reset` after `Finish`). -/
theorem finished_drop_is_silent (e : EP) (fid i : Nat) (o : Obj)
    (hs : lookup e.flows fid = some (.established i)) (ho : e.objs[i]? = some o) (hf : o.finishSent = true) :
    (closeFlow e fid false).1.outq = e.outq ∧ lookup (closeFlow e fid false).1.flows fid = none := by
  have ho' : ({ e with flows := erase e.flows fid } : EP).obj? i = some o := ho
  simp only [closeFlow, hs, closeLocal, ho', hf]
  simp [lookup_erase_self]

/-- The peer's side of an abort: on `Reset` the slot is removed and the object closed, with no
    reply; reads then return what had been delivered and end-of-stream, writes fail with BrokenPipe
    (C08 `closed_stream_read_resolves` / `closed_stream_write_fails` apply to a closed object). -/
theorem reset_closes_stream (e : EP) (fid i : Nat) (o : Obj) (ig : Bool)
    (hs : lookup e.flows fid = some (.established i)) (ho : e.objs[i]? = some o) :
    lookup (processFrame e (.reset fid) ig).1.flows fid = none ∧
    closedAt (processFrame e (.reset fid) ig).1 i ∧
    (processFrame e (.reset fid) ig).1.outq = e.outq ∧
    (∀ x, (processFrame e (.reset fid) ig).1.objs[i]? = some x → x.rxq = o.rxq ∧ x.buf = o.buf) := by
  have ho' : ({ e with flows := erase e.flows fid } : EP).obj? i = some o := ho
  have hg : e.objs[i]? = some o := ho
  refine ⟨?_, ?_, ?_, ?_⟩
  · simp only [processFrame, closeFlow, hs, closeLocal, ho']
    simp [lookup_erase_self]
  · simp only [processFrame, closeFlow, hs]
    exact closeLocal_closes _ i fid true false
  · simp only [processFrame, closeFlow, hs, closeLocal, ho']
    simp
  · intro x hx
    simp only [processFrame, closeFlow, hs, closeLocal, ho'] at hx
    simp [modObj_get_self, hg, Obj.disallowWrite, Obj.wake] at hx
    subst hx
    split <;> exact ⟨rfl, rfl⟩

/-- All other streams on the connection keep their slot and all of their state when one is
    aborted or reset. -/
theorem bystanders_untouched (e : EP) (fid : Nat) (inh : Bool) :
    (∀ y s, lookup e.flows y = some s → y ≠ fid → lookup (closeFlow e fid inh).1.flows y = some s) ∧
    (∀ j, lookup e.flows fid ≠ some (.established j) → (closeFlow e fid inh).1.objs[j]? = e.objs[j]?) :=
  ⟨fun y s h hne => Mux.closeFlow_other_slot e fid inh y s h hne,
   fun j h => Mux.closeFlow_other_obj e fid inh j h⟩

/-- Once released, the id is free: a `Connect` with that id is accepted (not reset) and starts from a
    brand-new object — advertised credit, empty queue and buffer, flags clear — at a new index, so
    no buffered data, credit or closed flag of the old stream is carried over. -/
theorem fresh_after_release (e : EP) (fid rwnd port : Nat) (host : Bytes) (ig : Bool)
    (h0 : fid ≠ 0) (hfree : lookup e.flows fid = none) (hoc : e.outClosed = false) (hm : e.muxAlive = true) :
    let r := processFrame e (.connect fid rwnd port host) ig
    lookup r.1.flows fid = some (.established e.objs.length) ∧
    r.1.objs[e.objs.length]? = some (newObj e.opts fid rwnd host port) ∧
    (∀ j, j < e.objs.length → r.1.objs[j]? = e.objs[j]?) ∧
    r.1.outq = e.outq ++ [.frame (.acknowledge fid e.opts.rwnd)] := by
  have h := Mux.processFrame_connect_accepts e fid rwnd port host ig h0 hfree hoc hm
  simp only at h ⊢
  obtain ⟨h1, h2, h3, _, _⟩ := h
  refine ⟨h2, by rw [h1]; simp, ?_, h3⟩
  intro j hj
  rw [h1]; exact List.getElem?_append_left hj

/-- Released when quiescent: after the local abort (above) and after the peer's `Reset` has been
    processed there, neither endpoint holds a slot for the id. (Each half is a theorem above; the
    composition over the transport is exercised by the re-open probe of the correspondence.) -/
theorem released_locally_and_remotely (e : EP) (fid i : Nat) (o : Obj) (ig : Bool)
    (hs : lookup e.flows fid = some (.established i)) (ho : e.objs[i]? = some o) :
    lookup (closeFlow e fid false).1.flows fid = none ∧ lookup (processFrame e (.reset fid) ig).1.flows fid = none := by
  have ho' : ({ e with flows := erase e.flows fid } : EP).obj? i = some o := ho
  constructor
  · simp only [closeFlow, hs, closeLocal, ho']
    split <;> simp [EP.enqFrame, lookup_erase_self]
  · simp only [processFrame, closeFlow, hs, closeLocal, ho']
    simp [lookup_erase_self]

/-! #### The full statement fails under flow-id reuse (known finding) -/

/-- An endpoint whose application still holds the handle (object 0) of a stream on id 9 that the
    peer has already reset, and which has since accepted a *new* stream on the reused id 9
    (object 1). -/
def reuseWitness : EP :=
  { opts := {},
    objs := [{ fid := 9, cap := 4, credit := 0, threshold := 4, finishSent := true, senderAlive := false },
             { fid := 9, cap := 4, credit := 4, threshold := 4 }],
    handles := [0, 1],
    flows := [(9, .established 1)] }

/-- Dropping the OLD handle removes the NEW stream's slot, closes the new object and resets the new
    stream at the peer: state of one stream is not isolated from another when a flow id is reused
    while the old handle is alive. -/
theorem old_handle_drop_kills_new_incarnation_full_fails :
    let e := (settle (appDropStream reuseWitness 0).1).1
    lookup e.flows 9 = none ∧ (e.objs[1]?.map (·.finishSent)) = some true ∧
    (settle (appDropStream reuseWitness 0).1).2 = [.wire (.frame (.reset 9))] := by
  decide

/-- A `Reset` of the previous incarnation that is still in flight cancels a new open request on the
    reused id (it is indistinguishable from a rejection of the new `Connect`): the request gives up
    the id and proposes another one. -/
theorem stale_reset_cancels_new_request_full_fails :
    let e : EP := { opts := {}, flows := [(9, .requested 1)], rng := [10], inbox := [.msg (.frame (.reset 9))],
                    opens := [{ req := 1, host := [], port := 80, retriesLeft := 2 }] }
    lookup (settle e).1.flows 9 = none ∧ (settle e).2 = [.wire (.frame (.connect 10 4 80 []))] := by
  decide

/-! #### No stale slots: every history of one endpoint, any peer (`Lemmas/MuxLeak.lean`) -/

/-- In every state an endpoint reaches — by any sequence of application calls and deliveries, from a
    well-behaved peer or not, through the wind-down — an `Established` slot under flow id `x` refers
    to a stream object whose id is `x`: the dropped-handle notification of a stream (which carries
    the object's id) addresses that stream's own slot. -/
theorem slots_address_their_own_object (o : Opts) (ops : List Mux.Op) :
    let e := runOps { opts := o } ops
    ∀ (fid i : Nat) (ob : Obj), lookup e.flows fid = some (.established i) → e.objs[i]? = some ob → ob.fid = fid :=
  reachable_slotFid o ops

/-- Once the flow table holds no slot for stream object `i`, it never holds one again, whatever the
    application and the peer do next — in particular a later `Connect` or open request that reuses the
    flow id gets a brand-new object: nothing revives the old one. -/
theorem released_slot_never_returns (e : EP) (i : Nat) (hi : i < e.objs.length)
    (h : ∀ fid, lookup e.flows fid ≠ some (.established i)) (ops : List Mux.Op) :
    ∀ fid, lookup (runOps e ops).flows fid ≠ some (.established i) :=
  no_slot_forever e i hi h ops

/-- No leak: when the application drops a stream on a running, idle endpoint (any reachable one), the
    task releases the slot of that stream during that very stimulus, and for every later history no
    slot refers to the dropped stream's object. -/
theorem dropped_stream_slot_released_forever (o : Opts) (pre post : List Mux.Op) (h i : Nat) (ob : Obj)
    (hidle : IdleE (runOps { opts := o } pre))
    (hh : (runOps { opts := o } pre).handleObj h = some (i, ob)) (hf : ob.fid ≠ 0) :
    ∀ fid, lookup (runOps (applyOp (runOps { opts := o } pre) (.dropStream h)).1 post).flows fid ≠ some (.established i) := by
  obtain ⟨hn, hi⟩ := dropStream_releases_slot _ h i ob (reachable_inv o pre) (reachable_slotFid o pre) hidle hh hf
  exact no_slot_forever _ i hi hn post

/-! Non-vacuity: an endpoint that accepted a stream on id 5 is idle and holds handle 0; after the
    drop and a new `Connect` on the same id, slot 5 refers to the new object 1, not to object 0. -/
private def pre6 : List Mux.Op := [.deliver (.msg (.frame (.connect 5 4 80 []))), .accept]
example : IdleE (runOps { opts := {} } pre6) := ⟨by decide, by decide, by decide, by decide, by decide, by decide⟩
example : ((runOps { opts := {} } pre6).handleObj 0).map (fun p => (p.1, p.2.fid)) = some (0, 5) := by decide
example : lookup (runOps { opts := {} } pre6).flows 5 = some (.established 0) := by decide
example : lookup (runOps (applyOp (runOps { opts := {} } pre6) (.dropStream 0)).1
    [.deliver (.msg (.frame (.connect 5 4 80 [])))]).flows 5 = some (.established 1) := by decide

/-- No leak through an abandoned request: when the caller of `new_stream_channel` has given up (a
    timeout around the call: its future is gone, request `req` is no longer pending) and the peer's
    `Acknowledge` arrives afterwards on a running, idle endpoint (any reachable one), the stream the
    handshake creates is let go of at once and the task releases its flow in that very stimulus: for
    every later history no slot refers to that stream's object — the flow id is free again. -/
theorem abandoned_request_slot_released_forever (o : Opts) (pre post : List Mux.Op) (x req n : Nat)
    (hidle : IdleE (runOps { opts := o } pre)) (hsrc : (runOps { opts := o } pre).srcEnded = false)
    (hpark : (runOps { opts := o } pre).park = none) (hx : x ≠ 0)
    (hslot : lookup (runOps { opts := o } pre).flows x = some (.requested req))
    (hgone : (runOps { opts := o } pre).opens.find? (·.req = req) = none) :
    ∀ fid, lookup (runOps (applyOp (runOps { opts := o } pre) (.deliver (.msg (.frame (.acknowledge x n))))).1 post).flows fid
      ≠ some (.established (runOps { opts := o } pre).objs.length) := by
  obtain ⟨hn, hi⟩ := abandoned_open_releases_slot _ x req n (reachable_inv o pre) (reachable_slotFid o pre) hidle hsrc hpark hx hslot hgone
  exact no_slot_forever _ _ hi hn post

/-! Non-vacuity: a request is started (the id comes from the endpoint's own generator) and cancelled;
    the endpoint is idle, its only slot is still `requested 1`, request 1 is no longer pending; after
    the late Acknowledge on that id the table is empty. -/
private def pre6b : List Mux.Op := [.open 1 [97] 80, .cancelOpen 1]
private def x6b : Nat := ((runOps { opts := {} } pre6b).flows.map (·.1)).headD 0
example : IdleE (runOps { opts := {} } pre6b) := ⟨by decide, by decide, by decide, by decide, by decide, by decide⟩
example : x6b ≠ 0 ∧ lookup (runOps { opts := {} } pre6b).flows x6b = some (.requested 1) ∧
    (runOps { opts := {} } pre6b).opens.find? (·.req = 1) = none ∧
    (runOps { opts := {} } pre6b).srcEnded = false ∧ (runOps { opts := {} } pre6b).park = none := by decide
example : (applyOp (runOps { opts := {} } pre6b) (.deliver (.msg (.frame (.acknowledge x6b 4))))).1.flows = [] := by decide

/-! #### No leak, as a number: every slot is accounted for (`Lemmas/MuxAccount.lean`, `MuxAccountCount.lean`)

The endpoint is *in service* (`Mux.Serving`) while its `Multiplexor` is held and its task runs and
has not begun to wind down.  (While the wind-down is in progress the accounting is moot: a parked
hand-over is abandoned and streams a `Connect` still creates are handed to nobody, but the wind-down
ends by clearing the whole table — `C10.invalid_frame_resolves_everything`, C08; an example below
shows such a slot.  Once the task has FINISHED the table is empty and stays empty —
`ended_connection_table_is_empty` below — so the theorems of this section are stated for endpoints
that are in service or have ended: only the wind-down in between is left out.)  The model keeps no
"dropped" mark on a handle (`rxOpen = false` is also what reading
end-of-stream leaves), so the handles a history has dropped are computed from the history:
`Mux.dropsOf`.  `Mux.liveHandles e D` counts the handles the application has obtained and not
dropped; `parkedCount` is 1 when the receive loop is parked handing a stream to a full accept queue.
`Requested` and `BindRequested` slots are themselves the only record of a request the peer has not
answered — each of them is put into the table together with its `Connect` / `Bind` (a call that
cannot queue the frame takes its slot out again: `open_on_ended_connection_leaves_no_slot`):
`pendingOpens` counts the `Requested` slots whose caller still waits, `cancelledAwaiting` those
whose caller has given up (`cancelOpen`; the slot stays until the peer answers — an `Acknowledge`,
`Reset` or `Finish` releases it, `abandoned_request_slot_released_forever`), `pendingBinds` the
`BindRequested` slots. -/

/-- Every slot has an owner: in every state an endpoint reaches while in service (or after its
    connection has ended, when there is no slot at all) — any sequence of application calls and
    deliveries, any peer — each `Established` slot `x ↦ i` of the flow table is justified by
    something that still exists: stream `i` waits in the accept queue, or is the parked hand-over, or
    a dropped-handle notification for id `x` is queued for the task, or the application holds a
    handle of stream `i` that it has not dropped. -/
theorem established_slot_has_an_owner (o : Opts) (ops : List Mux.Op) :
    let e := runOps { opts := o } ops
    let D := dropsOf { opts := o } ops
    Serving e ∨ e.dead = true → ∀ fid i, lookup e.flows fid = some (.established i) →
      i ∈ e.acceptq ∨ e.park = some (.accept i) ∨ fid ∈ e.droppedq ∨ ∃ h, e.handles[h]? = some i ∧ h ∉ D := by
  intro e D hs fid i hl
  rcases hs with hs | hdead
  case inr => rw [reachable_dead_table_empty o ops hdead] at hl; simp [lookup] at hl
  have hd : e.doneq = [] := runOps_doneq { opts := o } ops rfl
  rcases (reachable_accounted o ops hs).just fid i hl with h | h | h | h | h
  · exact Or.inl h
  · exact Or.inr (Or.inl h)
  · rw [hd] at h; cases h
  · exact Or.inr (Or.inr (Or.inl h))
  · exact Or.inr (Or.inr (Or.inr h))

/-- No sequence of opens and closes leaks slots: in every state an endpoint reaches while in service
    (or after its connection has ended, when the table is empty), whatever the application and the
    peer have done, the flow table has no more entries than
    handles the application still holds + streams waiting to be accepted + the parked hand-over +
    dropped-handle notifications the task has not processed yet + open requests the peer has not
    answered (pending, or abandoned by their caller) + bind requests the peer has not answered.
    (The owners of distinct slots are distinct: slots have distinct ids and distinct stream objects.) -/
theorem slots_are_accounted_for (o : Opts) (ops : List Mux.Op) :
    let e := runOps { opts := o } ops
    let D := dropsOf { opts := o } ops
    Serving e ∨ e.dead = true →
      e.flows.length ≤ liveHandles e D + e.acceptq.length + parkedCount e + e.droppedq.length +
        pendingOpens e + cancelledAwaiting e + pendingBinds e := by
  intro e D hs
  rcases hs with hs | hdead
  · exact reachable_slot_bound o ops hs
  · have hf : e.flows = [] := reachable_dead_table_empty o ops hdead
    rw [hf]; exact Nat.zero_le _

/-- Arbitrarily long sequences of opens and closes leave nothing behind: in a reachable state in
    service (or after the connection has ended) in which every handle the application ever obtained
    has been dropped, no stream waits to be accepted, nothing is parked, no notification is queued and
    no open or bind request (pending or abandoned) awaits the peer's answer, the flow table is EMPTY. -/
theorem no_leak_when_idle (o : Opts) (ops : List Mux.Op) :
    let e := runOps { opts := o } ops
    let D := dropsOf { opts := o } ops
    Serving e ∨ e.dead = true → (∀ h, h < e.handles.length → h ∈ D) → e.acceptq = [] → e.park = none →
      e.droppedq = [] → awaitingOpen e = 0 → pendingBinds e = 0 → e.flows = [] := by
  intro e D hs hh ha hp hq hr hb
  rcases hs with hs | hdead
  case inr => exact reachable_dead_table_empty o ops hdead
  have hbound : e.flows.length ≤ liveHandles e D + e.acceptq.length + parkedCount e + e.droppedq.length +
      pendingOpens e + cancelledAwaiting e + pendingBinds e := reachable_slot_bound o ops hs
  have hl : liveHandles e D = 0 := by
    unfold liveHandles heldList
    rw [List.length_eq_zero_iff, List.filter_eq_nil_iff]
    intro h hm
    simpa using hh h (List.mem_range.mp hm)
  have hpk : parkedCount e = 0 := by unfold parkedCount; rw [hp]
  have hr' := awaitingOpen_split e
  have : e.flows.length = 0 := by
    have h1 : e.acceptq.length = 0 := by rw [ha]; rfl
    have h2 : e.droppedq.length = 0 := by rw [hq]; rfl
    omega
  exact List.eq_nil_of_length_eq_zero this

/-! Non-vacuity of `no_leak_when_idle`: a history that opens two streams — one requested locally (the
    id comes from the endpoint's own generator) and acknowledged by the peer, one opened by the peer
    and accepted — holds two slots and two handles; after both handles are dropped the endpoint is in
    service, all hypotheses hold and the table is empty. -/
private def xo7 : Nat := ((runOps { opts := {} } [.open 1 [97] 80]).flows.map (·.1)).headD 0
private def h7 : List Mux.Op :=
  [.open 1 [97] 80, .deliver (.msg (.frame (.acknowledge xo7 4))), .deliver (.msg (.frame (.connect 5 4 80 []))), .accept]
example : (runOps { opts := {} } h7).flows = [(5, .established 1), (xo7, .established 0)] ∧
    (runOps { opts := {} } h7).handles = [0, 1] ∧ dropsOf { opts := {} } h7 = [] := by decide
example : Serving (runOps { opts := {} } (h7 ++ [.dropStream 0, .dropStream 1])) :=
  ⟨by decide, by decide, by decide, by decide, by decide⟩
example : let e := runOps { opts := {} } (h7 ++ [.dropStream 0, .dropStream 1])
    dropsOf { opts := {} } (h7 ++ [.dropStream 0, .dropStream 1]) = [0, 1] ∧ e.handles.length = 2 ∧
    e.acceptq = [] ∧ e.park = none ∧ e.droppedq = [] ∧ awaitingOpen e = 0 ∧ pendingBinds e = 0 ∧ e.flows = [] := by
  decide

/-! The bound is tight, with every kind of owner at once (accept queue of one): a stream accepted and
    held, one waiting in the accept queue, one parked, an open request pending, one abandoned by its
    caller, a bind request pending — six slots, six owners. -/
private def o8 : Mux.Opts := { acceptCap := 1, bindCap := 1 }
private def h8 : List Mux.Op :=
  [.deliver (.msg (.frame (.connect 5 4 80 []))), .accept, .deliver (.msg (.frame (.connect 6 4 80 []))),
   .deliver (.msg (.frame (.connect 7 4 80 []))), .open 1 [97] 80, .open 2 [98] 81, .cancelOpen 2, .bindReq 3 .stream [] 9]
example : Serving (runOps { opts := o8 } h8) := ⟨by decide, by decide, by decide, by decide, by decide⟩
example : (runOps { opts := o8 } h8).flows.length = 6 ∧
    liveHandles (runOps { opts := o8 } h8) (dropsOf { opts := o8 } h8) = 1 ∧
    (runOps { opts := o8 } h8).acceptq.length = 1 ∧ parkedCount (runOps { opts := o8 } h8) = 1 ∧
    (runOps { opts := o8 } h8).droppedq.length = 0 ∧ pendingOpens (runOps { opts := o8 } h8) = 1 ∧
    cancelledAwaiting (runOps { opts := o8 } h8) = 1 ∧ pendingBinds (runOps { opts := o8 } h8) = 1 := by decide

/-! Why `pendingOpens` counts slots and not entries of `opens`: request numbers are names the caller
    of the model chooses; a history that reuses the number of a cancelled request has two `Requested`
    slots (the abandoned one and the new one) under one pending request number. -/
example : let e := runOps { opts := {} } [.open 1 [97] 80, .cancelOpen 1, .open 1 [97] 80]
    e.flows.length = 2 ∧ e.opens.length = 1 ∧ pendingOpens e = 2 ∧ cancelledAwaiting e = 0 := by decide

/-- Each pending call owns at most one slot: in every history in which the caller never names a new
    open request like one whose slot is still in the table (`Mux.freshRun`; request numbers are the
    caller's names for its `new_stream_channel` futures), the `Requested` slots whose caller still
    waits are no more than the pending calls — so the bound holds with the number of pending calls
    (`opens`) in place of `pendingOpens`.  (`Lemmas/MuxAccountReq.lean`: no two `Requested` slots
    carry the same request, a request waiting for its retry has no slot; every function of the
    endpoint model, any peer.) -/
theorem slots_are_accounted_for_by_calls (o : Opts) (ops : List Mux.Op) (hf : freshRun { opts := o } ops = true) :
    let e := runOps { opts := o } ops
    let D := dropsOf { opts := o } ops
    pendingOpens e ≤ e.opens.length ∧
    (Serving e ∨ e.dead = true →
      e.flows.length ≤ liveHandles e D + e.acceptq.length + parkedCount e + e.droppedq.length +
        e.opens.length + cancelledAwaiting e + pendingBinds e) := by
  intro e D
  have hp : pendingOpens e ≤ e.opens.length := pendingOpens_le e (runOps_uq _ ops (init_uq o) rfl hf)
  refine ⟨hp, fun hs => ?_⟩
  have hb : e.flows.length ≤ liveHandles e D + e.acceptq.length + parkedCount e + e.droppedq.length +
      pendingOpens e + cancelledAwaiting e + pendingBinds e := slots_are_accounted_for o ops hs
  omega

/-! Non-vacuity: the history `h8` above names its requests 1, 2 (and 3 for the bind): the naming
    discipline holds, one call is pending, and the bound with `opens.length` is tight as well. -/
example : freshRun { opts := o8 } h8 = true := by decide
example : (runOps { opts := o8 } h8).opens.length = 1 := by decide
/-! … and it is what fails in the history that re-uses the number of a cancelled request. -/
example : freshRun { opts := {} } [.open 1 [97] 80, .cancelOpen 1, .open 1 [97] 80] = false := by decide

/-! Why the wind-down between "in service" and "ended" is left out: after the `Multiplexor` was dropped
    the task winds down and waits for the peer to end the connection; a `Connect` that still arrives
    creates a stream that is handed to nobody — its slot has no owner until the wind-down finishes and
    clears the table. -/
example : let e := runOps { opts := {} } [.dropMux, .deliver (.msg (.frame (.connect 9 4 80 [])))]
    e.flows = [(9, .established 0)] ∧ e.closing = some .ok ∧ e.outClosed = true ∧ e.dead = false ∧ e.acceptq = [] ∧
    e.park = none ∧ e.droppedq = [] ∧ e.handles = [] := by decide
example : (runOps { opts := {} } [.dropMux, .deliver (.msg (.frame (.connect 9 4 80 []))), .deliver .eof]).flows = [] := by
  decide

/-! #### Calls on a connection that no longer takes frames leave no slot behind

`new_stream_channel` and `request_bind` insert their slot first and queue the `Connect` / `Bind`
afterwards.  When the outbound queue is closed (the connection has ended or is winding down) the
frame cannot be queued: the call takes its slot out of the table again and returns `Closed`
(lib.rs; `Mux.openRound`, `Mux.appBindReq`). -/

/-- A call on a connection that no longer takes frames leaves NO slot behind — for EVERY endpoint
    state whose outbound queue is closed:
    * a round of `new_stream_channel` (the first one, `appOpen`, or a later one of a request that had
      been told "rejected") leaves the flow table exactly as it was, the request is no longer
      pending, and the call finishes at once — with `Closed` whenever it got as far as the send
      (a retry is left and a flow id could be drawn), otherwise with FlowIdRejected;
    * `request_bind` leaves the flow table exactly as it was and answers `Closed`. -/
theorem open_on_ended_connection_leaves_no_slot (e : EP) (hoc : e.outClosed = true) :
    (∀ r : OpenReq,
      (openRound e r).1.flows = e.flows ∧ (∀ q ∈ (openRound e r).1.opens, q.req ≠ r.req) ∧
      ((openRound e r).2 = [.openDone r.req .closed] ∨ (openRound e r).2 = [.openDone r.req .rejected]) ∧
      (r.retriesLeft ≠ 0 → (drawId e.flows e.rng e.fallback 64).isSome = true →
        (openRound e r).2 = [.openDone r.req .closed])) ∧
    (∀ req host port,
      (appOpen e req host port).1.flows = e.flows ∧ (∀ q ∈ (appOpen e req host port).1.opens, q.req ≠ req) ∧
      ((appOpen e req host port).2 = [.openDone req .closed] ∨ (appOpen e req host port).2 = [.openDone req .rejected]) ∧
      (e.opts.maxRetries ≠ 0 → (drawId e.flows e.rng e.fallback 64).isSome = true →
        (appOpen e req host port).2 = [.openDone req .closed])) ∧
    (∀ req bt host port,
      (appBindReq e req bt host port).1.flows = e.flows ∧
      (appBindReq e req bt host port).2 = [.bindDone req .closed]) := by
  have key : ∀ r : OpenReq,
      (openRound e r).1.flows = e.flows ∧ (∀ q ∈ (openRound e r).1.opens, q.req ≠ r.req) ∧
      ((openRound e r).2 = [.openDone r.req .closed] ∨ (openRound e r).2 = [.openDone r.req .rejected]) ∧
      (r.retriesLeft ≠ 0 → (drawId e.flows e.rng e.fallback 64).isSome = true →
        (openRound e r).2 = [.openDone r.req .closed]) := by
    intro r
    have h := openRound_closed_resolves e r hoc
    exact ⟨openRound_closed_flows e r hoc, h.2.2, h.1.symm, openRound_closed_answer e r hoc⟩
  exact ⟨key, fun req host port => key { req := req, host := host, port := port, retriesLeft := e.opts.maxRetries },
    fun req bt host port => appBindReq_closed_flows e req bt host port hoc⟩

/-! Non-vacuity (this is the history of the former finding `open_on_ended_connection_leaves_slot`):
    the peer ends the connection, then three `new_stream_channel` calls and a `request_bind` — the
    queue is closed, ids can be drawn, every call is answered `Closed`, and the table is still empty. -/
example : let e := runOps { opts := {} } [.deliver .eof]
    e.outClosed = true ∧ e.dead = true ∧ e.opts.maxRetries ≠ 0 ∧ (drawId e.flows e.rng e.fallback 64).isSome = true := by
  decide
example :
    let e := runOps { opts := {} } [.deliver .eof, .open 1 [97] 80, .open 2 [97] 80, .open 3 [97] 80, .bindReq 4 .stream [] 9]
    e.dead = true ∧ e.flows = [] ∧ e.opens = [] ∧ e.handles = [] ∧ cancelledAwaiting e = 0 ∧
    (applyOp (runOps { opts := {} } [.deliver .eof]) (.open 1 [97] 80)).2.2 = [.openDone 1 .closed] ∧
    (applyOp (runOps { opts := {} } [.deliver .eof]) (.bindReq 4 .stream [] 9)).2.2 = [.bindDone 4 .closed] := by
  decide
/-! … and on a connection that is only winding down (the `Multiplexor` handle of the model is gone,
    but the rule is about the queue): the table keeps exactly the slots it had. -/
example : let e := runOps { opts := {} } [.deliver (.msg (.frame (.connect 9 4 80 []))), .dropMux]
    e.outClosed = true ∧ e.dead = false ∧ e.flows = [(9, .established 0)] ∧
    (appOpen e 1 [97] 80).1.flows = e.flows ∧ (appOpen e 1 [97] 80).2 = [.openDone 1 .closed] ∧
    (appBindReq e 2 .stream [] 9).1.flows = e.flows := by decide

/-- The flow table of an ended connection is empty and stays empty: in every state an endpoint
    reaches — any sequence of application calls and deliveries, any peer — once the connection task
    has finished there is no slot in the flow table, whatever was called on the `Multiplexor`
    before and whatever is called on it afterwards (the wind-down clears the table, the task does
    nothing more, and by the theorem above no later call leaves a slot). -/
theorem ended_connection_table_is_empty (o : Opts) (ops : List Mux.Op) :
    (runOps { opts := o } ops).dead = true → (runOps { opts := o } ops).flows = [] :=
  reachable_dead_table_empty o ops

/-- … said for the rest of the history: from the moment the task has finished, the table is empty
    after every further stimulus. -/
theorem ended_connection_table_stays_empty (o : Opts) (pre post : List Mux.Op)
    (hd : (runOps { opts := o } pre).dead = true) : (runOps (runOps { opts := o } pre) post).flows = [] :=
  (runOps_ended _ post (reachable_ended o pre)).empty ((Mono.runOps _ post).dead hd)

/-! Non-vacuity: a connection with an open stream, a pending open request and a pending bind request
    is ended by the peer; calls keep coming afterwards. -/
example : let pre : List Mux.Op :=
      [.deliver (.msg (.frame (.connect 5 4 80 []))), .accept, .open 1 [97] 80, .bindReq 2 .stream [] 9]
    (runOps { opts := {} } pre).flows.length = 3 ∧ (runOps { opts := {} } pre).dead = false ∧
    (runOps { opts := {} } (pre ++ [.deliver .eof])).dead = true ∧
    (runOps { opts := {} } (pre ++ [.deliver .eof, .open 3 [97] 80, .bindReq 4 .stream [] 9, .dropStream 0])).flows = [] := by
  decide

/-! #### The pair: two endpoints and the wires, every interleaving (`Model/Pair.lean`)

`x ∈ p.linked` says the handshake of flow `x` completed at some point of the run; `lookup p.a.flows x
= none` says endpoint `a` has since let go of it — by abort (its application dropped the stream), by
finishing and dropping it, or because the peer's `Reset` arrived. -/

open Penguin.Mux Penguin.Pair in
/-- Abort is clean for the peer's reader, in every reachable state of every interleaving: after `a`
    let go of flow `x`, what `b`'s application has read is a prefix of what `a`'s application wrote,
    and every byte `a` wrote before letting go is accounted for — read, buffered, queued at `b`, or
    still in flight ahead of the end marker.  (Holds as long as `b`'s application still observes its
    stream: the handle's receiving half is open, or it has read end-of-stream.) -/
theorem pair_abort_reads_are_prefix {oa ob : Opts} {ra rb : List Nat} (c : Cfg oa ob ra rb) (as : List (Pair.Side × Pair.Act))
    {x : Nat} (hx : x ∈ (Pair.run (Pair.init oa ob ra rb) as).linked)
    (hrel : lookup (Pair.run (Pair.init oa ob ra rb) as).a.flows x = none) :
    let p := Pair.run (Pair.init oa ob ra rb) as
    ∃ i j oB, p.b.objs[j]? = some oB ∧ oB.fid = x ∧ (∀ k o, p.a.objs[k]? = some o → o.fid = x → k = i) ∧
      (observed p.b p.gb j = true →
        p.gb.rlog j <+: p.ga.wlog i ∧
        p.gb.rlog j ++ oB.buf ++ oB.rxq.flatten ++
          (Link.pushes (if oB.senderAlive then cutEnd ((fl x (pathAB p)).filterMap toItem) else [])).flatten = p.ga.wlog i) :=
  released_bytes (reach_inv c as) hx hrel

open Penguin.Mux Penguin.Pair in
/-- … and with the roles of the endpoints exchanged. -/
theorem pair_abort_reads_are_prefix_rev {oa ob : Opts} {ra rb : List Nat} (c : Cfg oa ob ra rb) (as : List (Pair.Side × Pair.Act))
    {x : Nat} (hx : x ∈ (Pair.run (Pair.init oa ob ra rb) as).linked)
    (hrel : lookup (Pair.run (Pair.init oa ob ra rb) as).b.flows x = none) :
    let p := Pair.run (Pair.init oa ob ra rb) as
    ∃ j i oA, p.a.objs[i]? = some oA ∧ oA.fid = x ∧ (∀ k o, p.b.objs[k]? = some o → o.fid = x → k = j) ∧
      (observed p.a p.ga i = true →
        p.ga.rlog i <+: p.gb.wlog j ∧
        p.ga.rlog i ++ oA.buf ++ oA.rxq.flatten ++
          (Link.pushes (if oA.senderAlive then cutEnd ((fl x (pathBA p)).filterMap toItem) else [])).flatten = p.gb.wlog j) :=
  released_bytes (p := (Pair.run (Pair.init oa ob ra rb) as).swap) (reach_inv c as).swap hx hrel

open Penguin.Mux Penguin.Pair in
/-- When the peer's application reads end-of-stream after `a` let go of the flow, it has read
    exactly the bytes `a`'s application wrote on it: what had been written is delivered before
    end-of-stream, nothing is lost and nothing invented, whatever frames were in flight. -/
theorem pair_abort_then_eof_is_exact {oa ob : Opts} {ra rb : List Nat} (c : Cfg oa ob ra rb) (as : List (Pair.Side × Pair.Act))
    {x : Nat} (hx : x ∈ (Pair.run (Pair.init oa ob ra rb) as).linked)
    (hrel : lookup (Pair.run (Pair.init oa ob ra rb) as).a.flows x = none) :
    let p := Pair.run (Pair.init oa ob ra rb) as
    ∃ i j, (∀ k o, p.a.objs[k]? = some o → o.fid = x → k = i) ∧ (∀ k o, p.b.objs[k]? = some o → o.fid = x → k = j) ∧
      (p.gb.eof j = true → p.gb.rlog j = p.ga.wlog i) :=
  released_eof (reach_inv c as) hx hrel

open Penguin.Mux Penguin.Pair in
/-- … and with the roles of the endpoints exchanged. -/
theorem pair_abort_then_eof_is_exact_rev {oa ob : Opts} {ra rb : List Nat} (c : Cfg oa ob ra rb) (as : List (Pair.Side × Pair.Act))
    {x : Nat} (hx : x ∈ (Pair.run (Pair.init oa ob ra rb) as).linked)
    (hrel : lookup (Pair.run (Pair.init oa ob ra rb) as).b.flows x = none) :
    let p := Pair.run (Pair.init oa ob ra rb) as
    ∃ j i, (∀ k o, p.b.objs[k]? = some o → o.fid = x → k = j) ∧ (∀ k o, p.a.objs[k]? = some o → o.fid = x → k = i) ∧
      (p.ga.eof i = true → p.ga.rlog i = p.gb.wlog j) :=
  released_eof (p := (Pair.run (Pair.init oa ob ra rb) as).swap) (reach_inv c as).swap hx hrel

open Penguin.Mux Penguin.Pair in
/-- Once an endpoint has let go of a flow — its own application aborted it, or the peer's `Reset`
    arrived — a write on a handle of that stream fails with BrokenPipe and transmits nothing. -/
theorem pair_released_write_fails {oa ob : Opts} {ra rb : List Nat} (c : Cfg oa ob ra rb) (as : List (Pair.Side × Pair.Act))
    {x : Nat} (hx : x ∈ (Pair.run (Pair.init oa ob ra rb) as).linked)
    (hrel : lookup (Pair.run (Pair.init oa ob ra rb) as).a.flows x = none)
    (hd i : Nat) (o : Obj) (d : Bytes) (hh : (Pair.run (Pair.init oa ob ra rb) as).a.handleObj hd = some (i, o)) (hf : o.fid = x) :
    let p := Pair.run (Pair.init oa ob ra rb) as
    (appWrite p.a hd d).2 = .brokenPipe ∧ (appWrite p.a hd d).1.outq = p.a.outq :=
  released_write_fails (reach_inv c as) hx hrel hd i o d hh hf

open Penguin.Mux Penguin.Pair in
/-- … at the other endpoint (e.g. the peer of an abort, once the `Reset` has been processed). -/
theorem pair_released_write_fails_rev {oa ob : Opts} {ra rb : List Nat} (c : Cfg oa ob ra rb) (as : List (Pair.Side × Pair.Act))
    {x : Nat} (hx : x ∈ (Pair.run (Pair.init oa ob ra rb) as).linked)
    (hrel : lookup (Pair.run (Pair.init oa ob ra rb) as).b.flows x = none)
    (hd j : Nat) (o : Obj) (d : Bytes) (hh : (Pair.run (Pair.init oa ob ra rb) as).b.handleObj hd = some (j, o)) (hf : o.fid = x) :
    let p := Pair.run (Pair.init oa ob ra rb) as
    (appWrite p.b hd d).2 = .brokenPipe ∧ (appWrite p.b hd d).1.outq = p.b.outq :=
  released_write_fails (p := (Pair.run (Pair.init oa ob ra rb) as).swap) (reach_inv c as).swap hx hrel hd j o d hh hf

open Penguin.Mux Penguin.Pair in
/-- The harness's `dropmany` stimulus (several streams of one endpoint dropped back to back before its
    task runs, then the task runs to quiescence — `Mux.applyDropMany`, what the driver executes) applied
    to any reachable state of the pair is a run of the fine-grained actions, so the pair invariant —
    and with it every `pair_*` theorem — holds afterwards: the task's notification loop handles a burst
    of drops like the same drops one at a time. -/
theorem pair_burst_of_drops_is_a_run {oa ob : Opts} {ra rb : List Nat} (c : Cfg oa ob ra rb) (as : List (Pair.Side × Pair.Act))
    (q : PS) (hs : List Nat) (hen : runL (Pair.run (Pair.init oa ob ra rb) as) (hs.map Pair.Act.dropStream) = some q)
    (hidle : Idle q.a) (hsr : q.a.sinkRoom = none) (hr : (settle q.a).1.rng ≠ []) :
    let p := Pair.run (Pair.init oa ob ra rb) as
    Pair.Inv { q with a := (applyDropMany p.a hs).1, ab := p.ab ++ wiresOf (applyDropMany p.a hs).2.2 } :=
  dropMany_inv _ q (reach_inv c as) hs hen hidle hsr hr

/-! Non-vacuity of the pair theorems: a run (windows 2, threshold 1) that opens a stream, writes
    three bytes (two fit the window), and then drops the stream without shutting it down; the peer
    processes the `Push` and the `Reset`, reads the two bytes and then end-of-stream, and its own
    write fails. -/
private def pcfg : Mux.Opts := { rwnd := 2, threshold := 1 }
private def pacts : List (Pair.Side × Pair.Act) :=
  [(.A, .open 1 [104] 80), (.A, .xmit), (.B, .recv), (.B, .xmit), (.A, .recv), (.A, .runDone), (.B, .accept),
   (.A, .write 0 [1, 2]), (.A, .xmit), (.A, .dropStream 0), (.A, .notif), (.A, .xmit),
   (.B, .recv), (.B, .read 0 9), (.B, .recv), (.B, .read 0 9)]
example : Pair.Cfg pcfg pcfg [7, 8] [9, 10] := ⟨by decide, by decide, by decide, by decide⟩
example : 7 ∈ (Pair.run (Pair.init pcfg pcfg [7, 8] [9, 10]) pacts).linked := by decide
example : Mux.lookup (Pair.run (Pair.init pcfg pcfg [7, 8] [9, 10]) pacts).a.flows 7 = none := by decide
example : Mux.lookup (Pair.run (Pair.init pcfg pcfg [7, 8] [9, 10]) pacts).b.flows 7 = none := by decide
example : (Pair.run (Pair.init pcfg pcfg [7, 8] [9, 10]) pacts).gb.eof 0 = true ∧
    (Pair.run (Pair.init pcfg pcfg [7, 8] [9, 10]) pacts).gb.rlog 0 = [1, 2] := by decide
example : (Mux.appWrite (Pair.run (Pair.init pcfg pcfg [7, 8] [9, 10]) pacts).b 0 [5]).2 = .brokenPipe := by decide

/-! Non-vacuity of `pair_burst_of_drops_is_a_run`: two streams opened by `a`, both dropped at once. -/
private def pacts2 : List (Pair.Side × Pair.Act) :=
  [(.A, .open 1 [104] 80), (.A, .xmit), (.B, .recv), (.B, .xmit), (.A, .recv), (.A, .runDone),
   (.A, .open 2 [105] 81), (.A, .xmit), (.B, .recv), (.B, .xmit), (.A, .recv), (.A, .runDone)]
example : ((Pair.runL (Pair.run (Pair.init pcfg pcfg [7, 8, 11] [9, 10]) pacts2) [.dropStream 0, .dropStream 1]).map
    (fun q => (q.a.droppedq, q.a.inbox.length, q.a.dead, q.a.muxAlive, q.a.sinkRoom.isNone, (Mux.settle q.a).1.rng))) =
    some ([7, 8], 0, false, true, true, [11]) := by decide

/-! Non-vacuity -/
example : (closeFlow { opts := {}, flows := [(5, .established 0)],
                       objs := [{ fid := 5, cap := 4, credit := 4, threshold := 4 }] } 5 false).1.outq
    = [.frame (.reset 5)] := by decide

end Penguin.C06
