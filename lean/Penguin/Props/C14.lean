/-
C14 — The server opens a tunnel only for fully valid, authenticated upgrade requests.
Property theorems only, over `Penguin.Model.Gate` (`service.rs:313-430`), for every request and every
configuration (any header list, any pre-shared key, any backend function), no bounds.

About the `OnUpgrade` extension: `ws_handler` also falls back when hyper attached no `OnUpgrade`
extension to the request (`service.rs:348-351`).  The model carries this as the Boolean
`Request.onUpgrade` of the request's environment; it appears as the last conjunct of `ValidUpgrade`.
hyper attaches the extension to every HTTP/1.1 request that has an `Upgrade` header, so for requests
arriving over an HTTP/1.1 connection the conjunct follows from the `upgrade: websocket` conjunct
(that step is hyper's, it is exercised by the harness over a real connection, not proved here).
-/
import Penguin.Model.Gate
import Penguin.Lemmas.ClientReq

namespace Penguin.C14
open Penguin Penguin.Gate Penguin.Constants

/-- The header `name` is present and its first value equals `wanted` up to ASCII case. -/
def HeaderIs (req : Request) (name wanted : String) : Prop :=
  ∃ v, req.get name = some v ∧ eqIgnoreAsciiCase v (asciiBytes wanted) = true

/-- "A fully valid, authenticated upgrade request", and the accept hash it is answered with. -/
def ValidUpgrade (cfg : Config) (req : Request) (accept : Bytes) : Prop :=
  req.method = "GET" ∧ req.path = "/ws" ∧
  HeaderIs req "connection" "upgrade" ∧
  HeaderIs req "upgrade" "websocket" ∧
  HeaderIs req "sec-websocket-version" "13" ∧
  HeaderIs req "sec-websocket-protocol" protocolName ∧
  (∃ key, req.get "sec-websocket-key" = some key ∧ accept = acceptOf key) ∧
  (cfg.psk = none ∨ req.get "x-penguin-psk" = cfg.psk) ∧
  req.onUpgrade = true

/-! ### What "compared case-insensitively" and "first value" mean -/

/-- `eq_ignore_ascii_case` holds exactly when the two byte strings are equal after mapping
    `A`–`Z` to `a`–`z` (so: same length, no trimming, no other folding). -/
theorem eqIgnoreAsciiCase_iff (a b : Bytes) :
    eqIgnoreAsciiCase a b = true ↔ a.map asciiLower = b.map asciiLower := by
  induction a generalizing b with
  | nil => cases b <;> simp [eqIgnoreAsciiCase]
  | cons x xs ih => cases b <;> simp [eqIgnoreAsciiCase, ih]

/-- A header lookup sees the first value of a name only (`HeaderMap::get`). -/
theorem get_first (name : String) (v : Bytes) (rest : List (String × Bytes)) :
    Gate.get ((name, v) :: rest) name = some v := by
  simp [Gate.get]

theorem get_skip (n name : String) (v : Bytes) (rest : List (String × Bytes)) (h : n ≠ name) :
    Gate.get ((n, v) :: rest) name = Gate.get rest name := by
  simp [Gate.get, h]

private theorem headerMatches_iff (req : Request) (name wanted : String) :
    headerMatches (req.get name) wanted = true ↔ HeaderIs req name wanted := by
  unfold headerMatches HeaderIs
  cases req.get name <;> simp

/-! ### The characterisation -/

private theorem ws_ne_health : pathWs ≠ pathHealth := by decide
private theorem ws_ne_version : pathWs ≠ pathVersion := by decide
private theorem health_ne_version : pathHealth ≠ pathVersion := by decide

private theorem route_health (cfg : Config) (req : Request) (h : req.path = pathHealth ∧ cfg.obfs = false) :
    route cfg req = .health := by
  unfold route; rw [if_pos h]

private theorem route_version (cfg : Config) (req : Request)
    (h1 : ¬ (req.path = pathHealth ∧ cfg.obfs = false)) (h2 : req.path = pathVersion ∧ cfg.obfs = false) :
    route cfg req = .version := by
  unfold route; rw [if_neg h1, if_pos h2]

private theorem route_other (cfg : Config) (req : Request)
    (h1 : ¬ (req.path = pathHealth ∧ cfg.obfs = false)) (h2 : ¬ (req.path = pathVersion ∧ cfg.obfs = false)) :
    route cfg req = if req.path = pathWs then wsDecision cfg req else .fallback := by
  unfold route; rw [if_neg h1, if_neg h2]

private theorem route_ws (cfg : Config) (req : Request) (hp : req.path = pathWs) :
    route cfg req = wsDecision cfg req := by
  rw [route_other cfg req (fun h => ws_ne_health (hp.symm.trans h.1))
    (fun h => ws_ne_version (hp.symm.trans h.1)), if_pos hp]

private theorem wsCheck_ok_iff (cfg : Config) (req : Request) (h : Bytes) :
    wsCheck cfg req = .ok h ↔
      req.method = methodGet ∧
      HeaderIs req hConnection hdrUpgradeValue ∧ HeaderIs req hUpgrade hdrWebsocketValue ∧
      HeaderIs req hVersion hdrWebsocketVersionValue ∧ HeaderIs req hProtocol protocolName ∧
      (∃ key, req.get hKey = some key ∧ h = acceptOf key) ∧
      (cfg.psk = none ∨ req.get pskHeaderName = cfg.psk) ∧ req.onUpgrade = true := by
  simp only [← headerMatches_iff]
  unfold wsCheck
  by_cases hm : req.method = methodGet
  · have hpsk : (cfg.psk.isSome = true ∧ req.get pskHeaderName ≠ cfg.psk) ↔
        ¬ (cfg.psk = none ∨ req.get pskHeaderName = cfg.psk) := by
      cases cfg.psk <;> simp
    by_cases hp : (cfg.psk = none ∨ req.get pskHeaderName = cfg.psk)
    · have hp' : ¬ (cfg.psk.isSome = true ∧ req.get pskHeaderName ≠ cfg.psk) := by
        rw [hpsk]; exact fun hn => hn hp
      simp only [hm, hp', hp, ne_eq, not_true_eq_false, if_false, true_and]
      cases hk : req.get hKey with
      | none => simp
      | some key =>
        cases h1 : headerMatches (req.get hConnection) hdrUpgradeValue <;>
        cases h2 : headerMatches (req.get hUpgrade) hdrWebsocketValue <;>
        cases h3 : headerMatches (req.get hVersion) hdrWebsocketVersionValue <;>
        cases h4 : headerMatches (req.get hProtocol) protocolName <;>
        cases h5 : req.onUpgrade <;>
        simp [eq_comm]
    · have hp' : (cfg.psk.isSome = true ∧ req.get pskHeaderName ≠ cfg.psk) := hpsk.mpr hp
      have hp1 : cfg.psk ≠ none := fun h => hp (Or.inl h)
      simp [hm, hp', hp1]
  · simp [hm]

/-- **The server decides to upgrade — answer 101 with accept hash `h` and start the tunnel — if and
    only if** the request is a GET for `/ws` whose `connection`, `upgrade`,
    `sec-websocket-version` and `sec-websocket-protocol` headers equal `upgrade`, `websocket`, `13`,
    `penguin-v7` up to ASCII case, a `sec-websocket-key` is present and `h` is its RFC 6455 accept
    hash, the `x-penguin-psk` header is byte-for-byte the configured key when one is configured, and
    hyper made the connection upgradable (`onUpgrade`). Neither `obfs` nor the backend matter. -/
theorem upgrade_iff (cfg : Config) (req : Request) (h : Bytes) :
    route cfg req = .upgrade h ↔ ValidUpgrade cfg req h := by
  unfold ValidUpgrade
  have hc := wsCheck_ok_iff cfg req h
  simp only [hConnection, hUpgrade, hVersion, hProtocol, hKey, methodGet, hdrUpgradeValue,
    hdrWebsocketValue, hdrWebsocketVersionValue, pskHeaderName] at hc
  rw [← and_assoc, and_comm (a := req.method = "GET"), and_assoc, ← hc]
  by_cases hw : req.path = pathWs
  · have hw' : req.path = "/ws" := hw
    rw [route_ws cfg req hw]
    unfold wsDecision
    cases hck : wsCheck cfg req <;> simp [hw']
  · have hw' : ¬ req.path = "/ws" := hw
    simp only [hw', false_and, iff_false]
    unfold route
    split <;> (try split) <;> simp

/-- The tunnel task is spawned exactly for the valid upgrade requests. -/
theorem startsTunnel_iff (cfg : Config) (req : Request) :
    startsTunnel cfg req = true ↔ ∃ h, ValidUpgrade cfg req h := by
  simp only [← upgrade_iff]
  unfold startsTunnel
  cases route cfg req <;> simp

/-- With a key configured, an upgrade implies that exactly this key was presented: a missing header,
    a prefix, a case variant or a padded copy is a different byte string and is refused. -/
theorem psk_required (cfg : Config) (req : Request) (h psk : Bytes) (hc : cfg.psk = some psk)
    (hu : route cfg req = .upgrade h) : req.get "x-penguin-psk" = some psk := by
  have := ((upgrade_iff cfg req h).mp hu).2.2.2.2.2.2.2.1
  simpa [hc] using this

/-- The accept hash of the answer is a function of the presented key alone. -/
theorem upgrade_accept (cfg : Config) (req : Request) (h : Bytes) (hu : route cfg req = .upgrade h) :
    ∃ key, req.get "sec-websocket-key" = some key ∧ h = base64 (Sha1.digest (key ++ asciiBytes wsAcceptGuid)) :=
  ((upgrade_iff cfg req h).mp hu).2.2.2.2.2.2.1

/-! ### The 101 response -/

/-- The upgrade answer: status 101, `connection: upgrade`, `upgrade: websocket`, the accepted
    protocol and the accept hash, nothing else, empty body. -/
theorem upgrade_response_headers (cfg : Config) (req : Request) (h : Bytes)
    (hu : route cfg req = .upgrade h) :
    respond cfg req =
      { status := 101,
        headers := [("connection", asciiBytes "upgrade"), ("upgrade", asciiBytes "websocket"),
                    ("sec-websocket-protocol", asciiBytes protocolName), ("sec-websocket-accept", h)],
        body := [] } := by
  simp [respond, hu, upgradeResponse, statusSwitchingProtocols, hConnection, hUpgrade, hProtocol,
    hAccept, hdrUpgradeValue, hdrWebsocketValue]

/-- Without a backend (whose answers are its own), status 101 is sent only on the upgrade branch. -/
theorem answers_101_iff (cfg : Config) (req : Request) (hb : cfg.backend = none) :
    (respond cfg req).status = 101 ↔ ∃ h, ValidUpgrade cfg req h := by
  simp only [← upgrade_iff]
  unfold respond
  cases hr : route cfg req <;>
    simp [fallbackResponse, hb, notFoundResponse, upgradeResponse, statusNotFound, statusSwitchingProtocols]

/-! ### Everything else is indistinguishable from an unknown path -/

/-- A path that is none of the three special ones. -/
def UnknownPath (p : String) : Prop := p ≠ pathHealth ∧ p ≠ pathVersion ∧ p ≠ pathWs

/-- Unknown paths are answered by `backend_or_404_handler`, whatever else the request contains. -/
theorem unknown_path_is_fallback (cfg : Config) (req : Request) (hp : UnknownPath req.path) :
    route cfg req = .fallback ∧ respond cfg req = fallbackResponse cfg req := by
  obtain ⟨h1, h2, h3⟩ := hp
  have hr : route cfg req = .fallback := by simp [route, h1, h2, h3]
  exact ⟨hr, by simp [respond, hr]⟩

/-- Every request to `/ws` that is not upgraded is handed, unchanged, to the very handler that
    serves unknown paths … -/
theorem not_upgrade_is_fallback (cfg : Config) (req : Request) (hp : req.path = pathWs)
    (hn : ∀ h, route cfg req ≠ .upgrade h) :
    route cfg req = .fallback ∧ respond cfg req = fallbackResponse cfg req := by
  have h1 : req.path ≠ pathHealth := hp ▸ ws_ne_health
  have h2 : req.path ≠ pathVersion := hp ▸ ws_ne_version
  have hr : route cfg req = .fallback := by
    have hr := route_ws cfg req hp
    cases hck : wsCheck cfg req with
    | error e => simp [hr, wsDecision, hck]
    | ok a => exact absurd (by simp [hr, wsDecision, hck]) (hn a)
  exact ⟨hr, by simp [respond, hr]⟩

/-- … hence it receives exactly the response (status, headers, body) of the same request on an
    unknown path `p`: always when no backend is configured (the configured 404), and with a backend
    whenever the backend itself answers the two forwarded requests alike. -/
theorem not_upgrade_same_as_unknown_path (cfg : Config) (req : Request) (p : String)
    (hp : req.path = pathWs) (hn : ∀ h, route cfg req ≠ .upgrade h) (hu : UnknownPath p)
    (hb : ∀ b, cfg.backend = some b → b req = b { req with path := p }) :
    respond cfg req = respond cfg { req with path := p } := by
  rw [(not_upgrade_is_fallback cfg req hp hn).2,
    (unknown_path_is_fallback cfg { req with path := p } hu).2]
  unfold fallbackResponse
  cases hbk : cfg.backend with
  | none => rfl
  | some b => exact hb b hbk

/-- With obfuscation on, `/health` and `/version` are served by the unknown-path handler too. -/
theorem obfs_hides (cfg : Config) (req : Request) (ho : cfg.obfs = true)
    (hp : req.path = pathHealth ∨ req.path = pathVersion) :
    route cfg req = .fallback ∧ respond cfg req = fallbackResponse cfg req := by
  have hw : req.path ≠ pathWs := by
    rcases hp with hp | hp <;> rw [hp] <;> decide
  have hr : route cfg req = .fallback := by simp [route, ho, hw]
  exact ⟨hr, by simp [respond, hr]⟩

theorem obfs_same_as_unknown_path (cfg : Config) (req : Request) (p : String) (ho : cfg.obfs = true)
    (hp : req.path = pathHealth ∨ req.path = pathVersion) (hu : UnknownPath p)
    (hb : ∀ b, cfg.backend = some b → b req = b { req with path := p }) :
    respond cfg req = respond cfg { req with path := p } := by
  rw [(obfs_hides cfg req ho hp).2, (unknown_path_is_fallback cfg { req with path := p } hu).2]
  unfold fallbackResponse
  cases hbk : cfg.backend with
  | none => rfl
  | some b => exact hb b hbk

/-- Without obfuscation the two status paths answer for every method and header set. -/
theorem health_version_iff (cfg : Config) (req : Request) :
    (route cfg req = .health ↔ req.path = pathHealth ∧ cfg.obfs = false) ∧
    (route cfg req = .version ↔ req.path = pathVersion ∧ cfg.obfs = false) := by
  by_cases h1 : req.path = pathHealth ∧ cfg.obfs = false
  · rw [route_health cfg req h1]
    simp [h1, health_ne_version]
  · by_cases h2 : req.path = pathVersion ∧ cfg.obfs = false
    · rw [route_version cfg req h1 h2]
      simp [h2, health_ne_version.symm]
    · rw [route_other cfg req h1 h2]
      simp only [h1, h2, iff_false]
      unfold wsDecision
      constructor <;> (split <;> (try split) <;> simp)

/-- The extracted constants are ASCII (so `asciiBytes` is their byte content) and the three special
    paths are pairwise different. -/
theorem constants_ascii :
    (([hdrUpgradeValue, hdrWebsocketValue, hdrWebsocketVersionValue, protocolName, wsAcceptGuid,
        healthBody, pkgVersion].all fun s => s.toList.all fun c => c.toNat < 128) = true) ∧
    [pathHealth, pathVersion, pathWs].Nodup := by
  decide

/-! ### Non-vacuity: concrete requests on both sides of every hypothesis -/

section Examples

private def psk : Bytes := asciiBytes "correct PSK"
private def cfgPsk : Config := { psk := some psk, obfs := true, notFound := asciiBytes "nf", backend := none }
private def cfgOpen : Config := { psk := none, obfs := false, notFound := asciiBytes "nf", backend := none }

private def good : Request :=
  { method := "GET", path := "/ws", onUpgrade := true,
    headers := [("connection", asciiBytes "UpGrAdE"), ("upgrade", asciiBytes "WEBSOCKET"),
                ("sec-websocket-version", asciiBytes "13"), ("sec-websocket-protocol", asciiBytes "Penguin-V7"),
                ("sec-websocket-key", asciiBytes "dGhlIHNhbXBsZSBub25jZQ=="),
                ("x-penguin-psk", asciiBytes "correct PSK")] }

-- RFC 6455 section 1.3 example, evaluated in the kernel through the model's SHA-1 and base64
example : acceptOf (asciiBytes "dGhlIHNhbXBsZSBub25jZQ==") = asciiBytes "s3pPLMBiTxaQ9kYGzzhZRbK+xOo=" := by
  decide +kernel
example : Sha1.digest (asciiBytes "abc") =
    [0xa9, 0x99, 0x3e, 0x36, 0x47, 0x06, 0x81, 0x6a, 0xba, 0x3e, 0x25, 0x71, 0x78, 0x50, 0xc2, 0x6c, 0x9c, 0xd0, 0xd8, 0x9d] := by
  decide +kernel
example : base64 (asciiBytes "fooba") = asciiBytes "Zm9vYmE=" := by decide

-- a valid request is upgraded, with and without a configured key
example : route cfgPsk good = .upgrade (asciiBytes "s3pPLMBiTxaQ9kYGzzhZRbK+xOo=") := by decide +kernel
example : route cfgOpen good = .upgrade (asciiBytes "s3pPLMBiTxaQ9kYGzzhZRbK+xOo=") := by decide +kernel
example : ∃ h, ValidUpgrade cfgPsk good h :=
  ⟨_, (upgrade_iff cfgPsk good _).mp (by decide +kernel : route cfgPsk good = .upgrade (asciiBytes "s3pPLMBiTxaQ9kYGzzhZRbK+xOo="))⟩
-- … and refused for: a case variant / prefix / padded copy of the key, no key, POST, a near-miss value,
-- a bad first value before a good one, no OnUpgrade
private def withPsk (v : Option Bytes) : Request :=
  { good with headers := (good.headers.filter (·.1 ≠ "x-penguin-psk")) ++ (v.map (("x-penguin-psk", ·))).toList }
example : route cfgPsk (withPsk (some (asciiBytes "correct psk"))) = .fallback := by decide +kernel
example : route cfgPsk (withPsk (some (asciiBytes "correct PS"))) = .fallback := by decide +kernel
example : route cfgPsk (withPsk (some (asciiBytes "correct PSK "))) = .fallback := by decide +kernel
example : route cfgPsk (withPsk none) = .fallback := by decide +kernel
example : route cfgOpen (withPsk none) = .upgrade (asciiBytes "s3pPLMBiTxaQ9kYGzzhZRbK+xOo=") := by decide +kernel
example : route cfgOpen { good with method := "POST" } = .fallback := by decide +kernel
example : route cfgOpen { good with method := "get" } = .fallback := by decide +kernel
example : route cfgOpen { good with headers := ("upgrade", asciiBytes "websockets") :: good.headers } = .fallback := by
  decide +kernel
example : route cfgOpen { good with onUpgrade := false } = .fallback := by decide +kernel
example : route cfgOpen { good with path := "/ws/" } = .fallback := by decide +kernel
-- hypotheses of the indistinguishability theorems are satisfiable, and their conclusion is not trivial
example : UnknownPath "/x" := by unfold UnknownPath; decide
example : respond cfgPsk { good with method := "POST" } = { status := 404, headers := [], body := asciiBytes "nf" } := by
  decide +kernel
example : respond cfgPsk { good with path := "/health" } = respond cfgPsk { good with path := "/x" } := by decide +kernel
example : respond cfgOpen { good with path := "/health" } = { status := 200, headers := [], body := asciiBytes "OK" } := by
  decide +kernel
example : (respond cfgOpen good).status = 101 := by decide +kernel

end Examples

/-! ## The client's half: the request `handshake_inner` builds, judged by this gate

`Penguin.Model.ClientReq` mirrors `client/ws_connect.rs:47-69` (tungstenite's request for the server URL,
then `HeaderMap::insert` of the protocol, the key, the host name and every `--header`).  The theorems
below join the two components: they are about `route srv (buildRequest c key)`, the SERVER's decision
on the request the CLIENT builds, for every pair of configurations and every key tungstenite may draw. -/

section ClientRequest
open Penguin.ClientReq

/-- The header names `ws_handler` looks at. -/
def gateNames : List String :=
  ["connection", "upgrade", "sec-websocket-key", "sec-websocket-version", "sec-websocket-protocol", "x-penguin-psk"]

/-- No `--header` of the client names a header the gate looks at. -/
def NoGateOverride (c : ClientCfg) : Prop := ∀ e ∈ c.custom, e.1 ∉ gateNames

/-- The literals extracted from the client's source are the ones extracted from the server's: same
    header names; and both sides take the protocol value from the one `PROTOCOL_VERSION` (`protocolName`). -/
theorem client_and_server_literals_agree :
    clientProtocolHeader = hProtocol ∧ clientPskHeader = pskHeaderName ∧ tungSubprotocolHeader = hProtocol ∧
    tungMethod = methodGet ∧ tungBuilderHeaders.map (·.1) = ["host", hConnection, hUpgrade, hVersion, hKey] ∧
    tungTextHeaders = tungBuilderHeaders.map (·.1) ∧ clientInsertOrderProtocolPskHostCustom = true := by
  decide

/-- What the header map holds under `n` before the custom headers are applied. -/
private def stdValue (c : ClientCfg) (key : Bytes) (n : String) : Option Bytes :=
  if clientHostHeader = n ∧ c.hostname.isSome = true then c.hostname
  else if clientPskHeader = n ∧ c.psk.isSome = true then c.psk
  else if clientProtocolHeader = n then some (asciiBytes protocolName)
  else Gate.get (baseHeaders c.urlHost key) n

private theorem get_build (c : ClientCfg) (key : Bytes) (n : String) :
    Gate.get (buildHeaders c key) n =
      match lastOf c.custom n with
      | some v => some v
      | none => stdValue c key n := by
  unfold buildHeaders
  simp only [get_insertAll]
  cases lastOf c.custom n with
  | some v => rfl
  | none =>
    simp only [stdValue]
    cases c.hostname <;> cases c.psk <;> simp only [get_insert, Option.isSome] <;>
      (repeat' split) <;> simp_all

/-- **The header map after all inserts**, for every configuration: under any name the last `--header`
    of that name if there is one; else `--hostname` under `host`, `--ws-psk` under `x-penguin-psk`,
    the protocol version under `sec-websocket-protocol`, and tungstenite's own headers otherwise. -/
theorem client_request_header_view (c : ClientCfg) (key : Bytes) (n : String) :
    (buildRequest c key).get n =
      match lastOf c.custom n with
      | some v => some v
      | none =>
        if n = "host" ∧ c.hostname.isSome = true then c.hostname
        else if n = "x-penguin-psk" ∧ c.psk.isSome = true then c.psk
        else if n = "sec-websocket-protocol" then some (asciiBytes protocolName)
        else Gate.get (baseHeaders c.urlHost key) n := by
  show Gate.get (buildHeaders c key) n = _
  rw [get_build]
  cases lastOf c.custom n with
  | some v => rfl
  | none =>
    simp only [stdValue, clientHostHeader, clientPskHeader, clientProtocolHeader, eq_comm (b := n)]

private theorem lastOf_none_of_noOverride (c : ClientCfg) (h : NoGateOverride c) (n : String) (hn : n ∈ gateNames) :
    lastOf c.custom n = none :=
  lastOf_none_of_not_mem _ _ fun e he heq => h e he (heq ▸ hn)

/-- **What the gate will read**, when no `--header` names a gate header: tungstenite's `Upgrade`,
    `websocket`, `13` and the drawn key, the protocol version the server wants, and `--ws-psk` (or nothing). -/
theorem client_request_gate_values (c : ClientCfg) (key : Bytes) (h : NoGateOverride c) :
    (buildRequest c key).get "connection" = some (asciiBytes "Upgrade") ∧
    (buildRequest c key).get "upgrade" = some (asciiBytes "websocket") ∧
    (buildRequest c key).get "sec-websocket-version" = some (asciiBytes "13") ∧
    (buildRequest c key).get "sec-websocket-key" = some key ∧
    (buildRequest c key).get "sec-websocket-protocol" = some (asciiBytes protocolName) ∧
    (buildRequest c key).get "x-penguin-psk" = c.psk := by
  have hv : ∀ n, n ∈ gateNames → (buildRequest c key).get n = stdValue c key n := by
    intro n hn
    show Gate.get (buildHeaders c key) n = _
    rw [get_build, lastOf_none_of_noOverride c h n hn]
  refine ⟨?_, ?_, ?_, ?_, ?_, ?_⟩
  · rw [hv _ (by decide)]; simp [stdValue, clientHostHeader, clientPskHeader, clientProtocolHeader, baseHeaders, tungBuilderHeaders, Gate.get]
  · rw [hv _ (by decide)]; simp [stdValue, clientHostHeader, clientPskHeader, clientProtocolHeader, baseHeaders, tungBuilderHeaders, Gate.get]
  · rw [hv _ (by decide)]; simp [stdValue, clientHostHeader, clientPskHeader, clientProtocolHeader, baseHeaders, tungBuilderHeaders, Gate.get]
  · rw [hv _ (by decide)]; simp [stdValue, clientHostHeader, clientPskHeader, clientProtocolHeader, baseHeaders, tungBuilderHeaders, Gate.get]
  · rw [hv _ (by decide)]; simp [stdValue, clientHostHeader, clientPskHeader, clientProtocolHeader]
  · rw [hv _ (by decide)]
    cases hp : c.psk <;> simp [hp, stdValue, clientHostHeader, clientPskHeader, clientProtocolHeader, baseHeaders, tungBuilderHeaders, Gate.get]

/-- **The request is well formed**, for every configuration (custom headers included): method `GET`,
    `OnUpgrade` attached, at most one value under any name (every step is an `insert`), and exactly one
    under `host`, the four headers the gate compares, the key and the protocol. -/
theorem client_request_well_formed (c : ClientCfg) (key : Bytes) :
    (buildRequest c key).method = "GET" ∧ (buildRequest c key).onUpgrade = true ∧
    (buildRequest c key).path = pathOfTarget c.target ∧
    (∀ n, (valuesOf (buildRequest c key).headers n).length ≤ 1) ∧
    (∀ n ∈ ["host", "connection", "upgrade", "sec-websocket-version", "sec-websocket-key", "sec-websocket-protocol"],
      ∃ v, valuesOf (buildRequest c key).headers n = [v]) := by
  have hnames : (baseHeaders c.urlHost key).map (·.1) = tungBuilderHeaders.map (·.1) := by
    simp [baseHeaders, List.map_map, Function.comp_def]
  have hbase : ∀ n, (valuesOf (baseHeaders c.urlHost key) n).length ≤ 1 := fun n =>
    valuesOf_length_le_one _ n (by rw [hnames]; decide)
  have hall : ∀ n, valuesOf (buildRequest c key).headers n =
      match lastOf c.custom n with
      | some v => [v]
      | none =>
        if clientHostHeader = n ∧ c.hostname.isSome = true then c.hostname.toList
        else if clientPskHeader = n ∧ c.psk.isSome = true then c.psk.toList
        else if clientProtocolHeader = n then [asciiBytes protocolName]
        else valuesOf (baseHeaders c.urlHost key) n := by
    intro n
    show valuesOf (buildHeaders c key) n = _
    unfold buildHeaders
    simp only [valuesOf_insertAll]
    cases lastOf c.custom n with
    | some v => rfl
    | none =>
      cases c.hostname <;> cases c.psk <;> simp only [valuesOf_insert, Option.isSome, Option.toList] <;>
        (repeat' split) <;> simp_all
  refine ⟨rfl, rfl, rfl, ?_, ?_⟩
  · intro n
    rw [hall]
    cases lastOf c.custom n with
    | some v => simp
    | none =>
      simp only
      (repeat' split) <;> first | exact hbase n | (cases c.hostname <;> simp_all) | (cases c.psk <;> simp_all) | simp
  · intro n hn
    rw [hall]
    cases lastOf c.custom n with
    | some v => exact ⟨v, rfl⟩
    | none =>
      simp only [List.mem_cons, List.not_mem_nil, or_false] at hn
      rcases hn with rfl | rfl | rfl | rfl | rfl | rfl <;>
        cases c.hostname <;> cases c.psk <;>
        simp [clientHostHeader, clientPskHeader, clientProtocolHeader, baseHeaders, tungBuilderHeaders, valuesOf]

/-- The decision on a request the gate reads these values from. -/
private theorem route_of_view (srv : Config) (r : Request) (k : Bytes)
    (hm : r.method = methodGet) (hp : r.path = pathWs) (hu : r.onUpgrade = true)
    (h1 : headerMatches (r.get hConnection) hdrUpgradeValue = true)
    (h2 : headerMatches (r.get hUpgrade) hdrWebsocketValue = true)
    (h3 : headerMatches (r.get hVersion) hdrWebsocketVersionValue = true)
    (h4 : headerMatches (r.get hProtocol) protocolName = true)
    (hk : r.get hKey = some k) :
    route srv r = if srv.psk = none ∨ r.get pskHeaderName = srv.psk then .upgrade (acceptOf k) else .fallback := by
  rw [route_ws srv r hp]
  unfold wsDecision wsCheck
  by_cases hpsk : srv.psk = none ∨ r.get pskHeaderName = srv.psk
  · have hn : ¬ (srv.psk.isSome = true ∧ r.get pskHeaderName ≠ srv.psk) := by
      rcases hpsk with h | h
      · simp [h]
      · simp [h]
    simp [hm, hn, hk, h1, h2, h3, h4, hu, hpsk]
  · have hn : srv.psk.isSome = true ∧ r.get pskHeaderName ≠ srv.psk := by
      cases hs : srv.psk with
      | none => exact absurd (Or.inl hs) hpsk
      | some p => exact ⟨rfl, fun h => hpsk (Or.inr (hs ▸ h))⟩
    have hne : srv.psk ≠ none := fun h => hpsk (Or.inl h)
    simp [hm, hn, hne]

/-- **The server's decision on the client's request**, for every pair of configurations and every
    key: a tunnel, answered with the accept hash of the client's own key, if the server has no key or
    the two keys are the same byte string; the fallback otherwise.  (`c.psk = none` differs from every
    configured key: a client without `--ws-psk` never gets past a server with one.) -/
theorem client_request_decision (srv : Config) (c : ClientCfg) (key : Bytes)
    (ho : NoGateOverride c) (hp : pathOfTarget c.target = pathWs) :
    route srv (buildRequest c key) =
      if srv.psk = none ∨ srv.psk = c.psk then .upgrade (acceptOf key) else .fallback := by
  obtain ⟨g1, g2, g3, g4, g5, g6⟩ := client_request_gate_values c key ho
  have hc := client_and_server_literals_agree
  rw [route_of_view srv (buildRequest c key) key hc.2.2.2.1 hp rfl
    (by rw [show hConnection = "connection" from rfl, g1]; decide)
    (by rw [show hUpgrade = "upgrade" from rfl, g2]; decide)
    (by rw [show hVersion = "sec-websocket-version" from rfl, g3]; decide)
    (by rw [show hProtocol = "sec-websocket-protocol" from rfl, g5]; simp [headerMatches, (eqIgnoreAsciiCase_iff _ _).mpr])
    (by rw [show hKey = "sec-websocket-key" from rfl, g4])]
  rw [show pskHeaderName = "x-penguin-psk" from rfl, g6]
  simp only [eq_comm (a := c.psk)]

/-- **A client with the right key always gets in, a client with a wrong or no key never does, a client
    that sends a key to a key-less server gets in**: for every client configuration whose `--header`s
    leave the gate's headers alone and whose URL names the tunnel path, every server configuration and
    every key, the server opens a tunnel and answers with the accept hash of that key if and only if it
    has no pre-shared key or has exactly the client's. -/
theorem client_request_opens_tunnel_iff (srv : Config) (c : ClientCfg) (key : Bytes)
    (ho : NoGateOverride c) (hp : pathOfTarget c.target = pathWs) :
    route srv (buildRequest c key) = .upgrade (acceptOf key) ↔ (srv.psk = none ∨ srv.psk = c.psk) := by
  rw [client_request_decision srv c key ho hp]
  by_cases h : srv.psk = none ∨ srv.psk = c.psk <;> simp [h]

/-- … and no other accept hash is ever sent for it, so: no tunnel at all unless the keys agree. -/
theorem client_request_tunnel_only_if_keys_agree (srv : Config) (c : ClientCfg) (key h : Bytes)
    (ho : NoGateOverride c) (hp : pathOfTarget c.target = pathWs)
    (hu : route srv (buildRequest c key) = .upgrade h) :
    h = acceptOf key ∧ (srv.psk = none ∨ srv.psk = c.psk) := by
  rw [client_request_decision srv c key ho hp] at hu
  by_cases hk : srv.psk = none ∨ srv.psk = c.psk
  · simp only [hk, if_true, Decision.upgrade.injEq] at hu
    exact ⟨hu.symm, hk⟩
  · simp [hk] at hu

/-- **The handshake completes exactly when the keys agree** (model of the black box on the client's
    side: tungstenite's `verify_response`, which wants status 101, `upgrade`/`connection`, the accept
    hash of the key it sent and one of the subprotocols it asked for): without a backend (whose answers
    are its own) the client accepts the server's answer to its request iff the server has no key or the
    client's.  The 101 carries `acceptOf key` and `penguin-v7`, which is what the client checks. -/
theorem handshake_completes_iff (srv : Config) (c : ClientCfg) (key : Bytes)
    (ho : NoGateOverride c) (hp : pathOfTarget c.target = pathWs) (hb : srv.backend = none) :
    clientAccepts (buildRequest c key).headers (respond srv (buildRequest c key)) = true ↔
      (srv.psk = none ∨ srv.psk = c.psk) := by
  obtain ⟨_, _, _, g4, g5, _⟩ := client_request_gate_values c key ho
  have g4' : Gate.get (buildRequest c key).headers hKey = some key := g4
  have g5' : Gate.get (buildRequest c key).headers tungSubprotocolHeader = some (asciiBytes protocolName) := g5
  unfold respond
  rw [client_request_decision srv c key ho hp]
  by_cases hk : srv.psk = none ∨ srv.psk = c.psk
  · simp only [hk, if_true, iff_true]
    unfold clientAccepts
    rw [g4', g5']
    have hsub : (splitComma (asciiBytes protocolName)).map trimOws = [asciiBytes protocolName] := by decide
    simp only [Option.map, hsub, upgradeResponse, Option.getD]
    have e1 : Gate.get [(hConnection, asciiBytes hdrUpgradeValue), (hUpgrade, asciiBytes hdrWebsocketValue),
        (hProtocol, asciiBytes protocolName), (hAccept, acceptOf key)] hUpgrade = some (asciiBytes hdrWebsocketValue) := by
      simp [Gate.get, hConnection, hUpgrade]
    have e2 : Gate.get [(hConnection, asciiBytes hdrUpgradeValue), (hUpgrade, asciiBytes hdrWebsocketValue),
        (hProtocol, asciiBytes protocolName), (hAccept, acceptOf key)] hConnection = some (asciiBytes hdrUpgradeValue) := by
      simp [Gate.get]
    have e3 : Gate.get [(hConnection, asciiBytes hdrUpgradeValue), (hUpgrade, asciiBytes hdrWebsocketValue),
        (hProtocol, asciiBytes protocolName), (hAccept, acceptOf key)] hAccept = some (acceptOf key) := by
      simp [Gate.get, hConnection, hUpgrade, hProtocol, hAccept]
    have e4 : Gate.get [(hConnection, asciiBytes hdrUpgradeValue), (hUpgrade, asciiBytes hdrWebsocketValue),
        (hProtocol, asciiBytes protocolName), (hAccept, acceptOf key)] hProtocol = some (asciiBytes protocolName) := by
      simp [Gate.get, hConnection, hUpgrade, hProtocol]
    have t1 : textIs (some (asciiBytes hdrWebsocketValue)) "websocket" = true := by decide
    have t2 : textIs (some (asciiBytes hdrUpgradeValue)) "Upgrade" = true := by decide
    rw [e1, e2, e3, e4, t1, t2]
    have e5 : toStrOk (asciiBytes protocolName) = true := by decide
    simp [statusSwitchingProtocols, e5]
  · simp only [hk, if_false, iff_false]
    simp [clientAccepts, fallbackResponse, hb, notFoundResponse, statusNotFound]

/-- **A `--header x-penguin-psk: v` given last REPLACES the configured key** (the last insert wins):
    whatever `--ws-psk` says, the request presents `v`. -/
theorem custom_psk_header_replaces_key (c : ClientCfg) (key v : Bytes) :
    (buildRequest { c with custom := c.custom ++ [("x-penguin-psk", v)] } key).get "x-penguin-psk" = some v := by
  rw [client_request_header_view, lastOf_append_single]

/-- The configuration of the witnesses below: right key `K1`, URL `…/ws`, no custom header. -/
def witnessClient : ClientCfg :=
  { target := "/ws", urlHost := asciiBytes "server.example:443", psk := some (asciiBytes "K1"), hostname := none, custom := [] }

def witnessServer (k : String) : Config :=
  { psk := some (asciiBytes k), obfs := false, notFound := asciiBytes "nf", backend := none }

def witnessKey : Bytes := asciiBytes "dGhlIHNhbXBsZSBub25jZQ=="

/-- **Custom headers can break the handshake or fake the key** - consequences of the insert order, stated
    as they are: with the right key `K1` the client gets in; the same client with `--header
    sec-websocket-protocol: other` or `--header upgrade: h2c` gets the fallback (404) from the same server;
    with `--header x-penguin-psk: K2` it is refused by the `K1` server although `--ws-psk K1` is right, and
    admitted by a `K2` server although `--ws-psk K1` is wrong. -/
theorem custom_header_can_break_or_fake :
    route (witnessServer "K1") (buildRequest witnessClient witnessKey) = .upgrade (acceptOf witnessKey) ∧
    route (witnessServer "K1")
      (buildRequest { witnessClient with custom := [("sec-websocket-protocol", asciiBytes "other")] } witnessKey) = .fallback ∧
    route (witnessServer "K1")
      (buildRequest { witnessClient with custom := [("upgrade", asciiBytes "h2c")] } witnessKey) = .fallback ∧
    route (witnessServer "K1")
      (buildRequest { witnessClient with custom := [("x-penguin-psk", asciiBytes "K2")] } witnessKey) = .fallback ∧
    route (witnessServer "K2")
      (buildRequest { witnessClient with custom := [("x-penguin-psk", asciiBytes "K2")] } witnessKey) = .upgrade (acceptOf witnessKey) := by
  decide +kernel

/-- The decision depends on the request through its method, path, `OnUpgrade` and the six gate headers only. -/
private theorem route_congr (srv : Config) (r r' : Request) (hm : r.method = r'.method) (hp : r.path = r'.path)
    (hu : r.onUpgrade = r'.onUpgrade) (hg : ∀ n ∈ gateNames, r.get n = r'.get n) : route srv r = route srv r' := by
  have h1 : r.get hConnection = r'.get hConnection := hg _ (by decide)
  have h2 : r.get hUpgrade = r'.get hUpgrade := hg _ (by decide)
  have h3 : r.get hVersion = r'.get hVersion := hg _ (by decide)
  have h4 : r.get hProtocol = r'.get hProtocol := hg _ (by decide)
  have h5 : r.get hKey = r'.get hKey := hg _ (by decide)
  have h6 : r.get pskHeaderName = r'.get pskHeaderName := hg _ (by decide)
  simp only [route, wsDecision, wsCheck, hm, hp, hu, h1, h2, h3, h4, h5, h6]

/-- **`--hostname` changes nothing the gate looks at**: under every name but `host` the request holds
    what it held, and every server decides on it as before. -/
theorem hostname_only_changes_host (c : ClientCfg) (key : Bytes) (h : Option Bytes) :
    (∀ n, n ≠ "host" → (buildRequest { c with hostname := h } key).get n = (buildRequest c key).get n) ∧
    (∀ srv, route srv (buildRequest { c with hostname := h } key) = route srv (buildRequest c key)) := by
  have hv : ∀ n, n ≠ "host" → (buildRequest { c with hostname := h } key).get n = (buildRequest c key).get n := by
    intro n hn
    rw [client_request_header_view, client_request_header_view]
    simp [hn]
  refine ⟨hv, fun srv => route_congr srv _ _ rfl rfl rfl fun n hn => hv n ?_⟩
  intro heq
  rw [heq] at hn
  exact absurd hn (by decide)

/-! ### What travels: the request as the server's parser hands it on, and keys from the command line -/

/-- `sent` writes the request `buildRequest` describes or nothing at all. -/
theorem sent_is_the_built_request (c : ClientCfg) (key : Bytes) (r : Request) (h : sent c key = .ok r) :
    r = buildRequest c key := by
  unfold sent at h
  split at h
  · cases h
  · dsimp only at h
    split at h
    · cases h
    · injection h with h; exact h.symm

/-- **On the wire** a header value loses its outer blanks (RFC 9110 5.5; hyper's parser): the server opens
    the tunnel for the client's request as it ARRIVES iff it has no key or its key is the client's
    without the blanks around it.  So a key kept with such padding on both sides would never match. -/
theorem received_request_opens_tunnel_iff (srv : Config) (c : ClientCfg) (key : Bytes)
    (ho : NoGateOverride c) (hp : pathOfTarget c.target = pathWs) :
    route srv (received (buildRequest c key)) = .upgrade (acceptOf (trimOws key)) ↔
      (srv.psk = none ∨ srv.psk = c.psk.map trimOws) := by
  obtain ⟨g1, g2, g3, g4, g5, g6⟩ := client_request_gate_values c key ho
  have hc := client_and_server_literals_agree
  rw [route_of_view srv (received (buildRequest c key)) (trimOws key) hc.2.2.2.1 hp rfl
    (by rw [get_received, show hConnection = "connection" from rfl, g1]; decide)
    (by rw [get_received, show hUpgrade = "upgrade" from rfl, g2]; decide)
    (by rw [get_received, show hVersion = "sec-websocket-version" from rfl, g3]; decide)
    (by rw [get_received, show hProtocol = "sec-websocket-protocol" from rfl, g5]; decide)
    (by rw [get_received, show hKey = "sec-websocket-key" from rfl, g4]; rfl)]
  rw [get_received, show pskHeaderName = "x-penguin-psk" from rfl, g6]
  by_cases h : srv.psk = none ∨ srv.psk = Option.map trimOws c.psk
  · have h' : srv.psk = none ∨ Option.map trimOws c.psk = srv.psk := h.imp id Eq.symm
    simp [h, h']
  · have h' : ¬ (srv.psk = none ∨ Option.map trimOws c.psk = srv.psk) := fun x => h (x.imp id Eq.symm)
    simp [h, h']

/-- The key `--ws-psk <text>` configures has no blanks around it, on either side (`parse_ws_psk`). -/
theorem parsed_key_has_no_outer_blanks (text : Bytes) : NoOuterOws (parsePsk text) := by
  have : parsePsk text = trimOws text := by simp [parsePsk, pskArgTrimsOws]
  rw [this]
  exact noOuter_trimOws text

/-- **From the command line to the tunnel**: with the client's key as `--ws-psk` configures it, the
    server opens the tunnel for the request as it arrives iff it has no key or the two configured keys
    are equal - the white space rule of the wire cannot come between two equal keys. -/
theorem command_line_keys_open_tunnel_iff (srv : Config) (c : ClientCfg) (key : Bytes) (tc : Option Bytes)
    (ho : NoGateOverride c) (hp : pathOfTarget c.target = pathWs) (hcl : c.psk = tc.map parsePsk) :
    route srv (received (buildRequest c key)) = .upgrade (acceptOf (trimOws key)) ↔
      (srv.psk = none ∨ srv.psk = c.psk) := by
  rw [received_request_opens_tunnel_iff srv c key ho hp]
  have : c.psk.map trimOws = c.psk := by
    rw [hcl]
    cases tc with
    | none => rfl
    | some t => simp [trimOws_of_noOuter _ (parsed_key_has_no_outer_blanks t)]
  rw [this]

/-- … in particular the same `--ws-psk <text>` typed on both sides, blanks around it or not, opens the
    tunnel (it did not before `parse_ws_psk`: see the padded example below). -/
theorem same_key_text_opens_tunnel (srv : Config) (c : ClientCfg) (key text : Bytes)
    (ho : NoGateOverride c) (hp : pathOfTarget c.target = pathWs)
    (hs : srv.psk = some (parsePsk text)) (hcl : c.psk = some (parsePsk text)) :
    route srv (received (buildRequest c key)) = .upgrade (acceptOf (trimOws key)) :=
  (command_line_keys_open_tunnel_iff srv c key (some text) ho hp hcl).mpr (Or.inr (hs.trans hcl.symm))

/-! ### The server URL -/

private theorem schemeRow_eq (s : String) :
    schemeRow s = if s = "http" ∨ s = "ws" then some ("ws", 80)
      else if s = "https" ∨ s = "wss" then some ("wss", 443) else none := by
  simp only [schemeRow, urlSchemeTable, List.find?_cons, List.find?_nil, List.contains_cons, List.contains_nil,
    Bool.or_false]
  have e1 : (s == "http" || s == "ws") = decide (s = "http" ∨ s = "ws") := by
    by_cases a : s = "http" <;> by_cases b : s = "ws" <;> simp [a, b]
  have e2 : (s == "https" || s == "wss") = decide (s = "https" ∨ s = "wss") := by
    by_cases a : s = "https" <;> by_cases b : s = "wss" <;> simp [a, b]
  rw [e1, e2]
  by_cases h1 : s = "http" ∨ s = "ws"
  · simp [h1]
  · by_cases h2 : s = "https" ∨ s = "wss"
    · simp [h1, h2]
    · simp [h1, h2]

/-- `ServerUrl::from_str` accepts exactly the four schemes (spelled as `http::Uri` reports them: `http` and
    `https` in any case, `ws` and `wss` in lower case only) with a host. -/
theorem normalize_ok_iff (u : UrlParts) :
    (∃ n, normalizeUrl u = .ok n) ↔
      ((u.scheme = "http" ∨ u.scheme = "ws" ∨ u.scheme = "https" ∨ u.scheme = "wss") ∧ u.authority.isSome = true) := by
  unfold normalizeUrl
  rw [schemeRow_eq]
  by_cases h1 : u.scheme = "http" ∨ u.scheme = "ws"
  · have : u.scheme = "http" ∨ u.scheme = "ws" ∨ u.scheme = "https" ∨ u.scheme = "wss" := by
      rcases h1 with h | h <;> simp [h]
    cases ha : u.authority <;> simp [h1, this]
  · by_cases h2 : u.scheme = "https" ∨ u.scheme = "wss"
    · have : u.scheme = "http" ∨ u.scheme = "ws" ∨ u.scheme = "https" ∨ u.scheme = "wss" := by
        rcases h2 with h | h <;> simp [h]
      cases ha : u.authority <;> simp [h1, h2]
    · have : ¬ (u.scheme = "http" ∨ u.scheme = "ws" ∨ u.scheme = "https" ∨ u.scheme = "wss") := by
        intro h
        rcases h with h | h | h | h
        · exact h1 (Or.inl h)
        · exact h1 (Or.inr h)
        · exact h2 (Or.inl h)
        · exact h2 (Or.inr h)
      simp [h1, h2]

/-- **Which path the client asks for**: the URL's own path and query, `/` if it has none - `/ws` is
    neither forced nor appended.  The request reaches `ws_handler` iff the user's URL spells the
    tunnel path; the scheme becomes one tungstenite takes (`ws`/`wss`), the port is added only when missing. -/
theorem normalized_url_reaches_gate_path (u : UrlParts) (n : ServerUrl) (h : normalizeUrl u = .ok n) :
    n.scheme ∈ tungSchemes ∧
    n.target = u.pathAndQuery.getD "/" ∧
    (n.addedPort.isSome = true ↔ u.hasPort = false) ∧
    (pathOfTarget n.target = pathWs ↔ ∃ pq, u.pathAndQuery = some pq ∧ pathOfTarget pq = "/ws") := by
  unfold normalizeUrl at h
  have hrow : ∀ s p, schemeRow u.scheme = some (s, p) → s ∈ tungSchemes := by
    intro s p hs
    rw [schemeRow_eq] at hs
    split at hs
    · injection hs with hs; injection hs with hs _; subst hs; decide
    · split at hs
      · injection hs with hs; injection hs with hs _; subst hs; decide
      · cases hs
  cases hs : schemeRow u.scheme with
  | none => simp [hs] at h
  | some row =>
    obtain ⟨s, p⟩ := row
    cases ha : u.authority with
    | none => simp [hs, ha] at h
    | some a =>
      simp only [hs, ha, Except.ok.injEq] at h
      subst h
      refine ⟨hrow s p hs, rfl, ?_, ?_⟩
      · cases u.hasPort <;> simp
      · cases hq : u.pathAndQuery with
        | none =>
          simp only [Option.getD, urlDefaultPathAndQuery]
          constructor
          · intro hx; exact absurd hx (by decide)
          · rintro ⟨pq, hpq, _⟩; cases hpq
        | some pq => simp [pathWs]

/-- **A URL that does not spell the tunnel path never opens a tunnel**, whatever the keys: the
    misconfiguration `penguin client ws://server 1080:…` (no `/ws`) is answered by the fallback handler
    (a 404 or the backend), indistinguishable from a wrong key. -/
theorem url_without_tunnel_path_never_opens_tunnel (srv : Config) (c : ClientCfg) (key : Bytes)
    (hp : pathOfTarget c.target ≠ pathWs) : ∀ h, route srv (buildRequest c key) ≠ .upgrade h := by
  intro h hu
  exact hp ((upgrade_iff srv _ h).mp hu).2.1

theorem url_without_path_gets_fallback (u : UrlParts) (n : ServerUrl) (h : normalizeUrl u = .ok n)
    (hnone : u.pathAndQuery = none) (srv : Config) (c : ClientCfg) (key : Bytes) (hc : c.target = n.target) :
    route srv (buildRequest c key) = .fallback := by
  have ht := (normalized_url_reaches_gate_path u n h).2.1
  rw [hnone] at ht
  have hpath : (buildRequest c key).path = "/" := by
    show pathOfTarget c.target = "/"
    rw [hc, ht]; decide
  exact (unknown_path_is_fallback srv _ (by rw [hpath]; unfold UnknownPath; decide)).1

/-! ### Non-vacuity of the client theorems -/

section ClientExamples

private def cliOdd : ClientCfg :=
  { target := "/ws?token=1", urlHost := asciiBytes "127.0.0.1:8080", psk := some (asciiBytes "correct PSK"),
    hostname := some (asciiBytes "front.example"), custom := [("x-trace", asciiBytes "1"), ("host", asciiBytes "other.example")] }

-- the hypotheses hold for a non-trivial configuration (a query, a host name, two custom headers) …
example : NoGateOverride cliOdd := by unfold NoGateOverride; decide
example : pathOfTarget cliOdd.target = pathWs := by decide
-- … and fail for one that overrides a gate header
example : ¬ NoGateOverride { cliOdd with custom := [("upgrade", asciiBytes "h2c")] } := by
  unfold NoGateOverride; decide
-- both sides of the iff occur
example : route cfgPsk (buildRequest cliOdd witnessKey) = .upgrade (acceptOf witnessKey) := by decide +kernel
example : route cfgPsk (buildRequest { cliOdd with psk := some (asciiBytes "correct psk") } witnessKey) = .fallback := by
  decide +kernel
example : route cfgPsk (buildRequest { cliOdd with psk := none } witnessKey) = .fallback := by decide +kernel
example : route cfgOpen (buildRequest cliOdd witnessKey) = .upgrade (acceptOf witnessKey) := by decide +kernel
-- the request itself: the last `host` wins over `--hostname`, which wins over the URL's host
example : (buildRequest cliOdd witnessKey).headers =
    [("host", asciiBytes "other.example"), ("connection", asciiBytes "Upgrade"), ("upgrade", asciiBytes "websocket"),
     ("sec-websocket-version", asciiBytes "13"), ("sec-websocket-key", witnessKey),
     ("sec-websocket-protocol", asciiBytes "penguin-v7"), ("x-penguin-psk", asciiBytes "correct PSK"),
     ("x-trace", asciiBytes "1")] := by decide
-- the client accepts the 101 and not the 404
example : clientAccepts (buildRequest cliOdd witnessKey).headers (respond cfgPsk (buildRequest cliOdd witnessKey)) = true := by
  decide +kernel
example : clientAccepts (buildRequest { cliOdd with psk := none } witnessKey).headers
    (respond cfgPsk (buildRequest { cliOdd with psk := none } witnessKey)) = false := by decide +kernel
-- what is not sent
example : sent { cliOdd with hostname := some [0xc3, 0xbc] } witnessKey = .error .hostnameNotText := by decide
example : sent { cliOdd with custom := [("upgrade", [0x77, 0xc3, 0xa9])] } witnessKey = .error (.valueNotText "upgrade") := by decide
example : sent cliOdd witnessKey = .ok (buildRequest cliOdd witnessKey) := by decide
-- padding: the same padded key on both sides is refused on arrival; `--ws-psk` drops the padding
example : route { cfgPsk with psk := some (asciiBytes " k") }
    (received (buildRequest { cliOdd with psk := some (asciiBytes " k") } witnessKey)) = .fallback := by decide +kernel
example : parsePsk (asciiBytes " \tk e y\t ") = asciiBytes "k e y" := by decide
example : trimOws (asciiBytes "  ") = [] := by decide
-- URLs
example : normalizeUrl { scheme := "https", authority := some "server.example", hasPort := false, pathAndQuery := some "/ws" } =
    .ok { scheme := "wss", authority := "server.example", addedPort := some 443, target := "/ws" } := by decide
example : normalizeUrl { scheme := "ws", authority := some "server.example:8080", hasPort := true, pathAndQuery := none } =
    .ok { scheme := "ws", authority := "server.example:8080", addedPort := none, target := "/" } := by decide
example : normalizeUrl { scheme := "WS", authority := some "server.example", hasPort := false, pathAndQuery := none } =
    .error .incorrectScheme := by decide
example : normalizeUrl { scheme := "ws", authority := none, hasPort := false, pathAndQuery := none } = .error .missingHost := by
  decide
example : route cfgOpen (buildRequest { cliOdd with target := "/" } witnessKey) = .fallback := by decide +kernel

end ClientExamples

end ClientRequest

end Penguin.C14
