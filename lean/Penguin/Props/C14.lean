/-
C14 — The server opens a tunnel only for fully valid, authenticated upgrade requests.
Property theorems only, over `Penguin.Model.Gate` (`service.rs:313-430`), for every request and every
configuration (any header list, any pre-shared key, any backend function), no bounds.

About the `OnUpgrade` extension: `ws_handler` also falls back when hyper attached no `OnUpgrade`
extension to the request (`service.rs:348-351`).  The model carries this as the Boolean
`Request.onUpgrade` of the request's environment; it appears as the last conjunct of `ValidUpgrade`.
hyper attaches the extension to every HTTP/1.1 request that has an `Upgrade` header, so for requests
arriving over an HTTP/1.1 connection the conjunct follows from the `upgrade: websocket` conjunct
(that step is hyper's, it is exercised by the harness over a real connection, not proved here).
-/
import Penguin.Model.Gate

namespace Penguin.C14
open Penguin Penguin.Gate Penguin.Constants

/-- The header `name` is present and its first value equals `wanted` up to ASCII case. -/
def HeaderIs (req : Request) (name wanted : String) : Prop :=
  ∃ v, req.get name = some v ∧ eqIgnoreAsciiCase v (asciiBytes wanted) = true

/-- "A fully valid, authenticated upgrade request", and the accept hash it is answered with. -/
def ValidUpgrade (cfg : Config) (req : Request) (accept : Bytes) : Prop :=
  req.method = "GET" ∧ req.path = "/ws" ∧
  HeaderIs req "connection" "upgrade" ∧
  HeaderIs req "upgrade" "websocket" ∧
  HeaderIs req "sec-websocket-version" "13" ∧
  HeaderIs req "sec-websocket-protocol" protocolName ∧
  (∃ key, req.get "sec-websocket-key" = some key ∧ accept = acceptOf key) ∧
  (cfg.psk = none ∨ req.get "x-penguin-psk" = cfg.psk) ∧
  req.onUpgrade = true

/-! ### What "compared case-insensitively" and "first value" mean -/

/-- `eq_ignore_ascii_case` holds exactly when the two byte strings are equal after mapping
    `A`–`Z` to `a`–`z` (so: same length, no trimming, no other folding). -/
theorem eqIgnoreAsciiCase_iff (a b : Bytes) :
    eqIgnoreAsciiCase a b = true ↔ a.map asciiLower = b.map asciiLower := by
  induction a generalizing b with
  | nil => cases b <;> simp [eqIgnoreAsciiCase]
  | cons x xs ih => cases b <;> simp [eqIgnoreAsciiCase, ih]

/-- A header lookup sees the first value of a name only (`HeaderMap::get`). -/
theorem get_first (name : String) (v : Bytes) (rest : List (String × Bytes)) :
    Gate.get ((name, v) :: rest) name = some v := by
  simp [Gate.get]

theorem get_skip (n name : String) (v : Bytes) (rest : List (String × Bytes)) (h : n ≠ name) :
    Gate.get ((n, v) :: rest) name = Gate.get rest name := by
  simp [Gate.get, h]

private theorem headerMatches_iff (req : Request) (name wanted : String) :
    headerMatches (req.get name) wanted = true ↔ HeaderIs req name wanted := by
  unfold headerMatches HeaderIs
  cases req.get name <;> simp

/-! ### The characterisation -/

private theorem ws_ne_health : pathWs ≠ pathHealth := by decide
private theorem ws_ne_version : pathWs ≠ pathVersion := by decide
private theorem health_ne_version : pathHealth ≠ pathVersion := by decide

private theorem route_health (cfg : Config) (req : Request) (h : req.path = pathHealth ∧ cfg.obfs = false) :
    route cfg req = .health := by
  unfold route; rw [if_pos h]

private theorem route_version (cfg : Config) (req : Request)
    (h1 : ¬ (req.path = pathHealth ∧ cfg.obfs = false)) (h2 : req.path = pathVersion ∧ cfg.obfs = false) :
    route cfg req = .version := by
  unfold route; rw [if_neg h1, if_pos h2]

private theorem route_other (cfg : Config) (req : Request)
    (h1 : ¬ (req.path = pathHealth ∧ cfg.obfs = false)) (h2 : ¬ (req.path = pathVersion ∧ cfg.obfs = false)) :
    route cfg req = if req.path = pathWs then wsDecision cfg req else .fallback := by
  unfold route; rw [if_neg h1, if_neg h2]

private theorem route_ws (cfg : Config) (req : Request) (hp : req.path = pathWs) :
    route cfg req = wsDecision cfg req := by
  rw [route_other cfg req (fun h => ws_ne_health (hp.symm.trans h.1))
    (fun h => ws_ne_version (hp.symm.trans h.1)), if_pos hp]

private theorem wsCheck_ok_iff (cfg : Config) (req : Request) (h : Bytes) :
    wsCheck cfg req = .ok h ↔
      req.method = methodGet ∧
      HeaderIs req hConnection hdrUpgradeValue ∧ HeaderIs req hUpgrade hdrWebsocketValue ∧
      HeaderIs req hVersion hdrWebsocketVersionValue ∧ HeaderIs req hProtocol protocolName ∧
      (∃ key, req.get hKey = some key ∧ h = acceptOf key) ∧
      (cfg.psk = none ∨ req.get pskHeaderName = cfg.psk) ∧ req.onUpgrade = true := by
  simp only [← headerMatches_iff]
  unfold wsCheck
  by_cases hm : req.method = methodGet
  · have hpsk : (cfg.psk.isSome = true ∧ req.get pskHeaderName ≠ cfg.psk) ↔
        ¬ (cfg.psk = none ∨ req.get pskHeaderName = cfg.psk) := by
      cases cfg.psk <;> simp
    by_cases hp : (cfg.psk = none ∨ req.get pskHeaderName = cfg.psk)
    · have hp' : ¬ (cfg.psk.isSome = true ∧ req.get pskHeaderName ≠ cfg.psk) := by
        rw [hpsk]; exact fun hn => hn hp
      simp only [hm, hp', hp, ne_eq, not_true_eq_false, if_false, true_and]
      cases hk : req.get hKey with
      | none => simp
      | some key =>
        cases h1 : headerMatches (req.get hConnection) hdrUpgradeValue <;>
        cases h2 : headerMatches (req.get hUpgrade) hdrWebsocketValue <;>
        cases h3 : headerMatches (req.get hVersion) hdrWebsocketVersionValue <;>
        cases h4 : headerMatches (req.get hProtocol) protocolName <;>
        cases h5 : req.onUpgrade <;>
        simp [eq_comm]
    · have hp' : (cfg.psk.isSome = true ∧ req.get pskHeaderName ≠ cfg.psk) := hpsk.mpr hp
      have hp1 : cfg.psk ≠ none := fun h => hp (Or.inl h)
      simp [hm, hp', hp1]
  · simp [hm]

/-- **The server decides to upgrade — answer 101 with accept hash `h` and start the tunnel — if and
    only if** the request is a GET for `/ws` whose `connection`, `upgrade`,
    `sec-websocket-version` and `sec-websocket-protocol` headers equal `upgrade`, `websocket`, `13`,
    `penguin-v7` up to ASCII case, a `sec-websocket-key` is present and `h` is its RFC 6455 accept
    hash, the `x-penguin-psk` header is byte-for-byte the configured key when one is configured, and
    hyper made the connection upgradable (`onUpgrade`). Neither `obfs` nor the backend matter. -/
theorem upgrade_iff (cfg : Config) (req : Request) (h : Bytes) :
    route cfg req = .upgrade h ↔ ValidUpgrade cfg req h := by
  unfold ValidUpgrade
  have hc := wsCheck_ok_iff cfg req h
  simp only [hConnection, hUpgrade, hVersion, hProtocol, hKey, methodGet, hdrUpgradeValue,
    hdrWebsocketValue, hdrWebsocketVersionValue, pskHeaderName] at hc
  rw [← and_assoc, and_comm (a := req.method = "GET"), and_assoc, ← hc]
  by_cases hw : req.path = pathWs
  · have hw' : req.path = "/ws" := hw
    rw [route_ws cfg req hw]
    unfold wsDecision
    cases hck : wsCheck cfg req <;> simp [hw']
  · have hw' : ¬ req.path = "/ws" := hw
    simp only [hw', false_and, iff_false]
    unfold route
    split <;> (try split) <;> simp

/-- The tunnel task is spawned exactly for the valid upgrade requests. -/
theorem startsTunnel_iff (cfg : Config) (req : Request) :
    startsTunnel cfg req = true ↔ ∃ h, ValidUpgrade cfg req h := by
  simp only [← upgrade_iff]
  unfold startsTunnel
  cases route cfg req <;> simp

/-- With a key configured, an upgrade implies that exactly this key was presented: a missing header,
    a prefix, a case variant or a padded copy is a different byte string and is refused. -/
theorem psk_required (cfg : Config) (req : Request) (h psk : Bytes) (hc : cfg.psk = some psk)
    (hu : route cfg req = .upgrade h) : req.get "x-penguin-psk" = some psk := by
  have := ((upgrade_iff cfg req h).mp hu).2.2.2.2.2.2.2.1
  simpa [hc] using this

/-- The accept hash of the answer is a function of the presented key alone. -/
theorem upgrade_accept (cfg : Config) (req : Request) (h : Bytes) (hu : route cfg req = .upgrade h) :
    ∃ key, req.get "sec-websocket-key" = some key ∧ h = base64 (Sha1.digest (key ++ asciiBytes wsAcceptGuid)) :=
  ((upgrade_iff cfg req h).mp hu).2.2.2.2.2.2.1

/-! ### The 101 response -/

/-- The upgrade answer: status 101, `connection: upgrade`, `upgrade: websocket`, the accepted
    protocol and the accept hash, nothing else, empty body. -/
theorem upgrade_response_headers (cfg : Config) (req : Request) (h : Bytes)
    (hu : route cfg req = .upgrade h) :
    respond cfg req =
      { status := 101,
        headers := [("connection", asciiBytes "upgrade"), ("upgrade", asciiBytes "websocket"),
                    ("sec-websocket-protocol", asciiBytes protocolName), ("sec-websocket-accept", h)],
        body := [] } := by
  simp [respond, hu, upgradeResponse, statusSwitchingProtocols, hConnection, hUpgrade, hProtocol,
    hAccept, hdrUpgradeValue, hdrWebsocketValue]

/-- Without a backend (whose answers are its own), status 101 is sent only on the upgrade branch. -/
theorem answers_101_iff (cfg : Config) (req : Request) (hb : cfg.backend = none) :
    (respond cfg req).status = 101 ↔ ∃ h, ValidUpgrade cfg req h := by
  simp only [← upgrade_iff]
  unfold respond
  cases hr : route cfg req <;>
    simp [fallbackResponse, hb, notFoundResponse, upgradeResponse, statusNotFound, statusSwitchingProtocols]

/-! ### Everything else is indistinguishable from an unknown path -/

/-- A path that is none of the three special ones. -/
def UnknownPath (p : String) : Prop := p ≠ pathHealth ∧ p ≠ pathVersion ∧ p ≠ pathWs

/-- Unknown paths are answered by `backend_or_404_handler`, whatever else the request contains. -/
theorem unknown_path_is_fallback (cfg : Config) (req : Request) (hp : UnknownPath req.path) :
    route cfg req = .fallback ∧ respond cfg req = fallbackResponse cfg req := by
  obtain ⟨h1, h2, h3⟩ := hp
  have hr : route cfg req = .fallback := by simp [route, h1, h2, h3]
  exact ⟨hr, by simp [respond, hr]⟩

/-- Every request to `/ws` that is not upgraded is handed, unchanged, to the very handler that
    serves unknown paths … -/
theorem not_upgrade_is_fallback (cfg : Config) (req : Request) (hp : req.path = pathWs)
    (hn : ∀ h, route cfg req ≠ .upgrade h) :
    route cfg req = .fallback ∧ respond cfg req = fallbackResponse cfg req := by
  have h1 : req.path ≠ pathHealth := hp ▸ ws_ne_health
  have h2 : req.path ≠ pathVersion := hp ▸ ws_ne_version
  have hr : route cfg req = .fallback := by
    have hr := route_ws cfg req hp
    cases hck : wsCheck cfg req with
    | error e => simp [hr, wsDecision, hck]
    | ok a => exact absurd (by simp [hr, wsDecision, hck]) (hn a)
  exact ⟨hr, by simp [respond, hr]⟩

/-- … hence it receives exactly the response (status, headers, body) of the same request on an
    unknown path `p`: always when no backend is configured (the configured 404), and with a backend
    whenever the backend itself answers the two forwarded requests alike. -/
theorem not_upgrade_same_as_unknown_path (cfg : Config) (req : Request) (p : String)
    (hp : req.path = pathWs) (hn : ∀ h, route cfg req ≠ .upgrade h) (hu : UnknownPath p)
    (hb : ∀ b, cfg.backend = some b → b req = b { req with path := p }) :
    respond cfg req = respond cfg { req with path := p } := by
  rw [(not_upgrade_is_fallback cfg req hp hn).2,
    (unknown_path_is_fallback cfg { req with path := p } hu).2]
  unfold fallbackResponse
  cases hbk : cfg.backend with
  | none => rfl
  | some b => exact hb b hbk

/-- With obfuscation on, `/health` and `/version` are served by the unknown-path handler too. -/
theorem obfs_hides (cfg : Config) (req : Request) (ho : cfg.obfs = true)
    (hp : req.path = pathHealth ∨ req.path = pathVersion) :
    route cfg req = .fallback ∧ respond cfg req = fallbackResponse cfg req := by
  have hw : req.path ≠ pathWs := by
    rcases hp with hp | hp <;> rw [hp] <;> decide
  have hr : route cfg req = .fallback := by simp [route, ho, hw]
  exact ⟨hr, by simp [respond, hr]⟩

theorem obfs_same_as_unknown_path (cfg : Config) (req : Request) (p : String) (ho : cfg.obfs = true)
    (hp : req.path = pathHealth ∨ req.path = pathVersion) (hu : UnknownPath p)
    (hb : ∀ b, cfg.backend = some b → b req = b { req with path := p }) :
    respond cfg req = respond cfg { req with path := p } := by
  rw [(obfs_hides cfg req ho hp).2, (unknown_path_is_fallback cfg { req with path := p } hu).2]
  unfold fallbackResponse
  cases hbk : cfg.backend with
  | none => rfl
  | some b => exact hb b hbk

/-- Without obfuscation the two status paths answer for every method and header set. -/
theorem health_version_iff (cfg : Config) (req : Request) :
    (route cfg req = .health ↔ req.path = pathHealth ∧ cfg.obfs = false) ∧
    (route cfg req = .version ↔ req.path = pathVersion ∧ cfg.obfs = false) := by
  by_cases h1 : req.path = pathHealth ∧ cfg.obfs = false
  · rw [route_health cfg req h1]
    simp [h1, health_ne_version]
  · by_cases h2 : req.path = pathVersion ∧ cfg.obfs = false
    · rw [route_version cfg req h1 h2]
      simp [h2, health_ne_version.symm]
    · rw [route_other cfg req h1 h2]
      simp only [h1, h2, iff_false]
      unfold wsDecision
      constructor <;> (split <;> (try split) <;> simp)

/-- The extracted constants are ASCII (so `asciiBytes` is their byte content) and the three special
    paths are pairwise different. -/
theorem constants_ascii :
    (([hdrUpgradeValue, hdrWebsocketValue, hdrWebsocketVersionValue, protocolName, wsAcceptGuid,
        healthBody, pkgVersion].all fun s => s.toList.all fun c => c.toNat < 128) = true) ∧
    [pathHealth, pathVersion, pathWs].Nodup := by
  decide

/-! ### Non-vacuity: concrete requests on both sides of every hypothesis -/

section Examples

private def psk : Bytes := asciiBytes "correct PSK"
private def cfgPsk : Config := { psk := some psk, obfs := true, notFound := asciiBytes "nf", backend := none }
private def cfgOpen : Config := { psk := none, obfs := false, notFound := asciiBytes "nf", backend := none }

private def good : Request :=
  { method := "GET", path := "/ws", onUpgrade := true,
    headers := [("connection", asciiBytes "UpGrAdE"), ("upgrade", asciiBytes "WEBSOCKET"),
                ("sec-websocket-version", asciiBytes "13"), ("sec-websocket-protocol", asciiBytes "Penguin-V7"),
                ("sec-websocket-key", asciiBytes "dGhlIHNhbXBsZSBub25jZQ=="),
                ("x-penguin-psk", asciiBytes "correct PSK")] }

-- RFC 6455 section 1.3 example, evaluated in the kernel through the model's SHA-1 and base64
example : acceptOf (asciiBytes "dGhlIHNhbXBsZSBub25jZQ==") = asciiBytes "s3pPLMBiTxaQ9kYGzzhZRbK+xOo=" := by
  decide +kernel
example : Sha1.digest (asciiBytes "abc") =
    [0xa9, 0x99, 0x3e, 0x36, 0x47, 0x06, 0x81, 0x6a, 0xba, 0x3e, 0x25, 0x71, 0x78, 0x50, 0xc2, 0x6c, 0x9c, 0xd0, 0xd8, 0x9d] := by
  decide +kernel
example : base64 (asciiBytes "fooba") = asciiBytes "Zm9vYmE=" := by decide

-- a valid request is upgraded, with and without a configured key
example : route cfgPsk good = .upgrade (asciiBytes "s3pPLMBiTxaQ9kYGzzhZRbK+xOo=") := by decide +kernel
example : route cfgOpen good = .upgrade (asciiBytes "s3pPLMBiTxaQ9kYGzzhZRbK+xOo=") := by decide +kernel
example : ∃ h, ValidUpgrade cfgPsk good h :=
  ⟨_, (upgrade_iff cfgPsk good _).mp (by decide +kernel : route cfgPsk good = .upgrade (asciiBytes "s3pPLMBiTxaQ9kYGzzhZRbK+xOo="))⟩
-- … and refused for: a case variant / prefix / padded copy of the key, no key, POST, a near-miss value,
-- a bad first value before a good one, no OnUpgrade
private def withPsk (v : Option Bytes) : Request :=
  { good with headers := (good.headers.filter (·.1 ≠ "x-penguin-psk")) ++ (v.map (("x-penguin-psk", ·))).toList }
example : route cfgPsk (withPsk (some (asciiBytes "correct psk"))) = .fallback := by decide +kernel
example : route cfgPsk (withPsk (some (asciiBytes "correct PS"))) = .fallback := by decide +kernel
example : route cfgPsk (withPsk (some (asciiBytes "correct PSK "))) = .fallback := by decide +kernel
example : route cfgPsk (withPsk none) = .fallback := by decide +kernel
example : route cfgOpen (withPsk none) = .upgrade (asciiBytes "s3pPLMBiTxaQ9kYGzzhZRbK+xOo=") := by decide +kernel
example : route cfgOpen { good with method := "POST" } = .fallback := by decide +kernel
example : route cfgOpen { good with method := "get" } = .fallback := by decide +kernel
example : route cfgOpen { good with headers := ("upgrade", asciiBytes "websockets") :: good.headers } = .fallback := by
  decide +kernel
example : route cfgOpen { good with onUpgrade := false } = .fallback := by decide +kernel
example : route cfgOpen { good with path := "/ws/" } = .fallback := by decide +kernel
-- hypotheses of the indistinguishability theorems are satisfiable, and their conclusion is not trivial
example : UnknownPath "/x" := by unfold UnknownPath; decide
example : respond cfgPsk { good with method := "POST" } = { status := 404, headers := [], body := asciiBytes "nf" } := by
  decide +kernel
example : respond cfgPsk { good with path := "/health" } = respond cfgPsk { good with path := "/x" } := by decide +kernel
example : respond cfgOpen { good with path := "/health" } = { status := 200, headers := [], body := asciiBytes "OK" } := by
  decide +kernel
example : (respond cfgOpen good).status = 101 := by decide +kernel

end Examples

end Penguin.C14
