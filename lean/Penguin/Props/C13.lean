/-
C13 — The stream-to-socket bridge relays faithfully, half-closes, always terminates.

Property theorems only, over `Model/Bridge` (`poll fixed` = the repaired `CopyBidirectional::poll`).
Quantifier: every script of the local side (answers to `poll_fill_buf` / `poll_write` / `poll_flush`
/ `poll_shutdown`: data of any size, partial writes, `Pending` with or without a later wake-up,
end-of-file, errors), every behaviour of the mux side (answers of the stream's channel, of the
credit check, of the send) and every interleaving: between two polls the scripts of BOTH sides may
be replaced by anything (`Reach.poll`), which is what the peer, the connection task and the local
socket do while the bridge is suspended.
-/
import Penguin.Model.Bridge
import Penguin.Lemmas.Bridge

namespace Penguin.C13
open Penguin Penguin.Bridge

/-- The scripts of both sides: everything the bridge's environment decides. -/
structure Scripts where
  lfill : List (Ans Bytes) := []
  lwrite : List (Ans Nat) := []
  lflush : List (Ans Unit) := []
  lshut : List (Ans Unit) := []
  mrecv : List MRecv := []
  mcredit : List MCredit := []
  msend : List MSend := []

def withScripts (s : St) (sc : Scripts) : St :=
  { s with lfill := sc.lfill, lwrite := sc.lwrite, lflush := sc.lflush, lshut := sc.lshut,
           mrecv := sc.mrecv, mcredit := sc.mcredit, msend := sc.msend }

/-- A fresh bridge (`CopyBidirectional::new`) in front of the environment `sc`. -/
def start (sc : Scripts) : St := withScripts {} sc

/-- The states in which a bridge can be polled: fresh, or after a poll that returned `Pending`
    and any change of the environment's scripts. (A future is not polled again after `Ready`.) -/
inductive Reach : St → Prop
  | start (sc : Scripts) : Reach (start sc)
  | poll (s : St) (sc : Scripts) : Reach s → (poll fixed s).1 = .pending →
      Reach (withScripts (poll fixed s).2 sc)

theorem inv_withScripts (s : St) (sc : Scripts) (h : Inv s) : Inv (withScripts s sc) :=
  ⟨⟨h.r.relay, h.r.count, h.r.drained, h.r.shut⟩, h.w⟩

theorem reach_inv {s : St} (h : Reach s) : Inv s := by
  induction h with
  | start sc =>
    refine ⟨⟨rfl, rfl, ?_, rfl⟩, ⟨rfl, rfl, rfl, rfl, rfl, fun _ => rfl, ?_, rfl, rfl⟩⟩
    · intro _; rfl
    · intro f hf; cases hf
  | poll s sc _ hp ih =>
    exact inv_withScripts _ _ ((poll_post fixed s ih).2.2.1 (by rw [hp]; simp))

/-- Every poll returns: the loops of `poll_read_us` and `poll_write_us` end for every (finite)
    script, because every iteration consumes an answer or the whole buffer. On the pinned code a
    local side that keeps accepting 0 bytes made `poll_read_us` loop for as long as it did. -/
theorem poll_terminates (s : St) : (poll fixed s).1 ≠ .diverged :=
  Bridge.poll_terminates fixed s

/-- Mux → local: after any poll (also a failing one) the bytes accepted by the local side are, in
    order, a prefix of the bytes taken out of the stream — exactly those not still in the stream's
    buffer — and all of them once the read direction is no longer `Transferring`; the state's
    counter is their number. -/
theorem relay_in {s : St} (h : Reach s) :
    let s' := (poll fixed s).2
    s'.toLocal ++ s'.mbuf = s'.muxGot ∧ s'.toLocal <+: s'.muxGot ∧
    ((∀ n, s'.rs ≠ .transferring n) → s'.toLocal = s'.muxGot) ∧
    s'.rs.count = s'.toLocal.length := by
  have inv := (poll_post fixed s (reach_inv h)).1
  refine ⟨inv.relay, ⟨_, inv.relay⟩, fun hn => ?_, inv.count⟩
  have := inv.relay; rw [inv.drained hn] at this; simpa using this

/-- Local → mux: after any poll the concatenation of the `Push` payloads sent, followed by the bytes
    of a frame that could not be sent (at most one, and only in a poll that returns `BrokenPipe`),
    is exactly the bytes consumed from the local side, in order; those are a prefix of what the
    local side handed out, all of it once the write direction is `Done`. No payload is empty. -/
theorem relay_out {s : St} (h : Reach s) :
    let s' := (poll fixed s).2
    s'.frames.flatten ++ s'.lost = s'.fromLocal ∧ s'.fromLocal ++ s'.lbuf = s'.localGot ∧
    ((∀ e, (poll fixed s).1 ≠ .err e) →
      s'.frames.flatten = s'.fromLocal ∧ s'.ws.count = s'.fromLocal.length ∧
      (s'.ws.isDone = true → s'.frames.flatten = s'.localGot)) ∧
    (∀ f ∈ s'.frames, f ≠ []) := by
  obtain ⟨_, weak, strong, _, _⟩ := poll_post fixed s (reach_inv h)
  refine ⟨weak.relay, weak.buf, fun hne => ?_, weak.nonempty⟩
  have w := (strong hne).w
  refine ⟨w.relay, w.count, fun hd => ?_⟩
  have hb := w.buf
  rw [w.drained hd] at hb
  show (poll fixed s).2.wcore.frames.flatten = (poll fixed s).2.wcore.localGot
  rw [w.relay]; simpa using hb

/-- Exactly one unit of credit per frame: the units taken are the frames sent, plus the one frame
    whose send failed (at most one ever, and then the poll returns an error). -/
theorem one_credit_per_frame {s : St} (h : Reach s) :
    let s' := (poll fixed s).2
    s'.credits = s'.frames.length + s'.failedSends ∧ s'.failedSends ≤ 1 ∧
    ((∀ e, (poll fixed s).1 ≠ .err e) → s'.credits = s'.frames.length ∧ s'.failedSends = 0) := by
  obtain ⟨_, weak, strong, _, _⟩ := poll_post fixed s (reach_inv h)
  exact ⟨weak.credit, weak.failed, fun hne => ⟨(strong hne).w.credit, (strong hne).w.failed⟩⟩

/-- End-of-stream of the mux side is propagated to the local side as a shutdown, in the same poll,
    and retried in every later poll until it completes; after it was started nothing but
    `poll_shutdown` is ever done in that direction (no write after shutdown), after it completed
    nothing at all. The write direction is not touched by any of this (`pollRead_leaves_write`). -/
theorem half_close_propagates_in (s : St) :
    (Call.mfill (some []) ∈ (poll fixed s).2.calls → ∃ a, Call.lshut a ∈ (poll fixed s).2.calls) ∧
    (∀ n, s.rs = .shuttingDown n → ∃ a, Call.lshut a ∈ (poll fixed s).2.calls) ∧
    ((∀ n, s.rs ≠ .transferring n) →
      ∀ c ∈ (poll fixed s).2.calls, c.dir = .read → ∃ a, c = .lshut a) ∧
    (s.rs.isDone = true → ∀ c ∈ (poll fixed s).2.calls, c.dir = .write) := by
  obtain ⟨h1, h2, h3, h4, _⟩ := poll_halfclose fixed s
  exact ⟨h1, h2, h3, h4⟩

/-- End-of-file of the local side is propagated to the peer as exactly one `do_shutdown` (one
    `Finish`): in the same poll — unless the frame gathered just before it cannot be sent, and then
    the poll fails with `BrokenPipe` —, `do_shutdown` is only ever called on local end-of-file, it
    leaves the write direction `Done`, and a `Done` write direction performs no operation any more.
    Over the whole run it is called at most once, and exactly once iff the direction is `Done`. -/
theorem half_close_propagates_out {s : St} (h : Reach s) :
    let s' := (poll fixed s).2
    (Call.lfill (.ready []) ∈ s'.calls →
      (Call.finish ∈ s'.calls ∧ s'.ws.isDone = true) ∨ (poll fixed s).1 = .err .brokenPipe) ∧
    (Call.finish ∈ s'.calls → Call.lfill (.ready []) ∈ s'.calls) ∧
    (s.ws.isDone = true → ∀ c ∈ s'.calls, c.dir = .read) ∧
    s'.finishes ≤ 1 ∧
    ((∀ e, (poll fixed s).1 ≠ .err e) → (s'.finishes = 1 ↔ s'.ws.isDone = true)) := by
  obtain ⟨_, _, _, _, h5, h6, h7⟩ := poll_halfclose fixed s
  obtain ⟨_, weak, strong, _, _⟩ := poll_post fixed s (reach_inv h)
  refine ⟨h5, h6, h7, weak.fin, fun hne => ?_⟩
  have hf := (strong hne).w.fin
  constructor
  · intro h1
    cases hd : (poll fixed s).2.wcore.ws.isDone
    · rw [hd] at hf; simp at hf; exact absurd h1 (by show (poll fixed s).2.wcore.finishes ≠ 1; omega)
    · exact hd
  · intro hd
    have hd' : (poll fixed s).2.wcore.ws.isDone = true := hd
    rw [hd'] at hf; exact hf

/-- Half-close, both ways, in one statement: the stream's end-of-file makes this poll call
    `poll_shutdown` on the local side and leaves the write direction's state as the write
    sub-poll alone determines it; the local side's end-of-file makes this poll call `do_shutdown`
    (or fail with `BrokenPipe`), which over the whole run happens at most once. -/
theorem half_close_propagates {s : St} (h : Reach s) :
    (Call.mfill (some []) ∈ (poll fixed s).2.calls → ∃ a, Call.lshut a ∈ (poll fixed s).2.calls) ∧
    (pollRead fixed { s with calls := [] }).2.ws = s.ws ∧
    (Call.lfill (.ready []) ∈ (poll fixed s).2.calls →
      Call.finish ∈ (poll fixed s).2.calls ∨ (poll fixed s).1 = .err .brokenPipe) ∧
    (poll fixed s).2.finishes ≤ 1 := by
  refine ⟨(half_close_propagates_in s).1, ws_of_wpart (pollRead_wpart fixed _), fun he => ?_,
    (half_close_propagates_out h).2.2.2.1⟩
  rcases (half_close_propagates_out h).1 he with ⟨hf, _⟩ | hb
  · exact .inl hf
  · exact .inr hb

/-- The two directions work on disjoint parts of the state: polling one leaves the other's state,
    scripts, buffer and logs unchanged, so the opposite direction keeps flowing across a half-close
    (non-vacuity: the `example`s at the end). -/
theorem pollRead_leaves_write (s : St) : (pollRead fixed s).2.wpart = s.wpart :=
  pollRead_wpart fixed s

theorem pollWrite_leaves_read (s : St) : (pollWrite fixed s).2.rpart = s.rpart :=
  pollWrite_rpart fixed s

/-- `Ready(Ok((r, w)))` only when both directions are `Done`, with `r` = all the bytes taken from
    the stream = the bytes written to the local side, and `w` = all the bytes the local side handed
    out = the concatenation of the payloads sent; and a poll that leaves both directions `Done`
    does not return `Pending`. -/
theorem completes_with_counts {s : St} (h : Reach s) :
    let s' := (poll fixed s).2
    (∀ r w, (poll fixed s).1 = .ok r w →
      s'.rs = .done r ∧ s'.ws = .done w ∧
      r = s'.toLocal.length ∧ s'.toLocal = s'.muxGot ∧
      w = s'.frames.flatten.length ∧ s'.frames.flatten = s'.localGot ∧
      s'.lshutOk = 1 ∧ s'.finishes = 1) ∧
    ((poll fixed s).1 = .pending → (s'.rs.isDone && s'.ws.isDone) = false) := by
  obtain ⟨invr, _, strong, hok, hpend⟩ := poll_post fixed s (reach_inv h)
  refine ⟨fun r w hr => ?_, hpend⟩
  obtain ⟨hrs, hws⟩ := hok r w hr
  have inv := strong (by rw [hr]; simp)
  have hws' : (poll fixed s).2.wcore.ws = .done w := hws
  have hc := inv.r.count; rw [hrs] at hc
  have hm : (poll fixed s).2.mbuf = [] := inv.r.drained (by rw [hrs]; simp)
  have hrel := inv.r.relay; rw [hm] at hrel
  have hsh := inv.r.shut; rw [hrs] at hsh
  have hwc := inv.w.count; rw [hws'] at hwc
  have hl : (poll fixed s).2.wcore.lbuf = [] := inv.w.drained (by rw [hws']; rfl)
  have hb := inv.w.buf; rw [hl] at hb
  have hfin := inv.w.fin; rw [hws'] at hfin
  refine ⟨hrs, hws, hc, by simpa using hrel, ?_, ?_, hsh, hfin⟩
  · show w = (poll fixed s).2.wcore.frames.flatten.length
    rw [inv.w.relay]; exact hwc
  · show (poll fixed s).2.wcore.frames.flatten = (poll fixed s).2.wcore.localGot
    rw [inv.w.relay]; simpa using hb

/-- A poll in which any operation of either side fails — a local `Err`, a closed stream
    (`BrokenPipe`), a frame that cannot be sent, a local write of zero bytes of a non-empty buffer —
    returns an error of that poll in that same poll; and an error it returns is the error of one of
    its operations. (With two failures in one poll — the local side fails inside the coalescing
    loop and then the frame cannot be sent — it is the later one.) No invariant is needed: this
    holds in every state. -/
theorem error_is_prompt (s : St) :
    (∀ e ∈ errors (poll fixed s).2.calls,
      ∃ e', (poll fixed s).1 = .err e' ∧ e' ∈ errors (poll fixed s).2.calls) ∧
    (∀ e, (poll fixed s).1 = .err e → e ∈ errors (poll fixed s).2.calls) :=
  ⟨(poll_calls s).1, (poll_calls s).2.1⟩

/-- `Pending` ⇒ for each direction that is not `Done` an operation of that direction returned
    `Pending` in this very poll, i.e. holds the task's waker (stream channel, credit, local
    `poll_fill_buf` / `poll_write` / `poll_flush` / `poll_shutdown`). In every state. -/
theorem pending_has_waker (s : St) (hp : (poll fixed s).1 = .pending) :
    ((poll fixed s).2.rs.isDone = false →
      ∃ c ∈ (poll fixed s).2.calls, c.dir = .read ∧ c.pendingSite.isSome = true) ∧
    ((poll fixed s).2.ws.isDone = false →
      ∃ c ∈ (poll fixed s).2.calls, c.dir = .write ∧ c.pendingSite.isSome = true) :=
  (poll_calls s).2.2 hp

/-! ### The pinned code fails `error_is_prompt` and `pending_has_waker` (witnesses, kernel-checked)

`fill_err_case`: the local side hands out "abc" and then fails with error 7
(`corpus/C13/coalesce-fill-error-swallowed.ops`). -/

def fill_err_case : St := start { lfill := [.ready [0x61, 0x62, 0x63], .err 7], mcredit := [.granted, .granted] }

/-- Pinned: the poll returns `Pending`, the failed operation is in its calls, the frame was sent. -/
theorem pinned_swallows_fill_error :
    (poll pinned fill_err_case).1 = .pending ∧
    errors (poll pinned fill_err_case).2.calls = [.localErr 7] ∧
    (poll pinned fill_err_case).2.frames = [[0x61, 0x62, 0x63]] := by decide

/-- Pinned: … and no operation of the write direction holds the waker although it is not `Done`. -/
theorem pinned_pending_without_waker :
    (poll pinned fill_err_case).1 = .pending ∧ (poll pinned fill_err_case).2.ws.isDone = false ∧
    ¬ ∃ c ∈ (poll pinned fill_err_case).2.calls, c.dir = .write ∧ c.pendingSite.isSome = true := by
  decide

/-- Repaired: the same poll sends the frame and returns the error. -/
example : (poll fixed fill_err_case).1 = .err (.localErr 7) ∧
    (poll fixed fill_err_case).2.frames = [[0x61, 0x62, 0x63]] := by decide

/-- `corpus/C13/write-zero-*.ops`: the peer sent "xy", the local side accepts 0 bytes five times. -/
def write_zero_case : St :=
  start { lfill := [.pending false], lwrite := List.replicate 5 (.ready 0), mrecv := [.frame [0x78, 0x79]] }

/-- Pinned: all five zero-length writes are retried at once within one poll (with a local side
    that goes on like this the poll never returns); none is reported. -/
theorem pinned_retries_write_zero :
    ((poll pinned write_zero_case).2.calls.filter (· == .lwrite 2 (.ready 0))).length = 5 ∧
    (poll pinned write_zero_case).1 = .pending := by decide

/-- Repaired: `WriteZero` after the first. -/
example : (poll fixed write_zero_case).1 = .err .writeZero ∧
    ((poll fixed write_zero_case).2.calls.filter (· == .lwrite 2 (.ready 0))).length = 1 := by decide

/-! ### Non-vacuity: a run with partial writes, coalescing, credit starvation and both half-closes -/

/-- Poll 1: the peer's "xy" goes to the local side in two partial writes; "ab" and "c" are coalesced
    into one frame that takes the only unit of credit; the local reader is then `Pending`. -/
def run1 : St := start
  { lfill := [.ready [0x61, 0x62], .ready [0x63], .pending true, .ready [0x64], .ready []],
    lwrite := [.ready 1, .ready 5], lshut := [.pending true, .ready ()],
    mrecv := [.frame [0x78, 0x79]], mcredit := [.granted] }

example : (poll fixed run1).1 = .pending ∧ (poll fixed run1).2.toLocal = [0x78, 0x79] ∧
    (poll fixed run1).2.frames = [[0x61, 0x62, 0x63]] ∧ (poll fixed run1).2.credits = 1 ∧
    wakers (poll fixed run1).2.calls = [.mread, .lfill] := by decide

/-- Poll 2: the peer finished (mux end-of-stream): `poll_shutdown` of the local side is called (and
    is `Pending`) while the write direction is still `Transferring`, blocked on credit with "d". -/
def run2 : St := withScripts (poll fixed run1).2
  { lfill := [.ready [0x64], .ready []], lshut := [.pending true, .ready ()], mrecv := [.eof] }

example : Reach run2 := Reach.poll run1 _ (Reach.start _) (by decide)

example : (poll fixed run2).1 = .pending ∧ (poll fixed run2).2.rs = .shuttingDown 2 ∧
    (poll fixed run2).2.ws = .transferring 3 ∧
    wakers (poll fixed run2).2.calls = [.lshut, .mcredit] := by decide

/-- Poll 3: credit arrives: the shutdown completes, "d" is sent, local end-of-file → `do_shutdown`;
    the bridge completes with (2, 4). -/
def run3 : St := withScripts (poll fixed run2).2
  { lfill := [.ready []], lshut := [.ready ()], mcredit := [.granted] }

example : (poll fixed run3).1 = .ok 2 4 ∧ (poll fixed run3).2.frames = [[0x61, 0x62, 0x63], [0x64]] ∧
    (poll fixed run3).2.finishes = 1 ∧ (poll fixed run3).2.lshutOk = 1 := by decide

/-- The other order: local end-of-file first (`Finish`), the peer's data keeps flowing afterwards. -/
def runB1 : St := start { lfill := [.ready []], mrecv := [] }
def runB2 : St := withScripts (poll fixed runB1).2 { mrecv := [.frame [0x7a]] }

example : (poll fixed runB1).1 = .pending ∧ (poll fixed runB1).2.ws = .done 0 ∧
    (poll fixed runB1).2.finishes = 1 := by decide
example : (poll fixed runB2).1 = .pending ∧ (poll fixed runB2).2.toLocal = [0x7a] ∧
    (poll fixed runB2).2.finishes = 1 := by decide

/-- Errors of the mux side: a closed stream gives `BrokenPipe` in the same poll. -/
example : (poll fixed (start { lfill := [.ready [1]], mcredit := [.closed] })).1 = .err .brokenPipe := by
  decide

end Penguin.C13
