/-
C01 — End-to-end transparency of the tunnel (TCP and UDP, every entry point).

What is proved here, and what covers the rest:

UDP (part a).  The client's two maps (`Penguin.UdpMap`, `client/mod.rs:121-234`) for every sequence
of map operations (add a client, route a reply, prune, time passing; every random-draw script):
the flow id attached to a client's datagram routes the reply back to exactly that (peer address,
local socket), ids and tuples are in bijection while they live, pruning only removes, nothing
panics; the server answers on the flow id of the request (`forwarder.rs:123-128`); the SOCKS5 reply
built for any address and payload is parsed back by a conforming RFC 1928 client (C18's theorem,
instantiated for the address the client code passes — see `socks5_reply_parses`).

TCP (part b).  One direction of one logical stream (`Penguin.Link`, proved invariant in
`Lemmas/Link.lean`) refines the specification of a direct connection (`Spec/Pipe.lean`), for every
action sequence; a chain of pipe stages joined by relays is again a pipe (`tunnel_composition`, any
number of stages).  The stages of the real tunnel, and what covers each:
  local socket  →  client bridge  →  link (mux stream)  →  server bridge  →  target socket
  * link: C02 / C05 (`Link.run_inv`), restated here through the abstraction into `Spec.Pipe`;
  * bridges (`copy_bidirectional.rs`): C13 — here they are the relays of `Feeds`: what a relay has
    written into the next stage is a prefix of what it read from the previous one, and it finishes
    the next stage only after the previous one reported end-of-stream and everything was forwarded;
  * SOCKS / HTTP framing in front of the byte stream: C18 (the request is consumed exactly);
  * OS sockets (kernel buffers) and the tokio scheduler: TRUSTED to be FIFO pipes (`Seg.Ok`
    assumed for those stages); the end-to-end harness (`pvhf e2e`) samples the glue between the
    stages (listeners, `handle_remote`, forwarder) over real sockets.
HTTP proxy (part c).  Which tunnel one parsed request makes the client ask for and what the local
client is answered (`Penguin.HttpProxy`, `handle_remote/http.rs:30-131`): the target of a CONNECT,
the bracket rule for IPv6 literals, every refusal, and what happens to the other methods.  hyper
and the `http` crate (request parsing) are black boxes; `pvhf httpproxy` runs the real handler.

The two directions of a connection are two chains sharing no state; at the endpoint a half-close
touches only its own direction (`half_close_keeps_reverse_direction`, from C05's glue lemmas).
-/
import Penguin.Model.UdpMap
import Penguin.Lemmas.UdpMap
import Penguin.Model.Link
import Penguin.Lemmas.Link
import Penguin.Lemmas.LinkGlue
import Penguin.Lemmas.LinkPipe
import Penguin.Spec.Pipe
import Penguin.Model.Socks
import Penguin.Spec.Rfc1928
import Penguin.Props.C18
import Penguin.Model.HttpProxy
import Penguin.Lemmas.HttpProxy
import Penguin.Lemmas.RemoteSpecKind
import Penguin.Model.Dispatch
import Penguin.Model.FixedTarget
import Penguin.Lemmas.ServerForward

namespace Penguin.C01
open Penguin Penguin.Constants

/-! ## (a) UDP routing -/

section udp
open Penguin.UdpMap

/-- No sequence of operations reaches one of the `expect("… inconsistent (this is a bug)")` panics. -/
theorem maps_never_panic (ops : List UdpMap.Op) (op : UdpMap.Op) : (step (run {} ops) op).2 ≠ .panic := by
  have h : Inv (run {} ops) := run_inv _ ops (init_inv 0)
  generalize run {} ops = m at h
  cases op with
  | add p o s f rng =>
    simp only [step, add]
    split
    · rename_i cid hg
      obtain ⟨e, he, _⟩ := h.bwd _ _ (get_some_mem hg)
      rw [mem_get_of_nodup h.kid he]
      simp
    · split <;> simp
  | reply cid =>
    simp only [step, reply]
    repeat' split
    all_goals simp
  | prune =>
    simp only [step]
    rw [prune_eq m h]
    simp
  | tick dt => simp [step]

/-- The flow id attached to a client's datagram maps back to exactly that client: after
    `add_udp_client` returned `cid` for (peer address, socket address), the entry under `cid` is for
    that peer and that socket address, and a reply `Datagram` with flow id `cid` is sent to that
    peer from the entry's socket — the socket given in this call when the tuple was new. -/
theorem reply_routing (ops : List UdpMap.Op) (peer our : Addr) (sock : SockId) (s5 : Bool) (rng : List Nat) (cid : Nat)
    (hadd : (add (run {} ops) peer our sock s5 rng).2 = .id cid) :
    ∃ e, UdpMap.get (add (run {} ops) peer our sock s5 rng).1.idMap cid = some e ∧
      e.peer = peer ∧ e.our = our ∧
      (reply (add (run {} ops) peer our sock s5 rng).1 cid).2 = .target e.sock peer e.socks5 ∧
      (UdpMap.get (run {} ops).addrMap (peer, our) = none → e.sock = sock ∧ e.socks5 = s5) := by
  have h : Inv (run {} ops) := run_inv _ ops (init_inv 0)
  have h2 : Inv (add (run {} ops) peer our sock s5 rng).1 := add_inv _ h _ _ _ _ _
  generalize run {} ops = m at h h2 hadd ⊢
  -- the id is not the stdio sentinel
  have hnz : udpClientIdNonzero = true := rfl
  have key : ∃ e, UdpMap.get (add m peer our sock s5 rng).1.idMap cid = some e ∧ e.peer = peer ∧ e.our = our ∧
      (UdpMap.get m.addrMap (peer, our) = none → e.sock = sock ∧ e.socks5 = s5) := by
    unfold add at hadd ⊢
    split at hadd
    · rename_i c hg
      obtain ⟨e, he, ht⟩ := h.bwd _ _ (get_some_mem hg)
      rw [mem_get_of_nodup h.kid he] at hadd ⊢
      simp only [Out.id.injEq] at hadd
      subst hadd
      refine ⟨refresh e m.now, by simp [get_put_self], ?_, ?_, ?_⟩
      · have := congrArg Prod.fst ht; simpa [Entry.tuple, refresh] using this
      · have := congrArg Prod.snd ht; simpa [Entry.tuple, refresh] using this
      · intro hn; rw [hn] at hg; cases hg
    · split at hadd
      · cases hadd
      · simp only [Out.id.injEq] at hadd
        subst hadd
        exact ⟨{ peer := peer, our := our, sock := sock, socks5 := s5, expires := m.now + udpPruneTimeoutMs },
          by simp [get_put_self], rfl, rfl, fun _ => ⟨rfl, rfl⟩⟩
  obtain ⟨e, hg, hp, ho, hfresh⟩ := key
  refine ⟨e, hg, hp, ho, ?_, hfresh⟩
  have hne : cid ≠ udpStdioClientId := h2.nz hnz cid e (get_some_mem hg)
  simp [reply, hne, hg, hp]

/-- Two live entries never share an id, and a (peer, socket address) tuple never has two ids: in
    every reachable state the id map and the address map are inverse bijections. -/
theorem ids_injective (ops : List UdpMap.Op) :
    let m := run {} ops
    (∀ cid e1 e2, (cid, e1) ∈ m.idMap → (cid, e2) ∈ m.idMap → e1 = e2) ∧
    (∀ c1 c2 e1 e2, UdpMap.get m.idMap c1 = some e1 → UdpMap.get m.idMap c2 = some e2 →
        e1.peer = e2.peer → e1.our = e2.our → c1 = c2) ∧
    (∀ cid e, UdpMap.get m.idMap cid = some e → UdpMap.get m.addrMap (e.peer, e.our) = some cid) ∧
    (∀ p o cid, UdpMap.get m.addrMap (p, o) = some cid → ∃ e, UdpMap.get m.idMap cid = some e ∧ e.peer = p ∧ e.our = o) := by
  intro m
  have h : Inv m := run_inv _ ops (init_inv 0)
  refine ⟨fun cid e1 e2 a b => mem_unique h.kid a b, ?_, ?_, ?_⟩
  · intro c1 c2 e1 e2 g1 g2 hp ho
    have a := h.fwd _ _ (get_some_mem g1)
    have b := h.fwd _ _ (get_some_mem g2)
    have : e1.tuple = e2.tuple := by simp [Entry.tuple, hp, ho]
    rw [this] at a
    exact mem_unique h.kaddr a b
  · intro cid e g
    exact mem_get_of_nodup h.kaddr (h.fwd _ _ (get_some_mem g))
  · intro p o cid g
    obtain ⟨e, he, ht⟩ := h.bwd _ _ (get_some_mem g)
    refine ⟨e, mem_get_of_nodup h.kid he, ?_, ?_⟩
    · have := congrArg Prod.fst ht; simpa [Entry.tuple] using this
    · have := congrArg Prod.snd ht; simpa [Entry.tuple] using this

/-- No operation re-targets a live id: after any operation the id is either gone or still names
    the same peer, socket address, socket and SOCKS5 flag (only the expiry time moves). -/
theorem routing_stable (ops : List UdpMap.Op) (op : UdpMap.Op) (cid : Nat) (e : Entry)
    (hg : UdpMap.get (run {} ops).idMap cid = some e) :
    UdpMap.get (step (run {} ops) op).1.idMap cid = none ∨
    ∃ e', UdpMap.get (step (run {} ops) op).1.idMap cid = some e' ∧
      e'.peer = e.peer ∧ e'.our = e.our ∧ e'.sock = e.sock ∧ e'.socks5 = e.socks5 := by
  have h : Inv (run {} ops) := run_inv _ ops (init_inv 0)
  generalize run {} ops = m at h hg ⊢
  have same : UdpMap.get m.idMap cid = none ∨ ∃ e', UdpMap.get m.idMap cid = some e' ∧
      e'.peer = e.peer ∧ e'.our = e.our ∧ e'.sock = e.sock ∧ e'.socks5 = e.socks5 :=
    Or.inr ⟨e, hg, rfl, rfl, rfl, rfl⟩
  -- a refreshed entry under `c`
  have putcase : ∀ (c : Nat) (e0 : Entry), UdpMap.get m.idMap c = some e0 →
      (UdpMap.get (put m.idMap c (refresh e0 m.now)) cid = none ∨ ∃ e', UdpMap.get (put m.idMap c (refresh e0 m.now)) cid = some e' ∧
        e'.peer = e.peer ∧ e'.our = e.our ∧ e'.sock = e.sock ∧ e'.socks5 = e.socks5) := by
    intro c e0 h0
    by_cases hc : c = cid
    · subst hc
      rw [hg] at h0; cases h0
      exact Or.inr ⟨refresh e m.now, get_put_self _ _ _, rfl, rfl, rfl, rfl⟩
    · rw [get_put_other _ _ hc]; exact same
  cases op with
  | add p o s f rng =>
    simp only [step, add]
    split
    · rename_i c hga
      obtain ⟨e0, he0, _⟩ := h.bwd _ _ (get_some_mem hga)
      rw [mem_get_of_nodup h.kid he0]
      exact putcase c e0 (mem_get_of_nodup h.kid he0)
    · split
      · exact same
      · rename_i c hk
        have hfree := (nextKey_spec hk).1
        have hc : c ≠ cid := by intro e; subst e; rw [hg] at hfree; cases hfree
        simp only
        rw [get_put_other _ _ hc]; exact same
  | reply c =>
    simp only [step, reply]
    split
    · exact same
    · split
      · exact same
      · rename_i e0 h0
        exact putcase c e0 h0
  | prune =>
    simp only [step]
    rw [prune_eq m h]
    simp only
    by_cases hal : alive m.now (cid, e) = true
    · have : (cid, e) ∈ m.idMap.filter (alive m.now) := List.mem_filter.mpr ⟨get_some_mem hg, hal⟩
      exact Or.inr ⟨e, mem_get_of_nodup (nodup_filter h.kid _) this, rfl, rfl, rfl, rfl⟩
    · left
      cases hq : UdpMap.get (m.idMap.filter (alive m.now)) cid with
      | none => rfl
      | some e' =>
        have hm := List.mem_filter.mp (get_some_mem hq)
        have : e' = e := mem_unique h.kid hm.1 (get_some_mem hg)
        subst this
        exact absurd hm.2 hal
  | tick dt => exact same

/-- Pruning only removes: an id is kept, with its entry unchanged, exactly when the entry has not
    expired (`expires > now`), and dropped otherwise; it is never given to another client.  The
    address map loses exactly the tuples of the dropped entries. -/
theorem prune_only_removes (ops : List UdpMap.Op) (cid : Nat) :
    let m := run {} ops
    UdpMap.get (prune m).1.idMap cid = (UdpMap.get m.idMap cid).filter (fun e => decide (e.expires > m.now)) ∧
    (∀ e, UdpMap.get m.idMap cid = some e →
       UdpMap.get (prune m).1.addrMap (e.peer, e.our) = if e.expires > m.now then some cid else none) := by
  intro m
  have h : Inv m := run_inv _ ops (init_inv 0)
  have h2 : Inv (prune m).1 := prune_inv m h
  have hidm : (prune m).1.idMap = m.idMap.filter (alive m.now) := by rw [prune_eq m h]
  have first : UdpMap.get (prune m).1.idMap cid = (UdpMap.get m.idMap cid).filter (fun e => decide (e.expires > m.now)) := by
    rw [hidm]
    cases hg : UdpMap.get m.idMap cid with
    | none =>
      simp only [Option.filter_none]
      cases hq : UdpMap.get (m.idMap.filter (alive m.now)) cid with
      | none => rfl
      | some e' =>
        have hm := (List.mem_filter.mp (get_some_mem hq)).1
        exact absurd (mem_keys_of_mem hm) (get_none_not_mem hg)
    | some e =>
      by_cases hal : e.expires > m.now
      · have : (cid, e) ∈ m.idMap.filter (alive m.now) :=
          List.mem_filter.mpr ⟨get_some_mem hg, by simp [alive, hal]⟩
        rw [mem_get_of_nodup (nodup_filter h.kid _) this]
        simp [Option.filter, hal]
      · simp only [Option.filter, hal, decide_false, Bool.false_eq_true, if_false]
        cases hq : UdpMap.get (m.idMap.filter (alive m.now)) cid with
        | none => rfl
        | some e' =>
          have hm := List.mem_filter.mp (get_some_mem hq)
          have : e' = e := mem_unique h.kid hm.1 (get_some_mem hg)
          subst this
          simp [alive, hal] at hm
  refine ⟨first, ?_⟩
  intro e hg
  rw [hg] at first
  by_cases hal : e.expires > m.now
  · simp only [hal, if_true]
    have : UdpMap.get (prune m).1.idMap cid = some e := by simpa [Option.filter, hal] using first
    exact mem_get_of_nodup h2.kaddr (h2.fwd _ _ (get_some_mem this))
  · simp only [hal, if_false]
    cases hq : UdpMap.get (prune m).1.addrMap (e.peer, e.our) with
    | none => rfl
    | some c =>
      obtain ⟨e', he', ht⟩ := h2.bwd _ _ (get_some_mem hq)
      -- the surviving entry under `c` has the same tuple as `e`, hence is `e`, which has expired
      have hm' : (c, e') ∈ m.idMap := by
        rw [hidm] at he'; exact (List.mem_filter.mp he').1
      have a := h.fwd _ _ hm'
      have b := h.fwd _ _ (get_some_mem hg)
      have ht' : e'.tuple = e.tuple := by simpa [Entry.tuple] using ht
      rw [ht'] at a
      have hc : c = cid := mem_unique h.kaddr a b
      subst hc
      have : e' = e := mem_unique h.kid hm' (get_some_mem hg)
      subst this
      rw [hidm] at he'
      have := (List.mem_filter.mp he').2
      simp [alive, hal] at this

/-- The server keeps the flow id: whatever the interleaving of client datagrams, target replies and
    forwarder time-outs, a reply frame produced for a datagram that arrived on forwarder `i`'s socket
    carries the flow id of every client datagram that was sent out through that same forwarder, and
    the payload the target sent. -/
theorem server_keeps_flow_id (ops : List SOp) (i : Nat) (d' d : Dgram) (h p pl : Bytes) (t : Nat)
    (hreq : (SOp.fromClient d', SOut.toTarget i h t p) ∈ (srun {} ops).2)
    (hrep : (SOp.fromTarget i pl, SOut.toClient d) ∈ (srun {} ops).2) :
    d.flowId = d'.flowId ∧ d.data = pl := by
  -- invariant over (state, trace)
  let P : Srv × List (SOp × SOut) → Prop := fun st =>
    (∀ k j, UdpMap.get st.1.clients k = some j → ∃ f, st.1.fwds[j]? = some f ∧ f.flowId = k) ∧
    (∀ dq j hh tt pp, (SOp.fromClient dq, SOut.toTarget j hh tt pp) ∈ st.2 →
        ∃ f, st.1.fwds[j]? = some f ∧ f.flowId = dq.flowId) ∧
    (∀ j pl' dr, (SOp.fromTarget j pl', SOut.toClient dr) ∈ st.2 →
        ∃ f, st.1.fwds[j]? = some f ∧ f.flowId = dr.flowId ∧ dr.data = pl')
  have stepP : ∀ (st : Srv × List (SOp × SOut)) (op : SOp), P st →
      P ((sstep st.1 op).1, st.2 ++ [(op, (sstep st.1 op).2)]) := by
    intro st op hP
    obtain ⟨s, tr⟩ := st
    obtain ⟨hc, hq, hr⟩ := hP
    simp only at hc hq hr
    -- appending a forwarder keeps the old indices
    have grow : ∀ (f0 : Fwd) (j : Nat) (f : Fwd), s.fwds[j]? = some f → (s.fwds ++ [f0])[j]? = some f := by
      intro f0 j f hj
      have hlt : j < s.fwds.length := (List.getElem?_eq_some_iff.mp hj).1
      rw [List.getElem?_append_left hlt]; exact hj
    -- the effect of spawning a forwarder for `dq` from a client table `cl` that satisfies the table invariant
    have spawnP : ∀ (cl : List (Nat × Nat)) (dq : Dgram),
        (∀ k j, UdpMap.get cl k = some j → ∃ f, s.fwds[j]? = some f ∧ f.flowId = k) →
        P ((Srv.spawn { s with clients := cl } dq).1, tr ++ [(SOp.fromClient dq, (Srv.spawn { s with clients := cl } dq).2)]) := by
      intro cl dq hcl
      refine ⟨?_, ?_, ?_⟩
      · intro k j hg
        simp only [Srv.spawn] at hg ⊢
        rw [get_put] at hg
        split at hg
        · rename_i hk
          cases hg; subst hk
          exact ⟨{ flowId := dq.flowId, host := dq.host, port := dq.port }, by simp, rfl⟩
        · rw [get_del] at hg
          split at hg
          · cases hg
          · obtain ⟨f, hf, hk⟩ := hcl k j hg
            exact ⟨f, grow _ j f hf, hk⟩
      · intro dq' j hh tt pp hm
        simp only [Srv.spawn, List.mem_append, List.mem_singleton, Prod.mk.injEq, SOp.fromClient.injEq,
          SOut.toTarget.injEq] at hm ⊢
        rcases hm with hm | ⟨hd, hj, _⟩
        · obtain ⟨f, hf, hk⟩ := hq _ _ _ _ _ hm
          exact ⟨f, grow _ j f hf, hk⟩
        · subst hd; subst hj
          exact ⟨{ flowId := dq'.flowId, host := dq'.host, port := dq'.port }, by simp, rfl⟩
      · intro j pl' dr hm
        simp only [Srv.spawn, List.mem_append, List.mem_singleton, Prod.mk.injEq, reduceCtorEq, false_and, or_false] at hm ⊢
        obtain ⟨f, hf, hk⟩ := hr _ _ _ hm
        exact ⟨f, grow _ j f hf, hk⟩
    cases op with
    | fromClient dq =>
      simp only [sstep]
      split
      · rename_i j hg
        obtain ⟨f, hf, hk⟩ := hc _ _ hg
        rw [hf]
        simp only
        split
        · -- alive: sent through forwarder j
          refine ⟨hc, ?_, ?_⟩
          · intro dq' j' hh tt pp hm
            simp only [List.mem_append, List.mem_singleton, Prod.mk.injEq, SOp.fromClient.injEq, SOut.toTarget.injEq] at hm
            rcases hm with hm | ⟨hd, hj, _⟩
            · exact hq _ _ _ _ _ hm
            · subst hd; subst hj; exact ⟨f, hf, hk⟩
          · intro j' pl' dr hm
            simp only [List.mem_append, List.mem_singleton, Prod.mk.injEq, reduceCtorEq, false_and, or_false] at hm
            exact hr _ _ _ hm
        · split
          · -- respawn
            apply spawnP
            intro k j' hg'
            rw [get_del] at hg'
            split at hg'
            · cases hg'
            · exact hc _ _ hg'
          · refine ⟨?_, ?_, ?_⟩
            · intro k j' hg'
              simp only at hg'
              rw [get_del] at hg'
              split at hg'
              · cases hg'
              · exact hc _ _ hg'
            · intro dq' j' hh tt pp hm
              simp only [List.mem_append, List.mem_singleton, Prod.mk.injEq, reduceCtorEq, and_false, or_false] at hm
              exact hq _ _ _ _ _ hm
            · intro j' pl' dr hm
              simp only [List.mem_append, List.mem_singleton, Prod.mk.injEq, reduceCtorEq, false_and, or_false] at hm
              exact hr _ _ _ hm
      · exact spawnP s.clients dq hc
    | fromTarget j pl' =>
      simp only [sstep]
      split
      · rename_i f hf
        split
        · refine ⟨hc, ?_, ?_⟩
          · intro dq' j' hh tt pp hm
            simp only [List.mem_append, List.mem_singleton, Prod.mk.injEq, reduceCtorEq, false_and, or_false] at hm
            exact hq _ _ _ _ _ hm
          · intro j' pl'' dr hm
            simp only [List.mem_append, List.mem_singleton, Prod.mk.injEq, SOp.fromTarget.injEq, SOut.toClient.injEq] at hm
            rcases hm with hm | ⟨⟨hj, hp⟩, hd⟩
            · exact hr _ _ _ hm
            · subst hj; subst hp; subst hd
              exact ⟨f, hf, rfl, rfl⟩
        · refine ⟨hc, ?_, ?_⟩
          · intro dq' j' hh tt pp hm
            simp only [List.mem_append, List.mem_singleton, Prod.mk.injEq, reduceCtorEq, false_and, or_false] at hm
            exact hq _ _ _ _ _ hm
          · intro j' pl'' dr hm
            simp only [List.mem_append, List.mem_singleton, Prod.mk.injEq, reduceCtorEq, and_false, or_false] at hm
            exact hr _ _ _ hm
      · refine ⟨hc, ?_, ?_⟩
        · intro dq' j' hh tt pp hm
          simp only [List.mem_append, List.mem_singleton, Prod.mk.injEq, reduceCtorEq, false_and, or_false] at hm
          exact hq _ _ _ _ _ hm
        · intro j' pl'' dr hm
          simp only [List.mem_append, List.mem_singleton, Prod.mk.injEq, reduceCtorEq, and_false, or_false] at hm
          exact hr _ _ _ hm
    | expire j =>
      simp only [sstep]
      -- marking a forwarder dead keeps every forwarder's flow id
      have setP : ∀ (f0 : Fwd), s.fwds[j]? = some f0 → ∀ (j' : Nat) (f : Fwd), s.fwds[j']? = some f →
          ∃ f' : Fwd, (s.fwds.set j { f0 with alive := false })[j']? = some f' ∧ f'.flowId = f.flowId := by
        intro f0 h0 j' f hf
        by_cases hjj : j = j'
        · subst hjj
          have hf0 : f0 = f := by rw [h0] at hf; exact Option.some.inj hf
          subst hf0
          have hlt : j < s.fwds.length := (List.getElem?_eq_some_iff.mp h0).1
          exact ⟨{ f0 with alive := false }, by simp [List.getElem?_set_self hlt], rfl⟩
        · exact ⟨f, by rw [List.getElem?_set_ne hjj]; exact hf, rfl⟩
      split
      · rename_i f0 h0
        refine ⟨?_, ?_, ?_⟩
        · intro k j' hg
          obtain ⟨f, hf, hk⟩ := hc _ _ hg
          obtain ⟨f', hf', hk'⟩ := setP f0 h0 j' f hf
          exact ⟨f', hf', hk'.trans hk⟩
        · intro dq' j' hh tt pp hm
          simp only [List.mem_append, List.mem_singleton, Prod.mk.injEq, reduceCtorEq, false_and, or_false] at hm
          obtain ⟨f, hf, hk⟩ := hq _ _ _ _ _ hm
          obtain ⟨f', hf', hk'⟩ := setP f0 h0 j' f hf
          exact ⟨f', hf', hk'.trans hk⟩
        · intro j' pl'' dr hm
          simp only [List.mem_append, List.mem_singleton, Prod.mk.injEq, reduceCtorEq, false_and, or_false] at hm
          obtain ⟨f, hf, hk, hdat⟩ := hr _ _ _ hm
          obtain ⟨f', hf', hk'⟩ := setP f0 h0 j' f hf
          exact ⟨f', hf', hk'.trans hk, hdat⟩
      · refine ⟨hc, ?_, ?_⟩
        · intro dq' j' hh tt pp hm
          simp only [List.mem_append, List.mem_singleton, Prod.mk.injEq, reduceCtorEq, false_and, or_false] at hm
          exact hq _ _ _ _ _ hm
        · intro j' pl'' dr hm
          simp only [List.mem_append, List.mem_singleton, Prod.mk.injEq, reduceCtorEq, false_and, or_false] at hm
          exact hr _ _ _ hm
  have runP : ∀ (ops : List SOp) (st : Srv × List (SOp × SOut)), P st →
      P (ops.foldl (fun (acc : Srv × List (SOp × SOut)) op =>
        let r := sstep acc.1 op
        (r.1, acc.2 ++ [(op, r.2)])) st) := by
    intro ops
    induction ops with
    | nil => intro st h; exact h
    | cons op rest ih => intro st h; exact ih _ (stepP st op h)
  have hP : P (srun {} ops) := by
    apply runP
    refine ⟨?_, ?_, ?_⟩
    · intro k j hg; simp [UdpMap.get] at hg
    · intro _ _ _ _ _ hm; cases hm
    · intro _ _ _ hm; cases hm
  obtain ⟨f1, hf1, hk1⟩ := hP.2.1 _ _ _ _ _ hreq
  obtain ⟨f2, hf2, hk2, hdat⟩ := hP.2.2 _ _ _ hrep
  rw [hf1] at hf2; cases hf2
  exact ⟨hk2.symm.trans hk1, hdat⟩

open Penguin.Socks Penguin.Lemmas.Socks in
/-- The SOCKS5 reply: the datagram the client builds for an entry (`send_udp_relay_response`,
    `handle_remote/socks.rs`: `udp_relay_response(target, data)`) is, for EVERY well-formed socket
    address `target` and every payload, parsed by a conforming RFC 1928 client to that address, that
    port and exactly the payload (C18's theorem).  Which address the code passes is the local
    client's own address (`client/mod.rs`, `send_datagram_reply`: `peer_addr`), not the remote
    host's; the header is well-formed and the payload is recovered either way (see the report). -/
theorem socks5_reply_parses (target : SockAddr) (h : target.wf) (payload : Bytes) :
    Spec.Rfc1928.clientParseUdp (udpRelayResponse target payload) = some (addrOf target, portOf target, payload) :=
  C18.udp_client_parses_response target h payload

end udp

/-! ## (b) TCP: the link refines a direct connection's pipe; chains of pipes are pipes -/

section tcp
open Penguin.Spec

/-- Every reachable state of the specification itself has the three properties of a direct
    connection's direction. -/
theorem pipe_spec_sound (pas : List Pipe.Act) (p : Pipe.St) (h : Pipe.run Pipe.init pas = some p) : Pipe.Ok p := by
  have stepOk : ∀ (s s' : Pipe.St) (a : Pipe.Act), Pipe.Ok s → Pipe.step s a = some s' → Pipe.Ok s' := by
    intro s s' a ok hs
    cases a with
    | write d =>
      simp only [Pipe.step] at hs
      split at hs
      · rename_i ho
        cases hs
        refine ⟨ok.pre.trans (List.prefix_append _ _), fun he => ?_, fun he => ?_⟩
        · exact absurd ho (ok.eofClosed he)
        · exact absurd ho (ok.eofClosed he)
      · cases hs
    | finish =>
      simp only [Pipe.step] at hs
      split at hs
      · rename_i ho
        cases hs
        exact ⟨ok.pre, fun _ => by simp, fun he => absurd ho (ok.eofClosed he)⟩
      · cases hs
    | abort =>
      simp only [Pipe.step] at hs
      split at hs
      · rename_i ho
        cases hs
        exact ⟨ok.pre, fun _ => by simp, fun he => absurd ho (ok.eofClosed he)⟩
      · cases hs
    | deliver d =>
      simp only [Pipe.step] at hs
      split at hs
      · rename_i hc
        cases hs
        refine ⟨List.isPrefixOf_iff_prefix.mp hc.2, fun he => ?_, fun he => ?_⟩
        · simp only at he; rw [hc.1] at he; cases he
        · simp only at he; rw [hc.1] at he; cases he
      · cases hs
    | eof =>
      simp only [Pipe.step] at hs
      split at hs
      · cases hs
      · rename_i hp
        split at hs
        · rename_i hall
          cases hs
          exact ⟨ok.pre, fun _ => by simp [hp], fun _ _ => hall⟩
        · cases hs
      · rename_i hp
        cases hs
        exact ⟨ok.pre, fun _ => by simp [hp], fun _ hf => by simp [hp] at hf⟩
  have runOk : ∀ (pas : List Pipe.Act) (s p : Pipe.St), Pipe.Ok s → Pipe.run s pas = some p → Pipe.Ok p := by
    intro pas
    induction pas with
    | nil => intro s p ok h; simp only [Pipe.run, Option.some.injEq] at h; exact h ▸ ok
    | cons a rest ih =>
      intro s p ok h
      simp only [Pipe.run] at h
      cases hs : Pipe.step s a with
      | none => simp [hs] at h
      | some s' =>
        simp only [hs, Option.bind_some] at h
        exact ih s' p (stepOk s s' a ok hs) h
  exact runOk pas Pipe.init p ⟨List.prefix_refl _, fun h => by simp [Pipe.init] at h, fun h => by simp [Pipe.init] at h⟩ h

/-- The link model refines the pipe specification: for every window, threshold and action sequence
    there is a legal run of the specification (at most one specification step per link action) whose
    input log is what the writer's successful writes accepted, whose output log is what the reader
    obtained, which is still open exactly while the writer has not ended, and in which end-of-stream
    was observed exactly when the reader saw it. -/
theorem link_refines_pipe (W th : Nat) (hW : 0 < W) (hth : th ≤ W) (as : List Link.Act) :
    ∃ (pas : List Pipe.Act) (p : Pipe.St), Pipe.run Pipe.init pas = some p ∧ pas.length ≤ as.length ∧
      p.input = (Link.run (Link.init W th) as).accepted ∧
      p.output = (Link.run (Link.init W th) as).delivered ∧
      (p.phase = .open ↔ (Link.run (Link.init W th) as).sFin = false) ∧
      p.eof = (Link.run (Link.init W th) as).eofSeen := by
  have r0 : LinkPipe.R (Link.init W th) Pipe.init :=
    ⟨rfl, rfl, by simp [Pipe.init, Link.init], rfl⟩
  obtain ⟨pas, q, hr, r, hl⟩ := LinkPipe.sim_run (Link.init W th) Pipe.init as (Link.init_inv W th hW hth) r0
  exact ⟨pas, q, hr, hl, r.inp, r.out, r.ph, r.eof⟩

/-- Hence, through the specification: what the reader has is always a prefix of what was accepted,
    end-of-stream is only seen after the writer ended (finish or abort), and then the two are equal
    (C02 / C05 restated through `Spec.Pipe`). -/
theorem link_is_pipe (W th : Nat) (hW : 0 < W) (hth : th ≤ W) (as : List Link.Act) :
    let s := Link.run (Link.init W th) as
    s.delivered <+: s.accepted ∧ (s.eofSeen = true → s.sFin = true ∧ s.delivered = s.accepted) := by
  intro s
  obtain ⟨pas, p, hr, _, hi, ho, hph, he⟩ := link_refines_pipe W th hW hth as
  have ok := pipe_spec_sound pas p hr
  refine ⟨by rw [← hi, ← ho]; exact ok.pre, fun hs => ?_⟩
  have hpe : p.eof = true := he.trans hs
  have hfin : s.sFin = true := by
    cases hf : s.sFin with
    | true => rfl
    | false => exact absurd (hph.mpr hf) (ok.eofClosed hpe)
  refine ⟨hfin, ?_⟩
  -- equality also after an abort: from the link invariant (the specification alone allows a lost tail)
  exact (LinkPipe.eof_facts s (Link.run_inv _ as (Link.init_inv W th hW hth)) hs).2

/-- One stage of a chain, seen from outside: what was put in, what came out, whether the input side
    was ended, whether the output side reported end-of-stream. -/
structure Seg where
  inp : Bytes
  out : Bytes
  fin : Bool
  eof : Bool

/-- The stage behaves like a pipe. -/
def Seg.Ok (s : Seg) : Prop := s.out <+: s.inp ∧ (s.eof = true → s.fin = true ∧ s.out = s.inp)

/-- A relay (a bridge task) copies from stage `a` into stage `b`: what it has written into `b` is
    a prefix of what it obtained from `a` (it may hold some bytes), and it ends `b`'s input only
    after `a` reported end-of-stream and everything obtained was written. -/
def Feeds (a b : Seg) : Prop := b.inp <+: a.out ∧ (b.fin = true → a.eof = true ∧ b.inp = a.out)

def Chained : List Seg → Prop
  | [] => True
  | [_] => True
  | a :: b :: rest => Feeds a b ∧ Chained (b :: rest)

/-- Composition, for any number of stages: a chain of pipe stages joined by relays is a pipe from
    the first stage's input to the last stage's output — output a prefix of input at every moment,
    end-of-stream at the far end only after the near end was finished, and then equality. -/
theorem tunnel_composition (first : Seg) (rest : List Seg)
    (hc : Chained (first :: rest)) (hok : ∀ s ∈ first :: rest, s.Ok) :
    Seg.Ok { inp := first.inp, out := (rest.getLastD first).out, fin := first.fin, eof := (rest.getLastD first).eof } := by
  induction rest generalizing first with
  | nil => exact hok first List.mem_cons_self
  | cons b rest ih =>
    have hfeed : Feeds first b := hc.1
    have hrest := ih b hc.2 (fun s hs => hok s (List.mem_cons_of_mem _ hs))
    have hf := hok first List.mem_cons_self
    simp only [List.getLastD_cons] at hrest ⊢
    refine ⟨hrest.1.trans (hfeed.1.trans hf.1), fun he => ?_⟩
    obtain ⟨hbfin, hbeq⟩ := hrest.2 he
    obtain ⟨hfeof, hfeq⟩ := hfeed.2 hbfin
    obtain ⟨hffin, hfall⟩ := hf.2 hfeof
    exact ⟨hffin, by simp only at hbeq; rw [hbeq, hfeq, hfall]⟩

/-- The link as a stage. -/
def linkSeg (s : Link.St) : Seg := { inp := s.accepted, out := s.delivered, fin := s.sFin, eof := s.eofSeen }

/-- One direction of the tunnel, end to end: local socket → (client bridge) → link → (server bridge)
    → target socket, at every moment of every run of the link, for any socket stages that are pipes
    (trusted) and any bridges that relay (C13): the target end has received a prefix of what the
    local client wrote, sees end-of-stream only after the local client ended its direction, and has
    then received exactly everything. -/
theorem tunnel_end_to_end (W th : Nat) (hW : 0 < W) (hth : th ≤ W) (as : List Link.Act)
    (localSock targetSock : Seg) (hl : localSock.Ok) (ht : targetSock.Ok)
    (hb1 : Feeds localSock (linkSeg (Link.run (Link.init W th) as)))
    (hb2 : Feeds (linkSeg (Link.run (Link.init W th) as)) targetSock) :
    targetSock.out <+: localSock.inp ∧
    (targetSock.eof = true → localSock.fin = true ∧ targetSock.out = localSock.inp) := by
  have hlink : (linkSeg (Link.run (Link.init W th) as)).Ok := link_is_pipe W th hW hth as
  have := tunnel_composition localSock [linkSeg (Link.run (Link.init W th) as), targetSock]
    ⟨hb1, hb2, trivial⟩ (by
      intro s hs
      simp only [List.mem_cons, List.not_mem_nil, or_false] at hs
      rcases hs with rfl | rfl | rfl
      · exact hl
      · exact hlink
      · exact ht)
  simpa [Seg.Ok] using this

open Penguin.Mux in
/-- Half-close at the endpoint touches one direction only: shutting down the write side of a stream
    sets `finishSent` and queues one `Finish`; the object's receive side and the slot are unchanged
    (so the reverse direction's link is not affected) — and receiving the peer's `Finish` only ends
    the read side, leaving credit, `finishSent` and the outbound queue alone. -/
theorem half_close_keeps_reverse_direction (e : EP) (hd i fid : Nat) (o : Obj) (ig : Bool)
    (hh : e.handles[hd]? = some i) (ho : e.objs[i]? = some o) (hoc : e.outClosed = false)
    (hs : lookup e.flows fid = some (.established i)) :
    (o.finishSent = false →
        (appShutdown e hd).1.objs[i]? = some { o with finishSent := true, parked := false } ∧
        (appShutdown e hd).1.outq = e.outq ++ [.frame (.finish o.fid)]) ∧
    ((processFrame e (.finish fid) ig).1.objs[i]? = some { o with senderAlive := false } ∧
     (processFrame e (.finish fid) ig).1.outq = e.outq ∧
     (processFrame e (.finish fid) ig).1.flows = e.flows) :=
  ⟨(Mux.appShutdown_glue e hd i o hh ho hoc).2, Mux.processFrame_finish_glue e fid i o ig hs ho⟩

end tcp

/-! ## Non-vacuity -/

section examples
open Penguin.UdpMap

/-- two clients, a reply, time passing, pruning: the second client survives with its id -/
example :
    let m := run {} [.add 100 7 1 false [5], .tick 6000, .add 101 7 1 false [5, 9], .tick 5000, .prune]
    (UdpMap.get m.idMap 5, (UdpMap.get m.idMap 9).map (·.peer), UdpMap.get m.addrMap (101, 7)) = (none, some 101, some 9) := by decide

/-- the non-zero generator skips a drawn 0 -/
example : (add {} 100 7 1 true [0, 0, 3]).2 = .id 3 := by decide

example : (reply (add {} 100 7 1 true [3]).1 3).2 = .target 1 100 true := by decide

/-- a finished forwarder is replaced and the datagram is not lost -/
example : (srun {} [.fromClient ⟨4, [1], 53, [9]⟩, .expire 0, .fromClient ⟨4, [1], 53, [8]⟩, .fromTarget 1 [7]]).2.map (·.2)
    = [.toTarget 0 [1] 53 [9], .none, .toTarget 1 [1] 53 [8], .toClient ⟨4, [1], 53, [7]⟩] := by decide

example : Spec.Pipe.run Spec.Pipe.init [.write [1, 2], .deliver [1], .finish, .deliver [2], .eof]
    = some { input := [1, 2], output := [1, 2], phase := .finished, eof := true } := by decide

/-- the specification refuses a reordered delivery and an early end-of-stream -/
example : Spec.Pipe.run Spec.Pipe.init [.write [1, 2], .deliver [2]] = none := by decide
example : Spec.Pipe.run Spec.Pipe.init [.write [1, 2], .finish, .deliver [1], .eof] = none := by decide

/-- a three-stage chain with bytes in flight at every relay -/
example : Chained [⟨[1, 2, 3, 4], [1, 2, 3], false, false⟩, ⟨[1, 2], [1], false, false⟩, ⟨[1], [], false, false⟩] := by
  refine ⟨⟨?_, by simp⟩, ⟨?_, by simp⟩, trivial⟩ <;> simp

end examples

/-! ### The SOCKS5 UDP association outlives datagrams it cannot relay -/

open Penguin.UdpMap

/-- The requests among the datagrams a relay socket receives. -/
def requestsOf : List RelayIn → List RelayOut
  | [] => []
  | .request d p x :: rest => .forwarded d p x :: requestsOf rest
  | _ :: rest => requestsOf rest

/-- What the relay forwarded. -/
def forwardedOf : List RelayOut → List RelayOut
  | [] => []
  | .forwarded d p x :: rest => .forwarded d p x :: forwardedOf rest
  | _ :: rest => forwardedOf rest

/-- Whatever arrives on the relay socket of a SOCKS5 UDP association — fragments, truncated or
    otherwise malformed datagrams, from the association's own client or from anybody else, in any
    number and order — every well-formed request among it is forwarded, unchanged and in order
    (RFC 1928 section 7: a relay silently drops what it cannot relay); no datagram ends the
    association.  With the source as it was before fix 0a183e4 (`Err(e) => Err(…)`) the regenerated
    `socksRelayDropsMalformed` is `false` and this fails: one junk datagram silenced every later
    request of the association. -/
theorem association_survives_junk_datagrams (ins : List RelayIn) :
    forwardedOf (relayRun true ins) = requestsOf ins ∧ RelayOut.ended ∉ relayRun true ins := by
  induction ins with
  | nil => simp [relayRun, forwardedOf, requestsOf]
  | cons i rest ih =>
    cases i with
    | request d p x =>
      simp only [relayRun, relayStep, Bool.not_true, Bool.false_eq_true, if_false, forwardedOf, requestsOf,
        List.mem_cons, reduceCtorEq, false_or]
      exact ⟨by rw [ih.1], ih.2⟩
    | fragmented =>
      have hc : socksRelayDropsFragmented = true := rfl
      simp only [relayRun, relayStep, Bool.not_true, Bool.false_eq_true, if_false, hc, if_true, forwardedOf,
        requestsOf, List.mem_cons, reduceCtorEq, false_or]
      exact ih
    | malformed =>
      have hc : socksRelayDropsMalformed = true := rfl
      simp only [relayRun, relayStep, Bool.not_true, Bool.false_eq_true, if_false, hc, if_true, forwardedOf,
        requestsOf, List.mem_cons, reduceCtorEq, false_or]
      exact ih

example : forwardedOf (relayRun true [.malformed, .request [1] 53 [9], .fragmented, .request [2] 54 []]) =
    [.forwarded [1] 53 [9], .forwarded [2] 54 []] := by decide


/-! ## (c) The HTTP-proxy entry point -/

section http
open Penguin.HttpProxy

/-- The host of the tunnel request is the authority's host with ONE pair of surrounding brackets
    removed, and only when both are there: `[` ++ inner ++ `]` becomes `inner`; every other host —
    no leading `[`, a leading `[` without a closing `]` at the very end, the empty host — is passed
    on unchanged.  (Not idempotent, and not claimed to be: see the example below.) -/
theorem http_strip_brackets_spec (h : Bytes) :
    (∀ inner, h = 0x5b :: (inner ++ [0x5d]) → stripBrackets h = inner) ∧
    ((¬ ∃ inner, h = 0x5b :: (inner ++ [0x5d])) → stripBrackets h = h) ∧
    (h.head? ≠ some 0x5b → stripBrackets h = h) := by
  have ho : UInt8.ofNat httpBracketOpen = 0x5b := by decide
  have hc : UInt8.ofNat httpBracketClose = 0x5d := by decide
  refine ⟨?_, ?_, ?_⟩
  · rintro inner rfl
    simp [stripBrackets, ho, hc, stripSuffix_concat]
  · intro hn
    cases h with
    | nil => rfl
    | cons c t =>
      simp only [stripBrackets, ho, hc]
      split
      · rename_i hc'
        cases hs : stripSuffix 0x5d t with
        | none => rfl
        | some inner =>
          exact absurd ⟨inner, by rw [hc', stripSuffix_eq_some hs]⟩ hn
      · rfl
  · intro hh
    cases h with
    | nil => rfl
    | cons c t =>
      have : c ≠ 0x5b := by simpa using hh
      simp [stripBrackets, ho, this]

/-- `[::1]` → `::1`; `::1`, `[::1`, `::1]`, `[`, `[]x` and the empty host are left alone; `[]` → empty;
    and the rule is not idempotent: `[[::1]]` → `[::1]` → `::1`. -/
example : stripBrackets [0x5b, 0x3a, 0x3a, 0x31, 0x5d] = [0x3a, 0x3a, 0x31]
    ∧ stripBrackets [0x3a, 0x3a, 0x31] = [0x3a, 0x3a, 0x31]
    ∧ stripBrackets [0x5b, 0x3a, 0x3a, 0x31] = [0x5b, 0x3a, 0x3a, 0x31]
    ∧ stripBrackets [0x3a, 0x3a, 0x31, 0x5d] = [0x3a, 0x3a, 0x31, 0x5d]
    ∧ stripBrackets [0x5b] = [0x5b]
    ∧ stripBrackets [0x5b, 0x5d, 0x78] = [0x5b, 0x5d, 0x78]
    ∧ stripBrackets [] = []
    ∧ stripBrackets [0x5b, 0x5d] = []
    ∧ stripBrackets [0x5b, 0x5b, 0x3a, 0x3a, 0x31, 0x5d, 0x5d] = [0x5b, 0x3a, 0x3a, 0x31, 0x5d]
    ∧ stripBrackets (stripBrackets [0x5b, 0x5b, 0x3a, 0x3a, 0x31, 0x5d, 0x5d]) ≠ stripBrackets [0x5b, 0x5b, 0x3a, 0x3a, 0x31, 0x5d, 0x5d] := by
  decide

/-- CONNECT with an authority `(h, p)` whose port, if one is written, is a port number: whenever
    the main loop is there the tunnel is requested for exactly (`h` without its pair of brackets,
    the port written, else 443 for an `https` URI and 80 otherwise) — once — and never otherwise; the
    client is answered `200` with an empty body, and its connection is bridged to the stream, exactly
    when the main loop is there and hands a stream over; the request itself is never forwarded. -/
theorem http_connect_target (h : Bytes) (p : PortIn) (https : Bool) (env : Env) (hp : p ≠ .invalid) :
    let o := proxy { method := .connect, authority := some ⟨h, p⟩, schemeHttps := https } env
    (o.tunnels = if env.reserveOk then [(stripBrackets h, httpNamedPort p https)] else []) ∧
    (o.answer = .fixed 200 [] ↔ env.reserveOk = true ∧ env.channelOk = true) ∧
    (o.bridged = true ↔ env.reserveOk = true ∧ env.channelOk = true) ∧
    o.forwarded = false := by
  have hs : httpStripsBrackets = true := rfl
  rcases env with ⟨a, b, c, d⟩
  cases p <;> cases https <;> cases a <;> cases b <;>
    simp_all [proxy, refuse, targetHost, targetPort, defaultPort, httpNamedPort, httpStatusShuttingDown,
      httpStatusNoChannel, httpStatusConnectOk, httpBodyConnectOk, httpDefaultPort, httpDefaultPortHttps]

example : (proxy { method := .connect, authority := some ⟨[0x5b, 0x3a, 0x3a, 0x31, 0x5d], .absent⟩, schemeHttps := true }
      { reserveOk := true, channelOk := true, handshakeOk := false, sendOk := false }) =
    { answer := .fixed 200 [], tunnels := [([0x3a, 0x3a, 0x31], 443)], bridged := true, forwarded := false } := by decide

/-- The defect fixed by 8ad03c3, for every address: when the authority's host is `[` ++ a ++ `]`
    — `a` the text of an IPv6 address, as `Authority::host` returns an IPv6 literal — the tunnel is
    requested for `a` itself, the form the server's `lookup_host((host, port))` resolves (with the
    brackets it fails: "invalid socket address").  In particular for the canonical text of every
    16-byte address (`renderV6`, the text the SOCKS entry points pass for the same target). -/
theorem http_ipv6_literal_target (a : Bytes) (p : PortIn) (m : Method) (https : Bool) (env : Env)
    (hr : env.reserveOk = true) (hp : p ≠ .invalid) :
    (proxy { method := m, authority := some ⟨0x5b :: (a ++ [0x5d]), p⟩, schemeHttps := https } env).tunnels =
      [(a, httpNamedPort p https)] ∧
    ∀ raw : Bytes, a = (Socks.renderV6 raw).toUTF8.toList →
      (proxy { method := m, authority := some ⟨0x5b :: (a ++ [0x5d]), p⟩, schemeHttps := https } env).tunnels =
        [((Socks.renderV6 raw).toUTF8.toList, httpNamedPort p https)] := by
  have hs : httpStripsBrackets = true := rfl
  have hb := (http_strip_brackets_spec (0x5b :: (a ++ [0x5d]))).1 a rfl
  have key : (proxy { method := m, authority := some ⟨0x5b :: (a ++ [0x5d]), p⟩, schemeHttps := https } env).tunnels =
      [(a, httpNamedPort p https)] := by
    rcases env with ⟨r, b, c, d⟩
    simp only at hr
    subst hr
    cases p <;> cases https <;> cases m <;> cases b <;> cases c <;> cases d <;>
      simp_all [proxy, refuse, targetHost, targetPort, defaultPort, httpNamedPort, httpDefaultPort, httpDefaultPortHttps]
  exact ⟨key, fun raw h => h ▸ key⟩

example : (proxy { method := .connect, authority := some ⟨0x5b :: ((Socks.renderV6 [0,0,0,0,0,0,0,0,0,0,0,0,0,0,0,1]).toUTF8.toList ++ [0x5d]), .num 8080⟩, schemeHttps := false }
      { reserveOk := true, channelOk := true, handshakeOk := true, sendOk := true }).tunnels =
    [((Socks.renderV6 [0,0,0,0,0,0,0,0,0,0,0,0,0,0,0,1]).toUTF8.toList, 8080)] :=
  (http_ipv6_literal_target _ _ _ _ _ rfl (by decide)).1

/-- A request without an authority (origin-form `GET /path`, `OPTIONS *`, `CONNECT /x`) never makes
    the client ask for a tunnel, whatever the method, the scheme and the environment; it is answered
    `400` (or `503` when the main loop has gone), nothing is bridged, nothing forwarded. -/
theorem http_no_tunnel_without_authority (m : Method) (https : Bool) (env : Env) :
    let o := proxy { method := m, authority := none, schemeHttps := https } env
    o.tunnels = [] ∧ o.bridged = false ∧ o.forwarded = false ∧
    (env.reserveOk = true → o.answer = .fixed 400 httpBodyNoAuthority) ∧
    (env.reserveOk = false → o.answer = .fixed 503 httpBodyShuttingDown) := by
  rcases env with ⟨a, b, c, d⟩
  cases a <;> simp [proxy, refuse, httpStatusNoAuthority, httpStatusShuttingDown]

example : (proxy { method := .other, authority := none, schemeHttps := false }
      { reserveOk := true, channelOk := true, handshakeOk := true, sendOk := true }).answer = .fixed 400 httpBodyNoAuthority := by decide

/-- When the main loop has exited (`reserve()` fails) every request — well-formed or not, CONNECT or
    not — is answered `503` "Proxy server is shutting down" before anything else is looked at: no
    tunnel, no bridge, nothing forwarded. -/
theorem http_no_tunnel_when_shutting_down (r : Req) (env : Env) (h : env.reserveOk = false) :
    proxy r env = { answer := .fixed 503 httpBodyShuttingDown, tunnels := [], bridged := false, forwarded := false } := by
  simp [proxy, refuse, h, httpStatusShuttingDown]

example : (proxy { method := .connect, authority := none, schemeHttps := true }
      { reserveOk := false, channelOk := true, handshakeOk := true, sendOk := true }).answer = .fixed 503 httpBodyShuttingDown := by decide

/-- Every refusal, with its exact status and body, happens under exactly one condition, in the order
    of the code: 503 (main loop gone), 400 "Malformed CONNECT request" (no authority), 400 "Invalid
    port …" (a port text that is no port number), 500 (no stream handed over), and for the other
    methods 502 "Failed to establish connection" (HTTP/1 handshake on the stream) / 502 "Failed to
    proxy request to target" (sending).  `200` is answered only to a CONNECT, with an empty body, and
    only when a stream exists (one tunnel was requested and granted); the answer of the target is
    relayed, and a connection bridged, only with a stream as well. -/
theorem http_failure_answers (r : Req) (env : Env) :
    let o := proxy r env
    (o.answer = .fixed 503 httpBodyShuttingDown ↔ env.reserveOk = false) ∧
    (o.answer = .fixed 400 httpBodyNoAuthority ↔ env.reserveOk = true ∧ r.authority = none) ∧
    (o.answer = .fixed 400 httpBodyInvalidPort ↔
      env.reserveOk = true ∧ ∃ a, r.authority = some a ∧ a.port = .invalid) ∧
    (o.answer = .fixed 500 httpBodyNoChannel ↔
      env.reserveOk = true ∧ httpNamesTarget r ∧ env.channelOk = false) ∧
    (o.answer = .fixed 502 httpBodyHandshakeFailed ↔
      env.reserveOk = true ∧ httpNamesTarget r ∧ env.channelOk = true ∧ r.method = .other ∧ env.handshakeOk = false) ∧
    (o.answer = .fixed 502 httpBodySendFailed ↔
      env.reserveOk = true ∧ httpNamesTarget r ∧ env.channelOk = true ∧ r.method = .other ∧ env.handshakeOk = true ∧
        env.sendOk = false) ∧
    (∀ b, o.answer = .fixed 200 b →
      b = [] ∧ r.method = .connect ∧ env.reserveOk = true ∧ env.channelOk = true ∧ o.tunnels.length = 1) ∧
    (o.answer = .upstream → env.reserveOk = true ∧ env.channelOk = true ∧ o.tunnels.length = 1) ∧
    (o.bridged = true → env.reserveOk = true ∧ env.channelOk = true ∧ o.tunnels.length = 1) := by
  have hrj : httpRejectsInvalidPort = true := rfl
  have d1 : httpBodyNoAuthority ≠ httpBodyInvalidPort := by decide
  have d2 : httpBodyHandshakeFailed ≠ httpBodySendFailed := by decide
  rcases r with ⟨m, _ | ⟨h, p⟩, https⟩ <;> rcases env with ⟨a, b, c, d⟩
  · cases a <;>
      simp [proxy, refuse, httpNamesTarget, httpStatusShuttingDown, httpStatusNoAuthority, d1]
  · cases p <;> cases a <;> cases b <;> cases m <;> cases c <;> cases d <;>
      simp [proxy, refuse, targetPort, httpNamesTarget, hrj, d1.symm, d2, d2.symm, httpStatusShuttingDown,
        httpStatusInvalidPort, httpStatusNoChannel, httpStatusConnectOk, httpBodyConnectOk,
        httpStatusHandshakeFailed, httpStatusSendFailed]

example : httpNamesTarget { method := .other, authority := some ⟨[0x68], .num 81⟩, schemeHttps := false } :=
  ⟨_, rfl, by decide⟩

example : (proxy { method := .connect, authority := some ⟨[0x68], .invalid⟩, schemeHttps := false }
      { reserveOk := true, channelOk := true, handshakeOk := true, sendOk := true }) =
    { answer := .fixed 400 httpBodyInvalidPort, tunnels := [], bridged := false, forwarded := false } := by decide

/-- One request asks for at most one tunnel, and only for the (bracket-stripped) host of its own
    authority and the port that authority names. -/
theorem http_tunnel_requested_at_most_once (r : Req) (env : Env) :
    (proxy r env).tunnels.length ≤ 1 ∧
    ∀ t ∈ (proxy r env).tunnels, ∃ a, r.authority = some a ∧ a.port ≠ .invalid ∧
      t = (stripBrackets a.host, httpNamedPort a.port r.schemeHttps) := by
  have hs : httpStripsBrackets = true := rfl
  have hrj : httpRejectsInvalidPort = true := rfl
  rcases r with ⟨m, _ | ⟨h, p⟩, https⟩ <;> rcases env with ⟨a, b, c, d⟩
  · cases a <;> simp [proxy, refuse]
  · cases p <;> cases https <;> cases a <;> cases b <;> cases m <;> cases c <;> cases d <;>
      simp [proxy, refuse, targetHost, targetPort, defaultPort, httpNamedPort, hs, hrj, httpDefaultPort, httpDefaultPortHttps]

example : (proxy { method := .other, authority := some ⟨[0x68], .absent⟩, schemeHttps := false }
      { reserveOk := true, channelOk := false, handshakeOk := true, sendOk := true }).tunnels = [([0x68], 80)] := by decide

/-- Any other method, as the code is: the tunnel is requested BEFORE the method is looked at, so a
    `GET` (or any non-CONNECT) with an authority opens a tunnel to the same target a CONNECT would;
    the client's connection is not bridged; with a stream the request is handed to an HTTP/1 client
    on it exactly when the handshake succeeds, and the target's answer is relayed exactly when the
    handshake and the sending succeed. -/
theorem http_non_connect_forwards (h : Bytes) (p : PortIn) (https : Bool) (env : Env) (hp : p ≠ .invalid) :
    let o := proxy { method := .other, authority := some ⟨h, p⟩, schemeHttps := https } env
    o.tunnels = (proxy { method := .connect, authority := some ⟨h, p⟩, schemeHttps := https } env).tunnels ∧
    o.bridged = false ∧
    (o.forwarded = true ↔ env.reserveOk = true ∧ env.channelOk = true ∧ env.handshakeOk = true) ∧
    (o.answer = .upstream ↔ env.reserveOk = true ∧ env.channelOk = true ∧ env.handshakeOk = true ∧ env.sendOk = true) := by
  rcases env with ⟨a, b, c, d⟩
  cases p <;> cases a <;> cases b <;> cases c <;> cases d <;>
    simp_all [proxy, refuse, targetPort]

example : (proxy { method := .other, authority := some ⟨[0x68], .num 8080⟩, schemeHttps := false }
      { reserveOk := true, channelOk := true, handshakeOk := true, sendOk := true }) =
    { answer := .upstream, tunnels := [([0x68], 8080)], bridged := false, forwarded := true } := by decide

end http


end Penguin.C01

namespace Penguin.C01

/-! ### Remote specifications -/

section RemoteSpecifications
open Penguin.RemoteSpec Penguin.Constants

/-- An oracle for the examples: idna leaves every host alone, lower-casing is the ASCII one. -/
def plainOracle : Oracle := ⟨fun h => some h, fun s => s.map Char.toLower⟩
/-- idna lower-cases (as the real one does on ASCII letters). -/
def loweringOracle : Oracle := ⟨fun h => some (h.map Char.toLower), fun s => s.map Char.toLower⟩
/-- idna refuses everything. -/
def refusingOracle : Oracle := ⟨fun _ => none, fun s => s.map Char.toLower⟩

/-- `Remote::from_str` returns a remote or one of the errors of `remote_spec.rs:61-83`, for every
    text and whatever `idna::domain_to_ascii` and `str::to_lowercase` answer: neither
    `unreachable!()` (`:232`, `:370`) is reachable, and the tokenizer's loop ends within five
    iterations (the model's unrolling of it never runs out, and is the same for every larger bound). -/
theorem remote_parse_total_no_panic (o : Oracle) (s : Str) :
    ((∃ r, parse o s = .ok r) ∨ (∃ e, parse o s = .error (.err e))) ∧
    (∀ fuel, 5 ≤ fuel → tokLoop fuel [] s = tokenize s) := by
  refine ⟨?_, fun fuel h => tokenize_any_fuel s fuel h⟩
  cases h : parse o s with
  | ok r => exact Or.inl ⟨r, rfl⟩
  | error f =>
    cases f with
    | err e => exact Or.inr ⟨e, rfl⟩
    | panic p => exact absurd h (parse_noPanic o s p)

example : parse plainOracle "[::1]:8080:example.com:80/udp".toList =
    .ok ⟨.inet "::1".toList 8080, .inet "example.com".toList 80, .udp⟩ := by decide
example : parse plainOracle "a:b:c:d:e".toList = .error (.err .tooManySegments) := by decide

/-- The tokenizer, completely: a text is split into `toks` exactly when `toks` are one to four
    possible tokens (not empty; in brackets: no `]` inside; bare: no `:` inside and no `[` in front)
    and the text is these tokens joined with `:`, the bracketed ones in their brackets.  In
    particular a successful tokenization loses nothing but the brackets. -/
theorem remote_tokens_spec (s : Str) (toks : List Tok) :
    tokenize s = .ok toks ↔
      (1 ≤ toks.length ∧ toks.length ≤ 4) ∧ (∀ t ∈ toks, t.WF) ∧ joinToks toks = s := by
  rw [tokenize_ok_iff]
  constructor
  · rintro ⟨h1, h2, h3, h4⟩
    exact ⟨⟨by cases toks <;> simp_all, h2⟩, h3, h4⟩
  · rintro ⟨⟨h1, h2⟩, h3, h4⟩
    exact ⟨by intro e; subst e; simp at h1, h2, h3, h4⟩

example : tokenize "[fe80::1%eth0]:53:[unix:/a:b]:x".toList =
    .ok [⟨"fe80::1%eth0".toList, true⟩, ⟨"53".toList, false⟩, ⟨"unix:/a:b".toList, true⟩, ⟨"x".toList, false⟩] := by decide
example : Tok.WF ⟨"fe80::1%eth0".toList, true⟩ ∧ ¬ Tok.WF ⟨"a:b".toList, false⟩ := by
  constructor
  · exact ⟨by decide, by decide⟩
  · intro h; exact absurd h.2 (by decide)

/-- `Display` followed by `from_str` gives the remote back, for every well-formed remote
    (`Remote.WF`: ports are 16-bit; a host is not empty, has no `]` if it has a `:`, does not start
    with `[` if it has none, and is left alone by idna; a socket path has no `]`; the combination
    passes the parser's own refusals; a local host spelled `stdio` has a fixed target) and every
    `to_lowercase` that leaves `tcp` and `udp` alone.  NOT among the conditions: `/` in a host or in a
    socket path, `unix:` in front of a host — `Display` always appends the protocol, so the last `/`
    is the protocol's. -/
theorem remote_display_parse_roundtrip (o : Oracle) (ho : OracleOK o) (r : Remote) (h : r.WF o) :
    parse o r.display = .ok r :=
  display_parse_roundtrip o ho r h

-- the hypotheses hold of non-trivial values (slashes, a zone, `unix:` as a host, a `]` in a bare host)
example : OracleOK plainOracle := ⟨by decide, by decide⟩
example : Remote.WF plainOracle ⟨.inet "fe80::1%eth/0".toList 53, .inet "unix:/x]".toList.dropLast 65535, .udp⟩ := by
  refine ⟨⟨⟨by decide, by decide, by decide, rfl⟩, by decide, fun _ => ⟨_, _, rfl⟩⟩, ⟨by decide, by decide, by decide, rfl⟩, by decide⟩
example : Remote.WF plainOracle ⟨.domainSocket "/tmp/a:b/c".toList, .http, .tcp⟩ := by
  exact ⟨⟨by decide, rfl, by decide⟩, rfl⟩
example : parse plainOracle (Remote.display ⟨.inet "x]y".toList 0, .inet "a/b".toList 80, .udp⟩) =
    .ok ⟨.inet "x]y".toList 0, .inet "a/b".toList 80, .udp⟩ := by decide

-- each side condition is needed (these are facts about the code):
/-- an empty host is displayed as nothing -/
example : parse plainOracle (Remote.display ⟨.inet [] 80, .inet "h".toList 80, .tcp⟩) = .error (.err .emptySegment) := by decide
/-- a host with `:` and `]`: the tokenizer stops at the first `]` -/
example : parse plainOracle (Remote.display ⟨.inet "a:]b".toList 80, .inet "h".toList 80, .tcp⟩) =
    .error (.err (.garbageAfterAddress 'b')) := by decide
/-- a host without `:` that starts with `[` is displayed bare and read as an unclosed bracket -/
example : parse plainOracle (Remote.display ⟨.inet "[x".toList 80, .inet "h".toList 80, .tcp⟩) =
    .error (.err .bracketMismatch) := by decide
/-- idna changes the host (the real one lower-cases and punycodes): the remote read back differs -/
example : parse loweringOracle (Remote.display ⟨.inet "H".toList 80, .socks, .tcp⟩) = .ok ⟨.inet "h".toList 80, .socks, .tcp⟩ := by decide
/-- a local host spelled `stdio` in front of a key word is read as the stdio form -/
example : parse plainOracle (Remote.display ⟨.inet "stdio".toList 80, .socks, .tcp⟩) =
    .error (.err (.port "socks".toList .invalidDigit)) := by decide
/-- and such a remote can come out of the parser (idna lower-cases `STDIO`): an accepted text whose
    remote is displayed as a text that is refused -/
example : parse loweringOracle "STDIO:80:socks".toList = .ok ⟨.inet "stdio".toList 80, .socks, .tcp⟩ := by decide
/-- a `]` in a socket path -/
example : parse plainOracle (Remote.display ⟨.domainSocket "a]b".toList, .socks, .tcp⟩) =
    .error (.err (.garbageAfterAddress 'b')) := by decide
/-- a port that is not a `u16` (not a value of the Rust type) -/
example : parse plainOracle (Remote.display ⟨.inet "h".toList 65536, .socks, .tcp⟩) =
    .error (.err (.port "65536".toList .posOverflow)) := by decide
/-- the refused combinations -/
example : parse plainOracle (Remote.display ⟨.inet "h".toList 1, .socks, .udp⟩) =
    .error (.err (.unsupportedCombination .socksHttpUdp)) := by decide
example : parse plainOracle (Remote.display ⟨.domainSocket "p".toList, .inet "h".toList 1, .udp⟩) =
    .error (.err (.unsupportedCombination .unixUdp)) := by decide
example : parse plainOracle (Remote.display ⟨.domainSocket "p".toList, .tproxy, .tcp⟩) =
    .error (.err (.unsupportedCombination .unixTproxy)) := by decide
example : parse plainOracle (Remote.display ⟨.stdio, .tproxy, .tcp⟩) =
    .error (.err (.unsupportedCombination .stdioTproxy)) := by decide
/-- a `to_lowercase` that does not leave `tcp` alone -/
example : parse ⟨fun h => some h, fun _ => []⟩ (Remote.display ⟨.stdio, .socks, .tcp⟩) = .error (.err (.protocol [])) := by decide

/-- The fixed-target forms `PORT`, `HOST:PORT`, `LPORT:HOST:PORT`, `LHOST:LPORT:HOST:PORT`,
    `stdio:[HOST:]PORT`, `[unix:PATH]:[HOST:]PORT`, each with or without `/protocol`: the listener and
    the target are exactly the ones written or the documented defaults (`0.0.0.0` to listen,
    `127.0.0.1` as target, local port = remote port), a host arrives as idna returns it for the text
    WITHOUT the brackets, a port has the value of any spelling `u16::from_str` accepts, the protocol
    is the suffix's (tcp without one); only a unix socket with udp is refused. -/
theorem remote_target_spec (o : Oracle) (t : Target) (sfx : Suffix) (ht : t.OK o) (hs : sfx.OK o) :
    parse o (joinToks t.toks ++ sfx.text) =
      if t.isUnix = true ∧ sfx.proto = .udp then .error (.err (.unsupportedCombination .unixUdp))
      else .ok (t.expected sfx.proto) :=
  target_spec o t sfx ht hs

-- `/UDP` is udp, `+0080` is 80, the IPv6 literal arrives without brackets, the unix path with its slashes
example : Suffix.OK plainOracle (.some "UDP".toList .udp) := ⟨by decide, by decide, by decide⟩
example : Target.OK plainOracle (.full ⟨⟨"::1".toList, true⟩, "::1".toList⟩ ⟨⟨"+0080".toList, false⟩, 80⟩
    ⟨⟨"fe80::1%eth0".toList, true⟩, "fe80::1%eth0".toList⟩ ⟨⟨"53".toList, false⟩, 53⟩) := by
  refine ⟨⟨⟨by decide, by decide⟩, rfl⟩, ⟨⟨by decide, by decide⟩, by decide⟩, ⟨⟨by decide, by decide⟩, rfl⟩,
    ⟨⟨by decide, by decide⟩, by decide⟩⟩
example : parse plainOracle "[::1]:+0080:[fe80::1%eth0]:53/UDP".toList =
    .ok ⟨.inet "::1".toList 80, .inet "fe80::1%eth0".toList 53, .udp⟩ := by decide
example : parse plainOracle "[unix:/tmp/a/b]:example.com:22".toList =
    .ok ⟨.domainSocket "/tmp/a/b".toList, .inet "example.com".toList 22, .tcp⟩ := by decide
example : parse plainOracle "3000".toList = .ok ⟨.inet "0.0.0.0".toList 3000, .inet "127.0.0.1".toList 3000, .tcp⟩ := by decide
/-- the help text's `R:` (reverse) prefix is not a form of this parser: `R` is a host -/
example : parse plainOracle "R:3000/udp".toList = .ok ⟨.inet "0.0.0.0".toList 3000, .inet "R".toList 3000, .udp⟩ := by decide

/-- `socks` / `http` / `tproxy` as the last token select exactly that entry kind — alone (listening
    on `127.0.0.1` and the kind's default port), after a port (`127.0.0.1:PORT`), after host and port,
    after `stdio`, after `[unix:PATH]` — and the refusals are the code's, in the code's order:
    `stdio` + `tproxy` first, then `socks`/`http` + udp, then unix + udp, then unix + `tproxy`. -/
theorem remote_entry_kind_spec (o : Oracle) (e : Entry) (sfx : Suffix) (he : e.OK o) (hs : sfx.OK o) :
    parse o (joinToks e.toks ++ sfx.text) = e.expected sfx.proto :=
  entry_spec o e sfx he hs

example : parse plainOracle "socks".toList = .ok ⟨.inet "127.0.0.1".toList 1080, .socks, .tcp⟩ := by decide
example : parse plainOracle "http".toList = .ok ⟨.inet "127.0.0.1".toList 8080, .http, .tcp⟩ := by decide
example : parse plainOracle "tproxy/udp".toList = .ok ⟨.inet "127.0.0.1".toList 8081, .tproxy, .udp⟩ := by decide
example : parse plainOracle "[::1]:5000:[http]".toList = .ok ⟨.inet "::1".toList 5000, .http, .tcp⟩ := by decide
example : parse plainOracle "[unix:/p]:tproxy/udp".toList = .error (.err (.unsupportedCombination .unixUdp)) := by decide
example : parse plainOracle "stdio:tproxy/udp".toList = .error (.err (.unsupportedCombination .stdioTproxy)) := by decide
example : parse plainOracle "SOCKS".toList = .error (.err (.port "SOCKS".toList .invalidDigit)) := by decide
example : Entry.expected .udp (.unix "/p".toList .socks false) = .error (.err (.unsupportedCombination .socksHttpUdp)) := by decide

/-- The converse: whatever text is accepted, its remote is a SOCKS / HTTP / TPROXY entry point exactly
    when the LAST token of the part in front of the protocol suffix is `socks` / `http` / `tproxy`
    (brackets around the key word do not matter, upper case does: `SOCKS` is a bad port), and its
    protocol is the one the split found. -/
theorem remote_entry_kind_iff (o : Oracle) (s : Str) (r : Remote) (h : parse o s = .ok r) :
    ∃ rest proto init last, splitProto o s = .ok (rest, proto) ∧ tokenize rest = .ok (init ++ [last]) ∧
      (r.remoteAddr = .socks ↔ last.text = kwSocks) ∧ (r.remoteAddr = .http ↔ last.text = kwHttp) ∧
      (r.remoteAddr = .tproxy ↔ last.text = kwTproxy) ∧ r.protocol = proto := by
  obtain ⟨rest, proto, init, last, h1, h2, ⟨k1, k2, k3⟩, h4⟩ := parse_ok_kind h
  exact ⟨rest, proto, init, last, h1, h2, k1, k2, k3, h4⟩

example : parse plainOracle "socks:80".toList = .ok ⟨.inet "0.0.0.0".toList 80, .inet "socks".toList 80, .tcp⟩ := by decide

/-- Which error, for texts that are `k ≤ 4` well-formed segments, each followed by `:`, and then:
    * nothing, or another `:` — an empty segment among the first four: `EmptySegment`;
    * `[]…`: `EmptySegment` as well;
    * anything, when `k = 4`: `TooManySegments`, even if a later segment is empty (the count is
      checked first) — except
    * `[` with no `]` behind it: `BracketMismatch`, for every `k ≤ 4` (the bracket is looked for
      before the count is checked);
    * `[t]c…` with `c ≠ ':'`: `GarbageAfterAddress(c)`. -/
theorem remote_errors_spec (pre : List Tok) (hw : ∀ t ∈ pre, t.WF) (hk : pre.length ≤ 4) (tail : Str) :
    (pre.length < 4 → (tail = [] ∨ ∃ x, tail = ':' :: x) →
      tokenize (prefixText pre tail) = .error (.err .emptySegment)) ∧
    (pre.length < 4 → (∃ x, tail = '[' :: ']' :: x) →
      tokenize (prefixText pre tail) = .error (.err .emptySegment)) ∧
    (pre.length = 4 → (tail.head? ≠ some '[' ∨ ']' ∈ tail) →
      tokenize (prefixText pre tail) = .error (.err .tooManySegments)) ∧
    ((∃ body, tail = '[' :: body ∧ ']' ∉ body) →
      tokenize (prefixText pre tail) = .error (.err .bracketMismatch)) ∧
    (pre.length < 4 → ∀ t ch more, tail = '[' :: t ++ ']' :: ch :: more → t ≠ [] → ']' ∉ t → ch ≠ ':' →
      tokenize (prefixText pre tail) = .error (.err (.garbageAfterAddress ch))) := by
  rw [tokenize_prefix hw hk]
  obtain ⟨f, hf⟩ : ∃ f, 5 - pre.length = f + 1 := ⟨4 - pre.length, by omega⟩
  rw [hf]
  refine ⟨fun h1 h2 => step_empty h1 h2, ?_, fun h1 h2 => step_full (by omega) h2, ?_, ?_⟩
  · rintro h1 ⟨x, rfl⟩; exact step_empty_brackets h1
  · rintro ⟨body, rfl, hb⟩; exact step_mismatch hb
  · rintro h1 t ch more rfl h2 h3 h4; exact step_garbage h1 h2 h3 h4

example : parse plainOracle [] = .error (.err .emptySegment) := by decide
example : parse plainOracle "a::c:d:e".toList = .error (.err .emptySegment) := by decide
example : parse plainOracle "a:b:c:d::".toList = .error (.err .tooManySegments) := by decide
example : parse plainOracle "a:b:c:d:[e".toList = .error (.err .bracketMismatch) := by decide
example : parse plainOracle "a:b:c:d:[e]".toList = .error (.err .tooManySegments) := by decide
example : parse plainOracle "[::1]x:80".toList = .error (.err (.garbageAfterAddress 'x')) := by decide
example : prefixText [⟨"a".toList, false⟩, ⟨"b".toList, true⟩] "c".toList = "a:[b]:c".toList := by decide

/-- A suffix that is not a protocol is reported before anything in front of it is looked at, with the
    LOWER-CASED text; a `/` followed later by a `:` is not a protocol separator at all. -/
theorem remote_errors_spec_protocol (o : Oracle) (rest ptxt : Str) (h1 : '/' ∉ ptxt) :
    (':' ∉ ptxt → o.lower ptxt ≠ kwTcp → o.lower ptxt ≠ kwUdp →
      parse o (rest ++ '/' :: ptxt) = .error (.err (.protocol (o.lower ptxt)))) ∧
    (':' ∈ ptxt → parse o (rest ++ '/' :: ptxt) =
      match tokenize (rest ++ '/' :: ptxt) with
      | .error e => .error e
      | .ok toks => finish o .tcp (toks.map (·.text))) :=
  ⟨fun h2 h3 h4 => parse_bad_protocol o rest ptxt h1 h2 h3 h4, fun h2 => parse_colon_after_slash o rest ptxt h1 h2⟩

example : parse plainOracle ":::::[/X".toList = .error (.err (.protocol "x".toList)) := by decide
example : parse plainOracle "80/".toList = .error (.err (.protocol [])) := by decide
example : parse plainOracle "80:[fe80::1%eth/0]:80".toList =
    .ok ⟨.inet "0.0.0.0".toList 80, .inet "fe80::1%eth/0".toList 80, .tcp⟩ := by decide
/-- but a `/` in the LAST segment is taken for the protocol separator -/
example : parse plainOracle "80:[fe80::1%eth/0]".toList = .error (.err (.protocol "0]".toList)) := by decide
/-- and a socket path written without the brackets is cut at its `:` -/
example : parse plainOracle "unix:/tmp/s:80".toList = .error (.err (.port "unix".toList .invalidDigit)) := by decide

/-- The port texts `u16::from_str` accepts, exactly: an optional single `+`, then one or more ASCII
    digits — leading zeros allowed — whose value is at most 65535.  (So `+80` and `0080` are ports;
    `-0`, ` 80`, `８０`, the empty text are not.) -/
theorem remote_port_text_spec (s : Str) (n : Nat) :
    parseU16 s = .ok n ↔
      ∃ ds, (s = ds ∨ s = '+' :: ds) ∧ ds ≠ [] ∧ AllDigits ds ∧ Nat.ofDigitChars 10 ds 0 = n ∧ n ≤ 65535 :=
  parseU16_ok_iff s n

example : parseU16 "+80".toList = .ok 80 ∧ parseU16 "0000000080".toList = .ok 80 ∧ parseU16 "65535".toList = .ok 65535 := by decide
example : parseU16 "065536".toList = .error .posOverflow ∧ parseU16 "-0".toList = .error .invalidDigit ∧
    parseU16 "+".toList = .error .invalidDigit ∧ parseU16 [] = .error .empty ∧ parseU16 "++1".toList = .error .invalidDigit ∧
    parseU16 "99999x".toList = .error .posOverflow ∧ parseU16 "9999x".toList = .error .invalidDigit := by decide

/-- `u16::from_str` chooses between an unchecked and a checked loop by the BYTE length of the digits
    (`can_not_overflow`: at most 4); the choice is not observable — the result is always the checked
    loop's — so that modelling texts as characters rather than bytes loses nothing here. -/
theorem remote_port_fast_path_unobservable (src : Str) :
    parseU16 src =
      if src = [] then .error .empty
      else if src = ['+'] ∨ src = ['-'] then .error .invalidDigit
      else checkedLoop 0 (signStripped src) :=
  parseU16_eq src

example : utf8Len "12é".toList = 4 ∧ parseU16 "12é".toList = .error .invalidDigit ∧
    utf8Len "12é4".toList = 5 ∧ parseU16 "12é4".toList = .error .invalidDigit := by decide

/-- A single bare segment that is not a key word is a port: `PORT` is accepted exactly when
    `u16::from_str` accepts it, and refused with that text and `u16`'s error kind otherwise. -/
theorem remote_errors_spec_port (o : Oracle) (t : Str) (hne : t ≠ []) (h1 : ':' ∉ t) (h2 : '/' ∉ t)
    (h3 : t.head? ≠ some '[') (h4 : isSpecial t = false) :
    parse o t =
      match parseU16 t with
      | .ok n => .ok ⟨.inet defaultUnspec n, .inet defaultLocal n, .tcp⟩
      | .error k => .error (.err (.port t k)) :=
  parse_single o t hne h1 h2 h3 h4

example : parse plainOracle "+80".toList = .ok ⟨.inet "0.0.0.0".toList 80, .inet "127.0.0.1".toList 80, .tcp⟩ := by decide
example : parse plainOracle "65536".toList = .error (.err (.port "65536".toList .posOverflow)) := by decide

/-- Whatever text a `Port` error carries is a segment of the input on which `u16::from_str` fails
    with that kind; since segments are never empty, the kind is `InvalidDigit` or `PosOverflow`:
    `Port(_, Empty)` (and `NegOverflow`, `Zero`) cannot come out of `Remote::from_str`. -/
theorem remote_port_error_never_empty (o : Oracle) (s t : Str) (k : IntErrKind)
    (h : parse o s = .error (.err (.port t k))) :
    parseU16 t = .error k ∧ t ≠ [] ∧ (k = .invalidDigit ∨ k = .posOverflow) :=
  parse_port_error h

example : parse plainOracle "80:x:".toList = .error (.err .emptySegment) := by decide
example : parse refusingOracle "80:x:9z".toList = .error (.err (.invalidDomain "x".toList)) := by decide
/-- the local port is read before the host is handed to idna (`:342-351`), the remote port after -/
example : parse refusingOracle "8o:x:9z".toList = .error (.err (.port "8o".toList .invalidDigit)) := by decide

/-- What `handle_remote` (`client/handle_remote/mod.rs:80-140`) takes for granted about a parsed
    remote, for every accepted text: `socks` and `http` are tcp ("the parser guarantees that the
    protocol is TCP"), a unix socket listener is tcp and never `tproxy`, `stdio` never comes with
    `tproxy` (the `unreachable!` of its last arm), and the ports are 16-bit. -/
theorem remote_parse_result_invariants (o : Oracle) (s : Str) (r : Remote) (h : parse o s = .ok r) :
    ((r.remoteAddr = .socks ∨ r.remoteAddr = .http) → r.protocol = .tcp) ∧
    (r.localAddr.isDomainSocket = true → r.protocol = .tcp ∧ r.remoteAddr ≠ .tproxy) ∧
    ¬ (r.localAddr = .stdio ∧ r.remoteAddr = .tproxy) ∧
    r.localAddr.PortOK ∧ r.remoteAddr.PortOK := by
  obtain ⟨⟨h1, h2, h3⟩, h4, h5⟩ := parse_ok_invariants h
  exact ⟨h4, h5, h3, h1, h2⟩

example : parse plainOracle "[unix:/p]:socks".toList = .ok ⟨.domainSocket "/p".toList, .socks, .tcp⟩ := by decide

/-- The default ports the help text (`arg/mod.rs:139-149`) advertises against the constants the
    parser uses: `socks` and `http` agree.  (PARTIAL: `tproxy` does not — see the example.) -/
theorem remote_help_default_ports_partial :
    remoteHelpSocksPort = remoteSocksDefaultPort ∧ remoteHelpHttpPort = remoteHttpDefaultPort := by decide

/-- FINDING (documentation, not behaviour): the help text says the default LOCAL_PORT of a `tproxy`
    remote is 1234; `TPROXY_DEFAULT_PORT` is 8081 and that is where a bare `tproxy` listens. -/
example : remoteHelpTproxyPort = 1234 ∧ remoteTproxyDefaultPort = 8081 ∧
    parse plainOracle "tproxy".toList = .ok ⟨.inet "127.0.0.1".toList 8081, .tproxy, .tcp⟩ := by decide

end RemoteSpecifications

end Penguin.C01

namespace Penguin.C01

/-! ### Which handler serves which remote (`handle_remote`, `Model/Dispatch.lean`) -/
section Dispatch
open Penguin.RemoteSpec Penguin.Dispatch

private theorem parse_inv (o : Oracle) (s : Str) (r : Remote) (h : parse o s = .ok r) :
    ((r.remoteAddr = .socks ∨ r.remoteAddr = .http) → r.protocol = .tcp) ∧
    (r.localAddr.isDomainSocket = true → r.protocol = .tcp ∧ r.remoteAddr ≠ .tproxy) ∧
    ¬ (r.localAddr = .stdio ∧ r.remoteAddr = .tproxy) := by
  obtain ⟨⟨_, _, h3⟩, h4, h5⟩ := parse_ok_invariants h
  exact ⟨h4, h5, h3⟩

/-- Whatever text the user gives: if it parses, `handle_remote` never reaches its
    `unreachable!("clap should have rejected this combination")` — proved from what the parser guarantees, not assumed. -/
theorem dispatch_never_unreachable_on_parsed (o : Oracle) (s : Str) (r : Remote) (h : parse o s = .ok r) :
    dispatch r ≠ .unreachable := by
  obtain ⟨_, h2, h3⟩ := parse_inv o s r h
  obtain ⟨la, ra, pr⟩ := r
  cases la <;> cases ra <;> cases pr <;> simp_all [dispatch, LocalSpec.isDomainSocket]

/-- "The parser guarantees that the protocol is TCP" (the comment on the six arms that ignore the protocol): for a
    parsed remote the handler serves datagrams exactly when the remote was given as `/udp` — a UDP remote is never
    silently served by a TCP handler, nor the reverse. -/
theorem dispatch_udp_remote_gets_datagram_handler (o : Oracle) (s : Str) (r : Remote) (h : parse o s = .ok r) :
    (dispatch r).isUdp = true ↔ r.protocol = .udp := by
  obtain ⟨h1, h2, h3⟩ := parse_inv o s r h
  obtain ⟨la, ra, pr⟩ := r
  cases la <;> cases ra <;> cases pr <;> simp_all [dispatch, Handler.isUdp, LocalSpec.isDomainSocket]

/-- The fixed-target handlers are started with exactly the listener and the target of the remote (every `Remote`
    value, parsed or not): a TCP forwarder on the remote's own listener for the remote's own (host, port); a UDP
    forwarder on the remote's own local address for its own target. -/
theorem dispatch_target (r : Remote) :
    (∀ l rh rp, dispatch r = .tcpForward l rh rp → r.remoteAddr = .inet rh rp ∧
        (r.localAddr = .stdio ∧ l = .stdio ∨ (∃ p, r.localAddr = .domainSocket p ∧ l = .uds p) ∨
         (∃ lh lp, r.localAddr = .inet lh lp ∧ l = .tcp lh lp ∧ r.protocol = .tcp))) ∧
    (∀ lh lp rh rp, dispatch r = .udpForward lh lp rh rp →
        r.localAddr = .inet lh lp ∧ r.remoteAddr = .inet rh rp ∧ r.protocol = .udp) ∧
    (∀ rh rp, dispatch r = .udpStdio rh rp → r.localAddr = .stdio ∧ r.remoteAddr = .inet rh rp ∧ r.protocol = .udp) := by
  obtain ⟨la, ra, pr⟩ := r
  cases la <;> cases ra <;> cases pr <;> simp [dispatch] <;> (intros; subst_vars; simp)

/-- Two remotes occupy the same local end only if they have the same local address AND the same transport: a TCP
    remote and a UDP remote on one local host and port — `5353:h:53` and `5353:h:53/udp`, separate name spaces —
    occupy different ends (both are opened: what seeded change C01-11 broke with a registry keyed by host:port). -/
theorem dispatch_local_ends_distinct (r1 r2 : Remote)
    (h : (dispatch r1).localEnd = (dispatch r2).localEnd) (hn : (dispatch r1).localEnd ≠ .none) :
    r1.localAddr = r2.localAddr ∧ (dispatch r1).isUdp = (dispatch r2).isUdp := by
  obtain ⟨la1, ra1, pr1⟩ := r1
  obtain ⟨la2, ra2, pr2⟩ := r2
  cases la1 <;> cases ra1 <;> cases pr1 <;> cases la2 <;> cases ra2 <;> cases pr2 <;>
    simp_all [dispatch, Handler.localEnd, Handler.isUdp]

/-- Non-vacuity: the texts parse, the handlers are the expected ones, a TCP and a UDP remote on one port differ. -/
example : parse plainOracle "5353:h:53".toList = .ok ⟨.inet "0.0.0.0".toList 5353, .inet "h".toList 53, .tcp⟩ ∧
    dispatch ⟨.inet "0.0.0.0".toList 5353, .inet "h".toList 53, .tcp⟩ = .tcpForward (.tcp "0.0.0.0".toList 5353) "h".toList 53 ∧
    parse plainOracle "5353:h:53/udp".toList = .ok ⟨.inet "0.0.0.0".toList 5353, .inet "h".toList 53, .udp⟩ ∧
    dispatch ⟨.inet "0.0.0.0".toList 5353, .inet "h".toList 53, .udp⟩ = .udpForward "0.0.0.0".toList 5353 "h".toList 53 ∧
    (dispatch ⟨.inet "0.0.0.0".toList 5353, .inet "h".toList 53, .tcp⟩).localEnd ≠
      (dispatch ⟨.inet "0.0.0.0".toList 5353, .inet "h".toList 53, .udp⟩).localEnd := by decide
/-- The unreachable arm IS reachable for a `Remote` value the parser never produces (so the hypothesis matters). -/
example : dispatch ⟨.stdio, .tproxy, .tcp⟩ = .unreachable := by decide
example : (dispatch ⟨.domainSocket "/p".toList, .inet "h".toList 1, .udp⟩).isUdp = false := by decide

end Dispatch

end Penguin.C01

namespace Penguin.C01

/-! ### Fixed-target entry points -/
section FixedTarget
open Penguin Penguin.Constants Penguin.UdpMap Penguin.FixedTarget

set_option maxRecDepth 8192 in
/-- Source-shape tie: the statements of `handle_udp`, `handle_tcp` (before the loop and inside it, in order) and of
    `request_tcp_channel`, regenerated from the source, are the ones `Model/FixedTarget.lean` was transcribed from:
    in `handle_udp` ONE `recv_from` per iteration, `client_id` is what `add_udp_client` returns for THAT `addr`, the
    frame is `{ target_host: rhost, target_port: rport, flow_id: client_id, data: buf }`, one send; in `handle_tcp`
    reserve, accept, `request_tcp_channel(permit, rhost, rport)`, `into_copy_bidirectional`, in this order. -/
theorem fixed_target_shape_as_in_source :
    fixedUdpPrelude = udpPreludeTexts ∧ fixedUdpLoop = udpLoopTexts ∧ fixedUdpFrame = udpFrameTexts ∧
    fixedTcpPrelude = tcpPreludeTexts ∧ fixedTcpLoop = tcpLoopTexts ∧
    fixedRequestParams = requestParamsTexts ∧ fixedRequestBody = requestBodyTexts := by decide

/-- One iteration of `handle_tcp`, every answer of the environment: every tunnel request is for exactly the configured
    (rhost, rport) and there is at most one; a connection is accepted only with a permit in hand and every accepted
    connection has its request made; it is bridged exactly when permit, connection and stream were obtained, otherwise
    it is dropped and the handler ends with the fatal error of the source; when the main loop is gone at `reserve`
    nothing is accepted and nothing requested; a failing bridge is logged and ends nothing. -/
theorem tcp_entry_requests_exactly_the_configured_target (rhost : Bytes) (rport : Nat) (env : TcpEnv) :
    let o := tcpSession rhost rport env
    (∀ h p, Event.requested h p ∈ o.events → h = rhost ∧ p = rport) ∧
    o.events.countP Event.isRequest ≤ 1 ∧
    (Event.accepted ∈ o.events ↔ env.reserveOk = true ∧ env.acceptOk = true) ∧
    (Event.requested rhost rport ∈ o.events ↔ Event.accepted ∈ o.events) ∧
    (Event.bridged ∈ o.events ↔ env.reserveOk = true ∧ env.acceptOk = true ∧ env.streamOk = true) ∧
    (Event.accepted ∈ o.events → (Event.bridged ∈ o.events ↔ Event.dropped ∉ o.events)) ∧
    (env.reserveOk = false → o.events = [] ∧ o.fatal = some .requestStream) ∧
    (o.fatal = none ↔ Event.bridged ∈ o.events) ∧
    (Event.dropped ∈ o.events → o.fatal = some .mainLoopExitWithoutSendingStream) := by
  obtain ⟨a, b, c, d⟩ := env
  cases a <;> cases b <;> cases c <;> cases d <;> simp [tcpSession, Event.isRequest, List.countP_cons]

/-- The whole accept loop, every script of answers: only the configured target is ever requested, exactly one request
    per accepted connection, never more bridges than requests. -/
theorem tcp_listener_one_request_per_accepted_connection (rhost : Bytes) (rport : Nat) (envs : List TcpEnv) :
    let o := tcpListener rhost rport envs
    (∀ h p, Event.requested h p ∈ o.events → h = rhost ∧ p = rport) ∧
    o.events.countP Event.isRequest = o.events.count .accepted ∧
    o.events.count .bridged ≤ o.events.countP Event.isRequest := by
  induction envs with
  | nil => simp [tcpListener]
  | cons env rest ih =>
    obtain ⟨ih1, ih2, ih3⟩ := ih
    obtain ⟨a, b, c, d⟩ := env
    cases a <;> cases b <;> cases c <;> cases d <;>
      simp [tcpListener, tcpSession, Event.isRequest, List.countP_cons] <;>
      first | exact ⟨ih1, ih2, ih3⟩ | (refine ⟨?_, by omega, by omega⟩; intro h p hh; rcases hh with hh | hh; exact hh; exact ih1 h p hh)

example : tcpSession [0x68] 80 ⟨true, true, true, false⟩ =
    ⟨[.reserved, .accepted, .requested [0x68] 80, .gotStream, .bridged, .bridgeErrorLogged], none⟩ := by decide
example : tcpSession [0x68] 80 ⟨true, true, false, true⟩ =
    ⟨[.reserved, .accepted, .requested [0x68] 80, .dropped], some .mainLoopExitWithoutSendingStream⟩ := by decide
example : tcpSession [0x68] 80 ⟨false, true, true, true⟩ = ⟨[], some .requestStream⟩ := by decide
example : (tcpListener [0x68] 80 [⟨true, true, true, true⟩, ⟨true, true, true, false⟩, ⟨true, false, true, true⟩, ⟨true, true, true, true⟩]) =
    ⟨[.reserved, .accepted, .requested [0x68] 80, .gotStream, .bridged,
      .reserved, .accepted, .requested [0x68] 80, .gotStream, .bridged, .bridgeErrorLogged, .reserved], some .clientIo⟩ := by decide

private theorem udpIter_fst (c : UdpCfg) (m : Maps) (i : UIn) : (udpIter c m i).1 = (step m (toOp c i)).1 := by
  cases i with
  | other op => rfl
  | rx peer data rng txOk =>
    simp only [udpIter, toOp, step]
    split <;> rfl

/-- `handle_udp`, for EVERY sequence of received datagrams from any senders, interleaved with whatever other tasks do
    to the shared maps, as long as the listener runs (no failing send, no panic): it takes exactly one step per input,
    and the k-th step, when the k-th input is a datagram `data` from `peer`, sends exactly one frame: flow id = the id
    `add_udp_client` answers for THAT `peer` on the maps as they are at that moment (`UdpMap.add` after the first k
    inputs), target = the handler's own (rhost, rport), payload = `data`; a step of another task sends nothing.  So the
    frames are the datagrams in order, none dropped, duplicated or sent under another sender's id. -/
theorem udp_each_datagram_carries_its_senders_id (c : UdpCfg) (m : Maps) (ins : List UIn)
    (hok : ∀ o ∈ (udpListener c m ins).2, o.stops = false) :
    (udpListener c m ins).2.length = ins.length ∧
    (udpListener c m ins).1 = run m (ins.map (toOp c)) ∧
    (∀ k peer data rng txOk, ins[k]? = some (.rx peer data rng txOk) →
      ∃ cid, (add (run m ((ins.take k).map (toOp c))) peer c.localAddr c.sock false rng).2 = .id cid ∧
        (udpListener c m ins).2[k]? = some (.sent { flowId := cid, host := c.rhost, port := c.rport, data := data })) ∧
    (∀ (k : Nat) (op : UdpMap.Op), ins[k]? = some (UIn.other op) → (udpListener c m ins).2[k]? = some UOut.foreign) := by
  induction ins generalizing m with
  | nil => simp [udpListener, run]
  | cons i rest ih =>
    have hns : (udpIter c m i).2.stops = false := by
      apply hok
      simp only [udpListener]
      split <;> simp
    have hl : udpListener c m (i :: rest) =
        ((udpListener c (udpIter c m i).1 rest).1, (udpIter c m i).2 :: (udpListener c (udpIter c m i).1 rest).2) := by
      simp [udpListener, hns]
    rw [hl] at hok ⊢
    have hrun : ∀ ops, run m (toOp c i :: ops) = run (udpIter c m i).1 ops := by
      intro ops; simp [run, udpIter_fst]
    obtain ⟨ih1, ih2, ih3, ih4⟩ := ih (udpIter c m i).1 (fun o ho => hok o (List.mem_cons_of_mem _ ho))
    refine ⟨by simp [ih1], by simp only [List.map_cons, hrun]; exact ih2, ?_, ?_⟩
    · intro k peer data rng txOk hk
      cases k with
      | zero =>
        simp only [List.getElem?_cons_zero, Option.some.injEq] at hk
        subst hk
        simp only [List.take_zero, List.map_nil, run, List.foldl_nil, List.getElem?_cons_zero, Option.some.injEq]
        simp only [udpIter] at hns ⊢
        split at hns
        · rename_i cid hid
          refine ⟨cid, hid, ?_⟩
          cases txOk <;> simp_all [UOut.stops]
        · simp [UOut.stops] at hns
        · simp [UOut.stops] at hns
      | succ k =>
        simp only [List.getElem?_cons_succ] at hk ⊢
        simp only [List.take_succ_cons, List.map_cons, hrun]
        exact ih3 k peer data rng txOk hk
    · intro k op hk
      cases k with
      | zero =>
        simp only [List.getElem?_cons_zero, Option.some.injEq] at hk
        subst hk
        simp [udpIter]
      | succ k =>
        simp only [List.getElem?_cons_succ] at hk ⊢
        exact ih4 k op hk

/-- Same sender, same id; distinct senders, distinct ids — while the entries live.  In a run of the listener from the
    empty maps: when the k-th datagram (from `p2`) is sent under id `c2` and an id `c1`, under which an earlier datagram
    from `p1` was sent, still names its entry (for `p1` on this socket) at that moment, then `c1 = c2` exactly when
    `p1 = p2`.  From `reply_routing` and the bijection `ids_injective`. -/
theorem udp_same_sender_same_id_distinct_senders_distinct_ids (c : UdpCfg) (ins : List UIn)
    (hok : ∀ o ∈ (udpListener c {} ins).2, o.stops = false)
    (j k : Nat) (p1 p2 : Addr) (d1 d2 : Bytes) (r1 r2 : List Nat) (t1 t2 : Bool) (c1 c2 : Nat) (_hjk : j < k)
    (_hj : ins[j]? = some (.rx p1 d1 r1 t1)) (hk : ins[k]? = some (.rx p2 d2 r2 t2))
    (_hf1 : (udpListener c {} ins).2[j]? = some (.sent { flowId := c1, host := c.rhost, port := c.rport, data := d1 }))
    (hf2 : (udpListener c {} ins).2[k]? = some (.sent { flowId := c2, host := c.rhost, port := c.rport, data := d2 }))
    (hlive : ∃ e, UdpMap.get (run {} ((ins.take (k + 1)).map (toOp c))).idMap c1 = some e ∧ e.peer = p1 ∧ e.our = c.localAddr) :
    c1 = c2 ↔ p1 = p2 := by
  obtain ⟨_, _, h3, _⟩ := udp_each_datagram_carries_its_senders_id c {} ins hok
  obtain ⟨cid, hadd, hs⟩ := h3 k p2 d2 r2 t2 hk
  rw [hs] at hf2
  simp only [Option.some.injEq, UOut.sent.injEq, Dgram.mk.injEq] at hf2
  obtain ⟨rfl, -⟩ := hf2
  have hstate : run {} ((ins.take (k + 1)).map (toOp c)) =
      (add (run {} ((ins.take k).map (toOp c))) p2 c.localAddr c.sock false r2).1 := by
    rw [List.take_add_one, hk]
    simp [run, List.foldl_append, toOp, step]
  obtain ⟨e2, hg2, hp2, ho2, -, -⟩ := reply_routing ((ins.take k).map (toOp c)) p2 c.localAddr c.sock false r2 cid hadd
  rw [← hstate] at hg2
  obtain ⟨e1, hg1, hp1, ho1⟩ := hlive
  obtain ⟨-, hinj, -, -⟩ := ids_injective ((ins.take (k + 1)).map (toOp c))
  constructor
  · intro h
    subst h
    rw [hg1] at hg2
    cases hg2
    rw [← hp1, hp2]
  · intro h
    exact hinj c1 cid e1 e2 hg1 hg2 (by rw [hp1, hp2, h]) (by rw [ho1, ho2])

/-- Non-vacuity: two senders (addresses 100 and 200) interleaved on the listener bound at 7, the prune task and the
    clock in between; each frame carries its own sender's id (5 for 100, 9 for 200), the configured target and its own
    payload. -/
example : (udpListener ⟨7, 1, [0x68], 53⟩ {}
      [.rx 100 [1] [5] true, .rx 200 [2] [0, 5, 9] true, .other (.tick 10), .rx 100 [3] [] true, .other .prune,
       .rx 200 [] [] true, .rx 100 [4] [] true]).2 =
    [.sent ⟨5, [0x68], 53, [1]⟩, .sent ⟨9, [0x68], 53, [2]⟩, .foreign, .sent ⟨5, [0x68], 53, [3]⟩, .foreign,
     .sent ⟨9, [0x68], 53, []⟩, .sent ⟨5, [0x68], 53, [4]⟩] := by decide
example : frames (udpListener ⟨7, 1, [0x68], 53⟩ {} [.rx 100 [1] [5] true, .rx 200 [2] [9] true, .rx 100 [3] [] true]).2 =
    [⟨5, [0x68], 53, [1]⟩, ⟨9, [0x68], 53, [2]⟩, ⟨5, [0x68], 53, [3]⟩] := by decide
/-- the hypotheses of the two theorems hold on it (no step stops; the first sender's entry lives at the third datagram) -/
example : (∀ o ∈ (udpListener ⟨7, 1, [0x68], 53⟩ {} [.rx 100 [1] [5] true, .rx 200 [2] [9] true, .rx 100 [3] [] true]).2,
      o.stops = false) ∧
    (UdpMap.get (run {} (([UIn.rx 100 [1] [5] true, .rx 200 [2] [9] true, .rx 100 [3] [] true].take 3).map
      (toOp ⟨7, 1, [0x68], 53⟩))).idMap 5).map (fun e => (e.peer, e.our)) = some (100, 7) := by decide
/-- the main loop gone: the listener ends with `SendDatagram`, nothing is sent afterwards -/
example : (udpListener ⟨7, 1, [0x68], 53⟩ {} [.rx 100 [1] [5] true, .rx 200 [2] [9] false, .rx 100 [3] [] true]).2 =
    [.sent ⟨5, [0x68], 53, [1]⟩, .fatal .sendDatagram] := by decide

end FixedTarget

end Penguin.C01

namespace Penguin.C01

/-! ### The server's TCP forwarder -/
section ServerForward
open Penguin Penguin.Constants Penguin.ServerForward

/-- Source-shape tie: the statements of `tcp_forwarder_on_channel`, of the closure of `bind_tcp_for_target` and of the
    candidate loop of `resolve_and_try` (`penguin/src/server/forwarder.rs`), regenerated from the source, are the ones
    `Model/ServerForward.lean` was transcribed from: host and port are the stream's `dest_host` / `dest_port`; ONE
    `bind_tcp_for_target((rhost, rport), …)`; ONE `socket.connect(target)` on the returned socket to the returned
    target; `peer_addr()?`; the bridge; a candidate that `is_ipv4()` is bound on `outgoing_from_v4`, any other on
    `outgoing_from_v6`; `Ok(r) => return Ok(r)`, `Err(e) => last_err = Some(e)`; `InvalidInput` when nothing was tried. -/
theorem server_forward_shape_as_in_source :
    serverFwdParams = fwdParamsTexts ∧ serverFwdBody = fwdBodyTexts ∧
    serverFwdBindParams = bindParamsTexts ∧ serverFwdBindCall = bindCallTexts ∧
    serverFwdBindPrelude = bindPreludeTexts ∧ serverFwdBindCond = bindCondTexts ∧
    serverFwdBindThen = bindThenTexts ∧ serverFwdBindElse = bindElseTexts ∧ serverFwdBindTail = bindTailTexts ∧
    serverFwdResolvePrelude = resolvePreludeTexts ∧ serverFwdLoopHead = loopHeadTexts ∧
    serverFwdLoopMatch = loopMatchTexts ∧ serverFwdLoopArms = loopArmsTexts ∧
    serverFwdResolveTail = resolveTailTexts := by decide

/-- Whatever the resolver and the OS answer: the resolver is asked for exactly the stream's (dest_host, dest_port);
    every address the forwarder tries to connect to, is connected to or bridges with is one of the addresses the
    resolver answered for exactly that question, and it is the candidate a socket was bound for; there is at most one
    connect attempt; every bind (successful or not) was made on the configured outgoing address of the candidate's own
    family, for a candidate of the resolution. -/
theorem server_connects_only_to_a_resolved_address_of_the_stream_target (env : Env) (host : Bytes) (port : Nat) :
    let t := tcpForwarder env host port
    (∀ h p as, Event.resolved h p as ∈ t → h = host ∧ p = port ∧ env.resolve host port = .ok as) ∧
    (∀ a, (Event.connectTried a ∈ t ∨ Event.connected a ∈ t ∨ Event.bridged a ∈ t) →
      ∃ as, env.resolve host port = .ok as ∧ a ∈ as ∧ Event.bound a.family a ∈ t) ∧
    t.countP Event.isConnectTry ≤ 1 ∧
    (∀ f a, (Event.bound f a ∈ t ∨ Event.bindFailed f a ∈ t) →
      f = a.family ∧ ∃ as, env.resolve host port = .ok as ∧ a ∈ as) := by
  intro t
  have ht : t = _ := tcpForwarder_eq env host port
  cases hu : env.utf8Ok host
  · simp [ht, hu, Event.isConnectTry]
  · cases hr : env.resolve host port with
    | error c => simp [ht, hu, hr, Event.isConnectTry]
    | ok as =>
      cases hf : as.find? (fun b => env.bindOk b.family) with
      | none =>
        simp only [hu, hr, hf] at ht
        have h0 : List.countP (Event.isConnectTry ∘ fun b => Event.bindFailed b.family b) as = 0 := by
          rw [List.countP_eq_zero]; intro b _; simp [Event.isConnectTry]
        simp [ht, Event.isConnectTry, List.countP_append, List.countP_map, h0]
        grind
      | some a =>
        simp only [hu, hr, hf] at ht
        have hmem : a ∈ as := List.mem_of_find?_eq_some hf
        have hsub : ∀ b ∈ as.takeWhile (fun b => !env.bindOk b.family), b ∈ as :=
          fun b hb => (List.takeWhile_sublist _).subset hb
        have h0 : List.countP (Event.isConnectTry ∘ fun b => Event.bindFailed b.family b)
            (as.takeWhile (fun b => !env.bindOk b.family)) = 0 := by
          rw [List.countP_eq_zero]; intro b _; simp [Event.isConnectTry]
        rcases connectAndBridge_cases env a with ⟨_, hc⟩ | ⟨_, _, hc⟩ | ⟨_, _, _, hc⟩ | ⟨_, _, _, hc⟩ <;>
          (rw [hc] at ht
           simp [ht, Event.isConnectTry, List.countP_cons, List.countP_append, List.countP_map, h0]
           grind)

/-- The chosen candidate — the one a socket is bound for, hence (previous theorem) the only one ever connected to — is
    the FIRST address in the resolver's order whose bind succeeds: every candidate before it was tried and failed, no
    candidate after it is touched; at most one candidate is chosen. -/
theorem server_first_bindable_candidate_wins (env : Env) (host : Bytes) (port : Nat) :
    let t := tcpForwarder env host port
    (∀ f a, Event.bound f a ∈ t →
      ∃ pre post, env.resolve host port = .ok (pre ++ a :: post) ∧ (∀ b ∈ pre, env.bindOk b.family = false) ∧
        env.bindOk a.family = true ∧ (∀ f' b, Event.bindFailed f' b ∈ t → b ∈ pre) ∧
        (∀ b ∈ pre, Event.bindFailed b.family b ∈ t)) ∧
    (∀ f a f' a', Event.bound f a ∈ t → Event.bound f' a' ∈ t → a = a' ∧ f = f') := by
  intro t
  have ht : t = _ := tcpForwarder_eq env host port
  cases hu : env.utf8Ok host
  · simp [ht, hu]
  · cases hr : env.resolve host port with
    | error c => simp [ht, hu, hr]
    | ok as =>
      cases hf : as.find? (fun b => env.bindOk b.family) with
      | none => simp [ht, hu, hr, hf]
      | some a =>
        simp only [hu, hr, hf] at ht
        obtain ⟨hpa, pre, post, has, hpre⟩ := List.find?_eq_some_iff_append.mp hf
        have htw : as.takeWhile (fun b => !env.bindOk b.family) = pre := by
          rw [has, List.takeWhile_append_of_pos (by simpa using hpre)]
          simp [hpa]
        rw [htw] at ht
        rcases connectAndBridge_cases env a with ⟨_, hc⟩ | ⟨_, _, hc⟩ | ⟨_, _, _, hc⟩ | ⟨_, _, _, hc⟩ <;>
          (rw [hc] at ht
           simp [ht]
           exact ⟨⟨pre, ⟨post, has⟩, by simpa using hpre, by simpa using hpa, by grind, by grind⟩, by grind⟩)

/-- Every failure drops the stream with its error class and nothing is bridged: a `dest_host` that is not UTF-8
    (nothing is resolved); a resolver error; an empty resolution (`InvalidInput`); no bindable candidate (the bind
    error of the LAST candidate, no connect attempt); a refused connect.  The trace always ends with `dropped e` or
    `finished`; the stream is bridged exactly when the host is UTF-8, the resolver answered, some candidate is bindable
    and the connect to the FIRST bindable one (and `peer_addr`) succeeded; `finished` only after a bridge. -/
theorem server_forward_failure_drops_the_stream (env : Env) (host : Bytes) (port : Nat) :
    let t := tcpForwarder env host port
    (env.utf8Ok host = false → t = [.dropped .invalidHost]) ∧
    (∀ c, env.utf8Ok host = true → env.resolve host port = .error c → t = [.dropped (.resolve c)]) ∧
    (env.utf8Ok host = true → env.resolve host port = .ok [] → t = [.resolved host port [], .dropped .noAddress]) ∧
    (∀ as l, env.utf8Ok host = true → env.resolve host port = .ok as → as.getLast? = some l →
      (∀ b ∈ as, env.bindOk b.family = false) →
      t.getLast? = some (.dropped (.bind l.family)) ∧ (∀ a, Event.connectTried a ∉ t ∧ Event.bridged a ∉ t)) ∧
    (∀ a, Event.connectTried a ∈ t → env.connectOk a = false →
      t.getLast? = some (.dropped .connect) ∧ Event.connected a ∉ t ∧ ∀ b, Event.bridged b ∉ t) ∧
    ((∃ e, t.getLast? = some (.dropped e)) ∨ t.getLast? = some .finished) ∧
    ((∃ a, Event.bridged a ∈ t) ↔ env.utf8Ok host = true ∧ ∃ as a, env.resolve host port = .ok as ∧
        as.find? (fun b => env.bindOk b.family) = some a ∧ env.connectOk a = true ∧ env.peerAddrOk a = true) ∧
    (Event.finished ∈ t ↔ (∃ a, Event.bridged a ∈ t) ∧ env.bridgeOk = true) ∧
    (∀ e, Event.dropped e ∈ t → e ≠ .bridge → ∀ a, Event.bridged a ∉ t) := by
  intro t
  have ht : t = _ := tcpForwarder_eq env host port
  cases hu : env.utf8Ok host
  · simp [ht, hu]
  · cases hr : env.resolve host port with
    | error c => simp [ht, hu, hr]
    | ok as =>
      cases hf : as.find? (fun b => env.bindOk b.family) with
      | none =>
        simp only [hu, hr, hf] at ht
        have hall : ∀ b ∈ as, env.bindOk b.family = false := by simpa using hf
        simp only [if_neg (by decide : ¬ (true = false))] at ht
        have hl : t.getLast? = some (.dropped (lastBindErr as none)) := by rw [ht, getLast?_cons_append_singleton]
        rw [hl]
        refine ⟨by simp, by simp, ?_, ?_, ?_, by simp, ?_, ?_, ?_⟩
        · intro _ h; cases h; simp [ht, lastBindErr]
        · intro as' l _ h hla _; cases h; simp [ht, lastBindErr, hla]
        · intro a h; simp [ht] at h
        · simp [ht, hf]
        · simp [ht]
        · simp [ht]
      | some a =>
        simp only [hu, hr, hf] at ht
        have hmem : a ∈ as := List.mem_of_find?_eq_some hf
        have hpa : env.bindOk a.family = true := by simpa using List.find?_some hf
        rcases connectAndBridge_cases env a with ⟨h1, hc⟩ | ⟨h1, h2, hc⟩ | ⟨h1, h2, h3, hc⟩ | ⟨h1, h2, h3, hc⟩ <;>
          (rw [hc] at ht
           simp only [if_neg (by decide : ¬ (true = false))] at ht
           have hl := congrArg List.getLast? ht
           rw [getLast?_cons_append_append _ _ _ _ (by simp)] at hl
           simp only [List.getLast?_cons_cons, List.getLast?_singleton] at hl
           rw [hl]
           have hne : as ≠ [] := List.ne_nil_of_mem hmem
           refine ⟨by simp, by simp, ?_, ?_, ?_, by simp, ?_, ?_, ?_⟩
           · intro _ h; cases h; exact absurd rfl hne
           · intro as' l _ h _ hall; cases h; have := hall a hmem; simp [hpa] at this
           · intro a' h; simp [ht] at h; subst h; simp [ht, h1]
           · simp [ht, hf, h1] <;> assumption
           · simp [ht] <;> assumption
           · simp [ht])

/-- Non-vacuity: the resolver answers `[v6 #1, v4 #2, v4 #3]` for ("h", 80); no v6 socket can be bound: the v6
    candidate is tried on the v6 outgoing address and fails, the first v4 candidate is bound on the v4 outgoing address,
    connected to and bridged; the second v4 candidate is never touched. -/
example : tcpForwarder ⟨fun _ => true, fun h p => if h = [0x68] ∧ p = 80 then .ok [⟨.v6, 1, 80⟩, ⟨.v4, 2, 80⟩, ⟨.v4, 3, 80⟩] else .error 2,
      fun f => f = .v4, fun _ => true, fun _ => true, true⟩ [0x68] 80 =
    [.resolved [0x68] 80 [⟨.v6, 1, 80⟩, ⟨.v4, 2, 80⟩, ⟨.v4, 3, 80⟩], .bindFailed .v6 ⟨.v6, 1, 80⟩, .bound .v4 ⟨.v4, 2, 80⟩,
     .connectTried ⟨.v4, 2, 80⟩, .connected ⟨.v4, 2, 80⟩, .bridged ⟨.v4, 2, 80⟩, .finished] := by decide
/-- the same resolution, the chosen candidate refuses: dropped with `connect`; the third candidate is NOT tried (as the
    code is: one connect attempt per stream) -/
example : tcpForwarder ⟨fun _ => true, fun _ _ => .ok [⟨.v6, 1, 80⟩, ⟨.v4, 2, 80⟩, ⟨.v4, 3, 80⟩],
      fun f => f = .v4, fun a => a.ip = 3, fun _ => true, true⟩ [0x68] 80 =
    [.resolved [0x68] 80 [⟨.v6, 1, 80⟩, ⟨.v4, 2, 80⟩, ⟨.v4, 3, 80⟩], .bindFailed .v6 ⟨.v6, 1, 80⟩, .bound .v4 ⟨.v4, 2, 80⟩,
     .connectTried ⟨.v4, 2, 80⟩, .dropped .connect] := by decide
/-- nothing bindable: the LAST candidate's bind error; an empty resolution; a resolver error; a host that is not UTF-8 -/
example : tcpForwarder ⟨fun _ => true, fun _ _ => .ok [⟨.v4, 2, 80⟩, ⟨.v6, 1, 80⟩], fun _ => false, fun _ => true, fun _ => true, true⟩ [0x68] 80 =
    [.resolved [0x68] 80 [⟨.v4, 2, 80⟩, ⟨.v6, 1, 80⟩], .bindFailed .v4 ⟨.v4, 2, 80⟩, .bindFailed .v6 ⟨.v6, 1, 80⟩, .dropped (.bind .v6)] := by decide
example : tcpForwarder ⟨fun _ => true, fun _ _ => .ok [], fun _ => true, fun _ => true, fun _ => true, true⟩ [0x68] 80 =
    [.resolved [0x68] 80 [], .dropped .noAddress] := by decide
example : tcpForwarder ⟨fun _ => true, fun _ _ => .error 7, fun _ => true, fun _ => true, fun _ => true, true⟩ [0x68] 80 =
    [.dropped (.resolve 7)] := by decide
example : tcpForwarder ⟨fun h => h != [0xff], fun _ _ => .ok [⟨.v4, 2, 80⟩], fun _ => true, fun _ => true, fun _ => true, true⟩ [0xff] 80 =
    [.dropped .invalidHost] := by decide

end ServerForward
end Penguin.C01

namespace Penguin.C01

/-! ### From the text on the command line to the address the server connects to: the chain for a fixed TCP remote -/
section Chain

/-- The octets of a host text (what `rhost.as_bytes()` hands to `request_tcp_channel`). -/
def hostOctets (h : RemoteSpec.Str) : Bytes := (String.ofList h).toUTF8.toList

/-- One statement through four models. For every remote text that parses to a fixed TCP remote (listener `lh:lp`,
    target `rh:rp`): (1) `handle_remote` starts a TCP forwarder on exactly that listener for exactly that target
    (`Model/Dispatch`); (2) every connection it accepts requests a tunnel for exactly `(rh, rp)`, whatever the
    environment answers (`Model/FixedTarget`); (3) on the server, a forwarder given a stream with that target asks the
    resolver about exactly `(rh, rp)` and connects only to one of its answers (`Model/ServerForward`).  The link between
    (2) and (3) — the stream the server accepts carries the host and port of the request — is C07's
    (`stream_target_never_changes`, the `Connect` frame of C09); what `rh` is in terms of the text is
    `remote_target_spec` above. -/
theorem fixed_tcp_remote_reaches_the_written_target (o : RemoteSpec.Oracle) (s lh rh : RemoteSpec.Str) (lp rp : Nat)
    (h : RemoteSpec.parse o s = .ok ⟨.inet lh lp, .inet rh rp, .tcp⟩) :
    Dispatch.dispatch ⟨.inet lh lp, .inet rh rp, .tcp⟩ = .tcpForward (.tcp lh lp) rh rp ∧
    Dispatch.dispatch ⟨.inet lh lp, .inet rh rp, .tcp⟩ ≠ .unreachable ∧
    (∀ (cenv : FixedTarget.TcpEnv) hh pp,
        FixedTarget.Event.requested hh pp ∈ (FixedTarget.tcpSession (hostOctets rh) rp cenv).events →
        hh = hostOctets rh ∧ pp = rp) ∧
    (∀ (senv : ServerForward.Env) a,
        ServerForward.Event.connected a ∈ ServerForward.tcpForwarder senv (hostOctets rh) rp →
        ∃ as, senv.resolve (hostOctets rh) rp = .ok as ∧ a ∈ as) := by
  refine ⟨rfl, dispatch_never_unreachable_on_parsed o s _ h, ?_, ?_⟩
  · intro cenv hh pp hreq
    exact (tcp_entry_requests_exactly_the_configured_target (hostOctets rh) rp cenv).1 hh pp hreq
  · intro senv a ha
    obtain ⟨as, h1, h2, _⟩ :=
      (server_connects_only_to_a_resolved_address_of_the_stream_target senv (hostOctets rh) rp).2.1 a (Or.inr (Or.inl ha))
    exact ⟨as, h1, h2⟩

/-- The same chain for a fixed UDP remote: the text parses to a `/udp` remote ⇒ `handle_remote` starts the UDP listener
    on exactly that local address for exactly that target (and a datagram handler, never a TCP one), and every frame the
    listener sends, for every sequence of received datagrams and interleaved operations of other tasks on the maps,
    names exactly `(rh, rp)` and carries the received payload under its own sender's id. -/
theorem fixed_udp_remote_frames_name_the_written_target (o : RemoteSpec.Oracle) (s lh rh : RemoteSpec.Str) (lp rp : Nat)
    (h : RemoteSpec.parse o s = .ok ⟨.inet lh lp, .inet rh rp, .udp⟩)
    (c : FixedTarget.UdpCfg) (hc : c.rhost = hostOctets rh ∧ c.rport = rp) (m : UdpMap.Maps) (ins : List FixedTarget.UIn)
    (hok : ∀ out ∈ (FixedTarget.udpListener c m ins).2, out.stops = false) :
    Dispatch.dispatch ⟨.inet lh lp, .inet rh rp, .udp⟩ = .udpForward lh lp rh rp ∧
    (Dispatch.dispatch ⟨.inet lh lp, .inet rh rp, .udp⟩).isUdp = true ∧
    (∀ (k : Nat) peer data rng txOk, ins[k]? = some (FixedTarget.UIn.rx peer data rng txOk) →
      ∃ cid, (FixedTarget.udpListener c m ins).2[k]? =
        some (FixedTarget.UOut.sent { flowId := cid, host := hostOctets rh, port := rp, data := data })) := by
  refine ⟨rfl, (dispatch_udp_remote_gets_datagram_handler o s _ h).mpr rfl, ?_⟩
  intro k peer data rng txOk hk
  obtain ⟨cid, _, hsent⟩ := (udp_each_datagram_carries_its_senders_id c m ins hok).2.2.1 k peer data rng txOk hk
  exact ⟨cid, by rw [hsent, hc.1, hc.2]⟩

/-- Non-vacuity: `8080:example.com:80` is such a text. -/
example : RemoteSpec.parse plainOracle "8080:example.com:80".toList =
    .ok ⟨.inet "0.0.0.0".toList 8080, .inet "example.com".toList 80, .tcp⟩ := by decide

end Chain

end Penguin.C01
