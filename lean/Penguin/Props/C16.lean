/-
C16 — Keepalive detects a dead peer in bounded time and never a live one.
Property theorems only; helper lemmas and invariants are in `Lemmas/Timing.lean`.

Time is in milliseconds since the task started; `run I T delay extra n` is the state of the ping
loop after the ticks `0 … n-1` of the interval (times `0, I, …, (n-1)·I`) have been due;
`delay k = some d` means the peer's pong for ping number `k` arrives `d` ms after that ping,
`none` that it never arrives; `extra` are arrival times of unsolicited pongs.  Every pong history
is expressible this way.
-/
import Penguin.Model.Timing
import Penguin.Lemmas.Timing

namespace Penguin.C16
open Penguin.Timing Penguin.Lemmas.Timing

/-! ### A ping every `I` -/

/-- The pings sent so far are exactly those of the ticks served so far: `0, I, 2I, …`. -/
theorem pings_every_I (I : Nat) (T : OptionalDuration) (delay : Nat → Option Nat) (extra : List Nat) (n : Nat) :
    (run I T delay extra n).pings.reverse = (List.range (run I T delay extra n).tick).map (· * I) :=
  run_pings I T delay extra n

/-- … and as long as the endpoint has not timed out every tick is served: after `n` ticks the pings
    are `0, I, …, (n-1)·I`. -/
theorem pings_while_alive (I : Nat) (T : OptionalDuration) (delay : Nat → Option Nat) (extra : List Nat) (n : Nat)
    (h : (run I T delay extra n).dead = none) :
    (run I T delay extra n).pings.reverse = (List.range n).map (· * I) := by
  have := run_pings I T delay extra n
  unfold PingsOk at this
  rw [run_alive_tick I T delay extra n h] at this
  exact this

/-- A timeout happens at a tick (`t = k·I`), instead of that tick's ping, and is final. -/
theorem timeout_at_tick (I : Nat) (T : OptionalDuration) (delay : Nat → Option Nat) (extra : List Nat) (n t : Nat)
    (h : (run I T delay extra n).dead = some t) :
    t = (run I T delay extra n).tick * I ∧ (run I T delay extra n).tick < n ∧
    ∀ m, run I T delay extra (n + m) = run I T delay extra n := by
  refine ⟨((inv_run I T delay extra n).window t h).1, ?_, fun m => run_dead_stays I T delay extra n m t h⟩
  cases n with
  | zero => simp [run, PingLoop.init] at h
  | succ n =>
    cases hd : (run I T delay extra n).dead with
    | some t' =>
      have := run_dead_stays I T delay extra n 1 t' hd
      rw [this]
      exact Nat.lt_succ_of_le (run_tick_le I T delay extra n)
    | none =>
      have htick := run_alive_tick I T delay extra n hd
      have h' : (tickStep I T delay (run I T delay extra n)).dead = some t := h
      show (tickStep I T delay (run I T delay extra n)).tick < n + 1
      rcases tickStep_alive I T delay _ hd with ⟨_, heq⟩ | ⟨_, heq⟩
      · rw [heq]; simp only; omega
      · rw [heq] at h'; simp at h'

/-! ### Detection of a dead peer: no earlier than `T`, no later than `T + I` after the last pong received -/

/-- A timeout at `t` means a timeout `T` is configured and the last pong the endpoint received
    (`lastPong`; `0` = start-up if none) is strictly more than `T` old: never earlier than `T`. -/
theorem detect_lower (I : Nat) (T : OptionalDuration) (delay : Nat → Option Nat) (extra : List Nat) (n t : Nat)
    (h : (run I T delay extra n).dead = some t) :
    ∃ T', T = some T' ∧ T' < t - (run I T delay extra n).lastPong := by
  obtain ⟨_, T', hT, hlt, _⟩ := (inv_run I T delay extra n).window t h
  exact ⟨T', hT, hlt⟩

/-- … and at most `T + I` old. (No assumption on `T` versus `I`.) -/
theorem detect_upper (I : Nat) (T' : Nat) (delay : Nat → Option Nat) (extra : List Nat) (n t : Nat)
    (h : (run I (some T') delay extra n).dead = some t) :
    t - (run I (some T') delay extra n).lastPong ≤ T' + I := by
  obtain ⟨_, T'', hT, _, hle⟩ := (inv_run I (some T') delay extra n).window t h
  cases hT
  omega

/-- `lastPong` really is "the last pong it received (or start-up)": it is `0` or the arrival time of
    an unsolicited pong or of the pong answering one of the pings sent, and no pong that has arrived
    by the latest tick is newer. -/
theorem lastPong_is_last_received (I : Nat) (T : OptionalDuration) (delay : Nat → Option Nat) (extra : List Nat)
    (n : Nat) :
    (∀ j d, j < (run I T delay extra n).tick → delay j = some d →
        j * I + d ≤ (run I T delay extra n).lastPong ∨ j * I + d ∈ (run I T delay extra n).inflight) ∧
    ∀ P, (∀ a ∈ extra, a ≤ P) → (∀ j d, delay j = some d → j * I + d ≤ P) →
        (run I T delay extra n).lastPong ≤ P :=
  ⟨accounted_run I T delay extra n, fun P he hd => (bounded_run I T delay extra P he hd n).1⟩

/-- A peer that stops answering is detected: if no pong ever arrives after time `P` (the last pong,
    or `0`), the endpoint times out, at a time `t` with `T < t - p ≤ T + I` for the last pong `p ≤ P`
    it received, hence `t ≤ P + T + I`. -/
theorem detect_dead_peer (I T' P : Nat) (hI : 0 < I) (delay : Nat → Option Nat) (extra : List Nat)
    (hextra : ∀ a ∈ extra, a ≤ P) (hdelay : ∀ j d, delay j = some d → j * I + d ≤ P) :
    ∃ n t, (run I (some T') delay extra n).dead = some t ∧
      T' < t - (run I (some T') delay extra n).lastPong ∧
      t - (run I (some T') delay extra n).lastPong ≤ T' + I ∧ t ≤ P + T' + I := by
  -- tick number `P + T' + 1` is later than `P + T'`
  let k := P + T' + 1
  have hk : P + T' < k * I := by
    have : k ≤ k * I := Nat.le_mul_of_pos_right k hI
    omega
  have hdead : (run I (some T') delay extra (k + 1)).dead ≠ none := by
    intro hnone
    have hp := run_alive_prefix I (some T') delay extra (k + 1) k (Nat.le_succ k) hnone
    have htick := run_alive_tick I (some T') delay extra k hp
    have hb := bounded_run I (some T') delay extra P hextra hdelay k
    have h' : (tickStep I (some T') delay (run I (some T') delay extra k)).dead = none := hnone
    rcases tickStep_alive I (some T') delay _ hp with ⟨_, heq⟩ | ⟨hno, _⟩
    · rw [heq] at h'; simp at h'
    · have hlp : latest (run I (some T') delay extra k).lastPong
          ((run I (some T') delay extra k).inflight.filter
            (fun a => a ≤ (run I (some T') delay extra k).tick * I)) ≤ P :=
        latest_le _ _ _ hb.1 (fun x hx => hb.2 x (List.mem_filter.mp hx).1)
      have := hno T' rfl
      rw [htick] at this hlp
      omega
  cases hd : (run I (some T') delay extra (k + 1)).dead with
  | none => exact absurd hd hdead
  | some t =>
    refine ⟨k + 1, t, hd, ?_, detect_upper I T' delay extra (k + 1) t hd, ?_⟩
    · obtain ⟨T'', hT, hlt⟩ := detect_lower I (some T') delay extra (k + 1) t hd
      cases hT; exact hlt
    · have hu := detect_upper I T' delay extra (k + 1) t hd
      have hb := (bounded_run I (some T') delay extra P hextra hdelay (k + 1)).1
      omega

/-! ### No false positive -/

/-- The part of "a peer that answers every ping within `T` is never timed out" that is true of the
    code: if every ping is answered within `D`, and `D` rounded up to whole intervals (`q·I`) fits
    in the timeout, the endpoint never times out.  (The loop compares `now - lastPong` with `T` only
    at ticks, so a pong that is on its way for more than `⌊T/I⌋·I` can be "late" although younger
    than `T`.) -/
theorem no_false_positive_partial (I T' D q : Nat) (hq : 0 < q) (hD : D ≤ q * I) (hT : q * I ≤ T')
    (delay : Nat → Option Nat) (extra : List Nat)
    (hans : ∀ k, ∃ d, delay k = some d ∧ d ≤ D) (n : Nat) :
    (run I (some T') delay extra n).dead = none := by
  induction n with
  | zero => rfl
  | succ n ih =>
    have htick := run_alive_tick I (some T') delay extra n ih
    have hacc := accounted_run I (some T') delay extra n
    have hinv := (inv_run I (some T') delay extra n).lastPong_le ih
    show (tickStep I (some T') delay (run I (some T') delay extra n)).dead = none
    rcases tickStep_alive I (some T') delay _ ih with ⟨⟨T'', hT'', hlt⟩, _⟩ | ⟨_, heq⟩
    · exfalso
      cases hT''
      rw [htick] at hlt
      by_cases hnq : n < q
      · -- fewer than `q` ticks so far: even start-up is recent enough
        have : n * I ≤ q * I := Nat.mul_le_mul_right I (Nat.le_of_lt hnq)
        omega
      · -- the pong for ping `n - q` has arrived by now
        obtain ⟨d, hdel, hdD⟩ := hans (n - q)
        have hj : n - q < (run I (some T') delay extra n).tick := by omega
        have hmul : (n - q) * I + q * I = n * I := by
          rw [← Nat.add_mul]; congr 1; omega
        have harr : (n - q) * I + d ≤ n * I := by omega
        have hge : (n - q) * I + d ≤
            latest (run I (some T') delay extra n).lastPong
              ((run I (some T') delay extra n).inflight.filter (fun a => a ≤ n * I)) := by
          rcases hacc (n - q) d hj hdel with h | h
          · exact Nat.le_trans h (latest_ge _ _)
          · exact latest_mem _ _ _ (List.mem_filter.mpr ⟨h, by simpa using harr⟩)
        omega
    · rw [heq]

/-- The property as stated, for timeouts that are a whole number of intervals (in particular
    `T = I`, what the builder's clamp produces): every ping answered within `T` ⇒ never times out. -/
theorem no_false_positive (I q : Nat) (hq : 0 < q) (delay : Nat → Option Nat) (extra : List Nat)
    (hans : ∀ k, ∃ d, delay k = some d ∧ d ≤ q * I) (n : Nat) :
    (run I (some (q * I)) delay extra n).dead = none :=
  no_false_positive_partial I (q * I) (q * I) q hq (Nat.le_refl _) (Nat.le_refl _) delay extra hans n

/-- For any timeout `T ≥ I`: a peer that answers every ping within one interval is never timed out. -/
theorem no_false_positive_prompt (I T' : Nat) (hIT : I ≤ T') (delay : Nat → Option Nat) (extra : List Nat)
    (hans : ∀ k, ∃ d, delay k = some d ∧ d ≤ I) (n : Nat) :
    (run I (some T') delay extra n).dead = none :=
  no_false_positive_partial I T' I 1 (by omega) (by omega) (by omega) delay extra hans n

/-- The full statement (any `T ≥ I`, every ping answered within `T`) is false of the code:
    `I = 2`, `T = 3`, ping 0 answered at once, ping 1 (sent at 2) answered after 3 — the check at
    time 4 sees the last pong 4 ms ago and gives up, although ping 1 is only 2 ms old.
    Replayed on the real task: corpus/C16/late-pong-within-timeout.ops (known finding). -/
theorem no_false_positive_full_fails :
    ¬ ∀ (I T' : Nat) (delay : Nat → Option Nat) (n : Nat), 0 < I → I ≤ T' →
        (∀ k, ∃ d, delay k = some d ∧ d ≤ T') → (run I (some T') delay [] n).dead = none := by
  intro h
  have := h 2 3 (fun k => if k = 1 then some 3 else some 0) 3 (by decide) (by decide)
    (by intro k; by_cases hk : k = 1 <;> simp [hk])
  revert this
  decide

/-- Why the builder must clamp: with `T < I` even a peer that answers every ping at once is
    declared dead at the second tick. -/
theorem small_timeout_false_positive (I T' : Nat) (h : T' < I) :
    (run I (some T') (fun _ => some 0) [] 2).dead = some I := by
  simp [run, tickStep, PingLoop.init, latest, OptionalDuration.cmpDuration, Nat.compare_eq_lt, h]

/-! ### No timeout configured / keepalive disabled -/

/-- `keepalive_timeout = NONE`: the endpoint never times out, whatever the peer does. -/
theorem timeout_none (I : Nat) (delay : Nat → Option Nat) (extra : List Nat) (n : Nat) :
    (run I none delay extra n).dead = none := by
  induction n with
  | zero => rfl
  | succ n ih =>
    show (tickStep I none delay (run I none delay extra n)).dead = none
    rcases tickStep_alive I none delay _ ih with ⟨⟨T', hT, _⟩, _⟩ | ⟨_, heq⟩
    · cases hT
    · rw [heq]

/-- `keepalive_interval = NONE`: no ping is ever sent and no timeout ever occurs, whatever the
    timeout setting and the peer. -/
theorem disabled (o : Options) (h : o.keepaliveInterval = none) (delay : Nat → Option Nat) (extra : List Nat)
    (H : Nat) :
    ∃ s, keepalive o delay extra H = .ok s ∧ s.pings = [] ∧ s.dead = none := by
  refine ⟨PingLoop.init extra, ?_, rfl, rfl⟩
  simp [keepalive, h]

/-! ### The builder -/

/-- Whatever setters are called, in whatever order and how often: the result depends only on the
    last value given to each of the two keepalive setters, and the effective timeout is the
    documented clamp of the two. -/
theorem builder_order_independent (calls : List Setter) (o : Options) (h : Options.build calls = some o) :
    o.keepaliveInterval = lastInterval calls ∧
    o.keepaliveTimeout = clampTo (lastTimeout calls) (lastInterval calls) := by
  obtain ⟨h1, h2, h3⟩ := buildFrom_spec calls Options.new o h
  have hg := h3 new_good
  unfold Good at hg
  rw [hg, h1, h2]
  exact ⟨rfl, rfl⟩

/-- For every list of setter calls: if keepalive is enabled, the effective timeout is at least the
    interval (in `OptionalDuration`'s own order, where `NONE` = never is the greatest). -/
theorem builder_clamps (calls : List Setter) (o : Options) (h : Options.build calls = some o)
    (hI : o.keepaliveInterval.isSome) :
    OptionalDuration.le o.keepaliveInterval o.keepaliveTimeout = true := by
  obtain ⟨h1, h2⟩ := builder_order_independent calls o h
  rw [h2, ← h1]
  cases hi : o.keepaliveInterval with
  | none => rw [hi] at hI; cases hI
  | some i =>
    cases lastTimeout calls with
    | none => simp [clampTo, OptionalDuration.le, OptionalDuration.cmp]
    | some t =>
      have : compare i (max t i) ≠ .gt := fun hc => by
        have := Nat.compare_eq_gt.mp hc
        have := Nat.le_max_right t i
        omega
      simp [clampTo, OptionalDuration.le, OptionalDuration.cmp, this]

/-- The same in plain numbers. -/
theorem builder_clamps_ms (calls : List Setter) (o : Options) (h : Options.build calls = some o) (i : Nat)
    (hI : o.keepaliveInterval = some i) :
    o.keepaliveTimeout = none ∨ ∃ t, o.keepaliveTimeout = some t ∧ i ≤ t := by
  obtain ⟨h1, h2⟩ := builder_order_independent calls o h
  rw [h2, ← h1, hI]
  cases lastTimeout calls with
  | none => left; rfl
  | some t => right; exact ⟨max t i, rfl, Nat.le_max_right t i⟩

/-- A finite timeout that was asked for is never turned into "never" and never lowered … -/
theorem builder_keeps_finite (calls : List Setter) (o : Options) (h : Options.build calls = some o) (t : Nat)
    (ht : lastTimeout calls = some t) :
    ∃ t', o.keepaliveTimeout = some t' ∧ t ≤ t' ∧ (t' = t ∨ o.keepaliveInterval = some t') := by
  obtain ⟨h1, h2⟩ := builder_order_independent calls o h
  rw [h2, h1, ht]
  cases lastInterval calls with
  | none => exact ⟨t, rfl, Nat.le_refl _, Or.inl rfl⟩
  | some i =>
    refine ⟨max t i, rfl, Nat.le_max_left t i, ?_⟩
    rcases Nat.le_total t i with hti | hti
    · right; rw [Nat.max_eq_right hti]
    · left; exact Nat.max_eq_left hti

/-- … and "never time out" stays "never". -/
theorem builder_none_stays (calls : List Setter) (o : Options) (h : Options.build calls = some o)
    (ht : lastTimeout calls = none) : o.keepaliveTimeout = none := by
  obtain ⟨_, h2⟩ := builder_order_independent calls o h
  rw [h2, ht]; rfl

/-- The clamp as it was at the pinned commit did not have this property: interval 3 s, timeout 5 s,
    interval 10 s left the timeout at 5 s < 10 s, and timeout 5 s before interval 10 s turned the
    timeout into "never".  (corpus/C16/builder-clamp-order.ops, fixes/C16-keepalive-clamp-any-order.diff) -/
theorem pinned_builder_fails :
    (Options.buildFromPinned Options.new
        [.keepaliveInterval (some 3000), .keepaliveTimeout (some 5000), .keepaliveInterval (some 10000)]).map
      (fun o => (o.keepaliveInterval, o.keepaliveTimeout)) = some (some 10000, some 5000) ∧
    (Options.buildFromPinned Options.new
        [.keepaliveTimeout (some 5000), .keepaliveInterval (some 10000)]).map
      (fun o => (o.keepaliveInterval, o.keepaliveTimeout)) = some (some 10000, none) := by
  decide

/-- End to end: for every configuration the builder can produce with keepalive enabled, a peer that
    answers every ping within one interval is never declared dead. -/
theorem built_config_no_false_positive (calls : List Setter) (o : Options) (h : Options.build calls = some o)
    (I : Nat) (hI : o.keepaliveInterval = some I) (delay : Nat → Option Nat) (extra : List Nat)
    (hans : ∀ k, ∃ d, delay k = some d ∧ d ≤ I) (n : Nat) :
    (run I o.keepaliveTimeout delay extra n).dead = none := by
  rcases builder_clamps_ms calls o h I hI with hn | ⟨t, ht, hle⟩
  · rw [hn]; exact timeout_none I delay extra n
  · rw [ht]; exact no_false_positive_prompt I t hle delay extra hans n

/-! ### Non-vacuity: the hypotheses above are met by concrete, non-trivial runs -/

-- answered for 3 rounds (delays 0, 400, 999 ms), then silent: I = 1 s, T = 2 s
example : (run 1000 (some 2000) (scriptDelay [some 0, some 400, some 999] none) [] 7).dead = some 5000 := by decide
example : (run 1000 (some 2000) (scriptDelay [some 0, some 400, some 999] none) [] 7).lastPong = 2999 := by decide
example : (run 1000 (some 2000) (scriptDelay [some 0, some 400, some 999] none) [] 7).pings.reverse
    = [0, 1000, 2000, 3000, 4000] := by decide
-- never answered: detected at the first tick later than T
example : (run 1000 (some 2000) (fun _ => none) [] 9).dead = some 3000 := by decide
-- T = 2·I, every ping answered after exactly T: alive (hypotheses of `no_false_positive`)
example : (run 1000 (some 2000) (fun _ => some 2000) [] 40).dead = none := by decide
example : ∀ k : Nat, ∃ d, (fun _ : Nat => some 2000) k = some d ∧ d ≤ 2 * 1000 := fun _ => ⟨2000, rfl, by decide⟩
-- an unsolicited pong counts like any other
example : (run 1000 (some 2000) (fun _ => none) [2500] 9).dead = some 5000 := by decide
-- the builder: a sequence for which the clamp matters, and one where it must not fire
example : (Options.build [.keepaliveTimeout (some 5000), .rwnd 7, .keepaliveInterval (some 10000)]).map
    (fun o => (o.keepaliveInterval, o.keepaliveTimeout, o.rwnd)) = some (some 10000, some 10000, 7) := by decide
example : (Options.build [.keepaliveInterval (some 10000), .keepaliveTimeout (some 5000), .keepaliveInterval (some 3000)]).map
    (fun o => (o.keepaliveInterval, o.keepaliveTimeout)) = some (some 3000, some 5000) := by decide
example : Options.build [.keepaliveInterval (some 10000), .rwnd 0] = none := by decide
-- disabled, with a finite timeout and a peer that never answers
example : keepalive { Options.new with keepaliveTimeout := some 5 } (fun _ => none) [] 100000
    = .ok (PingLoop.init []) := by decide

/-! ### The order on `OptionalDuration` that the clamp and the tick test rest on (`impl Ord`, timing.rs) -/

/-- The order is total and antisymmetric up to equality; `none` ("no timeout") is the greatest element; finite
    values compare as numbers. -/
theorem od_order_spec (a b : OptionalDuration) :
    (OptionalDuration.cmp a b = .eq ↔ a = b) ∧
    (OptionalDuration.cmp a b = .lt ↔ OptionalDuration.cmp b a = .gt) ∧
    OptionalDuration.cmp a none ≠ .gt ∧
    (∀ x y : Nat, OptionalDuration.cmp (some x) (some y) = compare x y) := by
  refine ⟨?_, ?_, ?_, fun _ _ => rfl⟩
  · cases a <;> cases b <;> simp [OptionalDuration.cmp]
  · cases a <;> cases b <;> simp [OptionalDuration.cmp, Nat.compare_eq_lt, Nat.compare_eq_gt]
  · cases a <;> simp [OptionalDuration.cmp]

/-- `≤` is transitive (so `min` / `max` of interval and timeout mean what they say). -/
theorem od_le_trans (a b c : OptionalDuration) (h1 : OptionalDuration.le a b = true) (h2 : OptionalDuration.le b c = true) :
    OptionalDuration.le a c = true := by
  cases a <;> cases b <;> cases c <;>
    simp_all [OptionalDuration.le, OptionalDuration.cmp, Nat.compare_eq_gt] <;> omega

/-- `max` is the greater of the two, and `none` as soon as one of them is. -/
theorem od_max_spec (a b : OptionalDuration) :
    OptionalDuration.le a (OptionalDuration.max a b) = true ∧ OptionalDuration.le b (OptionalDuration.max a b) = true ∧
    (OptionalDuration.max a b = a ∨ OptionalDuration.max a b = b) ∧
    ((a = none ∨ b = none) → OptionalDuration.max a b = none) := by
  cases a with
  | none => cases b <;> simp [OptionalDuration.max, OptionalDuration.le, OptionalDuration.cmp]
  | some x =>
    cases b with
    | none => simp [OptionalDuration.max, OptionalDuration.le, OptionalDuration.cmp]
    | some y =>
      by_cases h : y < x
      · have hc : compare x y = .gt := Nat.compare_eq_gt.mpr h
        simp [OptionalDuration.max, OptionalDuration.le, OptionalDuration.cmp, hc, Nat.compare_eq_gt]
        omega
      · have hc : compare x y ≠ .gt := by rw [Ne, Nat.compare_eq_gt]; exact h
        simp [OptionalDuration.max, OptionalDuration.le, OptionalDuration.cmp, hc, Nat.compare_eq_gt]

/-- `From<Duration>`: exactly the zero duration becomes "none"; the command line (`FromStr`): whole seconds,
    `0` is "none", what is no `u64` is refused. -/
theorem od_conversions_spec (ms : Nat) (secs : Option Nat) :
    (OptionalDuration.ofDuration ms = none ↔ ms = 0) ∧
    (ms ≠ 0 → OptionalDuration.ofDuration ms = some ms) ∧
    (OptionalDuration.ofSecsText secs = none ↔ secs = none) ∧
    (OptionalDuration.ofSecsText (some 0) = some none) ∧
    (∀ v, v ≠ 0 → OptionalDuration.ofSecsText (some v) = some (some (v * 1000))) := by
  refine ⟨?_, ?_, ?_, rfl, ?_⟩
  · unfold OptionalDuration.ofDuration; split <;> simp_all
  · intro h; simp [OptionalDuration.ofDuration, h]
  · cases secs with
    | none => simp [OptionalDuration.ofSecsText]
    | some v => simp [OptionalDuration.ofSecsText]; split <;> simp
  · intro v hv; simp [OptionalDuration.ofSecsText, hv]

example : OptionalDuration.cmp none (some 5) = .gt ∧ OptionalDuration.max (some 3) none = none ∧
    OptionalDuration.max (some 3) (some 7) = some 7 ∧ OptionalDuration.ofDuration 0 = none := by decide

end Penguin.C16
