/-
C07 — Stream opening: one request, one stream, correct target, disciplined flow ids.
Theorems over the endpoint model, for every state, every RNG script / generator state, every host
byte string and port, every `max_flow_id_retries`.
-/
import Penguin.Model.Mux
import Penguin.Lemmas.MuxBasic
import Penguin.Lemmas.MuxStep
import Penguin.Lemmas.PairCor
import Penguin.Lemmas.MuxBound
import Penguin.Lemmas.MuxOnce
import Penguin.Lemmas.MuxDest

namespace Penguin.C07
open Penguin Penguin.Mux

/-- An endpoint never proposes flow id 0 or an id it already uses — whatever values the random
    generator produces (script, then fallback generator, any state). -/
theorem never_proposes_zero_or_used (flows : List (Nat × Slot)) (script : List Nat) (fb fuel k : Nat)
    (rest : List Nat) (fb' : Nat) (h : drawId flows script fb fuel = some (k, rest, fb')) :
    k ≠ 0 ∧ lookup flows k = none :=
  Mux.drawId_spec flows script fb fuel k rest fb' h

/-- One round of an open request sends at most one `Connect`; if it does, the id is fresh and
    non-zero, the advertised window is this endpoint's rwnd, host and port are the requested ones,
    and the id is reserved for exactly this request. -/
theorem open_round_sends_one_connect (e : EP) (r : OpenReq) :
    (openRound e r).1.outq = e.outq ∨
    ∃ fid, fid ≠ 0 ∧ lookup e.flows fid = none ∧
      (openRound e r).1.outq = e.outq ++ [.frame (.connect fid e.opts.rwnd r.port r.host)] ∧
      lookup (openRound e r).1.flows fid = some (.requested r.req) :=
  Mux.openRound_sends e r

/-- The acceptor creates exactly one stream per accepted `Connect`; the accepting application sees
    exactly the requested host bytes and port; the stream's send credit is the window the requester
    advertised; exactly one `Acknowledge` with this endpoint's window answers. -/
theorem connect_yields_one_stream (e : EP) (fid rwnd port : Nat) (host : Bytes) (ig : Bool)
    (h0 : fid ≠ 0) (hfree : lookup e.flows fid = none) (hoc : e.outClosed = false) (hm : e.muxAlive = true) :
    let r := processFrame e (.connect fid rwnd port host) ig
    r.1.objs = e.objs ++ [newObj e.opts fid rwnd host port] ∧
    lookup r.1.flows fid = some (.established e.objs.length) ∧
    r.1.outq = e.outq ++ [.frame (.acknowledge fid e.opts.rwnd)] ∧
    (r.1.acceptq = e.acceptq ++ [e.objs.length] ∨ r.1.park = some (.accept e.objs.length)) ∧
    r.2.2 = none :=
  Mux.processFrame_connect_accepts e fid rwnd port host ig h0 hfree hoc hm

theorem accepted_stream_shows_target (o : Opts) (fid rwnd port : Nat) (host : Bytes) :
    (newObj o fid rwnd host port).destHost = host ∧ (newObj o fid rwnd host port).destPort = port ∧
    (newObj o fid rwnd host port).credit = rwnd ∧ (newObj o fid rwnd host port).rxq = [] ∧
    (newObj o fid rwnd host port).buf = [] ∧ (newObj o fid rwnd host port).finishSent = false :=
  ⟨rfl, rfl, rfl, rfl, rfl, rfl⟩

/-- `accept` hands out the streams in the order their `Connect`s were accepted, with that target. -/
theorem accept_returns_stream (e : EP) (i : Nat) (rest : List Nat) (o : Obj)
    (hq : e.acceptq = i :: rest) (ho : e.objs[i]? = some o) :
    appAccept e = ({ e with acceptq := rest, handles := e.handles ++ [i] },
                   .stream e.handles.length o.destHost o.destPort) := by
  simp [appAccept, hq, ho]

/-- The requester gets exactly one stream per acknowledged request, with the window the acceptor
    advertised as its send credit; the open call returns exactly that stream. -/
theorem ack_yields_one_stream (e : EP) (fid n req : Nat) (ig : Bool)
    (hs : lookup e.flows fid = some (.requested req)) (hw : (e.opens.find? (·.req = req)).isSome) :
    (let r := processFrame e (.acknowledge fid n) ig
     r.1.objs = e.objs ++ [newObj e.opts fid n [] 0] ∧
     lookup r.1.flows fid = some (.established e.objs.length) ∧
     r.1.doneq = e.doneq ++ [(req, e.objs.length)] ∧
     r.2.2 = none ∧ r.1.outq = e.outq) ∧
    (∀ (e' : EP) (i : Nat), runDone e' [(req, i)] =
      ({ e' with handles := e'.handles ++ [i] }, [.openDone req (.ok e'.handles.length)])) :=
  ⟨Mux.processFrame_ack_establishes e fid n req ig hs hw, fun e' i => Mux.runDone_single e' req i⟩

/-- A `Connect` whose id is 0 or in use is rejected with exactly one `Reset`; the existing flow and
    everything else is left as it was. -/
theorem connect_zero_or_in_use_rejected (e : EP) (fid rwnd port : Nat) (host : Bytes) (ig : Bool)
    (h : fid = 0 ∨ (lookup e.flows fid).isSome) :
    processFrame e (.connect fid rwnd port host) ig = (e.enqFrame (.reset fid), [], none) ∧
    (e.enqFrame (.reset fid)).flows = e.flows ∧ (e.enqFrame (.reset fid)).objs = e.objs := by
  refine ⟨by simp [processFrame, h], by simp [EP.enqFrame], by simp [EP.enqFrame]⟩

/-- A rejected requester retries with a fresh id: the `Reset` releases the proposed id and queues
    the request for its next round, which is one `openRound` (fresh id, see above) … -/
theorem rejected_request_retries (e : EP) (fid req : Nat) (r : OpenReq) (ig : Bool)
    (hs : lookup e.flows fid = some (.requested req)) (hw : e.opens.find? (·.req = req) = some r) :
    processFrame e (.reset fid) ig =
      ({ e with flows := erase e.flows fid, retryq := e.retryq ++ [req] }, [], none) ∧
    (∀ e' : EP, e'.opens.find? (·.req = req) = some r →
      runRetries e' [req] = ((openRound e' r).1, (openRound e' r).2 ++ [])) :=
  ⟨Mux.processFrame_reset_retries e fid req r ig hs hw, fun e' h => Mux.runRetries_single e' req r h⟩

/-- … each round uses up one of the `max_flow_id_retries` attempts (an open starts with exactly that
    many), and with none left the request fails with `FlowIdRejected` and nothing is sent: never more
    than `max_flow_id_retries` `Connect` frames per request. -/
theorem retry_bound (e : EP) (r : OpenReq) :
    (r.retriesLeft = 0 →
        openRound e r = ({ e with opens := e.opens.filter (·.req ≠ r.req) }, [.openDone r.req .rejected])) ∧
    (∀ r', (openRound e r).1.opens.find? (·.req = r.req) = some r' → r'.retriesLeft + 1 = r.retriesLeft) :=
  ⟨Mux.openRound_exhausted e r, Mux.openRound_decrements e r⟩

theorem open_starts_with_max_retries (e : EP) (req : Nat) (host : Bytes) (port : Nat) :
    appOpen e req host port = openRound e { req := req, host := host, port := port, retriesLeft := e.opts.maxRetries } := rfl

/-- Simultaneous open with colliding ids: an endpoint that has itself proposed `fid` (slot
    `requested`) answers the peer's `Connect(fid)` with a `Reset` and keeps its own request. -/
theorem simultaneous_open_collision (e : EP) (fid req rwnd port : Nat) (host : Bytes) (ig : Bool)
    (hs : lookup e.flows fid = some (.requested req)) :
    processFrame e (.connect fid rwnd port host) ig = (e.enqFrame (.reset fid), [], none) := by
  simp [processFrame, hs]

/-- The reserved flow id 0 is never in use: in every state an endpoint reaches — whatever its own
    generator yields, whatever ids the peer proposes — no slot of the flow table is under id 0. -/
theorem flow_id_zero_never_in_use (o : Opts) (ops : List Mux.Op) :
    lookup (runOps { opts := o } ops).flows 0 = none :=
  (reachable_bnd o ops).zero

/-- The accepting application sees exactly the requested host bytes and port — and keeps seeing them:
    over every history of stimuli of one endpoint and every continuation of it (application calls,
    deliveries of anything a peer may send, faults, the wind-down), a stream object is never removed
    or renumbered and its flow id and its target — the host bytes and port of the `Connect` that
    created it (`accepted_stream_shows_target`), which `accept` shows (`accept_returns_stream`) — never
    change. (`Lemmas/MuxDest.lean`: a relation proved for every function of the endpoint model.) -/
theorem stream_target_never_changes (o : Opts) (ops more : List Mux.Op) (k : Nat) (ob : Obj)
    (h : (runOps { opts := o } ops).objs[k]? = some ob) :
    ∃ ob', (runOps { opts := o } (ops ++ more)).objs[k]? = some ob' ∧
      ob'.fid = ob.fid ∧ ob'.destHost = ob.destHost ∧ ob'.destPort = ob.destPort :=
  object_identity_is_stable _ ops more k ob h

/-! Non-vacuity: a `Connect` for "a":80 creates object 0; after it is accepted, written to, finished
    by the peer and dropped, object 0 still shows flow 5 and "a":80. -/
example : ((runOps { opts := {} } [.deliver (.msg (.frame (.connect 5 4 80 [97])))]).objs[0]?).map (·.destHost) = some [97] := by decide
example : ((runOps { opts := {} } ([.deliver (.msg (.frame (.connect 5 4 80 [97])))] ++
    [.accept, .write 0 [1, 2], .deliver (.msg (.frame (.finish 5))), .dropStream 0])).objs[0]?).map
      (fun ob => (ob.fid, ob.destHost, ob.destPort)) = some (5, [97], 80) := by decide

/-- Each stream request is answered at most once — with a stream, `FlowIdRejected` or `Closed` — and
    nothing is answered that was not asked: for every history of stimuli of one endpoint (application
    calls, deliveries of anything a peer may send, faults, the wind-down) in which request numbers
    are not reused, the `openDone` events of the whole history are pairwise distinct requests, each
    one started by the history. (`Lemmas/MuxOnce.lean`: a relation on (state, later state, events in
    between) proved for every event-emitting function of the endpoint model.) -/
theorem each_request_answered_at_most_once (o : Opts) (ops : List Mux.Op) (h : (opensOf ops).Nodup) :
    (doneReqs (runOpsEv { opts := o } ops).2).Nodup ∧
    ∀ r, r ∈ doneReqs (runOpsEv { opts := o } ops).2 → r ∈ opensOf ops :=
  answered_at_most_once o ops h

/-! Non-vacuity: request 1 is acknowledged (a stream), request 2 is reset three times (the retries
    run out: `FlowIdRejected`), request 3 is still pending when the peer closes (`Closed`). -/
private def hops : List Mux.Op :=
  [.open 1 [97] 80, .open 2 [98] 81, .deliver (.msg (.frame (.acknowledge 7 4))),
   .deliver (.msg (.frame (.reset 8))), .deliver (.msg (.frame (.reset 9))), .deliver (.msg (.frame (.reset 10))),
   .open 3 [99] 82, .deliver (.msg .close)]
example : opensOf hops = [1, 2, 3] := by decide
example : doneReqs (runOpsEv { opts := { maxRetries := 3 }, rng := [7, 8, 9, 10, 11, 12] } hops).2 = [1, 2, 3] := by decide

/-! Non-vacuity -/
example : (appOpen { opts := {}, rng := [0, 5] } 1 [0x61] 80).1.outq
    = [.frame (.connect 5 4 80 [0x61])] := by decide
example : (processFrame { opts := {} } (.connect 5 9 80 [0x61]) false).1.outq = [.frame (.acknowledge 5 4)] := by decide


/-! ### Over two whole endpoint models joined by FIFO wires (`Penguin.Pair`) -/

open Penguin.Pair in
/-- One request, one stream on each endpoint: whenever a flow id is established on both endpoints
    (in any reachable state of the pair, under any interleaving), each endpoint has exactly one stream
    object carrying that id, both carry the same id, and each one's receive window is the `rwnd` its
    endpoint advertises — the initial send credit of the peer (`pair_window_never_exceeded`, C03). -/
theorem pair_one_stream_each_side {oa ob : Opts} {ra rb : List Nat} (c : Cfg oa ob ra rb) (as : List (Pair.Side × Pair.Act))
    {x i j : Nat} (e : Established (Pair.run (Pair.init oa ob ra rb) as) x i j) :
    let p := Pair.run (Pair.init oa ob ra rb) as
    ∃ oA oB, p.a.objs[i]? = some oA ∧ p.b.objs[j]? = some oB ∧ oA.fid = x ∧ oB.fid = x ∧
      oA.cap = oa.rwnd ∧ oB.cap = ob.rwnd ∧
      (∀ k o, p.a.objs[k]? = some o → o.fid = x → k = i) ∧ (∀ k o, p.b.objs[k]? = some o → o.fid = x → k = j) := by
  obtain ⟨oA, oB, _, h1, h2, h3, h4, h5, h6, _, h7, h8⟩ := established_dir (reach_inv c as) e
  have ho := run_opts (Pair.init oa ob ra rb) as (init_inv oa ob ra rb c.wa c.wb c.nodup c.nonzero)
  exact ⟨oA, oB, h1, h2, h3, h4, by rw [h5, ho.1]; rfl, by rw [h6, ho.2]; rfl, h7, h8⟩

open Penguin.Pair in
/-- Flow ids stay usable for ever: no id that is still in a script is in use anywhere (slot, object,
    frame in flight, pending notification) on either endpoint, in any reachable state. -/
theorem pair_script_ids_are_free {oa ob : Opts} {ra rb : List Nat} (c : Cfg oa ob ra rb) (as : List (Pair.Side × Pair.Act))
    (x : Nat) (hx : x ∈ (Pair.run (Pair.init oa ob ra rb) as).a.rng ∨ x ∈ (Pair.run (Pair.init oa ob ra rb) as).b.rng) :
    let p := Pair.run (Pair.init oa ob ra rb) as
    lookup p.a.flows x = none ∧ lookup p.b.flows x = none ∧ fl x (pathAB p) = [] ∧ fl x (pathBA p) = [] := by
  have f := fresh_of_inRng (reach_inv c as) x hx
  exact ⟨f.sa, f.sb, f.fab, f.fba⟩

/-! Non-vacuity of the pair theorems: a concrete run (windows 2, threshold 1) that opens a stream,
    writes three bytes, reads them in two reads, shuts down and reads end-of-stream. -/
private def pcfg : Mux.Opts := { rwnd := 2, threshold := 1 }
private def pacts : List (Pair.Side × Pair.Act) :=
  [(.A, .open 1 [104] 80), (.A, .xmit), (.B, .recv), (.B, .xmit), (.A, .recv), (.A, .runDone), (.B, .accept),
   (.A, .write 0 [1, 2, 3]), (.A, .xmit), (.B, .recv), (.B, .read 0 2), (.B, .read 0 9), (.B, .xmit), (.A, .recv),
   (.A, .shutdown 0), (.A, .xmit), (.B, .recv), (.B, .read 0 9)]
example : Pair.Cfg pcfg pcfg [7, 8] [9, 10] := ⟨by decide, by decide, by decide, by decide⟩
example : Pair.Established (Pair.run (Pair.init pcfg pcfg [7, 8] [9, 10]) pacts) 7 0 0 :=
  ⟨by decide, by decide, by decide, by decide, by decide⟩

end Penguin.C07
