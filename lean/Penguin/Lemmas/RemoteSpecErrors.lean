/-
Which error `Remote::from_str` gives (C01 glue), what an accepted remote always satisfies (the
facts `client/handle_remote/mod.rs:80-140` relies on), and where the payload of a `Port` error
comes from.
-/
import Penguin.Lemmas.RemoteSpecForms

namespace Penguin.RemoteSpec
open Penguin.Constants

/-! ### One iteration of the tokenizer on what follows well-formed tokens -/

theorem tokLoop_step_bracketed {fuel : Nat} {acc : List Tok} {txt after : Str} (hacc : acc.length < 4)
    (hne : txt ≠ []) (hb : ']' ∉ txt) :
    tokLoop (fuel + 1) acc ('[' :: txt ++ ']' :: ':' :: after) = tokLoop fuel (acc ++ [⟨txt, true⟩]) after := by
  conv => lhs; unfold tokLoop
  simp only [List.cons_append, if_true]
  rw [splitOnce_append hb]
  simp only []
  rw [checkAndPush_of (t := ⟨txt, true⟩) hacc hne]
  simp only [if_true]

theorem tokLoop_step_bare {fuel : Nat} {acc : List Tok} {txt after : Str} (hacc : acc.length < 4)
    (hne : txt ≠ []) (hc : ':' ∉ txt) (hh : txt.head? ≠ some '[') :
    tokLoop (fuel + 1) acc (txt ++ ':' :: after) = tokLoop fuel (acc ++ [⟨txt, false⟩]) after := by
  obtain ⟨x, xs, rfl⟩ := List.exists_cons_of_ne_nil hne
  have hx : ¬ x = '[' := by simpa using hh
  conv => lhs; unfold tokLoop
  simp only [List.cons_append, hx, if_false]
  rw [← List.cons_append, splitOnce_append hc]
  simp only []
  rw [checkAndPush_of (t := ⟨x :: xs, false⟩) hacc hne]

/-- Well-formed tokens followed by `:` are consumed one per iteration. -/
theorem tokLoop_prefix {fuel : Nat} {acc pre : List Tok} {tail : Str} (hw : ∀ t ∈ pre, t.WF)
    (hlen : acc.length + pre.length ≤ 4) :
    tokLoop (pre.length + fuel) acc (pre.foldr (fun t s => t.render ++ ':' :: s) tail) = tokLoop fuel (acc ++ pre) tail := by
  induction pre generalizing acc with
  | nil => simp
  | cons t rest ih =>
    have hwt : t.WF := hw t (by simp)
    have hacc : acc.length < 4 := by simp at hlen; omega
    obtain ⟨txt, br⟩ := t
    obtain ⟨htne, hcond⟩ := hwt
    simp only at htne hcond
    have ih' := @ih (acc ++ [⟨txt, br⟩]) (fun t ht => hw t (by simp [ht])) (by simp at hlen ⊢; omega)
    have hf : (⟨txt, br⟩ :: rest : List Tok).length + fuel = (rest.length + fuel) + 1 := by simp; omega
    rw [hf]
    simp only [List.foldr_cons]
    cases br with
    | true =>
      simp at hcond
      have hr : (⟨txt, true⟩ : Tok).render = '[' :: txt ++ [']'] := by simp [Tok.render]
      rw [hr]
      have : ('[' :: txt ++ [']']) ++ ':' :: List.foldr (fun t s => t.render ++ ':' :: s) tail rest =
          '[' :: txt ++ ']' :: ':' :: List.foldr (fun t s => t.render ++ ':' :: s) tail rest := by simp
      rw [this, tokLoop_step_bracketed hacc htne hcond, ih']; simp
    | false =>
      simp at hcond
      have hr : (⟨txt, false⟩ : Tok).render = txt := by simp [Tok.render]
      rw [hr, tokLoop_step_bare hacc htne hcond.1 hcond.2, ih']; simp

/-- The text `t1:t2:…:tk:` followed by `tail`. -/
def prefixText (pre : List Tok) (tail : Str) : Str := pre.foldr (fun t s => t.render ++ ':' :: s) tail

/-- After `k ≤ 4` well-formed segments the tokenizer stands in front of the rest with `k` tokens. -/
theorem tokenize_prefix {pre : List Tok} {tail : Str} (hw : ∀ t ∈ pre, t.WF) (hlen : pre.length ≤ 4) :
    tokenize (prefixText pre tail) = tokLoop (5 - pre.length) pre tail := by
  have := @tokLoop_prefix (5 - pre.length) [] pre tail hw (by simpa using hlen)
  simp only [List.nil_append] at this
  rw [← this]
  unfold tokenize prefixText
  rw [maxSegments_eq]
  congr 1; omega

/-- An empty segment among the first four: `EmptySegment`. -/
theorem step_empty {fuel : Nat} {acc : List Tok} {tail : Str} (ha : acc.length < 4)
    (ht : tail = [] ∨ ∃ x, tail = ':' :: x) : tokLoop (fuel + 1) acc tail = .error (.err .emptySegment) := by
  rcases ht with rfl | ⟨x, rfl⟩
  · simp [tokLoop, checkAndPush_empty ha]
  · simp [tokLoop, splitOnce, checkAndPush_empty ha]

/-- `[]`: `EmptySegment` as well (whatever follows the `]`). -/
theorem step_empty_brackets {fuel : Nat} {acc : List Tok} {x : Str} (ha : acc.length < 4) :
    tokLoop (fuel + 1) acc ('[' :: ']' :: x) = .error (.err .emptySegment) := by
  simp [tokLoop, splitOnce, checkAndPush_empty ha]

/-- A fifth segment: `TooManySegments` — unless it opens a bracket that is never closed. -/
theorem step_full {fuel : Nat} {acc : List Tok} {tail : Str} (ha : 4 ≤ acc.length)
    (ht : tail.head? ≠ some '[' ∨ ']' ∈ tail) : tokLoop (fuel + 1) acc tail = .error (.err .tooManySegments) := by
  unfold tokLoop
  split
  · next c body =>
    split
    · next hc =>
      subst hc
      have hin : ']' ∈ body := by
        rcases ht with h | h
        · simp at h
        · simpa using h
      cases hs : splitOnce ']' body with
      | none => exact absurd hin (splitOnce_none.mp hs)
      | some p => simp only []; rw [checkAndPush_full ha]
    · split
      · rw [checkAndPush_full ha]
      · exact checkAndPush_full ha
  · exact checkAndPush_full ha

/-- `[` without a `]`: `BracketMismatch`, even as a fifth segment. -/
theorem step_mismatch {fuel : Nat} {acc : List Tok} {body : Str} (hb : ']' ∉ body) :
    tokLoop (fuel + 1) acc ('[' :: body) = .error (.err .bracketMismatch) := by
  simp [tokLoop, splitOnce_none.mpr hb]

/-- Something other than `:` after the `]`: `GarbageAfterAddress` with that character. -/
theorem step_garbage {fuel : Nat} {acc : List Tok} {t more : Str} {ch : Char} (ha : acc.length < 4) (hne : t ≠ [])
    (hb : ']' ∉ t) (hch : ch ≠ ':') :
    tokLoop (fuel + 1) acc ('[' :: t ++ ']' :: ch :: more) = .error (.err (.garbageAfterAddress ch)) := by
  unfold tokLoop
  simp only [List.cons_append, if_true]
  rw [splitOnce_append hb]
  simp only []
  rw [checkAndPush_of (t := ⟨t, true⟩) ha hne]
  simp [hch]

/-! ### Protocol errors come first -/

/-- A suffix that is not a protocol is reported before anything else is looked at. -/
theorem parse_bad_protocol (o : Oracle) (rest ptxt : Str) (h1 : '/' ∉ ptxt) (h2 : ':' ∉ ptxt)
    (h3 : o.lower ptxt ≠ kwTcp) (h4 : o.lower ptxt ≠ kwUdp) :
    parse o (rest ++ '/' :: ptxt) = .error (.err (.protocol (o.lower ptxt))) := by
  rw [parse_eq, splitProto_suffix o h1 h2, parseProtocol_other h3 h4]

/-- A `:` after the last `/`: the `/` is not a protocol separator, the whole text is tokenized, tcp. -/
theorem parse_colon_after_slash (o : Oracle) (rest ptxt : Str) (h1 : '/' ∉ ptxt) (h2 : ':' ∈ ptxt) :
    parse o (rest ++ '/' :: ptxt) =
      match tokenize (rest ++ '/' :: ptxt) with
      | .error e => .error e
      | .ok toks => finish o .tcp (toks.map (·.text)) := by
  rw [parse_eq]
  have : splitProto o (rest ++ '/' :: ptxt) = .ok (rest ++ '/' :: ptxt, .tcp) := by
    unfold splitProto
    rw [rsplitOnce_append h1]
    simp [h2]
  rw [this]
  rfl

/-! ### A single segment -/

/-- One bare segment that is not a key word is a port: accepted exactly when `u16::from_str` accepts
    it, refused with the text and `u16`'s error kind otherwise. -/
theorem parse_single (o : Oracle) (t : Str) (hne : t ≠ []) (h1 : ':' ∉ t) (h2 : '/' ∉ t) (h3 : t.head? ≠ some '[')
    (h4 : isSpecial t = false) :
    parse o t =
      match parseU16 t with
      | .ok n => .ok ⟨.inet defaultUnspec n, .inet defaultLocal n, .tcp⟩
      | .error k => .error (.err (.port t k)) := by
  have hw : ∀ x ∈ [(⟨t, false⟩ : Tok)], x.WF := by
    intro x hx; simp at hx; subst hx
    exact ⟨hne, by simp only [Bool.false_eq_true, if_false]; exact ⟨h1, h3⟩⟩
  have hj : joinToks [(⟨t, false⟩ : Tok)] = t := by simp [joinToks, Tok.render]
  have := parse_join_plain o hw (by simp) (by simp) (by
    intro a b hab
    rw [hj] at hab
    obtain ⟨e, _⟩ := rsplitOnce_some.mp hab
    exact absurd (e ▸ (by simp : '/' ∈ a ++ '/' :: b)) h2)
  rw [hj] at this
  rw [this]
  obtain ⟨n1, n2, n3⟩ := not_special_ne h4
  cases hp : parseU16 t with
  | ok n =>
    simp [finish, selectArm, n1, n2, n3, evalArm, portOrBail, hp, bind, Except.bind, postChecks, LocalSpec.isDomainSocket]
  | error k =>
    simp [finish, selectArm, n1, n2, n3, evalArm, portOrBail, hp, bind, Except.bind]

/-! ### What every accepted remote satisfies -/

theorem portOrBail_ok {t : Str} {n : Nat} (h : portOrBail t = .ok n) : n ≤ u16Max ∧ parseU16 t = .ok n := by
  unfold portOrBail at h
  split at h
  · next m hm =>
    simp at h; subst h
    obtain ⟨ds, _, _, _, _, hle⟩ := (parseU16_ok_iff t m).mp hm
    exact ⟨hle, hm⟩
  · cases h

theorem remoteSpecial_ok {t : Str} {r : RemoteSpec} (h : remoteSpecial t = .ok r) :
    (t = kwSocks ∧ r = .socks) ∨ (t = kwHttp ∧ r = .http) ∨ (t = kwTproxy ∧ r = .tproxy) := by
  unfold remoteSpecial at h
  split at h
  · next h1 => simp at h; exact Or.inl ⟨h1, h.symm⟩
  · split at h
    · next h2 => simp at h; exact Or.inr (Or.inl ⟨h2, h.symm⟩)
    · split at h
      · next h3 => simp at h; exact Or.inr (Or.inr ⟨h3, h.symm⟩)
      · cases h

def RemoteSpec.PortOK : RemoteSpec → Prop
  | .inet _ p => p ≤ u16Max
  | _ => True

def LocalSpec.PortOK : LocalSpec → Prop
  | .inet _ p => p ≤ u16Max
  | _ => True

theorem remoteSpecial_ok_sane {t : Str} {a : RemoteSpec} (h : remoteSpecial t = .ok a) : a.PortOK := by
  rcases remoteSpecial_ok h with ⟨_, rfl⟩ | ⟨_, rfl⟩ | ⟨_, rfl⟩ <;> trivial

/-- Ports of an accepted remote are 16-bit; `stdio` never comes with `tproxy`. -/
def Remote.Sane (r : Remote) : Prop :=
  r.localAddr.PortOK ∧ r.remoteAddr.PortOK ∧ ¬ (r.localAddr = .stdio ∧ r.remoteAddr = .tproxy)

theorem bind_ok {α β : Type} {x : Except Fail α} {f : α → Except Fail β} {b : β} (h : (x >>= f) = .ok b) :
    ∃ a, x = .ok a ∧ f a = .ok b := by
  cases x with
  | error e => cases h
  | ok a => exact ⟨a, rfl, h⟩

theorem evalArm_ok_sane (o : Oracle) (proto : Protocol) {m : Matched} (hg : m.Good) {r : Remote}
    (h : evalArm o proto m = .ok r) : r.Sane ∧ r.protocol = proto := by
  have d1 : remoteSocksDefaultPort ≤ u16Max := by decide
  have d2 : remoteHttpDefaultPort ≤ u16Max := by decide
  have d3 : remoteTproxyDefaultPort ≤ u16Max := by decide
  cases m <;> simp only [evalArm] at h
  case socks1 => cases h; exact ⟨⟨d1, (by simp [RemoteSpec.PortOK]), by simp⟩, rfl⟩
  case http1 => cases h; exact ⟨⟨d2, (by simp [RemoteSpec.PortOK]), by simp⟩, rfl⟩
  case tproxy1 => cases h; exact ⟨⟨d3, (by simp [RemoteSpec.PortOK]), by simp⟩, rfl⟩
  case port1 =>
    obtain ⟨a, ha, h⟩ := bind_ok h
    obtain ⟨b, hb, h⟩ := bind_ok h
    cases h; exact ⟨⟨(portOrBail_ok ha).1, (portOrBail_ok hb).1, by simp⟩, rfl⟩
  case stdioSpecial2 =>
    obtain ⟨a, ha, h⟩ := bind_ok h
    cases h
    refine ⟨⟨(by simp [LocalSpec.PortOK]), remoteSpecial_ok_sane ha, ?_⟩, rfl⟩
    rintro ⟨_, e⟩
    simp only at e; subst e
    rcases remoteSpecial_ok ha with ⟨_, h⟩ | ⟨_, h⟩ | ⟨h, _⟩
    · cases h
    · cases h
    · rcases hg with hg | hg <;> rw [h] at hg <;> exact absurd hg (by decide)
  case stdioTproxy2 => cases h
  case stdioPort2 =>
    obtain ⟨a, ha, h⟩ := bind_ok h
    cases h; exact ⟨⟨(by simp [LocalSpec.PortOK]), (portOrBail_ok ha).1, by simp⟩, rfl⟩
  case unixSpecial2 =>
    obtain ⟨a, ha, h⟩ := bind_ok h
    cases h; exact ⟨⟨(by simp [LocalSpec.PortOK]), remoteSpecial_ok_sane ha, by simp⟩, rfl⟩
  case portSpecial2 =>
    obtain ⟨a, ha, h⟩ := bind_ok h
    obtain ⟨b, hb, h⟩ := bind_ok h
    cases h; exact ⟨⟨(portOrBail_ok ha).1, remoteSpecial_ok_sane hb, by simp⟩, rfl⟩
  case unixPort2 =>
    obtain ⟨a, ha, h⟩ := bind_ok h
    cases h; exact ⟨⟨(by simp [LocalSpec.PortOK]), (portOrBail_ok ha).1, by simp⟩, rfl⟩
  case hostPort2 =>
    obtain ⟨a, ha, h⟩ := bind_ok h
    obtain ⟨b, hb, h⟩ := bind_ok h
    obtain ⟨c, hc, h⟩ := bind_ok h
    cases h; exact ⟨⟨(portOrBail_ok ha).1, (portOrBail_ok hc).1, by simp⟩, rfl⟩
  case stdio3 =>
    obtain ⟨a, ha, h⟩ := bind_ok h
    obtain ⟨b, hb, h⟩ := bind_ok h
    cases h; exact ⟨⟨(by simp [LocalSpec.PortOK]), (portOrBail_ok hb).1, by simp⟩, rfl⟩
  case special3 =>
    obtain ⟨a, ha, h⟩ := bind_ok h
    obtain ⟨b, hb, h⟩ := bind_ok h
    obtain ⟨c, hc, h⟩ := bind_ok h
    cases h; exact ⟨⟨(portOrBail_ok hb).1, remoteSpecial_ok_sane hc, by simp⟩, rfl⟩
  case unix3 =>
    obtain ⟨a, ha, h⟩ := bind_ok h
    obtain ⟨b, hb, h⟩ := bind_ok h
    cases h; exact ⟨⟨(by simp [LocalSpec.PortOK]), (portOrBail_ok hb).1, by simp⟩, rfl⟩
  case port3 =>
    obtain ⟨a, ha, h⟩ := bind_ok h
    obtain ⟨b, hb, h⟩ := bind_ok h
    obtain ⟨c, hc, h⟩ := bind_ok h
    cases h; exact ⟨⟨(portOrBail_ok ha).1, (portOrBail_ok hc).1, by simp⟩, rfl⟩
  case full4 =>
    obtain ⟨a, ha, h⟩ := bind_ok h
    obtain ⟨b, hb, h⟩ := bind_ok h
    obtain ⟨c, hc, h⟩ := bind_ok h
    obtain ⟨d, hd, h⟩ := bind_ok h
    cases h; exact ⟨⟨(portOrBail_ok hb).1, (portOrBail_ok hd).1, by simp⟩, rfl⟩
  case wildcard => cases h

theorem postChecks_ok_iff {r r' : Remote} (h : postChecks r = .ok r') :
    r' = r ∧ ¬ ((r.remoteAddr = .socks ∨ r.remoteAddr = .http) ∧ r.protocol = .udp) ∧
      ¬ (r.localAddr.isDomainSocket = true ∧ r.protocol = .udp) ∧
      ¬ (r.localAddr.isDomainSocket = true ∧ r.remoteAddr = .tproxy) := by
  unfold postChecks at h
  split at h
  · cases h
  · next h1 =>
    split at h
    · cases h
    · next h2 =>
      split at h
      · cases h
      · next h3 => simp at h; exact ⟨h.symm, h1, h2, h3⟩

/-- What `handle_remote` (`client/handle_remote/mod.rs:80-140`) relies on, for every accepted text:
    a `socks` or `http` remote is tcp ("the parser guarantees that the protocol is TCP"), a unix
    socket listener is tcp and never `tproxy`, `stdio` is never `tproxy` (the `unreachable!` of the
    last arm), ports are 16-bit. -/
theorem parse_ok_invariants {o : Oracle} {s : Str} {r : Remote} (h : parse o s = .ok r) :
    r.Sane ∧
    ((r.remoteAddr = .socks ∨ r.remoteAddr = .http) → r.protocol = .tcp) ∧
    (r.localAddr.isDomainSocket = true → r.protocol = .tcp ∧ r.remoteAddr ≠ .tproxy) := by
  rw [parse_eq] at h
  split at h
  · cases h
  · next rest proto _ =>
    split at h
    · cases h
    · next toks ht =>
      obtain ⟨hne, hl, _, _⟩ := tokenize_ok ht
      have hg := selectArm_good (toks.map (·.text)) (by simpa using hne) (by simpa using hl)
      unfold finish at h
      split at h
      · cases h
      · next r0 he =>
        obtain ⟨hs, _⟩ := evalArm_ok_sane o proto hg he
        obtain ⟨rfl, c1, c2, c3⟩ := postChecks_ok_iff h
        refine ⟨hs, ?_, ?_⟩
        · intro hk
          cases hp : r.protocol with
          | tcp => rfl
          | udp => exact absurd ⟨hk, hp⟩ c1
        · intro hd
          refine ⟨?_, fun e => c3 ⟨hd, e⟩⟩
          cases hp : r.protocol with
          | tcp => rfl
          | udp => exact absurd ⟨hd, hp⟩ c2

/-! ### The payload of a `Port` error -/

/-- `x` fails with a `Port` error only for one of the texts in `S`, with `u16::from_str`'s verdict on it. -/
def PortErrIn {α : Type} (S : Str → Prop) (x : Except Fail α) : Prop :=
  ∀ t k, x = .error (.err (.port t k)) → S t ∧ parseU16 t = .error k

theorem PortErrIn.ok {α : Type} {S : Str → Prop} (a : α) : PortErrIn S (.ok a : Except Fail α) := fun _ _ h => by cases h

theorem PortErrIn.bind {α β : Type} {S : Str → Prop} {x : Except Fail α} {f : α → Except Fail β}
    (hx : PortErrIn S x) (hf : ∀ a, PortErrIn S (f a)) : PortErrIn S (x >>= f) := by
  intro t k h
  cases x with
  | error e =>
    have h' : (Except.error e : Except Fail β) = .error (.err (.port t k)) := h
    injection h' with h'
    exact hx t k (by rw [h'])
  | ok a => exact hf a t k (show f a = _ from h)

theorem portOrBail_portErr {S : Str → Prop} {t : Str} (h : S t) : PortErrIn S (portOrBail t) := by
  intro t' k he
  unfold portOrBail at he
  split at he
  · cases he
  · next k' hk => simp at he; obtain ⟨rfl, rfl⟩ := he; exact ⟨h, hk⟩

theorem domainOrBail_portErr {S : Str → Prop} (o : Oracle) (t : Str) : PortErrIn S (domainOrBail o t) := by
  intro t' k he
  unfold domainOrBail at he
  split at he <;> cases he

theorem remoteSpecial_portErr {S : Str → Prop} (t : Str) : PortErrIn S (remoteSpecial t) := by
  intro t' k he
  unfold remoteSpecial at he
  split at he
  · cases he
  · split at he
    · cases he
    · split at he <;> cases he

/-- The sub-slices an arm binds. -/
def Matched.pieces : Matched → List Str
  | .socks1 | .http1 | .tproxy1 | .stdioTproxy2 | .wildcard => []
  | .port1 p => [p]
  | .stdioSpecial2 s => [s]
  | .stdioPort2 p => [p]
  | .unixSpecial2 u s => [u, s]
  | .portSpecial2 p s => [p, s]
  | .unixPort2 u p => [u, p]
  | .hostPort2 h p => [h, p]
  | .stdio3 h p => [h, p]
  | .special3 h p s => [h, p, s]
  | .unix3 u h p => [u, h, p]
  | .port3 l h p => [l, h, p]
  | .full4 a b c d => [a, b, c, d]

theorem selectArm_pieces (ts : List Str) : ∀ t ∈ (selectArm ts).pieces, t ∈ ts := by
  match ts with
  | [] => simp [selectArm, Matched.pieces]
  | [t0] =>
    simp only [selectArm]
    repeat' split
    all_goals simp [Matched.pieces]
  | [t0, t1] =>
    simp only [selectArm]
    repeat' split
    all_goals simp [Matched.pieces]
  | [t0, t1, t2] =>
    simp only [selectArm]
    repeat' split
    all_goals simp [Matched.pieces]
  | [t0, t1, t2, t3] => simp [selectArm, Matched.pieces]
  | _ :: _ :: _ :: _ :: _ :: _ => simp [selectArm, Matched.pieces]

theorem evalArm_portErr (o : Oracle) (proto : Protocol) (m : Matched) :
    PortErrIn (· ∈ m.pieces) (evalArm o proto m) := by
  cases m <;> simp only [evalArm] <;>
    first
    | exact PortErrIn.ok _
    | (intro _ _ he; cases he)
    | (repeat' first
        | exact PortErrIn.ok _
        | apply PortErrIn.bind
        | exact portOrBail_portErr (by simp [Matched.pieces])
        | exact domainOrBail_portErr _ _
        | exact remoteSpecial_portErr _
        | intro _)

theorem parseProtocol_error {o : Oracle} {s : Str} {e : Fail} (h : parseProtocol o s = .error e) :
    e = .err (.protocol (o.lower s)) := by
  unfold parseProtocol at h
  simp only at h
  split at h
  · cases h
  · split at h
    · cases h
    · injection h with h; exact h.symm

theorem splitProto_error {o : Oracle} {s : Str} {e : Fail} (h : splitProto o s = .error e) :
    ∃ p, e = .err (.protocol p) := by
  unfold splitProto at h
  split at h
  · split at h
    · cases h
    · next rest ptxt _ _ =>
      cases hp : parseProtocol o ptxt with
      | ok p => rw [hp] at h; cases h
      | error e' => rw [hp] at h; injection h with h; subst h; exact ⟨_, parseProtocol_error hp⟩
  · cases h

/-- A `Port` error names one of the segments of the text, with the verdict of `u16::from_str` on
    it — and since a segment is never empty, the kind is `InvalidDigit` or `PosOverflow`, never `Empty`. -/
theorem parse_port_error {o : Oracle} {s t : Str} {k : IntErrKind} (h : parse o s = .error (.err (.port t k))) :
    parseU16 t = .error k ∧ t ≠ [] ∧ (k = .invalidDigit ∨ k = .posOverflow) := by
  rw [parse_eq] at h
  split at h
  · next e he =>
    -- the protocol split only fails with `Protocol`
    exfalso
    injection h with h; subst h
    obtain ⟨p, hp⟩ := splitProto_error he
    cases hp
  · next rest proto _ =>
    split at h
    · next e he =>
      -- the tokenizer never fails with `Port`
      exfalso
      injection h with h; subst h
      have : ∀ fuel acc stuff, tokLoop fuel acc stuff ≠ .error (.err (.port t k)) := by
        intro fuel
        induction fuel with
        | zero => intro acc stuff hh; simp [tokLoop] at hh
        | succ f ih =>
          intro acc stuff hh
          have hcp : ∀ tk, checkAndPush acc tk ≠ .error (.err (.port t k)) := by
            intro tk hc; unfold checkAndPush at hc
            split at hc
            · cases hc
            · split at hc <;> cases hc
          unfold tokLoop at hh
          split at hh
          · split at hh
            · split at hh
              · cases hh
              · split at hh
                · next e' he' => injection hh with hh; subst hh; exact hcp _ he'
                · split at hh
                  · cases hh
                  · split at hh
                    · exact ih _ _ hh
                    · cases hh
            · split at hh
              · split at hh
                · next e' he' => injection hh with hh; subst hh; exact hcp _ he'
                · exact ih _ _ hh
              · exact hcp _ hh
          · exact hcp _ hh
      exact this _ _ _ he
    · next toks ht =>
      obtain ⟨_, _, hw, _⟩ := tokenize_ok ht
      unfold finish at h
      split at h
      · next e he =>
        injection h with h; subst h
        obtain ⟨hin, hp⟩ := evalArm_portErr o proto _ t k he
        have hmem := selectArm_pieces _ t hin
        obtain ⟨tk, htk, rfl⟩ := List.mem_map.mp hmem
        have hne : tk.text ≠ [] := (hw tk htk).1
        refine ⟨hp, hne, ?_⟩
        rcases parseU16_error_kinds hp with ⟨_, he⟩ | ⟨hk, _⟩
        · exact absurd he hne
        · exact hk
      · next r he =>
        exfalso
        unfold postChecks at h
        split at h
        · cases h
        · split at h
          · cases h
          · split at h <;> cases h

end Penguin.RemoteSpec
