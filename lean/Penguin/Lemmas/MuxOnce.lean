/-
Every open request is answered at most once — for every history of one endpoint and any peer.

`pend e`: the requests that are pending at `e` (`opens`: the `new_stream_channel` futures still
waiting; `doneq`: answered ones whose future has not run yet).  `Once new e e' evs` relates a state,
a later state and the events emitted in between: requests only leave `pend` (apart from the ones in
`new`, started in between); every `openDone` event is for a request that was pending (or new) and is
not pending afterwards; no request gets two `openDone` events.  It is established for every function
of the endpoint model that emits events (frames from any peer, the wind-down, the futures' rounds)
and lifted to stimuli and histories.
Core Lean only.
-/
import Penguin.Lemmas.MuxReach

namespace Penguin.Mux

/-- The requests pending at an endpoint. -/
def pend (e : EP) : List Nat := e.opens.map (·.req) ++ e.doneq.map (·.1)

/-- The requests answered by a list of events. -/
def doneReqs : List Ev → List Nat
  | [] => []
  | .openDone req _ :: rest => req :: doneReqs rest
  | _ :: rest => doneReqs rest

@[simp] theorem doneReqs_nil : doneReqs [] = [] := rfl

theorem doneReqs_append (a b : List Ev) : doneReqs (a ++ b) = doneReqs a ++ doneReqs b := by
  induction a with
  | nil => rfl
  | cons x rest ih => cases x <;> simp [doneReqs, ih]

theorem doneReqs_wires (l : List Msg) : doneReqs (l.map Ev.wire) = [] := by
  induction l with
  | nil => rfl
  | cons x rest ih => simpa [doneReqs] using ih

structure Once (new : List Nat) (e e' : EP) (evs : List Ev) : Prop where
  sub : ∀ r, r ∈ pend e' → r ∈ pend e ∨ r ∈ new
  nd : (pend e ++ new).Nodup → (pend e').Nodup
  done : (pend e ++ new).Nodup → ∀ r, r ∈ doneReqs evs → (r ∈ pend e ∨ r ∈ new) ∧ r ∉ pend e'
  dnd : (pend e ++ new).Nodup → (doneReqs evs).Nodup

/-- Nothing pending changes, nothing is answered. -/
theorem Once.silent {e e' : EP} {evs : List Ev} (ho : e'.opens = e.opens) (hd : e'.doneq = e.doneq)
    (hev : doneReqs evs = []) : Once [] e e' evs := by
  have hp : pend e' = pend e := by unfold pend; rw [ho, hd]
  refine ⟨?_, ?_, ?_, ?_⟩
  · intro r h; rw [hp] at h; exact Or.inl h
  · intro h; rw [hp]; simpa using h
  · intro _ r h; rw [hev] at h; cases h
  · intro _; rw [hev]; exact List.nodup_nil

theorem Once.refl (e : EP) : Once [] e e [] := Once.silent rfl rfl rfl

theorem Once.trans {new : List Nat} {a b c : EP} {ev1 ev2 : List Ev} (s : Once new a b ev1) (t : Once [] b c ev2) :
    Once new a c (ev1 ++ ev2) := by
  refine ⟨?_, ?_, ?_, ?_⟩
  · intro r h
    rcases t.sub r h with h1 | h1
    · exact s.sub r h1
    · cases h1
  · intro h
    exact t.nd (by simpa using s.nd h)
  · intro hn r h
    have hnb : (pend b ++ []).Nodup := by simpa using s.nd hn
    rw [doneReqs_append] at h
    rcases List.mem_append.mp h with h1 | h1
    · obtain ⟨h2, h3⟩ := s.done hn r h1
      refine ⟨h2, ?_⟩
      intro hc
      rcases t.sub r hc with h4 | h4
      · exact h3 h4
      · cases h4
    · obtain ⟨h2, h3⟩ := t.done hnb r h1
      refine ⟨?_, h3⟩
      rcases h2 with h2 | h2
      · exact s.sub r h2
      · cases h2
  · intro h
    have hnb : (pend b ++ []).Nodup := by simpa using s.nd h
    rw [doneReqs_append]
    refine List.nodup_append.mpr ⟨s.dnd h, t.dnd hnb, ?_⟩
    intro x hx y hy hxy
    subst hxy
    have h1 := (s.done h x hx).2
    rcases (t.done hnb x hy).1 with h2 | h2
    · exact h1 h2
    · cases h2

/-- `trans` with the later step first. -/
theorem Once.after {new : List Nat} {a b c : EP} {ev1 ev2 : List Ev} (t : Once [] b c ev2) (s : Once new a b ev1) :
    Once new a c (ev1 ++ ev2) := s.trans t

/-- The same step, its events written differently. -/
theorem Once.evs {new : List Nat} {e e' : EP} {evs evs' : List Ev} (s : Once new e e' evs) (h : evs' = evs) :
    Once new e e' evs' := by rw [h]; exact s

/-! ### Primitives -/

theorem mem_pend_opens {e : EP} {r : OpenReq} (h : r ∈ e.opens) : r.req ∈ pend e :=
  List.mem_append_left _ (List.mem_map.mpr ⟨r, h, rfl⟩)

theorem filter_req_sub (l : List OpenReq) (req : Nat) :
    List.Sublist ((l.filter (·.req ≠ req)).map (·.req)) (l.map (·.req)) :=
  (List.filter_sublist (l := l)).map _

theorem not_mem_filter_req (l : List OpenReq) (req : Nat) : req ∉ (l.filter (·.req ≠ req)).map (·.req) := by
  intro h
  obtain ⟨x, hx, hxr⟩ := List.mem_map.mp h
  have := (List.mem_filter.mp hx).2
  simp [hxr] at this

/-- Nodup of `pend e ++ new` with `req` pending or new: `req` is not in `doneq` unless it is not in
    `opens`, etc. — the facts used below, in one place. -/
theorem nodup_facts {e : EP} {new : List Nat} {req : Nat} (hn : (pend e ++ new).Nodup)
    (hin : req ∈ e.opens.map (·.req) ∨ req ∈ new) : req ∉ e.doneq.map (·.1) := by
  intro hd
  unfold pend at hn
  rcases hin with h | h
  · have := (List.nodup_append.mp (List.nodup_append.mp hn).1).2.2
    exact this req h req hd rfl
  · have := (List.nodup_append.mp hn).2.2
    exact this req (List.mem_append_right _ hd) req h rfl

/-- The request `req` (pending in `opens`, or new) is answered and leaves `opens`. -/
theorem Once.answer {new : List Nat} (e : EP) (req : Nat) (r : OpenRes)
    (hin : req ∈ e.opens.map (·.req) ∨ req ∈ new) :
    Once new e { e with opens := e.opens.filter (·.req ≠ req) } [.openDone req r] := by
  have hsub : List.Sublist (pend ({ e with opens := e.opens.filter (·.req ≠ req) } : EP)) (pend e) :=
    (filter_req_sub e.opens req).append (List.Sublist.refl _)
  refine ⟨fun x h => Or.inl (hsub.subset h), ?_, ?_, fun _ => by simp [doneReqs]⟩
  · intro hn
    exact (List.nodup_append.mp hn).1.sublist hsub
  · intro hn x hx
    simp only [doneReqs, List.mem_singleton] at hx
    subst hx
    refine ⟨hin.imp (fun h => List.mem_append_left _ h) id, ?_⟩
    intro hc
    rcases List.mem_append.mp hc with h1 | h1
    · exact not_mem_filter_req _ _ h1
    · exact nodup_facts hn hin h1

/-- The request `req` stays pending with an updated record at the front of `opens`. -/
theorem Once.replace {new : List Nat} (e : EP) (r' : OpenReq)
    (hin : r'.req ∈ e.opens.map (·.req) ∨ r'.req ∈ new) :
    Once new e { e with opens := r' :: e.opens.filter (·.req ≠ r'.req) } [] := by
  refine ⟨?_, ?_, fun _ x hx => (by cases hx), fun _ => List.nodup_nil⟩
  · intro x hx
    show x ∈ pend e ∨ x ∈ new
    unfold pend at hx
    simp only [List.map_cons, List.cons_append, List.mem_cons] at hx
    rcases hx with rfl | hx
    · exact hin.imp (fun h => List.mem_append_left _ h) id
    · rcases List.mem_append.mp hx with h | h
      · exact Or.inl (List.mem_append_left _ ((filter_req_sub _ _).subset h))
      · exact Or.inl (List.mem_append_right _ h)
  · intro hn
    show (pend ({ e with opens := r' :: e.opens.filter (·.req ≠ r'.req) } : EP)).Nodup
    unfold pend
    simp only [List.map_cons, List.cons_append]
    refine List.nodup_cons.mpr ⟨?_, ?_⟩
    · intro hc
      rcases List.mem_append.mp hc with h1 | h1
      · exact not_mem_filter_req _ _ h1
      · exact nodup_facts hn hin h1
    · exact (List.nodup_append.mp hn).1.sublist ((filter_req_sub e.opens r'.req).append (List.Sublist.refl _))

/-- A request is dropped from `opens` without an answer (the application gave up). -/
theorem Once.forget (e : EP) (req : Nat) :
    Once [] e { e with opens := e.opens.filter (·.req ≠ req) } [] := by
  have hsub : List.Sublist (pend ({ e with opens := e.opens.filter (·.req ≠ req) } : EP)) (pend e) :=
    (filter_req_sub e.opens req).append (List.Sublist.refl _)
  exact ⟨fun x h => Or.inl (hsub.subset h), fun hn => (List.nodup_append.mp hn).1.sublist hsub,
    fun _ x hx => (by cases hx), fun _ => List.nodup_nil⟩

/-- An answered request moves from `opens` to `doneq` (its future has not run yet). -/
theorem Once.toDone (e : EP) (req i : Nat) (hin : req ∈ e.opens.map (·.req)) :
    Once [] e { e with doneq := e.doneq ++ [(req, i)], opens := e.opens.filter (·.req ≠ req) } [] := by
  refine ⟨?_, ?_, fun _ x hx => (by cases hx), fun _ => List.nodup_nil⟩
  · intro x hx
    unfold pend at hx
    simp only [List.map_append, List.map_cons, List.map_nil, List.mem_append, List.mem_singleton] at hx
    rcases hx with h | h | rfl
    · exact Or.inl (List.mem_append_left _ ((filter_req_sub _ _).subset h))
    · exact Or.inl (List.mem_append_right _ h)
    · exact Or.inl (List.mem_append_left _ hin)
  · intro hn
    have hn' : (pend e).Nodup := by simpa using hn
    unfold pend at hn' ⊢
    simp only [List.map_append, List.map_cons, List.map_nil]
    rw [← List.append_assoc]
    refine List.nodup_append.mpr ⟨hn'.sublist ((filter_req_sub e.opens req).append (List.Sublist.refl _)), by simp, ?_⟩
    intro x hx y hy hxy
    simp only [List.mem_singleton] at hy
    subst hy; subst hxy
    rcases List.mem_append.mp hx with h1 | h1
    · exact not_mem_filter_req _ _ h1
    · exact nodup_facts (new := []) hn (Or.inl hin) h1

/-- Only `pend` of the two states matters. -/
theorem Once.congr {new : List Nat} {e e' a a' : EP} {evs : List Ev} (s : Once new e e' evs)
    (h1 : pend a = pend e) (h2 : pend a' = pend e') : Once new a a' evs :=
  ⟨by rw [h1, h2]; exact s.sub, by rw [h1, h2]; exact s.nd, by rw [h1, h2]; exact s.done, by rw [h1]; exact s.dnd⟩

/-- A state with the same `opens` and `doneq`. -/
theorem pend_eq {e e' : EP} (ho : e'.opens = e.opens) (hd : e'.doneq = e.doneq) : pend e' = pend e := by
  unfold pend; rw [ho, hd]

@[simp] theorem enq_doneq (e : EP) (m : Msg) : (e.enq m).doneq = e.doneq := by unfold EP.enq; split <;> rfl
@[simp] theorem enqFrame_opens (e : EP) (f : Frame) : (e.enqFrame f).opens = e.opens := enq_opens e _
@[simp] theorem enqFrame_doneq (e : EP) (f : Frame) : (e.enqFrame f).doneq = e.doneq := enq_doneq e _

/-- Side goal "nothing pending changed, nothing was answered". -/
macro "os" : tactic =>
  `(tactic| first
    | exact Once.refl _
    | exact Once.silent rfl rfl rfl
    | exact Once.silent (by simp) (by simp) rfl
    | exact Once.silent (by simp) (by simp) (by simp [doneReqs]))

/-! ### Function by function -/

theorem Once.openRound {new : List Nat} (e : EP) (r : OpenReq)
    (hin : r.req ∈ e.opens.map (·.req) ∨ r.req ∈ new) : Once new e (openRound e r).1 (openRound e r).2 := by
  unfold Mux.openRound
  split
  · exact Once.answer e r.req _ hin
  · split
    · exact Once.answer e r.req _ hin
    · rename_i fid rng' fb' hd
      simp only
      have s1 : Once new e { e with opens := { r with retriesLeft := r.retriesLeft - 1 } :: e.opens.filter (·.req ≠ r.req) } [] :=
        Once.replace e { r with retriesLeft := r.retriesLeft - 1 } hin
      split
      · exact (Once.answer e r.req .closed hin).congr rfl (pend_eq rfl rfl)
      · exact s1.congr rfl (pend_eq (by simp) (by simp))

theorem Once.openRejected (e : EP) (req : Nat) (final : Bool) :
    Once [] e (openRejected e req final).1 (openRejected e req final).2 := by
  unfold Mux.openRejected
  split
  · os
  · rename_i x hx
    split
    · refine Once.answer e req _ (Or.inl ?_)
      have hm := List.mem_of_find?_eq_some hx
      have hp := List.find?_some hx
      exact List.mem_map.mpr ⟨x, hm, by simpa using hp⟩
    · os

theorem Once.closeLocal (e : EP) (s : Slot) (fid : Nat) (inh final : Bool) :
    Once [] e (closeLocal e s fid inh final).1 (closeLocal e s fid inh final).2 := by
  unfold Mux.closeLocal
  cases s with
  | established i =>
    simp only
    cases ho : e.obj? i with
    | none => os
    | some o =>
      simp only
      split
      · exact Once.silent (by simp [EP.modObj]) (by simp [EP.modObj]) rfl
      · os
  | requested req => exact Once.openRejected e req final
  | bindRequested req => exact Once.silent rfl rfl (by simp [doneReqs])

theorem Once.closeFlow (e : EP) (fid : Nat) (inh : Bool) :
    Once [] e (closeFlow e fid inh).1 (closeFlow e fid inh).2 := by
  unfold Mux.closeFlow
  split
  · os
  · exact (Once.closeLocal _ _ _ _ _).congr rfl rfl

theorem offerAccept_pend (e : EP) (i : Nat) : pend (offerAccept e i) = pend e := by
  unfold Mux.offerAccept; split <;> rfl
theorem offerBind_pend (e : EP) (b : BindIn) : pend (offerBind e b) = pend e := by
  unfold Mux.offerBind; split <;> rfl

theorem Once.processFrame (e : EP) (f : Frame) (ig : Bool) :
    Once [] e (processFrame e f ig).1 (processFrame e f ig).2.1 := by
  cases f with
  | connect fid rwnd port host =>
    simp only [Mux.processFrame]
    split
    · os
    · split
      · os
      · split
        · exact Once.silent (by simp [EP.modObj]) (by simp [EP.modObj]) rfl
        · exact (Once.refl e).congr rfl (by rw [offerAccept_pend]; exact pend_eq (by simp) (by simp))
  | acknowledge fid n =>
    simp only [Mux.processFrame]
    split
    · os
    · rename_i req hl
      split
      · rename_i x hx
        have hm := List.mem_of_find?_eq_some hx
        have hp := List.find?_some hx
        have hin : req ∈ e.opens.map (·.req) := List.mem_map.mpr ⟨x, hm, by simpa using hp⟩
        exact (Once.toDone e req e.objs.length hin).congr rfl rfl
      · exact Once.silent (by simp [EP.modObj]) (by simp [EP.modObj]) rfl
    · os
    · os
  | finish fid =>
    simp only [Mux.processFrame]
    split
    · os
    · exact Once.silent rfl rfl (by simp [doneReqs])
    · rename_i req hl
      split
      · rename_i hany
        have hin : req ∈ e.opens.map (·.req) := by
          obtain ⟨x, hx, hxr⟩ := List.any_eq_true.mp hany
          exact List.mem_map.mpr ⟨x, hx, by simpa using hxr⟩
        exact (Once.answer (new := []) e req .closed (Or.inl hin)).congr rfl (pend_eq (by simp) (by simp))
      · exact (Once.forget e req).congr rfl (pend_eq (by simp) (by simp))
    · os
  | reset fid =>
    simp only [Mux.processFrame]
    exact Once.closeFlow e fid true
  | push fid d =>
    simp only [Mux.processFrame]
    split
    · split
      · os
      · split
        · os
        · split
          · os
          · split
            · os
            · exact Once.closeFlow e fid false
    · os
  | bind fid bt port host =>
    simp only [Mux.processFrame]
    repeat' split
    all_goals first | exact (Once.refl e).congr rfl (offerBind_pend _ _) | os
  | datagram fid port host d =>
    simp only [Mux.processFrame]
    repeat' split
    all_goals os

theorem Once.processIn (e : EP) (w : WsIn) (ig : Bool) :
    Once [] e (processIn e w ig).1 (processIn e w ig).2.1 := by
  cases w with
  | msg m => cases m <;> first | exact Once.processFrame _ _ ig | os
  | bad b => os
  | err => os
  | eof => os

/-! ### Wind-down -/

theorem Once.drainFlows (e : EP) (l : List (Nat × Slot)) :
    Once [] e (drainFlows e l).1 (drainFlows e l).2 := by
  induction l generalizing e with
  | nil => os
  | cons p l ih =>
    obtain ⟨fid, s⟩ := p
    simp only [Mux.drainFlows]
    exact (Once.closeLocal e s fid true true).trans (ih _)

theorem doneReqs_map_openDone (l : List OpenReq) (c : OpenRes) :
    doneReqs (l.map (fun r => Ev.openDone r.req c)) = l.map (·.req) := by
  induction l with
  | nil => rfl
  | cons x rest ih => simp [doneReqs, ih]

/-- The requests for which `p` is false are answered, the others stay. -/
theorem Once.leftover (e : EP) (p : Nat → Bool) (c : OpenRes) :
    Once [] e { e with opens := e.opens.filter (fun r => p r.req) }
      ((e.opens.filter (fun r => !p r.req)).map (fun r => Ev.openDone r.req c)) := by
  have hsub : List.Sublist (pend ({ e with opens := e.opens.filter (fun r => p r.req) } : EP)) (pend e) :=
    ((List.filter_sublist (l := e.opens)).map _).append (List.Sublist.refl _)
  refine ⟨fun x h => Or.inl (hsub.subset h), fun hn => (List.nodup_append.mp hn).1.sublist hsub, ?_, ?_⟩
  · intro hn x hx
    rw [doneReqs_map_openDone] at hx
    obtain ⟨y, hy, hyx⟩ := List.mem_map.mp hx
    obtain ⟨hy1, hy2⟩ := List.mem_filter.mp hy
    have hin : x ∈ e.opens.map (·.req) := List.mem_map.mpr ⟨y, hy1, hyx⟩
    refine ⟨Or.inl (List.mem_append_left _ hin), ?_⟩
    intro hc
    rcases List.mem_append.mp hc with h1 | h1
    · obtain ⟨z, hz, hzx⟩ := List.mem_map.mp h1
      have hz2 := (List.mem_filter.mp hz).2
      rw [hzx] at hz2; rw [hyx] at hy2
      simp [hz2] at hy2
    · exact nodup_facts hn (Or.inl hin) h1
  · intro hn
    rw [doneReqs_map_openDone]
    have h1 : (e.opens.map (·.req)).Nodup := (List.nodup_append.mp (List.nodup_append.mp hn).1).1
    exact h1.sublist ((List.filter_sublist (l := e.opens)).map _)

theorem Once.windDownFinish (e : EP) (res : ExitRes) :
    Once [] e (windDownFinish e res).1 (windDownFinish e res).2 := by
  have g1 : Once [] e (Mux.drainFlows { e with flows := [] } e.flows).1 (Mux.drainFlows { e with flows := [] } e.flows).2 :=
    (Once.drainFlows { e with flows := [] } e.flows).congr rfl rfl
  simp only [Mux.windDownFinish]
  generalize Mux.drainFlows { e with flows := [] } e.flows = r at g1
  obtain ⟨e1, evs7⟩ := r
  simp only at g1 ⊢
  have g2 := Once.leftover { e1 with droppedq := [], dead := true, closing := none, park := none }
    (fun q => e1.retryq.contains q) .closed
  have g3 : Once [] ({ e1 with droppedq := [], dead := true, closing := none, park := none, opens := e1.opens.filter (fun r => e1.retryq.contains r.req) } : EP)
      ({ e1 with droppedq := [], dead := true, closing := none, park := none, opens := e1.opens.filter (fun r => e1.retryq.contains r.req) } : EP) ([Ev.exit res]) :=
    Once.silent rfl rfl (by simp [doneReqs])
  exact (((g1.trans (g2.congr rfl rfl)).trans g3).evs (by simp [List.append_assoc])).congr rfl rfl

theorem Once.windDownInbox (e : EP) (l : List WsIn) :
    Once [] e (windDownInbox e l).1 (windDownInbox e l).2.1 := by
  induction l generalizing e with
  | nil => os
  | cons w l ih =>
    cases w with
    | err => os
    | eof => os
    | msg m =>
      simp only [Mux.windDownInbox]
      exact (Once.processIn e (.msg m) true).trans ((ih _).congr rfl rfl)
    | bad b =>
      simp only [Mux.windDownInbox]
      exact (Once.processIn e (.bad b) true).trans ((ih _).congr rfl rfl)

theorem Once.windDownTail (e1 : EP) (flushed : List Ev) (srcEnded : Bool) (res : ExitRes)
    (hf : doneReqs flushed = []) :
    Once [] e1 (windDownTail e1 flushed srcEnded res).1 (windDownTail e1 flushed srcEnded res).2 := by
  have g0 : Once [] e1 e1 (flushed ++ [Ev.wireClose]) :=
    Once.silent rfl rfl (by rw [doneReqs_append, hf]; rfl)
  have g1 := g0.trans (Once.windDownInbox e1 e1.inbox)
  simp only [Mux.windDownTail]
  split
  · exact ((g1.trans ((Once.windDownFinish { (Mux.windDownInbox e1 e1.inbox).1 with inbox := [] } res).congr rfl rfl)).evs
      (by simp [List.append_assoc]))
  · exact (g1.evs (by simp [List.append_assoc])).congr rfl rfl

theorem disallowAll_pend (e : EP) (l : List (Nat × Slot)) : pend (disallowAll e l) = pend e := by
  induction l generalizing e with
  | nil => rfl
  | cons p l ih =>
    obtain ⟨fid, s⟩ := p
    cases s <;> simp only [Mux.disallowAll] <;> rw [ih] <;> rfl

theorem sendSome_pend (e : EP) : pend (sendSome e).1 = pend e := by
  unfold Mux.sendSome; split <;> rfl

theorem sendSome_done (e : EP) : doneReqs (sendSome e).2 = [] := by
  unfold Mux.sendSome; split <;> exact doneReqs_wires _

theorem Once.windDown (e : EP) (drain : Bool) (res : ExitRes) :
    Once [] e (windDown e drain res).1 (windDown e drain res).2 := by
  simp only [Mux.windDown]
  split
  · have hp : pend (Mux.sendSome (Mux.dropPrep e)).1 = pend e := by
      rw [sendSome_pend]; unfold Mux.dropPrep; exact disallowAll_pend e e.flows
    split
    · exact (Once.windDownTail _ _ _ _ (sendSome_done _)).congr hp.symm rfl
    · have g : Once [] e e (Mux.sendSome (Mux.dropPrep e)).2 := Once.silent rfl rfl (sendSome_done _)
      exact g.congr rfl hp
  · have hp : pend (Mux.windDownPrep e) = pend e := by
      unfold Mux.windDownPrep; exact disallowAll_pend e e.flows
    exact (Once.windDownTail _ _ _ _ rfl).congr hp.symm rfl

/-! ### The task's loops -/

theorem unpark_pend (e : EP) : pend (unpark e) = pend e := by
  unfold Mux.unpark
  repeat' split
  all_goals first | rfl | exact pend_eq (by simp [EP.modObj]) (by simp [EP.modObj]) | exact pend_eq (by simp) (by simp)

theorem Once.drainStep (e : EP) (res : ExitRes) : Once [] e (drainStep e res).1 (drainStep e res).2 := by
  simp only [Mux.drainStep]
  split
  · exact (Once.windDownTail { (Mux.sendSome e).1 with draining := none } (Mux.sendSome e).2 e.srcEnded res (sendSome_done e)).congr
      (by rw [← sendSome_pend e]; rfl) rfl
  · have g : Once [] e e (Mux.sendSome e).2 := Once.silent rfl rfl (sendSome_done e)
    exact g.congr rfl (sendSome_pend e)

theorem Once.closingStep (e : EP) (res : ExitRes) : Once [] e (closingStep e res).1 (closingStep e res).2 := by
  have g := Once.windDownInbox e e.inbox
  simp only [Mux.closingStep]
  split
  · exact g.trans ((Once.windDownFinish { (Mux.windDownInbox e e.inbox).1 with inbox := [] } res).congr rfl rfl)
  · exact g.congr rfl rfl

theorem Once.recvOne (e : EP) (w : WsIn) (rest : List WsIn) :
    Once [] e (recvOne e w rest).1 (recvOne e w rest).2.1 := by
  simp only [Mux.recvOne]
  refine (Once.processIn _ w false).congr ?_ rfl
  split <;> rfl

/-- The task's loop: its events are appended to the accumulator. -/
theorem Once.settleLoop (fuel : Nat) (e : EP) (acc : List Ev) :
    ∃ evs, (settleLoop fuel e acc).2 = acc ++ evs ∧ Once [] e (settleLoop fuel e acc).1 evs := by
  induction fuel generalizing e acc with
  | zero => exact ⟨[], by simp [Mux.settleLoop], Once.refl e⟩
  | succ n ih =>
    unfold Mux.settleLoop
    split
    · exact ⟨[], by simp, Once.refl e⟩
    · split
      · exact ⟨_, rfl, Once.drainStep _ _⟩
      · split
        · exact ⟨_, rfl, Once.closingStep _ _⟩
        · have hu := unpark_pend e
          split
          · rename_i w rest _ _
            have gp : Once [] e (Mux.recvOne (Mux.unpark e) w rest).1 (Mux.recvOne (Mux.unpark e) w rest).2.1 :=
              (Once.recvOne (Mux.unpark e) w rest).congr hu.symm rfl
            split
            · exact ⟨_, by rw [List.append_assoc], gp.trans (Once.windDown _ _ _)⟩
            · obtain ⟨evs, h1, h2⟩ := ih (Mux.recvOne (Mux.unpark e) w rest).1 (acc ++ (Mux.recvOne (Mux.unpark e) w rest).2.1)
              exact ⟨(Mux.recvOne (Mux.unpark e) w rest).2.1 ++ evs, by rw [h1, List.append_assoc], gp.trans h2⟩
          · split
            · exact ⟨_, rfl, (Once.windDown { Mux.unpark e with droppedq := _ } true .ok).congr hu.symm rfl⟩
            · rename_i fid rest _ hq
              have gc : Once [] e (Mux.closeFlow { Mux.unpark e with droppedq := rest } fid false).1
                  (Mux.closeFlow { Mux.unpark e with droppedq := rest } fid false).2 :=
                (Once.closeFlow { Mux.unpark e with droppedq := rest } fid false).congr hu.symm rfl
              obtain ⟨evs, h1, h2⟩ := ih (Mux.closeFlow { Mux.unpark e with droppedq := rest } fid false).1
                (acc ++ (Mux.closeFlow { Mux.unpark e with droppedq := rest } fid false).2)
              exact ⟨(Mux.closeFlow { Mux.unpark e with droppedq := rest } fid false).2 ++ evs, by rw [h1, List.append_assoc], gc.trans h2⟩
            · exact ⟨[], by simp, (Once.refl e).congr rfl hu⟩

/-! ### The open futures -/

theorem openRound_keeps_others (e : EP) (r : OpenReq) (x : Nat) (hx : x ≠ r.req) (h : x ∈ e.opens.map (·.req)) :
    x ∈ (openRound e r).1.opens.map (·.req) := by
  have hf : x ∈ (e.opens.filter (·.req ≠ r.req)).map (·.req) := by
    obtain ⟨y, hy, hyx⟩ := List.mem_map.mp h
    exact List.mem_map.mpr ⟨y, List.mem_filter.mpr ⟨hy, by simpa [hyx] using hx⟩, hyx⟩
  unfold Mux.openRound
  split
  · exact hf
  · split
    · exact hf
    · simp only
      split
      · exact hf
      · simp only [enqFrame_opens, List.map_cons]
        exact List.mem_cons_of_mem _ hf

theorem Once.runRetries (e : EP) (l : List Nat) : Once [] e (runRetries e l).1 (runRetries e l).2 := by
  induction l generalizing e with
  | nil => os
  | cons req rest ih =>
    unfold Mux.runRetries
    split
    · exact ih e
    · rename_i r hr
      have hm := List.mem_of_find?_eq_some hr
      have hin : r.req ∈ e.opens.map (·.req) := List.mem_map.mpr ⟨r, hm, rfl⟩
      exact (Once.openRound (new := []) e r (Or.inl hin)).trans (ih _)

theorem insertDone_perm (x : Nat × Nat) (l : List (Nat × Nat)) : List.Perm (insertDone x l) (x :: l) := by
  induction l with
  | nil => exact List.Perm.refl _
  | cons y ys ih =>
    unfold Mux.insertDone
    split
    · exact List.Perm.refl _
    · exact (List.Perm.cons y ih).trans (List.Perm.swap x y ys)

theorem sortDone_perm (l : List (Nat × Nat)) : List.Perm (l.foldr insertDone []) l := by
  induction l with
  | nil => exact List.Perm.refl _
  | cons x xs ih => exact (insertDone_perm x _).trans (List.Perm.cons x ih)

theorem runDone_pend (e : EP) (l : List (Nat × Nat)) : pend (runDone e l).1 = pend e := by
  induction l generalizing e with
  | nil => rfl
  | cons x rest ih =>
    obtain ⟨req, i⟩ := x
    unfold Mux.runDone
    exact (ih _).trans rfl

theorem runDone_done (e : EP) (l : List (Nat × Nat)) : doneReqs (runDone e l).2 = l.map (·.1) := by
  induction l generalizing e with
  | nil => rfl
  | cons x rest ih =>
    obtain ⟨req, i⟩ := x
    unfold Mux.runDone
    simp only [doneReqs, List.map_cons, ih]

/-- The answered futures return: every request in `doneq` is answered (once) and leaves. -/
theorem Once.runDoneAll (e : EP) :
    Once [] e (runDone { e with doneq := [] } (e.doneq.foldr insertDone [])).1
      (runDone { e with doneq := [] } (e.doneq.foldr insertDone [])).2 := by
  have hp : pend (Mux.runDone { e with doneq := [] } (e.doneq.foldr insertDone [])).1 = e.opens.map (·.req) := by
    rw [runDone_pend]; simp [pend]
  have hd : List.Perm (doneReqs (Mux.runDone { e with doneq := [] } (e.doneq.foldr insertDone [])).2) (e.doneq.map (·.1)) := by
    rw [runDone_done]; exact (sortDone_perm e.doneq).map _
  refine ⟨?_, ?_, ?_, ?_⟩
  · intro x hx; rw [hp] at hx; exact Or.inl (List.mem_append_left _ hx)
  · intro hn; rw [hp]; exact (List.nodup_append.mp (List.nodup_append.mp hn).1).1
  · intro hn x hx
    have hx' : x ∈ e.doneq.map (·.1) := hd.mem_iff.mp hx
    refine ⟨Or.inl (List.mem_append_right _ hx'), ?_⟩
    rw [hp]
    intro hc
    exact nodup_facts hn (Or.inl hc) hx'
  · intro hn
    exact hd.nodup_iff.mpr (List.nodup_append.mp (List.nodup_append.mp hn).1).2.1

theorem Once.hold (e : EP) (c : Bool) :
    Once [] e (if c then (e, ([] : List Ev)) else Mux.sendSome e).1 (if c then (e, ([] : List Ev)) else Mux.sendSome e).2 := by
  split
  · os
  · have g : Once [] e e (Mux.sendSome e).2 := Once.silent rfl rfl (sendSome_done e)
    exact g.congr rfl (sendSome_pend e)

theorem Once.settle (e : EP) : Once [] e (settle e).1 (settle e).2 := by
  obtain ⟨evs, h1, h2⟩ := Once.settleLoop (2 * e.inbox.length + e.droppedq.length + 2) e []
  unfold Mux.settle
  generalize Mux.settleLoop (2 * e.inbox.length + e.droppedq.length + 2) e [] = r1 at h1 h2
  obtain ⟨e1, evs1⟩ := r1
  simp only at h1 h2 ⊢
  simp only [List.nil_append] at h1
  subst h1
  have s1 := Once.hold e1 (e1.dead || e1.draining.isSome)
  generalize (if (e1.dead || e1.draining.isSome) = true then (e1, ([] : List Ev)) else Mux.sendSome e1) = r2 at s1
  obtain ⟨e2, w2⟩ := r2
  simp only at s1 ⊢
  have s2 := Once.runDoneAll e2
  generalize Mux.runDone { e2 with doneq := [] } (e2.doneq.foldr insertDone []) = r3 at s2
  obtain ⟨e3, w3⟩ := r3
  simp only at s2 ⊢
  have s3 : Once [] e3 (Mux.runRetries { e3 with retryq := [] } (sortNat e3.retryq)).1
      (Mux.runRetries { e3 with retryq := [] } (sortNat e3.retryq)).2 :=
    (Once.runRetries { e3 with retryq := [] } (sortNat e3.retryq)).congr rfl rfl
  generalize Mux.runRetries { e3 with retryq := [] } (sortNat e3.retryq) = r4 at s3
  obtain ⟨e4, w4⟩ := r4
  simp only at s3 ⊢
  have s4 := Once.hold e4 (e4.dead || e4.draining.isSome)
  exact ((((h2.trans s1).trans s2).trans s3).trans s4).evs (by simp [List.append_assoc])

/-! ### Application calls -/

macro "pe" : tactic =>
  `(tactic| first
    | rfl
    | exact pend_eq rfl rfl
    | exact pend_eq (by simp [EP.modObj]) (by simp [EP.modObj])
    | exact pend_eq (by simp) (by simp))

theorem ackStep_pend (e : EP) (i : Nat) (o : Obj) : pend (ackStep e i o) = pend e := by
  unfold Mux.ackStep; split <;> pe

theorem fillBuf_pend (fuel : Nat) (e : EP) (i : Nat) : pend (fillBuf fuel e i).1 = pend e := by
  induction fuel generalizing e with
  | zero => rfl
  | succ n ih =>
    unfold Mux.fillBuf
    split
    · rfl
    · split
      · rfl
      · split
        · simp only
          split
          · rw [ih, ackStep_pend]; pe
          · rw [ackStep_pend]; pe
        · split <;> pe

theorem appRead_pend (e : EP) (h n : Nat) : pend (appRead e h n).1 = pend e := by
  unfold Mux.appRead
  split
  · rfl
  · rename_i i o _
    have s := fillBuf_pend (o.rxq.length + 2) e i
    split
    · rename_i e' b heq
      rw [heq] at s
      exact (pend_eq (by simp [EP.modObj]) (by simp [EP.modObj]) : pend (e'.modObj i _) = pend e').trans s
    · exact s

theorem appWrite_pend (e : EP) (h : Nat) (d : Bytes) : pend (appWrite e h d).1 = pend e := by
  unfold Mux.appWrite; repeat' split
  all_goals pe

theorem appShutdown_pend (e : EP) (h : Nat) : pend (appShutdown e h).1 = pend e := by
  unfold Mux.appShutdown; repeat' split
  all_goals pe

theorem appDropStream_pend (e : EP) (h : Nat) : pend (appDropStream e h).1 = pend e := by
  unfold Mux.appDropStream
  split
  · rfl
  · simp only
    split <;> pe

theorem appAccept_pend (e : EP) : pend (appAccept e).1 = pend e := by
  unfold Mux.appAccept; repeat' split
  all_goals pe

theorem appSendDgram_pend (e : EP) (d : Dgram) : pend (appSendDgram e d).1 = pend e := by
  unfold Mux.appSendDgram; repeat' split
  all_goals pe

theorem appRecvDgram_pend (e : EP) : pend (appRecvDgram e).1 = pend e := by
  unfold Mux.appRecvDgram; repeat' split
  all_goals pe

theorem appBindNext_pend (e : EP) : pend (appBindNext e).1 = pend e := by
  unfold Mux.appBindNext; repeat' split
  all_goals pe

theorem appBindReply_pend (e : EP) (k : Nat) (a : Bool) : pend (appBindReply e k a).1 = pend e := by
  unfold Mux.appBindReply; repeat' split
  all_goals pe

theorem appBindDrop_pend (e : EP) (k : Nat) : pend (appBindDrop e k).1 = pend e := by
  unfold Mux.appBindDrop; repeat' split
  all_goals pe

theorem foldEnq_pend (l : List BindIn) (e : EP) :
    pend (l.foldl (fun e b => e.enqFrame (.reset b.fid)) e) = pend e := by
  induction l generalizing e with
  | nil => rfl
  | cons b rest ih => exact (ih _).trans (pend_eq (by simp) (by simp))

theorem appDropMux_pend (e : EP) : pend (appDropMux e).1 = pend e := by
  unfold Mux.appDropMux
  simp only
  exact (pend_eq rfl rfl : pend ({ (e.bindq.foldl (fun e b => e.enqFrame (.reset b.fid))
    { e with muxAlive := false, droppedq := if e.dead then e.droppedq else e.droppedq ++ [0] }) with acceptq := [], dgramq := [], bindq := [] } : EP) = _).trans
    ((foldEnq_pend _ _).trans rfl)

theorem appBindReq_once (e : EP) (req : Nat) (bt : BindType) (host : Bytes) (port : Nat) :
    Once [] e (appBindReq e req bt host port).1 (appBindReq e req bt host port).2 := by
  unfold Mux.appBindReq
  split
  · exact Once.silent rfl rfl (by simp [doneReqs])
  · split
    · exact Once.silent rfl rfl (by simp [doneReqs])
    · exact Once.silent (by simp) (by simp) rfl

/-- The requests a stimulus starts. -/
def newOf : Op → List Nat
  | .open req _ _ => [req]
  | _ => []

/-- Nothing happens (a request number that is still pending is not started again). -/
theorem Once.ignore (new : List Nat) (e : EP) : Once new e e [] :=
  ⟨fun _ h => Or.inl h, fun hn => (List.nodup_append.mp hn).1, fun _ x hx => (by cases hx), fun _ => List.nodup_nil⟩

theorem Once.weaken {e e' : EP} {evs : List Ev} (s : Once [] e e' evs) (new : List Nat) : Once new e e' evs :=
  ⟨fun x h => (s.sub x h).imp id (fun h => by cases h),
   fun hn => s.nd (by simpa using (List.nodup_append.mp hn).1),
   fun hn x hx => by
     obtain ⟨h1, h2⟩ := s.done (by simpa using (List.nodup_append.mp hn).1) x hx
     exact ⟨h1.imp id (fun h => by cases h), h2⟩,
   fun hn => s.dnd (by simpa using (List.nodup_append.mp hn).1)⟩

theorem Once.opStep (e : EP) (op : Op) : Once (newOf op) e (opStep e op).1 (opStep e op).2.2 := by
  cases op with
  | «open» req host port =>
    simp only [Mux.opStep, newOf]
    split
    · exact Once.ignore _ e
    · exact Once.openRound (new := [req]) e _ (Or.inr (by simp))
  | accept => exact ((Once.refl e).congr rfl (appAccept_pend e)).weaken _
  | write h d => exact ((Once.refl e).congr rfl (appWrite_pend e h d)).weaken _
  | read h n => exact ((Once.refl e).congr rfl (appRead_pend e h n)).weaken _
  | shutdown h => exact ((Once.refl e).congr rfl (appShutdown_pend e h)).weaken _
  | dropStream h => exact ((Once.refl e).congr rfl (appDropStream_pend e h)).weaken _
  | sendDgram d => exact ((Once.refl e).congr rfl (appSendDgram_pend e d)).weaken _
  | recvDgram => exact ((Once.refl e).congr rfl (appRecvDgram_pend e)).weaken _
  | bindReq req bt host port => exact (appBindReq_once e req bt host port).weaken _
  | bindNext => exact ((Once.refl e).congr rfl (appBindNext_pend e)).weaken _
  | bindReply k a => exact ((Once.refl e).congr rfl (appBindReply_pend e k a)).weaken _
  | bindDrop k => exact ((Once.refl e).congr rfl (appBindDrop_pend e k)).weaken _
  | dropMux => exact ((Once.refl e).congr rfl (appDropMux_pend e)).weaken _
  | sinkRoom n =>
    refine Once.weaken ?_ _
    exact Once.silent rfl rfl rfl
  | cancelOpen req => exact (Once.forget e req).weaken _
  | deliver w =>
    simp only [Mux.opStep]
    split
    · exact (Once.refl e).weaken _
    · split <;> (refine Once.weaken ?_ _; exact Once.silent rfl rfl rfl)

theorem Once.applyOp (e : EP) (op : Op) : Once (newOf op) e (applyOp e op).1 (applyOp e op).2.2 := by
  have h1 := Once.opStep e op
  unfold Mux.applyOp
  generalize Mux.opStep e op = r at h1
  obtain ⟨e1, r1, evs1⟩ := r
  exact h1.trans (Once.settle e1)

/-! ### Histories -/

/-- The endpoint after a sequence of stimuli, with all the events it emitted. -/
def runOpsEv (e : EP) : List Op → EP × List Ev
  | [] => (e, [])
  | op :: rest => ((runOpsEv (applyOp e op).1 rest).1, (applyOp e op).2.2 ++ (runOpsEv (applyOp e op).1 rest).2)

theorem runOpsEv_fst (e : EP) (ops : List Op) : (runOpsEv e ops).1 = runOps e ops := by
  induction ops generalizing e with
  | nil => rfl
  | cons op rest ih => simp only [runOpsEv, runOps, List.foldl_cons]; exact ih _

/-- The request numbers a history starts, in order. -/
def opensOf : List Op → List Nat
  | [] => []
  | op :: rest => newOf op ++ opensOf rest

/-- What is known between two stimuli: the pending requests are among the started ones, without
    repetition; the answered ones are started ones that are no longer pending, without repetition. -/
structure Hist (opened done : List Nat) (e : EP) : Prop where
  sub : ∀ r, r ∈ pend e → r ∈ opened
  nd : (pend e).Nodup
  dnd : done.Nodup
  dsub : ∀ r, r ∈ done → r ∈ opened ∧ r ∉ pend e

theorem newOf_nodup (op : Op) : (newOf op).Nodup := by
  cases op <;> simp [newOf]

theorem hist_step {opened done : List Nat} {e : EP} (h : Hist opened done e) (op : Op)
    (hfresh : (opened ++ newOf op).Nodup) :
    Hist (opened ++ newOf op) (done ++ doneReqs (applyOp e op).2.2) (applyOp e op).1 := by
  have s := Once.applyOp e op
  have hdisj : ∀ x, x ∈ opened → x ∈ newOf op → False := fun x h1 h2 =>
    (List.nodup_append.mp hfresh).2.2 x h1 x h2 rfl
  have hn : (pend e ++ newOf op).Nodup :=
    List.nodup_append.mpr ⟨h.nd, newOf_nodup op, fun x hx y hy hxy => hdisj x (h.sub x hx) (hxy ▸ hy)⟩
  refine ⟨?_, s.nd hn, ?_, ?_⟩
  · intro r hr
    rcases s.sub r hr with h1 | h1
    · exact List.mem_append_left _ (h.sub r h1)
    · exact List.mem_append_right _ h1
  · refine List.nodup_append.mpr ⟨h.dnd, s.dnd hn, ?_⟩
    intro x hx y hy hxy
    subst hxy
    rcases (s.done hn x hy).1 with h1 | h1
    · exact (h.dsub x hx).2 h1
    · exact hdisj x (h.dsub x hx).1 h1
  · intro r hr
    rcases List.mem_append.mp hr with h1 | h1
    · refine ⟨List.mem_append_left _ (h.dsub r h1).1, ?_⟩
      intro hc
      rcases s.sub r hc with h2 | h2
      · exact (h.dsub r h1).2 h2
      · exact hdisj r (h.dsub r h1).1 h2
    · obtain ⟨h2, h3⟩ := s.done hn r h1
      refine ⟨?_, h3⟩
      rcases h2 with h2 | h2
      · exact List.mem_append_left _ (h.sub r h2)
      · exact List.mem_append_right _ h2

theorem hist_run (ops : List Op) : ∀ (e : EP) (opened done : List Nat), Hist opened done e →
    (opened ++ opensOf ops).Nodup →
    (done ++ doneReqs (runOpsEv e ops).2).Nodup ∧ ∀ r, r ∈ done ++ doneReqs (runOpsEv e ops).2 → r ∈ opened ++ opensOf ops := by
  induction ops with
  | nil =>
    intro e opened done h _
    simp only [runOpsEv, doneReqs_nil, List.append_nil, opensOf]
    exact ⟨h.dnd, fun r hr => (h.dsub r hr).1⟩
  | cons op rest ih =>
    intro e opened done h hn
    simp only [opensOf, ← List.append_assoc] at hn
    have hfresh : (opened ++ newOf op).Nodup := (List.nodup_append.mp hn).1
    have h' := hist_step h op hfresh
    obtain ⟨i1, i2⟩ := ih _ _ _ h' hn
    simp only [runOpsEv, doneReqs_append, opensOf, ← List.append_assoc]
    exact ⟨i1, i2⟩

/-- Every open request is answered at most once, and only requests that were started are answered:
    for every history of stimuli (request numbers used once) and any peer. -/
theorem answered_at_most_once (o : Opts) (ops : List Op) (h : (opensOf ops).Nodup) :
    (doneReqs (runOpsEv { opts := o } ops).2).Nodup ∧
    ∀ r, r ∈ doneReqs (runOpsEv { opts := o } ops).2 → r ∈ opensOf ops := by
  have := hist_run ops { opts := o } [] [] ⟨by intro r hr; simp [pend] at hr, by simp [pend], List.nodup_nil, by intro r hr; cases hr⟩
    (by simpa using h)
  simpa using this

end Penguin.Mux
