/-
End-of-stream soundness for every history of one endpoint and ANY peer (C05).

A read reports end-of-stream exactly when the stream's channel sender is gone (`senderAlive = false`)
and nothing is queued.  This file says WHY a sender can be gone.  The reasons are made explicit as a
ghost that is computed from the history beside the state: `endsOf e ops` lists, in order, every event
`(i, c)` = "the receiving half of stream object `i` was closed for cause `c`" that happens while the
stimuli `ops` are applied to `e`.  The ghost follows the call structure of the model
(`processFrameEnds` beside `processFrame`, …, `settleLoopEnds` beside `settleLoop`) and records an
event at exactly these places:

 * `peerFinish x` – a `Finish` for id `x` is processed while object `i` holds the slot `x`;
 * `peerReset x`  – a `Reset` for id `x` is processed while object `i` holds the slot `x`;
 * `overrun x`    – a `Push` for id `x` arrives while `i` holds the slot and its queue is full;
 * `dropped x`    – a dropped-handle notification for id `x` is processed while `i` holds the slot
                    (the application dropped the stream, or it could not be handed over at all);
 * `connEnded r`  – the task finishes winding down with result `r` and drains the flow table.

`Tr e e' D` relates a state, a later state and the events recorded in between:
 * stream objects are never removed and a handle keeps denoting the same object (`len`, `hnd`),
   a closed half never reopens (`mono`),
 * every object whose sender is gone in `e'` had it gone in `e` already or has an event in `D`
   (`expl`: nothing else closes a receiving half – in particular no `Push` that fits the window,
   empty or not, no frame for another id, no `Datagram`, `Bind`, `Connect`, `Acknowledge`, `Ping`),
 * every event in `D` is real: the object exists in `e'`, its sender is gone, and, unless the cause
   is the peer's `Finish`, its write side is shut as well (`sound`).
`Tr` is shown for every function of the endpoint model, hence for every stimulus and every history.
Core Lean only.
-/
import Penguin.Lemmas.MuxReach

namespace Penguin.Mux

/-! ### The ghost -/

/-- Why the receiving half of a stream was closed. -/
inductive EndCause where
  | peerFinish (fid : Nat)
  | peerReset (fid : Nat)
  | overrun (fid : Nat)
  | dropped (fid : Nat)
  | connEnded (res : ExitRes)
deriving Repr, DecidableEq

/-- The cause is the peer's orderly shutdown (the only one that leaves the write side usable). -/
def EndCause.isFinish : EndCause → Bool
  | .peerFinish _ => true
  | _ => false

abbrev EndEv := Nat × EndCause

/-- The event recorded when slot `s` is closed for cause `c`: only an `Established` slot whose
    stream object exists has a receiving half. -/
def slotEnds (e : EP) (s : Slot) (c : EndCause) : List EndEv :=
  match s with
  | .established i => if i < e.objs.length then [(i, c)] else []
  | _ => []

/-- Beside `closeFlow`. -/
def closeFlowEnds (e : EP) (fid : Nat) (c : EndCause) : List EndEv :=
  match lookup e.flows fid with
  | some s => slotEnds e s c
  | none => []

/-- The `Push` overruns the window of the object that holds the slot: its sender and receiver
    exist and the queue is full (`TrySendError::Full`). -/
def overruns (e : EP) (fid : Nat) : Bool :=
  match lookup e.flows fid with
  | some (.established i) =>
    match e.obj? i with
    | some o => o.senderAlive && o.rxOpen && !(decide (o.rxq.length < o.cap))
    | none => false
  | _ => false

/-- Beside `processFrame`: only `Finish`, `Reset` and an overrunning `Push` close a receiving half,
    and only that of the object holding the frame's slot. -/
def processFrameEnds (e : EP) (f : Frame) : List EndEv :=
  match f with
  | .finish fid => closeFlowEnds e fid (.peerFinish fid)
  | .reset fid => closeFlowEnds e fid (.peerReset fid)
  | .push fid _ => if overruns e fid then closeFlowEnds e fid (.overrun fid) else []
  | _ => []

/-- Beside `processIn`. -/
def processInEnds (e : EP) (w : WsIn) : List EndEv :=
  match w with
  | .msg (.frame f) => processFrameEnds e f
  | _ => []

/-- Beside `drainFlows`. -/
def drainFlowsEnds (e : EP) (res : ExitRes) : List (Nat × Slot) → List EndEv
  | [] => []
  | (fid, s) :: rest => slotEnds e s (.connEnded res) ++ drainFlowsEnds (closeLocal e s fid true true).1 res rest

/-- Beside `windDownFinish`. -/
def windDownFinishEnds (e : EP) (res : ExitRes) : List EndEv := drainFlowsEnds { e with flows := [] } res e.flows

/-- Beside `windDownInbox`. -/
def windDownInboxEnds (e : EP) : List WsIn → List EndEv
  | [] => []
  | .err :: _ => []
  | .eof :: _ => []
  | w :: rest => processInEnds e w ++ windDownInboxEnds { (processIn e w true).1 with park := none } rest

/-- Beside `windDownTail`. -/
def windDownTailEnds (e1 : EP) (srcEnded : Bool) (res : ExitRes) : List EndEv :=
  windDownInboxEnds e1 e1.inbox ++
    if (windDownInbox e1 e1.inbox).2.2 || srcEnded || res != .ok then
      windDownFinishEnds { (windDownInbox e1 e1.inbox).1 with inbox := [] } res
    else []

/-- Beside `windDown`. -/
def windDownEnds (e : EP) (drain : Bool) (res : ExitRes) : List EndEv :=
  if drain then
    if (sendSome (dropPrep e)).1.outq.isEmpty then windDownTailEnds (sendSome (dropPrep e)).1 e.srcEnded res
    else []
  else windDownTailEnds (windDownPrep e) e.srcEnded res

/-- Beside `drainStep`. -/
def drainStepEnds (e : EP) (res : ExitRes) : List EndEv :=
  if (sendSome e).1.outq.isEmpty then windDownTailEnds { (sendSome e).1 with draining := none } e.srcEnded res
  else []

/-- Beside `closingStep`. -/
def closingStepEnds (e : EP) (res : ExitRes) : List EndEv :=
  windDownInboxEnds e e.inbox ++
    if (windDownInbox e e.inbox).2.2 then windDownFinishEnds { (windDownInbox e e.inbox).1 with inbox := [] } res
    else []

/-- Beside `recvOne`. -/
def recvOneEnds (e : EP) (w : WsIn) (rest : List WsIn) : List EndEv :=
  processInEnds { (if w = .eof ∨ w = .err then { e with srcEnded := true } else e) with inbox := rest } w

/-- The receive loop has an item to take (it is not parked and the inbox is not empty), or else. -/
def recvOrElse {α : Type} (p : Option Park) (l : List WsIn) (A : WsIn → List WsIn → α) (B : α) : α :=
  match p, l with
  | none, w :: rest => A w rest
  | _, _ => B

theorem recvOrElse_recv {α : Type} {p : Option Park} {l : List WsIn} {w : WsIn} {rest : List WsIn}
    (A : WsIn → List WsIn → α) (B : α) (hp : p = none) (hl : l = w :: rest) : recvOrElse p l A B = A w rest := by
  subst hp hl; rfl

theorem recvOrElse_else {α : Type} {p : Option Park} {l : List WsIn}
    (A : WsIn → List WsIn → α) (B : α) (h : ∀ w rest, p = none → l = w :: rest → False) : recvOrElse p l A B = B := by
  unfold recvOrElse
  split
  · exact (h _ _ rfl rfl).elim
  · rfl

/-- Beside `settleLoop`: the receive loop (one item, then on), else the notification loop (`0` = the
    `Multiplexor` was dropped: wind down; `fid` = a stream handle was dropped: close that flow). -/
def settleLoopEnds : Nat → EP → List EndEv
  | 0, _ => []
  | fuel + 1, e =>
    if e.dead then [] else
    match e.draining with
    | some res => drainStepEnds e res
    | none =>
    match e.closing with
    | some res => closingStepEnds e res
    | none =>
    recvOrElse (unpark e).park (unpark e).inbox
      (fun w rest =>
        recvOneEnds (unpark e) w rest ++
          match (recvOne (unpark e) w rest).2.2 with
          | some r => windDownEnds (recvOne (unpark e) w rest).1 false r
          | none => settleLoopEnds fuel (recvOne (unpark e) w rest).1)
      (match (unpark e).droppedq with
       | [] => []
       | fid :: rest =>
         if fid = 0 then windDownEnds { unpark e with droppedq := rest } true .ok
         else closeFlowEnds { unpark e with droppedq := rest } fid (.dropped fid) ++
           settleLoopEnds fuel (closeFlow { unpark e with droppedq := rest } fid false).1)

/-- Beside `settle` (what follows the task's loop in `settle` closes nothing). -/
def settleEnds (e : EP) : List EndEv := settleLoopEnds (2 * e.inbox.length + e.droppedq.length + 2) e

/-- Beside `applyOp` (the application call or delivery itself closes nothing). -/
def applyOpEnds (e : EP) (op : Op) : List EndEv := settleEnds (opStep e op).1

/-- Beside `runOps`: every closing of a receiving half during the history `ops`, in order. -/
def endsOf (e : EP) : List Op → List EndEv
  | [] => []
  | op :: rest => applyOpEnds e op ++ endsOf (applyOp e op).1 rest

/-- The ghost `endCause i`: the first recorded cause for stream object `i`. -/
def endCause (D : List EndEv) (i : Nat) : Option EndCause := (D.find? (fun p => p.1 == i)).map (·.2)

theorem endCause_isSome_of_mem {D : List EndEv} {i : Nat} {c : EndCause} (h : (i, c) ∈ D) :
    (endCause D i).isSome = true := by
  unfold endCause
  rw [Option.isSome_map, List.find?_isSome]
  exact ⟨(i, c), h, by simp⟩

theorem endCause_mem {D : List EndEv} {i : Nat} {c : EndCause} (h : endCause D i = some c) : (i, c) ∈ D := by
  unfold endCause at h
  cases hf : D.find? (fun p => p.1 == i) with
  | none => rw [hf] at h; cases h
  | some p =>
    rw [hf] at h
    simp only [Option.map_some, Option.some.injEq] at h
    have h1 := List.mem_of_find?_eq_some hf
    have h2 := List.find?_some hf
    simp only [beq_iff_eq] at h2
    obtain ⟨a, b⟩ := p
    simp only at h h2
    subst h; subst h2
    exact h1

/-! ### The relation -/

structure Tr (e e' : EP) (D : List EndEv) : Prop where
  len : e.objs.length ≤ e'.objs.length
  hnd : ∀ (h i : Nat), e.handles[h]? = some i → e'.handles[h]? = some i
  mono : ∀ (i : Nat) (o o' : Obj), e.objs[i]? = some o → e'.objs[i]? = some o' →
    (o.senderAlive = false → o'.senderAlive = false) ∧ (o.finishSent = true → o'.finishSent = true)
  expl : ∀ (i : Nat) (o' : Obj), e'.objs[i]? = some o' → o'.senderAlive = false →
    (∃ o, e.objs[i]? = some o ∧ o.senderAlive = false) ∨ ∃ c, (i, c) ∈ D
  sound : ∀ (i : Nat) (c : EndCause), (i, c) ∈ D →
    ∃ o', e'.objs[i]? = some o' ∧ o'.senderAlive = false ∧ (c.isFinish = false → o'.finishSent = true)

/-- Same stream objects; the handles held so far are still held. -/
theorem Tr.grow {e e' : EP} (h : e'.objs = e.objs)
    (hh : ∀ (k i : Nat), e.handles[k]? = some i → e'.handles[k]? = some i) : Tr e e' [] :=
  ⟨by rw [h]; exact Nat.le_refl _, hh,
   by intro i o o' h1 h2; rw [h, h1] at h2; cases h2; exact ⟨id, id⟩,
   by intro i o' h1 h2; rw [h] at h1; exact Or.inl ⟨o', h1, h2⟩,
   by intro i c hm; cases hm⟩

theorem Tr.same {e e' : EP} (h : e'.objs = e.objs) (hh : e'.handles = e.handles) : Tr e e' [] :=
  Tr.grow h (by rw [hh]; exact fun _ _ x => x)

theorem Tr.refl (e : EP) : Tr e e [] := Tr.same rfl rfl

theorem Tr.trans {a b d : EP} {D1 D2 : List EndEv} (s : Tr a b D1) (t : Tr b d D2) : Tr a d (D1 ++ D2) := by
  refine ⟨Nat.le_trans s.len t.len, fun h i x => t.hnd h i (s.hnd h i x), ?_, ?_, ?_⟩
  · intro i o o'' h1 h3
    have hlt : i < b.objs.length := Nat.lt_of_lt_of_le (List.getElem?_eq_some_iff.mp h1).1 s.len
    obtain ⟨o', h2⟩ : ∃ o', b.objs[i]? = some o' := ⟨b.objs[i], List.getElem?_eq_getElem hlt⟩
    have m1 := s.mono i o o' h1 h2
    have m2 := t.mono i o' o'' h2 h3
    exact ⟨fun h => m2.1 (m1.1 h), fun h => m2.2 (m1.2 h)⟩
  · intro i o'' h3 hs
    rcases t.expl i o'' h3 hs with ⟨o', h2, hs'⟩ | ⟨c, hc⟩
    · rcases s.expl i o' h2 hs' with h | ⟨c, hc⟩
      · exact Or.inl h
      · exact Or.inr ⟨c, List.mem_append_left _ hc⟩
    · exact Or.inr ⟨c, List.mem_append_right _ hc⟩
  · intro i c hm
    rcases List.mem_append.mp hm with hm | hm
    · obtain ⟨o', h2, hs, hf⟩ := s.sound i c hm
      have hlt : i < d.objs.length := Nat.lt_of_lt_of_le (List.getElem?_eq_some_iff.mp h2).1 t.len
      obtain ⟨o'', h3⟩ : ∃ o'', d.objs[i]? = some o'' := ⟨d.objs[i], List.getElem?_eq_getElem hlt⟩
      have m := t.mono i o' o'' h2 h3
      exact ⟨o'', h3, m.1 hs, fun hc => m.2 (hf hc)⟩
    · exact t.sound i c hm

theorem Tr.cast {a b : EP} {D D' : List EndEv} (s : Tr a b D) (h : D = D') : Tr a b D' := h ▸ s

/-- A step that records nothing, then `t`. -/
theorem Tr.after0 {a b c : EP} {D : List EndEv} (t : Tr b c D) (s : Tr a b []) : Tr a c D := s.trans t
/-- `s`, then a step that records nothing. -/
theorem Tr.then0 {a b c : EP} {D : List EndEv} (s : Tr a b D) (t : Tr b c []) : Tr a c D :=
  (s.trans t).cast (List.append_nil D)

/-! ### Building blocks -/

/-- An object update that closes nothing and reopens nothing. -/
theorem Tr.modObj (e : EP) (i : Nat) (f : Obj → Obj)
    (hf : ∀ o, e.objs[i]? = some o →
      (f o).senderAlive = o.senderAlive ∧ (o.finishSent = true → (f o).finishSent = true)) :
    Tr e (e.modObj i f) [] := by
  refine ⟨by simp, fun _ _ x => x, ?_, ?_, by intro j c hm; cases hm⟩
  · intro j o o' h1 h2
    by_cases hj : j = i
    · subst hj
      rw [modObj_get_self, h1] at h2
      simp only [Option.map_some, Option.some.injEq] at h2
      subst h2
      have := hf o h1
      exact ⟨fun h => by rw [this.1]; exact h, this.2⟩
    · rw [modObj_get_ne _ _ _ _ hj, h1] at h2; cases h2; exact ⟨id, id⟩
  · intro j o' h2 hs
    by_cases hj : j = i
    · subst hj
      rw [modObj_get_self] at h2
      cases ho : e.objs[j]? with
      | none => rw [ho] at h2; cases h2
      | some o =>
        rw [ho] at h2
        simp only [Option.map_some, Option.some.injEq] at h2
        subst h2
        exact Or.inl ⟨o, rfl, by rw [← (hf o ho).1]; exact hs⟩
    · rw [modObj_get_ne _ _ _ _ hj] at h2; exact Or.inl ⟨o', h2, hs⟩

/-- Side condition of `Tr.modObj` for an update that touches neither flag. -/
macro "trw" : tactic => `(tactic| (intro o _; exact ⟨rfl, id⟩))
/-- … for `wake` / `disallow_write`. -/
macro "trd" : tactic =>
  `(tactic| (intro o _; simp only [Obj.disallowWrite, Obj.wake]; split <;> simp))

/-- An object update that closes the receiving half of object `i` for cause `c`. -/
theorem Tr.modObjClose (e : EP) (i : Nat) (f : Obj → Obj) (c : EndCause) (hi : i < e.objs.length)
    (hf : ∀ o, e.objs[i]? = some o → (f o).senderAlive = false ∧
      (o.finishSent = true → (f o).finishSent = true) ∧ (c.isFinish = false → (f o).finishSent = true)) :
    Tr e (e.modObj i f) [(i, c)] := by
  refine ⟨by simp, fun _ _ x => x, ?_, ?_, ?_⟩
  · intro j o o' h1 h2
    by_cases hj : j = i
    · subst hj
      rw [modObj_get_self, h1] at h2
      simp only [Option.map_some, Option.some.injEq] at h2
      subst h2
      have := hf o h1
      exact ⟨fun _ => this.1, this.2.1⟩
    · rw [modObj_get_ne _ _ _ _ hj, h1] at h2; cases h2; exact ⟨id, id⟩
  · intro j o' h2 hs
    by_cases hj : j = i
    · subst hj; exact Or.inr ⟨c, by simp⟩
    · rw [modObj_get_ne _ _ _ _ hj] at h2; exact Or.inl ⟨o', h2, hs⟩
  · intro j c' hm
    simp only [List.mem_singleton, Prod.mk.injEq] at hm
    obtain ⟨rfl, rfl⟩ := hm
    have ho : e.objs[j]? = some e.objs[j] := List.getElem?_eq_getElem hi
    have := hf _ ho
    exact ⟨f e.objs[j], by rw [modObj_get_self, ho]; rfl, this.1, this.2.2⟩

theorem enq_handles_eof (e : EP) (m : Msg) : (e.enq m).handles = e.handles := by
  unfold EP.enq; split <;> rfl

theorem Tr.enq (e : EP) (m : Msg) : Tr e (e.enq m) [] := Tr.same (by simp) (enq_handles_eof e m)
theorem Tr.enqFrame (e : EP) (f : Frame) : Tr e (e.enqFrame f) [] := Tr.enq e _

/-- A new stream object (its sender exists). -/
theorem Tr.addObj {e e' : EP} (o : Obj) (ho : o.senderAlive = true) (h : e'.objs = e.objs ++ [o])
    (hh : e'.handles = e.handles) : Tr e e' [] := by
  refine ⟨by rw [h]; simp, by rw [hh]; exact fun _ _ x => x, ?_, ?_, by intro j c hm; cases hm⟩
  · intro j o1 o2 h1 h2
    have hlt := (List.getElem?_eq_some_iff.mp h1).1
    rw [h, List.getElem?_append_left hlt, h1] at h2; cases h2; exact ⟨id, id⟩
  · intro j o2 h2 hs
    rw [h] at h2
    by_cases hlt : j < e.objs.length
    · rw [List.getElem?_append_left hlt] at h2; exact Or.inl ⟨o2, h2, hs⟩
    · have hlen : j < (e.objs ++ [o]).length := (List.getElem?_eq_some_iff.mp h2).1
      have : j = e.objs.length := by simp at hlen; omega
      subst this
      simp at h2; subst h2; rw [ho] at hs; cases hs

/-! ### Function by function -/

theorem openRound_handles (e : EP) (r : OpenReq) : (openRound e r).1.handles = e.handles := by
  unfold Mux.openRound
  split
  · rfl
  · split
    · rfl
    · simp only
      split
      · rfl
      · exact enq_handles_eof _ _

theorem openRejected_handles (e : EP) (req : Nat) (final : Bool) : (openRejected e req final).1.handles = e.handles := by
  unfold Mux.openRejected
  repeat' split
  all_goals rfl

theorem Tr.openRound (e : EP) (r : OpenReq) : Tr e (openRound e r).1 [] :=
  Tr.same (openRound_objs e r) (openRound_handles e r)

theorem Tr.openRejected (e : EP) (req : Nat) (final : Bool) : Tr e (openRejected e req final).1 [] :=
  Tr.same (openRejected_objs e req final) (openRejected_handles e req final)

theorem slotEnds_congr {e e' : EP} (h : e'.objs = e.objs) (s : Slot) (c : EndCause) : slotEnds e' s c = slotEnds e s c := by
  unfold slotEnds; rw [h]

theorem Tr.closeLocal (e : EP) (s : Slot) (fid : Nat) (inh final : Bool) (c : EndCause) :
    Tr e (Mux.closeLocal e s fid inh final).1 (slotEnds e s c) := by
  unfold Mux.closeLocal slotEnds
  cases s with
  | established i =>
    simp only
    cases ho : e.obj? i with
    | none =>
      have hn : ¬ i < e.objs.length := by
        intro hlt; unfold EP.obj? at ho; rw [List.getElem?_eq_getElem hlt] at ho; cases ho
      simp only [hn, if_false]; exact Tr.refl e
    | some o =>
      have hlt : i < e.objs.length := by unfold EP.obj? at ho; exact (List.getElem?_eq_some_iff.mp ho).1
      simp only [hlt, if_true]
      have g := Tr.modObjClose e i (fun o => { o.disallowWrite with senderAlive := false }) c hlt
        (by intro o _; exact ⟨rfl, fun _ => rfl, fun _ => rfl⟩)
      split
      · exact g.then0 (Tr.enqFrame _ _)
      · exact g
  | requested req => exact Tr.openRejected e req final
  | bindRequested req => exact Tr.refl e

theorem Tr.closeFlow (e : EP) (fid : Nat) (inh : Bool) (c : EndCause) :
    Tr e (closeFlow e fid inh).1 (closeFlowEnds e fid c) := by
  unfold Mux.closeFlow closeFlowEnds
  cases hl : lookup e.flows fid with
  | none => exact Tr.refl e
  | some s =>
    simp only
    have g := Tr.closeLocal { e with flows := erase e.flows fid } s fid inh false c
    exact Tr.after0 g (Tr.same rfl rfl)

theorem Tr.offerAccept (e : EP) (i : Nat) : Tr e (offerAccept e i) [] :=
  Tr.same (offerAccept_objs e i) (by unfold Mux.offerAccept; split <;> rfl)
theorem Tr.offerBind (e : EP) (b : BindIn) : Tr e (offerBind e b) [] :=
  Tr.same (offerBind_objs e b) (by unfold Mux.offerBind; split <;> rfl)

theorem overruns_spec {e : EP} {fid : Nat} (h : overruns e fid = true) :
    ∃ i o, lookup e.flows fid = some (.established i) ∧ e.objs[i]? = some o ∧ o.senderAlive = true ∧
      o.rxOpen = true ∧ ¬ o.rxq.length < o.cap := by
  unfold overruns at h
  split at h
  · rename_i i hl
    split at h
    · rename_i o ho
      simp only [Bool.and_eq_true, Bool.not_eq_true', decide_eq_false_iff_not] at h
      exact ⟨i, o, hl, ho, h.1.1, h.1.2, h.2⟩
    · cases h
  · cases h

theorem Tr.processFrame (e : EP) (f : Frame) (ig : Bool) : Tr e (processFrame e f ig).1 (processFrameEnds e f) := by
  cases f with
  | connect fid rwnd port host =>
    simp only [Mux.processFrame, processFrameEnds]
    split
    · exact Tr.enqFrame _ _
    · have g : Tr e { e with objs := e.objs ++ [Mux.newObj e.opts fid rwnd host port],
                             flows := insert e.flows fid (.established e.objs.length) } [] :=
        Tr.addObj (Mux.newObj e.opts fid rwnd host port) rfl rfl rfl
      split
      · exact g
      · split
        · exact ((g.then0 (Tr.enqFrame _ (.acknowledge fid e.opts.rwnd))).then0
            (Tr.modObj _ e.objs.length (fun o => { o with rxOpen := false }) (by trw))).then0 (Tr.same rfl rfl)
        · exact Tr.after0 (Tr.offerAccept _ _) (Tr.after0 (Tr.enqFrame _ _) g)
  | acknowledge fid n =>
    simp only [Mux.processFrame, processFrameEnds]
    split
    · exact Tr.modObj _ _ _ (by trd)
    · have g : Tr e { e with objs := e.objs ++ [Mux.newObj e.opts fid n [] 0],
                             flows := insert e.flows fid (.established e.objs.length) } [] :=
        Tr.addObj (Mux.newObj e.opts fid n [] 0) rfl rfl rfl
      split
      · exact g.then0 (Tr.same rfl rfl)
      · exact (g.then0 (Tr.modObj _ e.objs.length (fun o => { o with rxOpen := false }) (by trw))).then0 (Tr.same rfl rfl)
    · exact Tr.enqFrame _ _
    · exact Tr.enqFrame _ _
  | finish fid =>
    simp only [Mux.processFrame, processFrameEnds, closeFlowEnds]
    cases hl : lookup e.flows fid with
    | none => exact Tr.enqFrame _ _
    | some s =>
      cases s with
      | bindRequested req => exact Tr.same rfl rfl
      | requested req => exact Tr.after0 (Tr.enqFrame _ _) (Tr.same rfl rfl)
      | established i =>
        simp only [slotEnds]
        split
        · rename_i hlt
          exact Tr.modObjClose e i _ _ hlt (by intro o _; exact ⟨rfl, id, fun h => by cases h⟩)
        · rename_i hn
          refine Tr.same ?_ rfl
          simp [EP.modObj, setObj, List.modify_eq_self (Nat.le_of_not_lt hn)]
  | reset fid =>
    simp only [Mux.processFrame, processFrameEnds]
    exact Tr.closeFlow e fid true _
  | push fid d =>
    simp only [Mux.processFrame, processFrameEnds]
    cases hov : overruns e fid with
    | true =>
      obtain ⟨i, o, hl, ho, hsa, hro, hfull⟩ := overruns_spec hov
      have ho' : e.obj? i = some o := ho
      simp only [hl, ho', hsa, hro, hfull, if_true, if_false, Bool.not_true, Bool.false_eq_true]
      exact Tr.closeFlow e fid false _
    | false =>
      simp only [Bool.false_eq_true, if_false]
      split
      · rename_i i hl
        split
        · exact Tr.refl e
        · rename_i o ho
          split
          · exact Tr.enqFrame _ _
          · split
            · exact Tr.refl e
            · split
              · exact Tr.modObj _ _ _ (by trw)
              · rename_i h1 h2 h3
                exfalso
                unfold overruns at hov
                simp only [hl, ho] at hov
                simp_all
                omega
      · exact Tr.enqFrame _ _
  | bind fid bt port host =>
    simp only [Mux.processFrame, processFrameEnds]
    repeat' split
    all_goals first | exact Tr.refl e | exact Tr.enqFrame _ _ | exact Tr.offerBind _ _
  | datagram fid port host d =>
    simp only [Mux.processFrame, processFrameEnds]
    repeat' split
    all_goals first | exact Tr.refl e | exact Tr.same rfl rfl

theorem Tr.processIn (e : EP) (w : WsIn) (ig : Bool) : Tr e (processIn e w ig).1 (processInEnds e w) := by
  cases w with
  | msg m => cases m <;> first | exact Tr.processFrame _ _ ig | exact Tr.refl e
  | bad b => exact Tr.refl e
  | err => exact Tr.refl e
  | eof => exact Tr.refl e

/-! ### Wind-down -/

theorem Tr.disallowAll (e : EP) (l : List (Nat × Slot)) : Tr e (disallowAll e l) [] := by
  induction l generalizing e with
  | nil => exact Tr.refl e
  | cons p l ih =>
    obtain ⟨fid, s⟩ := p
    cases s with
    | established i =>
      simp only [Mux.disallowAll]
      exact (Tr.modObj e i _ (by trd)).then0 (ih _)
    | requested r => simp only [Mux.disallowAll]; exact ih e
    | bindRequested r => simp only [Mux.disallowAll]; exact ih e

theorem Tr.windDownInbox (e : EP) (l : List WsIn) : Tr e (windDownInbox e l).1 (windDownInboxEnds e l) := by
  induction l generalizing e with
  | nil => exact Tr.refl e
  | cons w l ih =>
    cases w with
    | err => exact Tr.refl e
    | eof => exact Tr.refl e
    | msg m =>
      simp only [Mux.windDownInbox, windDownInboxEnds]
      exact ((Tr.processIn e (.msg m) true).then0 (Tr.same rfl rfl :
        Tr (Mux.processIn e (.msg m) true).1 { (Mux.processIn e (.msg m) true).1 with park := none } [])).trans (ih _)
    | bad b =>
      simp only [Mux.windDownInbox, windDownInboxEnds]
      exact ((Tr.processIn e (.bad b) true).then0 (Tr.same rfl rfl :
        Tr (Mux.processIn e (.bad b) true).1 { (Mux.processIn e (.bad b) true).1 with park := none } [])).trans (ih _)

theorem Tr.drainFlows (e : EP) (res : ExitRes) (l : List (Nat × Slot)) :
    Tr e (drainFlows e l).1 (drainFlowsEnds e res l) := by
  induction l generalizing e with
  | nil => exact Tr.refl e
  | cons p l ih =>
    obtain ⟨fid, s⟩ := p
    simp only [Mux.drainFlows, drainFlowsEnds]
    exact (Tr.closeLocal e s fid true true (.connEnded res)).trans (ih _)

theorem Tr.windDownFinish (e : EP) (res : ExitRes) : Tr e (windDownFinish e res).1 (windDownFinishEnds e res) := by
  have g0 : Tr e { e with flows := [] } [] := Tr.same rfl rfl
  have g1 := Tr.after0 (Tr.drainFlows { e with flows := [] } res e.flows) g0
  simp only [Mux.windDownFinish, windDownFinishEnds]
  exact g1.then0 (Tr.same rfl rfl)

theorem Tr.windDownTail (e1 : EP) (flushed : List Ev) (srcEnded : Bool) (res : ExitRes) :
    Tr e1 (windDownTail e1 flushed srcEnded res).1 (windDownTailEnds e1 srcEnded res) := by
  have g := (Tr.windDownInbox e1 e1.inbox).then0
    (Tr.same rfl rfl : Tr (Mux.windDownInbox e1 e1.inbox).1 { (Mux.windDownInbox e1 e1.inbox).1 with inbox := [] } [])
  simp only [Mux.windDownTail, windDownTailEnds]
  split
  · exact g.trans (Tr.windDownFinish _ res)
  · refine Tr.cast ?_ (List.append_nil _).symm
    exact g.then0 (Tr.same rfl rfl)

theorem Tr.sendSome (e : EP) : Tr e (sendSome e).1 [] := by
  unfold Mux.sendSome
  split <;> exact Tr.same rfl rfl

theorem Tr.dropPrep (e : EP) : Tr e (dropPrep e) [] := (Tr.disallowAll e e.flows).then0 (Tr.same rfl rfl)
theorem Tr.windDownPrep (e : EP) : Tr e (windDownPrep e) [] := (Tr.disallowAll e e.flows).then0 (Tr.same rfl rfl)

theorem Tr.windDown (e : EP) (drain : Bool) (res : ExitRes) :
    Tr e (windDown e drain res).1 (windDownEnds e drain res) := by
  simp only [Mux.windDown, windDownEnds]
  split
  · have g := (Tr.dropPrep e).then0 (Tr.sendSome _)
    split
    · exact Tr.after0 (Tr.windDownTail _ _ _ _) g
    · exact g.then0 (Tr.same rfl rfl)
  · exact Tr.after0 (Tr.windDownTail _ _ _ _) (Tr.windDownPrep e)

/-! ### The task's loops -/

theorem Tr.unpark (e : EP) : Tr e (unpark e) [] := by
  unfold Mux.unpark
  split
  · exact Tr.refl e
  · split
    · split
      · exact (Tr.modObj e _ (fun o => { o with rxOpen := false }) (by trw)).then0 (Tr.same rfl rfl)
      · exact Tr.same rfl rfl
    · split
      · exact Tr.same rfl rfl
      · exact Tr.refl e
  · split
    · exact (Tr.same rfl rfl : Tr e { e with park := none } []).then0 (Tr.enqFrame _ _)
    · split
      · exact Tr.same rfl rfl
      · exact Tr.refl e

theorem Tr.drainStep (e : EP) (res : ExitRes) : Tr e (drainStep e res).1 (drainStepEnds e res) := by
  simp only [Mux.drainStep, drainStepEnds]
  split
  · exact Tr.after0 (Tr.windDownTail _ _ _ _) ((Tr.sendSome e).then0 (Tr.same rfl rfl))
  · exact Tr.sendSome e

theorem Tr.closingStep (e : EP) (res : ExitRes) : Tr e (closingStep e res).1 (closingStepEnds e res) := by
  have g := (Tr.windDownInbox e e.inbox).then0
    (Tr.same rfl rfl : Tr (Mux.windDownInbox e e.inbox).1 { (Mux.windDownInbox e e.inbox).1 with inbox := [] } [])
  simp only [Mux.closingStep, closingStepEnds]
  split
  · exact g.trans (Tr.windDownFinish _ res)
  · exact g.cast (List.append_nil _).symm

theorem Tr.recvOne (e : EP) (w : WsIn) (rest : List WsIn) : Tr e (recvOne e w rest).1 (recvOneEnds e w rest) := by
  simp only [Mux.recvOne, recvOneEnds]
  refine Tr.after0 (Tr.processIn _ _ _) ?_
  split <;> exact Tr.same rfl rfl

theorem Tr.settleLoop (fuel : Nat) (e : EP) (acc : List Ev) :
    Tr e (settleLoop fuel e acc).1 (settleLoopEnds fuel e) := by
  induction fuel generalizing e acc with
  | zero => exact Tr.refl e
  | succ n ih =>
    unfold Mux.settleLoop settleLoopEnds
    split
    · exact Tr.refl e
    · split
      · rename_i res hdr
        simp only [hdr]
        exact Tr.drainStep _ _
      · rename_i hdr
        simp only [hdr]
        split
        · rename_i res hcl
          simp only [hcl]
          exact Tr.closingStep _ _
        · rename_i hcl
          simp only [hcl]
          have gu := Tr.unpark e
          split
          · rename_i w rest hp hi
            rw [recvOrElse_recv _ _ hp hi]
            have gp := Tr.after0 (Tr.recvOne (Mux.unpark e) w rest) gu
            split
            · rename_i r hr
              simp only [hr]
              exact gp.trans (Tr.windDown _ _ _)
            · rename_i hr
              simp only [hr]
              exact gp.trans (ih _ _)
          · rename_i hne
            rw [recvOrElse_else _ _ hne]
            split
            · rename_i rest hq
              simp only [hq, if_true]
              have gq : Tr e { Mux.unpark e with droppedq := rest } [] := gu.then0 (Tr.same rfl rfl)
              exact Tr.after0 (Tr.windDown _ _ _) gq
            · rename_i fid rest hz hq
              have hz' : ¬ fid = 0 := hz
              simp only [hq, hz', if_false]
              have gq : Tr e { Mux.unpark e with droppedq := rest } [] := gu.then0 (Tr.same rfl rfl)
              exact (Tr.after0 (Tr.closeFlow _ fid false (.dropped fid)) gq).trans (ih _ _)
            · rename_i hq
              simp only [hq]
              exact gu

theorem Tr.runRetries (e : EP) (l : List Nat) : Tr e (runRetries e l).1 [] := by
  induction l generalizing e with
  | nil => exact Tr.refl e
  | cons req rest ih =>
    unfold Mux.runRetries
    split
    · exact ih e
    · rename_i r _
      exact (Tr.openRound e r).then0 (ih _)

theorem Tr.runDone (e : EP) (l : List (Nat × Nat)) : Tr e (runDone e l).1 [] := by
  induction l generalizing e with
  | nil => exact Tr.refl e
  | cons x rest ih =>
    obtain ⟨req, i⟩ := x
    unfold Mux.runDone
    have g : Tr e { e with handles := e.handles ++ [i] } [] := by
      refine Tr.grow rfl ?_
      intro k j hk
      show (e.handles ++ [i])[k]? = some j
      rw [List.getElem?_append_left (List.getElem?_eq_some_iff.mp hk).1]; exact hk
    exact g.then0 (ih _)

theorem Tr.hold (e : EP) (c : Bool) : Tr e (if c then (e, ([] : List Ev)) else Mux.sendSome e).1 [] := by
  split
  · exact Tr.refl e
  · exact Tr.sendSome e

/-- What follows the task's loop in `settle` closes nothing. -/
theorem Tr.settle (e : EP) : Tr e (settle e).1 (settleEnds e) := by
  have h1 := Tr.settleLoop (2 * e.inbox.length + e.droppedq.length + 2) e []
  unfold Mux.settle settleEnds
  generalize Mux.settleLoop (2 * e.inbox.length + e.droppedq.length + 2) e [] = r1 at h1
  obtain ⟨e1, evs1⟩ := r1
  simp only
  have s1 := Tr.hold e1 (e1.dead || e1.draining.isSome)
  generalize (if (e1.dead || e1.draining.isSome) = true then (e1, ([] : List Ev)) else Mux.sendSome e1) = r2 at s1
  obtain ⟨e2, w2⟩ := r2
  simp only at s1 ⊢
  have s2 : Tr e2 (Mux.runDone { e2 with doneq := [] } (e2.doneq.foldr insertDone [])).1 [] :=
    (Tr.same rfl rfl : Tr e2 { e2 with doneq := [] } []).then0 (Tr.runDone _ _)
  generalize Mux.runDone { e2 with doneq := [] } (e2.doneq.foldr insertDone []) = r3 at s2
  obtain ⟨e3, w3⟩ := r3
  simp only at s2 ⊢
  have s3 : Tr e3 (Mux.runRetries { e3 with retryq := [] } (sortNat e3.retryq)).1 [] :=
    (Tr.same rfl rfl : Tr e3 { e3 with retryq := [] } []).then0 (Tr.runRetries _ _)
  generalize Mux.runRetries { e3 with retryq := [] } (sortNat e3.retryq) = r4 at s3
  obtain ⟨e4, w4⟩ := r4
  simp only at s3 ⊢
  have s4 := Tr.hold e4 (e4.dead || e4.draining.isSome)
  exact h1.then0 (((s1.then0 s2).then0 s3).then0 s4)

/-! ### Application calls: none of them closes a receiving half -/

theorem Tr.appWrite (e : EP) (h : Nat) (d : Bytes) : Tr e (appWrite e h d).1 [] := by
  unfold Mux.appWrite
  split
  · exact Tr.refl e
  · split
    · exact Tr.modObj e _ _ (by trw)
    · split
      · exact Tr.modObj e _ _ (by trw)
      · split
        · exact Tr.modObj e _ _ (by trw)
        · split
          · exact Tr.modObj e _ _ (by trw)
          · exact (Tr.modObj e _ _ (by trw)).then0 (Tr.enqFrame _ _)

theorem Tr.ackStep (e : EP) (i : Nat) (o : Obj) : Tr e (ackStep e i o) [] := by
  unfold Mux.ackStep
  split
  · exact (Tr.modObj e _ _ (by trw)).then0 (Tr.enqFrame _ _)
  · exact Tr.modObj e _ _ (by trw)

theorem Tr.fillBuf (fuel : Nat) (e : EP) (i : Nat) : Tr e (fillBuf fuel e i).1 [] := by
  induction fuel generalizing e with
  | zero => exact Tr.refl e
  | succ n ih =>
    unfold Mux.fillBuf
    split
    · exact Tr.refl e
    · split
      · exact Tr.refl e
      · split
        · rename_i _ o ho _ _ f rest hq
          have s := (Tr.modObj e i (fun o => { o with rxq := rest, buf := f }) (by trw)).then0
            (Tr.ackStep _ i { o with rxq := rest, buf := f })
          simp only
          split
          · exact s.then0 (ih _)
          · exact s
        · split
          · exact Tr.refl e
          · exact Tr.modObj e _ _ (by trw)

theorem Tr.appRead (e : EP) (h n : Nat) : Tr e (appRead e h n).1 [] := by
  unfold Mux.appRead
  split
  · exact Tr.refl e
  · rename_i i o _
    have s := Tr.fillBuf (o.rxq.length + 2) e i
    split
    · rename_i e' b heq
      rw [heq] at s
      exact s.then0 (Tr.modObj _ _ _ (by trw))
    · exact s

theorem Tr.appShutdown (e : EP) (h : Nat) : Tr e (appShutdown e h).1 [] := by
  unfold Mux.appShutdown
  split
  · exact Tr.refl e
  · split
    · exact Tr.modObj e _ _ (by trw)
    · exact (Tr.modObj e _ _ (by intro o _; exact ⟨rfl, fun _ => rfl⟩)).then0 (Tr.enqFrame _ _)

theorem Tr.appDropStream (e : EP) (h : Nat) : Tr e (appDropStream e h).1 [] := by
  unfold Mux.appDropStream
  split
  · exact Tr.refl e
  · simp only
    split
    · exact Tr.modObj e _ _ (by trw)
    · exact (Tr.modObj e _ (fun o => { o with rxOpen := false, rxq := [], parked := false }) (by trw)).then0
        (Tr.same rfl rfl)

theorem Tr.appAccept (e : EP) : Tr e (appAccept e).1 [] := by
  unfold Mux.appAccept
  split
  · rename_i i rest _
    split
    · refine Tr.grow rfl ?_
      intro k j hk
      show (e.handles ++ [i])[k]? = some j
      rw [List.getElem?_append_left (List.getElem?_eq_some_iff.mp hk).1]; exact hk
    · exact Tr.refl e
  · split <;> exact Tr.refl e

theorem Tr.appSendDgram (e : EP) (d : Dgram) : Tr e (appSendDgram e d).1 [] := by
  unfold Mux.appSendDgram
  repeat' split
  all_goals first | exact Tr.refl e | exact Tr.enqFrame _ _

theorem Tr.appRecvDgram (e : EP) : Tr e (appRecvDgram e).1 [] := by
  unfold Mux.appRecvDgram
  repeat' split
  all_goals first | exact Tr.refl e | exact Tr.same rfl rfl

theorem Tr.appBindReq (e : EP) (req : Nat) (bt : BindType) (host : Bytes) (port : Nat) :
    Tr e (appBindReq e req bt host port).1 [] := by
  unfold Mux.appBindReq
  split
  · exact Tr.refl e
  · rename_i fid rng' fb' _
    split
    · exact Tr.same rfl rfl
    · have s : Tr e { e with rng := rng', fallback := fb', flows := insert e.flows fid (.bindRequested req) } [] :=
        Tr.same rfl rfl
      exact s.then0 (Tr.enqFrame _ _)

theorem Tr.appBindNext (e : EP) : Tr e (appBindNext e).1 [] := by
  unfold Mux.appBindNext
  repeat' split
  all_goals first | exact Tr.refl e | exact Tr.same rfl rfl

theorem Tr.appBindReply (e : EP) (k : Nat) (a : Bool) : Tr e (appBindReply e k a).1 [] := by
  unfold Mux.appBindReply
  split
  · exact Tr.refl e
  · split
    · exact Tr.refl e
    · split
      · exact Tr.refl e
      · exact (Tr.enqFrame e _).then0 (Tr.same rfl rfl)

theorem Tr.appBindDrop (e : EP) (k : Nat) : Tr e (appBindDrop e k).1 [] := by
  unfold Mux.appBindDrop
  split
  · exact Tr.refl e
  · split
    · exact Tr.refl e
    · simp only
      split
      · exact Tr.same rfl rfl
      · have s : Tr e { e with held := e.held.modify k (fun b => { b with alive := false }) } [] := Tr.same rfl rfl
        exact s.then0 (Tr.enqFrame _ _)

theorem Tr.foldEnq (l : List BindIn) (e : EP) :
    Tr e (l.foldl (fun e b => e.enqFrame (.reset b.fid)) e) [] := by
  induction l generalizing e with
  | nil => exact Tr.refl e
  | cons b rest ih => exact (Tr.enqFrame e _).then0 (ih _)

theorem Tr.appDropMux (e : EP) : Tr e (appDropMux e).1 [] := by
  unfold Mux.appDropMux
  simp only
  have s1 : Tr e { e with muxAlive := false, droppedq := if e.dead then e.droppedq else e.droppedq ++ [0] } [] :=
    Tr.same rfl rfl
  exact (s1.then0 (Tr.foldEnq e.bindq _)).then0 (Tr.same rfl rfl)

theorem Tr.opStep (e : EP) (op : Op) : Tr e (opStep e op).1 [] := by
  cases op with
  | «open» req host port =>
    simp only [Mux.opStep]
    split
    · exact Tr.refl e
    · exact Tr.openRound e _
  | accept => exact Tr.appAccept e
  | write h d => exact Tr.appWrite e h d
  | read h n => exact Tr.appRead e h n
  | shutdown h => exact Tr.appShutdown e h
  | dropStream h => exact Tr.appDropStream e h
  | sendDgram d => exact Tr.appSendDgram e d
  | recvDgram => exact Tr.appRecvDgram e
  | bindReq req bt host port => exact Tr.appBindReq e req bt host port
  | bindNext => exact Tr.appBindNext e
  | bindReply k a => exact Tr.appBindReply e k a
  | bindDrop k => exact Tr.appBindDrop e k
  | dropMux => exact Tr.appDropMux e
  | sinkRoom n => exact Tr.same rfl rfl
  | cancelOpen req => exact Tr.same rfl rfl
  | deliver w =>
    simp only [Mux.opStep]
    split
    · exact Tr.refl e
    · split <;> exact Tr.same rfl rfl

/-! ### Every stimulus, every history -/

theorem Tr.applyOp (e : EP) (op : Op) : Tr e (applyOp e op).1 (applyOpEnds e op) := by
  have h1 := Tr.opStep e op
  unfold Mux.applyOp applyOpEnds
  generalize Mux.opStep e op = r at h1
  obtain ⟨e1, r1, evs1⟩ := r
  exact Tr.after0 (Tr.settle e1) h1

theorem Tr.runOps (e : EP) (ops : List Op) : Tr e (runOps e ops) (endsOf e ops) := by
  induction ops generalizing e with
  | nil => exact Tr.refl e
  | cons op rest ih => exact (Tr.applyOp e op).trans (ih _)

end Penguin.Mux
