/-
The invariant of `Model/PairAll.lean`: in every reachable state of the pair, for every flow id `x`, every
object index `j` of the right endpoint and both directions, the pair of views satisfies `Good`.
Core Lean only.
-/
import Penguin.Lemmas.PairAllGlue

namespace Penguin.PairAll
open Penguin.Mux

variable {x j jA : Nat} {ownA ownB : Prop}

/-- The pair of views of a state of the pair model. -/
def absC (x jA jB : Nat) (p : PS) : PC :=
  { a := view x jA p.a p.a.inbox, b := view x jB p.b p.b.inbox, ab := p.ab, ba := p.ba, abOpen := p.abOpen,
    baOpen := p.baOpen }

/-- The `Push x` payloads an endpoint's sink has taken so far. -/
def sentX (x : Nat) (g : Ghost) : List Bytes := pX x (wireMsgs g.evs)

theorem absC_swap (x jA jB : Nat) (p : PS) : absC x jA jB p.swap = (absC x jB jA p).swap := rfl

/-- The payloads the successful writes of an endpoint queued as `Push x`, in order. -/
def wroteX (x : Nat) (g : Ghost) : List Bytes := XL.wrotes (xlOfWrote x g.wrote)

/-- How many `Finish x` were processed for object `j` among end events. -/
def finP (x j : Nat) (D : List EndEv) : Nat := XL.fins (finsOf x j D)

theorem wrotes_finsOf (x j : Nat) (D : List EndEv) : XL.wrotes (finsOf x j D) = [] := by
  unfold finsOf
  induction D.filter (fun p => p == (j, EndCause.peerFinish x)) with
  | nil => rfl
  | cons a r ih => simpa [XL.wrotes] using ih

theorem fins_xlOfWrote (x : Nat) (W : List (Nat × Nat × Bytes)) : XL.fins (xlOfWrote x W) = 0 := by
  unfold xlOfWrote
  induction W.filter (fun t => t.2.1 == x) with
  | nil => rfl
  | cons a r ih => simpa [XL.fins] using ih

theorem wroteX_stepG (x : Nat) (e : EP) (g : Ghost) (op : Mux.Op) :
    wroteX x (stepG e g op).2 = wroteX x g ++ XL.wrotes (xlOfWrote x (wroteBy e op (applyOp e op).2.1)) := by
  simp [wroteX, stepG, xlOfWrote_append, XL.wrotes_append]

theorem finP_append (x j : Nat) (a b : List EndEv) : finP x j (a ++ b) = finP x j a + finP x j b := by
  simp [finP, finsOf_append, XL.fins_append]

/-! ### One stimulus of the left / right endpoint, on an arbitrary pair of views whose left / right view is that endpoint's -/

theorem good_callL (hex : ¬(ownA ∧ ownB)) {c : PC} {S R W : List Bytes} {P : Nat} {e : EP}
    (hg : Good x j ownA ownB c S R W P)
    (ha : c.a = view x jA e e.inbox) (op : Mux.Op) (hc : isCall op = true) (hsf : SF e) (hj : J x jA (applyOp e op).1)
    (hne : (applyOp e op).1.rng.isEmpty = false) :
    Good x j ownA ownB { c with a := view x jA (applyOp e op).1 (applyOp e op).1.inbox,
                                ab := if c.abOpen then c.ab ++ wireMsgs (applyOp e op).2.2 else c.ab }
      (S ++ pX x (wireMsgs (applyOp e op).2.2)) R
      (W ++ XL.wrotes (xlOfWrote x (wroteBy e op (applyOp e op).2.1))) P :=
  (hg.starL hex (ha ▸ star_call e op hc hsf hj) hne).cast rfl rfl rfl
    (by simp [XL.wrotes_append, wrotes_finsOf]) rfl

theorem good_callR (hex : ¬(ownA ∧ ownB)) {c : PC} {S R W : List Bytes} {P : Nat} {e : EP}
    (hg : Good x j ownA ownB c S R W P)
    (hb : c.b = view x j e e.inbox) (op : Mux.Op) (hc : isCall op = true) (hsf : SF e) (hj : J x j (applyOp e op).1)
    (hne : (applyOp e op).1.rng.isEmpty = false) :
    Good x j ownA ownB { c with b := view x j (applyOp e op).1 (applyOp e op).1.inbox,
                                ba := if c.baOpen then c.ba ++ wireMsgs (applyOp e op).2.2 else c.ba }
      S (R ++ Log.dataOf (settleLog (opStep e op).1) j) W (P + finP x j (applyOpEnds e op)) :=
  (hg.starR hex (hb ▸ star_call e op hc hsf hj) hne).cast rfl rfl rfl rfl
    (by simp [XL.fins_append, fins_xlOfWrote, finP])

/-- After the inbox of the left endpoint has been extended by a delivery (`c1`): the task runs. -/
theorem good_settleL (hex : ¬(ownA ∧ ownB)) {c1 : PC} {S R W : List Bytes} {P : Nat} {e : EP} {w : WsIn}
    (hg : Good x j ownA ownB c1 S R W P)
    (ha : c1.a = view x jA (opStep e (.deliver w)).1 (opStep e (.deliver w)).1.inbox) (hsf : SF e)
    (hj : J x jA (applyOp e (.deliver w)).1) (hne : (applyOp e (.deliver w)).1.rng.isEmpty = false) :
    Good x j ownA ownB { c1 with a := view x jA (applyOp e (.deliver w)).1 (applyOp e (.deliver w)).1.inbox,
                                 ab := if c1.abOpen then c1.ab ++ wireMsgs (applyOp e (.deliver w)).2.2 else c1.ab }
      (S ++ pX x (wireMsgs (applyOp e (.deliver w)).2.2)) R W P :=
  (hg.starL hex (ha ▸ star_deliver e w hsf hj) hne).cast rfl rfl rfl (by simp [wrotes_finsOf]) rfl

theorem good_settleR (hex : ¬(ownA ∧ ownB)) {c1 : PC} {S R W : List Bytes} {P : Nat} {e : EP} {w : WsIn}
    (hg : Good x j ownA ownB c1 S R W P)
    (hb : c1.b = view x j (opStep e (.deliver w)).1 (opStep e (.deliver w)).1.inbox) (hsf : SF e)
    (hj : J x j (applyOp e (.deliver w)).1) (hne : (applyOp e (.deliver w)).1.rng.isEmpty = false) :
    Good x j ownA ownB { c1 with b := view x j (applyOp e (.deliver w)).1 (applyOp e (.deliver w)).1.inbox,
                                 ba := if c1.baOpen then c1.ba ++ wireMsgs (applyOp e (.deliver w)).2.2 else c1.ba }
      S (R ++ Log.dataOf (settleLog (opStep e (.deliver w)).1) j) W (P + finP x j (applyOpEnds e (.deliver w))) :=
  (hg.starR hex (hb ▸ star_deliver e w hsf hj) hne).cast rfl rfl rfl rfl rfl

/-! ### The invariant of the pair model -/

/-- `Db`: the end events recorded so far for the RIGHT endpoint (`Mux.applyOpEnds` of every stimulus applied to it). -/
structure PInv (x jA j : Nat) (ownA ownB : Prop) (p : PS) (Db : List EndEv) : Prop where
  good : Good x j ownA ownB (absC x jA j p) (sentX x p.ga) (Log.dataOf p.gb.accepted j) (wroteX x p.ga) (finP x j Db)
  sfA : SF p.a
  sfB : SF p.b
  neA : p.a.rng.isEmpty = false
  neB : p.b.rng.isEmpty = false

theorem sentX_stepG (x : Nat) (e : EP) (g : Ghost) (op : Mux.Op) :
    sentX x (stepG e g op).2 = sentX x g ++ pX x (wireMsgs (applyOp e op).2.2) := by
  simp [sentX, stepG, wireMsgs_append, pX_append]

theorem acc_stepG (j : Nat) (e : EP) (g : Ghost) (op : Mux.Op) :
    Log.dataOf (stepG e g op).2.accepted j = Log.dataOf g.accepted j ++ Log.dataOf (settleLog (opStep e op).1) j := by
  simp [stepG, Log.dataOf_append]

theorem SF.stepG {e : EP} (h : SF e) (g : Ghost) (op : Mux.Op) : SF (stepG e g op).1 :=
  SF.grow (Grow.applyOp e op) h

theorem isEnd_of {w : WsIn} (hw : w = .eof ∨ w = .err) : isEnd w = true := by
  rcases hw with rfl | rfl <;> rfl

/-- The stimulus of the endpoint model that a stimulus of the pair applies to the LEFT endpoint. -/
def stimOp (p : PS) : Stim → Option Mux.Op
  | .call op => if isCall op then some op else none
  | .deliver => match p.ba with | [] => none | m :: _ => some (.deliver (.msg m))
  | .cut eof => some (.deliver (if eof then .eof else .err))

/-- The left endpoint's source ends or fails. -/
theorem PInv.cutA (hex : ¬(ownA ∧ ownB)) {p : PS} {Db : List EndEv} (h : PInv x jA j ownA ownB p Db) (w : WsIn)
    (hw : w = .eof ∨ w = .err)
    (hne : (stepG p.a p.ga (.deliver w)).1.rng.isEmpty = false) (hj : J x jA (stepG p.a p.ga (.deliver w)).1) :
    PInv x jA j ownA ownB ({ actL p (.deliver w) with ba := [], baOpen := false } : PS) Db := by
  have hn0 : (absC x jA j p).a.rngNil = false := h.neA
  refine ⟨?_, h.sfA.stepG p.ga (.deliver w), h.sfB, hne, h.neB⟩
  have g1 := h.good.stepL hex (jA := jA) (CStepL.cut (absC x jA j p) w (isEnd_of hw)) hn0
  have g2 := good_settleL hex g1 (view_deliver_end p.a w hw).symm h.sfA hj hne
  refine g2.cast ?_ (by simp [actL, sentX, stepG, wireMsgs_append, pX_append, pX]) rfl
    (by simp [actL, wroteX_stepG, wroteBy, xlOfWrote, XL.wrotes]) rfl
  simp only [absC, actL, send, stepG]
  rfl

/-- The right endpoint's source ends or fails. -/
theorem PInv.cutB (hex : ¬(ownA ∧ ownB)) {p : PS} {Db : List EndEv} (h : PInv x jA j ownA ownB p Db) (w : WsIn)
    (hw : w = .eof ∨ w = .err)
    (hne : (stepG p.b p.gb (.deliver w)).1.rng.isEmpty = false) (hj : J x j (stepG p.b p.gb (.deliver w)).1) :
    PInv x jA j ownA ownB ({ actL p.swap (.deliver w) with ba := [], baOpen := false } : PS).swap
      (Db ++ applyOpEnds p.b (.deliver w)) := by
  have hn0 : (absC x jA j p).swap.a.rngNil = false := h.neB
  refine ⟨?_, h.sfA, h.sfB.stepG p.gb (.deliver w), h.neA, hne⟩
  have g1 := h.good.stepR hex (CStepL.cut (absC x jA j p).swap w (isEnd_of hw)) hn0
  have g2 := good_settleR hex g1 (view_deliver_end p.b w hw).symm h.sfB hj hne
  refine g2.cast ?_ rfl (by simp [PS.swap, actL, stepG, Log.dataOf_append]) rfl (by simp [finP_append, XL.fins])
  simp only [absC, PS.swap, PC.swap, actL, send, stepG]
  rfl

/-- A stimulus of the LEFT endpoint. -/
theorem PInv.stimA (hex : ¬(ownA ∧ ownB)) {p q : PS} {st : Stim} {Db : List EndEv} (h : PInv x jA j ownA ownB p Db)
    (hs : stimL p st = some q) (hne : q.a.rng.isEmpty = false) (hj : J x jA q.a) : PInv x jA j ownA ownB q Db := by
  cases st with
  | call op =>
    simp only [stimL] at hs
    split at hs
    · rename_i hc
      have hq := Option.some.inj hs; subst hq
      refine ⟨?_, h.sfA.stepG p.ga op, h.sfB, hne, h.neB⟩
      have g := good_callL hex h.good (rfl : (absC x jA j p).a = view x jA p.a p.a.inbox) op hc h.sfA hj hne
      exact g.cast rfl (sentX_stepG x p.a p.ga op) rfl (wroteX_stepG x p.a p.ga op) rfl
    · cases hs
  | deliver =>
    simp only [stimL] at hs
    split at hs
    · cases hs
    · rename_i m rest hba
      have hn0 : (absC x jA j p).a.rngNil = false := h.neA
      split at hs
      · rename_i hm
        subst hm
        have hq := Option.some.inj hs; subst hq
        refine ⟨?_, h.sfA.stepG p.ga (.deliver (.msg .close)), h.sfB, hne, h.neB⟩
        have g1 := h.good.stepL hex (jA := jA) (CStepL.dlvClose (absC x jA j p) rest hba) hn0
        have g2 := good_settleL hex g1 (view_deliver_close p.a).symm h.sfA hj hne
        exact g2.cast rfl (by simp [actL, sentX, stepG, wireMsgs_append, pX_append, pX]) rfl
          (by simp [actL, wroteX_stepG, wroteBy, xlOfWrote, XL.wrotes]) rfl
      · rename_i hm
        have hq := Option.some.inj hs; subst hq
        refine ⟨?_, h.sfA.stepG p.ga (.deliver (.msg m)), h.sfB, hne, h.neB⟩
        have g1 := h.good.stepL hex (jA := jA) (CStepL.dlv (absC x jA j p) m rest hba hm) hn0
        have g2 := good_settleL hex g1 (view_deliver_msg p.a m hm).symm h.sfA hj hne
        exact g2.cast rfl (by simp [actL, sentX, stepG, wireMsgs_append, pX_append, pX]) rfl
          (by simp [actL, wroteX_stepG, wroteBy, xlOfWrote, XL.wrotes]) rfl
  | cut eof =>
    have hs' : some ({ actL p (.deliver (if eof = true then WsIn.eof else WsIn.err)) with ba := [], baOpen := false } : PS) = some q := hs
    have hq := Option.some.inj hs'; subst hq
    exact h.cutA hex _ (by cases eof <;> simp) hne hj

/-- A stimulus of the RIGHT endpoint (a stimulus of the left endpoint of the swapped pair): the end events it
    records are appended. -/
theorem PInv.stimB (hex : ¬(ownA ∧ ownB)) {p q : PS} {st : Stim} {Db : List EndEv} (h : PInv x jA j ownA ownB p Db)
    (hs : stimL p.swap st = some q) (hne : q.a.rng.isEmpty = false) (hj : J x j q.a) :
    ∃ op, stimOp p.swap st = some op ∧ PInv x jA j ownA ownB q.swap (Db ++ applyOpEnds p.b op) := by
  cases st with
  | call op =>
    simp only [stimL] at hs
    split at hs
    · rename_i hc
      have hq := Option.some.inj hs; subst hq
      refine ⟨op, by simp [stimOp, hc], ?_, h.sfA, h.sfB.stepG p.gb op, h.neA, hne⟩
      have g := good_callR hex h.good (rfl : (absC x jA j p).b = view x j p.b p.b.inbox) op hc h.sfB hj hne
      exact g.cast rfl rfl (acc_stepG j p.b p.gb op) rfl (finP_append x j _ _)
    · cases hs
  | deliver =>
    simp only [stimL] at hs
    split at hs
    · cases hs
    · rename_i m rest hba
      have hn0 : (absC x jA j p).swap.a.rngNil = false := h.neB
      have hop : stimOp p.swap .deliver = some (.deliver (.msg m)) := by simp [stimOp, hba]
      split at hs
      · rename_i hm
        subst hm
        have hq := Option.some.inj hs; subst hq
        refine ⟨_, hop, ?_, h.sfA, h.sfB.stepG p.gb (.deliver (.msg .close)), h.neA, hne⟩
        have g1 := h.good.stepR hex (CStepL.dlvClose (absC x jA j p).swap rest hba) hn0
        have g2 := good_settleR hex g1 (view_deliver_close p.b).symm h.sfB hj hne
        exact g2.cast rfl rfl (by simp [PS.swap, actL, stepG, Log.dataOf_append]) rfl (by simp [finP_append, XL.fins])
      · rename_i hm
        have hq := Option.some.inj hs; subst hq
        refine ⟨_, hop, ?_, h.sfA, h.sfB.stepG p.gb (.deliver (.msg m)), h.neA, hne⟩
        have g1 := h.good.stepR hex (CStepL.dlv (absC x jA j p).swap m rest hba hm) hn0
        have g2 := good_settleR hex g1 (view_deliver_msg p.b m hm).symm h.sfB hj hne
        exact g2.cast rfl rfl (by simp [PS.swap, actL, stepG, Log.dataOf_append]) rfl (by simp [finP_append, XL.fins])
  | cut eof =>
    have hs' : some ({ actL p.swap (.deliver (if eof = true then WsIn.eof else WsIn.err)) with ba := [], baOpen := false } : PS) = some q := hs
    have hq := Option.some.inj hs'; subst hq
    exact ⟨_, rfl, h.cutB hex _ (by cases eof <;> simp) hne hj⟩

end Penguin.PairAll
