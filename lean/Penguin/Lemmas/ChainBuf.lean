/-
The provided methods of `bytes::Buf` (`Penguin.BufImpl`) over any implementor whose three required
methods behave like a plain byte vector (`Lawful`), and the two instances: `LongChain` under the
invariant `Inv`, `CowBytes` always.  Also: an endomorphism of the implementor that commutes with the
three required methods commutes with every provided one (used for re-tagging).
-/
import Penguin.Lemmas.Chain

namespace Penguin.C20
open Penguin Penguin.Chain

/-! ### Big-endian decoding -/

theorem fromBe_foldl (bs : Bytes) (a : Nat) :
    bs.foldl (fun a b => a * 256 + b.toNat) a = a * 256 ^ bs.length + Spec.Vec.beValue bs := by
  induction bs generalizing a with
  | nil => simp [Spec.Vec.beValue]
  | cons b r ih =>
    simp only [List.foldl_cons, ih, Spec.Vec.beValue, List.length_cons, Nat.pow_succ]
    rw [Nat.add_mul, Nat.mul_assoc, Nat.mul_comm 256, Nat.add_assoc]

/-- The shift-and-add decoding of the model is the positional value of the reference. -/
theorem fromBe_eq (bs : Bytes) : fromBe bs = Spec.Vec.beValue bs := by
  simp [fromBe, fromBe_foldl]

theorem beValue_lt (bs : Bytes) : Spec.Vec.beValue bs < 256 ^ bs.length := by
  induction bs with
  | nil => simp [Spec.Vec.beValue]
  | cons b r ih =>
    have hb := b.toNat_lt
    simp only [Spec.Vec.beValue, List.length_cons, Nat.pow_succ]
    have : b.toNat * 256 ^ r.length ≤ 255 * 256 ^ r.length := Nat.mul_le_mul_right _ (by omega)
    omega

/-! ### An implementor that behaves like a plain byte vector -/

/-- The `Buf` contract of the three required methods, relative to an invariant `inv` and an
    abstraction `ab` to the bytes still to be read. -/
structure Lawful {σ : Type} (B : BufImpl σ) (inv : σ → Prop) (ab : σ → Bytes) : Prop where
  remaining_eq : ∀ s, inv s → B.remaining s = (ab s).length
  chunk_prefix : ∀ s, inv s → ∃ t, ab s = B.chunk s ++ t
  chunk_ne : ∀ s, inv s → ab s ≠ [] → B.chunk s ≠ []
  advance_ok : ∀ s n, inv s → n ≤ (ab s).length →
    ∃ s', B.advance s n = .ok (s', ()) ∧ inv s' ∧ ab s' = (ab s).drop n

section generic

variable {σ : Type} {B : BufImpl σ} {inv : σ → Prop} {ab : σ → Bytes}

theorem Lawful.chunk_len_le (L : Lawful B inv ab) (s : σ) (hi : inv s) :
    (B.chunk s).length ≤ (ab s).length := by
  obtain ⟨t, ht⟩ := L.chunk_prefix s hi
  rw [ht]; simp

theorem Lawful.chunk_take (L : Lawful B inv ab) (s : σ) (hi : inv s) (l : Nat)
    (hl : l ≤ (B.chunk s).length) : (B.chunk s).take l = (ab s).take l := by
  obtain ⟨t, ht⟩ := L.chunk_prefix s hi
  rw [ht, List.take_append_of_le_length hl]

theorem Lawful.chunk_pos (L : Lawful B inv ab) (s : σ) (hi : inv s) (h : 0 < (ab s).length) :
    0 < (B.chunk s).length :=
  List.length_pos_iff.mpr (L.chunk_ne s hi (List.length_pos_iff.mp h))

theorem hasRemaining_spec (L : Lawful B inv ab) (s : σ) (hi : inv s) :
    B.hasRemaining s = Spec.Vec.hasRemaining (ab s) := by
  simp only [BufImpl.hasRemaining, L.remaining_eq s hi, Spec.Vec.hasRemaining]
  cases ab s <;> simp

/-- `chunks_vectored` with `k` slots: at most `k` slices, none of them empty, together a prefix of
    the contents, and at least one when there is room and bytes remain. -/
theorem chunksVectored_spec (L : Lawful B inv ab) (s : σ) (k : Nat) (hi : inv s) :
    (B.chunksVectored s k).length ≤ k ∧ (∀ ch ∈ B.chunksVectored s k, ch ≠ []) ∧
      (∃ t, ab s = (B.chunksVectored s k).flatten ++ t) ∧
      (0 < k → ab s ≠ [] → B.chunksVectored s k ≠ []) := by
  unfold BufImpl.chunksVectored
  by_cases hk : k = 0
  · simp [hk]
  · rw [hasRemaining_spec L s hi]
    by_cases he : ab s = []
    · simp [hk, he, Spec.Vec.hasRemaining]
    · have hr : Spec.Vec.hasRemaining (ab s) = true := by
        cases h : ab s with
        | nil => exact absurd h he
        | cons a r => simp [Spec.Vec.hasRemaining]
      obtain ⟨t, ht⟩ := L.chunk_prefix s hi
      simp only [hk, hr, if_true, if_false]
      refine ⟨by simp; omega, ?_, ⟨t, by simpa using ht⟩, fun _ _ => by simp⟩
      intro ch hch
      simp at hch; subst hch
      exact L.chunk_ne s hi he

theorem copyLoop_spec (L : Lawful B inv ab) (need : Nat) :
    ∀ (s : σ) (acc : Bytes), inv s → need ≤ (ab s).length →
      ∃ s', B.copyLoop s need acc = .ok (s', acc ++ (ab s).take need) ∧ inv s' ∧
        ab s' = (ab s).drop need := by
  induction need using Nat.strongRecOn with
  | _ need ih =>
    intro s acc hi hn
    rw [BufImpl.copyLoop]
    by_cases h0 : need = 0
    · subst h0; exact ⟨s, by simp, hi, by simp⟩
    · have hpos := L.chunk_pos s hi (by omega)
      have hcle := L.chunk_len_le s hi
      obtain ⟨cnt, hcnt⟩ : ∃ cnt, cnt = min (B.chunk s).length need := ⟨_, rfl⟩
      have hc0 : ¬ cnt = 0 := by omega
      obtain ⟨s1, ha, hi1, hab1⟩ := L.advance_ok s cnt hi (by omega)
      simp only [h0, dite_false, ← hcnt, hc0, ha]
      obtain ⟨s2, h2, hi2, hab2⟩ :=
        ih (need - cnt) (by omega) s1 (acc ++ (B.chunk s).take cnt) hi1 (by rw [hab1]; simp; omega)
      refine ⟨s2, ?_, hi2, ?_⟩
      · rw [h2, hab1, L.chunk_take s hi cnt (by omega), List.append_assoc, ← List.take_add,
          (by omega : cnt + (need - cnt) = need)]
      · rw [hab2, hab1, List.drop_drop]; congr 1; omega

theorem takeLoop_spec (L : Lawful B inv ab) (limit : Nat) :
    ∀ (s : σ) (acc : Bytes), inv s → limit ≤ (ab s).length →
      ∃ s', B.takeLoop s limit acc = .ok (s', acc ++ (ab s).take limit) ∧ inv s' ∧
        ab s' = (ab s).drop limit := by
  induction limit using Nat.strongRecOn with
  | _ limit ih =>
    intro s acc hi hn
    rw [BufImpl.takeLoop]
    have hrem := L.remaining_eq s hi
    by_cases h0 : limit = 0
    · subst h0; exact ⟨s, by simp, hi, by simp⟩
    · have hpos := L.chunk_pos s hi (by omega)
      have hcle := L.chunk_len_le s hi
      have hm : ¬ min (B.remaining s) limit = 0 := by omega
      obtain ⟨l, hl⟩ : ∃ l, l = min (B.chunk s).length limit := ⟨_, rfl⟩
      have hl0 : ¬ l = 0 := by omega
      obtain ⟨s1, ha, hi1, hab1⟩ := L.advance_ok s l hi (by omega)
      simp only [hm, dite_false, ← hl, hl0, ha]
      obtain ⟨s2, h2, hi2, hab2⟩ :=
        ih (limit - l) (by omega) s1 (acc ++ (B.chunk s).take l) hi1 (by rw [hab1]; simp; omega)
      refine ⟨s2, ?_, hi2, ?_⟩
      · rw [h2, hab1, L.chunk_take s hi l (by omega), List.append_assoc, ← List.take_add,
          (by omega : l + (limit - l) = limit)]
      · rw [hab2, hab1, List.drop_drop]; congr 1; omega

theorem copyToSlice_spec (L : Lawful B inv ab) (s : σ) (n : Nat) (hi : inv s) :
    (n ≤ (ab s).length → ∃ s', B.copyToSlice s n = .ok (s', (ab s).take n) ∧ inv s' ∧
        ab s' = (ab s).drop n) ∧
    ((ab s).length < n → B.copyToSlice s n = .error ⟨s⟩) := by
  unfold BufImpl.copyToSlice
  rw [L.remaining_eq s hi]
  constructor
  · intro hle
    have : ¬ (ab s).length < n := by omega
    simp only [this, if_false]
    simpa using copyLoop_spec L n s [] hi hle
  · intro hlt; simp [hlt]

theorem copyToBytes_spec (L : Lawful B inv ab) (s : σ) (n : Nat) (hi : inv s) :
    (n ≤ (ab s).length → ∃ s', B.copyToBytes s n = .ok (s', (ab s).take n) ∧ inv s' ∧
        ab s' = (ab s).drop n) ∧
    ((ab s).length < n → B.copyToBytes s n = .error ⟨s⟩) := by
  unfold BufImpl.copyToBytes
  rw [L.remaining_eq s hi]
  constructor
  · intro hle
    have : ¬ (ab s).length < n := by omega
    simp only [this, if_false]
    simpa using takeLoop_spec L n s [] hi hle
  · intro hlt; simp [hlt]

theorem getFixed_spec (L : Lawful B inv ab) (s : σ) (n : Nat) (hi : inv s) :
    (n ≤ (ab s).length → ∃ s', B.getFixed s n = .ok (s', (ab s).take n) ∧ inv s' ∧
        ab s' = (ab s).drop n) ∧
    ((ab s).length < n → B.getFixed s n = .error ⟨s⟩) := by
  unfold BufImpl.getFixed
  rw [L.remaining_eq s hi]
  constructor
  · intro hle
    have : ¬ (ab s).length < n := by omega
    simp only [this, if_false]
    by_cases hc : n ≤ (B.chunk s).length
    · obtain ⟨s1, ha, hi1, hab1⟩ := L.advance_ok s n hi hle
      simp only [hc, if_true, ha]
      exact ⟨s1, by rw [L.chunk_take s hi n hc], hi1, hab1⟩
    · simp only [hc, if_false]
      exact (copyToSlice_spec L s n hi).1 hle
  · intro hlt; simp [hlt]

theorem getU8_spec (L : Lawful B inv ab) (s : σ) (hi : inv s) :
    (∀ b t, ab s = b :: t → ∃ s', B.getU8 s = .ok (s', b) ∧ inv s' ∧ ab s' = t) ∧
    (ab s = [] → B.getU8 s = .error ⟨s⟩) := by
  unfold BufImpl.getU8
  rw [L.remaining_eq s hi]
  constructor
  · intro b t hbt
    have hlen : ¬ (ab s).length < 1 := by simp [hbt]
    obtain ⟨u, hu⟩ := L.chunk_prefix s hi
    have hne : B.chunk s ≠ [] := L.chunk_ne s hi (by simp [hbt])
    have h0 : (B.chunk s)[0]? = some b := by
      cases hch : B.chunk s with
      | nil => exact absurd hch hne
      | cons x r =>
        rw [hch, hbt] at hu
        simp at hu
        simp [hu.1]
    obtain ⟨s1, ha, hi1, hab1⟩ := L.advance_ok s 1 hi (by simp [hbt])
    simp only [hlen, if_false, h0, ha]
    exact ⟨s1, rfl, hi1, by simp [hab1, hbt]⟩
  · intro he; simp [he]

theorem getU16_spec (L : Lawful B inv ab) (s : σ) (hi : inv s) :
    (2 ≤ (ab s).length → ∃ s', B.getU16 s = .ok (s', UInt16.ofNat (fromBe ((ab s).take 2))) ∧
        inv s' ∧ ab s' = (ab s).drop 2) ∧
    ((ab s).length < 2 → B.getU16 s = .error ⟨s⟩) := by
  unfold BufImpl.getU16
  obtain ⟨h1, h2⟩ := getFixed_spec L s 2 hi
  constructor
  · intro hle
    obtain ⟨s1, e, hi1, hab1⟩ := h1 hle
    exact ⟨s1, by rw [e]; rfl, hi1, hab1⟩
  · intro hlt; rw [h2 hlt]; rfl

theorem getU32_spec (L : Lawful B inv ab) (s : σ) (hi : inv s) :
    (4 ≤ (ab s).length → ∃ s', B.getU32 s = .ok (s', UInt32.ofNat (fromBe ((ab s).take 4))) ∧
        inv s' ∧ ab s' = (ab s).drop 4) ∧
    ((ab s).length < 4 → B.getU32 s = .error ⟨s⟩) := by
  unfold BufImpl.getU32
  obtain ⟨h1, h2⟩ := getFixed_spec L s 4 hi
  constructor
  · intro hle
    obtain ⟨s1, e, hi1, hab1⟩ := h1 hle
    exact ⟨s1, by rw [e]; rfl, hi1, hab1⟩
  · intro hlt; rw [h2 hlt]; rfl

end generic

/-- The value read by `get_u16` is the big-endian value of the two bytes. -/
theorem u16_value (bs : Bytes) (h : bs.length ≤ 2) :
    (UInt16.ofNat (fromBe bs)).toNat = Spec.Vec.beValue bs := by
  have hlt := beValue_lt bs
  have : 256 ^ bs.length ≤ 256 ^ 2 := Nat.pow_le_pow_right (by omega) h
  rw [fromBe_eq, UInt16.toNat_ofNat']
  omega

theorem u32_value (bs : Bytes) (h : bs.length ≤ 4) :
    (UInt32.ofNat (fromBe bs)).toNat = Spec.Vec.beValue bs := by
  have hlt := beValue_lt bs
  have : 256 ^ bs.length ≤ 256 ^ 4 := Nat.pow_le_pow_right (by omega) h
  rw [fromBe_eq, UInt32.toNat_ofNat']
  omega

/-! ### The two implementors -/

/-- `LongChain` under the invariant. -/
theorem chain_lawful : Lawful Chain.buf Inv abs where
  remaining_eq c hi := by simp [Chain.buf, Chain.remaining, abs, hi.1]
  chunk_prefix c _ := by
    cases hc : c.segs with
    | nil => exact ⟨[], by simp [Chain.buf, abs, Chain.chunk, hc]⟩
    | cons s r => exact ⟨flat r, by simp [Chain.buf, abs, Chain.chunk, hc]⟩
  chunk_ne c hi hne := by
    cases hc : c.segs with
    | nil => simp [abs, hc] at hne
    | cons s r =>
      have := hi.2 s (by simp [hc])
      simpa [Chain.buf, Chain.chunk, hc] using this
  advance_ok c n hi hle := by
    have hlen : (abs c).length = total c.segs := by simp [abs]
    exact (advance_spec c n hi).1 (by omega)

/-- `CowBytes`, with the variant kept. -/
theorem seg_lawful (t : Tag) : Lawful Seg.buf (fun s => s.tag = t) Seg.bytes where
  remaining_eq s _ := by simp [Seg.buf]
  chunk_prefix s _ := ⟨[], by simp [Seg.buf]⟩
  chunk_ne s _ hne := by simpa [Seg.buf] using hne
  advance_ok s n ht hle := ⟨⟨s.tag, s.bytes.drop n⟩, seg_advance_ok s n hle, ht, rfl⟩

/-! ### Commuting with an endomorphism of the implementor -/

/-- A result with the receiver (and what a panic leaves behind) mapped. -/
def mapRes {σ α : Type} (g : σ → σ) : Res σ α → Res σ α
  | .error p => .error ⟨g p.left⟩
  | .ok (a, b) => .ok (g a, b)

/-- `g` commutes with the three required methods. -/
structure Commutes {σ : Type} (B : BufImpl σ) (g : σ → σ) : Prop where
  remaining : ∀ s, B.remaining (g s) = B.remaining s
  chunk : ∀ s, B.chunk (g s) = B.chunk s
  advance : ∀ s n, B.advance (g s) n = mapRes g (B.advance s n)

section commute

variable {σ : Type} {B : BufImpl σ} {g : σ → σ}

theorem copyLoop_commutes (C : Commutes B g) (need : Nat) :
    ∀ (s : σ) (acc : Bytes), B.copyLoop (g s) need acc = mapRes g (B.copyLoop s need acc) := by
  induction need using Nat.strongRecOn with
  | _ need ih =>
    intro s acc
    rw [BufImpl.copyLoop, BufImpl.copyLoop.eq_def (s := s)]
    simp only [C.chunk, C.advance]
    by_cases h0 : need = 0
    · simp [h0, mapRes]
    · simp only [h0, dite_false]
      by_cases hc : min (B.chunk s).length need = 0
      · simp [hc, mapRes]
      · simp only [hc, dite_false]
        cases ha : B.advance s (min (B.chunk s).length need) with
        | error p => simp [mapRes]
        | ok r =>
          obtain ⟨s1, u⟩ := r
          simp only [mapRes]
          exact ih _ (by omega) s1 _

theorem takeLoop_commutes (C : Commutes B g) (limit : Nat) :
    ∀ (s : σ) (acc : Bytes), B.takeLoop (g s) limit acc = mapRes g (B.takeLoop s limit acc) := by
  induction limit using Nat.strongRecOn with
  | _ limit ih =>
    intro s acc
    rw [BufImpl.takeLoop, BufImpl.takeLoop.eq_def (s := s)]
    simp only [C.chunk, C.advance, C.remaining]
    by_cases h0 : min (B.remaining s) limit = 0
    · simp [h0, mapRes]
    · simp only [h0, dite_false]
      by_cases hc : min (B.chunk s).length limit = 0
      · simp [hc, mapRes]
      · simp only [hc, dite_false]
        cases ha : B.advance s (min (B.chunk s).length limit) with
        | error p => simp [mapRes]
        | ok r =>
          obtain ⟨s1, u⟩ := r
          simp only [mapRes]
          exact ih _ (by omega) s1 _

theorem copyToSlice_commutes (C : Commutes B g) (s : σ) (n : Nat) :
    B.copyToSlice (g s) n = mapRes g (B.copyToSlice s n) := by
  unfold BufImpl.copyToSlice
  rw [C.remaining, copyLoop_commutes C]
  split <;> simp [mapRes]

theorem copyToBytes_commutes (C : Commutes B g) (s : σ) (n : Nat) :
    B.copyToBytes (g s) n = mapRes g (B.copyToBytes s n) := by
  unfold BufImpl.copyToBytes
  rw [C.remaining, takeLoop_commutes C]
  split <;> simp [mapRes]

theorem getFixed_commutes (C : Commutes B g) (s : σ) (n : Nat) :
    B.getFixed (g s) n = mapRes g (B.getFixed s n) := by
  unfold BufImpl.getFixed
  rw [C.remaining, C.chunk, C.advance, copyToSlice_commutes C]
  split
  · simp [mapRes]
  · split
    · cases B.advance s n with
      | error p => simp [mapRes]
      | ok r => obtain ⟨a, u⟩ := r; simp [mapRes]
    · rfl

theorem getU8_commutes (C : Commutes B g) (s : σ) :
    B.getU8 (g s) = mapRes g (B.getU8 s) := by
  unfold BufImpl.getU8
  rw [C.remaining, C.chunk, C.advance]
  split
  · simp [mapRes]
  · cases (B.chunk s)[0]? with
    | none => simp [mapRes]
    | some b =>
      cases B.advance s 1 with
      | error p => simp [mapRes]
      | ok r => obtain ⟨a, u⟩ := r; simp [mapRes]

theorem getU16_commutes (C : Commutes B g) (s : σ) :
    B.getU16 (g s) = mapRes g (B.getU16 s) := by
  unfold BufImpl.getU16
  rw [getFixed_commutes C]
  cases B.getFixed s 2 with
  | error p => simp [mapRes, Except.map]
  | ok r => obtain ⟨a, b⟩ := r; simp [mapRes, Except.map]

theorem getU32_commutes (C : Commutes B g) (s : σ) :
    B.getU32 (g s) = mapRes g (B.getU32 s) := by
  unfold BufImpl.getU32
  rw [getFixed_commutes C]
  cases B.getFixed s 4 with
  | error p => simp [mapRes, Except.map]
  | ok r => obtain ⟨a, b⟩ := r; simp [mapRes, Except.map]

end commute

/-- Re-tagging the segments of a chain commutes with `remaining` / `chunk` / `advance`. -/
theorem retag_commutes (f : Tag → Tag) : Commutes Chain.buf (retagChain f) where
  remaining c := rfl
  chunk c := by
    cases hc : c.segs with
    | nil => simp [Chain.buf, Chain.chunk, retagChain, hc]
    | cons s r => simp [Chain.buf, Chain.chunk, retagChain, hc]
  advance c n := by
    simp only [Chain.buf, advance_retag, mapRes]
    cases c.advance n with
    | error p => rfl
    | ok r => obtain ⟨a, u⟩ := r; rfl

end Penguin.C20
