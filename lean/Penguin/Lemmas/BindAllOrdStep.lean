/-
The ORDER layer (`Lemmas/BindAllOrd.lean`) is preserved by every small step of the pair of bind views.
Core Lean only.
-/
import Penguin.Lemmas.BindAllOrd

namespace Penguin.BindAll
open Penguin.Mux
open Penguin.PairAll (inMsgs inMsgs_append)

variable {c : BC} {v : BV} {ws : List Msg} {gs : List BEv}

/-! ### Wires -/

theorem deafV_append_msg (a : BV) (m : Msg) : deafV { a with inbox := a.inbox ++ [.msg m] } = deafV a := by
  have h1 : (WsIn.msg m == WsIn.eof) = false := by rw [beq_eq_false_iff_ne]; intro h; cases h
  have h2 : (WsIn.msg m == WsIn.err) = false := by rw [beq_eq_false_iff_ne]; intro h; cases h
  simp [deafV, h1, h2]

theorem Wires.stepL (h : Wires c) {c' : BC} (st : CStepL c c') : Wires c' := by
  cases st with
  | act v ws gs hs =>
    refine ⟨h.ba, ?_, fun hd => h.deafA (hs.deaf_back hd), h.deafB⟩
    intro ho
    simp only [BC.actL] at ho ⊢
    have ho' : c.abOpen = false := ho
    simp [ho', h.ab ho']
  | dlv m rest deaf hb hd =>
    have hopen : c.baOpen = true := by
      cases ho : c.baOpen with
      | true => rfl
      | false => have := h.ba ho; rw [hb] at this; cases this
    refine ⟨fun ho => ?_, h.ab, fun hdf => ?_, h.deafB⟩
    · exact absurd (show c.baOpen = false from ho) (by simp [hopen])
    · have : deafV c.a = true := by
        cases deaf with
        | true => exact hd.symm
        | false => simp only [Bool.false_eq_true, if_false] at hdf; rw [deafV_append_msg] at hdf; exact hdf
      exact absurd (h.deafA this) (by simp [hopen])
  | lose extra deaf hx => exact ⟨fun _ => rfl, h.ab, fun _ => rfl, h.deafB⟩

/-! ### The left side acts as the ASKING side -/

theorem fresh_no_shown {x k : Nat} {bt : BindType} {host : Bytes} {port : Nat} (h : Inv3 c) (st : BStep c.a v ws gs)
    (hn : v.rng ≠ []) {req : Nat} {bt' : BindType} {host' : Bytes} {port' : Nat}
    (ha : BEv.asked req x bt' host' port' ∈ gs) (hs : BEv.shown k x bt host port ∈ c.gb) : False := by
  have hd : (x :: v.rng) <:+ c.a.rng := by
    rcases st.asked_drawn req x bt' host' port' ha with h1 | h1
    · exact h1
    · exact absurd h1 hn
  have hc := count_lt_of_cons_suffix hd
  have hz := ((h.base.num x).fresh (by simp only [sm]; omega)).2.2.2.2.2.2.2.2.2.2.2.1
  have := one_le_shown hs
  simp only [sm] at hz; omega

theorem Ord.actAsker (h : Inv3 c) (hO : Ord c) (st : BStep c.a v ws gs) (hn : v.rng ≠ []) : Ord (c.actL v ws gs) := by
  intro x k bt host port hasked hshown hfirst hpend hcap hmux
  have hshown' : BEv.shown k x bt host port ∈ c.gb := hshown
  obtain ⟨req, bt', host', port', ha⟩ := hasked
  have ha : BEv.asked req x bt' host' port' ∈ c.ga := by
    rcases List.mem_append.mp ha with ha | ha
    · exact ha
    · exact (fresh_no_shown h st hn ha hshown').elim
  obtain ⟨r, hp⟩ := hpend
  have hp0 : (x, Slot.bindRequested r) ∈ c.a.flows := by
    rcases st.pending_back x r hp with h1 | ⟨b1, b2, b3, h1⟩
    · exact h1
    · exact (fresh_no_shown h st hn h1 hshown').elim
  have hok := hO x k bt host port ⟨req, bt', host', port', ha⟩ hshown' hfirst ⟨r, hp0⟩ hcap hmux
  have hb := (h.base.num x).l.binda (one_le_asked ha)
  simp only [sm] at hb
  obtain ⟨r', hl⟩ := lookup_br_of_mem hp0 hb.2.2.2.1 hb.2.2.2.2.1
  have hlive : ans x (c.actL v ws gs).live = ans x c.live := by
    simp only [BC.live, BC.actL, ans_append, st.pop_guard x r' hl]
    rfl
  simp only [OrdOK, hlive]
  exact hok

/-! ### The left side acts as the ANSWERING side -/

theorem live_swap_actL (c : BC) (v : BV) (ws : List Msg) (gs : List BEv) :
    (c.actL v ws gs).swap.live = inMsgs c.b.inbox ++ (if c.abOpen then c.ab ++ (ws ++ v.outq) else []) := by
  cases c with
  | mk a b ab ba abo bao ga gb => cases abo <;> simp [BC.live, BC.swap, BC.actL]

theorem live_swap (c : BC) : c.swap.live = inMsgs c.b.inbox ++ (if c.abOpen then c.ab ++ c.a.outq else []) := rfl

theorem Ord.actAnswerer (h : Inv3 c) (hsh : ShownHeld c.a c.ga) (hO : Ord c.swap) (st : BStep c.a v ws gs) :
    Ord (c.actL v ws gs).swap := by
  intro x k bt host port hasked hshown hfirst hpend hcap hmux
  have hasked' : ∃ req bt' host' port', BEv.asked req x bt' host' port' ∈ c.gb := hasked
  have hshown' : BEv.shown k x bt host port ∈ c.ga ++ gs := hshown
  have hfirst' : FirstAcc k (c.ga ++ gs) := hfirst
  have hpend' : ∃ r, (x, Slot.bindRequested r) ∈ c.b.flows := hpend
  have hcap' : c.a.bindCap ≠ 0 := by
    have : v.bindCap ≠ 0 := hcap
    rwa [st.bindCap_eq] at this
  have hmux' : BEv.muxDropped ∉ c.ga := fun hm => hmux (List.mem_append_left _ hm)
  show (ans x (c.actL v ws gs).swap.live).head? = some true ∨ (ans x (c.actL v ws gs).swap.live = [] ∧
    ((c.actL v ws gs).swap.baOpen = false ∨ (c.actL v ws gs).swap.b.outClosed = true))
  rw [live_swap_actL]
  have hfro : (c.actL v ws gs).swap.baOpen = c.abOpen := rfl
  have hocl : (c.actL v ws gs).swap.b.outClosed = v.outClosed := rfl
  rw [hfro, hocl]
  rcases hfirst'.of_append with hfa | ⟨hnone, hnew⟩
  · -- the first answer was recorded before
    have hsh0 : BEv.shown k x bt host port ∈ c.ga := by
      rcases List.mem_append.mp hshown' with h1 | h1
      · exact h1
      · exfalso
        have hk := (st.shown_k k x bt host port h1).1
        have := h.locA.kb k (Or.inl ⟨true, hfa.mem⟩)
        omega
    have hok : OrdOK x c.swap := hO x k bt host port hasked' hsh0 hfa hpend' hcap' hmux'
    simp only [OrdOK, frozen, live_swap] at hok
    have hok' : (ans x (inMsgs c.b.inbox ++ (if c.abOpen then c.ab ++ c.a.outq else []))).head? = some true ∨
        (ans x (inMsgs c.b.inbox ++ (if c.abOpen then c.ab ++ c.a.outq else [])) = [] ∧
          (c.abOpen = false ∨ c.a.outClosed = true)) := hok
    cases hab : c.abOpen with
    | false =>
      simp only [hab, Bool.false_eq_true, if_false] at hok' ⊢
      rcases hok' with h1 | ⟨h1, _⟩
      · exact Or.inl h1
      · exact Or.inr ⟨h1, Or.inl trivial⟩
    | true =>
      simp only [hab, if_true] at hok' ⊢
      rcases st.out_seq with ⟨pre, new, hseq, hpre, hcl⟩ | ⟨hws, hq, hcl⟩
      · rw [hseq]
        have hA : ans x (inMsgs c.b.inbox ++ (c.ab ++ (pre ++ c.a.outq ++ new))) =
            ans x (inMsgs c.b.inbox ++ (c.ab ++ c.a.outq)) ++ ans x new := by
          simp only [ans_append, ans_closes hpre, List.nil_append, List.append_assoc]
        rw [hA]
        rcases hok' with h1 | ⟨h1, h2⟩
        · exact Or.inl (head_append_of_head _ h1)
        · rcases h2 with h2 | h2
          · cases h2
          · rw [hcl h2, h1]
            exact Or.inr ⟨rfl, Or.inr (st.outClosed_mono h2)⟩
      · rw [hws, hq]
        refine ordCond_prefix (A := ans x (inMsgs c.b.inbox ++ (c.ab ++ c.a.outq)))
          (rest := ans x c.a.outq) ?_ _ _ (Or.inr hcl) hok'
        simp only [ans_append, List.nil_append, List.append_nil, List.append_assoc]
  · -- the first answer is recorded now: the step is `reply(true)` on `k`
    obtain ⟨b, hk, hal, hoc, hws, hq⟩ := st.reply_out k true hnew
    have hsh0 : BEv.shown k x bt host port ∈ c.ga := by
      rcases List.mem_append.mp hshown' with h1 | h1
      · exact h1
      · exact absurd hnew ((st.shown_k k x bt host port h1).2 k true)
    have hbx : b.fid = x := by
      obtain ⟨b', hb', hf⟩ := hsh k x bt host port hsh0
      rw [hk] at hb'; cases hb'; exact hf
    obtain ⟨req, bt', host', port', ha⟩ := hasked'
    have hnum := (h.base.num x).r.binda (one_le_asked ha)
    simp only [sm, Sm.swap] at hnum
    have hshle : c.ga.countP (isShown x) ≤ 1 := by omega
    -- no answer for `x` is on its way yet
    have hnil : ans x c.swap.live = [] := by
      refine ans_eq_nil_of (fun m hm => ?_)
      cases ho : ansOf x m with
      | none => rfl
      | some bb =>
        exfalso
        have hmp : m ∈ c.path := mem_live_path (c := c.swap) hm
        rcases ansOf_some ho with ⟨_, rfl⟩ | ⟨_, rfl⟩
        · obtain ⟨k', b1, b2, b3, hs', hr'⟩ := h.base.r.backing x hmp ⟨req, bt', host', port', ha⟩
          have : k' = k := shown_unique hshle hs' hsh0
          subst this
          exact hnone true hr'
        · rcases h.r.rback x hmp ⟨req, bt', host', port', ha⟩ with h1 | h1 | ⟨k', b1, b2, b3, hs', h1⟩
          · exact hcap' h1
          · exact hmux' h1
          · have : k' = k := shown_unique hshle hs' hsh0
            subst this
            rcases h1 with h1 | h1
            · exact hnone false h1
            · have := h.locA.dropd k' b hk h1.1
              rw [this] at hal; cases hal
    rw [live_swap] at hnil
    rw [hws, hq]
    cases hab : c.abOpen with
    | false =>
      simp only [hab, Bool.false_eq_true, if_false] at hnil ⊢
      exact Or.inr ⟨hnil, Or.inl trivial⟩
    | true =>
      simp only [hab, if_true] at hnil ⊢
      left
      have hA : ans x (inMsgs c.b.inbox ++ (c.ab ++ ([] ++ (c.a.outq ++ [Msg.frame (Frame.finish b.fid)])))) =
          ans x (inMsgs c.b.inbox ++ (c.ab ++ c.a.outq)) ++ [true] := by
        simp only [ans_append, List.nil_append, List.append_assoc, if_true]
        simp [ans, ansOf, hbx]
      rw [hA, hnil]; rfl

end Penguin.BindAll
