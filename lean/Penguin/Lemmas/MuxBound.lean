/-
Bounded buffering and the reserved id, for every history of one endpoint and ANY peer.

`Bnd e`: every stream's receive queue holds at most the stream's own window of frames; the accept
queue, the datagram queue and the bind queue hold at most their configured capacities; no slot of
the flow table is under the reserved flow id 0.  Every function of the endpoint model preserves it
(`KeepsB`), hence every stimulus and every history: whatever a peer sends — more `Push` frames than
the window allows, floods of `Connect`, `Datagram` or `Bind` frames, frames with id 0 — the endpoint
never buffers more than it was configured to, and never uses id 0.
Core Lean only.
-/
import Penguin.Lemmas.MuxReach

namespace Penguin.Mux

structure Bnd (c : Opts) (e : EP) : Prop where
  opts : e.opts = c
  rxq : ∀ (i : Nat) (o : Obj), e.objs[i]? = some o → o.rxq.length ≤ o.cap
  acc : e.acceptq.length ≤ e.opts.acceptCap
  dg : e.dgramq.length ≤ e.opts.dgramCap
  bnd : e.bindq.length ≤ e.opts.bindCap
  zero : lookup e.flows 0 = none

/-- `e'` keeps the bounds of `e`. -/
def KeepsB (e e' : EP) : Prop := ∀ c, Bnd c e → Bnd c e'

theorem KeepsB.refl (e : EP) : KeepsB e e := fun _ h => h
theorem KeepsB.trans {a b c : EP} (s : KeepsB a b) (t : KeepsB b c) : KeepsB a c := fun k h => t k (s k h)
theorem KeepsB.after {a b c : EP} (t : KeepsB b c) (s : KeepsB a b) : KeepsB a c := s.trans t

/-- A state that differs from `e` in fields the bounds do not mention, or shortens a queue. -/
macro "kb" : tactic => `(tactic| (
  intro c h
  refine ⟨?_, ?_, ?_, ?_, ?_, ?_⟩
  · first | exact h.opts | (simpa using h.opts)
  · first | exact h.rxq | (intro i o ho; exact h.rxq i o (by simpa using ho))
  · first | exact h.acc | (have := h.acc; simp_all <;> omega)
  · first | exact h.dg | (have := h.dg; simp_all <;> omega)
  · first | exact h.bnd | (have := h.bnd; simp_all <;> omega)
  · first | exact h.zero | rfl | (simpa using h.zero)))

/-- Side condition of an object update that does not touch the receive queue or the capacity. -/
macro "wkb" : tactic => `(tactic| (intro o _ h; first | exact h | (simp)))
/-- … of `wake` / `disallow_write` / closing. -/
macro "wkw" : tactic => `(tactic| (intro o _ h; simp only [Obj.disallowWrite, Obj.wake]; split <;> exact h))

/-! ### Building blocks -/

theorem KeepsB.modObj (e : EP) (i : Nat) (f : Obj → Obj)
    (hf : ∀ o, e.objs[i]? = some o → o.rxq.length ≤ o.cap → (f o).rxq.length ≤ (f o).cap) :
    KeepsB e (e.modObj i f) := by
  intro c h
  refine ⟨h.opts, ?_, h.acc, h.dg, h.bnd, h.zero⟩
  intro j o hjo
  by_cases hj : j = i
  · subst hj
    rw [modObj_get_self] at hjo
    cases ho : e.objs[j]? with
    | none => rw [ho] at hjo; cases hjo
    | some o0 =>
      rw [ho] at hjo; simp only [Option.map_some, Option.some.injEq] at hjo
      subst hjo
      exact hf o0 ho (h.rxq j o0 ho)
  · rw [modObj_get_ne _ _ _ _ hj] at hjo; exact h.rxq j o hjo

theorem KeepsB.enq (e : EP) (m : Msg) : KeepsB e (e.enq m) := by
  unfold EP.enq; split
  · exact KeepsB.refl e
  · kb
theorem KeepsB.enqFrame (e : EP) (f : Frame) : KeepsB e (e.enqFrame f) := KeepsB.enq e _

theorem KeepsB.erase (e : EP) (fid : Nat) : KeepsB e { e with flows := erase e.flows fid } := by
  intro c h
  refine ⟨h.opts, h.rxq, h.acc, h.dg, h.bnd, ?_⟩
  show lookup (Mux.erase e.flows fid) 0 = none
  by_cases hz : 0 = fid
  · subst hz; exact lookup_erase_self _ _
  · rw [lookup_erase_ne _ _ _ hz]; exact h.zero

theorem KeepsB.insertPending (e : EP) (fid : Nat) (s : Slot) (h0 : fid ≠ 0) :
    KeepsB e { e with flows := insert e.flows fid s } := by
  intro c h
  refine ⟨h.opts, h.rxq, h.acc, h.dg, h.bnd, ?_⟩
  show lookup (Mux.insert e.flows fid s) 0 = none
  rw [lookup_insert_ne _ _ _ _ (Ne.symm h0)]; exact h.zero

theorem KeepsB.newStream (e : EP) (fid : Nat) (o : Obj) (hq : o.rxq.length ≤ o.cap) (h0 : ∀ c, Bnd c e → fid ≠ 0) :
    KeepsB e { e with objs := e.objs ++ [o], flows := insert e.flows fid (.established e.objs.length) } := by
  intro c h
  refine ⟨h.opts, ?_, h.acc, h.dg, h.bnd, ?_⟩
  · intro i o' hio
    have hio' : (e.objs ++ [o])[i]? = some o' := hio
    by_cases hi : i < e.objs.length
    · rw [List.getElem?_append_left hi] at hio'; exact h.rxq i o' hio'
    · have hlen : i < (e.objs ++ [o]).length := (List.getElem?_eq_some_iff.mp hio').1
      have : i = e.objs.length := by simp at hlen; omega
      subst this
      simp at hio'; subst hio'; exact hq
  · show lookup (Mux.insert e.flows fid _) 0 = none
    rw [lookup_insert_ne _ _ _ _ (Ne.symm (h0 c h))]; exact h.zero

/-! ### Function by function -/

theorem KeepsB.openRound (e : EP) (r : OpenReq) : KeepsB e (openRound e r).1 := by
  unfold Mux.openRound
  split
  · exact (by kb)
  · split
    · exact (by kb)
    · rename_i fid rng' fb' hd
      have g : KeepsB e { e with flows := insert e.flows fid (.requested r.req) } :=
        KeepsB.insertPending e fid _ (drawId_spec _ _ _ _ _ _ _ hd).1
      simp only
      split
      · exact (by kb)
      · exact (KeepsB.enqFrame _ _).after (g.trans ((by kb)))

theorem KeepsB.openRejected (e : EP) (req : Nat) (final : Bool) : KeepsB e (openRejected e req final).1 := by
  unfold Mux.openRejected
  repeat' split
  all_goals first | exact KeepsB.refl _ | kb

theorem KeepsB.closeLocal (e : EP) (s : Slot) (fid : Nat) (inh final : Bool) : KeepsB e (closeLocal e s fid inh final).1 := by
  unfold Mux.closeLocal
  cases s with
  | established i =>
    simp only
    cases ho : e.obj? i with
    | none => exact KeepsB.refl e
    | some o =>
      simp only
      have g := KeepsB.modObj e i (fun o => { o.disallowWrite with senderAlive := false })
        (by wkw)
      split
      · exact g.trans (KeepsB.enqFrame _ _)
      · exact g
  | requested req => exact KeepsB.openRejected e req final
  | bindRequested req => exact KeepsB.refl e

theorem KeepsB.closeFlow (e : EP) (fid : Nat) (inh : Bool) : KeepsB e (closeFlow e fid inh).1 := by
  unfold Mux.closeFlow
  split
  · exact KeepsB.refl e
  · exact (KeepsB.erase e fid).trans (KeepsB.closeLocal _ _ _ _ _)

theorem KeepsB.offerAccept (e : EP) (i : Nat) : KeepsB e (offerAccept e i) :=
  by unfold Mux.offerAccept; split <;> kb

theorem KeepsB.offerBind (e : EP) (b : BindIn) : KeepsB e (offerBind e b) :=
  by unfold Mux.offerBind; split <;> kb

theorem KeepsB.processFrame (e : EP) (f : Frame) (ig : Bool) : KeepsB e (processFrame e f ig).1 := by
  cases f with
  | connect fid rwnd port host =>
    simp only [Mux.processFrame]
    split
    · exact KeepsB.enqFrame _ _
    · rename_i hc
      have hz : ∀ c, Bnd c e → fid ≠ 0 := fun _ _ h0 => hc (Or.inl h0)
      have g := KeepsB.newStream e fid (newObj e.opts fid rwnd host port) (by simp [newObj]) hz
      split
      · exact g
      · split
        · exact (KeepsB.after (KeepsB.modObj _ e.objs.length (fun o => { o with rxOpen := false }) (by wkb)) (KeepsB.after (KeepsB.enqFrame _ (.acknowledge fid e.opts.rwnd)) g)).trans ((by kb))
        · exact KeepsB.after (KeepsB.offerAccept _ _) (KeepsB.after (KeepsB.enqFrame _ _) g)
  | acknowledge fid n =>
    simp only [Mux.processFrame]
    split
    · exact KeepsB.modObj _ _ _ (by wkw)
    · rename_i req hl
      have hz : ∀ c, Bnd c e → fid ≠ 0 := by
        intro _ hb h0; subst h0; rw [hb.zero] at hl; cases hl
      have g := KeepsB.newStream e fid (newObj e.opts fid n [] 0) (by simp [newObj]) hz
      split
      · exact g.trans ((by kb))
      · exact (KeepsB.after (KeepsB.modObj _ e.objs.length (fun o => { o with rxOpen := false }) (by wkb)) g).trans ((by kb))
    · exact KeepsB.enqFrame _ _
    · exact KeepsB.enqFrame _ _
  | finish fid =>
    simp only [Mux.processFrame]
    split
    · exact KeepsB.enqFrame _ _
    · exact KeepsB.erase e fid
    · exact (KeepsB.enqFrame _ _).after ((KeepsB.erase e fid).trans ((by kb)))
    · exact KeepsB.modObj _ _ _ (by wkb)
  | reset fid =>
    simp only [Mux.processFrame]
    exact KeepsB.closeFlow e fid true
  | push fid d =>
    simp only [Mux.processFrame]
    split
    · split
      · exact KeepsB.refl e
      · split
        · exact KeepsB.enqFrame _ _
        · split
          · exact KeepsB.refl e
          · split
            · rename_i i _ _ o ho _ _ hroom
              refine KeepsB.modObj _ _ _ ?_
              intro o' ho' _
              have ho2 : e.objs[i]? = some o := ho
              rw [ho2] at ho'; cases ho'
              simp only [List.length_append, List.length_cons, List.length_nil]
              omega
            · exact KeepsB.closeFlow e fid false
    · exact KeepsB.enqFrame _ _
  | bind fid bt port host =>
    simp only [Mux.processFrame]
    repeat' split
    all_goals first | exact KeepsB.refl e | exact KeepsB.enqFrame _ _ | exact KeepsB.offerBind _ _
  | datagram fid port host d =>
    simp only [Mux.processFrame]
    repeat' split
    all_goals first | exact KeepsB.refl e | exact (by kb)

theorem KeepsB.processIn (e : EP) (w : WsIn) (ig : Bool) : KeepsB e (processIn e w ig).1 := by
  cases w with
  | msg m => cases m <;> first | exact KeepsB.processFrame _ _ ig | exact KeepsB.refl e
  | bad b => exact KeepsB.refl e
  | err => exact KeepsB.refl e
  | eof => exact KeepsB.refl e

/-! ### Wind-down -/

theorem KeepsB.disallowAll (e : EP) (l : List (Nat × Slot)) : KeepsB e (disallowAll e l) := by
  induction l generalizing e with
  | nil => exact KeepsB.refl e
  | cons p l ih =>
    obtain ⟨fid, s⟩ := p
    cases s with
    | established i =>
      simp only [Mux.disallowAll]
      exact (KeepsB.modObj e i _ (by wkw)).trans (ih _)
    | requested r => simp only [Mux.disallowAll]; exact ih e
    | bindRequested r => simp only [Mux.disallowAll]; exact ih e

theorem KeepsB.windDownInbox (e : EP) (l : List WsIn) : KeepsB e (windDownInbox e l).1 := by
  induction l generalizing e with
  | nil => exact KeepsB.refl e
  | cons w l ih =>
    cases w with
    | err => exact KeepsB.refl e
    | eof => exact KeepsB.refl e
    | msg m =>
      simp only [Mux.windDownInbox]
      exact (ih _).after ((KeepsB.processIn e (.msg m) true).trans ((by kb)))
    | bad b =>
      simp only [Mux.windDownInbox]
      exact (ih _).after ((KeepsB.processIn e (.bad b) true).trans ((by kb)))

theorem KeepsB.drainFlows (e : EP) (l : List (Nat × Slot)) : KeepsB e (drainFlows e l).1 := by
  induction l generalizing e with
  | nil => exact KeepsB.refl e
  | cons p l ih =>
    obtain ⟨fid, s⟩ := p
    simp only [Mux.drainFlows]
    exact (KeepsB.closeLocal e s fid true true).trans (ih _)

theorem KeepsB.windDownFinish (e : EP) (res : ExitRes) : KeepsB e (windDownFinish e res).1 := by
  have g0 : KeepsB e { e with flows := [] } := by kb
  have g1 := g0.trans (KeepsB.drainFlows _ e.flows)
  intro c h
  have h1 := g1 c h
  simp only [Mux.windDownFinish]
  exact ⟨h1.opts, h1.rxq, h1.acc, h1.dg, h1.bnd, h1.zero⟩

theorem KeepsB.windDownTail (e1 : EP) (flushed : List Ev) (srcEnded : Bool) (res : ExitRes) :
    KeepsB e1 (windDownTail e1 flushed srcEnded res).1 := by
  have g := (KeepsB.windDownInbox e1 e1.inbox).trans
    ((by kb) : KeepsB (Mux.windDownInbox e1 e1.inbox).1 { (Mux.windDownInbox e1 e1.inbox).1 with inbox := [] })
  simp only [Mux.windDownTail]
  split
  · exact g.trans (KeepsB.windDownFinish _ res)
  · exact g.trans ((by kb))

theorem KeepsB.sendSome (e : EP) : KeepsB e (sendSome e).1 := by
  unfold Mux.sendSome
  split <;> exact (by kb)

theorem KeepsB.dropPrep (e : EP) : KeepsB e (dropPrep e) :=
  (KeepsB.disallowAll e e.flows).trans ((by kb))

theorem KeepsB.windDown (e : EP) (drain : Bool) (res : ExitRes) : KeepsB e (windDown e drain res).1 := by
  simp only [Mux.windDown]
  split
  · have g := (KeepsB.dropPrep e).trans (KeepsB.sendSome _)
    split
    · exact g.trans (KeepsB.windDownTail _ _ _ _)
    · exact g.trans ((by kb))
  · exact ((KeepsB.disallowAll e e.flows).trans ((by kb) : KeepsB (Mux.disallowAll e e.flows) (Mux.windDownPrep e))).trans
      (KeepsB.windDownTail _ _ _ _)

/-! ### The task's loops -/

theorem KeepsB.unpark (e : EP) : KeepsB e (unpark e) := by
  unfold Mux.unpark
  split
  · exact KeepsB.refl e
  · split
    · split
      · exact (KeepsB.modObj e _ (fun o => { o with rxOpen := false }) (by wkb)).trans ((by kb))
      · exact (by kb)
    · split
      · exact (by kb)
      · exact KeepsB.refl e
  · split
    · exact ((by kb) : KeepsB e { e with park := none }).trans (KeepsB.enqFrame _ _)
    · split
      · exact (by kb)
      · exact KeepsB.refl e

theorem KeepsB.drainStep (e : EP) (res : ExitRes) : KeepsB e (drainStep e res).1 := by
  simp only [Mux.drainStep]
  split
  · exact (KeepsB.windDownTail _ _ _ _).after ((KeepsB.sendSome e).trans ((by kb)))
  · exact KeepsB.sendSome e

theorem KeepsB.closingStep (e : EP) (res : ExitRes) : KeepsB e (closingStep e res).1 := by
  have g := (KeepsB.windDownInbox e e.inbox).trans
    ((by kb) : KeepsB (Mux.windDownInbox e e.inbox).1 { (Mux.windDownInbox e e.inbox).1 with inbox := [] })
  simp only [Mux.closingStep]
  split
  · exact g.trans (KeepsB.windDownFinish _ res)
  · exact g

theorem KeepsB.recvOne (e : EP) (w : WsIn) (rest : List WsIn) : KeepsB e (recvOne e w rest).1 := by
  simp only [Mux.recvOne]
  refine KeepsB.after (KeepsB.processIn _ _ _) ?_
  split <;> exact (by kb)

theorem KeepsB.settleLoop (fuel : Nat) (e : EP) (acc : List Ev) : KeepsB e (settleLoop fuel e acc).1 := by
  induction fuel generalizing e acc with
  | zero => exact KeepsB.refl e
  | succ n ih =>
    unfold Mux.settleLoop
    split
    · exact KeepsB.refl e
    · split
      · exact KeepsB.drainStep _ _
      · split
        · exact KeepsB.closingStep _ _
        · have gu := KeepsB.unpark e
          split
          · rename_i w rest _ _
            have gp := gu.trans (KeepsB.recvOne (Mux.unpark e) w rest)
            split
            · exact gp.trans (KeepsB.windDown _ _ _)
            · exact gp.trans (ih _ _)
          · split
            · exact (KeepsB.windDown _ _ _).after (gu.trans ((by kb)))
            · rename_i fid rest _ hq
              exact (ih _ _).after ((KeepsB.closeFlow _ fid false).after (gu.trans ((by kb))))
            · exact gu

theorem KeepsB.runRetries (e : EP) (l : List Nat) : KeepsB e (runRetries e l).1 := by
  induction l generalizing e with
  | nil => exact KeepsB.refl e
  | cons req rest ih =>
    unfold Mux.runRetries
    split
    · exact ih e
    · rename_i r _
      exact (KeepsB.openRound e r).trans (ih _)

theorem KeepsB.runDone (e : EP) (l : List (Nat × Nat)) : KeepsB e (runDone e l).1 := by
  induction l generalizing e with
  | nil => exact KeepsB.refl e
  | cons x rest ih =>
    obtain ⟨req, i⟩ := x
    unfold Mux.runDone
    exact ((by kb) : KeepsB e { e with handles := e.handles ++ [i] }).trans (ih _)

theorem KeepsB.hold (e : EP) (c : Bool) : KeepsB e (if c then (e, ([] : List Ev)) else Mux.sendSome e).1 := by
  split
  · exact KeepsB.refl e
  · exact KeepsB.sendSome e

theorem KeepsB.settle (e : EP) : KeepsB e (settle e).1 := by
  have h1 := KeepsB.settleLoop (2 * e.inbox.length + e.droppedq.length + 2) e []
  unfold Mux.settle
  generalize Mux.settleLoop (2 * e.inbox.length + e.droppedq.length + 2) e [] = r1 at h1
  obtain ⟨e1, evs1⟩ := r1
  simp only
  have s1 := KeepsB.hold e1 (e1.dead || e1.draining.isSome)
  generalize (if (e1.dead || e1.draining.isSome) = true then (e1, ([] : List Ev)) else Mux.sendSome e1) = r2 at s1
  obtain ⟨e2, w2⟩ := r2
  simp only at s1 ⊢
  have s2 : KeepsB e2 (Mux.runDone { e2 with doneq := [] } (e2.doneq.foldr insertDone [])).1 :=
    ((by kb) : KeepsB e2 { e2 with doneq := [] }).trans (KeepsB.runDone _ _)
  generalize Mux.runDone { e2 with doneq := [] } (e2.doneq.foldr insertDone []) = r3 at s2
  obtain ⟨e3, w3⟩ := r3
  simp only at s2 ⊢
  have s3 : KeepsB e3 (Mux.runRetries { e3 with retryq := [] } (sortNat e3.retryq)).1 :=
    ((by kb) : KeepsB e3 { e3 with retryq := [] }).trans (KeepsB.runRetries _ _)
  generalize Mux.runRetries { e3 with retryq := [] } (sortNat e3.retryq) = r4 at s3
  obtain ⟨e4, w4⟩ := r4
  simp only at s3 ⊢
  have s4 := KeepsB.hold e4 (e4.dead || e4.draining.isSome)
  exact h1.trans (((s1.trans s2).trans s3).trans s4)

/-! ### Application calls -/

theorem KeepsB.appWrite (e : EP) (h : Nat) (d : Bytes) : KeepsB e (appWrite e h d).1 := by
  unfold Mux.appWrite
  split
  · exact KeepsB.refl e
  · split
    · exact KeepsB.modObj e _ _ (by wkb)
    · split
      · exact KeepsB.modObj e _ _ (by wkb)
      · split
        · exact KeepsB.modObj e _ _ (by wkb)
        · split
          · exact KeepsB.modObj e _ _ (by wkb)
          · exact (KeepsB.enqFrame _ _).after (KeepsB.modObj e _ _ (by wkb))

theorem KeepsB.ackStep (e : EP) (i : Nat) (o : Obj) : KeepsB e (ackStep e i o) := by
  unfold Mux.ackStep
  split
  · exact (KeepsB.enqFrame _ _).after (KeepsB.modObj e _ _ (by wkb))
  · exact KeepsB.modObj e _ _ (by wkb)

theorem KeepsB.fillBuf (fuel : Nat) (e : EP) (i : Nat) : KeepsB e (fillBuf fuel e i).1 := by
  induction fuel generalizing e with
  | zero => exact KeepsB.refl e
  | succ n ih =>
    unfold Mux.fillBuf
    split
    · exact KeepsB.refl e
    · split
      · exact KeepsB.refl e
      · split
        · rename_i _ o ho _ _ f rest hq
          have s := (KeepsB.modObj e i (fun o => { o with rxq := rest, buf := f }) (by
              intro o' ho' hb
              rw [ho] at ho'; cases ho'
              rw [hq] at hb
              simp only [List.length_cons] at hb
              show rest.length ≤ o.cap
              omega)).trans
            (KeepsB.ackStep _ i { o with rxq := rest, buf := f })
          simp only
          split
          · exact s.trans (ih _)
          · exact s
        · split
          · exact KeepsB.refl e
          · exact KeepsB.modObj e _ _ (by wkb)

theorem KeepsB.appRead (e : EP) (h n : Nat) : KeepsB e (appRead e h n).1 := by
  unfold Mux.appRead
  split
  · exact KeepsB.refl e
  · rename_i i o _
    have s := KeepsB.fillBuf (o.rxq.length + 2) e i
    split
    · rename_i e' b heq
      rw [heq] at s
      exact s.trans (KeepsB.modObj _ _ _ (by wkb))
    · exact s

theorem KeepsB.appShutdown (e : EP) (h : Nat) : KeepsB e (appShutdown e h).1 := by
  unfold Mux.appShutdown
  split
  · exact KeepsB.refl e
  · split
    · exact KeepsB.modObj e _ _ (by wkb)
    · exact (KeepsB.enqFrame _ _).after (KeepsB.modObj e _ _ (by wkb))

theorem KeepsB.appDropStream (e : EP) (h : Nat) : KeepsB e (appDropStream e h).1 := by
  unfold Mux.appDropStream
  split
  · exact KeepsB.refl e
  · simp only
    split
    · exact KeepsB.modObj e _ _ (by wkb)
    · exact (KeepsB.modObj e _ (fun o => { o with rxOpen := false, rxq := [], parked := false }) (by wkb)).trans
        ((by kb))

theorem KeepsB.appAccept (e : EP) : KeepsB e (appAccept e).1 := by
  unfold Mux.appAccept
  split
  · split
    · exact (by kb)
    · exact KeepsB.refl e
  · split <;> exact KeepsB.refl e

theorem KeepsB.appSendDgram (e : EP) (d : Dgram) : KeepsB e (appSendDgram e d).1 := by
  unfold Mux.appSendDgram
  split
  · exact KeepsB.refl e
  · split
    · exact KeepsB.refl e
    · exact KeepsB.enqFrame _ _

theorem KeepsB.appRecvDgram (e : EP) : KeepsB e (appRecvDgram e).1 := by
  unfold Mux.appRecvDgram
  split
  · exact (by kb)
  · split <;> exact KeepsB.refl e

theorem KeepsB.appBindReq (e : EP) (req : Nat) (bt : BindType) (host : Bytes) (port : Nat) :
    KeepsB e (appBindReq e req bt host port).1 := by
  unfold Mux.appBindReq
  split
  · exact KeepsB.refl e
  · rename_i fid rng' fb' hd
    split
    · exact (by kb)
    · have s : KeepsB e { e with rng := rng', fallback := fb', flows := insert e.flows fid (.bindRequested req) } :=
        (KeepsB.insertPending e fid (.bindRequested req) (drawId_spec _ _ _ _ _ _ _ hd).1).trans ((by kb))
      exact s.trans (KeepsB.enqFrame _ _)

theorem KeepsB.appBindNext (e : EP) : KeepsB e (appBindNext e).1 := by
  unfold Mux.appBindNext
  split
  · exact KeepsB.refl e
  · split
    · exact (by kb)
    · split <;> exact KeepsB.refl e

theorem KeepsB.appBindReply (e : EP) (k : Nat) (a : Bool) : KeepsB e (appBindReply e k a).1 := by
  unfold Mux.appBindReply
  split
  · exact KeepsB.refl e
  · split
    · exact KeepsB.refl e
    · split
      · exact KeepsB.refl e
      · exact (KeepsB.enqFrame e _).trans ((by kb))

theorem KeepsB.appBindDrop (e : EP) (k : Nat) : KeepsB e (appBindDrop e k).1 := by
  unfold Mux.appBindDrop
  split
  · exact KeepsB.refl e
  · split
    · exact KeepsB.refl e
    · simp only
      split
      · exact (by kb)
      · exact (KeepsB.enqFrame _ _).after ((by kb))

theorem KeepsB.foldEnq (l : List BindIn) (e : EP) :
    KeepsB e (l.foldl (fun e b => e.enqFrame (.reset b.fid)) e) := by
  induction l generalizing e with
  | nil => exact KeepsB.refl e
  | cons b rest ih => exact (KeepsB.enqFrame e _).trans (ih _)

theorem KeepsB.appDropMux (e : EP) : KeepsB e (appDropMux e).1 := by
  unfold Mux.appDropMux
  simp only
  have s1 : KeepsB e { e with muxAlive := false, droppedq := if e.dead then e.droppedq else e.droppedq ++ [0] } :=
    (by kb)
  exact (s1.trans (KeepsB.foldEnq e.bindq _)).trans ((by kb))

theorem KeepsB.opStep (e : EP) (op : Op) : KeepsB e (opStep e op).1 := by
  cases op with
  | «open» req host port =>
    simp only [Mux.opStep]
    split
    · exact KeepsB.refl e
    · exact KeepsB.openRound e _
  | accept => exact KeepsB.appAccept e
  | write h d => exact KeepsB.appWrite e h d
  | read h n => exact KeepsB.appRead e h n
  | shutdown h => exact KeepsB.appShutdown e h
  | dropStream h => exact KeepsB.appDropStream e h
  | sendDgram d => exact KeepsB.appSendDgram e d
  | recvDgram => exact KeepsB.appRecvDgram e
  | bindReq req bt host port => exact KeepsB.appBindReq e req bt host port
  | bindNext => exact KeepsB.appBindNext e
  | bindReply k a => exact KeepsB.appBindReply e k a
  | bindDrop k => exact KeepsB.appBindDrop e k
  | dropMux => exact KeepsB.appDropMux e
  | sinkRoom n => exact (by kb)
  | cancelOpen req => exact (by kb)
  | deliver w =>
    simp only [Mux.opStep]
    split
    · exact KeepsB.refl e
    · split <;> exact (by kb)

/-! ### Every stimulus, every history -/

theorem KeepsB.applyOp (e : EP) (op : Op) : KeepsB e (applyOp e op).1 := by
  have h1 := KeepsB.opStep e op
  unfold Mux.applyOp
  generalize Mux.opStep e op = r at h1
  obtain ⟨e1, r1, evs1⟩ := r
  exact h1.trans (KeepsB.settle e1)

theorem KeepsB.runOps (e : EP) (ops : List Op) : KeepsB e (runOps e ops) := by
  induction ops generalizing e with
  | nil => exact KeepsB.refl e
  | cons op rest ih => exact (KeepsB.applyOp e op).trans (ih _)

/-- In every state an endpoint reaches — any sequence of application calls and deliveries, any
    peer — the bounds hold. -/
theorem reachable_bnd (o : Opts) (ops : List Op) : Bnd o (runOps { opts := o } ops) :=
  KeepsB.runOps _ ops o ⟨rfl, by intro i ob h; simp at h, Nat.zero_le _, Nat.zero_le _, Nat.zero_le _, rfl⟩

end Penguin.Mux
