/-
Basic lemmas about the endpoint model (`Penguin.Mux`): the flow table as an association list, the
outbound queue, and the one-step behaviour of `processFrame`, `closeFlow` and friends.
-/
import Penguin.Model.Mux

namespace Penguin.Mux

/-! ### The flow table -/

@[simp] theorem lookup_nil (k : Nat) : lookup [] k = none := rfl

theorem lookup_cons (k' : Nat) (v : Slot) (m : List (Nat × Slot)) (k : Nat) :
    lookup ((k', v) :: m) k = if k' = k then some v else lookup m k := rfl

theorem lookup_mem (m : List (Nat × Slot)) (k : Nat) (v : Slot) (h : lookup m k = some v) : (k, v) ∈ m := by
  induction m with
  | nil => simp at h
  | cons p m ih =>
    obtain ⟨k', v'⟩ := p
    rw [lookup_cons] at h
    split at h
    · rename_i hk; subst hk; simp only [Option.some.injEq] at h; subst h; simp
    · exact List.mem_cons_of_mem _ (ih h)

theorem lookup_erase_self (m : List (Nat × Slot)) (k : Nat) : lookup (erase m k) k = none := by
  induction m with
  | nil => rfl
  | cons p m ih =>
    obtain ⟨k', v⟩ := p
    unfold erase at *
    by_cases h : k' = k
    · simp only [List.filter, h, ne_eq, not_true_eq_false, decide_false]; exact ih
    · simp only [List.filter, h, ne_eq, not_false_eq_true, decide_true, lookup_cons, if_false]; exact ih

theorem lookup_erase_ne (m : List (Nat × Slot)) (k y : Nat) (h : y ≠ k) :
    lookup (erase m k) y = lookup m y := by
  induction m with
  | nil => rfl
  | cons p m ih =>
    obtain ⟨k', v⟩ := p
    unfold erase at *
    by_cases h1 : k' = k
    · have h2 : ¬ k' = y := by omega
      simp only [List.filter, h1, ne_eq, not_true_eq_false, decide_false, lookup_cons]
      rw [if_neg (by omega)]; exact ih
    · simp only [List.filter, h1, ne_eq, not_false_eq_true, decide_true, lookup_cons]
      by_cases h2 : k' = y
      · simp [h2]
      · simp only [h2, if_false]; exact ih

theorem lookup_insert_self (m : List (Nat × Slot)) (k : Nat) (v : Slot) :
    lookup (insert m k v) k = some v := by
  simp [insert, lookup_cons]

theorem lookup_insert_ne (m : List (Nat × Slot)) (k y : Nat) (v : Slot) (h : y ≠ k) :
    lookup (insert m k v) y = lookup m y := by
  have : k ≠ y := fun e => h e.symm
  simp [insert, lookup_cons, this, lookup_erase_ne m k y h]

/-! ### The outbound queue -/

theorem enq_outq (e : EP) (m : Msg) :
    (e.enq m).outq = if e.outClosed then e.outq else e.outq ++ [m] := by
  unfold EP.enq; split <;> rfl

@[simp] theorem enq_flows (e : EP) (m : Msg) : (e.enq m).flows = e.flows := by
  unfold EP.enq; split <;> rfl
@[simp] theorem enq_objs (e : EP) (m : Msg) : (e.enq m).objs = e.objs := by
  unfold EP.enq; split <;> rfl
@[simp] theorem enq_outClosed (e : EP) (m : Msg) : (e.enq m).outClosed = e.outClosed := by
  unfold EP.enq; split <;> rfl
@[simp] theorem enq_dead (e : EP) (m : Msg) : (e.enq m).dead = e.dead := by
  unfold EP.enq; split <;> rfl
@[simp] theorem enq_dgramq (e : EP) (m : Msg) : (e.enq m).dgramq = e.dgramq := by
  unfold EP.enq; split <;> rfl
@[simp] theorem enq_opens (e : EP) (m : Msg) : (e.enq m).opens = e.opens := by
  unfold EP.enq; split <;> rfl
@[simp] theorem enq_muxAlive (e : EP) (m : Msg) : (e.enq m).muxAlive = e.muxAlive := by
  unfold EP.enq; split <;> rfl
@[simp] theorem enq_opts (e : EP) (m : Msg) : (e.enq m).opts = e.opts := by
  unfold EP.enq; split <;> rfl

@[simp] theorem enq_park (e : EP) (m : Msg) : (e.enq m).park = e.park := by
  unfold EP.enq; split <;> rfl
@[simp] theorem modObj_dead (e : EP) (i : Nat) (f : Obj → Obj) : (e.modObj i f).dead = e.dead := rfl
@[simp] theorem modObj_park (e : EP) (i : Nat) (f : Obj → Obj) : (e.modObj i f).park = e.park := rfl
@[simp] theorem modObj_flows (e : EP) (i : Nat) (f : Obj → Obj) : (e.modObj i f).flows = e.flows := rfl
@[simp] theorem modObj_outq (e : EP) (i : Nat) (f : Obj → Obj) : (e.modObj i f).outq = e.outq := rfl
@[simp] theorem modObj_outClosed (e : EP) (i : Nat) (f : Obj → Obj) : (e.modObj i f).outClosed = e.outClosed := rfl
@[simp] theorem modObj_opts (e : EP) (i : Nat) (f : Obj → Obj) : (e.modObj i f).opts = e.opts := rfl

theorem modObj_get_ne (e : EP) (i j : Nat) (f : Obj → Obj) (h : j ≠ i) :
    (e.modObj i f).objs[j]? = e.objs[j]? := by
  simp [EP.modObj, setObj, List.getElem?_modify, Ne.symm h]

theorem modObj_get_self (e : EP) (i : Nat) (f : Obj → Obj) :
    (e.modObj i f).objs[i]? = (e.objs[i]?).map f := by
  simp [EP.modObj, setObj, List.getElem?_modify]

@[simp] theorem modObj_length (e : EP) (i : Nat) (f : Obj → Obj) :
    (e.modObj i f).objs.length = e.objs.length := by
  simp [EP.modObj, setObj]

/-- A message is a `Reset` frame. -/
def Msg.isReset : Msg → Bool
  | .frame (.reset _) => true
  | _ => false

/-- The flow a message belongs to (`none` for control messages and datagrams, which use their own
    id space). -/
def Msg.flow? : Msg → Option Nat
  | .frame (.datagram ..) => none
  | .frame f => some f.id
  | _ => none

end Penguin.Mux
