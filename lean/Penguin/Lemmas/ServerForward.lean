/-
Helper lemmas for `Model/ServerForward.lean`: the candidate loop in closed form.
-/
import Penguin.Model.ServerForward

namespace Penguin.ServerForward
open Penguin

theorem outgoingFor_eq (a : Addr) : outgoingFor a = a.family := by
  unfold outgoingFor
  cases a.family <;> simp

/-- What the bind errors leave in `last_err`. -/
def lastBindErr (as : List Addr) (last : Option Err) : Err :=
  (as.getLast?.map (fun b => Err.bind b.family)).getD (last.getD .noAddress)

/-- The candidate loop in closed form: the chosen candidate is `find?` of "its bind succeeds", every candidate
    before it was tried and failed, none after it was touched. -/
theorem tryCandidates_eq (bindOk : Family → Bool) (as : List Addr) (last : Option Err) :
    tryCandidates bindOk as last =
      match as.find? (fun b => bindOk b.family) with
      | some a => ((as.takeWhile (fun b => !bindOk b.family)).map (fun b => Event.bindFailed b.family b) ++
                    [.bound a.family a], .ok (a.family, a))
      | none => (as.map (fun b => Event.bindFailed b.family b), .error (lastBindErr as last)) := by
  induction as generalizing last with
  | nil => simp [tryCandidates, lastBindErr]
  | cons a rest ih =>
    by_cases h : bindOk a.family = true
    · simp [tryCandidates, outgoingFor_eq, h]
    · simp only [Bool.not_eq_true] at h
      simp only [tryCandidates, outgoingFor_eq, h, List.find?_cons, List.takeWhile_cons, ih]
      cases hf : rest.find? (fun b => bindOk b.family) with
      | some c => simp
      | none =>
        cases rest with
        | nil => simp [lastBindErr]
        | cons b r =>
          simp only [lastBindErr, List.getLast?_cons_cons]
          rw [List.getLast?_eq_some_getLast (List.cons_ne_nil b r)]
          simp

theorem getLast?_cons_append_append {α : Type} (x : α) (l m n : List α) (h : n ≠ []) :
    (x :: (l ++ (m ++ n))).getLast? = n.getLast? := by
  rw [← List.append_assoc, ← List.cons_append, List.getLast?_append]
  cases n with
  | nil => exact absurd rfl h
  | cons a r => simp [List.getLast?_cons]

theorem getLast?_cons_append_singleton {α : Type} (x : α) (l : List α) (y : α) :
    (x :: (l ++ [y])).getLast? = some y := by
  rw [← List.cons_append, List.getLast?_concat]

/-- The whole forwarder in closed form. -/
theorem tcpForwarder_eq (env : Env) (host : Bytes) (port : Nat) :
    tcpForwarder env host port =
      if env.utf8Ok host = false then [.dropped .invalidHost]
      else match env.resolve host port with
        | .error c => [.dropped (.resolve c)]
        | .ok as =>
          match as.find? (fun b => env.bindOk b.family) with
          | some a => Event.resolved host port as ::
              ((as.takeWhile (fun b => !env.bindOk b.family)).map (fun b => Event.bindFailed b.family b) ++
                ([.bound a.family a] ++ connectAndBridge env a))
          | none => Event.resolved host port as ::
              (as.map (fun b => Event.bindFailed b.family b) ++ [.dropped (lastBindErr as none)]) := by
  simp only [tcpForwarder, bindForTarget]
  cases env.utf8Ok host
  · simp
  · cases env.resolve host port with
    | error c => simp
    | ok as =>
      simp only [tryCandidates_eq]
      cases as.find? (fun b => env.bindOk b.family) <;> simp

/-- The four possible tails. -/
theorem connectAndBridge_cases (env : Env) (a : Addr) :
    (env.connectOk a = false ∧ connectAndBridge env a = [.connectTried a, .dropped .connect]) ∨
    (env.connectOk a = true ∧ env.peerAddrOk a = false ∧
      connectAndBridge env a = [.connectTried a, .connected a, .dropped .peerAddr]) ∨
    (env.connectOk a = true ∧ env.peerAddrOk a = true ∧ env.bridgeOk = false ∧
      connectAndBridge env a = [.connectTried a, .connected a, .bridged a, .dropped .bridge]) ∨
    (env.connectOk a = true ∧ env.peerAddrOk a = true ∧ env.bridgeOk = true ∧
      connectAndBridge env a = [.connectTried a, .connected a, .bridged a, .finished]) := by
  unfold connectAndBridge
  cases env.connectOk a <;> cases env.peerAddrOk a <;> cases env.bridgeOk <;> simp

end Penguin.ServerForward
