/-
Stream integrity on the SENDING side — part 2: the application calls.  Only `poll_write` queues a `Push`,
exactly one per call that returns `wrote n` for a non-empty payload, carrying the flow id of the object
behind the handle and the payload of the call (`wroteBy`).
Core Lean only.
-/
import Penguin.Lemmas.MuxIntegritySend

namespace Penguin.Mux

/-- The successful write of a stimulus: (object behind the handle, its flow id, payload) — looked up
    BEFORE the call; only for a call that answered `wrote n` for a non-empty payload (an empty write
    returns `wrote 0` and sends nothing). -/
def wroteBy (e : EP) (op : Op) (r : Res) : List (Nat × Nat × Bytes) :=
  match op, r with
  | .write h d, .wrote _ =>
    if d.isEmpty then []
    else match e.handleObj h with
      | some (i, o) => [(i, o.fid, d)]
      | none => []
  | _, _ => []

/-- (flow id, payload) of the logged writes: what must appear on the wire. -/
def wroteFrames (w : List (Nat × Nat × Bytes)) : List (Nat × Bytes) := w.map (fun x => (x.2.1, x.2.2))

theorem SnT.appWrite (e : EP) (h : Nat) (d : Bytes) :
    SnT e (appWrite e h d).1 [] (wroteFrames (wroteBy e (.write h d) (appWrite e h d).2)) := by
  unfold Mux.appWrite
  cases hh : e.handleObj h with
  | none => exact SnT.refl e
  | some p =>
    obtain ⟨i, o⟩ := p
    simp only
    split
    · sn_silent
    · split
      · rename_i hd
        simp only [wroteBy, hd, if_true, wroteFrames, List.map_nil]
        sn_silent
      · rename_i hd
        split
        · sn_silent
        · split
          · sn_silent
          · rename_i hoc
            simp only [wroteBy, hd, hh, wroteFrames, List.map_cons, List.map_nil, Bool.false_eq_true, if_false]
            have hoc' : e.outClosed = false := by simpa using hoc
            exact ((SnT.modObj e i _).trans (SnT.enqPush _ o.fid d hoc')).evs rfl rfl

theorem SnT.ackStep (e : EP) (i : Nat) (o : Obj) : SnT e (ackStep e i o) [] [] := by
  unfold Mux.ackStep
  split
  · exact SnT.enqFrame' _ rfl rfl rfl
  · sn_silent

theorem SnT.fillBuf (fuel : Nat) (e : EP) (i : Nat) : SnT e (fillBuf fuel e i).1 [] [] := by
  induction fuel generalizing e with
  | zero => exact SnT.refl e
  | succ n ih =>
    unfold Mux.fillBuf
    split
    · exact SnT.refl e
    · split
      · exact SnT.refl e
      · split
        · rename_i _ o ho _ _ f rest hq
          have s := (SnT.modObj e i (fun o => { o with rxq := rest, buf := f })).tr
            (SnT.ackStep _ i { o with rxq := rest, buf := f })
          simp only
          split
          · exact s.tr (ih _)
          · exact s
        · split
          · exact SnT.refl e
          · sn_silent

theorem SnT.appRead (e : EP) (h n : Nat) : SnT e (appRead e h n).1 [] [] := by
  unfold Mux.appRead
  split
  · exact SnT.refl e
  · rename_i i o _
    have s := SnT.fillBuf (o.rxq.length + 2) e i
    split
    · rename_i e' b heq
      rw [heq] at s
      exact s.tr (SnT.modObj _ _ _)
    · exact s

theorem SnT.appShutdown (e : EP) (h : Nat) : SnT e (appShutdown e h).1 [] [] := by
  unfold Mux.appShutdown
  split
  · exact SnT.refl e
  · split
    · sn_silent
    · exact SnT.enqFrame' _ rfl rfl rfl

theorem SnT.appDropStream (e : EP) (h : Nat) : SnT e (appDropStream e h).1 [] [] := by
  unfold Mux.appDropStream
  split
  · exact SnT.refl e
  · simp only
    split <;> sn_silent

theorem SnT.appAccept (e : EP) : SnT e (appAccept e).1 [] [] := by
  unfold Mux.appAccept
  split
  · split
    · sn_silent
    · exact SnT.refl e
  · split <;> exact SnT.refl e

theorem SnT.appSendDgram (e : EP) (d : Dgram) : SnT e (appSendDgram e d).1 [] [] := by
  unfold Mux.appSendDgram
  split
  · exact SnT.refl e
  · split
    · exact SnT.refl e
    · exact SnT.enqFrame _ _ rfl

theorem SnT.appRecvDgram (e : EP) : SnT e (appRecvDgram e).1 [] [] := by
  unfold Mux.appRecvDgram
  split
  · sn_silent
  · split <;> exact SnT.refl e

theorem SnT.appBindReq (e : EP) (req : Nat) (bt : BindType) (host : Bytes) (port : Nat) :
    SnT e (appBindReq e req bt host port).1 (appBindReq e req bt host port).2 [] := by
  unfold Mux.appBindReq
  split
  · sn_silent
  · split
    · sn_silent
    · exact SnT.enqFrame' _ rfl rfl rfl

theorem SnT.appBindNext (e : EP) : SnT e (appBindNext e).1 [] [] := by
  unfold Mux.appBindNext
  split
  · exact SnT.refl e
  · split
    · sn_silent
    · split <;> exact SnT.refl e

theorem SnT.appBindReply (e : EP) (k : Nat) (a : Bool) : SnT e (appBindReply e k a).1 [] [] := by
  unfold Mux.appBindReply
  split
  · exact SnT.refl e
  · split
    · exact SnT.refl e
    · split
      · exact SnT.refl e
      · rename_i b _ _ _
        have g : SnT e (e.enqFrame (if a then .finish b.fid else .reset b.fid)) [] [] :=
          SnT.enqFrame e _ (by cases a <;> rfl)
        exact g.congr rfl rfl rfl rfl

theorem SnT.appBindDrop (e : EP) (k : Nat) : SnT e (appBindDrop e k).1 [] [] := by
  unfold Mux.appBindDrop
  split
  · exact SnT.refl e
  · split
    · exact SnT.refl e
    · simp only
      split
      · sn_silent
      · exact SnT.enqFrame' _ rfl rfl rfl

theorem SnT.foldEnq (l : List BindIn) (e : EP) :
    SnT e (l.foldl (fun e b => e.enqFrame (.reset b.fid)) e) [] [] := by
  induction l generalizing e with
  | nil => exact SnT.refl e
  | cons b rest ih => exact (SnT.enqFrame e _ rfl).tr (ih _)

theorem SnT.appDropMux (e : EP) : SnT e (appDropMux e).1 [] [] := by
  unfold Mux.appDropMux
  simp only
  have s1 : SnT e { e with muxAlive := false, droppedq := if e.dead then e.droppedq else e.droppedq ++ [0] } [] [] := by sn_silent
  exact ((s1.tr (SnT.foldEnq e.bindq _)).congr rfl rfl rfl rfl)

theorem wroteBy_not_write (e : EP) (op : Op) (r : Res) (h : ∀ hd d, op ≠ .write hd d) : wroteBy e op r = [] := by
  cases op <;> first | rfl | exact absurd rfl (h _ _)

/-- Every application call. -/
theorem SnT.opStep (e : EP) (op : Op) :
    SnT e (opStep e op).1 (opStep e op).2.2 (wroteFrames (wroteBy e op (opStep e op).2.1)) := by
  cases op with
  | «open» req host port =>
    simp only [Mux.opStep]
    split
    · exact SnT.refl e
    · exact SnT.openRound e _
  | accept => exact SnT.appAccept e
  | write h d => exact SnT.appWrite e h d
  | read h n => exact SnT.appRead e h n
  | shutdown h => exact SnT.appShutdown e h
  | dropStream h => exact SnT.appDropStream e h
  | sendDgram d => exact SnT.appSendDgram e d
  | recvDgram => exact SnT.appRecvDgram e
  | bindReq req bt host port => exact SnT.appBindReq e req bt host port
  | bindNext => exact SnT.appBindNext e
  | bindReply k a => exact SnT.appBindReply e k a
  | bindDrop k => exact SnT.appBindDrop e k
  | dropMux => exact SnT.appDropMux e
  | sinkRoom n => sn_silent
  | cancelOpen req => sn_silent
  | deliver w =>
    simp only [Mux.opStep]
    split
    · exact SnT.refl e
    · split <;> sn_silent

/-- Every stimulus: the call, then the task's run to quiescence. -/
theorem SnT.applyOp (e : EP) (op : Op) :
    SnT e (applyOp e op).1 (applyOp e op).2.2 (wroteFrames (wroteBy e op (applyOp e op).2.1)) := by
  have h1 := SnT.opStep e op
  unfold Mux.applyOp
  generalize Mux.opStep e op = r at h1
  obtain ⟨e1, r1, evs1⟩ := r
  exact (h1.trans (SnT.settle e1)).evs rfl (by simp)

end Penguin.Mux
