/-
Every message an endpoint model ever puts on its outbound queue is well-formed (`Frame.wf`: the
ranges the wire codec needs — ids, windows and acknowledge counts below 2^32, ports below 2^16, a
`Datagram` host of at most 255 bytes), under an endpoint invariant `EPwf` that every step preserves.
This is what makes "encode, then decode" the identity on everything that travels (C09 ∘ C02, see
`Lemmas/PairBytes.lean`).

Where a value comes from the application (the port of `open` / `bind`, the flow id and port of a
datagram) or from the peer (the frame handed to `processFrame`), its range is a hypothesis of the
lemma — the Rust types (`u16`, `u32`) and the decoder (`decode_fields`) guarantee it.
-/
import Penguin.Model.Mux
import Penguin.Lemmas.MuxBasic

namespace Penguin.Mux

/-- A message is well-formed: a frame is in the codec's ranges; control messages always are. -/
def Msg.wf : Msg → Prop
  | .frame f => f.wf
  | _ => True

instance (m : Msg) : Decidable m.wf := by
  cases m <;> unfold Msg.wf <;> infer_instance

/-- What the transport delivers is well-formed (a decoded frame always is, `C09.decode_fields`). -/
def WsIn.wf : WsIn → Prop
  | .msg m => m.wf
  | _ => True

instance (w : WsIn) : Decidable w.wf := by
  cases w <;> unfold WsIn.wf <;> infer_instance

/-- The outbound queue holds well-formed messages only. -/
def OutWf (e : EP) : Prop := ∀ m ∈ e.outq, m.wf

/-- A stream object: its flow id is a `u32`, and the count of frames received since the last
    `Acknowledge` stays below the threshold (itself a `u32`), so the count sent is a `u32`. -/
structure Obj.ok (o : Obj) : Prop where
  fid : o.fid < 4294967296
  thr : o.threshold < 4294967296
  cnt : o.recvdSince = 0 ∨ o.recvdSince < o.threshold

/-- The endpoint invariant behind `OutWf`. -/
structure EPwf (e : EP) : Prop where
  rwnd : e.opts.rwnd < 4294967296
  rng : ∀ k ∈ e.rng, k < 4294967296
  flows : ∀ p ∈ e.flows, p.1 < 4294967296
  objs : ∀ o ∈ e.objs, o.ok
  opens : ∀ r ∈ e.opens, r.port < 65536
  bindq : ∀ b ∈ e.bindq, b.fid < 4294967296
  held : ∀ b ∈ e.held, b.fid < 4294967296
  park : ∀ b, e.park = some (.bind b) → b.fid < 4294967296
  inbox : ∀ w ∈ e.inbox, w.wf

/-- The invariant and its consequence together: what every step preserves. -/
structure Good (e : EP) : Prop extends EPwf e where
  out : OutWf e

theorem Good.of {e : EP} (h : EPwf e) (ho : OutWf e) : Good e := ⟨h, ho⟩

/-- A fresh endpoint with a `u32` window and a script of `u32` ids. -/
theorem Good_init (o : Opts) (r : List Nat) (ho : o.rwnd < 4294967296) (hr : ∀ k ∈ r, k < 4294967296) :
    Good { opts := o, rng := r } :=
  ⟨⟨ho, hr, by simp, by simp, by simp, by simp, by simp, by simp, by simp⟩, by simp [OutWf]⟩

/-! ### Building blocks -/

theorem Good.enq {e : EP} (h : Good e) {m : Msg} (hm : m.wf) : Good (e.enq m) := by
  unfold EP.enq
  split
  · exact h
  · refine { h with out := ?_ }
    intro x hx
    rcases List.mem_append.mp hx with hx | hx
    · exact h.out x hx
    · simp only [List.mem_singleton] at hx; subst hx; exact hm

theorem Good.enqFrame {e : EP} (h : Good e) {f : Frame} (hf : f.wf) : Good (e.enqFrame f) :=
  h.enq (m := .frame f) hf

theorem modify_ok {l : List Obj} {i : Nat} {f : Obj → Obj} (hl : ∀ o ∈ l, o.ok)
    (hf : ∀ o, l[i]? = some o → o.ok → (f o).ok) : ∀ o ∈ l.modify i f, o.ok := by
  intro o ho
  obtain ⟨j, hj⟩ := List.getElem?_of_mem ho
  rw [List.getElem?_modify] at hj
  cases h : l[j]? with
  | none => simp [h] at hj
  | some o' =>
    have ho' := hl _ (List.mem_of_getElem? h)
    simp only [h, Option.map_eq_map, Option.map_some, Option.some.injEq] at hj
    subst hj
    split
    · rename_i hij; subst hij; exact hf _ h ho'
    · exact ho'

/-- Changing one object in a way that keeps its flow id, its threshold and the count in range. -/
theorem Good.modObj_at {e : EP} (h : Good e) (i : Nat) {f : Obj → Obj}
    (hf : ∀ o, e.objs[i]? = some o → o.ok → (f o).ok) : Good (e.modObj i f) :=
  { h with objs := modify_ok h.objs hf }

theorem Good.modObj {e : EP} (h : Good e) (i : Nat) {f : Obj → Obj} (hf : ∀ o, o.ok → (f o).ok) :
    Good (e.modObj i f) := h.modObj_at i (fun o _ => hf o)

/-- An object that differs in other fields only. -/
theorem Obj.ok.of_eq {o o' : Obj} (h : o.ok) (h1 : o'.fid = o.fid) (h2 : o'.threshold = o.threshold)
    (h3 : o'.recvdSince = o.recvdSince) : o'.ok := ⟨by rw [h1]; exact h.fid, by rw [h2]; exact h.thr, by rw [h2, h3]; exact h.cnt⟩

@[simp] theorem wake_fid (o : Obj) : o.wake.fid = o.fid := by unfold Obj.wake; split <;> rfl
@[simp] theorem wake_threshold (o : Obj) : o.wake.threshold = o.threshold := by unfold Obj.wake; split <;> rfl
@[simp] theorem wake_recvdSince (o : Obj) : o.wake.recvdSince = o.recvdSince := by unfold Obj.wake; split <;> rfl
@[simp] theorem disallowWrite_fid (o : Obj) : o.disallowWrite.fid = o.fid := by simp [Obj.disallowWrite]
@[simp] theorem disallowWrite_threshold (o : Obj) : o.disallowWrite.threshold = o.threshold := by simp [Obj.disallowWrite]
@[simp] theorem disallowWrite_recvdSince (o : Obj) : o.disallowWrite.recvdSince = o.recvdSince := by simp [Obj.disallowWrite]

theorem Obj.ok.wake {o : Obj} (h : o.ok) : o.wake.ok := h.of_eq (by simp) (by simp) (by simp)
theorem Obj.ok.disallowWrite {o : Obj} (h : o.ok) : o.disallowWrite.ok := h.of_eq (by simp) (by simp) (by simp)

/-- The object a new stream gets: threshold at most the own window, nothing counted yet. -/
theorem newObj_ok (o : Opts) (fid peerRwnd : Nat) (host : Bytes) (port : Nat) (hf : fid < 4294967296)
    (ho : o.rwnd < 4294967296) : (newObj o fid peerRwnd host port).ok :=
  ⟨hf, by simp only [newObj, thresholdFor]; omega, Or.inl rfl⟩

theorem mem_erase {m : List (Nat × Slot)} {k : Nat} {p : Nat × Slot} (h : p ∈ erase m k) : p ∈ m :=
  (List.mem_filter.mp h).1

theorem mem_insert {m : List (Nat × Slot)} {k : Nat} {v : Slot} {p : Nat × Slot} (h : p ∈ insert m k v) :
    p = (k, v) ∨ p ∈ m := by
  rcases List.mem_cons.mp h with h | h
  · exact Or.inl h
  · exact Or.inr (mem_erase h)

theorem flows_erase {m : List (Nat × Slot)} (h : ∀ p ∈ m, p.1 < 4294967296) (k : Nat) :
    ∀ p ∈ erase m k, p.1 < 4294967296 := fun p hp => h p (mem_erase hp)

theorem flows_insert {m : List (Nat × Slot)} (h : ∀ p ∈ m, p.1 < 4294967296) {k : Nat} (hk : k < 4294967296)
    (v : Slot) : ∀ p ∈ insert m k v, p.1 < 4294967296 := by
  intro p hp
  rcases mem_insert hp with hp | hp
  · subst hp; exact hk
  · exact h p hp

/-- A slot that is looked up has an id in range. -/
theorem Good.lookup_lt {e : EP} (h : Good e) {fid : Nat} {s : Slot} (hl : lookup e.flows fid = some s) :
    fid < 4294967296 := h.flows _ (lookup_mem _ _ _ hl)

/-! ### Drawing a flow id -/

theorem drawScript_lt (flows : List (Nat × Slot)) (s : List Nat) (k : Nat) (rest : List Nat)
    (hd : drawScript flows s = some (k, rest)) (hs : ∀ x ∈ s, x < 4294967296) :
    k < 4294967296 ∧ ∀ x ∈ rest, x < 4294967296 := by
  induction s with
  | nil => simp [drawScript] at hd
  | cons a s ih =>
    unfold drawScript at hd
    split at hd
    · simp only [Option.some.injEq, Prod.mk.injEq] at hd
      obtain ⟨rfl, rfl⟩ := hd
      exact ⟨hs _ (by simp), fun x hx => hs x (List.mem_cons_of_mem _ hx)⟩
    · exact ih hd (fun x hx => hs x (List.mem_cons_of_mem _ hx))

theorem fallbackNext_lt (x : Nat) : (fallbackNext x).1 < 4294967296 := by
  unfold fallbackNext
  exact Nat.or_lt_two_pow (n := 32) (Nat.mod_lt _ (by decide)) (by decide)

theorem drawFallback_lt (flows : List (Nat × Slot)) (fb fuel : Nat) (r : Nat × Nat)
    (hd : drawFallback flows fb fuel = some r) : r.1 < 4294967296 := by
  induction fuel generalizing fb with
  | zero => simp [drawFallback] at hd
  | succ n ih =>
    unfold drawFallback at hd
    simp only at hd
    split at hd
    · simp only [Option.some.injEq] at hd; subst hd; exact fallbackNext_lt fb
    · exact ih _ hd

/-- The id drawn is a `u32` (the script holds `next_u32` values; so does the fallback generator). -/
theorem drawId_lt (flows : List (Nat × Slot)) (s : List Nat) (fb fuel k : Nat) (rest : List Nat) (fb' : Nat)
    (hd : drawId flows s fb fuel = some (k, rest, fb')) (hs : ∀ x ∈ s, x < 4294967296) :
    k < 4294967296 ∧ ∀ x ∈ rest, x < 4294967296 := by
  unfold drawId at hd
  split at hd
  · rename_i k' rest' hds
    simp only [Option.some.injEq, Prod.mk.injEq] at hd
    obtain ⟨rfl, rfl, _⟩ := hd
    exact drawScript_lt flows s _ _ hds hs
  · cases hf : drawFallback flows fb fuel with
    | none => simp [hf] at hd
    | some r =>
      simp only [hf, Option.map_some, Option.some.injEq, Prod.mk.injEq] at hd
      obtain ⟨rfl, rfl, _⟩ := hd
      exact ⟨drawFallback_lt flows fb fuel r hf, by simp⟩

/-! ### Opening a stream -/

theorem opens_filter {l : List OpenReq} (h : ∀ r ∈ l, r.port < 65536) (p : OpenReq → Bool) :
    ∀ r ∈ l.filter p, r.port < 65536 := fun r hr => h r (List.mem_filter.mp hr).1

/-- One round of `new_stream_channel`: the `Connect` carries a drawn id, the own window and the
    port the application gave (a `u16`). -/
theorem Good.openRound {e : EP} (h : Good e) (r : OpenReq) (hp : r.port < 65536) : Good (openRound e r).1 := by
  unfold Mux.openRound
  split
  · exact { h with opens := opens_filter h.opens _ }
  · split
    · exact { h with opens := opens_filter h.opens _ }
    · rename_i fid rng' fb' hd
      obtain ⟨hfid, hrng⟩ := drawId_lt _ _ _ _ _ _ _ hd h.rng
      have h1 : Good { e with
          rng := rng', fallback := fb', flows := insert e.flows fid (.requested r.req),
          opens := { r with retriesLeft := r.retriesLeft - 1 } :: e.opens.filter (·.req ≠ r.req) } :=
        { h with
          rng := hrng
          flows := flows_insert h.flows hfid _
          opens := by
            intro x hx
            rcases List.mem_cons.mp hx with hx | hx
            · subst hx; exact hp
            · exact opens_filter h.opens _ x hx }
      simp only
      split
      · exact { h with rng := hrng, opens := opens_filter h.opens _ }
      · exact h1.enqFrame ⟨hfid, h.rwnd, hp⟩

theorem Good.appOpen {e : EP} (h : Good e) (req : Nat) (host : Bytes) (port : Nat) (hp : port < 65536) :
    Good (appOpen e req host port).1 := h.openRound _ hp

theorem Good.runRetries {e : EP} (h : Good e) (l : List Nat) : Good (runRetries e l).1 := by
  induction l generalizing e with
  | nil => exact h
  | cons req rest ih =>
    unfold Mux.runRetries
    split
    · exact ih h
    · rename_i r hf
      exact ih (h.openRound r (h.opens r (List.mem_of_find?_eq_some hf)))

theorem Good.runDone {e : EP} (h : Good e) (l : List (Nat × Nat)) : Good (runDone e l).1 := by
  induction l generalizing e with
  | nil => exact h
  | cons x rest ih =>
    obtain ⟨req, i⟩ := x
    unfold Mux.runDone
    exact ih (e := { e with handles := e.handles ++ [i] }) { h with }

/-! ### Closing a flow -/

theorem Good.openRejected {e : EP} (h : Good e) (req : Nat) (final : Bool) : Good (openRejected e req final).1 := by
  unfold Mux.openRejected
  split
  · exact h
  · split
    · exact { h with opens := opens_filter h.opens _ }
    · exact { h with }

/-- `close_flow_local`: the `Reset` carries the id of the slot that was removed. -/
theorem Good.closeLocal {e : EP} (h : Good e) (s : Slot) (fid : Nat) (hf : fid < 4294967296) (inh final : Bool) :
    Good (closeLocal e s fid inh final).1 := by
  unfold Mux.closeLocal
  split
  · split
    · exact h
    · rename_i i _ o _
      have h1 := h.modObj (e := e) i (f := fun o => { o.disallowWrite with senderAlive := false })
        (fun o ho => ho.disallowWrite.of_eq rfl rfl rfl)
      simp only
      split
      · exact h1.enqFrame hf
      · exact h1
  · exact h.openRejected _ _
  · exact h

theorem Good.eraseFlow {e : EP} (h : Good e) (fid : Nat) : Good { e with flows := erase e.flows fid } :=
  { h with flows := flows_erase h.flows fid }

theorem Good.closeFlow {e : EP} (h : Good e) (fid : Nat) (inh : Bool) : Good (closeFlow e fid inh).1 := by
  unfold Mux.closeFlow
  split
  · exact h
  · rename_i s hl
    exact (h.eraseFlow fid).closeLocal s fid (h.lookup_lt hl) inh false

/-! ### `process_frame` -/

theorem Good.offerAccept {e : EP} (h : Good e) (i : Nat) : Good (offerAccept e i) := by
  unfold Mux.offerAccept
  split
  · exact { h with }
  · exact { h with park := by intro b hb; cases hb }

theorem Good.offerBind {e : EP} (h : Good e) (b : BindIn) (hb : b.fid < 4294967296) : Good (offerBind e b) := by
  unfold Mux.offerBind
  split
  · refine { h with bindq := ?_ }
    intro x hx
    rcases List.mem_append.mp hx with hx | hx
    · exact h.bindq x hx
    · simp only [List.mem_singleton] at hx; subst hx; exact hb
  · refine { h with park := ?_ }
    intro x hx
    simp only [Option.some.injEq, Park.bind.injEq] at hx
    subst hx; exact hb

theorem Good.newStream {e : EP} (h : Good e) (fid peerRwnd : Nat) (host : Bytes) (port : Nat)
    (hf : fid < 4294967296) :
    Good { e with objs := e.objs ++ [newObj e.opts fid peerRwnd host port],
                  flows := insert e.flows fid (.established e.objs.length) } := by
  refine { h with objs := ?_, flows := flows_insert h.flows hf _ }
  intro o ho
  rcases List.mem_append.mp ho with ho | ho
  · exact h.objs o ho
  · simp only [List.mem_singleton] at ho; subst ho; exact newObj_ok _ _ _ _ _ hf h.rwnd

theorem Good.processConnect {e : EP} (h : Good e) (fid rwnd port : Nat) (host : Bytes) (ig : Bool)
    (hf : fid < 4294967296) : Good (processFrame e (.connect fid rwnd port host) ig).1 := by
  simp only [processFrame]
  split
  · exact h.enqFrame hf
  · have h1 := h.newStream fid rwnd host port hf
    split
    · exact h1
    · have h2 := h1.enqFrame (f := .acknowledge fid e.opts.rwnd) ⟨hf, h.rwnd⟩
      split
      · exact { h2.modObj e.objs.length (f := fun o => { o with rxOpen := false }) (fun o ho => ho.of_eq rfl rfl rfl) with }
      · exact h2.offerAccept _

theorem Good.processAck {e : EP} (h : Good e) (fid n : Nat) (ig : Bool) (hf : fid < 4294967296) :
    Good (processFrame e (.acknowledge fid n) ig).1 := by
  simp only [processFrame]
  split
  · exact h.modObj _ (fun o ho => ho.wake.of_eq rfl rfl rfl)
  · have h1 := h.newStream fid n [] 0 hf
    split
    · exact { h1 with opens := fun x hx => h1.opens x (List.mem_filter.mp hx).1 }
    · exact { h1.modObj e.objs.length (f := fun o => { o with rxOpen := false }) (fun o ho => ho.of_eq rfl rfl rfl) with }
  · exact h.enqFrame hf
  · exact h.enqFrame hf

theorem Good.processFinish {e : EP} (h : Good e) (fid : Nat) (ig : Bool) (hf : fid < 4294967296) :
    Good (processFrame e (.finish fid) ig).1 := by
  simp only [processFrame]
  split
  · exact h.enqFrame hf
  · exact h.eraseFlow fid
  · exact Good.enqFrame (e := { e with flows := erase e.flows fid, opens := _ })
      { h with flows := flows_erase h.flows fid, opens := opens_filter h.opens _ } hf
  · exact h.modObj _ (fun o ho => ho.of_eq rfl rfl rfl)

theorem Good.processPush {e : EP} (h : Good e) (fid : Nat) (d : Bytes) (ig : Bool) (hf : fid < 4294967296) :
    Good (processFrame e (.push fid d) ig).1 := by
  simp only [processFrame]
  split
  · split
    · exact h
    · split
      · exact h.enqFrame hf
      · split
        · exact h
        · split
          · exact h.modObj _ (fun o ho => ho.of_eq rfl rfl rfl)
          · exact h.closeFlow fid false
  · exact h.enqFrame hf

theorem Good.processBind {e : EP} (h : Good e) (fid : Nat) (bt : BindType) (port : Nat) (host : Bytes) (ig : Bool)
    (hf : fid < 4294967296) : Good (processFrame e (.bind fid bt port host) ig).1 := by
  simp only [processFrame]
  split
  · exact h.enqFrame hf
  · split
    · exact h
    · split
      · exact h.enqFrame hf
      · exact h.offerBind _ hf

theorem Good.processDatagram {e : EP} (h : Good e) (fid port : Nat) (host d : Bytes) (ig : Bool) :
    Good (processFrame e (.datagram fid port host d) ig).1 := by
  simp only [processFrame]
  split
  · exact h
  · split
    · exact { h with }
    · exact h

/-- Processing a (well-formed, i.e. decoded) frame: the replies — `Acknowledge` with the own window,
    `Reset` with the id of the frame or of the slot — are well-formed. -/
theorem Good.processFrame {e : EP} (h : Good e) (f : Frame) (hf : f.wf) (ig : Bool) : Good (processFrame e f ig).1 := by
  cases f with
  | connect fid rwnd port host => exact h.processConnect fid rwnd port host ig hf.1
  | acknowledge fid n => exact h.processAck fid n ig hf.1
  | reset fid => simp only [Mux.processFrame]; exact h.closeFlow fid true
  | finish fid => exact h.processFinish fid ig hf
  | push fid d => exact h.processPush fid d ig hf
  | bind fid bt port host => exact h.processBind fid bt port host ig hf.1
  | datagram fid port host d => exact h.processDatagram fid port host d ig

theorem Good.processIn {e : EP} (h : Good e) (w : WsIn) (hw : w.wf) (ig : Bool) : Good (processIn e w ig).1 := by
  unfold Mux.processIn
  split
  · exact h.processFrame _ hw ig
  all_goals exact h

/-! ### The task's other steps -/

theorem Good.unpark {e : EP} (h : Good e) : Good (unpark e) := by
  unfold Mux.unpark
  split
  · exact h
  · split
    · split
      · exact { h.modObj _ (f := fun o => { o with rxOpen := false }) (fun o ho => ho.of_eq rfl rfl rfl) with
          park := by intro b hb; cases hb }
      · exact { h with park := by intro b hb; cases hb }
    · split
      · exact { h with park := by intro b hb; cases hb }
      · exact h
  · rename_i b hp
    have hb := h.park b hp
    split
    · exact Good.enqFrame (e := { e with park := none }) { h with park := by intro b hb; cases hb } hb
    · split
      · refine { h with park := (by intro b hb; cases hb), bindq := ?_ }
        intro x hx
        rcases List.mem_append.mp hx with hx | hx
        · exact h.bindq x hx
        · simp only [List.mem_singleton] at hx; subst hx; exact hb
      · exact h

/-! ### Application calls -/

theorem handleObj_some {e : EP} {h i : Nat} {o : Obj} (hh : e.handleObj h = some (i, o)) : e.objs[i]? = some o := by
  unfold EP.handleObj at hh
  split at hh
  · cases hh
  · split at hh
    · cases hh
    · rename_i ho
      split at hh
      · simp only [Option.some.injEq, Prod.mk.injEq] at hh
        obtain ⟨rfl, rfl⟩ := hh; exact ho
      · cases hh

theorem Good.obj_ok {e : EP} (h : Good e) {i : Nat} {o : Obj} (ho : e.objs[i]? = some o) : o.ok :=
  h.objs o (List.mem_of_getElem? ho)

theorem Good.appAccept {e : EP} (h : Good e) : Good (appAccept e).1 := by
  unfold Mux.appAccept
  split
  · split
    · exact { h with }
    · exact h
  · split <;> exact h

/-- `poll_write`: the `Push` carries the id of the stream object. -/
theorem Good.appWrite {e : EP} (h : Good e) (hd : Nat) (d : Bytes) : Good (appWrite e hd d).1 := by
  unfold Mux.appWrite
  split
  · exact h
  · rename_i i o hh
    have ho := h.obj_ok (handleObj_some hh)
    split
    · exact h.modObj _ (fun o ho => ho.of_eq rfl rfl rfl)
    · split
      · exact h.modObj _ (fun o ho => ho.of_eq rfl rfl rfl)
      · split
        · exact h.modObj _ (fun o ho => ho.of_eq rfl rfl rfl)
        · split
          · exact h.modObj _ (fun o ho => ho.of_eq rfl rfl rfl)
          · refine Good.enqFrame (h.modObj _ ?_) (f := .push o.fid d) ho.fid
            exact fun o ho => ho.of_eq rfl rfl rfl

/-- `increment_psh_recvd_since`: the count acknowledged is at most the threshold, a `u32`. -/
theorem Good.ackStep {e : EP} (h : Good e) (i : Nat) (o : Obj) (ho : o.ok)
    (hx : ∀ x, e.objs[i]? = some x → x.threshold = o.threshold) : Good (ackStep e i o) := by
  unfold Mux.ackStep
  split
  · refine (h.modObj i (f := fun x => { x with recvdSince := 0 }) (fun x hx => ⟨hx.fid, hx.thr, Or.inl rfl⟩)).enqFrame
      (f := .acknowledge o.fid (o.recvdSince + 1)) ⟨ho.fid, ?_⟩
    have := ho.thr; have := ho.cnt
    omega
  · refine h.modObj_at i (f := fun x => { x with recvdSince := o.recvdSince + 1 }) (fun x hxi hxo => ⟨hxo.fid, hxo.thr, Or.inr ?_⟩)
    show o.recvdSince + 1 < x.threshold
    rw [hx x hxi]; omega

theorem Good.fillBuf {e : EP} (h : Good e) (fuel i : Nat) : Good (fillBuf fuel e i).1 := by
  induction fuel generalizing e with
  | zero => exact h
  | succ n ih =>
    unfold Mux.fillBuf
    split
    · exact h
    · rename_i o ho
      have hok := h.obj_ok ho
      split
      · exact h
      · split
        · rename_i f rest hq
          have h1 := h.modObj i (f := fun o => { o with rxq := rest, buf := f }) (fun o ho => ho.of_eq rfl rfl rfl)
          have h2 := h1.ackStep i { o with rxq := rest, buf := f } (hok.of_eq rfl rfl rfl) (by
            intro x hxi
            rw [modObj_get_self, ho] at hxi
            simp only [Option.map_some, Option.some.injEq] at hxi
            subst hxi; rfl)
          simp only
          split
          · exact ih h2
          · exact h2
        · split
          · exact h
          · exact h.modObj _ (fun o ho => ho.of_eq rfl rfl rfl)

/-- `poll_read`: the `Acknowledge` it may send is well-formed. -/
theorem Good.appRead {e : EP} (h : Good e) (hd n : Nat) : Good (appRead e hd n).1 := by
  unfold Mux.appRead
  split
  · exact h
  · rename_i i o hh
    have h1 := h.fillBuf (o.rxq.length + 2) i
    split
    · rename_i e' b heq
      rw [heq] at h1
      exact h1.modObj _ (fun o ho => ho.of_eq rfl rfl rfl)
    · exact h1

/-- `poll_shutdown`: the `Finish` carries the id of the stream object. -/
theorem Good.appShutdown {e : EP} (h : Good e) (hd : Nat) : Good (appShutdown e hd).1 := by
  unfold Mux.appShutdown
  split
  · exact h
  · rename_i i o hh
    have ho := h.obj_ok (handleObj_some hh)
    split
    · exact h.modObj _ (fun o ho => ho.of_eq rfl rfl rfl)
    · refine Good.enqFrame (h.modObj _ ?_) (f := .finish o.fid) ho.fid
      exact fun o ho => ho.of_eq rfl rfl rfl

theorem Good.appDropStream {e : EP} (h : Good e) (hd : Nat) : Good (appDropStream e hd).1 := by
  unfold Mux.appDropStream
  split
  · exact h
  · rename_i i o _
    have h1 := h.modObj (e := e) i (f := fun o => { o with rxOpen := false, rxq := [], parked := false })
      (fun o ho => ho.of_eq rfl rfl rfl)
    simp only
    split
    · exact h1
    · exact { h1 with }

/-- `send_datagram`: flow id and port are the application's (`u32`, `u16`); a host longer than 255
    bytes is refused (lib.rs:348-360), so the `Datagram` frame is well-formed. -/
theorem Good.appSendDgram {e : EP} (h : Good e) (d : Dgram) (hf : d.fid < 4294967296) (hp : d.port < 65536) :
    Good (appSendDgram e d).1 := by
  unfold Mux.appSendDgram
  split
  · exact h
  · split
    · exact h
    · exact h.enqFrame (f := .datagram d.fid d.port d.host d.data) ⟨hf, hp, by omega⟩

theorem Good.appRecvDgram {e : EP} (h : Good e) : Good (appRecvDgram e).1 := by
  unfold Mux.appRecvDgram
  split
  · exact { h with }
  · split <;> exact h

/-- `request_bind`: a drawn id and the application's port (`u16`). -/
theorem Good.appBindReq {e : EP} (h : Good e) (req : Nat) (bt : BindType) (host : Bytes) (port : Nat)
    (hp : port < 65536) : Good (appBindReq e req bt host port).1 := by
  unfold Mux.appBindReq
  split
  · exact h
  · rename_i fid rng' fb' hd
    obtain ⟨hfid, hrng⟩ := drawId_lt _ _ _ _ _ _ _ hd h.rng
    split
    · exact { h with rng := hrng }
    · exact Good.enqFrame (e := { e with rng := rng', fallback := fb', flows := insert e.flows fid (.bindRequested req) })
        { h with rng := hrng, flows := flows_insert h.flows hfid _ } (f := .bind fid bt port host) ⟨hfid, hp⟩

theorem Good.appBindNext {e : EP} (h : Good e) : Good (appBindNext e).1 := by
  unfold Mux.appBindNext
  split
  · exact h
  · split
    · rename_i b rest hq
      have hb : b.fid < 4294967296 := h.bindq b (by rw [hq]; simp)
      refine { h with bindq := ?_, held := ?_ }
      · intro x hx; exact h.bindq x (by rw [hq]; exact List.mem_cons_of_mem _ hx)
      · intro x hx
        rcases List.mem_append.mp hx with hx | hx
        · exact h.held x hx
        · simp only [List.mem_singleton] at hx; subst hx; exact hb
    · split <;> exact h

theorem held_modify {l : List BindIn} (h : ∀ b ∈ l, b.fid < 4294967296) (k : Nat) (f : BindIn → BindIn)
    (hf : ∀ b, (f b).fid = b.fid) : ∀ b ∈ l.modify k f, b.fid < 4294967296 := by
  intro b hb
  obtain ⟨j, hj⟩ := List.getElem?_of_mem hb
  rw [List.getElem?_modify] at hj
  cases hl : l[j]? with
  | none => simp [hl] at hj
  | some b' =>
    have hb' := h _ (List.mem_of_getElem? hl)
    simp only [hl, Option.map_eq_map, Option.map_some, Option.some.injEq] at hj
    subst hj
    split
    · rw [hf]; exact hb'
    · exact hb'

/-- `BindRequest::reply`: `Finish` or `Reset` with the id of the request. -/
theorem Good.appBindReply {e : EP} (h : Good e) (k : Nat) (acc : Bool) : Good (appBindReply e k acc).1 := by
  unfold Mux.appBindReply
  split
  · exact h
  · rename_i b hk
    have hb : b.fid < 4294967296 := h.held b (List.mem_of_getElem? hk)
    split
    · exact h
    · split
      · exact h
      · have h1 : Good (e.enqFrame (if acc then .finish b.fid else .reset b.fid)) :=
          h.enqFrame (by cases acc <;> exact hb)
        exact { h1 with held := held_modify (by
          intro x hx; exact h.held x (by simpa [EP.enqFrame] using hx)) k _ (fun _ => rfl) }

/-- Dropping a `BindRequest`: `Reset` with the id of the request. -/
theorem Good.appBindDrop {e : EP} (h : Good e) (k : Nat) : Good (appBindDrop e k).1 := by
  unfold Mux.appBindDrop
  split
  · exact h
  · rename_i b hk
    have hb : b.fid < 4294967296 := h.held b (List.mem_of_getElem? hk)
    split
    · exact h
    · have h1 : Good { e with held := e.held.modify k (fun b => { b with alive := false }) } :=
        { h with held := held_modify h.held k _ (fun _ => rfl) }
      simp only
      split
      · exact h1
      · exact h1.enqFrame hb

theorem Good.foldl_reset {e : EP} (h : Good e) (l : List BindIn) (hl : ∀ b ∈ l, b.fid < 4294967296) :
    Good (l.foldl (fun e b => e.enqFrame (.reset b.fid)) e) := by
  induction l generalizing e with
  | nil => exact h
  | cons b rest ih =>
    simp only [List.foldl_cons]
    exact ih (h.enqFrame (f := .reset b.fid) (hl b (by simp))) (fun x hx => hl x (List.mem_cons_of_mem _ hx))

/-- Dropping the `Multiplexor`: the queued `BindRequest`s reject themselves with well-formed `Reset`s. -/
theorem Good.appDropMux {e : EP} (h : Good e) : Good (appDropMux e).1 := by
  unfold Mux.appDropMux
  have h1 : Good { e with muxAlive := false, droppedq := if e.dead then e.droppedq else e.droppedq ++ [0] } := { h with }
  have h2 := h1.foldl_reset e.bindq h.bindq
  exact { h2 with bindq := by intro b hb; cases hb }

end Penguin.Mux
