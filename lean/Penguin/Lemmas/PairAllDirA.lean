/-
The byte invariant `Dir` (`Lemmas/PairAllDir.lean`) for the direction left → right is preserved by every
small step in which the LEFT side (the sender of that direction) acts or receives: what it hands to the
transport is appended to `S`.
Core Lean only.
-/
import Penguin.Lemmas.PairAllDir

namespace Penguin.PairAll
open Penguin.Mux

variable {x j : Nat} {ownA ownB : Prop}

set_option linter.unusedSimpArgs false

/-! ### Lists -/

theorem guarded_cons_other (x : Nat) (m : Msg) (r : List Msg) (h1 : isAck x m = false) (h2 : isPush x m = false) :
    guarded x (m :: r) = guarded x r := by
  simp only [guarded, h1, h2, Bool.false_eq_true, if_false]

theorem hasAck_cons (x : Nat) (m : Msg) (r : List Msg) : hasAck x (m :: r) = (isAck x m || hasAck x r) := by
  simp [hasAck]
theorem hasPush_cons (x : Nat) (m : Msg) (r : List Msg) : hasPush x (m :: r) = (isPush x m || hasPush x r) := by
  simp [hasPush]
theorem hasConn_cons (x : Nat) (m : Msg) (r : List Msg) : hasConn x (m :: r) = (isConn x m || hasConn x r) := by
  simp [hasConn]

/-- A message that is no `Acknowledge x` / `Push x`, inserted anywhere, does not matter for `guarded`. -/
theorem guarded_insert (x : Nat) (l r : List Msg) (m : Msg) (h1 : isAck x m = false) (h2 : isPush x m = false) :
    guarded x (l ++ m :: r) = guarded x (l ++ r) := by
  rw [guarded_append, guarded_append, guarded_cons_other x m r h1 h2]

theorem hasAck_insert (x : Nat) (l r : List Msg) (m : Msg) (h1 : isAck x m = false) :
    hasAck x (l ++ m :: r) = hasAck x (l ++ r) := by
  rw [hasAck_append, hasAck_append, hasAck_cons, h1, Bool.false_or]

theorem hasConn_insert (x : Nat) (l r : List Msg) (m : Msg) (h1 : isConn x m = false) :
    hasConn x (l ++ m :: r) = hasConn x (l ++ r) := by
  rw [hasConn_append, hasConn_append, hasConn_cons, h1, Bool.false_or]

theorem hasConn_single (x : Nat) (m : Msg) : hasConn x [m] = isConn x m := by simp [hasConn]
theorem hasAck_single (x : Nat) (m : Msg) : hasAck x [m] = isAck x m := by simp [hasAck]

theorem pX_nil (x : Nat) : pX x [] = [] := rfl

/-! ### Silent actions of the left side -/

/-- The left view changes, nothing is handed to the transport. -/
theorem Dir.silentAct {c : PC} {v : View} {S R : List Bytes} (d : Dir x j c S R)
    (h0 : v.nobj = 0 → c.a.nobj = 0)
    (hpot : (1 ≤ v.cnt ∨ 1 ≤ c.b.cnt ∨ (∃ q, c.b.slot = some (.requested q)) ∨
        hasConn x (inMsgs c.b.inbox ++ c.ab ++ v.outq) = true) → Pot x c)
    (h3 : ∀ q, c.b.slot = some (.requested q) →
      guarded x c.live = true ∧ (1 ≤ c.a.nobj → c.abOpen = true → c.a.outClosed = false → hasAck x c.live = true) →
      guarded x (inMsgs c.b.inbox ++ c.ab ++ (if c.abOpen = true then v.outq else [])) = true ∧
        (1 ≤ v.nobj → c.abOpen = true → v.outClosed = false →
          hasAck x (inMsgs c.b.inbox ++ c.ab ++ (if c.abOpen = true then v.outq else [])) = true)) :
    Dir x j { c with a := v, ab := if c.abOpen then c.ab ++ [] else c.ab } (S ++ pX x []) R := by
  rw [ab_nil c]
  show Dir x j _ (S ++ []) R
  rw [List.append_nil]
  exact d.silentA rfl rfl rfl h0 hpot h3

/-- `Pot` after a change of the left view implies `Pot` before, if the script count did not grow and no
    `Connect x` was queued. -/
theorem pot_back (c : PC) (k : Nat) (q : List Msg) (hk : k ≤ c.a.cnt)
    (hq : hasConn x q = true → hasConn x c.a.outq = true)
    (h : 1 ≤ k ∨ 1 ≤ c.b.cnt ∨ (∃ q, c.b.slot = some (.requested q)) ∨
        hasConn x (inMsgs c.b.inbox ++ c.ab ++ q) = true) : Pot x c := by
  rcases h with h | h | h | h
  · exact Or.inl (Nat.le_trans h hk)
  · exact Or.inr (Or.inl h)
  · exact Or.inr (Or.inr (Or.inl h))
  · refine Or.inr (Or.inr (Or.inr ?_))
    rw [hasConn_append] at h
    rw [PC.path, hasConn_append]
    rcases Bool.or_eq_true _ _ ▸ h with h | h
    · rw [h]; rfl
    · rw [hq h]; exact Bool.or_true _

/-- Only the left side's inbox / slot / `canJ` / `len` / `srcEnded` change. -/
theorem Dir.sameAct {c : PC} {v : View} {S R : List Bytes} (d : Dir x j c S R)
    (e1 : v.nobj = c.a.nobj) (e2 : v.cnt = c.a.cnt) (e3 : v.outq = c.a.outq) (e4 : v.outClosed = c.a.outClosed) :
    Dir x j { c with a := v, ab := if c.abOpen then c.ab ++ [] else c.ab } (S ++ pX x []) R := by
  refine d.silentAct (fun h => by rw [← e1]; exact h) ?_ ?_
  · rw [e2, e3]; exact fun h => h
  · rw [e1, e3, e4]; exact fun _ _ h => h

/-! ### Tactics for the cases in which the pair is taken apart -/

macro "dir_split" : tactic =>
  `(tactic| (refine ⟨?_, ?_, ?_, ?_, ?_, ?_⟩ <;> (try dsimp only [PC.live, PC.path, Pot])))

macro "nrm" : tactic =>
  `(tactic| simp only [if_true, if_false, Bool.false_eq_true, Bool.true_eq_false, List.append_assoc, List.append_nil,
      List.cons_append, List.nil_append, true_implies, false_implies, and_true, true_and, pX_append, pX_nil])
macro "nrm" "at" h:Lean.Parser.Tactic.locationHyp : tactic =>
  `(tactic| simp only [if_true, if_false, Bool.false_eq_true, Bool.true_eq_false, List.append_assoc, List.append_nil,
      List.cons_append, List.nil_append, true_implies, false_implies, and_true, true_and, pX_append, pX_nil] at $h)

theorem hasConn_path_mono (x : Nat) (p q q' : List Msg) (h : hasConn x q = true → hasConn x q' = true)
    (hp : hasConn x (p ++ q) = true) : hasConn x (p ++ q') = true := by
  rw [hasConn_append] at hp ⊢
  rcases (Bool.or_eq_true _ _).mp hp with hp | hp
  · rw [hp]; rfl
  · rw [h hp]; exact Bool.or_true _

theorem guarded_close (x : Nat) (p l r : List Msg) :
    guarded x (p ++ (l ++ Msg.close :: r)) = guarded x (p ++ (l ++ r)) := by
  rw [← List.append_assoc, guarded_insert x _ _ _ rfl rfl, List.append_assoc]
theorem hasAck_close (x : Nat) (p l r : List Msg) :
    hasAck x (p ++ (l ++ Msg.close :: r)) = hasAck x (p ++ (l ++ r)) := by
  rw [← List.append_assoc, hasAck_insert x _ _ _ rfl, List.append_assoc]
theorem hasConn_close (x : Nat) (p l r : List Msg) :
    hasConn x (p ++ (l ++ Msg.close :: r)) = hasConn x (p ++ (l ++ r)) := by
  rw [← List.append_assoc, hasConn_insert x _ _ _ rfl, List.append_assoc]
theorem pX_close (x : Nat) : pX x [Msg.close] = [] := rfl

/-! ### The actions that hand something to the transport -/

/-- A side without a stream object carrying `x` has no `Push x` queued. -/
theorem emit_noPush {c : PC} {m : Msg} {r : List Msg} (hc : CoreS ownA ownB (sm x c)) (h : c.a.outq = m :: r)
    (h0 : c.a.nobj = 0) : isPush x m = false := by
  have h1 : cAP x c.path = 0 := hc.l.noAP h0
  rw [PC.path, h, cAP_append, cAP_cons] at h1
  cases hp : isPush x m with
  | false => rfl
  | true => simp [isAP, hp] at h1

theorem Dir.emitA {c : PC} {S R : List Bytes} (hc : CoreS ownA ownB (sm x c)) (d : Dir x j c S R) (m : Msg) (r : List Msg)
    (h : c.a.outq = m :: r) :
    Dir x j { c with a := { c.a with outq := r }, ab := if c.abOpen then c.ab ++ [m] else c.ab } (S ++ pX x [m]) R := by
  have hm0 : c.a.nobj = 0 → pX x [m] = [] := fun h0 => pX_single_other x m (emit_noPush hc h h0)
  have d5 : R <+: S ++ pX x [m] := List.IsPrefix.trans d.d5 (List.prefix_append _ _)
  clear hc
  obtain ⟨a, b, ab, ba, abo, bao⟩ := c
  obtain ⟨d0, d1, d2, d3, d4, _⟩ := d
  dsimp only [PC.live, PC.path, Pot] at *
  rw [h] at d2 d3
  cases abo with
  | true =>
    nrm at d2 d3 d4
    dir_split
    · intro h0; rw [hm0 h0, d0 h0]; rfl
    · exact d1
    · nrm
      intro hl hp; rw [← d2 hl hp]; nrm
    · nrm
      exact d3
    · nrm
      intro hl; rw [← d4 hl]; nrm
    · exact d5
  | false =>
    nrm at d2 d3 d4
    dir_split
    · intro h0; rw [hm0 h0, d0 h0]; rfl
    · exact d1
    · nrm
      intro hl hp
      refine List.IsPrefix.trans (d2 hl ?_) (List.prefix_append _ _)
      rcases hp with hp | hp | hp | hp
      · exact Or.inl hp
      · exact Or.inr (Or.inl hp)
      · exact Or.inr (Or.inr (Or.inl hp))
      · refine Or.inr (Or.inr (Or.inr ?_))
        rw [← List.append_assoc] at hp ⊢
        refine hasConn_path_mono x _ _ _ (fun hq => ?_) hp
        rw [hasConn_cons, hq]; exact Bool.or_true _
    · nrm
      exact d3
    · nrm
      exact fun hl => List.IsPrefix.trans (d4 hl) (List.prefix_append _ _)
    · exact d5

theorem Dir.sendCloseA {c : PC} {S R : List Bytes} (d : Dir x j c S R) :
    Dir x j { c with a := c.a, ab := if c.abOpen then c.ab ++ [.close] else c.ab } (S ++ pX x [.close]) R := by
  rw [pX_close, List.append_nil]
  obtain ⟨a, b, ab, ba, abo, bao⟩ := c
  obtain ⟨d0, d1, d2, d3, d4, d5⟩ := d
  dsimp only [PC.live, PC.path, Pot] at *
  cases abo with
  | true =>
    nrm at d2 d3 d4
    dir_split
    · exact d0
    · exact d1
    · nrm
      simp only [hasConn_close, pX_close, List.append_nil]
      exact d2
    · nrm
      simp only [guarded_close, hasAck_close]
      exact d3
    · nrm
      simp only [pX_close, List.append_nil]
      exact d4
    · exact d5
  | false => exact ⟨d0, d1, d2, d3, d4, d5⟩

/-! ### The silent actions that change the outbound queue, the script or the number of objects -/

theorem Dir.enqA {c : PC} {v : View} {S R : List Bytes} (d : Dir x j c S R) (m : Msg) (e1 : v.nobj = c.a.nobj)
    (e2 : v.cnt = c.a.cnt) (e3 : v.outq = c.a.outq ++ [m]) (e4 : v.outClosed = c.a.outClosed) (hc : c.a.outClosed = false)
    (h1 : isConn x m = false) (h2 : isAck x m = true ∨ isPush x m = true → 0 < c.a.nobj) :
    Dir x j { c with a := v, ab := if c.abOpen then c.ab ++ [] else c.ab } (S ++ pX x []) R := by
  refine d.silentAct (fun h => by rw [← e1]; exact h) ?_ ?_
  · rw [e2, e3]
    refine pot_back c c.a.cnt _ (Nat.le_refl _) (fun hq => ?_)
    rw [hasConn_append, hasConn_single, h1, Bool.or_false] at hq
    exact hq
  · rw [e1, e3, e4]
    rintro q hq ⟨g, ha⟩
    rw [PC.live] at g ha
    by_cases hab : c.abOpen = true
    · rw [if_pos hab] at g ha ⊢
      rw [← List.append_assoc]
      refine ⟨guarded_snoc x _ m g ?_, fun hn _ ho => ?_⟩
      · cases hp : isPush x m with
        | false => exact Or.inl rfl
        | true => exact Or.inr (ha (h2 (Or.inr hp)) hab hc)
      · rw [hasAck_append, ha hn hab ho]; rfl
    · rw [if_neg hab] at g ha ⊢
      exact ⟨g, fun _ h => absurd h hab⟩

theorem Dir.rngA {c : PC} {S R : List Bytes} (d : Dir x j c S R) (k : Nat) (n : Bool) (hc : k ≤ c.a.cnt) :
    Dir x j { c with a := { c.a with cnt := k, rngNil := n }, ab := if c.abOpen then c.ab ++ [] else c.ab }
      (S ++ pX x []) R :=
  d.silentAct (fun h => h) (pot_back c k c.a.outq hc (fun h => h)) (fun _ _ h => h)

theorem Dir.drawA {c : PC} {S R : List Bytes} (hc : CoreS ownA ownB (sm x c)) (d : Dir x j c S R) (k : Nat) (n : Bool)
    (s : Slot) (m : Msg) (hk : k < c.a.cnt) :
    Dir x j { c with a := { c.a with cnt := k, rngNil := n, slot := some s, outq := c.a.outq ++ [m] },
                     ab := if c.abOpen then c.ab ++ [] else c.ab } (S ++ pX x []) R := by
  have hf := core_fresh hc (Or.inl (show 1 ≤ c.a.cnt by omega))
  refine d.silentAct (fun h => h) (fun _ => Or.inl (by omega)) ?_
  intro q hq
  exfalso
  have h0 : sk c.b.slot = 0 := hf.2.2.2.1
  rw [hq] at h0
  cases h0

theorem Dir.connNewA {c : PC} {S R : List Bytes} (d : Dir x j c S R) (r : List WsIn) (n : Nat) (cj : Bool) :
    Dir x j { c with a := { c.a with inbox := r, slot := some (.established c.a.len), len := c.a.len + 1,
                                     nobj := c.a.nobj + 1, canJ := cj, nw := c.a.nw + 1, rxJ := c.a.rxJ || cj,
                                     outq := if c.a.outClosed then c.a.outq else c.a.outq ++ [.frame (.acknowledge x n)] },
                     ab := if c.abOpen then c.ab ++ [] else c.ab } (S ++ pX x []) R := by
  refine d.silentAct (fun h => absurd h (Nat.succ_ne_zero _)) ?_ ?_
  · refine pot_back c c.a.cnt _ (Nat.le_refl _) (fun hq => ?_)
    dsimp only at hq
    split at hq
    · exact hq
    · rw [hasConn_append, hasConn_single, isConn_ack, Bool.or_false] at hq
      exact hq
  · rintro q hq ⟨g, ha⟩
    dsimp only
    rw [PC.live] at g ha
    cases ho : c.a.outClosed with
    | true =>
      simp only [if_true]
      exact ⟨g, fun _ _ h => by cases h⟩
    | false =>
      simp only [Bool.false_eq_true, if_false]
      by_cases hab : c.abOpen = true
      · rw [if_pos hab] at g ⊢
        rw [← List.append_assoc]
        refine ⟨guarded_snoc x _ _ g (Or.inl rfl), fun _ _ _ => ?_⟩
        rw [hasAck_append, hasAck_single, isAck_ack]; exact Bool.or_true _
      · rw [if_neg hab] at g ⊢
        exact ⟨g, fun _ h => absurd h hab⟩

theorem Dir.ackNewA (hex : ¬(ownA ∧ ownB)) {c : PC} {S R : List Bytes} (hc : CoreS ownA ownB (sm x c)) (d : Dir x j c S R)
    (r : List WsIn) (q : Nat) (cj : Bool) (hs : c.a.slot = some (.requested q)) :
    Dir x j { c with a := { c.a with inbox := r, slot := some (.established c.a.len), len := c.a.len + 1,
                                     nobj := c.a.nobj + 1, canJ := cj, nw := c.a.nw + 1, rxJ := c.a.rxJ || cj },
                     ab := if c.abOpen then c.ab ++ [] else c.ab } (S ++ pX x []) R := by
  refine d.silentAct (fun h => absurd h (Nat.succ_ne_zero _)) (fun h => h) ?_
  intro q' hq
  exfalso
  refine core_req hex hc ?_ ?_
  · show sk c.a.slot = 1
    rw [hs]; rfl
  · show sk c.b.slot = 1
    rw [hq]; rfl

theorem Dir.closeOutA {c : PC} {S R : List Bytes} (d : Dir x j c S R) :
    Dir x j { c with a := { c.a with outClosed := true }, ab := if c.abOpen then c.ab ++ [] else c.ab }
      (S ++ pX x []) R :=
  d.silentAct (fun h => h) (fun h => h) (fun _ _ h => ⟨h.1, fun _ _ ho => by cases ho⟩)

theorem Dir.clearOutqA {c : PC} {S R : List Bytes} (d : Dir x j c S R) :
    Dir x j { c with a := { c.a with outq := [], outClosed := true }, ab := if c.abOpen then c.ab ++ [] else c.ab }
      (S ++ pX x []) R := by
  refine d.silentAct (fun h => h) ?_ ?_
  · exact pot_back c c.a.cnt _ (Nat.le_refl _) (fun hq => by simp [hasConn] at hq)
  · rintro q hq ⟨g, -⟩
    dsimp only
    rw [PC.live] at g
    rw [ite_self, List.append_nil]
    exact ⟨guarded_prefix x _ _ g, fun _ _ ho => by cases ho⟩

/-! ### Every small step of the left side -/

theorem Dir.stepA (hex : ¬(ownA ∧ ownB)) {jA : Nat} {c c' : PC} {S R : List Bytes} {ws : List Msg} {acc : List Bytes}
    {xl : List XL} (hc : CoreS ownA ownB (sm x c)) (hw : Wires c) (d : Dir x j c S R) (st : CStepL x jA c c' ws acc xl)
    (hn : c'.a.rngNil = false) : Dir x j c' (S ++ pX x ws) R := by
  have _ := hw  -- not needed for the sender's own steps
  cases st with
  | act v ws acc xl h =>
    cases h with
    | emit m r h => exact d.emitA hc m r h
    | sendClose => exact d.sendCloseA
    | enq m hc' h1 h3 h4 h5 h2 =>
      refine d.enqA m rfl rfl rfl rfl hc' h1 (fun h => ?_)
      rcases h with h | h
      · exact h2 h
      · rw [h3] at h; cases h
    | enqPush p hc' hw' =>
      refine d.enqA _ rfl rfl rfl rfl hc' rfl (fun _ => ?_)
      have := hc.l.wle
      exact Nat.lt_of_lt_of_le hw' this
    | enqFinS hc' hw' =>
      exact d.enqA (.frame (.finish x)) rfl rfl rfl rfl hc' rfl (fun h => by rcases h with h | h <;> cases h)
    | enqFinB hc' hb =>
      exact d.enqA (.frame (.finish x)) rfl rfl rfl rfl hc' rfl (fun h => by rcases h with h | h <;> cases h)
    | rng k n hk hn' => exact d.rngA k n hk
    | draw k n s m hk hn' hd hs ho hk' =>
      refine d.drawA hc k n s m ?_
      rcases hd with hd | hd
      · exact hd
      · dsimp only at hn; rw [hd] at hn; cases hn
    | pop w r h hw' => exact d.sameAct rfl rfl rfl rfl
    | popFin r s h hs => exact d.sameAct rfl rfl rfl rfl
    | popBind m r b h hm hb => exact d.sameAct rfl rfl rfl rfl
    | degrade s k w b rx hs hk hkeep hw' hb hr => exact d.sameAct rfl rfl rfl rfl
    | connRej m r h hm => exact d.sameAct rfl rfl rfl rfl
    | connNew m r n h hm hs => exact d.connNewA r n _
    | ackNew m r q h hm hs => exact d.ackNewA hex hc r q _ hs
    | ackOld m r h hm hs => exact d.sameAct rfl rfl rfl rfl
    | pushAcc p r h hc' => exact d.sameAct rfl rfl rfl rfl
    | pushRej p r s h hs => exact d.sameAct rfl rfl rfl rfl
    | grow n h => exact d.sameAct rfl rfl rfl rfl
    | clearInbox => exact d.sameAct rfl rfl rfl rfl
    | closeOut => exact d.closeOutA
    | clearOutq => exact d.clearOutqA
  | dlv m rest h hm =>
    rw [pX_nil, List.append_nil]
    exact d.of_eq rfl rfl rfl rfl rfl rfl rfl rfl rfl rfl rfl
  | dlvClose rest h =>
    rw [pX_nil, List.append_nil]
    exact d.of_eq rfl rfl rfl rfl rfl rfl rfl rfl rfl rfl rfl
  | cut w hw' =>
    rw [pX_nil, List.append_nil]
    exact d.of_eq rfl rfl rfl rfl rfl rfl rfl rfl rfl rfl rfl

end Penguin.PairAll
