/-
Stream integrity on the SENDING side, for every history of one endpoint and ANY peer.

The only thing that ever puts a `Push` frame into the outbound queue is a write call that returns
`wrote n` for a non-empty payload, and it puts exactly one: `Push (flow id of the object behind the
handle) payload`.  The queue is FIFO towards the transport; the wind-down after an error or a Close
throws away what is still queued (the connection is gone), the wind-down after the `Multiplexor` was
dropped sends it first.  `SnT e e' evs W`: from `e` to `e'`, emitting `evs`, with `W` the `(flow id,
payload)` of the successful writes in between — the `Push` frames handed to the transport followed by
those still queued are a prefix of (queued before ++ W), and ARE (queued before ++ W) as long as the
outbound queue is open; nothing is written once it is closed.  Every function of the model satisfies it.
Core Lean only.
-/
import Penguin.Lemmas.MuxReach
import Penguin.Lemmas.MuxStep

namespace Penguin.Mux

/-- The `Push` frames in a list of messages: (flow id, payload), in order. -/
def pushesQ : List Msg → List (Nat × Bytes)
  | [] => []
  | .frame (.push fid d) :: r => (fid, d) :: pushesQ r
  | _ :: r => pushesQ r

/-- The `Push` frames handed to the transport among a list of events, in order. -/
def pushesEv : List Ev → List (Nat × Bytes)
  | [] => []
  | .wire (.frame (.push fid d)) :: r => (fid, d) :: pushesEv r
  | _ :: r => pushesEv r

theorem pushesQ_append (a b : List Msg) : pushesQ (a ++ b) = pushesQ a ++ pushesQ b := by
  induction a with
  | nil => rfl
  | cons m r ih =>
    cases m with
    | frame f => cases f <;> simp [pushesQ, ih]
    | ping => simpa [pushesQ] using ih
    | pong => simpa [pushesQ] using ih
    | close => simpa [pushesQ] using ih

theorem pushesEv_append (a b : List Ev) : pushesEv (a ++ b) = pushesEv a ++ pushesEv b := by
  induction a with
  | nil => rfl
  | cons ev r ih =>
    cases ev with
    | wire m =>
      cases m with
      | frame f => cases f <;> simp [pushesEv, ih]
      | ping => simpa [pushesEv] using ih
      | pong => simpa [pushesEv] using ih
      | close => simpa [pushesEv] using ih
    | wireClose => simpa [pushesEv] using ih
    | openDone r x => simpa [pushesEv] using ih
    | bindDone r x => simpa [pushesEv] using ih
    | exit x => simpa [pushesEv] using ih

theorem pushesEv_wires (l : List Msg) : pushesEv (l.map Ev.wire) = pushesQ l := by
  induction l with
  | nil => rfl
  | cons m r ih =>
    cases m with
    | frame f => cases f <;> simp [pushesEv, pushesQ, ih]
    | ping => simpa [pushesEv, pushesQ] using ih
    | pong => simpa [pushesEv, pushesQ] using ih
    | close => simpa [pushesEv, pushesQ] using ih

theorem pushesEv_map_openDone (l : List OpenReq) (c : OpenRes) :
    pushesEv (l.map (fun r => Ev.openDone r.req c)) = [] := by
  induction l with
  | nil => rfl
  | cons r rest ih => simpa [pushesEv] using ih

/-- Not a `Push` frame. -/
def Msg.notPush : Msg → Bool
  | .frame (.push _ _) => false
  | _ => true

theorem pushesQ_snoc_other (q : List Msg) (m : Msg) (h : m.notPush = true) : pushesQ (q ++ [m]) = pushesQ q := by
  rw [pushesQ_append]
  cases m with
  | frame f => cases f <;> first | (simp [Msg.notPush] at h; done) | simp [pushesQ]
  | ping => simp [pushesQ]
  | pong => simp [pushesQ]
  | close => simp [pushesQ]

/-! ### The relation -/

structure SnO (q : List Msg) (c : Bool) (q' : List Msg) (c' : Bool) (evs : List Ev) (W : List (Nat × Bytes)) : Prop where
  closed : c = true → c' = true
  pre : pushesEv evs ++ pushesQ q' <+: pushesQ q ++ W
  eq : c' = false → pushesEv evs ++ pushesQ q' = pushesQ q ++ W
  noW : c = true → W = []

def SnT (e e' : EP) (evs : List Ev) (W : List (Nat × Bytes)) : Prop :=
  SnO e.outq e.outClosed e'.outq e'.outClosed evs W

theorem SnT.silent {e e' : EP} {evs : List Ev} (hq : e'.outq = e.outq) (hc : e'.outClosed = e.outClosed)
    (hev : pushesEv evs = []) : SnT e e' evs [] := by
  unfold SnT; rw [hq, hc]
  exact ⟨id, by simp [hev], fun _ => by simp [hev], fun _ => rfl⟩

theorem SnT.refl (e : EP) : SnT e e [] [] := SnT.silent rfl rfl rfl

theorem SnT.trans {a b c : EP} {ev1 ev2 : List Ev} {W1 W2 : List (Nat × Bytes)}
    (s : SnT a b ev1 W1) (t : SnT b c ev2 W2) : SnT a c (ev1 ++ ev2) (W1 ++ W2) := by
  refine ⟨fun h => t.closed (s.closed h), ?_, ?_, ?_⟩
  · rw [pushesEv_append, List.append_assoc]
    cases hb : b.outClosed with
    | false =>
      have h1 := s.eq hb
      have h2 := t.pre
      rw [← List.append_assoc (pushesQ a.outq), ← h1, List.append_assoc]
      exact (List.prefix_append_right_inj _).mpr h2
    | true =>
      have hw := t.noW hb
      have h2 := t.pre
      rw [hw, List.append_nil] at h2 ⊢
      exact ((List.prefix_append_right_inj _).mpr h2).trans s.pre
  · intro hc
    have hb : b.outClosed = false := by
      cases hb : b.outClosed with
      | false => rfl
      | true => rw [t.closed hb] at hc; cases hc
    rw [pushesEv_append, List.append_assoc, t.eq hc, ← List.append_assoc, s.eq hb, List.append_assoc]
  · intro ha
    rw [s.noW ha, t.noW (s.closed ha)]; rfl

theorem SnT.after {a b c : EP} {ev1 ev2 : List Ev} {W1 W2 : List (Nat × Bytes)}
    (t : SnT b c ev2 W2) (s : SnT a b ev1 W1) : SnT a c (ev1 ++ ev2) (W1 ++ W2) := s.trans t

theorem SnT.evs {e e' : EP} {evs evs' : List Ev} {W W' : List (Nat × Bytes)} (s : SnT e e' evs W)
    (h : evs' = evs) (hw : W' = W) : SnT e e' evs' W' := by subst h hw; exact s

/-- Task-side composition: no writes. -/
theorem SnT.tr {a b c : EP} {ev1 ev2 : List Ev} (s : SnT a b ev1 []) (t : SnT b c ev2 []) : SnT a c (ev1 ++ ev2) [] :=
  (s.trans t).evs rfl rfl

theorem SnT.congr {e e' a a' : EP} {evs : List Ev} {W : List (Nat × Bytes)} (s : SnT e e' evs W)
    (h1q : a.outq = e.outq) (h1c : a.outClosed = e.outClosed) (h2q : a'.outq = e'.outq) (h2c : a'.outClosed = e'.outClosed) :
    SnT a a' evs W := by
  unfold SnT at *; rw [h1q, h1c, h2q, h2c]; exact s

/-- A state that differs from `e` in other fields than the outbound queue; events that are not wires. -/
macro "sn_silent" : tactic => `(tactic| exact SnT.silent rfl rfl rfl)

theorem SnT.modObj (e : EP) (i : Nat) (f : Obj → Obj) : SnT e (e.modObj i f) [] [] := by sn_silent

theorem SnT.enq (e : EP) (m : Msg) (h : m.notPush = true) : SnT e (e.enq m) [] [] := by
  unfold EP.enq; split
  · exact SnT.refl e
  · refine ⟨id, ?_, fun _ => ?_, fun _ => rfl⟩
    · show pushesEv [] ++ pushesQ (e.outq ++ [m]) <+: pushesQ e.outq ++ []
      rw [pushesQ_snoc_other _ _ h]; simp [pushesEv]
    · show pushesEv [] ++ pushesQ (e.outq ++ [m]) = pushesQ e.outq ++ []
      rw [pushesQ_snoc_other _ _ h]; simp [pushesEv]

theorem SnT.enqFrame (e : EP) (f : Frame) (h : (Msg.frame f).notPush = true) : SnT e (e.enqFrame f) [] [] :=
  SnT.enq e _ h

theorem SnT.enqFrame' {e e' : EP} (f : Frame) (h : (Msg.frame f).notPush = true)
    (hq : e'.outq = e.outq) (hc : e'.outClosed = e.outClosed) : SnT e (e'.enqFrame f) [] [] :=
  (SnT.enqFrame e' f h).congr hq.symm hc.symm rfl rfl

/-- The write path: one `Push` is queued while the queue is open. -/
theorem SnT.enqPush (e : EP) (fid : Nat) (d : Bytes) (hc : e.outClosed = false) :
    SnT e (e.enqFrame (.push fid d)) [] [(fid, d)] := by
  unfold EP.enqFrame EP.enq
  rw [hc]
  simp only [Bool.false_eq_true, if_false]
  refine ⟨fun h => (by rw [hc] at h; cases h), ?_, fun _ => ?_, fun h => (by rw [hc] at h; cases h)⟩
  · show pushesEv [] ++ pushesQ (e.outq ++ [.frame (.push fid d)]) <+: pushesQ e.outq ++ [(fid, d)]
    rw [pushesQ_append]; simp [pushesEv, pushesQ]
  · show pushesEv [] ++ pushesQ (e.outq ++ [.frame (.push fid d)]) = pushesQ e.outq ++ [(fid, d)]
    rw [pushesQ_append]; simp [pushesEv, pushesQ]

/-- The outbound queue is closed; what it held may be thrown away. -/
theorem SnT.close {e e' : EP} (hc : e'.outClosed = true) (hq : pushesQ e'.outq <+: pushesQ e.outq) :
    SnT e e' [] [] :=
  ⟨fun _ => hc, (by simpa [pushesEv] using hq), fun h => (by rw [hc] at h; cases h), fun _ => rfl⟩

/-! ### Function by function -/

theorem SnT.openRound (e : EP) (r : OpenReq) : SnT e (openRound e r).1 (openRound e r).2 [] := by
  unfold Mux.openRound
  split
  · sn_silent
  · split
    · sn_silent
    · simp only
      split
      · sn_silent
      · exact SnT.enqFrame' _ rfl rfl rfl

theorem SnT.openRejected (e : EP) (req : Nat) (final : Bool) :
    SnT e (openRejected e req final).1 (openRejected e req final).2 [] := by
  unfold Mux.openRejected
  repeat' split
  all_goals sn_silent

theorem SnT.closeLocal (e : EP) (s : Slot) (fid : Nat) (inh final : Bool) :
    SnT e (closeLocal e s fid inh final).1 (closeLocal e s fid inh final).2 [] := by
  unfold Mux.closeLocal
  cases s with
  | established i =>
    simp only
    cases ho : e.obj? i with
    | none => exact SnT.refl e
    | some o =>
      simp only
      split
      · exact SnT.enqFrame' _ rfl rfl rfl
      · sn_silent
  | requested req => exact SnT.openRejected e req final
  | bindRequested req => sn_silent

theorem SnT.closeFlow (e : EP) (fid : Nat) (inh : Bool) : SnT e (closeFlow e fid inh).1 (closeFlow e fid inh).2 [] := by
  unfold Mux.closeFlow
  split
  · exact SnT.refl e
  · exact (SnT.closeLocal { e with flows := erase e.flows fid } _ _ _ _).congr rfl rfl rfl rfl

theorem SnT.offerAccept (e : EP) (i : Nat) : SnT e (offerAccept e i) [] [] := by
  unfold Mux.offerAccept; split <;> sn_silent

theorem SnT.offerBind (e : EP) (b : BindIn) : SnT e (offerBind e b) [] [] := by
  unfold Mux.offerBind; split <;> sn_silent

/-- `process_frame` never queues a `Push` (it answers with `Reset` or `Acknowledge` only). -/
theorem SnT.processFrame (e : EP) (f : Frame) (ig : Bool) :
    SnT e (processFrame e f ig).1 (processFrame e f ig).2.1 [] := by
  cases f with
  | connect fid rwnd port host =>
    simp only [Mux.processFrame]
    split
    · exact SnT.enqFrame _ _ rfl
    · have g : SnT e (EP.enqFrame { e with objs := e.objs ++ [newObj e.opts fid rwnd host port], flows := insert e.flows fid (.established e.objs.length) }
          (.acknowledge fid e.opts.rwnd)) [] [] :=
        SnT.enqFrame' _ rfl rfl rfl
      split
      · sn_silent
      · split
        · exact g.tr (SnT.silent rfl rfl rfl)
        · exact g.tr (SnT.offerAccept _ _)
  | acknowledge fid n =>
    simp only [Mux.processFrame]
    split
    · sn_silent
    · split
      · sn_silent
      · sn_silent
    · exact SnT.enqFrame _ _ rfl
    · exact SnT.enqFrame _ _ rfl
  | finish fid =>
    simp only [Mux.processFrame]
    split
    · exact SnT.enqFrame _ _ rfl
    · sn_silent
    · rename_i req _
      have g : SnT e (EP.enqFrame { e with flows := erase e.flows fid, opens := e.opens.filter (·.req ≠ req) } (.reset fid)) [] [] :=
        SnT.enqFrame' _ rfl rfl rfl
      refine (g.tr (SnT.silent rfl rfl ?_)).evs (List.nil_append _).symm rfl
      split <;> rfl
    · sn_silent
  | reset fid =>
    simp only [Mux.processFrame]
    exact SnT.closeFlow e fid true
  | push fid d =>
    simp only [Mux.processFrame]
    split
    · split
      · exact SnT.refl e
      · split
        · exact SnT.enqFrame _ _ rfl
        · split
          · exact SnT.refl e
          · split
            · sn_silent
            · exact SnT.closeFlow e fid false
    · exact SnT.enqFrame _ _ rfl
  | bind fid bt port host =>
    simp only [Mux.processFrame]
    repeat' split
    all_goals first | exact SnT.refl e | exact SnT.enqFrame _ _ rfl | exact SnT.offerBind _ _
  | datagram fid port host d =>
    simp only [Mux.processFrame]
    repeat' split
    all_goals first | exact SnT.refl e | sn_silent

theorem SnT.processIn (e : EP) (w : WsIn) (ig : Bool) : SnT e (processIn e w ig).1 (processIn e w ig).2.1 [] := by
  cases w with
  | msg m => cases m <;> first | exact SnT.processFrame _ _ ig | exact SnT.refl e
  | bad b => exact SnT.refl e
  | err => exact SnT.refl e
  | eof => exact SnT.refl e

/-! ### Wind-down -/

theorem SnT.windDownInbox (e : EP) (l : List WsIn) : SnT e (windDownInbox e l).1 (windDownInbox e l).2.1 [] := by
  induction l generalizing e with
  | nil => sn_silent
  | cons w l ih =>
    cases w with
    | err => sn_silent
    | eof => sn_silent
    | msg m =>
      simp only [Mux.windDownInbox]
      exact (SnT.processIn e (.msg m) true).tr ((ih _).congr rfl rfl rfl rfl)
    | bad b =>
      simp only [Mux.windDownInbox]
      exact (SnT.processIn e (.bad b) true).tr ((ih _).congr rfl rfl rfl rfl)

theorem SnT.drainFlows (e : EP) (l : List (Nat × Slot)) : SnT e (drainFlows e l).1 (drainFlows e l).2 [] := by
  induction l generalizing e with
  | nil => sn_silent
  | cons p l ih =>
    obtain ⟨fid, s⟩ := p
    simp only [Mux.drainFlows]
    exact (SnT.closeLocal e s fid true true).tr (ih _)

theorem SnT.windDownFinish (e : EP) (res : ExitRes) : SnT e (windDownFinish e res).1 (windDownFinish e res).2 [] := by
  have g1 := (SnT.drainFlows { e with flows := [] } e.flows).congr (a := e) rfl rfl rfl rfl
  simp only [Mux.windDownFinish]
  have g2 : SnT (Mux.drainFlows { e with flows := [] } e.flows).1 (Mux.drainFlows { e with flows := [] } e.flows).1
      ((((Mux.drainFlows { e with flows := [] } e.flows).1.opens.filter
          (fun r => !(Mux.drainFlows { e with flows := [] } e.flows).1.retryq.contains r.req)).map
          (fun r => Ev.openDone r.req .closed)) ++ [.exit res]) [] :=
    SnT.silent rfl rfl (by rw [pushesEv_append, pushesEv_map_openDone]; rfl)
  exact ((g1.tr g2).evs (by simp [List.append_assoc]) rfl).congr rfl rfl rfl rfl

/-- The tail of the wind-down: its events start with the `flushed` ones it was given. -/
theorem SnT.windDownTail (e1 : EP) (flushed : List Ev) (srcEnded : Bool) (res : ExitRes) :
    ∃ evs, (windDownTail e1 flushed srcEnded res).2 = flushed ++ evs ∧
      SnT e1 (windDownTail e1 flushed srcEnded res).1 evs [] := by
  have g0 : SnT e1 e1 [Ev.wireClose] [] := SnT.silent rfl rfl rfl
  have g1 := g0.tr (SnT.windDownInbox e1 e1.inbox)
  simp only [Mux.windDownTail]
  split
  · exact ⟨_, by simp [List.append_assoc],
      g1.tr ((SnT.windDownFinish { (Mux.windDownInbox e1 e1.inbox).1 with inbox := [] } res).congr rfl rfl rfl rfl)⟩
  · exact ⟨_, by simp [List.append_assoc], g1.congr rfl rfl rfl rfl⟩

/-- The send path: a prefix of the queue goes to the transport, in order. -/
theorem SnT.sendSome (e : EP) : SnT e (sendSome e).1 (sendSome e).2 [] := by
  unfold Mux.sendSome
  split
  · refine ⟨id, ?_, fun _ => ?_, fun _ => rfl⟩
    · show pushesEv (e.outq.map Ev.wire) ++ pushesQ [] <+: pushesQ e.outq ++ []
      rw [pushesEv_wires]; simp [pushesQ]
    · show pushesEv (e.outq.map Ev.wire) ++ pushesQ [] = pushesQ e.outq ++ []
      rw [pushesEv_wires]; simp [pushesQ]
  · rename_i n _
    have h : pushesEv ((e.outq.take n).map Ev.wire) ++ pushesQ (e.outq.drop n) = pushesQ e.outq ++ [] := by
      rw [pushesEv_wires, ← pushesQ_append, List.take_append_drop, List.append_nil]
    exact ⟨id, by show _ <+: _; rw [h]; exact List.prefix_refl _, fun _ => h, fun _ => rfl⟩

theorem SnT.dropPrep (e : EP) : SnT e (dropPrep e) [] [] :=
  SnT.close rfl (by show pushesQ (disallowAll e e.flows).outq <+: _; rw [disallowAll_outq e e.flows]; exact List.prefix_refl _)

theorem SnT.windDownPrep (e : EP) : SnT e (windDownPrep e) [] [] :=
  SnT.close rfl (List.nil_prefix)

theorem SnT.windDown (e : EP) (drain : Bool) (res : ExitRes) :
    SnT e (windDown e drain res).1 (windDown e drain res).2 [] := by
  simp only [Mux.windDown]
  split
  · have g := (SnT.dropPrep e).tr (SnT.sendSome _)
    split
    · obtain ⟨evs, h1, h2⟩ := SnT.windDownTail (Mux.sendSome (Mux.dropPrep e)).1 (Mux.sendSome (Mux.dropPrep e)).2 e.srcEnded res
      rw [h1]
      exact (g.tr h2).evs (by simp) rfl
    · exact (g.evs (by simp) rfl).congr rfl rfl rfl rfl
  · obtain ⟨evs, h1, h2⟩ := SnT.windDownTail (Mux.windDownPrep e) [] e.srcEnded res
    rw [h1]
    exact ((SnT.windDownPrep e).tr h2).evs (by simp) rfl

/-! ### The task's loops -/

theorem SnT.unpark (e : EP) : SnT e (unpark e) [] [] := by
  unfold Mux.unpark
  split
  · exact SnT.refl e
  · split
    · split
      · sn_silent
      · sn_silent
    · split
      · sn_silent
      · exact SnT.refl e
  · split
    · exact SnT.enqFrame' _ rfl rfl rfl
    · split
      · sn_silent
      · exact SnT.refl e

theorem SnT.drainStep (e : EP) (res : ExitRes) : SnT e (drainStep e res).1 (drainStep e res).2 [] := by
  simp only [Mux.drainStep]
  split
  · obtain ⟨evs, h1, h2⟩ := SnT.windDownTail { (Mux.sendSome e).1 with draining := none } (Mux.sendSome e).2 e.srcEnded res
    rw [h1]
    exact (SnT.sendSome e).tr (h2.congr rfl rfl rfl rfl)
  · exact SnT.sendSome e

theorem SnT.closingStep (e : EP) (res : ExitRes) : SnT e (closingStep e res).1 (closingStep e res).2 [] := by
  have g := SnT.windDownInbox e e.inbox
  simp only [Mux.closingStep]
  split
  · exact g.tr ((SnT.windDownFinish { (Mux.windDownInbox e e.inbox).1 with inbox := [] } res).congr rfl rfl rfl rfl)
  · exact g.congr rfl rfl rfl rfl

theorem SnT.recvOne (e : EP) (w : WsIn) (rest : List WsIn) : SnT e (recvOne e w rest).1 (recvOne e w rest).2.1 [] := by
  simp only [Mux.recvOne]
  refine (SnT.processIn _ w false).congr ?_ ?_ rfl rfl
  · split <;> rfl
  · split <;> rfl

theorem SnT.settleLoop (fuel : Nat) (e : EP) (acc : List Ev) :
    ∃ evs, (settleLoop fuel e acc).2 = acc ++ evs ∧ SnT e (settleLoop fuel e acc).1 evs [] := by
  induction fuel generalizing e acc with
  | zero => exact ⟨[], by simp [Mux.settleLoop], SnT.refl e⟩
  | succ n ih =>
    unfold Mux.settleLoop
    split
    · exact ⟨[], by simp, SnT.refl e⟩
    · split
      · exact ⟨_, rfl, SnT.drainStep _ _⟩
      · split
        · exact ⟨_, rfl, SnT.closingStep _ _⟩
        · have gu := SnT.unpark e
          split
          · rename_i w rest _ _
            have gp := (gu.tr (SnT.recvOne (Mux.unpark e) w rest)).evs (List.nil_append _).symm rfl
            split
            · exact ⟨_, by rw [List.append_assoc], gp.tr (SnT.windDown _ _ _)⟩
            · obtain ⟨evs, h1, h2⟩ := ih (Mux.recvOne (Mux.unpark e) w rest).1 (acc ++ (Mux.recvOne (Mux.unpark e) w rest).2.1)
              exact ⟨(Mux.recvOne (Mux.unpark e) w rest).2.1 ++ evs, by rw [h1, List.append_assoc], gp.tr h2⟩
          · split
            · rename_i rest _
              exact ⟨_, rfl, (gu.tr ((SnT.windDown { Mux.unpark e with droppedq := rest } true .ok).congr rfl rfl rfl rfl)).evs
                (List.nil_append _).symm rfl⟩
            · rename_i fid rest _ hq
              have gc := (gu.tr ((SnT.closeFlow { Mux.unpark e with droppedq := rest } fid false).congr
                (a := Mux.unpark e) rfl rfl rfl rfl)).evs (List.nil_append _).symm rfl
              obtain ⟨evs, h1, h2⟩ := ih (Mux.closeFlow { Mux.unpark e with droppedq := rest } fid false).1
                (acc ++ (Mux.closeFlow { Mux.unpark e with droppedq := rest } fid false).2)
              exact ⟨(Mux.closeFlow { Mux.unpark e with droppedq := rest } fid false).2 ++ evs, by rw [h1, List.append_assoc], gc.tr h2⟩
            · exact ⟨[], by simp, gu⟩

theorem SnT.runRetries (e : EP) (l : List Nat) : SnT e (runRetries e l).1 (runRetries e l).2 [] := by
  induction l generalizing e with
  | nil => sn_silent
  | cons req rest ih =>
    unfold Mux.runRetries
    split
    · exact ih e
    · rename_i r hr
      exact (SnT.openRound e r).tr (ih _)

theorem SnT.runDone (e : EP) (l : List (Nat × Nat)) : SnT e (runDone e l).1 (runDone e l).2 [] := by
  induction l generalizing e with
  | nil => sn_silent
  | cons x rest ih =>
    obtain ⟨req, i⟩ := x
    unfold Mux.runDone
    have g : SnT e { e with handles := e.handles ++ [i] } [Ev.openDone req (.ok e.handles.length)] [] := by sn_silent
    exact (g.tr (ih _)).evs rfl rfl

theorem SnT.hold (e : EP) (c : Bool) :
    SnT e (if c then (e, ([] : List Ev)) else Mux.sendSome e).1 (if c then (e, ([] : List Ev)) else Mux.sendSome e).2 [] := by
  split
  · sn_silent
  · exact SnT.sendSome e

theorem SnT.settle (e : EP) : SnT e (settle e).1 (settle e).2 [] := by
  obtain ⟨evs, h1, h2⟩ := SnT.settleLoop (2 * e.inbox.length + e.droppedq.length + 2) e []
  unfold Mux.settle
  generalize Mux.settleLoop (2 * e.inbox.length + e.droppedq.length + 2) e [] = r1 at h1 h2
  obtain ⟨e1, evs1⟩ := r1
  simp only at h1 h2 ⊢
  simp only [List.nil_append] at h1
  subst h1
  have s1 := SnT.hold e1 (e1.dead || e1.draining.isSome)
  generalize (if (e1.dead || e1.draining.isSome) = true then (e1, ([] : List Ev)) else Mux.sendSome e1) = r2 at s1
  obtain ⟨e2, w2⟩ := r2
  simp only at s1 ⊢
  have s2 : SnT e2 (Mux.runDone { e2 with doneq := [] } (e2.doneq.foldr insertDone [])).1
      (Mux.runDone { e2 with doneq := [] } (e2.doneq.foldr insertDone [])).2 [] :=
    (SnT.runDone { e2 with doneq := [] } _).congr rfl rfl rfl rfl
  generalize Mux.runDone { e2 with doneq := [] } (e2.doneq.foldr insertDone []) = r3 at s2
  obtain ⟨e3, w3⟩ := r3
  simp only at s2 ⊢
  have s3 : SnT e3 (Mux.runRetries { e3 with retryq := [] } (sortNat e3.retryq)).1
      (Mux.runRetries { e3 with retryq := [] } (sortNat e3.retryq)).2 [] :=
    (SnT.runRetries { e3 with retryq := [] } (sortNat e3.retryq)).congr rfl rfl rfl rfl
  generalize Mux.runRetries { e3 with retryq := [] } (sortNat e3.retryq) = r4 at s3
  obtain ⟨e4, w4⟩ := r4
  simp only at s3 ⊢
  have s4 := SnT.hold e4 (e4.dead || e4.draining.isSome)
  exact ((((h2.tr s1).tr s2).tr s3).tr s4).evs (by simp [List.append_assoc]) rfl

end Penguin.Mux
