/-
At most one reply per frame: whatever state the endpoint is in and whatever frame arrives,
`processFrame` appends at most ONE message to the outbound queue.  (A rejected open request is retried
by its own future later, not by the receive loop.)  Core Lean only.
-/
import Penguin.Lemmas.MuxStep

namespace Penguin.Mux

/-- `e'` has at most one more message queued than `e`, and none removed. -/
def AtMost1 (e e' : EP) : Prop := ∃ extra, e'.outq = e.outq ++ extra ∧ extra.length ≤ 1

theorem AtMost1.same {e e' : EP} (h : e'.outq = e.outq) : AtMost1 e e' := ⟨[], by simp [h], by simp⟩

theorem AtMost1.enqFrame (e : EP) (f : Frame) : AtMost1 e (e.enqFrame f) := by
  unfold EP.enqFrame EP.enq
  split
  · exact ⟨[], by simp, by simp⟩
  · exact ⟨[.frame f], rfl, by simp⟩

/-- … one message, queued on a state that had the same queue as `e`. -/
theorem AtMost1.enq_on {e e0 e' : EP} (f : Frame) (h : e'.outq = (e0.enqFrame f).outq) (h0 : e0.outq = e.outq) :
    AtMost1 e e' := by
  obtain ⟨x, hx, hl⟩ := AtMost1.enqFrame e0 f
  exact ⟨x, by rw [h, hx, h0], hl⟩

theorem closeLocal_atMost1 (e : EP) (s : Slot) (fid : Nat) (inh final : Bool) :
    AtMost1 e (closeLocal e s fid inh final).1 := by
  unfold Mux.closeLocal
  cases s with
  | established i =>
    simp only
    cases ho : e.obj? i with
    | none => exact AtMost1.same rfl
    | some o =>
      simp only
      split
      · exact AtMost1.enq_on (.reset fid) rfl (modObj_outq e i _)
      · exact AtMost1.same rfl
  | requested req => exact AtMost1.same (openRejected_outq e req final)
  | bindRequested req => exact AtMost1.same rfl

theorem closeFlow_atMost1 (e : EP) (fid : Nat) (inh : Bool) : AtMost1 e (closeFlow e fid inh).1 := by
  unfold Mux.closeFlow
  split
  · exact AtMost1.same rfl
  · exact closeLocal_atMost1 { e with flows := erase e.flows fid } _ fid inh false

theorem processFrame_atMost1 (e : EP) (f : Frame) (ig : Bool) : AtMost1 e (processFrame e f ig).1 := by
  cases f with
  | connect fid rwnd port host =>
    simp only [Mux.processFrame]
    split
    · exact AtMost1.enqFrame _ _
    · split
      · exact AtMost1.same rfl
      · split
        · exact AtMost1.enq_on (.acknowledge fid e.opts.rwnd) rfl rfl
        · exact AtMost1.enq_on (.acknowledge fid e.opts.rwnd) (offerAccept_outq _ _) rfl
  | acknowledge fid n =>
    simp only [Mux.processFrame]
    split
    · exact AtMost1.same rfl
    · split <;> exact AtMost1.same rfl
    · exact AtMost1.enqFrame _ _
    · exact AtMost1.enqFrame _ _
  | finish fid =>
    simp only [Mux.processFrame]
    split
    · exact AtMost1.enqFrame _ _
    · exact AtMost1.same rfl
    · exact AtMost1.enq_on (.reset fid) rfl rfl
    · exact AtMost1.same rfl
  | reset fid =>
    simp only [Mux.processFrame]
    exact closeFlow_atMost1 e fid true
  | push fid d =>
    simp only [Mux.processFrame]
    split
    · split
      · exact AtMost1.same rfl
      · split
        · exact AtMost1.enqFrame _ _
        · split
          · exact AtMost1.same rfl
          · split
            · exact AtMost1.same rfl
            · exact closeFlow_atMost1 e fid false
    · exact AtMost1.enqFrame _ _
  | bind fid bt port host =>
    simp only [Mux.processFrame]
    split
    · exact AtMost1.enqFrame _ _
    · split
      · exact AtMost1.same rfl
      · split
        · exact AtMost1.enqFrame _ _
        · exact AtMost1.same (offerBind_outq _ _)
  | datagram fid port host d =>
    simp only [Mux.processFrame]
    repeat' split
    all_goals exact AtMost1.same rfl

end Penguin.Mux
