/-
Lemmas/Bridge — helper lemmas for C13 over `Model/Bridge`.

1. What one sub-poll appends to `calls` (`Appends`): the operations of its own direction only, a
   `Pending` answer among them when it returns `Pending`, no failed operation unless it returns an
   error, and the error it returns is one of those operations'.
2. Termination: the fuel of the two loops suffices.
3. The invariant `Inv` (split into the fields of the read direction, `InvR`, and of the write
   direction, `InvW`), preserved by a poll that does not fail; `Weak` after any poll.
-/
import Penguin.Model.Bridge

namespace Penguin.Bridge
open Penguin

/-! ### 1. Calls of a sub-poll -/

/-- `cs` is what a sub-poll of direction `d` returning `r` may have appended to `calls`. -/
structure CallsOk (d : Dir) (cs : List Call) (r : P) : Prop where
  dir : ∀ c ∈ cs, c.dir = d
  pend : r = .pending → ∃ c ∈ cs, c.pendingSite.isSome = true
  noErr : (∀ e, r ≠ .err e) → errors cs = []
  err : ∀ e, r = .err e → e ∈ errors cs

/-- The sub-poll turned `s` into `s'` appending calls that are `CallsOk`. -/
def Appends (d : Dir) (s s' : St) (r : P) : Prop :=
  ∃ cs, s'.calls = s.calls ++ cs ∧ CallsOk d cs r

theorem errors_append (a b : List Call) : errors (a ++ b) = errors a ++ errors b := by
  simp [errors, List.filterMap_append]

theorem Appends.trans_ok {d : Dir} {s s1 s2 : St} {r : P} {cs1 : List Call}
    (h1 : s1.calls = s.calls ++ cs1) (hd : ∀ c ∈ cs1, c.dir = d) (he : errors cs1 = [])
    (h2 : Appends d s1 s2 r) : Appends d s s2 r := by
  obtain ⟨cs2, hc, ok⟩ := h2
  refine ⟨cs1 ++ cs2, by rw [hc, h1, List.append_assoc], ?_, ?_, ?_, ?_⟩
  · intro c hc; rcases List.mem_append.mp hc with h | h
    · exact hd c h
    · exact ok.dir c h
  · intro hp; obtain ⟨c, hc, hs⟩ := ok.pend hp
    exact ⟨c, List.mem_append.mpr (.inr hc), hs⟩
  · intro hn; rw [errors_append, he, ok.noErr hn]; rfl
  · intro e hr; rw [errors_append, he]; simpa using ok.err e hr

theorem Appends.of_calls_eq {d : Dir} {s0 s s' : St} {r : P} (h : s0.calls = s.calls)
    (a : Appends d s s' r) : Appends d s0 s' r := by
  obtain ⟨cs, hc, ok⟩ := a
  exact ⟨cs, by rw [hc, h], ok⟩

theorem localFill_calls (s : St) :
    (localFill s).2.calls = s.calls ++ [.lfill (localFill s).1] := by
  unfold localFill; split
  · rfl
  · split <;> rfl

theorem localWrite_calls (s : St) (buf : Bytes) :
    (localWrite s buf).2.calls = s.calls ++ [.lwrite buf.length (localWrite s buf).1] := by
  unfold localWrite; split <;> rfl

theorem localFlush_calls (s : St) :
    (localFlush s).2.calls = s.calls ++ [.lflush (localFlush s).1] := by
  unfold localFlush; split <;> rfl

theorem localShutdown_calls (s : St) :
    (localShutdown s).2.calls = s.calls ++ [.lshut (localShutdown s).1] := by
  unfold localShutdown; split <;> rfl

theorem muxFill_calls (s : St) :
    (muxFill s).2.calls = s.calls ++ [.mfill (muxFill s).1] := by
  unfold muxFill; split
  · rfl
  · split <;> rfl

theorem muxCredit_calls (s : St) :
    (muxCredit s).2.calls = s.calls ++ [.credit (muxCredit s).1] := by
  unfold muxCredit; split <;> rfl

theorem muxSend_calls (s : St) (p : Bytes) :
    (muxSend s p).2.calls = s.calls ++ [.send p (muxSend s p).1] := by
  unfold muxSend; split <;> rfl

@[simp] theorem localConsume_calls (s : St) (n : Nat) :
    (localConsume s n).calls = s.calls ++ [.lconsume n] := rfl
@[simp] theorem muxConsume_calls (s : St) (n : Nat) :
    (muxConsume s n).calls = s.calls ++ [.mconsume n] := rfl
@[simp] theorem finishMux_calls (s : St) (n : Nat) :
    (finishMux s n).calls = s.calls ++ [.finish] := rfl

/-- A sub-poll that ends with the single call `c`. -/
theorem Appends.single {d : Dir} {s s' : St} {r : P} {c : Call}
    (hc : s'.calls = s.calls ++ [c]) (hd : c.dir = d)
    (hp : r = .pending → c.pendingSite.isSome = true)
    (hn : (∀ e, r ≠ .err e) → c.error = none)
    (he : ∀ e, r = .err e → c.error = some e) : Appends d s s' r := by
  refine ⟨[c], hc, ?_, ?_, ?_, ?_⟩
  · intro c' h; rw [List.mem_singleton.mp h]; exact hd
  · intro h; exact ⟨c, List.mem_singleton.mpr rfl, hp h⟩
  · intro h; simp [errors, hn h]
  · intro e h; simp [errors, he e h]

theorem shutdownLocal_appends (n : Nat) (s : St) :
    Appends .read s (shutdownLocal n s).2 (shutdownLocal n s).1 := by
  have hc := localShutdown_calls s
  unfold shutdownLocal
  rcases h : localShutdown s with ⟨a, s1⟩
  rw [h] at hc
  cases a with
  | ready v => cases v; exact .single hc rfl (by simp) (by simp [Call.error]) (by simp)
  | pending b => exact .single hc rfl (by simp [Call.pendingSite]) (by simp [Call.error]) (by simp)
  | err c => exact .single hc rfl (by simp) (by simp) (by simp [Call.error])

theorem readLoop_appends (fx : Fix) (hz : fx.writeZero = true) :
    ∀ fuel n s, Appends .read s (readLoop fx fuel n s).2 (readLoop fx fuel n s).1 := by
  intro fuel
  induction fuel with
  | zero => intro n s; exact ⟨[], by simp [readLoop], by simp, by simp [readLoop], by simp [errors], by simp [readLoop]⟩
  | succ k ih =>
    intro n s
    have hc := muxFill_calls s
    simp only [readLoop]
    rcases hmf : muxFill s with ⟨a, s1⟩
    rw [hmf] at hc
    cases a with
    | none => exact .single hc rfl (by simp [Call.pendingSite]) (by simp [Call.error]) (by simp)
    | some buf =>
      simp only
      split
      · -- end of stream: shut the local side down
        refine Appends.trans_ok hc (by simp [Call.dir]) (by simp [errors, Call.error]) ?_
        exact Appends.of_calls_eq rfl (shutdownLocal_appends n _)
      · rename_i hne
        have hw := localWrite_calls s1 buf
        rcases hlw : localWrite s1 buf with ⟨b, s2⟩
        rw [hlw] at hw
        refine Appends.trans_ok hc (by simp [Call.dir]) (by simp [errors, Call.error]) ?_
        cases b with
        | pending w => exact .single hw rfl (by simp [Call.pendingSite]) (by simp [Call.error]) (by simp)
        | err c => exact .single hw rfl (by simp) (by simp) (by simp [Call.error])
        | ready v =>
          simp only [hz, Bool.true_and]
          have hlen : buf.length ≠ 0 := by
            intro h; exact hne (List.length_eq_zero_iff.mp h)
          split
          · rename_i h0
            have : v = 0 := by simpa using h0
            subst this
            exact .single hw rfl (by simp) (by simp) (by simp [Call.error, hlen])
          · rename_i h0
            have hv : v ≠ 0 := by simpa using h0
            refine Appends.trans_ok hw (by simp [Call.dir]) (by simp [errors, Call.error, hv]) ?_
            refine Appends.trans_ok (cs1 := [.mconsume v]) (s1 := { muxConsume s2 v with rs := .transferring (n + v) })
              (by simp) (by simp [Call.dir]) (by simp [errors, Call.error]) ?_
            exact ih _ _

theorem pollRead_appends (fx : Fix) (hz : fx.writeZero = true) (s : St) :
    Appends .read s (pollRead fx s).2 (pollRead fx s).1 := by
  unfold pollRead
  split
  · exact readLoop_appends fx hz _ _ _
  · exact shutdownLocal_appends _ _
  · exact ⟨[], by simp, by simp, by simp, by simp [errors], by simp⟩

/-- What the coalescing loop appends. -/
structure CoalesceOk (cs : List Call) (stop : Stop) : Prop where
  dir : ∀ c ∈ cs, c.dir = .write
  pend : stop = .pending → ∃ c ∈ cs, c.pendingSite.isSome = true
  noErr : (∀ c, stop ≠ .err c) → errors cs = []
  err : ∀ c, stop = .err c → errors cs = [.localErr c]

theorem coalesce_calls : ∀ fuel acc s,
    ∃ cs, (coalesce fuel acc s).2.2.calls = s.calls ++ cs ∧ CoalesceOk cs (coalesce fuel acc s).2.1 := by
  intro fuel
  induction fuel with
  | zero => intro acc s; exact ⟨[], by simp [coalesce], by simp, by simp [coalesce], by simp [errors], by simp [coalesce]⟩
  | succ k ih =>
    intro acc s
    have hc := localFill_calls s
    simp only [coalesce]
    rcases hlf : localFill s with ⟨a, s1⟩
    rw [hlf] at hc
    cases a with
    | pending b =>
      exact ⟨[_], hc, by simp [Call.dir], by simp [Call.pendingSite], by simp [errors, Call.error], by simp⟩
    | err c =>
      exact ⟨[_], hc, by simp [Call.dir], by simp, by simp, by simp [errors, Call.error]⟩
    | ready d =>
      simp only
      split
      · exact ⟨[_], hc, by simp [Call.dir], by simp, by simp [errors, Call.error], by simp⟩
      · obtain ⟨cs, h, ok⟩ := ih (acc ++ d) (localConsume s1 d.length)
        refine ⟨[.lfill (.ready d), .lconsume d.length] ++ cs, ?_, ?_, ?_, ?_, ?_⟩
        · rw [h, localConsume_calls, hc]; simp
        · intro c hm
          rcases List.mem_append.mp hm with h' | h'
          · simp at h'; rcases h' with rfl | rfl <;> rfl
          · exact ok.dir c h'
        · intro hp; obtain ⟨c, hm, hs⟩ := ok.pend hp
          exact ⟨c, List.mem_append.mpr (.inr hm), hs⟩
        · intro hn; rw [errors_append, ok.noErr hn]; simp [errors, Call.error]
        · intro c hs; rw [errors_append, ok.err c hs]; simp [errors, Call.error]

theorem pollWrite_appends (fx : Fix) (hf : fx.fillErr = true) (s : St) :
    Appends .write s (pollWrite fx s).2 (pollWrite fx s).1 := by
  unfold pollWrite
  split
  · exact ⟨[], by simp, by simp, by simp, by simp [errors], by simp⟩
  · have hc := localFill_calls s
    rcases hlf : localFill s with ⟨a, s1⟩
    rw [hlf] at hc
    cases a with
    | pending b =>
      simp only
      have hfl := localFlush_calls s1
      rcases hl : localFlush s1 with ⟨fa, s2⟩
      rw [hl] at hfl
      have hcalls : s2.calls = s.calls ++ [.lfill (.pending b), .lflush fa] := by rw [hfl, hc]; simp
      cases fa with
      | ready v =>
        cases v
        exact ⟨_, hcalls, by simp [Call.dir], by simp [Call.pendingSite], by simp [errors, Call.error], by simp⟩
      | pending w =>
        exact ⟨_, hcalls, by simp [Call.dir], by simp [Call.pendingSite], by simp [errors, Call.error], by simp⟩
      | err c =>
        exact ⟨_, hcalls, by simp [Call.dir], by simp, by simp, by simp [errors, Call.error]⟩
    | err c => exact .single hc rfl (by simp) (by simp) (by simp [Call.error])
    | ready d =>
      simp only
      split
      · exact ⟨[.lfill (.ready d), .finish], by rw [finishMux_calls, hc]; simp, by simp [Call.dir], by simp,
          by simp [errors, Call.error], by simp⟩
      · refine Appends.trans_ok hc (by simp [Call.dir]) (by simp [errors, Call.error]) ?_
        have hcr := muxCredit_calls s1
        rcases hmc : muxCredit s1 with ⟨g, s2⟩
        rw [hmc] at hcr
        cases g with
        | pending => exact .single hcr rfl (by simp [Call.pendingSite]) (by simp [Call.error]) (by simp)
        | closed => exact .single hcr rfl (by simp) (by simp) (by simp [Call.error])
        | granted =>
          simp only
          refine Appends.trans_ok hcr (by simp [Call.dir]) (by simp [errors, Call.error]) ?_
          refine Appends.trans_ok (cs1 := [.lconsume d.length]) (s1 := localConsume s2 d.length)
            (by simp) (by simp [Call.dir]) (by simp [errors, Call.error]) ?_
          obtain ⟨cs, hcs, ok⟩ := coalesce_calls (fuelW (localConsume s2 d.length)) d (localConsume s2 d.length)
          rcases hco : coalesce (fuelW (localConsume s2 d.length)) d (localConsume s2 d.length) with ⟨payload, stop, s3⟩
          rw [hco] at hcs ok
          simp only at hcs ok
          have hsn := muxSend_calls s3 payload
          rcases hms : muxSend s3 payload with ⟨m, s4⟩
          rw [hms] at hsn
          simp only at hsn
          have hmem : ∀ (l : List Call), (∀ c ∈ l, c.dir = .write) → ∀ c ∈ cs ++ l, c.dir = .write := by
            intro l hl c hm
            rcases List.mem_append.mp hm with h | h
            · exact ok.dir c h
            · exact hl c h
          cases stop with
          | diverged =>
            exact ⟨cs, hcs, ok.dir, by simp, fun _ => ok.noErr (by simp), by simp⟩
          | eof =>
            simp only [hms]
            cases m with
            | closed =>
              exact ⟨cs ++ [.send payload .closed], by rw [hsn, hcs]; simp, hmem _ (by simp [Call.dir]), by simp,
                by simp, by simp [errors, Call.error]⟩
            | ok =>
              exact ⟨cs ++ [.send payload .ok, .finish], by rw [finishMux_calls, hsn, hcs]; simp,
                hmem _ (by simp [Call.dir]), by simp,
                fun _ => by rw [errors_append, ok.noErr (by simp)]; simp [errors, Call.error], by simp⟩
          | pending =>
            simp only [hms]
            cases m with
            | closed =>
              exact ⟨cs ++ [.send payload .closed], by rw [hsn, hcs]; simp, hmem _ (by simp [Call.dir]), by simp,
                by simp, by simp [errors, Call.error]⟩
            | ok =>
              refine ⟨cs ++ [.send payload .ok], by rw [hsn, hcs]; simp, hmem _ (by simp [Call.dir]), ?_,
                fun _ => by rw [errors_append, ok.noErr (by simp)]; simp [errors, Call.error], by simp⟩
              intro _
              obtain ⟨c, hm, hp⟩ := ok.pend rfl
              exact ⟨c, List.mem_append.mpr (.inl hm), hp⟩
          | err c =>
            simp only [hms]
            cases m with
            | closed =>
              exact ⟨cs ++ [.send payload .closed], by rw [hsn, hcs]; simp, hmem _ (by simp [Call.dir]), by simp,
                by simp, by simp [errors, Call.error]⟩
            | ok =>
              simp only
              exact ⟨cs ++ [.send payload .ok], by rw [hsn, hcs]; simp, hmem _ (by simp [Call.dir]), by simp, by simp,
                by simp [errors_append, ok.err c rfl]⟩

/-! ### The two directions touch disjoint fields -/

/-- The fields `poll_read_us` works on. -/
structure RPart where
  rs : ReadState
  lwrite : List (Ans Nat)
  lshut : List (Ans Unit)
  mrecv : List MRecv
  mbuf : Bytes
  muxGot : Bytes
  toLocal : Bytes
  lshutOk : Nat

/-- The fields `poll_write_us` works on. -/
structure WPart where
  ws : WriteState
  lfill : List (Ans Bytes)
  lflush : List (Ans Unit)
  lbuf : Bytes
  mcredit : List MCredit
  msend : List MSend
  localGot : Bytes
  fromLocal : Bytes
  frames : List Bytes
  lost : Bytes
  credits : Nat
  failedSends : Nat
  finishes : Nat

def St.rpart (s : St) : RPart :=
  ⟨s.rs, s.lwrite, s.lshut, s.mrecv, s.mbuf, s.muxGot, s.toLocal, s.lshutOk⟩

def St.wpart (s : St) : WPart :=
  ⟨s.ws, s.lfill, s.lflush, s.lbuf, s.mcredit, s.msend, s.localGot, s.fromLocal, s.frames, s.lost,
   s.credits, s.failedSends, s.finishes⟩

theorem muxFill_wpart (s : St) : (muxFill s).2.wpart = s.wpart := by
  unfold muxFill; split
  · rfl
  · split <;> rfl

theorem localWrite_wpart (s : St) (b : Bytes) : (localWrite s b).2.wpart = s.wpart := by
  unfold localWrite; split <;> rfl

theorem localShutdown_wpart (s : St) : (localShutdown s).2.wpart = s.wpart := by
  unfold localShutdown; split <;> rfl

theorem shutdownLocal_wpart (n : Nat) (s : St) : (shutdownLocal n s).2.wpart = s.wpart := by
  have h := localShutdown_wpart s
  unfold shutdownLocal
  generalize localShutdown s = r at h ⊢
  rcases r with ⟨a, s1⟩
  cases a with
  | ready v => cases v; exact h
  | pending b => exact h
  | err c => exact h

theorem readLoop_wpart (fx : Fix) : ∀ fuel n s, (readLoop fx fuel n s).2.wpart = s.wpart := by
  intro fuel
  induction fuel with
  | zero => intro n s; rfl
  | succ k ih =>
    intro n s
    have h1 := muxFill_wpart s
    simp only [readLoop]
    generalize muxFill s = r at h1 ⊢
    rcases r with ⟨a, s1⟩
    cases a with
    | none => exact h1
    | some buf =>
      simp only
      split
      · rw [shutdownLocal_wpart]; exact h1
      · have h2 := localWrite_wpart s1 buf
        generalize localWrite s1 buf = r2 at h2 ⊢
        rcases r2 with ⟨b, s2⟩
        cases b with
        | pending w => exact h2.trans h1
        | err c => exact h2.trans h1
        | ready v =>
          simp only
          split
          · exact h2.trans h1
          · rw [ih]; exact h2.trans h1

theorem pollRead_wpart (fx : Fix) (s : St) : (pollRead fx s).2.wpart = s.wpart := by
  unfold pollRead
  split
  · exact readLoop_wpart fx _ _ _
  · exact shutdownLocal_wpart _ _
  · rfl

theorem localFill_rpart (s : St) : (localFill s).2.rpart = s.rpart := by
  unfold localFill; split
  · rfl
  · split <;> rfl

theorem localFlush_rpart (s : St) : (localFlush s).2.rpart = s.rpart := by
  unfold localFlush; split <;> rfl

theorem muxCredit_rpart (s : St) : (muxCredit s).2.rpart = s.rpart := by
  unfold muxCredit; split <;> rfl

theorem muxSend_rpart (s : St) (p : Bytes) : (muxSend s p).2.rpart = s.rpart := by
  unfold muxSend; split <;> rfl

theorem coalesce_rpart : ∀ fuel acc s, (coalesce fuel acc s).2.2.rpart = s.rpart := by
  intro fuel
  induction fuel with
  | zero => intro acc s; rfl
  | succ k ih =>
    intro acc s
    have h1 := localFill_rpart s
    simp only [coalesce]
    generalize localFill s = r at h1 ⊢
    rcases r with ⟨a, s1⟩
    cases a with
    | pending b => exact h1
    | err c => exact h1
    | ready d =>
      simp only
      split
      · exact h1
      · rw [ih]; exact h1

theorem pollWrite_rpart (fx : Fix) (s : St) : (pollWrite fx s).2.rpart = s.rpart := by
  unfold pollWrite
  split
  · rfl
  · have h1 := localFill_rpart s
    generalize localFill s = r at h1 ⊢
    rcases r with ⟨a, s1⟩
    cases a with
    | pending b =>
      simp only
      have h2 := localFlush_rpart s1
      generalize localFlush s1 = r2 at h2 ⊢
      rcases r2 with ⟨fa, s2⟩
      cases fa with
      | ready v => cases v; exact h2.trans h1
      | pending w => exact h2.trans h1
      | err c => exact h2.trans h1
    | err c => exact h1
    | ready d =>
      simp only
      split
      · exact h1
      · have h2 := muxCredit_rpart s1
        generalize muxCredit s1 = r2 at h2 ⊢
        rcases r2 with ⟨g, s2⟩
        cases g with
        | pending => exact h2.trans h1
        | closed => exact h2.trans h1
        | granted =>
          simp only
          have h3 := coalesce_rpart (fuelW (localConsume s2 d.length)) d (localConsume s2 d.length)
          generalize coalesce (fuelW (localConsume s2 d.length)) d (localConsume s2 d.length) = r3 at h3 ⊢
          rcases r3 with ⟨payload, stop, s3⟩
          have h123 : s3.rpart = s.rpart := h3.trans (h2.trans h1)
          cases stop
          case diverged => exact h123
          all_goals
            simp only
            have h4 := muxSend_rpart s3 payload
            generalize muxSend s3 payload = r4 at h4 ⊢
            rcases r4 with ⟨m, s4⟩
            cases m <;> simp only <;> first
              | exact h4.trans h123
              | (split <;> exact h4.trans h123)

/-! ### 3. Invariants -/

/-- Read direction (mux → local). -/
structure InvR (s : St) : Prop where
  relay : s.toLocal ++ s.mbuf = s.muxGot
  count : s.rs.count = s.toLocal.length
  drained : (∀ n, s.rs ≠ .transferring n) → s.mbuf = []
  shut : s.lshutOk = if s.rs.isDone then 1 else 0

theorem muxFill_invR (s : St) (n : Nat) (inv : InvR s) (hrs : s.rs = .transferring n) :
    InvR (muxFill s).2 ∧ (muxFill s).2.rs = .transferring n ∧
    ∀ buf, (muxFill s).1 = some buf → (muxFill s).2.mbuf = buf := by
  obtain ⟨h1, h2, h3, h4⟩ := inv
  unfold muxFill
  split
  · exact ⟨⟨h1, h2, h3, h4⟩, hrs, by intro buf h; simpa using h⟩
  · rename_i he
    have he : s.mbuf = [] := by simpa using he
    rcases muxRecv s.mrecv with ⟨a, rest⟩
    cases a with
    | none => exact ⟨⟨h1, h2, h3, h4⟩, hrs, by simp⟩
    | some d =>
      refine ⟨⟨?_, h2, ?_, h4⟩, hrs, by simp⟩
      · simp only; rw [← h1, he]; simp
      · intro hn; exact absurd hrs (hn n)

theorem localWrite_eff (s : St) (buf : Bytes) :
    (localWrite s buf).2.rs = s.rs ∧ (localWrite s buf).2.mbuf = s.mbuf ∧
    (localWrite s buf).2.muxGot = s.muxGot ∧ (localWrite s buf).2.lshutOk = s.lshutOk ∧
    (∀ k, (localWrite s buf).1 = .ready k →
      k ≤ buf.length ∧ (localWrite s buf).2.toLocal = s.toLocal ++ buf.take k) ∧
    ((∀ k, (localWrite s buf).1 ≠ .ready k) → (localWrite s buf).2.toLocal = s.toLocal) := by
  unfold localWrite
  split
  · refine ⟨rfl, rfl, rfl, rfl, ?_, by simp⟩
    intro k h; simp only [Ans.ready.injEq] at h; subst h; simp
  · refine ⟨rfl, rfl, rfl, rfl, ?_, by simp⟩
    intro k h; simp only [Ans.ready.injEq] at h; subst h
    exact ⟨Nat.min_le_right _ _, rfl⟩
  · exact ⟨rfl, rfl, rfl, rfl, by simp, by simp⟩
  · exact ⟨rfl, rfl, rfl, rfl, by simp, by simp⟩

theorem shutdownLocal_invR (n : Nat) (s : St) (inv : InvR s) (hrs : s.rs = .shuttingDown n) :
    InvR (shutdownLocal n s).2 ∧
    (∀ m, (shutdownLocal n s).1 = .ready m → (shutdownLocal n s).2.rs = .done m) ∧
    ((∀ m, (shutdownLocal n s).1 ≠ .ready m) → (shutdownLocal n s).2.rs = .shuttingDown n) := by
  obtain ⟨h1, h2, h3, h4⟩ := inv
  have hm : s.mbuf = [] := h3 (by simp [hrs])
  simp only [hrs, ReadState.count, ReadState.isDone] at h2 h4
  unfold shutdownLocal localShutdown
  split <;> rename_i heq <;> split at heq <;> simp only [Prod.mk.injEq] at heq <;>
    obtain ⟨ha, hs⟩ := heq <;> subst hs <;> try (cases ha)
  all_goals first
    | exact ⟨⟨h1, by simpa [ReadState.count] using h2, fun _ => hm, by simp [ReadState.isDone, h4]⟩, by simp, by simp⟩
    | exact ⟨⟨h1, by simpa [hrs, ReadState.count] using h2, fun _ => hm, by simp [hrs, ReadState.isDone, h4]⟩, by simp, by simp [hrs]⟩

/-- What a sub-poll of the read direction guarantees about the state it leaves. -/
structure ReadPost (r : P) (s' : St) : Prop where
  inv : InvR s'
  ready : ∀ m, r = .ready m → s'.rs = .done m
  pend : r = .pending → s'.rs.isDone = false

theorem readLoop_invR (fx : Fix) : ∀ fuel n s, InvR s → s.rs = .transferring n →
    ReadPost (readLoop fx fuel n s).1 (readLoop fx fuel n s).2 := by
  intro fuel
  induction fuel with
  | zero =>
    intro n s inv hrs
    exact ⟨inv, by simp [readLoop], by simp [readLoop]⟩
  | succ k ih =>
    intro n s inv hrs
    obtain ⟨inv1, hrs1, hbuf⟩ := muxFill_invR s n inv hrs
    simp only [readLoop]
    generalize muxFill s = r at inv1 hrs1 hbuf ⊢
    rcases r with ⟨a, s1⟩
    simp only at inv1 hrs1 hbuf
    cases a with
    | none => exact ⟨inv1, by simp, by simp [hrs1, ReadState.isDone]⟩
    | some buf =>
      have hmb : s1.mbuf = buf := hbuf buf rfl
      obtain ⟨i1, i2, i3, i4⟩ := inv1
      simp only
      split
      · rename_i hb
        have invS : InvR { s1 with rs := .shuttingDown n } :=
          ⟨i1, by simpa [hrs1, ReadState.count] using i2, fun _ => by rw [hmb, hb],
           by simpa [hrs1, ReadState.isDone] using i4⟩
        obtain ⟨j1, j2, j3⟩ := shutdownLocal_invR n _ invS rfl
        refine ⟨j1, j2, ?_⟩
        intro hp
        rw [j3 (by intro m hm; rw [hp] at hm; cases hm)]; rfl
      · obtain ⟨e1, e2, e3, e4, e5, e6⟩ := localWrite_eff s1 buf
        generalize localWrite s1 buf = r2 at e1 e2 e3 e4 e5 e6 ⊢
        rcases r2 with ⟨b, s2⟩
        simp only at e1 e2 e3 e4 e5 e6
        have same : (∀ k, b ≠ .ready k) → InvR s2 := by
          intro hb
          exact ⟨by rw [e6 hb, e2, e3]; exact i1, by rw [e1, e6 hb]; exact i2,
            by rw [e1, e2]; exact i3, by rw [e1, e4]; exact i4⟩
        cases b with
        | pending w => exact ⟨same (by simp), by simp, by simp [e1, hrs1, ReadState.isDone]⟩
        | err c => exact ⟨same (by simp), by simp, by simp⟩
        | ready v =>
          obtain ⟨hle, htl⟩ := e5 v rfl
          simp only
          split
          · rename_i h0
            have hv : v = 0 := by
              have := h0; simp only [Bool.and_eq_true, beq_iff_eq] at this; exact this.2
            subst hv
            refine ⟨⟨?_, ?_, ?_, ?_⟩, by simp, by simp⟩
            · rw [htl, e2, e3]; simpa using i1
            · rw [e1, htl]; simpa using i2
            · rw [e1, e2]; exact i3
            · rw [e1, e4]; exact i4
          · apply ih
            · refine ⟨?_, ?_, ?_, ?_⟩
              · show s2.toLocal ++ s2.mbuf.drop v = s2.muxGot
                rw [htl, e2, e3, hmb, List.append_assoc, List.take_append_drop, ← hmb]; exact i1
              · show n + v = s2.toLocal.length
                rw [htl, List.length_append, List.length_take, Nat.min_eq_left hle]
                have : n = s1.toLocal.length := by simpa [hrs1, ReadState.count] using i2
                omega
              · intro hn; exact absurd rfl (hn (n + v))
              · show s2.lshutOk = _
                rw [e4]; simpa [hrs1, ReadState.isDone] using i4
            · rfl

theorem pollRead_invR (fx : Fix) (s : St) (inv : InvR s) :
    ReadPost (pollRead fx s).1 (pollRead fx s).2 := by
  unfold pollRead
  split
  · rename_i n h; exact readLoop_invR fx _ n s inv h
  · rename_i n h
    obtain ⟨j1, j2, j3⟩ := shutdownLocal_invR n s inv h
    refine ⟨j1, j2, ?_⟩
    intro hp
    rw [j3 (by intro m hm; rw [hp] at hm; cases hm)]; rfl
  · rename_i n h; exact ⟨inv, by intro m hm; cases hm; exact h, by simp⟩

/-- The write direction's fields the invariant speaks about. -/
structure WCore where
  ws : WriteState
  lbuf : Bytes
  localGot : Bytes
  fromLocal : Bytes
  frames : List Bytes
  lost : Bytes
  credits : Nat
  failedSends : Nat
  finishes : Nat

def St.wcore (s : St) : WCore :=
  ⟨s.ws, s.lbuf, s.localGot, s.fromLocal, s.frames, s.lost, s.credits, s.failedSends, s.finishes⟩

/-- `poll_fill_buf` of the local side hands out `lbuf ++ d` where `d` is what it newly got. -/
theorem localFill_wcore (s : St) :
    ∃ d, (localFill s).2.wcore =
        { s.wcore with lbuf := s.wcore.lbuf ++ d, localGot := s.wcore.localGot ++ d } ∧
      (∀ x, (localFill s).1 = .ready x → x = s.wcore.lbuf ++ d) ∧
      ((∀ x, (localFill s).1 ≠ .ready x) → d = []) := by
  unfold localFill
  split
  · exact ⟨[], by simp [St.wcore], by simp [St.wcore], by simp⟩
  · rename_i he
    have he : s.lbuf = [] := by simpa using he
    split
    · exact ⟨[], by simp [St.wcore], by simp [St.wcore, he], by simp⟩
    · rename_i d rest _
      exact ⟨d, by simp [St.wcore, he], by simp [St.wcore, he], by simp⟩
    · exact ⟨[], by simp [St.wcore], by simp, by simp⟩
    · exact ⟨[], by simp [St.wcore], by simp, by simp⟩

theorem localConsume_wcore (s : St) (n : Nat) :
    (localConsume s n).wcore =
      { s.wcore with lbuf := s.wcore.lbuf.drop n, fromLocal := s.wcore.fromLocal ++ s.wcore.lbuf.take n } := rfl

theorem localFlush_wcore (s : St) : (localFlush s).2.wcore = s.wcore := by
  unfold localFlush; split <;> rfl

theorem muxCredit_wcore (s : St) :
    (muxCredit s).2.wcore =
      { s.wcore with credits := s.wcore.credits + (if (muxCredit s).1 = .granted then 1 else 0) } := by
  rcases h : s.mcredit with _ | ⟨a, rest⟩
  · simp [muxCredit, h, St.wcore]
  · cases a <;> simp [muxCredit, h, St.wcore]

theorem muxSend_wcore (s : St) (p : Bytes) :
    (muxSend s p).2.wcore =
      (if (muxSend s p).1 = .ok then { s.wcore with frames := s.wcore.frames ++ [p] }
       else { s.wcore with lost := s.wcore.lost ++ p, failedSends := s.wcore.failedSends + 1 }) := by
  unfold muxSend; split <;> rfl

theorem finishMux_wcore (s : St) (n : Nat) :
    (finishMux s n).wcore = { s.wcore with ws := .done n, finishes := s.wcore.finishes + 1 } := rfl

theorem setWs_wcore (s : St) (w : WriteState) : ({ s with ws := w } : St).wcore = { s.wcore with ws := w } := rfl

/-- The coalescing loop, started with nothing unconsumed, consumes `extra` and appends it to the payload. -/
theorem coalesce_wcore : ∀ fuel acc s, s.wcore.lbuf = [] →
    ∃ extra, (coalesce fuel acc s).1 = acc ++ extra ∧
      (coalesce fuel acc s).2.2.wcore =
        { s.wcore with localGot := s.wcore.localGot ++ extra, fromLocal := s.wcore.fromLocal ++ extra } := by
  intro fuel
  induction fuel with
  | zero => intro acc s hl; exact ⟨[], by simp [coalesce], by simp [coalesce]⟩
  | succ k ih =>
    intro acc s hl
    obtain ⟨d, hw, hr, hn⟩ := localFill_wcore s
    simp only [coalesce]
    generalize localFill s = r at hw hr hn ⊢
    rcases r with ⟨a, s1⟩
    simp only at hw hr hn
    generalize s.wcore = c0 at hw hr hn hl ⊢
    cases a with
    | pending b =>
      have := hn (by simp); subst this
      exact ⟨[], by simp, by simp [hw, hl]⟩
    | err c =>
      have := hn (by simp); subst this
      exact ⟨[], by simp, by simp [hw, hl]⟩
    | ready x =>
      have hx : x = d := by simpa [hl] using hr x rfl
      subst hx
      simp only
      split
      · rename_i hx; subst hx
        exact ⟨[], by simp, by simp [hw, hl]⟩
      · obtain ⟨extra, h1, h2⟩ := ih (acc ++ x) (localConsume s1 x.length)
          (by rw [localConsume_wcore, hw]; simp [hl])
        refine ⟨x ++ extra, by rw [h1, List.append_assoc], ?_⟩
        rw [h2, localConsume_wcore, hw]
        simp [hl, List.append_assoc]

/-- Write direction (local → mux), between polls none of which failed. -/
structure InvWc (c : WCore) : Prop where
  buf : c.fromLocal ++ c.lbuf = c.localGot
  relay : c.frames.flatten = c.fromLocal
  count : c.ws.count = c.fromLocal.length
  credit : c.credits = c.frames.length
  fin : c.finishes = if c.ws.isDone then 1 else 0
  drained : c.ws.isDone = true → c.lbuf = []
  nonempty : ∀ f ∈ c.frames, f ≠ []
  lost : c.lost = []
  failed : c.failedSends = 0

/-- Write direction after any poll, failed or not. -/
structure WeakWc (c : WCore) : Prop where
  buf : c.fromLocal ++ c.lbuf = c.localGot
  relay : c.frames.flatten ++ c.lost = c.fromLocal
  credit : c.credits = c.frames.length + c.failedSends
  failed : c.failedSends ≤ 1
  nonempty : ∀ f ∈ c.frames, f ≠ []
  fin : c.finishes ≤ 1

theorem InvWc.weak {c : WCore} (h : InvWc c) : WeakWc c :=
  ⟨h.buf, by rw [h.lost, h.relay]; simp, by rw [h.failed, h.credit]; rfl, by rw [h.failed]; omega, h.nonempty,
   by rw [h.fin]; split <;> omega⟩

def P.isOk : P → Bool
  | .ready _ | .pending => true
  | _ => false

structure WritePost (r : P) (s' : St) : Prop where
  weak : r ≠ .diverged → WeakWc s'.wcore
  inv : r.isOk = true → InvWc s'.wcore
  ready : ∀ m, r = .ready m → s'.ws = .done m
  pend : r = .pending → s'.ws.isDone = false

theorem WritePost.ofInv {r : P} {s' : St} (h : InvWc s'.wcore)
    (hr : ∀ m, r = .ready m → s'.ws = .done m) (hp : r = .pending → s'.ws.isDone = false) :
    WritePost r s' := ⟨fun _ => h.weak, fun _ => h, hr, hp⟩

theorem ws_of_wcore {s : St} {c : WCore} (h : s.wcore = c) : s.ws = c.ws := by rw [← h]; rfl

theorem pollWrite_invW (fx : Fix) (s : St) (inv : InvWc s.wcore) :
    WritePost (pollWrite fx s).1 (pollWrite fx s).2 := by
  unfold pollWrite
  split
  · rename_i n h
    exact .ofInv inv (by intro m hm; cases hm; exact h) (by simp)
  · rename_i n h
    have hws : s.wcore.ws = .transferring n := h
    obtain ⟨d, hw, hr, hn⟩ := localFill_wcore s
    generalize localFill s = r at hw hr hn ⊢
    rcases r with ⟨a, s1⟩
    simp only at hw hr hn
    generalize s.wcore = c0 at hw hr hn hws inv
    obtain ⟨i1, i2, i3, i4, i5, i6, i7, i8, i9⟩ := inv
    simp only [hws, WriteState.count, WriteState.isDone] at i3 i5
    cases a with
    | pending b =>
      have := hn (by simp); subst this
      have hw' : s1.wcore = c0 := by rw [hw]; simp
      simp only
      have hfl := localFlush_wcore s1
      generalize localFlush s1 = r2 at hfl ⊢
      rcases r2 with ⟨fa, s2⟩
      simp only at hfl
      have h2 : s2.wcore = c0 := hfl.trans hw'
      have hws2 : s2.ws = .transferring n := (ws_of_wcore h2).trans hws
      have inv2 : InvWc s2.wcore := by
        rw [h2]; exact ⟨i1, i2, by simpa [hws, WriteState.count] using i3, i4, by simpa [hws, WriteState.isDone] using i5, i6, i7, i8, i9⟩
      cases fa with
      | ready v => cases v; exact .ofInv inv2 (by simp) (by simp [hws2, WriteState.isDone])
      | pending w => exact .ofInv inv2 (by simp) (by simp [hws2, WriteState.isDone])
      | err c => exact .ofInv inv2 (by simp) (by simp)
    | err c =>
      have := hn (by simp); subst this
      have hw' : s1.wcore = c0 := by rw [hw]; simp
      have inv1 : InvWc s1.wcore := by
        rw [hw']; exact ⟨i1, i2, by simpa [hws, WriteState.count] using i3, i4, by simpa [hws, WriteState.isDone] using i5, i6, i7, i8, i9⟩
      exact .ofInv inv1 (by simp) (by simp)
    | ready x =>
      have hx : x = c0.lbuf ++ d := hr x rfl
      simp only
      split
      · -- end of file on the local side
        rename_i hx0
        have hnil : c0.lbuf ++ d = [] := by rw [← hx, hx0]
        have hl0 : c0.lbuf = [] := (List.append_eq_nil_iff.mp hnil).1
        have hd0 : d = [] := (List.append_eq_nil_iff.mp hnil).2
        subst hd0
        have hf : (finishMux s1 n).wcore = { c0 with ws := .done n, finishes := c0.finishes + 1 } := by
          rw [finishMux_wcore, hw]; simp
        refine .ofInv ?_ (by intro m hm; cases hm; rfl) (by simp)
        rw [hf]
        exact ⟨i1, i2, by simpa [WriteState.count] using i3, i4, by simp [WriteState.isDone, i5], fun _ => hl0, i7, i8, i9⟩
      · rename_i hx0
        have hmc := muxCredit_wcore s1
        generalize muxCredit s1 = r2 at hmc ⊢
        rcases r2 with ⟨g, s2⟩
        simp only at hmc
        rw [hw] at hmc
        have inv1 : ∀ (s' : St), s'.wcore = { c0 with lbuf := c0.lbuf ++ d, localGot := c0.localGot ++ d } →
            InvWc s'.wcore ∧ s'.ws = .transferring n := by
          intro s' hs'
          refine ⟨?_, (ws_of_wcore hs').trans hws⟩
          rw [hs']
          exact ⟨by simp [← i1, List.append_assoc], i2, by simpa [hws, WriteState.count] using i3, i4,
            by simpa [hws, WriteState.isDone] using i5, by simp [hws, WriteState.isDone], i7, i8, i9⟩
        cases g with
        | pending =>
          obtain ⟨j, jw⟩ := inv1 s2 (by rw [hmc]; simp)
          exact .ofInv j (by simp) (by simp [jw, WriteState.isDone])
        | closed =>
          obtain ⟨j, _⟩ := inv1 s2 (by rw [hmc]; simp)
          exact .ofInv j (by simp) (by simp)
        | granted =>
          simp only [if_true] at hmc
          simp only
          have hc3 : (localConsume s2 x.length).wcore =
              { c0 with lbuf := [], localGot := c0.localGot ++ d, fromLocal := c0.fromLocal ++ x,
                        credits := c0.credits + 1 } := by
            rw [localConsume_wcore, hmc, hx]; simp only [List.take_length, List.drop_length]
          obtain ⟨extra, hpay, hco⟩ := coalesce_wcore (fuelW (localConsume s2 x.length)) x (localConsume s2 x.length)
            (by rw [hc3])
          rw [hc3] at hco
          generalize coalesce (fuelW (localConsume s2 x.length)) x (localConsume s2 x.length) = r3 at hpay hco ⊢
          rcases r3 with ⟨payload, stop, s3⟩
          simp only at hpay hco
          have hne : payload ≠ [] := by
            rw [hpay]; intro h0; exact hx0 (List.append_eq_nil_iff.mp h0).1
          have hbuf : (c0.fromLocal ++ x ++ extra) ++ [] = c0.localGot ++ d ++ extra := by
            rw [hx, ← i1]; simp [List.append_assoc]
          -- the state after a successful send, whatever the write state becomes
          have key : ∀ (w : WriteState) (fin : Nat), w.count = n + payload.length →
              fin = (if w.isDone then 1 else 0) →
              InvWc ⟨w, [], c0.localGot ++ d ++ extra, c0.fromLocal ++ x ++ extra, c0.frames ++ [payload],
                     c0.lost, c0.credits + 1, c0.failedSends, fin⟩ := by
            intro w fin hwc hfin
            refine ⟨hbuf, ?_, ?_, ?_, hfin, fun _ => rfl, ?_, i8, i9⟩
            · simp [i2, hpay, List.append_assoc]
            · simp [hwc, i3, hpay] <;> omega
            · simp [i4]
            · intro f hf
              rcases List.mem_append.mp hf with h' | h'
              · exact i7 f h'
              · rw [List.mem_singleton.mp h']; exact hne
          cases stop
          case diverged => exact ⟨by simp, by simp [P.isOk], by simp, by simp⟩
          all_goals
            simp only
            have hms := muxSend_wcore s3 payload
            generalize muxSend s3 payload = r4 at hms ⊢
            rcases r4 with ⟨m, s4⟩
            simp only at hms
            rw [hco] at hms
            cases m
            case closed =>
              simp only [reduceCtorEq, if_false] at hms
              refine ⟨fun _ => ?_, by simp [P.isOk], by simp, by simp⟩
              rw [hms]
              exact ⟨hbuf, by simp [i2, i8, hpay, List.append_assoc], by simp [i4, i9], by simp [i9], i7,
                by simp [i5]⟩
            case ok =>
              simp only [if_true] at hms
              try simp only
              first
                | -- end of file after the frame: `do_shutdown`
                  refine .ofInv ?_ (by intro m hm; cases hm; rfl) (by simp)
                  rw [finishMux_wcore, hms]
                  exact key (.done (n + payload.length)) _ rfl (by simp [WriteState.isDone, i5])
                | -- `Pending` (or the pinned code's dropped error)
                  refine .ofInv ?_ (by simp) (by simp [WriteState.isDone])
                  rw [setWs_wcore, hms]
                  exact key (.transferring (n + payload.length)) _ rfl (by simp [WriteState.isDone, i5])
                | -- the coalescing loop saw an error
                  split
                  · refine .ofInv ?_ (by simp) (by simp)
                    rw [setWs_wcore, hms]
                    exact key (.transferring (n + payload.length)) _ rfl (by simp [WriteState.isDone, i5])
                  · refine .ofInv ?_ (by simp) (by simp [WriteState.isDone])
                    rw [setWs_wcore, hms]
                    exact key (.transferring (n + payload.length)) _ rfl (by simp [WriteState.isDone, i5])

/-! ### 2. Termination: the loops' fuel is never exhausted -/

theorem muxRecv_length (l : List MRecv) :
    (muxRecv l).2.length ≤ l.length ∧ (∀ d, (muxRecv l).1 = some d → (muxRecv l).2.length < l.length) := by
  induction l with
  | nil => simp [muxRecv]
  | cons a rest ih =>
    cases a with
    | pending => simp [muxRecv]
    | eof => simp [muxRecv]
    | frame d =>
      simp only [muxRecv]
      split
      · exact ⟨by simp only [List.length_cons]; omega, fun d' h => by have := ih.2 d' h; simp only [List.length_cons]; omega⟩
      · simp

/-- Measure of the read loop. -/
def rmeasure (s : St) : Nat :=
  2 * (s.lwrite.length + s.mrecv.length) + (if s.mbuf = [] then 0 else 1)

theorem muxFill_measure (s : St) :
    (muxFill s).2.lwrite = s.lwrite ∧
    ∀ buf, (muxFill s).1 = some buf → buf ≠ [] →
      (muxFill s).2.mbuf = buf ∧
      2 * (muxFill s).2.mrecv.length + 1 ≤ 2 * s.mrecv.length + (if s.mbuf = [] then 0 else 1) := by
  unfold muxFill
  split
  · rename_i h
    refine ⟨rfl, ?_⟩
    intro buf hb _
    simp only [Option.some.injEq] at hb
    subst hb
    exact ⟨rfl, by simp⟩
  · rename_i h
    have h : s.mbuf = [] := by simpa using h
    have hl := muxRecv_length s.mrecv
    generalize muxRecv s.mrecv = r at hl ⊢
    rcases r with ⟨a, rest⟩
    cases a with
    | none => exact ⟨rfl, by simp⟩
    | some d =>
      refine ⟨rfl, ?_⟩
      intro buf hb _
      simp only [Option.some.injEq] at hb
      subst hb
      have := hl.2 d rfl
      simp only at this
      exact ⟨rfl, by simp only [h, if_true]; omega⟩

theorem localWrite_measure (s : St) (buf : Bytes) :
    (localWrite s buf).2.mrecv = s.mrecv ∧ (localWrite s buf).2.mbuf = s.mbuf ∧
    ∀ v, (localWrite s buf).1 = .ready v →
      (localWrite s buf).2.lwrite.length + 1 = s.lwrite.length ∨
      (s.lwrite = [] ∧ (localWrite s buf).2.lwrite = [] ∧ v = buf.length) := by
  unfold localWrite
  split
  · rename_i h; exact ⟨rfl, rfl, fun v hv => .inr ⟨h, h, by simpa using hv.symm⟩⟩
  · rename_i h; exact ⟨rfl, rfl, fun v _ => .inl (by simp [h])⟩
  · exact ⟨rfl, rfl, by simp⟩
  · exact ⟨rfl, rfl, by simp⟩

theorem shutdownLocal_ne_diverged (n : Nat) (s : St) : (shutdownLocal n s).1 ≠ .diverged := by
  unfold shutdownLocal
  rcases localShutdown s with ⟨a, s1⟩
  cases a with
  | ready v => cases v; simp
  | pending b => simp
  | err c => simp

theorem readLoop_terminates (fx : Fix) :
    ∀ fuel n s, rmeasure s < fuel → (readLoop fx fuel n s).1 ≠ .diverged := by
  intro fuel
  induction fuel with
  | zero => intro n s h; omega
  | succ k ih =>
    intro n s hm
    obtain ⟨m1, m2⟩ := muxFill_measure s
    simp only [readLoop]
    generalize muxFill s = r at m1 m2 ⊢
    rcases r with ⟨a, s1⟩
    simp only at m1 m2
    cases a with
    | none => simp
    | some buf =>
      simp only
      split
      · exact shutdownLocal_ne_diverged _ _
      · rename_i hb
        obtain ⟨hmb, hlen⟩ := m2 buf rfl hb
        obtain ⟨w1, w2, w3⟩ := localWrite_measure s1 buf
        generalize localWrite s1 buf = r2 at w1 w2 w3 ⊢
        rcases r2 with ⟨b, s2⟩
        simp only at w1 w2 w3
        cases b with
        | pending w => simp
        | err c => simp
        | ready v =>
          simp only
          split
          · simp
          · apply ih
            show rmeasure { muxConsume s2 v with rs := .transferring (n + v) } < k
            have hk : rmeasure s ≤ k := by omega
            unfold rmeasure at hk
            show 2 * (s2.lwrite.length + s2.mrecv.length) + (if s2.mbuf.drop v = [] then 0 else 1) < k
            rw [w1, w2, hmb]
            rcases w3 v rfl with h | ⟨h1, h2, h3⟩
            · rw [m1] at h
              have : (if buf.drop v = [] then 0 else 1) ≤ 1 := by split <;> omega
              omega
            · rw [m1] at h1
              rw [h2, h3]
              simp only [List.drop_length, if_true, List.length_nil]
              rw [h1] at hk
              simp only [List.length_nil] at hk
              omega

theorem pollRead_terminates (fx : Fix) (s : St) : (pollRead fx s).1 ≠ .diverged := by
  unfold pollRead
  split
  · apply readLoop_terminates
    unfold rmeasure fuelR
    split <;> omega
  · exact shutdownLocal_ne_diverged _ _
  · simp

theorem localFill_lfill (s : St) (hl : s.lbuf = []) :
    ∀ x, (localFill s).1 = .ready x → x ≠ [] →
      (localFill s).2.lbuf = x ∧ (localFill s).2.lfill.length + 1 = s.lfill.length := by
  unfold localFill
  simp only [hl, ne_eq, not_true_eq_false, if_false]
  split
  · intro x hx hne; simp only [Ans.ready.injEq] at hx; exact absurd hx.symm hne
  · rename_i d rest h
    intro x hx _; simp only [Ans.ready.injEq] at hx; subst hx
    exact ⟨rfl, by simp [h]⟩
  · simp
  · simp

theorem coalesce_terminates : ∀ fuel acc s, s.lbuf = [] → s.lfill.length < fuel →
    (coalesce fuel acc s).2.1 ≠ .diverged := by
  intro fuel
  induction fuel with
  | zero => intro acc s _ h; omega
  | succ k ih =>
    intro acc s hl hf
    have h1 := localFill_lfill s hl
    simp only [coalesce]
    generalize localFill s = r at h1 ⊢
    rcases r with ⟨a, s1⟩
    simp only at h1
    cases a with
    | pending b => simp
    | err c => simp
    | ready x =>
      simp only
      split
      · simp
      · rename_i hx
        obtain ⟨e1, e2⟩ := h1 x rfl hx
        apply ih
        · simp [localConsume, e1]
        · show s1.lfill.length < k
          omega

theorem localFill_lbuf (s : St) :
    ∀ x, (localFill s).1 = .ready x → (localFill s).2.lbuf = x := by
  unfold localFill
  split
  · intro x hx; simp only [Ans.ready.injEq] at hx; exact hx
  · rename_i h
    have h : s.lbuf = [] := by simpa using h
    split
    · intro x hx; simp only [Ans.ready.injEq] at hx; subst hx; exact h
    · intro x hx; simp only [Ans.ready.injEq] at hx; subst hx; rfl
    · simp
    · simp

theorem muxCredit_lbuf (s : St) : (muxCredit s).2.lbuf = s.lbuf := by
  unfold muxCredit; split <;> rfl

theorem pollWrite_terminates (fx : Fix) (s : St) : (pollWrite fx s).1 ≠ .diverged := by
  unfold pollWrite
  split
  · simp
  · have h1 := localFill_lbuf s
    generalize localFill s = r at h1 ⊢
    rcases r with ⟨a, s1⟩
    simp only at h1
    cases a with
    | pending b =>
      simp only
      rcases localFlush s1 with ⟨fa, s2⟩
      cases fa with
      | ready v => cases v; simp
      | pending w => simp
      | err c => simp
    | err c => simp
    | ready x =>
      simp only
      split
      · simp
      · have h2 := muxCredit_lbuf s1
        generalize muxCredit s1 = r2 at h2 ⊢
        rcases r2 with ⟨g, s2⟩
        simp only at h2
        cases g with
        | pending => simp
        | closed => simp
        | granted =>
          simp only
          have hl : (localConsume s2 x.length).lbuf = [] := by
            simp [localConsume, h2, h1 x rfl]
          have ht := coalesce_terminates (fuelW (localConsume s2 x.length)) x (localConsume s2 x.length) hl
            (by unfold fuelW; omega)
          generalize coalesce (fuelW (localConsume s2 x.length)) x (localConsume s2 x.length) = r3 at ht ⊢
          rcases r3 with ⟨payload, stop, s3⟩
          simp only at ht
          cases stop
          case diverged => exact absurd rfl ht
          all_goals
            simp only
            rcases muxSend s3 payload with ⟨m, s4⟩
            cases m <;> simp only <;> first | (simp; done) | (split <;> simp)

theorem poll_terminates (fx : Fix) (s : St) : (poll fx s).1 ≠ .diverged := by
  have hr := pollRead_terminates fx { s with calls := [] }
  unfold poll
  generalize pollRead fx { s with calls := [] } = r at hr ⊢
  rcases r with ⟨a, s1⟩
  simp only at hr
  have hw := pollWrite_terminates fx s1
  cases a with
  | err e => simp
  | diverged => exact absurd rfl hr
  | ready n =>
    simp only
    generalize pollWrite fx s1 = r2 at hw ⊢
    rcases r2 with ⟨b, s2⟩
    simp only at hw
    cases b <;> simp_all
  | pending =>
    simp only
    generalize pollWrite fx s1 = r2 at hw ⊢
    rcases r2 with ⟨b, s2⟩
    simp only at hw
    cases b <;> simp_all

/-! ### Control flow: `Ready` means the direction is `Done` -/

theorem shutdownLocal_ready (n : Nat) (s : St) :
    ∀ m, (shutdownLocal n s).1 = .ready m → (shutdownLocal n s).2.rs.isDone = true := by
  unfold shutdownLocal
  rcases localShutdown s with ⟨a, s1⟩
  cases a with
  | ready v => cases v; simp [ReadState.isDone]
  | pending b => simp
  | err c => simp

theorem readLoop_ready (fx : Fix) : ∀ fuel n s m,
    (readLoop fx fuel n s).1 = .ready m → (readLoop fx fuel n s).2.rs.isDone = true := by
  intro fuel
  induction fuel with
  | zero => intro n s m; simp [readLoop]
  | succ k ih =>
    intro n s m
    simp only [readLoop]
    rcases muxFill s with ⟨a, s1⟩
    cases a with
    | none => simp
    | some buf =>
      simp only
      split
      · exact shutdownLocal_ready _ _ m
      · rcases localWrite s1 buf with ⟨b, s2⟩
        cases b with
        | pending w => simp
        | err c => simp
        | ready v =>
          simp only
          split
          · simp
          · exact ih _ _ m

theorem pollRead_ready (fx : Fix) (s : St) (m : Nat) :
    (pollRead fx s).1 = .ready m → (pollRead fx s).2.rs.isDone = true := by
  unfold pollRead
  split
  · exact readLoop_ready fx _ _ _ m
  · exact shutdownLocal_ready _ _ m
  · rename_i n h; intro _; simp [h, ReadState.isDone]

theorem pollWrite_ready (fx : Fix) (s : St) (m : Nat) :
    (pollWrite fx s).1 = .ready m → (pollWrite fx s).2.ws.isDone = true := by
  unfold pollWrite
  split
  · rename_i n h; intro _; simp [h, WriteState.isDone]
  · rcases localFill s with ⟨a, s1⟩
    cases a with
    | pending b =>
      simp only
      rcases localFlush s1 with ⟨fa, s2⟩
      cases fa with
      | ready v => cases v; simp
      | pending w => simp
      | err c => simp
    | err c => simp
    | ready x =>
      simp only
      split
      · simp [finishMux, WriteState.isDone]
      · rcases muxCredit s1 with ⟨g, s2⟩
        cases g with
        | pending => simp
        | closed => simp
        | granted =>
          simp only
          rcases coalesce (fuelW (localConsume s2 x.length)) x (localConsume s2 x.length) with ⟨payload, stop, s3⟩
          cases stop
          case diverged => simp
          all_goals
            simp only
            rcases muxSend s3 payload with ⟨mm, s4⟩
            cases mm <;> simp only <;> first
              | (simp [finishMux, WriteState.isDone]; done)
              | (split <;> simp)

theorem rs_of_rpart {s s' : St} (h : s'.rpart = s.rpart) : s'.rs = s.rs := by
  have := congrArg RPart.rs h; exact this

theorem ws_of_wpart {s s' : St} (h : s'.wpart = s.wpart) : s'.ws = s.ws := by
  have := congrArg WPart.ws h; exact this

theorem wcore_of_wpart {s s' : St} (h : s'.wpart = s.wpart) : s'.wcore = s.wcore := by
  simp only [St.wpart, WPart.mk.injEq] at h
  obtain ⟨h1, _, _, h4, _, _, h7, h8, h9, h10, h11, h12, h13⟩ := h
  simp [St.wcore, h1, h4, h7, h8, h9, h10, h11, h12, h13]

theorem invR_of_rpart {s s' : St} (h : s'.rpart = s.rpart) (inv : InvR s) : InvR s' := by
  simp only [St.rpart, RPart.mk.injEq] at h
  obtain ⟨h1, _, _, _, h5, h6, h7, h8⟩ := h
  exact ⟨by rw [h7, h5, h6]; exact inv.relay, by rw [h1, h7]; exact inv.count,
    by rw [h1, h5]; exact inv.drained, by rw [h1, h8]; exact inv.shut⟩

/-! ### One whole poll -/

/-- What the calls of one poll of the repaired code say about its result. -/
theorem poll_calls (s : St) :
    (∀ e ∈ errors (poll fixed s).2.calls, ∃ e', (poll fixed s).1 = .err e' ∧ e' ∈ errors (poll fixed s).2.calls) ∧
    (∀ e, (poll fixed s).1 = .err e → e ∈ errors (poll fixed s).2.calls) ∧
    ((poll fixed s).1 = .pending →
      ((poll fixed s).2.rs.isDone = false →
        ∃ c ∈ (poll fixed s).2.calls, c.dir = .read ∧ c.pendingSite.isSome = true) ∧
      ((poll fixed s).2.ws.isDone = false →
        ∃ c ∈ (poll fixed s).2.calls, c.dir = .write ∧ c.pendingSite.isSome = true)) := by
  obtain ⟨csR, hcR, okR⟩ := pollRead_appends fixed rfl { s with calls := [] }
  have hrd := pollRead_ready fixed { s with calls := [] }
  unfold poll
  generalize pollRead fixed { s with calls := [] } = r at hcR okR hrd ⊢
  rcases r with ⟨a, s1⟩
  simp only [List.nil_append] at hcR okR hrd
  obtain ⟨csW, hcW, okW⟩ := pollWrite_appends fixed rfl s1
  have hwd := pollWrite_ready fixed s1
  have hrp := rs_of_rpart (pollWrite_rpart fixed s1)
  have hread : (∀ e, a ≠ .err e) → ∀ (b : P) (s2 : St), s2.calls = s1.calls ++ csW → CallsOk .write csW b →
      (∀ e, b ≠ .err e) → errors s2.calls = [] := by
    intro ha b s2 h2 ok hb
    rw [h2, hcR, errors_append, okR.noErr ha, ok.noErr hb]; rfl
  cases a with
  | err e =>
    simp only
    refine ⟨fun e' he' => ⟨e, rfl, ?_⟩, fun e' he' => ?_, by simp⟩
    · rw [hcR]; exact okR.err e rfl
    · cases he'; rw [hcR]; exact okR.err _ rfl
  | diverged =>
    simp only
    refine ⟨fun e' he' => ?_, by simp, by simp⟩
    rw [hcR, okR.noErr (by simp)] at he'; cases he'
  | ready n =>
    simp only
    generalize pollWrite fixed s1 = r2 at hcW okW hwd hrp ⊢
    rcases r2 with ⟨b, s2⟩
    simp only at hcW okW hwd hrp
    have herr : ∀ e, b = .err e → e ∈ errors s2.calls := by
      intro e he; rw [hcW, errors_append]; exact List.mem_append.mpr (.inr (okW.err e he))
    have hnone := hread (by simp) b s2 hcW okW
    cases b with
    | err e => exact ⟨fun _ _ => ⟨e, rfl, herr e rfl⟩, (fun e' he' => by cases he'; exact herr _ rfl), by simp⟩
    | diverged => exact ⟨(fun e' he' => by rw [hnone (by simp)] at he'; cases he'), by simp, by simp⟩
    | ready m => exact ⟨(fun e' he' => by rw [hnone (by simp)] at he'; cases he'), by simp, by simp⟩
    | pending =>
      refine ⟨(fun e' he' => by rw [hnone (by simp)] at he'; cases he'), by simp, fun _ => ⟨?_, ?_⟩⟩
      · intro hnd; rw [hrp, hrd n rfl] at hnd; cases hnd
      · intro _
        obtain ⟨c, hc, hp⟩ := okW.pend rfl
        exact ⟨c, by rw [hcW]; exact List.mem_append.mpr (.inr hc), okW.dir c hc, hp⟩
  | pending =>
    simp only
    generalize pollWrite fixed s1 = r2 at hcW okW hwd hrp ⊢
    rcases r2 with ⟨b, s2⟩
    simp only at hcW okW hwd hrp
    have herr : ∀ e, b = .err e → e ∈ errors s2.calls := by
      intro e he; rw [hcW, errors_append]; exact List.mem_append.mpr (.inr (okW.err e he))
    have hnone := hread (by simp) b s2 hcW okW
    have hreadw : ∃ c ∈ s2.calls, c.dir = .read ∧ c.pendingSite.isSome = true := by
      obtain ⟨c, hc, hp⟩ := okR.pend rfl
      exact ⟨c, by rw [hcW, hcR]; exact List.mem_append.mpr (.inl hc), okR.dir c hc, hp⟩
    cases b with
    | err e => exact ⟨fun _ _ => ⟨e, rfl, herr e rfl⟩, (fun e' he' => by cases he'; exact herr _ rfl), by simp⟩
    | diverged => exact ⟨(fun e' he' => by rw [hnone (by simp)] at he'; cases he'), by simp, by simp⟩
    | ready m =>
      refine ⟨(fun e' he' => by rw [hnone (by simp)] at he'; cases he'), by simp, fun _ => ⟨fun _ => hreadw, ?_⟩⟩
      intro hnd; rw [hwd m rfl] at hnd; cases hnd
    | pending =>
      refine ⟨(fun e' he' => by rw [hnone (by simp)] at he'; cases he'), by simp, fun _ => ⟨fun _ => hreadw, ?_⟩⟩
      intro _
      obtain ⟨c, hc, hp⟩ := okW.pend rfl
      exact ⟨c, by rw [hcW]; exact List.mem_append.mpr (.inr hc), okW.dir c hc, hp⟩

/-- The invariant between polls none of which failed. -/
structure Inv (s : St) : Prop where
  r : InvR s
  w : InvWc s.wcore

theorem poll_post (fx : Fix) (s : St) (inv : Inv s) :
    InvR (poll fx s).2 ∧ WeakWc (poll fx s).2.wcore ∧
    ((∀ e, (poll fx s).1 ≠ .err e) → Inv (poll fx s).2) ∧
    (∀ r w, (poll fx s).1 = .ok r w → (poll fx s).2.rs = .done r ∧ (poll fx s).2.ws = .done w) ∧
    ((poll fx s).1 = .pending → ((poll fx s).2.rs.isDone && (poll fx s).2.ws.isDone) = false) := by
  have inv0 : InvR { s with calls := [] } := invR_of_rpart (s := s) rfl inv.r
  have rp := pollRead_invR fx _ inv0
  have hwp := wcore_of_wpart (pollRead_wpart fx { s with calls := [] })
  unfold poll
  generalize pollRead fx { s with calls := [] } = r at rp hwp ⊢
  rcases r with ⟨a, s1⟩
  simp only at rp hwp
  have hw1 : s1.wcore = s.wcore := hwp
  have invw1 : InvWc s1.wcore := hw1 ▸ inv.w
  have wp := pollWrite_invW fx s1 invw1
  have hrp := pollWrite_rpart fx s1
  have hterm := pollWrite_terminates fx s1
  cases a with
  | err e => exact ⟨rp.inv, invw1.weak, by simp, by simp, by simp⟩
  | diverged => exact ⟨rp.inv, invw1.weak, fun _ => ⟨rp.inv, invw1⟩, by simp, by simp⟩
  | ready n =>
    simp only
    generalize pollWrite fx s1 = r2 at wp hrp hterm ⊢
    rcases r2 with ⟨b, s2⟩
    simp only at wp hrp hterm
    have invr2 : InvR s2 := invR_of_rpart hrp rp.inv
    have hrs2 : s2.rs = .done n := (rs_of_rpart hrp).trans (rp.ready n rfl)
    cases b with
    | err e => exact ⟨invr2, wp.weak (by simp), by simp, by simp, by simp⟩
    | diverged => exact absurd rfl hterm
    | ready m =>
      refine ⟨invr2, wp.weak (by simp), fun _ => ⟨invr2, wp.inv rfl⟩, ?_, by simp⟩
      intro r w h; cases h; exact ⟨hrs2, wp.ready m rfl⟩
    | pending =>
      refine ⟨invr2, wp.weak (by simp), fun _ => ⟨invr2, wp.inv rfl⟩, by simp, ?_⟩
      intro _; rw [wp.pend rfl]; simp
  | pending =>
    simp only
    generalize pollWrite fx s1 = r2 at wp hrp hterm ⊢
    rcases r2 with ⟨b, s2⟩
    simp only at wp hrp hterm
    have invr2 : InvR s2 := invR_of_rpart hrp rp.inv
    have hrs2 : s2.rs.isDone = false := by rw [rs_of_rpart hrp]; exact rp.pend rfl
    cases b with
    | err e => exact ⟨invr2, wp.weak (by simp), by simp, by simp, by simp⟩
    | diverged => exact absurd rfl hterm
    | ready m =>
      exact ⟨invr2, wp.weak (by simp), fun _ => ⟨invr2, wp.inv rfl⟩, by simp, fun _ => by rw [hrs2]; simp⟩
    | pending =>
      exact ⟨invr2, wp.weak (by simp), fun _ => ⟨invr2, wp.inv rfl⟩, by simp, fun _ => by rw [hrs2]; simp⟩

/-! ### Half-close in the calls -/

/-- Read direction: only its own operations; the stream's end-of-file is followed by `poll_shutdown`
    of the local side in the same sub-poll. -/
structure ReadCalls (cs : List Call) : Prop where
  dir : ∀ c ∈ cs, c.dir = .read
  eof : Call.mfill (some []) ∈ cs → ∃ a, Call.lshut a ∈ cs

theorem shutdownLocal_lshut (n : Nat) (s : St) :
    ∃ a, (shutdownLocal n s).2.calls = s.calls ++ [.lshut a] := by
  have hc := localShutdown_calls s
  unfold shutdownLocal
  generalize localShutdown s = r at hc ⊢
  rcases r with ⟨a, s1⟩
  cases a with
  | ready v => cases v; exact ⟨_, hc⟩
  | pending b => exact ⟨_, hc⟩
  | err c => exact ⟨_, hc⟩

theorem readLoop_readCalls (fx : Fix) : ∀ fuel n s,
    ∃ cs, (readLoop fx fuel n s).2.calls = s.calls ++ cs ∧ ReadCalls cs := by
  intro fuel
  induction fuel with
  | zero => intro n s; exact ⟨[], by simp [readLoop], by simp, by simp⟩
  | succ k ih =>
    intro n s
    have hc := muxFill_calls s
    simp only [readLoop]
    generalize muxFill s = r at hc ⊢
    rcases r with ⟨a, s1⟩
    simp only at hc
    cases a with
    | none => exact ⟨[_], hc, by simp [Call.dir], by simp⟩
    | some buf =>
      simp only
      split
      · rename_i hb
        obtain ⟨a, ha⟩ := shutdownLocal_lshut n { s1 with rs := .shuttingDown n }
        refine ⟨[.mfill (some buf), .lshut a], by rw [ha]; simp [hc], ?_, fun _ => ⟨a, by simp⟩⟩
        intro c hm; simp at hm; rcases hm with rfl | rfl <;> rfl
      · rename_i hb
        have hw := localWrite_calls s1 buf
        generalize localWrite s1 buf = r2 at hw ⊢
        rcases r2 with ⟨b, s2⟩
        simp only at hw
        have stop : ∃ cs, s2.calls = s.calls ++ cs ∧ ReadCalls cs := by
          refine ⟨[.mfill (some buf), .lwrite buf.length b], by rw [hw, hc]; simp, ?_, ?_⟩
          · intro c hm; simp at hm; rcases hm with rfl | rfl <;> rfl
          · intro hm; simp at hm; exact absurd hm hb
        cases b with
        | pending w => exact stop
        | err c => exact stop
        | ready v =>
          simp only
          split
          · exact stop
          · obtain ⟨cs, h, ok⟩ := ih (n + v) { muxConsume s2 v with rs := .transferring (n + v) }
            refine ⟨[.mfill (some buf), .lwrite buf.length (.ready v), .mconsume v] ++ cs, ?_, ?_, ?_⟩
            · rw [h]; simp [hw, hc]
            · intro c hm
              rcases List.mem_append.mp hm with h' | h'
              · simp at h'; rcases h' with rfl | rfl | rfl <;> rfl
              · exact ok.dir c h'
            · intro hm
              rcases List.mem_append.mp hm with h' | h'
              · simp at h'; exact absurd h' hb
              · obtain ⟨a, ha⟩ := ok.eof h'
                exact ⟨a, List.mem_append.mpr (.inr ha)⟩

theorem pollRead_readCalls (fx : Fix) (s : St) :
    ∃ cs, (pollRead fx s).2.calls = s.calls ++ cs ∧ ReadCalls cs ∧
      ((∀ n, s.rs ≠ .transferring n) → ∀ c ∈ cs, (∃ a, c = .lshut a)) ∧
      (∀ n, s.rs = .shuttingDown n → ∃ a, Call.lshut a ∈ cs) ∧
      (s.rs.isDone = true → cs = []) := by
  unfold pollRead
  split
  · rename_i n h
    obtain ⟨cs, hc, ok⟩ := readLoop_readCalls fx (fuelR s) n s
    exact ⟨cs, hc, ok, fun hn => absurd h (hn n), by simp [h], by simp [h, ReadState.isDone]⟩
  · rename_i n h
    obtain ⟨a, ha⟩ := shutdownLocal_lshut n s
    refine ⟨[.lshut a], ha, ⟨by simp [Call.dir], fun _ => ⟨a, by simp⟩⟩, fun _ c hc => ⟨a, by simpa using hc⟩,
      fun _ _ => ⟨a, by simp⟩, by simp [h, ReadState.isDone]⟩
  · rename_i n h
    exact ⟨[], by simp, ⟨by simp, by simp⟩, by simp, by simp [h], by simp⟩

/-- Write direction: only its own operations; the local end-of-file is followed by `do_shutdown` in
    the same sub-poll, which leaves the direction `Done` — unless the frame gathered before it could
    not be sent (`BrokenPipe`). -/
structure WriteCalls (cs : List Call) (r : P) (s' : St) : Prop where
  dir : ∀ c ∈ cs, c.dir = .write
  eof : Call.lfill (.ready []) ∈ cs →
    (Call.finish ∈ cs ∧ s'.ws.isDone = true ∧ ∃ m, r = .ready m) ∨ r = .err .brokenPipe
  fin : Call.finish ∈ cs → Call.lfill (.ready []) ∈ cs

theorem coalesce_eof : ∀ fuel acc s,
    ∃ cs, (coalesce fuel acc s).2.2.calls = s.calls ++ cs ∧ (∀ c ∈ cs, c.dir = .write) ∧
      (Call.lfill (.ready []) ∈ cs ↔ (coalesce fuel acc s).2.1 = .eof) ∧ Call.finish ∉ cs := by
  intro fuel
  induction fuel with
  | zero => intro acc s; exact ⟨[], by simp [coalesce], by simp, by simp [coalesce], by simp⟩
  | succ k ih =>
    intro acc s
    have hc := localFill_calls s
    simp only [coalesce]
    generalize localFill s = r at hc ⊢
    rcases r with ⟨a, s1⟩
    simp only at hc
    cases a with
    | pending b => exact ⟨[_], hc, by simp [Call.dir], by simp, by simp⟩
    | err c => exact ⟨[_], hc, by simp [Call.dir], by simp, by simp⟩
    | ready d =>
      simp only
      split
      · rename_i hd; subst hd
        exact ⟨[_], hc, by simp [Call.dir], by simp, by simp⟩
      · rename_i hd
        obtain ⟨cs, h, hdir, heof, hfin⟩ := ih (acc ++ d) (localConsume s1 d.length)
        refine ⟨[.lfill (.ready d), .lconsume d.length] ++ cs, by rw [h]; simp [hc], ?_, ?_, ?_⟩
        · intro c hm
          rcases List.mem_append.mp hm with h' | h'
          · simp at h'; rcases h' with rfl | rfl <;> rfl
          · exact hdir c h'
        · rw [← heof]; simp [hd]
        · simp [hfin]

theorem pollWrite_writeCalls (fx : Fix) (s : St) :
    ∃ cs, (pollWrite fx s).2.calls = s.calls ++ cs ∧ WriteCalls cs (pollWrite fx s).1 (pollWrite fx s).2 ∧
      (s.ws.isDone = true → cs = []) := by
  unfold pollWrite
  split
  · exact ⟨[], by simp, ⟨by simp, by simp, by simp⟩, by simp⟩
  · rename_i n hws
    have hnd : (s.ws.isDone = true → ∀ cs : List Call, cs = []) := by simp [hws, WriteState.isDone]
    have hc := localFill_calls s
    generalize localFill s = r at hc ⊢
    rcases r with ⟨a, s1⟩
    simp only at hc
    cases a with
    | pending b =>
      simp only
      have hfl := localFlush_calls s1
      generalize localFlush s1 = r2 at hfl ⊢
      rcases r2 with ⟨fa, s2⟩
      simp only at hfl
      have hcalls : s2.calls = s.calls ++ [.lfill (.pending b), .lflush fa] := by rw [hfl, hc]; simp
      have wc : ∀ r, WriteCalls [.lfill (.pending b), .lflush fa] r s2 :=
        fun r => ⟨by intro c hm; simp at hm; rcases hm with rfl | rfl <;> rfl, by simp, by simp⟩
      cases fa with
      | ready v => cases v; exact ⟨_, hcalls, wc _, fun h => hnd h _⟩
      | pending w => exact ⟨_, hcalls, wc _, fun h => hnd h _⟩
      | err c => exact ⟨_, hcalls, wc _, fun h => hnd h _⟩
    | err c => exact ⟨[_], hc, ⟨by simp [Call.dir], by simp, by simp⟩, fun h => hnd h _⟩
    | ready d =>
      simp only
      split
      · rename_i hd; subst hd
        exact ⟨[.lfill (.ready []), .finish], by rw [finishMux_calls, hc]; simp,
          ⟨by intro c hm; simp at hm; rcases hm with rfl | rfl <;> rfl,
           fun _ => .inl ⟨by simp, by simp [finishMux, WriteState.isDone], n, rfl⟩, by simp⟩, fun h => hnd h _⟩
      · rename_i hd
        have hcr := muxCredit_calls s1
        generalize muxCredit s1 = r2 at hcr ⊢
        rcases r2 with ⟨g, s2⟩
        simp only at hcr
        have stop : ∀ r, WriteCalls [.lfill (.ready d), .credit g] r s2 :=
          fun r => ⟨by intro c hm; simp at hm; rcases hm with rfl | rfl <;> rfl, by simp [hd], by simp⟩
        have hcalls : s2.calls = s.calls ++ [.lfill (.ready d), .credit g] := by rw [hcr, hc]; simp
        cases g with
        | pending => exact ⟨_, hcalls, stop _, fun h => hnd h _⟩
        | closed => exact ⟨_, hcalls, stop _, fun h => hnd h _⟩
        | granted =>
          simp only
          obtain ⟨cs, hcs, hdir, heof, hfin⟩ := coalesce_eof (fuelW (localConsume s2 d.length)) d (localConsume s2 d.length)
          generalize coalesce (fuelW (localConsume s2 d.length)) d (localConsume s2 d.length) = r3 at hcs heof ⊢
          rcases r3 with ⟨payload, stop', s3⟩
          simp only at hcs heof
          have hpre : s3.calls = s.calls ++ ([.lfill (.ready d), .credit .granted, .lconsume d.length] ++ cs) := by
            rw [hcs, localConsume_calls, hcr, hc]; simp
          have hdir' : ∀ (l : List Call), (∀ c ∈ l, c.dir = .write) →
              ∀ c ∈ [Call.lfill (.ready d), .credit .granted, .lconsume d.length] ++ cs ++ l, c.dir = .write := by
            intro l hl c hm
            rcases List.mem_append.mp hm with h' | h'
            · rcases List.mem_append.mp h' with h'' | h''
              · simp at h''; rcases h'' with rfl | rfl | rfl <;> rfl
              · exact hdir c h''
            · exact hl c h'
          cases stop'
          case diverged =>
            refine ⟨_, hpre, ⟨?_, ?_, ?_⟩, fun h => hnd h _⟩
            · intro c hm; exact hdir' [] (by simp) c (by simpa using hm)
            · intro hm; simp [hd] at hm; have := heof.mp hm; cases this
            · intro hm; simp [hfin] at hm
          all_goals
            simp only
            have hsn := muxSend_calls s3 payload
            generalize muxSend s3 payload = r4 at hsn ⊢
            rcases r4 with ⟨m, s4⟩
            simp only at hsn
            cases m
            case closed =>
              refine ⟨[.lfill (.ready d), .credit .granted, .lconsume d.length] ++ cs ++ [.send payload .closed],
                by rw [hsn, hpre]; simp, ⟨hdir' _ (by simp [Call.dir]), fun _ => .inr rfl, ?_⟩, fun h => hnd h _⟩
              intro hm; simp [hfin] at hm
            case ok =>
              try simp only
              first
                | -- end of file
                  refine ⟨[.lfill (.ready d), .credit .granted, .lconsume d.length] ++ cs ++ [.send payload .ok, .finish],
                    by rw [finishMux_calls, hsn, hpre]; simp, ⟨hdir' _ (by simp [Call.dir]),
                      fun _ => .inl ⟨by simp, by simp [finishMux, WriteState.isDone], _, rfl⟩, ?_⟩, fun h => hnd h _⟩
                  intro _; simp [heof]
                | -- the coalescing loop saw an error
                  split <;>
                  (refine ⟨[.lfill (.ready d), .credit .granted, .lconsume d.length] ++ cs ++ [.send payload .ok],
                    by rw [hsn, hpre]; simp, ⟨hdir' _ (by simp [Call.dir]), ?_, ?_⟩, fun h => hnd h _⟩
                   · intro hm; simp [hd] at hm; have := heof.mp hm; cases this
                   · intro hm; simp [hfin] at hm)
                | -- pending
                  refine ⟨[.lfill (.ready d), .credit .granted, .lconsume d.length] ++ cs ++ [.send payload .ok],
                    by rw [hsn, hpre]; simp, ⟨hdir' _ (by simp [Call.dir]), ?_, ?_⟩, fun h => hnd h _⟩
                  · intro hm; simp [hd] at hm; have := heof.mp hm; cases this
                  · intro hm; simp [hfin] at hm

/-- Half-close, as seen in the calls of one whole poll. -/
theorem poll_halfclose (fx : Fix) (s : St) :
    (Call.mfill (some []) ∈ (poll fx s).2.calls → ∃ a, Call.lshut a ∈ (poll fx s).2.calls) ∧
    (∀ n, s.rs = .shuttingDown n → ∃ a, Call.lshut a ∈ (poll fx s).2.calls) ∧
    ((∀ n, s.rs ≠ .transferring n) → ∀ c ∈ (poll fx s).2.calls, c.dir = .read → ∃ a, c = .lshut a) ∧
    (s.rs.isDone = true → ∀ c ∈ (poll fx s).2.calls, c.dir = .write) ∧
    (Call.lfill (.ready []) ∈ (poll fx s).2.calls →
      (Call.finish ∈ (poll fx s).2.calls ∧ (poll fx s).2.ws.isDone = true) ∨
      (poll fx s).1 = .err .brokenPipe) ∧
    (Call.finish ∈ (poll fx s).2.calls → Call.lfill (.ready []) ∈ (poll fx s).2.calls) ∧
    (s.ws.isDone = true → ∀ c ∈ (poll fx s).2.calls, c.dir = .read) := by
  obtain ⟨csR, hcR, okR, hnt, hsd, hdn⟩ := pollRead_readCalls fx { s with calls := [] }
  have hwp := ws_of_wpart (pollRead_wpart fx { s with calls := [] })
  unfold poll
  generalize pollRead fx { s with calls := [] } = r at hcR hwp ⊢
  rcases r with ⟨a, s1⟩
  simp only [List.nil_append] at hcR hwp hnt hsd hdn
  have hws1 : s1.ws = s.ws := hwp
  obtain ⟨csW, hcW, okW, hwd⟩ := pollWrite_writeCalls fx s1
  rw [hws1] at hwd
  -- facts about `csR` alone (the read direction failed: the write direction was not polled)
  have onlyR : ∀ (res : Res), (res ≠ .err .brokenPipe ∨ True) →
      (Call.mfill (some []) ∈ csR → ∃ a, Call.lshut a ∈ csR) ∧
      (∀ n, s.rs = .shuttingDown n → ∃ a, Call.lshut a ∈ csR) ∧
      ((∀ n, s.rs ≠ .transferring n) → ∀ c ∈ csR, c.dir = .read → ∃ a, c = .lshut a) ∧
      (s.rs.isDone = true → ∀ c ∈ csR, c.dir = .write) ∧
      (Call.lfill (.ready []) ∈ csR → False) ∧ (Call.finish ∈ csR → False) ∧
      (s.ws.isDone = true → ∀ c ∈ csR, c.dir = .read) := by
    intro _ _
    refine ⟨okR.eof, hsd, fun h c hc _ => hnt h c hc, ?_, ?_, ?_, fun _ c hc => okR.dir c hc⟩
    · intro h c hc; rw [hdn h] at hc; cases hc
    · intro h; have := okR.dir _ h; cases this
    · intro h; have := okR.dir _ h; cases this
  have both : ∀ (res : Res) (s2 : St), s2.calls = s1.calls ++ csW → WriteCalls csW (pollWrite fx s1).1 s2 →
      ((pollWrite fx s1).1 = .err .brokenPipe → res = .err .brokenPipe) →
      (Call.mfill (some []) ∈ s2.calls → ∃ a, Call.lshut a ∈ s2.calls) ∧
      (∀ n, s.rs = .shuttingDown n → ∃ a, Call.lshut a ∈ s2.calls) ∧
      ((∀ n, s.rs ≠ .transferring n) → ∀ c ∈ s2.calls, c.dir = .read → ∃ a, c = .lshut a) ∧
      (s.rs.isDone = true → ∀ c ∈ s2.calls, c.dir = .write) ∧
      (Call.lfill (.ready []) ∈ s2.calls → (Call.finish ∈ s2.calls ∧ s2.ws.isDone = true) ∨ res = .err .brokenPipe) ∧
      (Call.finish ∈ s2.calls → Call.lfill (.ready []) ∈ s2.calls) ∧
      (s.ws.isDone = true → ∀ c ∈ s2.calls, c.dir = .read) := by
    intro res s2 h2 ok hbp
    have hall : s2.calls = csR ++ csW := by rw [h2, hcR]
    obtain ⟨o1, o2, o3, o4, o5, o6, o7⟩ := onlyR res (.inr trivial)
    rw [hall]
    refine ⟨?_, ?_, ?_, ?_, ?_, ?_, ?_⟩
    · intro hm
      rcases List.mem_append.mp hm with h | h
      · obtain ⟨a, ha⟩ := o1 h; exact ⟨a, List.mem_append.mpr (.inl ha)⟩
      · have := ok.dir _ h; cases this
    · intro n hn; obtain ⟨a, ha⟩ := o2 n hn; exact ⟨a, List.mem_append.mpr (.inl ha)⟩
    · intro hn c hm hd
      rcases List.mem_append.mp hm with h | h
      · exact o3 hn c h hd
      · have := ok.dir _ h; rw [this] at hd; cases hd
    · intro hd c hm
      rcases List.mem_append.mp hm with h | h
      · exact o4 hd c h
      · exact ok.dir c h
    · intro hm
      rcases List.mem_append.mp hm with h | h
      · exact absurd h (fun h => o5 h)
      · rcases ok.eof h with ⟨hf, hdone, _⟩ | hb
        · exact .inl ⟨List.mem_append.mpr (.inr hf), hdone⟩
        · exact .inr (hbp hb)
    · intro hm
      rcases List.mem_append.mp hm with h | h
      · exact absurd h (fun h => o6 h)
      · exact List.mem_append.mpr (.inr (ok.fin h))
    · intro hd c hm
      rcases List.mem_append.mp hm with h | h
      · exact okR.dir c h
      · rw [hwd hd] at h; cases h
  cases a with
  | err e =>
    simp only; rw [hcR]
    obtain ⟨o1, o2, o3, o4, o5, o6, o7⟩ := onlyR (.err e) (.inr trivial)
    exact ⟨o1, o2, o3, o4, fun h => (o5 h).elim, fun h => (o6 h).elim, o7⟩
  | diverged =>
    simp only; rw [hcR]
    obtain ⟨o1, o2, o3, o4, o5, o6, o7⟩ := onlyR .diverged (.inr trivial)
    exact ⟨o1, o2, o3, o4, fun h => (o5 h).elim, fun h => (o6 h).elim, o7⟩
  | ready n =>
    simp only
    generalize pollWrite fx s1 = r2 at hcW okW both ⊢
    rcases r2 with ⟨b, s2⟩
    simp only at hcW okW both
    cases b with
    | err e => exact both _ s2 hcW okW (by intro h; rw [h])
    | diverged => exact both _ s2 hcW okW (by simp)
    | ready m => exact both _ s2 hcW okW (by simp)
    | pending => exact both _ s2 hcW okW (by simp)
  | pending =>
    simp only
    generalize pollWrite fx s1 = r2 at hcW okW both ⊢
    rcases r2 with ⟨b, s2⟩
    simp only at hcW okW both
    cases b with
    | err e => exact both _ s2 hcW okW (by intro h; rw [h])
    | diverged => exact both _ s2 hcW okW (by simp)
    | ready m => exact both _ s2 hcW okW (by simp)
    | pending => exact both _ s2 hcW okW (by simp)

end Penguin.Bridge
