/-
An object-local update of endpoint `a` (an application call on a stream handle) preserves the phase
of the flow the object belongs to, given how the update acts on `DirRel` in the sending and in the
receiving role.
-/
import Penguin.Lemmas.PairDir
import Penguin.Lemmas.PairStep

namespace Penguin.Pair
open Penguin.Mux

theorem objView_self {x : Nat} {e : EP} {i : Nat} {o : Obj} (ho : e.objs[i]? = some o) (hf : o.fid = x) :
    objView x e i = some o := by
  simp [objView, ho, hf]

theorem objView_some {x : Nat} {e : EP} {k : Nat} {o : Obj} (h : objView x e k = some o) :
    e.objs[k]? = some o ∧ o.fid = x := by
  unfold objView at h
  split at h
  · split at h
    · cases h; exact ⟨by assumption, by assumption⟩
    · cases h
  · cases h

theorem fl_self (x : Nat) (em : List Msg) (h : ∀ m ∈ em, Msg.flow? m = some x) : fl x em = em := by
  induction em with
  | nil => rfl
  | cons m rest ih =>
    rw [fl_cons]
    have : isFl x m = true := by simp [isFl, h m (by simp)]
    rw [this, if_pos rfl, ih (fun m' hm' => h m' (List.mem_cons_of_mem _ hm'))]

section Upd

variable {p : PS} {e' : EP} {g' : Ghost} {i y : Nat} {o o' : Obj} {em : List Msg} {dq : List Nat}
  {ba' hd fbaT : List Msg}

/-- The view of flow `y` at `a` after the update. -/
theorem objView_upd (u : LocalUpd p.a e' i o' em dq) (ho' : o'.fid = y) (k : Nat) :
    objView y e' k = if k = i then some o' else objView y p.a k := by
  by_cases hk : k = i
  · subst hk; rw [if_pos rfl]; exact objView_self u.self ho'
  · rw [if_neg hk]; simp [objView, u.others k hk]

/-- What an object-local update at `a` must satisfy with respect to the wire-level facts: what it
    emits respects "no data after an end marker", a closed sender emits no data, an emitted end marker
    closes the sender; the receiving side is ended only by consuming an end marker. -/
structure WireUpd (o o' : Obj) (em hd : List Msg) : Prop where
  shape : noPushAfterEnd (em.filterMap toItem) = true
  closed : o.finishSent = true → Link.pushes (em.filterMap toItem) = []
  ends : Link.hasEnd (em.filterMap toItem) = true → o'.finishSent = true
  alive : o'.senderAlive = false → o.senderAlive = false ∨ Link.hasEnd (hd.filterMap toItem) = true

theorem phase_upd (hp : Phase y p) (u : LocalUpd p.a e' i o' em dq)
    (ho : p.a.objs[i]? = some o) (hoy : o.fid = y) (ho' : o'.fid = y)
    (hem : ∀ m ∈ em, Msg.flow? m = some y ∧ m.isConnect = false)
    (hba1 : fl y (pathBA p) = hd ++ fbaT) (hba2 : fl y (ba' ++ p.b.outq) = fbaT)
    (hS : lookup p.a.flows y ≠ none → ∀ oR fwd bwd r eof l, DirRel o oR fwd (hd ++ bwd) (p.ga.wlog i) r eof l →
            ∃ l', DirRel o' oR (fwd ++ em) bwd (g'.wlog i) r eof l')
    (hR : ReaderOk o' (g'.eof i) → ∀ oS fwd bwd w l, DirRel oS o (hd ++ fwd) bwd w (p.ga.rlog i) (p.ga.eof i) l →
            ∃ l', DirRel oS o' fwd (bwd ++ em) w (g'.rlog i) (g'.eof i) l')
    (hRA : ReaderOk o' (g'.eof i) → ∀ fwd w l, DirRelA o (hd ++ fwd) w (p.ga.rlog i) (p.ga.eof i) l →
            ∃ l', DirRelA o' fwd w (g'.rlog i) (g'.eof i) l')
    (hok : ReaderOk o' (g'.eof i) → ReaderOk o (p.ga.eof i))
    (hclosed : (o.finishSent = true → o'.finishSent = true ∧ g'.wlog i = p.ga.wlog i) ∧
               (o.senderAlive = false → o'.senderAlive = false))
    (hnr : lookup p.a.flows y ≠ none → noReset em) (hhd : lookup p.a.flows y ≠ none → noReset hd)
    (hw : WireUpd o o' em hd)
    (hrxd : (o.rxOpen = false → o'.rxOpen = false) ∧ (y ∈ dq → o'.rxOpen = false))
    (hHalf : hd = [] → o.rxq = [] → o.buf = [] → o.recvdSince = 0 → o.senderAlive = true →
            o'.rxq = [] ∧ o'.buf = [] ∧ o'.recvdSince = 0 ∧ o'.senderAlive = true ∧ (∀ m ∈ em, ackOf m = none) ∧
            g'.rlog i = p.ga.rlog i ∧ g'.eof i = p.ga.eof i ∧ (¬ y ∈ dq → o.rxOpen = true → o'.rxOpen = true))
    (hcap : o'.cap = o.cap ∧ o'.threshold = o.threshold)
    (hdq : ∀ x ∈ dq, x = y) {lk' : List Nat} :
    Phase y { p with a := e', ga := g', ba := ba', linked := lk' } ∧
    (Linked y (ev y p.a p.ga) (ev y p.b p.gb) (fl y (pathAB p)) (fl y (pathBA p)) →
      Linked y (ev y e' g') (ev y p.b p.gb) (fl y (p.ab ++ e'.outq)) (fl y (ba' ++ p.b.outq))) := by
  have hov := objView_self ho hoy
  have hfl : fl y (p.ab ++ e'.outq) = fl y (pathAB p) ++ em := by
    rw [u.outq, ← List.append_assoc, fl_append, fl_self y em (fun m hm => (hem m hm).1)]; rfl
  have hnc : ∀ l, noConnect l → noConnect (l ++ em) := by
    intro l hl m hm
    rcases List.mem_append.mp hm with h | h
    · exact hl m h
    · exact (hem m h).2
  have hslot : lookup e'.flows y = lookup p.a.flows y := by rw [u.flows]
  have hrng : (y ∈ e'.rng) = (y ∈ p.a.rng) := by rw [u.rng]
  have hdq2 : ¬ y ∈ e'.droppedq → ¬ y ∈ p.a.droppedq := by
    intro h1 h2; apply h1; rw [u.dq]; exact List.mem_append_left _ h2
  have hov' : objView y e' i = some o' := objView_self u.self ho'
  have honly : ∀ j, OnlyObj (ev y p.a p.ga) j → j = i ∧ OnlyObj (ev y e' g') i := by
    intro j hj
    have hji : j = i := by
      rcases Nat.decEq i j with hne | he
      · have := hj i hne; rw [show (ev y p.a p.ga).objs i = objView y p.a i from rfl, hov] at this; cases this
      · exact he.symm
    refine ⟨hji, ?_⟩
    intro k hk
    show objView y e' k = none
    rw [objView_upd u ho', if_neg hk]
    exact hj k (hji ▸ hk)
  have hnoobj : NoObj (ev y p.a p.ga) → False := by
    intro hn; have := hn i; rw [show (ev y p.a p.ga).objs i = objView y p.a i from rfl, hov] at this; cases this
  have hwl : (ev y e' g').wlog i = g'.wlog i := by simp [ev, hov']
  have hrl : (ev y e' g').rlog i = g'.rlog i := by simp [ev, hov']
  have hel : (ev y e' g').eof i = g'.eof i := by simp [ev, hov']
  have hwl0 : (ev y p.a p.ga).wlog i = p.ga.wlog i := by simp [ev, hov]
  have hrl0 : (ev y p.a p.ga).rlog i = p.ga.rlog i := by simp [ev, hov]
  have hel0 : (ev y p.a p.ga).eof i = p.ga.eof i := by simp [ev, hov]
  have hnc2 : noConnect (hd ++ fbaT) → noConnect fbaT := fun hh m hm => hh m (List.mem_append_right _ hm)
  have hnrapp : lookup p.a.flows y ≠ none → ∀ l, noReset l → noReset (l ++ em) := by
    intro hne l hl m hm
    rcases List.mem_append.mp hm with hh | hh
    · exact hl m hh
    · exact hnr hne m hh
  -- the live case, used twice
  have live : Linked y (ev y p.a p.ga) (ev y p.b p.gb) (fl y (pathAB p)) (hd ++ fbaT) →
      Linked y (ev y e' g') (ev y p.b p.gb) (fl y (pathAB p) ++ em) fbaT := by
    intro r
    obtain ⟨i0, j, oA, oB, h3, h4, h5, h6, c1, c2, s1, s2, n1, n2, w1, w2, q1, q2, k1, k2⟩ := r.body
    obtain ⟨hji, honly'⟩ := honly i0 h5
    subst hji
    have hoA : oA = o := by
      rw [show (ev y p.a p.ga).objs i0 = objView y p.a i0 from rfl, hov] at h3; cases h3; rfl
    subst hoA
    have hsl : (ev y e' g').slot = (ev y p.a p.ga).slot := hslot
    have hnrT : noReset (hd ++ fbaT) → noReset fbaT := fun hh m hm => hh m (List.mem_append_right _ hm)
    refine ⟨by show ¬ y ∈ e'.rng; rw [hrng]; exact r.ra, r.rb, hnc _ r.nab, hnc2 r.nba,
      ⟨i0, j, o', oB, hov', h4, honly', h6, by show o'.cap = e'.opts.rwnd; rw [hcap.1, u.opts]; exact c1, c2, ?_, s2, ?_, ?_, ?_, ?_,
        ?_, q2, ?_, ?_⟩⟩
    · rw [hsl]
      rcases s1 with s1 | ⟨s1, f1, f2⟩
      · exact Or.inl s1
      · exact Or.inr ⟨s1, (hclosed.1 f1).1, hclosed.2 f2⟩
    · rw [hsl]; intro hne; exact hnrapp hne _ (n1 hne)
    · intro hne; exact hnrT (n2 hne)
    · -- wire a → b
      have hfin : oA.finishSent = true → o'.finishSent = true := fun hh => (hclosed.1 hh).1
      refine ⟨?_, ?_, ?_⟩
      · rw [List.filterMap_append]
        exact npae_append _ _ w1.shape hw.shape (fun he => hw.closed (w1.ended he))
      · rw [List.filterMap_append, Link.hasEnd_append]
        intro he
        rcases Bool.or_eq_true_iff.mp he with h1 | h1
        · exact hfin (w1.ended h1)
        · exact hw.ends h1
      · intro hne hal
        obtain ⟨z1, z2⟩ := w1.quiet hne hal
        rw [List.filterMap_append, Link.pushes_append, z1, hw.closed z2]
        exact ⟨rfl, hfin z2⟩
    · -- wire b → a
      have hsplit : (hd ++ fbaT).filterMap toItem = hd.filterMap toItem ++ fbaT.filterMap toItem := List.filterMap_append
      refine ⟨?_, ?_, ?_⟩
      · have := w2.shape; rw [hsplit] at this; exact npae_suffix _ _ this
      · intro he; apply w2.ended; rw [hsplit, Link.hasEnd_append, he]; simp
      · rw [hsl]
        intro hne hal
        rcases hw.alive hal with h1 | h1
        · obtain ⟨z1, z2⟩ := w2.quiet hne h1
          rw [hsplit, Link.pushes_append] at z1
          exact ⟨(List.append_eq_nil_iff.mp z1).2, z2⟩
        · have hsh := w2.shape; rw [hsplit] at hsh
          refine ⟨npae_end_prefix _ _ hsh h1, w2.ended ?_⟩
          rw [hsplit, Link.hasEnd_append, h1]; rfl
    · -- a queued notification means the receiving half is closed
      intro hdq
      have hdq' : y ∈ e'.droppedq := hdq
      rw [u.dq] at hdq'
      rcases List.mem_append.mp hdq' with hh | hh
      · exact hrxd.1 (q1 hh)
      · exact hrxd.2 hh
    · -- direction a → b: `a` in the sending role
      intro hrok
      obtain ⟨ka, kb⟩ := k1 hrok
      rw [hsl, hwl]
      constructor
      · intro hne
        obtain ⟨l1, d1⟩ := ka hne
        rw [hwl0] at d1
        exact hS hne _ _ _ _ _ _ d1
      · intro hnone
        obtain ⟨l1, d1⟩ := kb hnone
        rw [hwl0] at d1
        have hfin : oA.finishSent = true := by
          rcases s1 with s1 | ⟨_, f1, _⟩
          · rw [hnone] at s1; cases s1
          · exact f1
        rw [(hclosed.1 hfin).2]
        exact ⟨l1, d1.noise⟩
    · -- direction b → a: `a` in the receiving role
      intro hrok
      rw [hel] at hrok
      rw [hrl, hel]
      have hrok0 := hok hrok
      rw [← hel0] at hrok0
      obtain ⟨ka, kb⟩ := k2 hrok0
      constructor
      · intro hne
        obtain ⟨l2, d2⟩ := ka hne
        rw [hrl0, hel0] at d2
        exact hR hrok _ _ _ _ _ d2
      · intro hnone
        obtain ⟨l2, d2⟩ := kb hnone
        rw [hrl0, hel0] at d2
        exact hRA hrok _ _ _ d2
  constructor
  · show PhV y (ev y e' g') (ev y p.b p.gb) (fl y (p.ab ++ e'.outq)) (fl y (ba' ++ p.b.outq))
    rw [hfl, hba2]
    unfold Phase at hp
    rw [hba1] at hp
    rcases hp with f | r | r | r | r | r | r
    · exact absurd f.oa hnoobj
    · exact absurd r.oa hnoobj
    · exact absurd r.ob hnoobj
    · exact absurd r.oa hnoobj
    · -- half-open, `a` is the accepting side
      obtain ⟨j, oP, rest, l, h1, h2, h3, h4, h5, h6, h7, h8, h9, h10, h11, h12, h13, h14, h15, h16, h17, h18, h19⟩ := r.body
      obtain ⟨hji, honly'⟩ := honly j h3
      subst hji
      have hoP : oP = o := by
        rw [show (ev y p.a p.ga).objs j = objView y p.a j from rfl, hov] at h2; cases h2; rfl
      subst hoP
      have hnil := r.fab
      have hd0 : hd = [] := (List.append_eq_nil_iff.mp hnil).1
      have hT0 : fbaT = [] := (List.append_eq_nil_iff.mp hnil).2
      obtain ⟨k1, k2, k3, k4, k5, k6, k7, k8⟩ := hHalf hd0 h8 h9 h10 h11
      subst hd0
      have hest : lookup p.a.flows y ≠ none := by
        have : lookup p.a.flows y = some (.established j) := h1
        rw [this]; intro hh; cases hh
      rw [hwl0] at h12
      obtain ⟨l', hl'⟩ := hS hest _ _ _ _ _ _ h12
      refine Or.inr (Or.inr (Or.inr (Or.inr (Or.inl ⟨r.ra, by show ¬ y ∈ e'.rng; rw [hrng]; exact r.rb, r.sa, r.oa, r.da, hT0,
        ⟨j, o', rest ++ em, l', ?_, hov', honly', ?_, ?_, ?_, ?_, k1, k2, k3, k4, ?_⟩⟩))))
      · show lookup e'.flows y = _; rw [hslot]; exact h1
      · rw [h4]; show _ = Msg.frame (Frame.acknowledge y e'.opts.rwnd) :: (rest ++ em); rw [u.opts]; rfl
      · intro m hm
        rcases List.mem_append.mp hm with hh | hh
        · exact h5 m hh
        · exact ⟨(hem m hh).2, k5 m hh⟩
      · show o'.cap = e'.opts.rwnd; rw [hcap.1, u.opts]; exact h6
      · show o'.threshold = thresholdFor e'.opts _; rw [hcap.2, u.opts]; exact h7
      · rw [hwl]
        have : (ev y e' g').opts = (ev y p.a p.ga).opts := by show e'.opts = p.a.opts; exact u.opts
        rw [this]
        rw [hrl0] at h13
        rw [hel0] at h14
        refine ⟨hl', by rw [hrl, k6]; exact h13, by rw [hel, k7]; exact h14, ?_, hnrapp hest _ h16, ?_, ?_, ?_⟩
        · intro hnd
          have hnd0 : ¬ y ∈ p.a.droppedq := hdq2 hnd
          have hndq : ¬ y ∈ dq := fun hh => hnd (by show y ∈ e'.droppedq; rw [u.dq]; exact List.mem_append_right _ hh)
          exact k8 hndq (h15 hnd0)
        · rw [List.filterMap_append]
          exact npae_append _ _ h17 hw.shape (fun he => hw.closed (h18 he))
        · rw [List.filterMap_append, Link.hasEnd_append]
          intro he
          rcases Bool.or_eq_true_iff.mp he with hh | hh
          · exact (hclosed.1 (h18 hh)).1
          · exact hw.ends hh
        · intro hdq
          have hdq' : y ∈ e'.droppedq := hdq
          rw [u.dq] at hdq'
          rcases List.mem_append.mp hdq' with hh | hh
          · exact hrxd.1 (h19 hh)
          · exact hrxd.2 hh
    · exact Or.inr (Or.inr (Or.inr (Or.inr (Or.inr (Or.inl (live r))))))
    · -- dead
      refine Or.inr (Or.inr (Or.inr (Or.inr (Or.inr (Or.inr ⟨by show ¬ y ∈ e'.rng; rw [hrng]; exact r.ra, r.rb, hnc _ r.nab, hnc2 r.nba, ?_⟩)))))
      rcases r.gone with g | g | g | g
      · left; show lookup e'.flows y = none; rw [hslot]; exact g
      · right; left; exact g
      · right; right; left
        intro hh; apply g
        intro m hm; exact hh m (List.mem_append_left _ hm)
      · by_cases hs : lookup p.a.flows y = none
        · left; show lookup e'.flows y = none; rw [hslot]; exact hs
        · right; right; right
          intro hh; apply g
          intro m hm
          rcases List.mem_append.mp hm with h1 | h1
          · exact hhd hs m h1
          · exact hh m h1
  · intro r
    rw [hfl, hba2]
    rw [hba1] at r
    exact live r

end Upd

end Penguin.Pair
