/-
The id discipline `Num` is preserved by every small step of the pair of bind views in which the left side
acts or receives, as long as its id script is not exhausted.
Core Lean only.
-/
import Penguin.Lemmas.BindAllNumStep2

namespace Penguin.BindAll
open Penguin.Mux
open Penguin.PairAll (inMsgs inMsgs_append)

variable {x : Nat} {c : BC}

theorem Num.act (h : Num (sm x c)) {v : BV} {ws : List Msg} {gs : List BEv} (st : BStep c.a v ws gs) (hn : v.rng ≠ []) :
    Num (sm x (c.actL v ws gs)) := by
  cases st with
  | emit m r ho => exact h.emit m r ho
  | sendClose => exact h.sendClose
  | shrink v' hs => exact h.shrinks hs
  | enq m hc ok => exact h.enq m ok
  | drawOpen y q r' w p hh hs hf ho => exact h.doDrawOpen y q r' w p hh hs hf hn
  | drawBind y req bt host port r' hs hf ho => exact h.doDrawBind y req bt host port r' hs hf hn
  | connNew y w p hh r hi hf => exact h.doConnNew y w p hh r hi hf
  | ackNew y n q r hi hs => exact h.doAckNew y n q r hi hs
  | finBind y req r hi hs => exact h.label _ (by simp) (by simp)
  | refuse y req hs why => exact h.label _ (by simp) (by simp)
  | finishAll => exact h.finishAll
  | doneClosed req => exact h.label _ (by simp) (by simp)
  | offerQ b r hi => exact h.offerQ b r hi
  | offerPark b r hi => exact h.offerPark b r hi
  | unparkQ b hp => exact h.unparkQ b hp
  | bindNext b r hq => exact h.bindNext b r hq
  | reply k b acc hk ha ho => exact h.reply k b acc hk
  | dropReq k b hk => exact h.dropReq k b
  | dropMux => exact h.dropMux

theorem Num.dlv (h : Num (sm x c)) (m : Msg) (rest : List Msg) (deaf : Bool) (hb : c.ba = m :: rest) :
    Num (sm x { c with ba := rest, a := { c.a with inbox := if deaf then c.a.inbox else c.a.inbox ++ [.msg m] } }) := by
  refine Num.shrink h ⟨rfl, rfl, rfl, rfl, rfl, rfl, rfl, rfl, rfl⟩ ?_ ?_ ?_ ?_ ?_ ?_ ?_ ?_ ?_ ?_ ?_ ?_ ?_ ?_ ?_ ?_ ?_ <;>
    cases deaf <;> num_simp <;> simp [hb, inMsgs_append, inMsgs, List.countP_cons, List.countP_append] <;> omega

theorem Num.lose (h : Num (sm x c)) (extra : List WsIn) (deaf : Bool) (hx : inMsgs extra = [] ∨ inMsgs extra = [.close]) :
    Num (sm x { c with ba := [], baOpen := false,
                       a := { c.a with inbox := if deaf then c.a.inbox else c.a.inbox ++ extra } }) := by
  refine Num.shrink h ⟨rfl, rfl, rfl, rfl, rfl, rfl, rfl, rfl, rfl⟩ ?_ ?_ ?_ ?_ ?_ ?_ ?_ ?_ ?_ ?_ ?_ ?_ ?_ ?_ ?_ ?_ ?_ <;>
    cases deaf <;> num_simp <;> rcases hx with hx | hx <;> simp [inMsgs_append, hx, List.countP_append, List.countP_cons]

/-- One small step in which the left side acts or receives. -/
theorem Num.stepL (h : Num (sm x c)) {c' : BC} (st : CStepL c c') (hn : c'.a.rng ≠ []) : Num (sm x c') := by
  cases st with
  | act v ws gs hs => exact h.act hs hn
  | dlv m rest deaf hb _ => exact h.dlv m rest deaf hb
  | lose extra deaf hx => exact h.lose extra deaf hx

end Penguin.BindAll
