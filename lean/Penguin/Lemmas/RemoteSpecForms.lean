/-
The documented forms of a remote specification (C01 glue), written down independently of the
parser — what the user wrote (`Target`, `Entry`, `Suffix`) and what must come out (`expected`) —
and the proof that `Penguin.RemoteSpec.parse` delivers exactly that.
-/
import Penguin.Lemmas.RemoteSpecRound

namespace Penguin.RemoteSpec
open Penguin.Constants

/-- A port as written: the token (any spelling `u16::from_str` accepts, in brackets or not) and its value. -/
structure PortW where
  tok : Tok
  val : Nat

def PortW.OK (p : PortW) : Prop := p.tok.WF ∧ parseU16 p.tok.text = .ok p.val

/-- A host as written: the token (an IPv6 literal is written in brackets; `tok.text` is the text
    WITHOUT them) and what `idna::domain_to_ascii` makes of that text. -/
structure HostW where
  tok : Tok
  ascii : Str

def HostW.OK (o : Oracle) (h : HostW) : Prop := h.tok.WF ∧ o.idna h.tok.text = some h.ascii

/-- The optional `/protocol` suffix. -/
inductive Suffix where
  | none
  | some (ptxt : Str) (proto : Protocol)

def Suffix.text : Suffix → Str
  | .none => []
  | .some p _ => '/' :: p

def Suffix.proto : Suffix → Protocol
  | .none => .tcp
  | .some _ p => p

/-- The suffix text contains neither `/` nor `:` and `Protocol::from_str` reads it as `proto`
    (`to_lowercase` of it is `tcp` / `udp`). -/
def Suffix.OK (o : Oracle) : Suffix → Prop
  | .none => True
  | .some ptxt proto => '/' ∉ ptxt ∧ ':' ∉ ptxt ∧ parseProtocol o ptxt = .ok proto

/-! ### Fixed-target forms -/

/-- `[LOCAL_HOST:]LOCAL_PORT:REMOTE_HOST:REMOTE_PORT`, `REMOTE_HOST:REMOTE_PORT`, `PORT`,
    `stdio:[REMOTE_HOST:]REMOTE_PORT`, `[unix:PATH]:[REMOTE_HOST:]REMOTE_PORT`. -/
inductive Target where
  | port (rp : PortW)
  | hostPort (rh : HostW) (rp : PortW)
  | lportHostPort (lp : PortW) (rh : HostW) (rp : PortW)
  | full (lh : HostW) (lp : PortW) (rh : HostW) (rp : PortW)
  | stdioPort (bracketed : Bool) (rp : PortW)
  | stdioHostPort (bracketed : Bool) (rh : HostW) (rp : PortW)
  | unixPort (path : Str) (rp : PortW)
  | unixHostPort (path : Str) (rh : HostW) (rp : PortW)

def Target.toks : Target → List Tok
  | .port rp => [rp.tok]
  | .hostPort rh rp => [rh.tok, rp.tok]
  | .lportHostPort lp rh rp => [lp.tok, rh.tok, rp.tok]
  | .full lh lp rh rp => [lh.tok, lp.tok, rh.tok, rp.tok]
  | .stdioPort b rp => [⟨kwStdio, b⟩, rp.tok]
  | .stdioHostPort b rh rp => [⟨kwStdio, b⟩, rh.tok, rp.tok]
  | .unixPort path rp => [unixTok path, rp.tok]
  | .unixHostPort path rh rp => [unixTok path, rh.tok, rp.tok]

/-- The parts are well formed.  In the two-part form the host is not `stdio` and not `unix:…`
    (these are the stdio and unix forms). -/
def Target.OK (o : Oracle) : Target → Prop
  | .port rp => rp.OK
  | .hostPort rh rp => rh.OK o ∧ rp.OK ∧ rh.tok.text ≠ kwStdio ∧ isUnix rh.tok.text = false
  | .lportHostPort lp rh rp => lp.OK ∧ rh.OK o ∧ rp.OK
  | .full lh lp rh rp => lh.OK o ∧ lp.OK ∧ rh.OK o ∧ rp.OK
  | .stdioPort _ rp => rp.OK
  | .stdioHostPort _ rh rp => rh.OK o ∧ rp.OK
  | .unixPort path rp => ']' ∉ path ∧ rp.OK
  | .unixHostPort path rh rp => ']' ∉ path ∧ rh.OK o ∧ rp.OK

def Target.isUnix : Target → Bool
  | .unixPort _ _ => true
  | .unixHostPort _ _ _ => true
  | _ => false

/-- Where it listens and where it forwards to, as documented (`arg/mod.rs:99-162`). -/
def Target.expected (proto : Protocol) : Target → Remote
  | .port rp => ⟨.inet defaultUnspec rp.val, .inet defaultLocal rp.val, proto⟩
  | .hostPort rh rp => ⟨.inet defaultUnspec rp.val, .inet rh.ascii rp.val, proto⟩
  | .lportHostPort lp rh rp => ⟨.inet defaultUnspec lp.val, .inet rh.ascii rp.val, proto⟩
  | .full lh lp rh rp => ⟨.inet lh.ascii lp.val, .inet rh.ascii rp.val, proto⟩
  | .stdioPort _ rp => ⟨.stdio, .inet defaultLocal rp.val, proto⟩
  | .stdioHostPort _ rh rp => ⟨.stdio, .inet rh.ascii rp.val, proto⟩
  | .unixPort path rp => ⟨.domainSocket path, .inet defaultLocal rp.val, proto⟩
  | .unixHostPort path rh rp => ⟨.domainSocket path, .inet rh.ascii rp.val, proto⟩

/-! ### Facts about port texts and key words -/

theorem port_text_facts {t : Str} {n : Nat} (h : parseU16 t = .ok n) :
    isSpecial t = false ∧ t ≠ kwStdio ∧ isUnix t = false ∧ '/' ∉ t ∧ portOrBail t = .ok n := by
  have hpb : portOrBail t = .ok n := by simp [portOrBail, h]
  obtain ⟨ds, hs, hne, hd, _, _⟩ := (parseU16_ok_iff t n).mp h
  have hsl : '/' ∉ ds := allDigits_not_mem hd (by decide)
  rcases hs with rfl | rfl
  · obtain ⟨a, b, c⟩ := digits_not_special hd hne
    exact ⟨a, b, c, hsl, hpb⟩
  · refine ⟨?_, ?_, ?_, ?_, hpb⟩
    · simp [isSpecial, kwSocks_eq, kwHttp_eq, kwTproxy_eq]
    · simp [kwStdio_eq]
    · simp [isUnix, unixPrefix_eq, List.isPrefixOf]
    · simp [hsl]

theorem not_special_ne {t : Str} (h : isSpecial t = false) : t ≠ kwSocks ∧ t ≠ kwHttp ∧ t ≠ kwTproxy := by
  simp [isSpecial] at h
  exact ⟨h.1.1, h.1.2, h.2⟩

theorem render_no_slash {t : Tok} (h : '/' ∉ t.text) : '/' ∉ t.render := by
  unfold Tok.render
  split
  · simp [h]
  · exact h

theorem unixTok_text (path : Str) : (unixTok path).text = unixPrefix ++ path := rfl

theorem postChecks_ok {r : Remote} (h1 : ¬ ((r.remoteAddr = .socks ∨ r.remoteAddr = .http) ∧ r.protocol = .udp))
    (h2 : ¬ (r.localAddr.isDomainSocket = true ∧ r.protocol = .udp))
    (h3 : ¬ (r.localAddr.isDomainSocket = true ∧ r.remoteAddr = .tproxy)) : postChecks r = .ok r := by
  simp only [postChecks, h1, h2, h3, if_false]

/-- The arm body and the post-checks on a fixed-target form. -/
theorem finish_target (o : Oracle) (proto : Protocol) (t : Target) (ht : t.OK o) :
    finish o proto (t.toks.map (·.text)) =
      if t.isUnix = true ∧ proto = .udp then .error (.err (.unsupportedCombination .unixUdp))
      else .ok (t.expected proto) := by
  cases t with
  | port rp =>
    obtain ⟨_, hp⟩ := ht
    obtain ⟨f1, _, _, _, f5⟩ := port_text_facts hp
    obtain ⟨n1, n2, n3⟩ := not_special_ne f1
    simp [finish, Target.toks, selectArm, n1, n2, n3, evalArm, f5, bind, Except.bind, Target.isUnix, Target.expected,
      postChecks, LocalSpec.isDomainSocket]
  | hostPort rh rp =>
    obtain ⟨⟨_, hh⟩, ⟨_, hp⟩, hns, hnu⟩ := ht
    obtain ⟨f1, _, _, _, f5⟩ := port_text_facts hp
    simp [finish, Target.toks, selectArm, hns, f1, hnu, evalArm, f5, domainOrBail_of hh, bind, Except.bind,
      Target.isUnix, Target.expected, postChecks, LocalSpec.isDomainSocket]
  | lportHostPort lp rh rp =>
    obtain ⟨⟨_, hlp⟩, ⟨_, hh⟩, ⟨_, hp⟩⟩ := ht
    obtain ⟨f1, _, _, _, f5⟩ := port_text_facts hp
    obtain ⟨_, g2, g3, _, g5⟩ := port_text_facts hlp
    simp [finish, Target.toks, selectArm, g2, f1, g3, evalArm, f5, g5, domainOrBail_of hh, bind, Except.bind,
      Target.isUnix, Target.expected, postChecks, LocalSpec.isDomainSocket]
  | full lh lp rh rp =>
    obtain ⟨⟨_, hlh⟩, ⟨_, hlp⟩, ⟨_, hh⟩, ⟨_, hp⟩⟩ := ht
    obtain ⟨_, _, _, _, f5⟩ := port_text_facts hp
    obtain ⟨_, _, _, _, g5⟩ := port_text_facts hlp
    simp [finish, Target.toks, selectArm, evalArm, f5, g5, domainOrBail_of hh, domainOrBail_of hlh, bind, Except.bind,
      Target.isUnix, Target.expected, postChecks, LocalSpec.isDomainSocket]
  | stdioPort b rp =>
    obtain ⟨_, hp⟩ := ht
    obtain ⟨f1, _, _, _, f5⟩ := port_text_facts hp
    obtain ⟨n1, n2, n3⟩ := not_special_ne f1
    simp [finish, Target.toks, selectArm, n1, n2, n3, evalArm, f5, bind, Except.bind, Target.isUnix, Target.expected,
      postChecks, LocalSpec.isDomainSocket]
  | stdioHostPort b rh rp =>
    obtain ⟨⟨_, hh⟩, ⟨_, hp⟩⟩ := ht
    obtain ⟨_, _, _, _, f5⟩ := port_text_facts hp
    simp [finish, Target.toks, selectArm, evalArm, f5, domainOrBail_of hh, bind, Except.bind, Target.isUnix,
      Target.expected, postChecks, LocalSpec.isDomainSocket]
  | unixPort path rp =>
    obtain ⟨_, ⟨_, hp⟩⟩ := ht
    obtain ⟨f1, _, _, _, f5⟩ := port_text_facts hp
    cases proto <;>
      simp [finish, Target.toks, unixTok_text, selectArm, unix_ne_stdio, f1, isUnix_unix, udsPath_unix, evalArm, f5, bind,
        Except.bind, Target.isUnix, Target.expected, postChecks, LocalSpec.isDomainSocket]
  | unixHostPort path rh rp =>
    obtain ⟨_, ⟨_, hh⟩, ⟨_, hp⟩⟩ := ht
    obtain ⟨f1, _, _, _, f5⟩ := port_text_facts hp
    cases proto <;>
      simp [finish, Target.toks, unixTok_text, selectArm, unix_ne_stdio, f1, isUnix_unix, udsPath_unix, evalArm, f5,
        domainOrBail_of hh, bind, Except.bind, Target.isUnix, Target.expected, postChecks, LocalSpec.isDomainSocket]

theorem stdioTok_wf (b : Bool) : Tok.WF ⟨kwStdio, b⟩ := by
  cases b <;> exact ⟨by decide, by simp [kwStdio_eq]⟩

theorem target_toks_wf {o : Oracle} {t : Target} (ht : t.OK o) : ∀ x ∈ t.toks, x.WF := by
  intro x hx
  cases t <;> simp [Target.toks] at hx <;> simp only [Target.OK, PortW.OK, HostW.OK] at ht
  case port => subst hx; exact ht.1
  case hostPort => rcases hx with rfl | rfl; exact ht.1.1; exact ht.2.1.1
  case lportHostPort => rcases hx with rfl | rfl | rfl; exact ht.1.1; exact ht.2.1.1; exact ht.2.2.1
  case full => rcases hx with rfl | rfl | rfl | rfl; exact ht.1.1; exact ht.2.1.1; exact ht.2.2.1.1; exact ht.2.2.2.1
  case stdioPort => rcases hx with rfl | rfl; exact stdioTok_wf _; exact ht.1
  case stdioHostPort => rcases hx with rfl | rfl | rfl; exact stdioTok_wf _; exact ht.1.1; exact ht.2.1
  case unixPort => rcases hx with rfl | rfl; exact unixTok_wf ht.1; exact ht.2.1
  case unixHostPort => rcases hx with rfl | rfl | rfl; exact unixTok_wf ht.1; exact ht.2.1.1; exact ht.2.2.1

/-- Every fixed-target form ends with its remote port. -/
theorem target_toks_last {o : Oracle} {t : Target} (ht : t.OK o) :
    ∃ init rp, t.toks = init ++ [rp] ∧ '/' ∉ rp.render ∧ t.toks.length ≤ 4 := by
  cases t <;> simp only [Target.OK, PortW.OK] at ht
  case port rp => exact ⟨[], rp.tok, rfl, render_no_slash (port_text_facts ht.2).2.2.2.1, by simp [Target.toks]⟩
  case hostPort rh rp => exact ⟨[rh.tok], rp.tok, rfl, render_no_slash (port_text_facts ht.2.1.2).2.2.2.1, by simp [Target.toks]⟩
  case lportHostPort lp rh rp =>
    exact ⟨[lp.tok, rh.tok], rp.tok, rfl, render_no_slash (port_text_facts ht.2.2.2).2.2.2.1, by simp [Target.toks]⟩
  case full lh lp rh rp =>
    exact ⟨[lh.tok, lp.tok, rh.tok], rp.tok, rfl, render_no_slash (port_text_facts ht.2.2.2.2).2.2.2.1, by simp [Target.toks]⟩
  case stdioPort b rp => exact ⟨[⟨kwStdio, b⟩], rp.tok, rfl, render_no_slash (port_text_facts ht.2).2.2.2.1, by simp [Target.toks]⟩
  case stdioHostPort b rh rp =>
    exact ⟨[⟨kwStdio, b⟩, rh.tok], rp.tok, rfl, render_no_slash (port_text_facts ht.2.2).2.2.2.1, by simp [Target.toks]⟩
  case unixPort path rp => exact ⟨[unixTok path], rp.tok, rfl, render_no_slash (port_text_facts ht.2.2).2.2.2.1, by simp [Target.toks]⟩
  case unixHostPort path rh rp =>
    exact ⟨[unixTok path, rh.tok], rp.tok, rfl, render_no_slash (port_text_facts ht.2.2.2).2.2.2.1, by simp [Target.toks]⟩

/-- A text of tokens joined with `:` whose last token has no `/`, with an optional suffix. -/
theorem parse_form (o : Oracle) {toks init : List Tok} {last : Tok} (hw : ∀ t ∈ toks, t.WF)
    (he : toks = init ++ [last]) (hlast : '/' ∉ last.render) (hl : toks.length ≤ 4) (sfx : Suffix) (hs : sfx.OK o) :
    parse o (joinToks toks ++ sfx.text) = finish o sfx.proto (toks.map (·.text)) := by
  have hne : toks ≠ [] := by rw [he]; simp
  cases sfx with
  | none =>
    simp only [Suffix.text, List.append_nil, Suffix.proto]
    exact parse_join_plain o hw hne hl (he ▸ no_suffix_of_last init last hlast)
  | some ptxt proto =>
    obtain ⟨h1, h2, h3⟩ := hs
    exact parse_join_suffix o hw hne hl h1 h2 h3

/-- Fixed-target forms: the listener and the target are the ones written (or the documented
    defaults), hosts arrive as `idna` returns them for the text WITHOUT brackets, ports have the value
    written, the protocol is the one of the suffix (tcp without one); a unix socket with udp is refused. -/
theorem target_spec (o : Oracle) (t : Target) (sfx : Suffix) (ht : t.OK o) (hs : sfx.OK o) :
    parse o (joinToks t.toks ++ sfx.text) =
      if t.isUnix = true ∧ sfx.proto = .udp then .error (.err (.unsupportedCombination .unixUdp))
      else .ok (t.expected sfx.proto) := by
  obtain ⟨init, rp, he, hlast, hl⟩ := target_toks_last ht
  rw [parse_form o (target_toks_wf ht) he hlast hl sfx hs]
  exact finish_target o sfx.proto t ht

/-! ### Entry-kind forms -/

inductive Kind where
  | socks
  | http
  | tproxy
  deriving DecidableEq, Repr

def Kind.kw : Kind → Str
  | .socks => kwSocks
  | .http => kwHttp
  | .tproxy => kwTproxy

def Kind.spec : Kind → RemoteSpec
  | .socks => .socks
  | .http => .http
  | .tproxy => .tproxy

def Kind.defaultPort : Kind → Nat
  | .socks => remoteSocksDefaultPort
  | .http => remoteHttpDefaultPort
  | .tproxy => remoteTproxyDefaultPort

/-- `socks`, `PORT:socks`, `HOST:PORT:socks`, `stdio:socks`, `[unix:PATH]:socks` (and `http`, `tproxy`);
    `kb` / `sb`: the key word written in brackets (the tokenizer strips them). -/
inductive Entry where
  | bare (k : Kind) (kb : Bool)
  | port (lp : PortW) (k : Kind) (kb : Bool)
  | hostPort (lh : HostW) (lp : PortW) (k : Kind) (kb : Bool)
  | stdio (sb : Bool) (k : Kind) (kb : Bool)
  | unix (path : Str) (k : Kind) (kb : Bool)

def Entry.toks : Entry → List Tok
  | .bare k kb => [⟨k.kw, kb⟩]
  | .port lp k kb => [lp.tok, ⟨k.kw, kb⟩]
  | .hostPort lh lp k kb => [lh.tok, lp.tok, ⟨k.kw, kb⟩]
  | .stdio sb k kb => [⟨kwStdio, sb⟩, ⟨k.kw, kb⟩]
  | .unix path k kb => [unixTok path, ⟨k.kw, kb⟩]

def Entry.OK (o : Oracle) : Entry → Prop
  | .bare _ _ => True
  | .port lp _ _ => lp.OK
  | .hostPort lh lp _ _ => lh.OK o ∧ lp.OK ∧ lh.tok.text ≠ kwStdio
  | .stdio _ _ _ => True
  | .unix path _ _ => ']' ∉ path

def Entry.kind : Entry → Kind
  | .bare k _ => k | .port _ k _ => k | .hostPort _ _ k _ => k | .stdio _ k _ => k | .unix _ k _ => k

/-- The listening side. -/
def Entry.local : Entry → LocalSpec
  | .bare k _ => .inet defaultLocal k.defaultPort
  | .port lp _ _ => .inet defaultLocal lp.val
  | .hostPort lh lp _ _ => .inet lh.ascii lp.val
  | .stdio _ _ _ => .stdio
  | .unix path _ _ => .domainSocket path

/-- What must come out: the entry kind written, listening where written (or on the documented
    default), or the refusal the code gives, in the order the code checks. -/
def Entry.expected (proto : Protocol) (e : Entry) : Except Fail Remote :=
  match e.local, e.kind with
  | .stdio, .tproxy => .error (.err (.unsupportedCombination .stdioTproxy))
  | l, k =>
    if k ≠ .tproxy ∧ proto = .udp then .error (.err (.unsupportedCombination .socksHttpUdp))
    else if l.isDomainSocket = true ∧ proto = .udp then .error (.err (.unsupportedCombination .unixUdp))
    else if l.isDomainSocket = true ∧ k = .tproxy then .error (.err (.unsupportedCombination .unixTproxy))
    else .ok ⟨l, k.spec, proto⟩

theorem kind_kw_facts (k : Kind) :
    isSpecial k.kw = true ∧ k.kw ≠ kwStdio ∧ '/' ∉ k.kw ∧ remoteSpecial k.kw = .ok k.spec ∧ k.kw ≠ [] ∧
      ']' ∉ k.kw ∧ ':' ∉ k.kw ∧ k.kw.head? ≠ some '[' := by
  cases k <;> decide

theorem kwTok_wf (k : Kind) (b : Bool) : Tok.WF ⟨k.kw, b⟩ := by
  obtain ⟨_, _, _, _, h1, h2, h3, h4⟩ := kind_kw_facts k
  cases b
  · exact ⟨h1, by simp only [Bool.false_eq_true, if_false]; exact ⟨h3, h4⟩⟩
  · exact ⟨h1, by simp only [if_true]; exact h2⟩

theorem finish_entry (o : Oracle) (proto : Protocol) (e : Entry) (he : e.OK o) :
    finish o proto (e.toks.map (·.text)) = e.expected proto := by
  cases e with
  | bare k kb =>
    cases k <;> cases proto <;>
      simp [finish, Entry.toks, Kind.kw, selectArm, show kwHttp ≠ kwSocks by decide, show kwTproxy ≠ kwSocks by decide,
        show kwTproxy ≠ kwHttp by decide, evalArm, Entry.expected, Entry.local, Entry.kind, Kind.defaultPort, Kind.spec,
        postChecks, LocalSpec.isDomainSocket]
  | port lp k kb =>
    obtain ⟨_, hp⟩ := he
    obtain ⟨_, g2, g3, _, g5⟩ := port_text_facts hp
    obtain ⟨k1, _, _, k4, _⟩ := kind_kw_facts k
    cases k <;> cases proto <;>
      simp [finish, Entry.toks, selectArm, g2, g3, k1, evalArm, g5, k4, bind, Except.bind, Entry.expected, Entry.local,
        Entry.kind, Kind.spec, postChecks, LocalSpec.isDomainSocket]
  | hostPort lh lp k kb =>
    obtain ⟨⟨_, hh⟩, ⟨_, hp⟩, hns⟩ := he
    obtain ⟨_, _, _, _, g5⟩ := port_text_facts hp
    obtain ⟨k1, _, _, k4, _⟩ := kind_kw_facts k
    cases k <;> cases proto <;>
      simp [finish, Entry.toks, selectArm, hns, k1, evalArm, g5, k4, domainOrBail_of hh, bind, Except.bind,
        Entry.expected, Entry.local, Entry.kind, Kind.spec, postChecks, LocalSpec.isDomainSocket]
  | stdio sb k kb =>
    cases k <;> cases proto <;>
      simp [finish, Entry.toks, Kind.kw, selectArm, show kwTproxy ≠ kwSocks by decide, show kwTproxy ≠ kwHttp by decide,
        evalArm, remoteSpecial_socks, remoteSpecial_http, bind, Except.bind, Entry.expected, Entry.local, Entry.kind,
        Kind.spec, postChecks, LocalSpec.isDomainSocket]
  | unix path k kb =>
    obtain ⟨k1, _, _, k4, _⟩ := kind_kw_facts k
    cases k <;> cases proto <;>
      simp [finish, Entry.toks, unixTok_text, selectArm, unix_ne_stdio, k1, isUnix_unix, udsPath_unix, evalArm, k4, bind,
        Except.bind, Entry.expected, Entry.local, Entry.kind, Kind.spec, postChecks, LocalSpec.isDomainSocket]

theorem entry_toks_wf {o : Oracle} {e : Entry} (he : e.OK o) : ∀ x ∈ e.toks, x.WF := by
  intro x hx
  cases e <;> simp [Entry.toks] at hx <;> simp only [Entry.OK, PortW.OK, HostW.OK] at he
  case bare => subst hx; exact kwTok_wf _ _
  case port => rcases hx with rfl | rfl; exact he.1; exact kwTok_wf _ _
  case hostPort => rcases hx with rfl | rfl | rfl; exact he.1.1; exact he.2.1.1; exact kwTok_wf _ _
  case stdio => rcases hx with rfl | rfl; exact stdioTok_wf _; exact kwTok_wf _ _
  case unix => rcases hx with rfl | rfl; exact unixTok_wf he; exact kwTok_wf _ _

theorem entry_toks_last (e : Entry) :
    ∃ init last, e.toks = init ++ [last] ∧ '/' ∉ last.render ∧ e.toks.length ≤ 4 := by
  cases e
  case bare k kb => exact ⟨[], ⟨k.kw, kb⟩, rfl, render_no_slash (kind_kw_facts k).2.2.1, by simp [Entry.toks]⟩
  case port lp k kb => exact ⟨[lp.tok], ⟨k.kw, kb⟩, rfl, render_no_slash (kind_kw_facts k).2.2.1, by simp [Entry.toks]⟩
  case hostPort lh lp k kb =>
    exact ⟨[lh.tok, lp.tok], ⟨k.kw, kb⟩, rfl, render_no_slash (kind_kw_facts k).2.2.1, by simp [Entry.toks]⟩
  case stdio sb k kb => exact ⟨[⟨kwStdio, sb⟩], ⟨k.kw, kb⟩, rfl, render_no_slash (kind_kw_facts k).2.2.1, by simp [Entry.toks]⟩
  case unix path k kb => exact ⟨[unixTok path], ⟨k.kw, kb⟩, rfl, render_no_slash (kind_kw_facts k).2.2.1, by simp [Entry.toks]⟩

/-- `socks` / `http` / `tproxy` as the last token select exactly that entry kind, listening where
    written or on the documented default, and the combinations the code refuses are refused with
    exactly the error it gives. -/
theorem entry_spec (o : Oracle) (e : Entry) (sfx : Suffix) (he : e.OK o) (hs : sfx.OK o) :
    parse o (joinToks e.toks ++ sfx.text) = e.expected sfx.proto := by
  obtain ⟨init, last, hl, hlast, hlen⟩ := entry_toks_last e
  rw [parse_form o (entry_toks_wf he) hl hlast hlen sfx hs]
  exact finish_entry o sfx.proto e he

end Penguin.RemoteSpec
