/-
From the endpoint model to the pair of bind views: the observers' records along a run of
`Model/PairAll.lean` (`runB`), and the invariant `Inv` of `Lemmas/BindAllInv.lean` in every reachable state.
Core Lean only.
-/
import Penguin.Lemmas.BindAllInv
import Penguin.Lemmas.BindAllSimApp
import Penguin.Lemmas.BindAllSimTask

namespace Penguin.BindAll
open Penguin.Mux Penguin.PairAll
open Penguin.PairAll (inMsgs inMsgs_append wireMsgs)

/-! ### Sequences of small steps -/

theorem BStar.rng_suffix {v v' : BV} {ws : List Msg} {gs : List BEv} (h : BStar v v' ws gs) : v'.rng <:+ v.rng := by
  induction h with
  | refl v => exact List.suffix_refl _
  | step st _ ih => exact ih.trans st.rng_suffix

theorem actL_trans (c : BC) (v1 v2 : BV) (w1 w2 : List Msg) (g1 g2 : List BEv) :
    (c.actL v1 w1 g1).actL v2 w2 g2 = c.actL v2 (w1 ++ w2) (g1 ++ g2) := by
  cases c with
  | mk a b ab ba abo bao ga gb => cases abo <;> simp [BC.actL]

theorem actL_nil (c : BC) : c.actL c.a [] [] = c := by
  cases c with
  | mk a b ab ba abo bao ga gb => cases abo <;> simp [BC.actL]

/-- A sequence of small steps of the left side. -/
theorem Inv.starL {c : BC} {v : BV} {ws : List Msg} {gs : List BEv} (h : Inv c) (st : BStar c.a v ws gs) (hn : v.rng ≠ []) :
    Inv (c.actL v ws gs) := by
  generalize hva : c.a = va at st
  induction st generalizing c with
  | refl v => subst hva; rw [actL_nil]; exact h
  | @step v0 v1 v2 w1 w2 g1 g2 s rest ih =>
    subst hva
    have hn1 : v1.rng ≠ [] := by
      intro h0
      have := rest.rng_suffix
      rw [h0] at this
      exact hn (List.suffix_nil.mp this)
    have h1 := h.act s hn1
    have h2 := ih h1 hn rfl
    rw [actL_trans] at h2
    exact h2

/-- A sequence of small steps of the right side. -/
theorem Inv.starR {c : BC} {v : BV} {ws : List Msg} {gs : List BEv} (h : Inv c) (st : BStar c.b v ws gs) (hn : v.rng ≠ []) :
    Inv (c.swap.actL v ws gs).swap :=
  (h.swap.starL st hn).swap

/-! ### The observers' records along a run -/

/-- The observer's record after one stimulus of the endpoint model. -/
def bgStep (e : EP) (g : List BEv) (op : Mux.Op) : List BEv :=
  g ++ (callEvs e op (applyOp e op).2.1 ++ doneEvs (applyOp e op).2.2)

/-- The stimulus of the endpoint model a stimulus of the pair applies at the left endpoint. -/
def stimOp (p : PS) : Stim → Mux.Op
  | .call op => op
  | .deliver => match p.ba with
    | [] => .deliver .eof    -- not enabled
    | m :: _ => .deliver (.msg m)
  | .cut eof => .deliver (if eof then .eof else .err)

/-- A state of the pair with the two observers' records. -/
structure PB where
  p : PS
  ha : List BEv := []
  hb : List BEv := []

/-- One stimulus of the pair; the acting side's observer extends its record. -/
def stepB (q : PB) (s : Side) (st : Stim) : PB :=
  match s with
  | .A => match stepL q.p st with
    | some p' => { p := p', ha := bgStep q.p.a q.ha (stimOp q.p st), hb := q.hb }
    | none => q
  | .B => match stepL q.p.swap st with
    | some p' => { p := p'.swap, ha := q.ha, hb := bgStep q.p.b q.hb (stimOp q.p.swap st) }
    | none => q

def runB (q : PB) : List (Side × Stim) → PB
  | [] => q
  | (s, st) :: rest => runB (stepB q s st) rest

theorem stepB_p (q : PB) (s : Side) (st : Stim) : (stepB q s st).p = (step q.p s st).getD q.p := by
  cases s with
  | A => simp only [stepB, step]; cases stepL q.p st <;> rfl
  | B => simp only [stepB, step]; cases stepL q.p.swap st <;> rfl

/-- The run with records is the run of `Model/PairAll.lean`. -/
theorem runB_p (q : PB) (l : List (Side × Stim)) : (runB q l).p = run q.p l := by
  induction l generalizing q with
  | nil => rfl
  | cons a l ih => obtain ⟨s, st⟩ := a; simp only [runB, run]; rw [ih, stepB_p]

/-! ### One stimulus of one endpoint, as small steps of its bind view -/

theorem applyOp_evs' (e : EP) (op : Mux.Op) : (applyOp e op).2.2 = (opStep e op).2.2 ++ (Mux.settle (opStep e op).1).2 := rfl

/-- An application call (or local event), then the task's run to quiescence. -/
theorem bstar_call (e : EP) (op : Mux.Op) (hc : isCall op = true) :
    BStar (bview e e.inbox) (bview (applyOp e op).1 (applyOp e op).1.inbox) (wireMsgs (applyOp e op).2.2)
      (callEvs e op (applyOp e op).2.1 ++ doneEvs (applyOp e op).2.2) := by
  have s1 := BSim.opStep e op hc
  have s2 := BSim.settle (opStep e op).1
  rw [opStep_call_inbox' e op hc] at s2
  have s := s1.trans s2
  refine (s.evs (applyOp_evs' e op)).gs ?_
  rw [applyOp_evs', doneEvs_append, List.append_assoc]; rfl

theorem opStep_deliver_evs (e : EP) (w : WsIn) : (opStep e (.deliver w)).2.2 = [] := by
  simp only [Mux.opStep]
  split
  · rfl
  · split <;> rfl

/-- After a delivery has been appended to the inbox: the task's run to quiescence. -/
theorem bstar_deliver (e : EP) (w : WsIn) :
    BStar (bview (opStep e (.deliver w)).1 (opStep e (.deliver w)).1.inbox)
      (bview (applyOp e (.deliver w)).1 (applyOp e (.deliver w)).1.inbox) (wireMsgs (applyOp e (.deliver w)).2.2)
      (callEvs e (.deliver w) (applyOp e (.deliver w)).2.1 ++ doneEvs (applyOp e (.deliver w)).2.2) := by
  have s2 := BSim.settle (opStep e (.deliver w)).1
  have hev : (applyOp e (.deliver w)).2.2 = (Mux.settle (opStep e (.deliver w)).1).2 := by
    rw [applyOp_evs', opStep_deliver_evs]; rfl
  have hc : callEvs e (.deliver w) (applyOp e (.deliver w)).2.1 = [] := rfl
  rw [hc, List.nil_append, hev]
  exact s2

/-- Whether the endpoint ignores deliveries. -/
def deafE (e : EP) : Bool := e.srcEnded || e.inbox.any (fun x => x == .eof || x == .err)

/-- … which is what the bind view shows (`deafV`). -/
theorem deafE_eq (e : EP) : deafE e = deafV (bview e e.inbox) := rfl

theorem bview_deliver_msg (e : EP) (m : Msg) (hm : m ≠ .close) :
    bview (opStep e (.deliver (.msg m))).1 (opStep e (.deliver (.msg m))).1.inbox =
      { bview e e.inbox with inbox := if deafE e then e.inbox else e.inbox ++ [.msg m] } := by
  simp only [Mux.opStep, deafE]
  split
  · rename_i h; simp [bview, h]
  · rename_i h
    cases m with
    | close => exact absurd rfl hm
    | frame f => simp [bview, h]
    | ping => simp [bview, h]
    | pong => simp [bview, h]

theorem bview_deliver_close (e : EP) :
    bview (opStep e (.deliver (.msg .close))).1 (opStep e (.deliver (.msg .close))).1.inbox =
      { bview e e.inbox with inbox := if deafE e then e.inbox else e.inbox ++ [.msg .close, .eof] } := by
  simp only [Mux.opStep, deafE]
  split
  · rename_i h; simp [bview, h]
  · rename_i h; simp [bview, h]

theorem bview_deliver_end (e : EP) (w : WsIn) (hw : w = .eof ∨ w = .err) :
    bview (opStep e (.deliver w)).1 (opStep e (.deliver w)).1.inbox =
      { bview e e.inbox with inbox := if deafE e then e.inbox else e.inbox ++ [w] } := by
  simp only [Mux.opStep, deafE]
  split
  · rename_i h; simp [bview, h]
  · rename_i h
    rcases hw with rfl | rfl <;> simp [bview, h]

end Penguin.BindAll
