/-
The link model's actions are the endpoint model's functions projected onto one stream object:
one lemma per action, stating what the endpoint function does to the object the handle / the flow's
slot refers to and which frame it emits — clause by clause the definition of `Link.step`.
-/
import Penguin.Model.Mux
import Penguin.Model.Link
import Penguin.Lemmas.MuxBasic

namespace Penguin.Mux

/-- `Link.step (.write d)`: BrokenPipe once finished; an empty write is a no-op (either way only the
    'a write call is waiting' flag is cleared); without credit the
    call is pending and only the waker registration changes; otherwise exactly one unit of credit is
    taken and exactly one `Push` with the whole payload is queued. -/
theorem appWrite_glue (e : EP) (h i : Nat) (o : Obj) (d : Bytes)
    (hh : e.handles[h]? = some i) (ho : e.objs[i]? = some o) :
    (o.finishSent = true →
        (appWrite e h d).2 = .brokenPipe ∧ (appWrite e h d).1.outq = e.outq ∧
        (appWrite e h d).1.objs[i]? = some { o with parked := false }) ∧
    (o.finishSent = false → d = [] →
        (appWrite e h d).2 = .wrote 0 ∧ (appWrite e h d).1.outq = e.outq ∧
        (appWrite e h d).1.objs[i]? = some { o with parked := false }) ∧
    (o.finishSent = false → d ≠ [] → o.credit = 0 →
        (appWrite e h d).2 = .pending ∧ (appWrite e h d).1.outq = e.outq ∧
        (appWrite e h d).1.objs[i]? = some { o with parked := true, woken := false }) ∧
    (o.finishSent = false → d ≠ [] → o.credit ≠ 0 → e.outClosed = false →
        (appWrite e h d).2 = .wrote d.length ∧
        (appWrite e h d).1.outq = e.outq ++ [.frame (.push o.fid d)] ∧
        (appWrite e h d).1.objs[i]? = some { o with credit := o.credit - 1, parked := false }) := by
  have hobj : e.handleObj h = some (i, o) := by simp [EP.handleObj, hh, ho]
  refine ⟨?_, ?_, ?_, ?_⟩
  · intro hf; simp [appWrite, hobj, hf, modObj_get_self, ho]
  · intro hf hd; subst hd; simp [appWrite, hobj, hf, modObj_get_self, ho]
  · intro hf hd hc
    have hde : d.isEmpty = false := by cases d <;> simp_all
    simp [appWrite, hobj, hf, hde, hc, modObj_get_self, ho]
  · intro hf hd hc hoc
    have hde : d.isEmpty = false := by cases d <;> simp_all
    simp [appWrite, hobj, hf, hde, hc, hoc, EP.enqFrame, enq_outq, modObj_get_self, ho]

/-- `Link.step .deliver` for a `Push`: queued if the window has room; on overrun the flow is closed
    (`processFrame_overrun`); a flow whose reader side is closed answers with `Reset`. -/
theorem processFrame_push_glue (e : EP) (fid i : Nat) (o : Obj) (d : Bytes) (ig : Bool)
    (hs : lookup e.flows fid = some (.established i)) (ho : e.objs[i]? = some o)
    (halive : o.senderAlive = true) (hopen : o.rxOpen = true) (hroom : o.rxq.length < o.cap) :
    (processFrame e (.push fid d) ig).1.objs[i]? = some { o with rxq := o.rxq ++ [d] } ∧
    (processFrame e (.push fid d) ig).1.outq = e.outq ∧
    (processFrame e (.push fid d) ig).1.flows = e.flows := by
  have ho' : e.obj? i = some o := ho
  simp [processFrame, hs, ho', halive, hopen, hroom, modObj_get_self, ho]

/-- `Link.step .deliverAck`: the credit grows by the acknowledged count (32-bit wrap-around, which
    the credit invariant shows never happens between conforming endpoints) and the writer is woken. -/
theorem processFrame_ack_glue (e : EP) (fid i n : Nat) (o : Obj) (ig : Bool)
    (hs : lookup e.flows fid = some (.established i)) (ho : e.objs[i]? = some o) :
    (processFrame e (.acknowledge fid n) ig).1.objs[i]? =
        some { o.wake with credit := (o.credit + n) % 4294967296 } ∧
    (processFrame e (.acknowledge fid n) ig).1.outq = e.outq ∧
    (processFrame e (.acknowledge fid n) ig).1.flows = e.flows := by
  simp [processFrame, hs, modObj_get_self, ho, Obj.wake]

/-- `Link.step .deliver` for `Finish`: the reader will see end-of-stream once its queue is drained;
    nothing else changes (the write direction stays usable: half-close). -/
theorem processFrame_finish_glue (e : EP) (fid i : Nat) (o : Obj) (ig : Bool)
    (hs : lookup e.flows fid = some (.established i)) (ho : e.objs[i]? = some o) :
    (processFrame e (.finish fid) ig).1.objs[i]? = some { o with senderAlive := false } ∧
    (processFrame e (.finish fid) ig).1.outq = e.outq ∧
    (processFrame e (.finish fid) ig).1.flows = e.flows := by
  simp [processFrame, hs, modObj_get_self, ho]

/-- `Link.countFrame`: the reader counts the frame and acknowledges at the threshold. -/
theorem ackStep_glue (e : EP) (i : Nat) (o : Obj) (ho : e.objs[i]? = some o) (hoc : e.outClosed = false) :
    (o.recvdSince + 1 ≥ o.threshold →
        (ackStep e i o).objs[i]? = some { o with recvdSince := 0 } ∧
        (ackStep e i o).outq = e.outq ++ [.frame (.acknowledge o.fid (o.recvdSince + 1))]) ∧
    (¬ o.recvdSince + 1 ≥ o.threshold →
        (ackStep e i o).objs[i]? = some { o with recvdSince := o.recvdSince + 1 } ∧
        (ackStep e i o).outq = e.outq) := by
  constructor
  · intro h; simp [ackStep, h, EP.enqFrame, enq_outq, hoc, modObj_get_self, ho]
  · intro h; simp [ackStep, h, modObj_get_self, ho]

/-- `Link.step .shutdown`: `Finish` is queued once; only the write flag of this object changes
    (the read direction is untouched: half-close). -/
theorem appShutdown_glue (e : EP) (h i : Nat) (o : Obj)
    (hh : e.handles[h]? = some i) (ho : e.objs[i]? = some o) (hoc : e.outClosed = false) :
    (o.finishSent = true →
        (appShutdown e h).2 = .unit ∧ (appShutdown e h).1.objs[i]? = some { o with parked := false } ∧
        (appShutdown e h).1.outq = e.outq) ∧
    (o.finishSent = false →
        (appShutdown e h).1.objs[i]? = some { o with finishSent := true, parked := false } ∧
        (appShutdown e h).1.outq = e.outq ++ [.frame (.finish o.fid)]) := by
  have hobj : e.handleObj h = some (i, o) := by simp [EP.handleObj, hh, ho]
  constructor
  · intro hf; simp [appShutdown, hobj, hf, modObj_get_self, ho]
  · intro hf; simp [appShutdown, hobj, hf, EP.enqFrame, enq_outq, hoc, modObj_get_self, ho]

end Penguin.Mux
