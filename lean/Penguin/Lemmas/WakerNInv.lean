/-
Lemmas/WakerNInv — the inductive invariant of `Model/WakerN` over whole states: every writer satisfies
`WInv` and `WOk` (for the state's view of the shared cells), credit conservation over the sum of all
writers' takes, the grants still to come, and the closed flag.
-/
import Penguin.Lemmas.WakerN

namespace Penguin.Lemmas.WakerN
open Penguin.Waker (PollResult ActorKind APc Actor WPc)
open Penguin.WakerN
open Penguin.Lemmas.Waker (pCloserMid pCloserDone pAckerMid countP_set_add countP_map_write)

/-- `WOk` for the state's own view of the shared cells -/
def View (s : State) (w : Writer) : Prop :=
  WOk s.wakeLog.length s.registered.isSome (s.actors.countP pCloserDone) (s.actors.countP pAckerMid) s.credit w

structure Inv (sc : Scenario) (s : State) : Prop where
  winv : ∀ (j : Nat) (w : Writer), s.writers[j]? = some w → WInv w
  wok : ∀ (j : Nat) (w : Writer), s.writers[j]? = some w → View s w
  conservation : s.credit + totalTakes s = sc.credit + s.grants
  grants : s.grants + grantsToCome s = sc.ackTotal
  closed_iff : s.closed = true ↔
    0 < s.actors.countP pCloserMid + s.actors.countP pCloserDone + s.shutdownsDone
  shutdowns : s.shutdownsLeft + s.shutdownsDone = sc.shutdowns

theorem init_inv (sc : Scenario) : Inv sc (init sc) := by
  have h1 := countP_map_write pCloserMid (by intro k; simp [pCloserMid]) sc.actors
  have h2 := countP_map_write pCloserDone (by intro k; simp [pCloserDone]) sc.actors
  refine ⟨?_, ?_, ?_, ?_, ?_, by simp [init]⟩
  · intro j w h
    simp only [init, List.getElem?_map] at h
    cases hj : sc.writers[j]? <;> simp [hj] at h
    subst h; exact initWriter_winv _
  · intro j w h
    simp only [init, List.getElem?_map] at h
    cases hj : sc.writers[j]? <;> simp [hj] at h
    subst h; exact initWriter_wok _ _ _ _ _
  · simp only [init, totalTakes]
    have : ∀ l : List Nat, ((l.map initWriter).map (·.takes.length)).sum = 0 := by
      intro l; induction l <;> simp_all [initWriter]
    rw [this]
  · simp only [init, Scenario.ackTotal, grantsToCome]
    generalize sc.actors = l
    induction l with
    | nil => simp
    | cons a l ih => simp_all [grantToCome]
  · simp [init, h1, h2]

/-! ### A writer's operation -/

theorem next_takes (w : Writer) (closed : Bool) (credit wakes : Nat) :
    (w.next closed credit wakes).takes.length = w.takes.length + (if w.pc = .cas credit then 1 else 0) := by
  unfold Writer.next
  cases hpc : w.pc <;> simp only [] <;> (repeat' split) <;>
    first
    | (simp_all; done)
    | (unfold Writer.finishPoll; split <;> simp_all)

theorem writer_inv {sc : Scenario} {s : State} (h : Inv sc s) (i : Nat) : Inv sc (writerStep s i) := by
  cases hw : s.writers[i]? with
  | none => rw [writerStep_none hw]; exact h
  | some w0 =>
    rw [writerStep_some hw]
    obtain ⟨h1, h2, h3, h4, h5, h6⟩ := h
    have hw0 := h1 i w0 hw
    have hv0 := h2 i w0 hw
    refine ⟨?_, ?_, ?_, h4, h5, h6⟩
    · intro j w hj
      rcases getElem?_set_cases hj with ⟨_, rfl⟩ | ⟨_, hj'⟩
      · exact next_winv hw0 _ _ _
      · exact h1 j w hj'
    · intro j w hj
      rcases getElem?_set_cases hj with ⟨_, rfl⟩ | ⟨_, hj'⟩
      · have hcl : s.closed = false → s.actors.countP pCloserDone = 0 := by
          intro hc
          have : ¬ (0 < s.actors.countP pCloserMid + s.actors.countP pCloserDone + s.shutdownsDone) := by
            rw [← h5]; simp [hc]
          omega
        have := next_wok hv0 s.closed hcl
        have e : (if w0.pc = WPc.register then some (i, w0.cur) else s.registered).isSome
            = (s.registered.isSome || w0.pc == .register) := by
          cases hpc : w0.pc <;> simp
        simp only [View]
        rw [e]
        exact this
      · have := h2 j w hj'
        simp only [View]
        refine wok_mono this ?_ ?_
        · intro hs; split <;> simp_all
        · split <;> omega
    · have hs := sum_map_set (fun w : Writer => w.takes.length) s.writers i w0
        (w0.next s.closed s.credit s.wakeLog.length) hw
      simp only [totalTakes] at h3 ⊢
      rw [next_takes] at hs
      split
      · next hc =>
        have := hw0.cas_pos _ hc
        simp only [hc, if_true] at hs
        omega
      · next hc =>
        simp only [hc, if_false] at hs
        omega

/-! ### The actors' operations -/

theorem actor_ack_write {sc : Scenario} {s : State} (h : Inv sc s) (i n : Nat)
    (ha : s.actors[i]? = some ⟨.ack n, .write⟩) :
    Inv sc { s with credit := s.credit + n, grants := s.grants + n,
                    actors := s.actors.set i ⟨.ack n, .wake⟩ } := by
  have hm := countP_set_add pCloserMid s.actors i _ ⟨.ack n, .wake⟩ ha
  have hd := countP_set_add pCloserDone s.actors i _ ⟨.ack n, .wake⟩ ha
  have hk := countP_set_add pAckerMid s.actors i _ ⟨.ack n, .wake⟩ ha
  have hg := sum_map_set grantToCome s.actors i _ ⟨.ack n, .wake⟩ ha
  have e1 : grantToCome ⟨.ack n, .write⟩ = n := rfl
  have e2 : grantToCome ⟨.ack n, .wake⟩ = 0 := rfl
  rw [e1, e2] at hg
  simp [pCloserMid, pCloserDone, pAckerMid, Actor.isCloser] at hm hd hk
  obtain ⟨h1, h2, h3, h4, h5, h6⟩ := h
  refine ⟨h1, ?_, ?_, ?_, ?_, h6⟩
  · intro j w hj
    have := wok_ack (h2 j w hj) n
    simpa [View, hd, hk] using this
  · simp only [totalTakes] at h3 ⊢; omega
  · simp only [grantsToCome] at h4 ⊢; omega
  · simp only [hm, hd]; exact h5

theorem actor_close_write {sc : Scenario} {s : State} (h : Inv sc s) (i : Nat)
    (ha : s.actors[i]? = some ⟨.close, .write⟩) :
    Inv sc { s with closed := true, actors := s.actors.set i ⟨.close, .wake⟩ } := by
  have hm := countP_set_add pCloserMid s.actors i _ ⟨.close, .wake⟩ ha
  have hd := countP_set_add pCloserDone s.actors i _ ⟨.close, .wake⟩ ha
  have hk := countP_set_add pAckerMid s.actors i _ ⟨.close, .wake⟩ ha
  have hg := sum_map_set grantToCome s.actors i _ ⟨.close, .wake⟩ ha
  have e1 : grantToCome ⟨.close, .write⟩ = 0 := rfl
  have e2 : grantToCome ⟨.close, .wake⟩ = 0 := rfl
  rw [e1, e2] at hg
  simp [pCloserMid, pCloserDone, pAckerMid, Actor.isCloser] at hm hd hk
  obtain ⟨h1, h2, h3, h4, h5, h6⟩ := h
  refine ⟨h1, ?_, h3, ?_, ?_, h6⟩
  · intro j w hj
    have := h2 j w hj
    simpa [View, hd, hk] using this
  · simp only [grantsToCome] at h4 ⊢; omega
  · simp only [hm, hd]; constructor
    · intro _; omega
    · intro _; trivial

theorem actor_wake {sc : Scenario} {s : State} (h : Inv sc s) (i : Nat) (k : ActorKind)
    (ha : s.actors[i]? = some ⟨k, .wake⟩) :
    Inv sc (doWake { s with actors := s.actors.set i ⟨k, .done⟩ }) := by
  have hm := countP_set_add pCloserMid s.actors i _ ⟨k, .done⟩ ha
  have hd := countP_set_add pCloserDone s.actors i _ ⟨k, .done⟩ ha
  have hg := sum_map_set grantToCome s.actors i _ ⟨k, .done⟩ ha
  obtain ⟨h1, h2, h3, h4, h5, h6⟩ := h
  have h5' : s.closed = true ↔
      0 < (s.actors.set i ⟨k, .done⟩).countP pCloserMid + (s.actors.set i ⟨k, .done⟩).countP pCloserDone
        + s.shutdownsDone := by
    rw [h5]
    cases k <;> simp [pCloserMid, pCloserDone, Actor.isCloser] at hm hd ⊢ <;> omega
  have h4' : s.grants + ((s.actors.set i ⟨k, .done⟩).map grantToCome).sum = sc.ackTotal := by
    simp only [grantsToCome] at h4
    have e1 : grantToCome ⟨k, .wake⟩ = 0 := rfl
    have e2 : grantToCome ⟨k, .done⟩ = 0 := rfl
    rw [e1, e2] at hg; omega
  unfold doWake
  cases hr : s.registered with
  | none =>
    refine ⟨h1, ?_, h3, h4', h5', h6⟩
    intro j w hj
    have := h2 j w hj
    simp only [View, hr, Option.isSome_none] at this ⊢
    exact wok_wake_none this
  | some x =>
    refine ⟨h1, ?_, h3, h4', h5', h6⟩
    intro j w hj
    have := h2 j w hj
    simp only [View, List.length_cons, Option.isSome_none]
    exact wok_wake_some this

theorem actor_inv {sc : Scenario} {s : State} (h : Inv sc s) (i : Nat) : Inv sc (actorStep s i) := by
  unfold actorStep
  split
  · exact h
  · next a ha =>
    obtain ⟨kind, pc⟩ := a
    cases pc with
    | write =>
      cases kind with
      | ack n => exact actor_ack_write h i n ha
      | close => exact actor_close_write h i ha
    | wake => exact actor_wake h i kind ha
    | done => exact h

theorem spurious_inv {sc : Scenario} {s : State} (h : Inv sc s) (i : Nat) : Inv sc (spuriousStep s i) := by
  unfold spuriousStep
  split
  · exact h
  · next w0 hw =>
    split
    · next orig hpc =>
      obtain ⟨h1, h2, h3, h4, h5, h6⟩ := h
      have hw0 := h1 i w0 hw
      have hv0 := h2 i w0 hw
      refine ⟨?_, ?_, ?_, h4, h5, h6⟩
      · intro j w hj
        rcases getElem?_set_cases hj with ⟨_, rfl⟩ | ⟨_, hj'⟩
        · obtain ⟨a1, a2, a3, a4, a5, a6, a7⟩ := hw0
          clear hj
          constructor <;> simp_all [postReg, Writer.parked] <;> assumption
        · exact h1 j w hj'
      · intro j w hj
        rcases getElem?_set_cases hj with ⟨_, rfl⟩ | ⟨_, hj'⟩
        · obtain ⟨a1, a2, a3, a4⟩ := hv0
          clear hj
          constructor <;> simp_all [postReg, Writer.parked]
        · exact h2 j w hj'
      · have hs := sum_map_set (fun w : Writer => w.takes.length) s.writers i w0
          { w0 with pc := .loadCredit } hw
        simp only [totalTakes] at h3 ⊢
        simp only [] at hs
        omega
    · exact h

/-- A foreign `do_shutdown()`: the flag is set, nothing in the wake-up accounting moves (no `wake()` is
    owed by it and none is performed). -/
theorem shutdown_inv {sc : Scenario} {s : State} (h : Inv sc s) : Inv sc (shutdownStep s) := by
  unfold shutdownStep
  split
  · exact h
  · next n hn =>
    obtain ⟨h1, h2, h3, h4, h5, h6⟩ := h
    refine ⟨h1, h2, h3, h4, ?_, ?_⟩
    · simp only []; constructor
      · intro _; omega
      · intro _; trivial
    · simp only []; omega

/-- Every step preserves the invariant. -/
theorem step_inv {sc : Scenario} {s : State} (h : Inv sc s) (l : Label) : Inv sc (step s l) := by
  cases l with
  | writer i => exact writer_inv h i
  | casSpurious i => exact spurious_inv h i
  | actor i => exact actor_inv h i
  | shutdown => exact shutdown_inv h

theorem foldl_inv {sc : Scenario} (ls : List Label) :
    ∀ s, Inv sc s → Inv sc (ls.foldl step s) := by
  induction ls with
  | nil => intro s h; exact h
  | cons l ls ih => intro s h; exact ih _ (step_inv h l)

/-- The invariant holds in every reachable state of every scenario. -/
theorem run_inv (sc : Scenario) (ls : List Label) : Inv sc (run sc ls) :=
  foldl_inv ls _ (init_inv sc)

/-! ### Consequences -/

theorem winv_of_mem {sc : Scenario} {s : State} (h : Inv sc s) {w : Writer} (hw : w ∈ s.writers) : WInv w := by
  obtain ⟨j, hj⟩ := List.mem_iff_getElem?.mp hw
  exact h.winv j w hj

theorem view_of_mem {sc : Scenario} {s : State} (h : Inv sc s) {w : Writer} (hw : w ∈ s.writers) : View s w := by
  obtain ⟨j, hj⟩ := List.mem_iff_getElem?.mp hw
  exact h.wok j w hj

/-- frames sent + units held by writers about to send = successful decrements, summed over all writers -/
theorem sent_inflight_takes (ws : List Writer) (h : ∀ w ∈ ws, WInv w) :
    (ws.map (·.sent)).sum + ws.countP (·.pc == .send) = (ws.map (·.takes.length)).sum := by
  induction ws with
  | nil => rfl
  | cons w ws ih =>
    have hw := (h w (by simp)).sent_takes
    have := ih (fun v hv => h v (by simp [hv]))
    simp only [List.map_cons, List.sum_cons, List.countP_cons]
    by_cases e : w.pc = .send <;> simp [e] at hw ⊢ <;> omega

theorem results_count_some (w : Writer) (h : WInv w) : w.results.count .some = w.sent := by
  rw [← h.log_some]
  simp only [Writer.results, List.count_reverse]
  generalize w.log = l
  induction l with
  | nil => rfl
  | cons p l ih => simp only [List.map_cons, List.count_cons, List.countP_cons, ih]

theorem totalSome_eq_totalSent {sc : Scenario} {s : State} (h : Inv sc s) : totalSome s = totalSent s := by
  simp only [totalSome, totalSent]
  have : ∀ ws : List Writer, (∀ w ∈ ws, WInv w) →
      (ws.map fun w => w.results.count .some).sum = (ws.map (·.sent)).sum := by
    intro ws hws
    induction ws with
    | nil => rfl
    | cons w ws ih =>
      simp only [List.map_cons, List.sum_cons]
      rw [results_count_some w (hws w (by simp)), ih (fun v hv => hws v (by simp [hv]))]
  exact this _ (fun w hw => winv_of_mem h hw)

theorem totals {sc : Scenario} {s : State} (h : Inv sc s) : totalSent s + inFlight s = totalTakes s :=
  sent_inflight_takes s.writers (fun _ hw => winv_of_mem h hw)

/-- "the connection task has closed the stream" in terms of the counts of the invariant -/
theorem taskClosed_iff (s : State) :
    taskClosed s = true ↔ 0 < s.actors.countP pCloserMid + s.actors.countP pCloserDone := by
  simp only [taskClosed, List.any_eq_true]
  constructor
  · rintro ⟨a, ha, hp⟩
    simp only [Bool.and_eq_true, bne_iff_ne, ne_eq] at hp
    cases hpc : a.pc with
    | write => exact absurd hpc hp.2
    | wake =>
      have : 0 < s.actors.countP pCloserMid :=
        List.countP_pos_iff.mpr ⟨a, ha, by simp [pCloserMid, hp.1, hpc]⟩
      omega
    | done =>
      have : 0 < s.actors.countP pCloserDone :=
        List.countP_pos_iff.mpr ⟨a, ha, by simp [pCloserDone, hp.1, hpc]⟩
      omega
  · intro h
    have : 0 < s.actors.countP pCloserMid ∨ 0 < s.actors.countP pCloserDone := by omega
    rcases this with h | h <;> obtain ⟨a, ha, hp⟩ := List.countP_pos_iff.mp h
    · simp [pCloserMid] at hp
      exact ⟨a, ha, by simp [hp.1, hp.2]⟩
    · simp [pCloserDone] at hp
      exact ⟨a, ha, by simp [hp.1, hp.2]⟩

theorem taskCloseCompleted_iff (s : State) :
    taskCloseCompleted s = true ↔ 0 < s.actors.countP pCloserDone := by
  simp only [taskCloseCompleted, List.any_eq_true, List.countP_pos_iff, pCloserDone]

/-- Without foreign shutdowns the flag is set exactly when the connection task has closed the stream. -/
theorem closed_eq_taskClosed {sc : Scenario} {s : State} (h : Inv sc s) (hs : sc.shutdowns = 0) :
    s.closed = taskClosed s := by
  have h6 := h.shutdowns
  have h5 := h.closed_iff
  have ht := taskClosed_iff s
  have hd : s.shutdownsDone = 0 := by omega
  rw [hd, Nat.add_zero, ← ht] at h5
  cases hc : s.closed <;> cases htc : taskClosed s <;> simp_all

theorem finished_inFlight {s : State} (hf : allWritersFinished s = true) : inFlight s = 0 := by
  simp only [allWritersFinished, List.all_eq_true] at hf
  simp only [inFlight, List.countP_eq_zero]
  intro w hw
  have := hf w hw
  simp at this
  simp [this]

end Penguin.Lemmas.WakerN
