/-
Stream integrity for EVERY history of one endpoint with ANY peer: the ghost record of a history
(`runOpsG`) and the two invariants that tie it to the state.

* Receiver (`RInv`): for every stream object, (bytes returned by reads through its handle) ++ `buf` ++
  `rxq.flatten` ++ (what was queued when the handle was dropped) = the payloads of exactly the `Push`
  frames `process_frame` accepted into that object, in order.
* Sender (`SnT` from the fresh state): the `Push` frames handed to the transport, followed by those
  still queued, are a prefix of the (flow id, payload) of the writes that returned `wrote`, in order —
  and all of them while the outbound queue is open.

The record is made of observables only (results of calls, emitted events, and `process_frame`'s own
acceptance test evaluated on the state before each frame); nothing in it is chosen to fit.
Core Lean only.
-/
import Penguin.Lemmas.MuxIntegrityApp
import Penguin.Lemmas.MuxIntegritySendApp
import Penguin.Lemmas.MuxDest

namespace Penguin.Mux

/-- What an observer of one endpoint records along a history. -/
structure Ghost where
  /-- `(i, d)`: a `Push` with payload `d` was accepted into stream object `i` (`acceptedInto`). -/
  accepted : Log := []
  /-- `(i, bs)`: a read through a handle of object `i` returned `bs`. -/
  returned : Log := []
  /-- `(i, bs)`: the handle of object `i` was dropped while `bs` was queued unread. -/
  discarded : Log := []
  /-- `(i, x, d)`: a write of `d ≠ []` through a handle of object `i` (flow id `x`) returned `wrote`. -/
  wrote : List (Nat × Nat × Bytes) := []
  /-- Everything the endpoint emitted. -/
  evs : List Ev := []
deriving Repr

/-- One stimulus, with the record extended. -/
def stepG (e : EP) (g : Ghost) (op : Op) : EP × Ghost :=
  ((applyOp e op).1,
   { accepted := g.accepted ++ settleLog (opStep e op).1,
     returned := g.returned ++ returnedBy e op (applyOp e op).2.1,
     discarded := g.discarded ++ discardedBy e op,
     wrote := g.wrote ++ wroteBy e op (applyOp e op).2.1,
     evs := g.evs ++ (applyOp e op).2.2 })

/-- A history, with its record. -/
def runOpsG (e : EP) (g : Ghost) : List Op → EP × Ghost
  | [] => (e, g)
  | op :: rest => runOpsG (stepG e g op).1 (stepG e g op).2 rest

theorem runOpsG_fst (e : EP) (g : Ghost) (ops : List Op) : (runOpsG e g ops).1 = runOps e ops := by
  induction ops generalizing e g with
  | nil => rfl
  | cons op rest ih => simp only [runOpsG, runOps, List.foldl_cons]; exact ih _ _

theorem runOpsG_evs (e : EP) (g : Ghost) (ops : List Op) : (runOpsG e g ops).2.evs = g.evs ++ (runOpsEv e ops).2 := by
  induction ops generalizing e g with
  | nil => simp [runOpsG, runOpsEv]
  | cons op rest ih =>
    simp only [runOpsG, runOpsEv]
    rw [ih]; simp [stepG, List.append_assoc]

theorem applyOp_fst (e : EP) (op : Op) : (applyOp e op).1 = (settle (opStep e op).1).1 := rfl
theorem applyOp_res (e : EP) (op : Op) : (applyOp e op).2.1 = (opStep e op).2.1 := rfl

/-! ### Receiver -/

/-- For every object: returned ++ readable ++ discarded = accepted; and an object whose handle drop
    threw something away has a closed, empty receiver. -/
structure RInv (e : EP) (acc ret dis : Log) : Prop where
  eq : ∀ i, chunks ret i ++ str e i ++ chunks dis i = chunks acc i
  disc : ∀ i, chunks dis i ≠ [] → rxShut e i

theorem RInv.task {e e' : EP} {acc ret dis L : Log} (h : RInv e acc ret dis) (s : RxT e e' L) :
    RInv e' (acc ++ L) ret dis := by
  refine ⟨fun i => ?_, fun i hd => (s.shut i (h.disc i hd)).1⟩
  have hs : str e' i = str e i ++ chunks L i := s.str i
  rw [chunks_append, ← h.eq i, hs]
  by_cases hd : chunks dis i = []
  · simp [hd]
  · have := (s.shut i (h.disc i hd)).2
    simp [this]

theorem RInv.app {e e' : EP} {acc ret dis R D : Log} (h : RInv e acc ret dis) (s : RxA e e' R D) :
    RInv e' acc (ret ++ R) (dis ++ D) := by
  refine ⟨fun i => ?_, fun i hd => ?_⟩
  · rw [chunks_append, chunks_append, ← h.eq i, s.str i]
    by_cases hd : chunks dis i = []
    · simp [hd]
    · have := (s.shut i (h.disc i hd)).2
      simp [this]
  · rw [chunks_append] at hd
    by_cases h1 : chunks dis i = []
    · rw [h1, List.nil_append] at hd
      exact s.drop i hd
    · exact (s.shut i (h.disc i h1)).1

theorem RInv.step {e : EP} {g : Ghost} (h : RInv e g.accepted g.returned g.discarded) (op : Op) :
    RInv (stepG e g op).1 (stepG e g op).2.accepted (stepG e g op).2.returned (stepG e g op).2.discarded := by
  have h1 := h.app (RxA.opStep e op)
  exact h1.task (RxT.settle (opStep e op).1)

theorem RInv.run {e : EP} {g : Ghost} (h : RInv e g.accepted g.returned g.discarded) (ops : List Op) :
    RInv (runOpsG e g ops).1 (runOpsG e g ops).2.accepted (runOpsG e g ops).2.returned (runOpsG e g ops).2.discarded := by
  induction ops generalizing e g with
  | nil => exact h
  | cons op rest ih => exact ih (h.step op)

theorem RInv.init (o : Opts) : RInv { opts := o } [] [] [] :=
  ⟨fun i => by simp [str, strO], fun i h => absurd rfl h⟩

/-- Receiver integrity, every history, any peer. -/
theorem receiver_inv (o : Opts) (ops : List Op) :
    RInv (runOpsG { opts := o } {} ops).1 (runOpsG { opts := o } {} ops).2.accepted
      (runOpsG { opts := o } {} ops).2.returned (runOpsG { opts := o } {} ops).2.discarded :=
  RInv.run (g := {}) (RInv.init o) ops

/-! ### Which stimulus can make a log grow -/

theorem handleObj_handle {e : EP} {h i : Nat} {o : Obj} (hh : e.handleObj h = some (i, o)) : e.handles[h]? = some i := by
  unfold EP.handleObj at hh
  split at hh
  · cases hh
  · rename_i j hj
    split at hh
    · cases hh
    · simp at hh; rw [hj, hh.1]

/-- Bytes are attributed to object `i` as returned only by a `read` through a handle of `i`. -/
theorem returnedBy_spec (e : EP) (op : Op) (r : Res) (i : Nat) (bs : Bytes) (h : (i, bs) ∈ returnedBy e op r) :
    ∃ hd n, op = .read hd n ∧ r = .data bs ∧ e.handles[hd]? = some i := by
  cases op <;> try (simp [returnedBy] at h; done)
  rename_i hd n
  cases r <;> try (simp [returnedBy] at h; done)
  rename_i b
  simp only [returnedBy] at h
  cases hh : e.handleObj hd with
  | none => rw [hh] at h; simp at h
  | some p =>
    obtain ⟨j, o⟩ := p
    rw [hh] at h
    simp only [List.mem_cons, Prod.mk.injEq, List.not_mem_nil, or_false] at h
    obtain ⟨rfl, rfl⟩ := h
    exact ⟨hd, n, rfl, rfl, handleObj_handle hh⟩

/-- Bytes are attributed to object `i` as discarded only by dropping a handle of `i`. -/
theorem discardedBy_spec (e : EP) (op : Op) (i : Nat) (bs : Bytes) (h : (i, bs) ∈ discardedBy e op) :
    ∃ hd, op = .dropStream hd ∧ e.handles[hd]? = some i := by
  cases op <;> try (simp [discardedBy] at h; done)
  rename_i hd
  simp only [discardedBy] at h
  cases hh : e.handleObj hd with
  | none => rw [hh] at h; simp at h
  | some p =>
    obtain ⟨j, o⟩ := p
    rw [hh] at h
    simp only [List.mem_cons, Prod.mk.injEq, List.not_mem_nil, or_false] at h
    obtain ⟨rfl, rfl⟩ := h
    exact ⟨hd, rfl, handleObj_handle hh⟩

/-- A frame is accepted into object `i` only if it is a `Push` whose flow id is, at that moment, the id
    of the slot `Established i` — and then it is accepted into no other object. -/
theorem acceptedInto_spec (e : EP) (f : Frame) (i : Nat) (d : Bytes) (h : (i, d) ∈ acceptedInto e f) :
    ∃ fid, f = .push fid d ∧ lookup e.flows fid = some (.established i) ∧ acceptedInto e f = [(i, d)] := by
  cases f <;> try (simp [acceptedInto] at h; done)
  rename_i fid d'
  simp only [acceptedInto] at h ⊢
  cases hl : lookup e.flows fid with
  | none => rw [hl] at h; simp at h
  | some s =>
    rw [hl] at h
    cases s with
    | requested r => simp at h
    | bindRequested r => simp at h
    | established j =>
      simp only at h ⊢
      cases ho : e.obj? j with
      | none => rw [ho] at h; simp at h
      | some ob =>
        rw [ho] at h
        simp only at h ⊢
        split at h
        · rename_i hc
          simp only [List.mem_cons, Prod.mk.injEq, List.not_mem_nil, or_false] at h
          obtain ⟨rfl, rfl⟩ := h
          exact ⟨fid, rfl, hl, by simp [hc]⟩
        · simp at h

/-- No cross-talk: a frame accepted into object `i` leaves the readable bytes of every other object as
    they were. -/
theorem accepted_frame_touches_one_object (e : EP) (f : Frame) (ig : Bool) (i j : Nat) (d : Bytes)
    (h : (i, d) ∈ acceptedInto e f) (hj : j ≠ i) : str (processFrame e f ig).1 j = str e j := by
  obtain ⟨fid, _, _, hl⟩ := acceptedInto_spec e f i d h
  have := (RxT.processFrame e f ig).str j
  rw [hl, chunks_single_ne _ _ _ (Ne.symm hj), List.append_nil] at this
  exact this

/-- The readable bytes of an object change only by its own events: a stimulus during which nothing is
    accepted into object `i`, nothing is returned from it and nothing of it is discarded leaves its
    readable bytes exactly as they were — whatever happens to other streams, to the connection, whatever
    the peer sends. -/
theorem stream_changes_only_by_own_events (e : EP) (op : Op) (i : Nat)
    (ha : chunks (settleLog (opStep e op).1) i = [])
    (hr : chunks (returnedBy e op (applyOp e op).2.1) i = [])
    (hd : chunks (discardedBy e op) i = []) :
    str (applyOp e op).1 i = str e i := by
  have h1 := (RxA.opStep e op).str i
  have h2 : str (applyOp e op).1 i = str (opStep e op).1 i ++ chunks (settleLog (opStep e op).1) i :=
    (RxT.settle (opStep e op).1).str i
  rw [applyOp_res] at hr
  rw [hr, hd] at h1
  rw [ha] at h2
  simp only [List.nil_append, List.append_nil] at h1 h2
  rw [h2, h1]

/-- No handle was dropped: nothing was discarded. -/
theorem discarded_nil_of_no_drop (e : EP) (g : Ghost) (ops : List Op) (h : ∀ op ∈ ops, ∀ hd, op ≠ .dropStream hd) :
    (runOpsG e g ops).2.discarded = g.discarded := by
  induction ops generalizing e g with
  | nil => rfl
  | cons op rest ih =>
    simp only [runOpsG]
    rw [ih _ _ (fun op' hop => h op' (List.mem_cons_of_mem _ hop))]
    have : discardedBy e op = [] := by
      have hne := h op List.mem_cons_self
      cases op <;> first | rfl | exact absurd rfl (hne _)
    simp [stepG, this]

/-! ### Sender -/

theorem wroteFrames_append (a b : List (Nat × Nat × Bytes)) : wroteFrames (a ++ b) = wroteFrames a ++ wroteFrames b := by
  simp [wroteFrames]

theorem SnT.run (e0 e : EP) (g : Ghost) (h : SnT e0 e g.evs (wroteFrames g.wrote)) (ops : List Op) :
    SnT e0 (runOpsG e g ops).1 (runOpsG e g ops).2.evs (wroteFrames (runOpsG e g ops).2.wrote) := by
  induction ops generalizing e g with
  | nil => exact h
  | cons op rest ih =>
    simp only [runOpsG]
    refine ih _ _ ?_
    exact (h.trans (SnT.applyOp e op)).evs rfl (wroteFrames_append _ _)

/-- Sender integrity, every history, any peer. -/
theorem sender_inv (o : Opts) (ops : List Op) :
    pushesEv (runOpsG { opts := o } {} ops).2.evs ++ pushesQ (runOpsG { opts := o } {} ops).1.outq <+:
        wroteFrames (runOpsG { opts := o } {} ops).2.wrote ∧
    ((runOpsG { opts := o } {} ops).1.outClosed = false →
      pushesEv (runOpsG { opts := o } {} ops).2.evs ++ pushesQ (runOpsG { opts := o } {} ops).1.outq =
        wroteFrames (runOpsG { opts := o } {} ops).2.wrote) := by
  have h := SnT.run { opts := o } { opts := o } {} (SnT.refl _) ops
  exact ⟨by simpa [pushesQ] using h.pre, fun hc => by simpa [pushesQ] using h.eq hc⟩

/-- The flow id logged with a write is the id of the object behind the handle, which never changes. -/
theorem wrote_ids (e : EP) (g : Ghost) (ops : List Op)
    (h : ∀ w ∈ g.wrote, ∃ ob, e.objs[w.1]? = some ob ∧ ob.fid = w.2.1) :
    ∀ w ∈ (runOpsG e g ops).2.wrote, ∃ ob, (runOpsG e g ops).1.objs[w.1]? = some ob ∧ ob.fid = w.2.1 := by
  induction ops generalizing e g with
  | nil => exact h
  | cons op rest ih =>
    simp only [runOpsG]
    refine ih _ _ ?_
    intro w hw
    have hd := Dst.applyOp e op
    have key : ∃ ob, e.objs[w.1]? = some ob ∧ ob.fid = w.2.1 := by
      simp only [stepG, List.mem_append] at hw
      rcases hw with hw | hw
      · exact h w hw
      · cases op <;> try (simp [wroteBy] at hw; done)
        rename_i hh d
        generalize (Mux.applyOp e (.write hh d)).2.1 = r at hw
        cases r <;> try (simp [wroteBy] at hw; done)
        simp only [wroteBy] at hw
        split at hw
        · simp at hw
        · cases hho : e.handleObj hh with
          | none => rw [hho] at hw; simp at hw
          | some p =>
            obtain ⟨i, ob⟩ := p
            rw [hho] at hw
            simp only [List.mem_cons, List.not_mem_nil, or_false] at hw
            subst hw
            exact ⟨ob, handleObj_some hho, rfl⟩
    obtain ⟨ob, ho, hf⟩ := key
    obtain ⟨ob', ho', hi⟩ := hd.keep w.1 ob ho
    refine ⟨ob', ho', ?_⟩
    have : ob'.fid = ob.fid := congrArg Prod.fst hi
    rw [this, hf]

end Penguin.Mux
