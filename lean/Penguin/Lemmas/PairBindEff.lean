/-
Bind traffic in the pair model, part 1: what the endpoint model's functions do to the bind
components.  `BSame N e e'` says that going from `e` to `e'` received no bind request and emitted no
`Bind` frame, except for ids satisfying `N`: the flow ids the endpoint remembers as bind requests of
its peer (`bindIds`: parked hand-over, bind queue, requests handed to the application) do not grow,
and no `Bind` frame joins the outbound queue.  One lemma per function of `Penguin.Mux`; and the exact
effect of the functions that can meet the flow id of a bind request (`closeFlow`, `processFrame`, the
four bind calls) on the flow table and the stream objects.
-/
import Penguin.Lemmas.PairRecv

namespace Penguin.Pair
open Penguin.Mux

structure BSame (N : Nat → Prop) (e e' : EP) : Prop where
  ids : ∀ x, x ∈ bindIds e' → x ∈ bindIds e ∨ N x
  outq : ∃ em, e'.outq = e.outq ++ em ∧ ∀ m ∈ em, isBindMsg m = true → ∃ y, Msg.flow? m = some y ∧ N y

namespace BSame

theorem refl (N : Nat → Prop) (e : EP) : BSame N e e :=
  ⟨fun _ h => Or.inl h, [], by simp, by simp⟩

theorem trans {N : Nat → Prop} {a b c : EP} (s : BSame N a b) (t : BSame N b c) : BSame N a c := by
  obtain ⟨e1, h1, g1⟩ := s.outq
  obtain ⟨e2, h2, g2⟩ := t.outq
  refine ⟨?_, e1 ++ e2, by rw [h2, h1, List.append_assoc], ?_⟩
  · intro x hx
    rcases t.ids x hx with h | h
    · exact s.ids x h
    · exact Or.inr h
  · intro m hm hb
    rcases List.mem_append.mp hm with h | h
    · exact g1 m h hb
    · exact g2 m h hb

theorem after {N : Nat → Prop} {a b c : EP} (t : BSame N b c) (s : BSame N a b) : BSame N a c := s.trans t

theorem mono {N N' : Nat → Prop} {e e' : EP} (h : ∀ x, N x → N' x) (s : BSame N e e') : BSame N' e e' := by
  obtain ⟨em, h1, g1⟩ := s.outq
  refine ⟨fun x hx => (s.ids x hx).imp id (h x), em, h1, ?_⟩
  intro m hm hb
  obtain ⟨y, hy, hn⟩ := g1 m hm hb
  exact ⟨y, hy, h y hn⟩

/-- The remembered ids do not grow and the outbound queue is unchanged. -/
theorem of_ids {N : Nat → Prop} {e e' : EP} (h1 : ∀ x, x ∈ bindIds e' → x ∈ bindIds e) (h2 : e'.outq = e.outq) :
    BSame N e e' :=
  ⟨fun x hx => Or.inl (h1 x hx), [], by simp [h2], by simp⟩

theorem silent {N : Nat → Prop} {e e' : EP} (h1 : e'.bindq = e.bindq) (h2 : e'.held = e.held) (h3 : e'.park = e.park)
    (h4 : e'.outq = e.outq) : BSame N e e' :=
  of_ids (fun x hx => by unfold bindIds at *; rw [h1, h2, h3] at hx; exact hx) h4

theorem modObj {N : Nat → Prop} (e : EP) (i : Nat) (f : Obj → Obj) : BSame N e (e.modObj i f) :=
  silent rfl rfl rfl rfl

theorem enq {N : Nat → Prop} (e : EP) (m : Msg) (hm : isBindMsg m = false) : BSame N e (e.enq m) := by
  unfold EP.enq
  split
  · exact refl N e
  · refine ⟨fun _ h => Or.inl h, [m], rfl, ?_⟩
    intro m' hm' hb
    simp only [List.mem_singleton] at hm'
    subst hm'
    rw [hm] at hb; cases hb

theorem enqFrame {N : Nat → Prop} (e : EP) (f : Frame) (hf : isBindMsg (.frame f) = false) : BSame N e (e.enqFrame f) :=
  enq e _ hf

end BSame

/-! ### The endpoint model's functions -/

theorem BSame.openRejected (N : Nat → Prop) (e : EP) (req : Nat) (final : Bool) : BSame N e (openRejected e req final).1 := by
  unfold Mux.openRejected
  repeat' split
  all_goals exact BSame.silent rfl rfl rfl rfl

theorem BSame.closeLocal (N : Nat → Prop) (e : EP) (s : Slot) (fid : Nat) (inh final : Bool) :
    BSame N e (closeLocal e s fid inh final).1 := by
  unfold Mux.closeLocal
  cases s with
  | established i =>
    simp only
    cases e.obj? i with
    | none => exact BSame.refl N e
    | some o =>
      simp only
      split
      · exact BSame.after (BSame.enqFrame _ _ rfl) (BSame.modObj e i _)
      · exact BSame.modObj e i _
  | requested req => exact BSame.openRejected N e req final
  | bindRequested req => exact BSame.refl N e

theorem BSame.closeFlow (N : Nat → Prop) (e : EP) (fid : Nat) (inh : Bool) : BSame N e (closeFlow e fid inh).1 := by
  unfold Mux.closeFlow
  cases lookup e.flows fid with
  | none => exact BSame.refl N e
  | some s =>
    exact (BSame.silent rfl rfl rfl rfl : BSame N e { e with flows := erase e.flows fid }).trans
      (BSame.closeLocal N _ s fid inh false)

theorem mem_bindIds {e : EP} {x : Nat} :
    x ∈ bindIds e ↔ (∃ b ∈ e.bindq, b.fid = x) ∨ (∃ b ∈ e.held, b.fid = x) ∨ (∃ b, e.park = some (.bind b) ∧ b.fid = x) := by
  unfold bindIds
  simp only [List.mem_append, List.mem_map, or_assoc]
  refine or_congr Iff.rfl (or_congr Iff.rfl ?_)
  cases hp : e.park with
  | none => simp
  | some k =>
    cases k with
    | accept i => simp
    | bind b =>
      simp only [List.mem_singleton, Option.some.injEq, Park.bind.injEq]
      constructor
      · intro h; exact ⟨b, rfl, h.symm⟩
      · rintro ⟨b', rfl, h⟩; exact h.symm

theorem BSame.unpark (N : Nat → Prop) (e : EP) : BSame N e (unpark e) := by
  unfold Mux.unpark
  split
  · exact BSame.refl N e
  · rename_i i hp
    split
    · split
      · refine BSame.of_ids ?_ rfl
        intro x hx; rw [mem_bindIds] at hx ⊢
        simpa [hp, EP.modObj] using hx
      · refine BSame.of_ids ?_ rfl
        intro x hx; rw [mem_bindIds] at hx ⊢
        simpa [hp] using hx
    · split
      · refine BSame.of_ids ?_ rfl
        intro x hx; rw [mem_bindIds] at hx ⊢
        simpa [hp] using hx
      · exact BSame.refl N e
  · rename_i b hp
    split
    · refine BSame.after (BSame.enqFrame _ _ rfl) (BSame.of_ids ?_ rfl)
      intro x hx; rw [mem_bindIds] at hx ⊢
      rcases hx with hx | hx | ⟨b', hb', _⟩
      · exact Or.inl hx
      · exact Or.inr (Or.inl hx)
      · simp at hb'
    · split
      · refine BSame.of_ids ?_ rfl
        intro x hx; rw [mem_bindIds] at hx ⊢
        simp only [List.mem_append, List.mem_singleton] at hx
        rcases hx with ⟨b', hb' | hb', hf⟩ | hx | ⟨b', hb', _⟩
        · exact Or.inl ⟨b', hb', hf⟩
        · subst hb'; exact Or.inr (Or.inr ⟨b', hp, hf⟩)
        · exact Or.inr (Or.inl hx)
        · simp at hb'
      · exact BSame.refl N e

theorem BSame.openRound (N : Nat → Prop) (e : EP) (r : OpenReq) : BSame N e (openRound e r).1 := by
  unfold Mux.openRound
  split
  · exact BSame.silent rfl rfl rfl rfl
  · split
    · exact BSame.silent rfl rfl rfl rfl
    · simp only
      split
      · exact BSame.silent rfl rfl rfl rfl
      · exact BSame.after (BSame.enqFrame _ _ rfl) (BSame.silent rfl rfl rfl rfl)

theorem BSame.runRetries (N : Nat → Prop) (e : EP) (l : List Nat) : BSame N e (runRetries e l).1 := by
  induction l generalizing e with
  | nil => exact BSame.refl N e
  | cons req rest ih =>
    rw [Mux.runRetries]
    split
    · exact ih e
    · exact (BSame.openRound N e _).trans (ih _)

theorem BSame.runDone (N : Nat → Prop) (e : EP) (l : List (Nat × Nat)) : BSame N e (runDone e l).1 := by
  induction l generalizing e with
  | nil => exact BSame.refl N e
  | cons x rest ih =>
    obtain ⟨req, i⟩ := x
    rw [Mux.runDone]
    exact (BSame.silent rfl rfl rfl rfl : BSame N e { e with handles := e.handles ++ [i] }).trans (ih _)

theorem BSame.appAccept (N : Nat → Prop) (e : EP) : BSame N e (appAccept e).1 := by
  unfold Mux.appAccept
  repeat' split
  all_goals first | exact BSame.refl N e | exact BSame.silent rfl rfl rfl rfl

theorem BSame.appWrite (N : Nat → Prop) (e : EP) (h : Nat) (d : Bytes) : BSame N e (appWrite e h d).1 := by
  unfold Mux.appWrite
  repeat' split
  all_goals first
    | exact BSame.refl N e
    | exact BSame.modObj _ _ _
    | exact BSame.after (BSame.enqFrame _ _ rfl) (BSame.modObj _ _ _)

theorem BSame.ackStep (N : Nat → Prop) (e : EP) (i : Nat) (o : Obj) : BSame N e (ackStep e i o) := by
  unfold Mux.ackStep
  split
  · exact BSame.after (BSame.enqFrame _ _ rfl) (BSame.modObj _ _ _)
  · exact BSame.modObj _ _ _

theorem BSame.fillBuf (N : Nat → Prop) (fuel : Nat) (e : EP) (i : Nat) : BSame N e (fillBuf fuel e i).1 := by
  induction fuel generalizing e with
  | zero => exact BSame.refl N e
  | succ n ih =>
    unfold Mux.fillBuf
    split
    · exact BSame.refl N e
    · split
      · exact BSame.refl N e
      · split
        · split
          · exact BSame.after (ih _) (BSame.after (BSame.ackStep N _ _ _) (BSame.modObj _ _ _))
          · exact BSame.after (BSame.ackStep N _ _ _) (BSame.modObj _ _ _)
        · split
          · exact BSame.refl N e
          · exact BSame.modObj _ _ _

theorem BSame.appRead (N : Nat → Prop) (e : EP) (h n : Nat) : BSame N e (appRead e h n).1 := by
  unfold Mux.appRead
  split
  · exact BSame.refl N e
  · rename_i i o _
    have s1 := BSame.fillBuf N (o.rxq.length + 2) e i
    generalize Mux.fillBuf (o.rxq.length + 2) e i = r at s1
    obtain ⟨e1, res⟩ := r
    cases res <;> first | exact s1 | exact s1.trans (BSame.modObj _ _ _)

theorem BSame.appShutdown (N : Nat → Prop) (e : EP) (h : Nat) : BSame N e (appShutdown e h).1 := by
  unfold Mux.appShutdown
  repeat' split
  all_goals first
    | exact BSame.refl N e
    | exact BSame.modObj _ _ _
    | exact BSame.after (BSame.enqFrame _ _ rfl) (BSame.modObj _ _ _)

theorem BSame.appDropStream (N : Nat → Prop) (e : EP) (h : Nat) : BSame N e (appDropStream e h).1 := by
  unfold Mux.appDropStream
  split
  · exact BSame.refl N e
  · simp only
    split
    · exact BSame.modObj _ _ _
    · exact BSame.silent rfl rfl rfl rfl

theorem BSame.appSendDgram (N : Nat → Prop) (e : EP) (d : Dgram) : BSame N e (appSendDgram e d).1 := by
  unfold Mux.appSendDgram
  repeat' split
  all_goals first | exact BSame.refl N e | exact BSame.enqFrame _ _ rfl

theorem BSame.appRecvDgram (N : Nat → Prop) (e : EP) : BSame N e (appRecvDgram e).1 := by
  unfold Mux.appRecvDgram
  repeat' split
  all_goals first | exact BSame.refl N e | exact BSame.silent rfl rfl rfl rfl

theorem BSame.offerAccept (N : Nat → Prop) (e : EP) (i : Nat) : BSame N e (offerAccept e i) := by
  unfold Mux.offerAccept
  split
  · exact BSame.silent rfl rfl rfl rfl
  · refine BSame.of_ids ?_ rfl
    intro x hx; rw [mem_bindIds] at hx ⊢
    rcases hx with hx | hx | ⟨b, hb, _⟩
    · exact Or.inl hx
    · exact Or.inr (Or.inl hx)
    · simp at hb

/-- Handing a bind request to the bind queue (or parking with it) remembers exactly its id. -/
theorem BSame.offerBind (e : EP) (b : BindIn) : BSame (· = b.fid) e (offerBind e b) := by
  unfold Mux.offerBind
  split
  · refine ⟨?_, [], by simp, by simp⟩
    intro x hx; rw [mem_bindIds] at hx; rw [mem_bindIds]
    simp only [List.mem_append, List.mem_singleton] at hx
    rcases hx with ⟨b', hb' | hb', hf⟩ | hx | hx
    · exact Or.inl (Or.inl ⟨b', hb', hf⟩)
    · subst hb'; exact Or.inr hf.symm
    · exact Or.inl (Or.inr (Or.inl hx))
    · exact Or.inl (Or.inr (Or.inr hx))
  · refine ⟨?_, [], by simp, by simp⟩
    intro x hx; rw [mem_bindIds] at hx; rw [mem_bindIds]
    simp only [Option.some.injEq, Park.bind.injEq] at hx
    rcases hx with hx | hx | ⟨b', hb', hf⟩
    · exact Or.inl (Or.inl hx)
    · exact Or.inl (Or.inr (Or.inl hx))
    · subst hb'; exact Or.inr hf.symm

/-- The id of a `Bind` frame. -/
def bindOf (f : Frame) (x : Nat) : Prop := ∃ bt port host, f = .bind x bt port host

/-- One frame is processed: only a `Bind` frame makes the endpoint remember a bind request — that
    frame's — and no frame makes it emit a `Bind`. -/
theorem BSame.processFrame (e : EP) (f : Frame) (ig : Bool) : BSame (bindOf f) e (processFrame e f ig).1 := by
  have nd : ∀ g : Frame, isBindMsg (.frame g) = false → ∀ x : EP, BSame (bindOf f) x (x.enqFrame g) :=
    fun g hg x => BSame.enqFrame x g hg
  cases f with
  | connect fid rwnd port host =>
    simp only [Mux.processFrame]
    split
    · exact nd _ rfl _
    · split
      · exact BSame.silent rfl rfl rfl rfl
      · have c1 : BSame (bindOf (.connect fid rwnd port host)) e
            (({ e with objs := e.objs ++ [newObj e.opts fid rwnd host port],
                       flows := insert e.flows fid (.established e.objs.length) } : EP).enqFrame
              (.acknowledge fid e.opts.rwnd)) :=
          BSame.after (nd _ rfl _) (BSame.silent rfl rfl rfl rfl)
        split
        · exact c1.trans (BSame.silent rfl rfl rfl rfl)
        · exact c1.trans (BSame.offerAccept _ _ _)
  | acknowledge fid n =>
    simp only [Mux.processFrame]
    split
    · exact BSame.modObj _ _ _
    · split <;> exact BSame.silent rfl rfl rfl rfl
    · exact nd _ rfl _
    · exact nd _ rfl _
  | finish fid =>
    simp only [Mux.processFrame]
    split
    · exact nd _ rfl _
    · exact BSame.silent rfl rfl rfl rfl
    · exact BSame.after (nd _ rfl _) (BSame.silent rfl rfl rfl rfl)
    · exact BSame.modObj _ _ _
  | reset fid => simp only [Mux.processFrame]; exact BSame.closeFlow _ _ _ _
  | push fid d =>
    simp only [Mux.processFrame]
    split
    · split
      · exact BSame.refl _ e
      · split
        · exact nd _ rfl _
        · split
          · exact BSame.refl _ e
          · split
            · exact BSame.modObj _ _ _
            · exact BSame.closeFlow _ _ _ _
    · exact nd _ rfl _
  | bind fid bt port host =>
    simp only [Mux.processFrame]
    split
    · exact nd _ rfl _
    · split
      · exact BSame.refl _ e
      · split
        · exact nd _ rfl _
        · exact (BSame.offerBind e { fid := fid, bt := bt, host := host, port := port }).mono
            (fun x hx => ⟨bt, port, host, by rw [hx]⟩)
  | datagram fid port host d =>
    simp only [Mux.processFrame]
    repeat' split
    all_goals first | exact BSame.refl _ e | exact BSame.silent rfl rfl rfl rfl

/-! ### The bind calls -/

/-- The id `request_bind` draws (if any). -/
def drawn (e : EP) (x : Nat) : Prop := ∃ r fb, drawId e.flows e.rng e.fallback 64 = some (x, r, fb)

theorem BSame.appBindReq (e : EP) (req : Nat) (bt : BindType) (host : Bytes) (port : Nat) :
    BSame (drawn e) e (appBindReq e req bt host port).1 := by
  unfold Mux.appBindReq
  split
  · exact BSame.refl _ e
  · rename_i fid rng' fb' hd
    split
    · exact BSame.silent rfl rfl rfl rfl
    · rename_i hoc
      refine ⟨?_, [.frame (.bind fid bt port host)], ?_, ?_⟩
      · intro x hx; left
        rw [mem_bindIds] at hx ⊢
        simpa [EP.enqFrame, EP.enq, hoc] using hx
      · simp [EP.enqFrame, EP.enq, hoc]
      · intro m hm _
        simp only [List.mem_singleton] at hm
        subst hm
        exact ⟨fid, rfl, rng', fb', hd⟩

theorem BSame.appBindNext (N : Nat → Prop) (e : EP) : BSame N e (appBindNext e).1 := by
  unfold Mux.appBindNext
  split
  · exact BSame.refl N e
  · split
    · rename_i b rest hq
      refine BSame.of_ids ?_ rfl
      intro x hx; rw [mem_bindIds] at hx ⊢
      simp only [List.mem_append, List.mem_singleton] at hx
      rw [hq]
      rcases hx with ⟨b', hb', hf⟩ | ⟨b', hb' | hb', hf⟩ | hx
      · exact Or.inl ⟨b', List.mem_cons_of_mem _ hb', hf⟩
      · exact Or.inr (Or.inl ⟨b', hb', hf⟩)
      · subst hb'; exact Or.inl ⟨b', by simp, hf⟩
      · exact Or.inr (Or.inr hx)
    · split <;> exact BSame.refl N e

theorem map_fid_modify (l : List BindIn) (k : Nat) (f : BindIn → BindIn) (hf : ∀ b, (f b).fid = b.fid) :
    (l.modify k f).map (·.fid) = l.map (·.fid) := by
  induction l generalizing k with
  | nil => simp
  | cons b rest ih =>
    cases k with
    | zero => simp [hf]
    | succ k => simp [ih]

@[simp] theorem enq_bindq (e : EP) (m : Msg) : (e.enq m).bindq = e.bindq := by
  unfold EP.enq; split <;> rfl
@[simp] theorem enq_held (e : EP) (m : Msg) : (e.enq m).held = e.held := by
  unfold EP.enq; split <;> rfl

theorem bindIds_congr {e e' : EP} (h1 : e'.bindq = e.bindq) (h2 : e'.held.map (·.fid) = e.held.map (·.fid))
    (h3 : e'.park = e.park) : bindIds e' = bindIds e := by
  unfold bindIds
  rw [h1, h2, h3]

theorem BSame.appBindReply (N : Nat → Prop) (e : EP) (k : Nat) (acc : Bool) : BSame N e (appBindReply e k acc).1 := by
  unfold Mux.appBindReply
  split
  · exact BSame.refl N e
  · split
    · exact BSame.refl N e
    · split
      · exact BSame.refl N e
      · rename_i b _ _ _
        have s1 : BSame N e (e.enqFrame (if acc then .finish b.fid else .reset b.fid)) :=
          BSame.enqFrame e _ (by cases acc <;> rfl)
        refine s1.trans (BSame.of_ids ?_ rfl)
        intro x hx
        have hc := bindIds_congr (e := e.enqFrame (if acc then .finish b.fid else .reset b.fid))
          (e' := { (e.enqFrame (if acc then .finish b.fid else .reset b.fid)) with
                     held := e.held.modify k (fun b => { b with replied := true }) }) rfl
          (by simp only [EP.enqFrame, enq_held]
              exact map_fid_modify _ k (fun b => { b with replied := true }) (fun _ => rfl)) rfl
        rw [hc] at hx
        exact hx

theorem BSame.appBindDrop (N : Nat → Prop) (e : EP) (k : Nat) : BSame N e (appBindDrop e k).1 := by
  unfold Mux.appBindDrop
  split
  · exact BSame.refl N e
  · split
    · exact BSame.refl N e
    · have s1 : BSame N e { e with held := e.held.modify k (fun b => { b with alive := false }) } :=
        BSame.of_ids (fun x hx => by
          have hc := bindIds_congr (e := e) (e' := { e with held := e.held.modify k (fun b => { b with alive := false }) }) rfl
            (map_fid_modify _ k (fun b => { b with alive := false }) (fun _ => rfl)) rfl
          rw [hc] at hx
          exact hx) rfl
      simp only
      split
      · exact s1
      · exact BSame.after (BSame.enqFrame _ _ rfl) s1

/-! ### What meets the flow id of a bind request

A flow id `x` that belongs to a bind request has no stream slot (at most the requester's
`BindRequested` slot) and no stream object.  The functions that can be called with such an id leave
the stream objects alone and at most remove the slot. -/

/-- No stream slot: none at all, or the requester's `BindRequested`. -/
def NoStreamSlot (e : EP) (x : Nat) : Prop :=
  lookup e.flows x = none ∨ ∃ r, lookup e.flows x = some (.bindRequested r)

theorem closeFlow_bound (e : EP) (x : Nat) (inh : Bool) (hs : NoStreamSlot e x) :
    (closeFlow e x inh).1.objs = e.objs := by
  unfold Mux.closeFlow
  rcases hs with hs | ⟨r, hs⟩
  · rw [hs]
  · rw [hs]; rfl

theorem processFrame_bound (e : EP) (f : Frame) (ig : Bool) (hs : NoStreamSlot e f.id)
    (hnc : ∀ a b c d, f ≠ .connect a b c d) :
    (processFrame e f ig).1.objs = e.objs ∧
    (lookup (processFrame e f ig).1.flows f.id = lookup e.flows f.id ∨ lookup (processFrame e f ig).1.flows f.id = none) := by
  cases f with
  | connect fid rwnd port host => exact absurd rfl (hnc _ _ _ _)
  | acknowledge fid n =>
    simp only [Frame.id] at hs
    simp only [Mux.processFrame, Frame.id]
    rcases hs with hs | ⟨r, hs⟩ <;> rw [hs] <;> simp [EP.enqFrame, hs]
  | finish fid =>
    simp only [Frame.id] at hs
    simp only [Mux.processFrame, Frame.id]
    rcases hs with hs | ⟨r, hs⟩ <;> rw [hs]
    · simp [EP.enqFrame, hs]
    · exact ⟨rfl, Or.inr (lookup_erase_self _ _)⟩
  | reset fid =>
    simp only [Frame.id] at hs
    simp only [Mux.processFrame, Frame.id]
    exact ⟨closeFlow_bound e fid true hs, Or.inr (closeFlow_slot_none _ _ _)⟩
  | push fid d =>
    simp only [Frame.id] at hs
    simp only [Mux.processFrame, Frame.id]
    rcases hs with hs | ⟨r, hs⟩ <;> rw [hs] <;> simp [EP.enqFrame, hs]
  | bind fid bt port host =>
    simp only [Mux.processFrame, Frame.id]
    repeat' split
    all_goals simp [EP.enqFrame, Mux.offerBind]
    all_goals (split <;> simp)
  | datagram fid port host d =>
    simp only [Mux.processFrame, Frame.id]
    repeat' split
    all_goals simp

theorem appWrite_none (e : EP) (h : Nat) (d : Bytes) (hh : e.handleObj h = none) : (appWrite e h d).1 = e := by
  unfold Mux.appWrite; rw [hh]
theorem appRead_none (e : EP) (h n : Nat) (hh : e.handleObj h = none) : (appRead e h n).1 = e := by
  unfold Mux.appRead; rw [hh]
theorem appShutdown_none (e : EP) (h : Nat) (hh : e.handleObj h = none) : (appShutdown e h).1 = e := by
  unfold Mux.appShutdown; rw [hh]
theorem appDropStream_none (e : EP) (h : Nat) (hh : e.handleObj h = none) : (appDropStream e h).1 = e := by
  unfold Mux.appDropStream; rw [hh]

theorem appBindNext_same (e : EP) :
    (appBindNext e).1.flows = e.flows ∧ (appBindNext e).1.objs = e.objs ∧ (appBindNext e).1.outq = e.outq ∧
    (appBindNext e).1.droppedq = e.droppedq ∧ (appBindNext e).1.rng = e.rng ∧ (appBindNext e).1.opts = e.opts ∧
    (appBindNext e).1.outClosed = e.outClosed ∧ (appBindNext e).1.muxAlive = e.muxAlive ∧ (appBindNext e).1.dead = e.dead := by
  unfold Mux.appBindNext
  repeat' split
  all_goals simp

theorem appBindReply_same (e : EP) (k : Nat) (acc : Bool) :
    (appBindReply e k acc).1.flows = e.flows ∧ (appBindReply e k acc).1.objs = e.objs := by
  unfold Mux.appBindReply
  repeat' split
  all_goals simp [EP.enqFrame]

theorem appBindDrop_same (e : EP) (k : Nat) :
    (appBindDrop e k).1.flows = e.flows ∧ (appBindDrop e k).1.objs = e.objs := by
  unfold Mux.appBindDrop
  repeat' split
  all_goals simp [EP.enqFrame]

end Penguin.Pair

namespace Penguin.Mux

/-! ### Footprints of the bind calls -/

theorem appBindNext_eff (Y : Nat → Prop) (e : EP) : Eff Y e (appBindNext e).1 := by
  obtain ⟨h1, h2, h3, h4, h5, h6, h7, h8, h9⟩ := Pair.appBindNext_same e
  exact Eff.silent h1 h2 h3 h4 h5 h6 h7 h8 h9

/-- The flow id of the `k`-th bind request handed to the application (`0` if there is none). -/
def heldFid (e : EP) (k : Nat) : Nat :=
  match e.held[k]? with
  | some b => b.fid
  | none => 0

theorem appBindReply_eff (e : EP) (k : Nat) (acc : Bool) : Eff (· = heldFid e k) e (appBindReply e k acc).1 := by
  unfold appBindReply heldFid
  cases hk : e.held[k]? with
  | none => exact Eff.refl _ e
  | some b =>
    simp only
    split
    · exact Eff.refl _ e
    · split
      · exact Eff.refl _ e
      · refine Eff.trans (Eff.enqFrameT (Y := (· = b.fid)) e (if acc then .finish b.fid else .reset b.fid)
            (by cases acc <;> rfl) (by intro z hz; cases acc <;> simp [Msg.flow?, Frame.id] at hz <;> exact hz.symm)) ?_
        exact Eff.silent rfl rfl rfl rfl rfl rfl rfl rfl rfl

theorem appBindDrop_eff (e : EP) (k : Nat) : Eff (· = heldFid e k) e (appBindDrop e k).1 := by
  unfold appBindDrop heldFid
  cases hk : e.held[k]? with
  | none => exact Eff.refl _ e
  | some b =>
    simp only
    split
    · exact Eff.refl _ e
    · have s1 : Eff (· = b.fid) e { e with held := e.held.modify k (fun b => { b with alive := false }) } :=
        Eff.silent rfl rfl rfl rfl rfl rfl rfl rfl rfl
      split
      · exact s1
      · exact s1.trans (Eff.enqFrameT _ _ rfl (by intro z hz; simp [Msg.flow?, Frame.id] at hz; exact hz.symm))

/-- `request_bind` with a usable script head: the explicit result. -/
theorem appBindReq_spec (e : EP) (req : Nat) (bt : BindType) (host : Bytes) (port : Nat) (y : Nat) (rest : List Nat)
    (hq : e.rng = y :: rest) (h0 : y ≠ 0) (hfree : lookup e.flows y = none) (hoc : e.outClosed = false) :
    (appBindReq e req bt host port).1 =
      ({ e with rng := rest, flows := insert e.flows y (.bindRequested req) } : EP).enqFrame (.bind y bt port host) := by
  unfold appBindReq
  rw [hq, drawId_head _ _ _ _ _ h0 hfree]
  simp [hoc]

theorem appBindReq_eff (e : EP) (req : Nat) (bt : BindType) (host : Bytes) (port : Nat) (y : Nat) (rest : List Nat)
    (hq : e.rng = y :: rest) (h0 : y ≠ 0) (hfree : lookup e.flows y = none) (hoc : e.outClosed = false) :
    Eff (· = y) e (appBindReq e req bt host port).1 := by
  have heq : (appBindReq e req bt host port).1 =
      { (({ e with flows := insert e.flows y (.bindRequested req) } : EP).enqFrame (.bind y bt port host)) with
          rng := rest, fallback := e.fallback } := by
    rw [appBindReq_spec e req bt host port y rest hq h0 hfree hoc]
    simp [EP.enqFrame, EP.enq, hoc]
  rw [heq]
  have s1 := Eff.insertPending (Y := (· = y)) e y (.bindRequested req) rfl (by intro i h; cases h)
  have s2 := s1.trans (Eff.enqFrameT (Y := (· = y)) _ (.bind y bt port host) rfl
    (by intro z hz; simp [Msg.flow?, Frame.id] at hz; exact hz.symm))
  exact s2.trans (Eff.rngPop (Y := (· = y)) _ y rest e.fallback (by simp [EP.enqFrame, EP.enq, hoc, hq]) rfl)

theorem appBindReq_rng_nil (e : EP) (req : Nat) (bt : BindType) (host : Bytes) (port : Nat) (h : e.rng = []) :
    (appBindReq e req bt host port).1.rng = [] := by
  unfold appBindReq
  rw [h]
  generalize hd : drawId e.flows [] e.fallback 64 = dd
  cases dd with
  | none => simpa using h
  | some v =>
    obtain ⟨k, rng', fb'⟩ := v
    have := drawId_nil _ _ _ _ _ _ hd
    subst this
    simp only
    split <;> simp [EP.enqFrame]

end Penguin.Mux
