/-
Lemmas/WakerNSim — `Model/WakerN` with ONE writer thread is `Model/Waker` (repaired code).

`proj1` forgets the thread component of the waker names and the ghosts `lastReg` / `regMark`; every
step of the one-writer instance of `Model/WakerN` is, under `proj1`, the step of `Model/Waker` with the
same label, so every run of one is a run of the other (`run_one_writer`).  (The single-writer model
has no foreign `do_shutdown()`: the instance is the one with `shutdowns = 0`.)
-/
import Penguin.Model.WakerN
import Penguin.Lemmas.WakerN

namespace Penguin.Lemmas.WakerN
open Penguin.Waker (PollResult ActorKind APc Actor WPc)
open Penguin.WakerN

/-- The single-writer state seen in a state of `Model/WakerN` whose only writer is `w`. -/
def proj1 (s : State) (w : Writer) : Waker.State where
  credit := s.credit
  closed := s.closed
  registered := s.registered.map (·.2)
  wakeLog := s.wakeLog.map (·.2)
  actors := s.actors
  pc := w.pc
  cur := w.cur
  pollsLeft := w.pollsLeft
  curStartClosed := w.curStartClosed
  curRegistered := w.curRegistered
  log := w.log
  grants := s.grants
  takes := w.takes
  sent := w.sent

def lift1 : Waker.Label → Label
  | .writer => .writer 0
  | .casSpurious => .casSpurious 0
  | .actor i => .actor i

theorem writer_sim {s : State} {w : Writer} (hw : s.writers = [w]) :
    ∃ w', (writerStep s 0).writers = [w'] ∧ proj1 (writerStep s 0) w' = Waker.writerStep true (proj1 s w) := by
  have h0 : s.writers[0]? = some w := by simp [hw]
  rw [writerStep_some h0]
  refine ⟨w.next s.closed s.credit s.wakeLog.length, by simp [hw], ?_⟩
  unfold Writer.next Waker.writerStep
  cases hpc : w.pc <;> simp only [proj1, hpc]
  all_goals (repeat' split)
  all_goals
    first
    | (simp_all; done)
    | (cases hl : w.pollsLeft <;> simp_all [Writer.finishPoll, Waker.finishPoll])

theorem spurious_sim {s : State} {w : Writer} (hw : s.writers = [w]) :
    ∃ w', (spuriousStep s 0).writers = [w'] ∧
      proj1 (spuriousStep s 0) w' = Waker.step (proj1 s w) .casSpurious := by
  have h0 : s.writers[0]? = some w := by simp [hw]
  simp only [spuriousStep, h0, Waker.step, Waker.stepGen]
  cases hpc : w.pc <;> simp [proj1, hpc, hw]

theorem actor_sim {s : State} {w : Writer} (hw : s.writers = [w]) (i : Nat) :
    (actorStep s i).writers = [w] ∧ proj1 (actorStep s i) w = Waker.actorStep (proj1 s w) i := by
  unfold actorStep Waker.actorStep
  simp only [proj1]
  cases ha : s.actors[i]? with
  | none => simp [hw]
  | some a =>
    obtain ⟨kind, pc⟩ := a
    cases pc with
    | write => cases kind <;> simp [hw]
    | wake =>
      simp only [doWake, Waker.doWake]
      cases hr : s.registered <;> simp [hw]
    | done => simp [hw]

/-- One step. -/
theorem step_sim {s : State} {w : Writer} (hw : s.writers = [w]) (l : Waker.Label) :
    ∃ w', (step s (lift1 l)).writers = [w'] ∧ proj1 (step s (lift1 l)) w' = Waker.step (proj1 s w) l := by
  cases l with
  | writer => exact writer_sim hw
  | casSpurious => exact spurious_sim hw
  | actor i => exact ⟨w, actor_sim hw i⟩

theorem foldl_sim (ls : List Waker.Label) :
    ∀ (s : State) (w : Writer), s.writers = [w] →
      ∃ w', ((ls.map lift1).foldl step s).writers = [w'] ∧
        proj1 ((ls.map lift1).foldl step s) w' = ls.foldl Waker.step (proj1 s w) := by
  induction ls with
  | nil => intro s w hw; exact ⟨w, hw, rfl⟩
  | cons l ls ih =>
    intro s w hw
    obtain ⟨w1, h1, h2⟩ := step_sim hw l
    obtain ⟨w2, h3, h4⟩ := ih _ w1 h1
    refine ⟨w2, h3, ?_⟩
    simp only [List.map_cons, List.foldl_cons]
    rw [h4, h2]

/-- Every run of the single-writer model is, step for step, the run of `Model/WakerN` with one writer
    thread under the same schedule. -/
theorem run_one_writer (credit polls : Nat) (actors : List ActorKind) (ls : List Waker.Label) :
    ∃ w, (run ⟨credit, [polls], actors, 0⟩ (ls.map lift1)).writers = [w] ∧
      proj1 (run ⟨credit, [polls], actors, 0⟩ (ls.map lift1)) w = Waker.run ⟨credit, polls, actors⟩ ls := by
  have h0 : (init ⟨credit, [polls], actors, 0⟩).writers = [initWriter polls] := rfl
  obtain ⟨w, h1, h2⟩ := foldl_sim ls _ _ h0
  refine ⟨w, h1, ?_⟩
  unfold run Waker.run
  rw [h2]
  congr 1

end Penguin.Lemmas.WakerN
