/-
The end-of-stream invariant `Fin` (`Lemmas/PairAllDir.lean`) for the direction left → right is preserved by
every small step in which the LEFT side (the sender of that direction) acts or receives: what it hands to the
transport is appended to `S`, what its writes queue as `Push x` is appended to `W`.
Core Lean only.
-/
import Penguin.Lemmas.PairAllDirA

namespace Penguin.PairAll
open Penguin.Mux

variable {x j : Nat} {ownA ownB : Prop}

/-! ### Lists -/

theorem hasFin_cons (x : Nat) (m : Msg) (r : List Msg) : hasFin x (m :: r) = (isFin x m || hasFin x r) := by
  simp [hasFin]
theorem hasFin_single (x : Nat) (m : Msg) : hasFin x [m] = isFin x m := by simp [hasFin]
theorem hasPush_single (x : Nat) (m : Msg) : hasPush x [m] = isPush x m := by simp [hasPush]

theorem isFin_fin (x : Nat) : isFin x (.frame (.finish x)) = true := by simp [isFin]
theorem isPush_fin (x y : Nat) : isPush x (.frame (.finish y)) = false := rfl
theorem isFin_push (x y : Nat) (d : Bytes) : isFin x (.frame (.push y d)) = false := rfl
theorem isFin_ack (x y n : Nat) : isFin x (.frame (.acknowledge y n)) = false := rfl

theorem isFin_not_push {x : Nat} {m : Msg} (h : isFin x m = true) : isPush x m = false := by
  cases m with
  | frame f => cases f <;> first | rfl | (simp [isFin] at h)
  | _ => rfl
theorem isConn_not_fin {x : Nat} {m : Msg} (h : isConn x m = true) : isFin x m = false := by
  cases m with
  | frame f => cases f <;> first | rfl | (simp [isConn] at h)
  | _ => rfl
theorem isBind_not_fin {x : Nat} {m : Msg} (h : isBind x m = true) : isFin x m = false := by
  cases m with
  | frame f => cases f <;> first | rfl | (simp [isBind] at h)
  | _ => rfl
theorem isBind_not_push {x : Nat} {m : Msg} (h : isBind x m = true) : isPush x m = false := by
  cases m with
  | frame f => cases f <;> first | rfl | (simp [isBind] at h)
  | _ => rfl

theorem hasFin_sublist {x : Nat} {l' l : List Msg} (h : List.Sublist l' l) (hf : hasFin x l' = true) : hasFin x l = true := by
  simp only [hasFin, List.any_eq_true] at hf ⊢
  obtain ⟨m, hm, hp⟩ := hf
  exact ⟨m, h.subset hm, hp⟩

theorem hasConn_sublist {x : Nat} {l' l : List Msg} (h : List.Sublist l' l) (hf : hasConn x l' = true) : hasConn x l = true := by
  simp only [hasConn, List.any_eq_true] at hf ⊢
  obtain ⟨m, hm, hp⟩ := hf
  exact ⟨m, h.subset hm, hp⟩

theorem hasPush_sublist {x : Nat} {l' l : List Msg} (h : List.Sublist l' l) (hf : hasPush x l' = true) : hasPush x l = true := by
  simp only [hasPush, List.any_eq_true] at hf ⊢
  obtain ⟨m, hm, hp⟩ := hf
  exact ⟨m, h.subset hm, hp⟩

theorem hasPush_sublist_false {x : Nat} {l' l : List Msg} (h : List.Sublist l' l) (hf : hasPush x l = false) :
    hasPush x l' = false := by
  cases hp : hasPush x l' with
  | false => rfl
  | true => rw [hasPush_sublist h hp] at hf; cases hf

theorem finLast_cons (x : Nat) (m : Msg) (r : List Msg) :
    finLast x (m :: r) = ((if isFin x m then !hasPush x r else true) && finLast x r) := rfl

/-- `finLast` is inherited by sublists. -/
theorem finLast_sublist {x : Nat} {l' l : List Msg} (h : List.Sublist l' l) (hf : finLast x l = true) : finLast x l' = true := by
  induction h with
  | slnil => rfl
  | cons a _ ih =>
    rw [finLast_cons, Bool.and_eq_true] at hf
    exact ih hf.2
  | cons_cons a hs ih =>
    rw [finLast_cons, Bool.and_eq_true] at hf ⊢
    refine ⟨?_, ih hf.2⟩
    by_cases hm : isFin x a = true
    · have h1 := hf.1
      rw [if_pos hm] at h1 ⊢
      rw [Bool.not_eq_true'] at h1 ⊢
      exact hasPush_sublist_false hs h1
    · rw [if_neg hm]

/-- A message that is no `Push x`, appended, does not matter. -/
theorem finLast_snoc (x : Nat) (l : List Msg) (m : Msg) (h : isPush x m = false) : finLast x (l ++ [m]) = finLast x l := by
  induction l with
  | nil => simp [finLast, hasPush]
  | cons a r ih => simp only [List.cons_append, finLast_cons, ih, hasPush_append, hasPush_single, h, Bool.or_false]

theorem finLast_append_noFin (x : Nat) (l r : List Msg) (h : hasFin x l = false) : finLast x (l ++ r) = finLast x r := by
  induction l with
  | nil => rfl
  | cons a l ih =>
    rw [hasFin_cons, Bool.or_eq_false_iff] at h
    rw [List.cons_append, finLast_cons, ih h.2, h.1]
    simp

/-- After a `Finish x` no `Push x`. -/
theorem finLast_fin_tail {x : Nat} {p r : List Msg} {m : Msg} (h : finLast x (p ++ m :: r) = true) (hm : isFin x m = true) :
    hasPush x r = false := by
  have h1 := finLast_sublist (List.sublist_append_right p (m :: r)) h
  rw [finLast_cons, Bool.and_eq_true, if_pos hm, Bool.not_eq_true'] at h1
  exact h1.1

theorem hasFin_insert (x : Nat) (l r : List Msg) (m : Msg) (h : isFin x m = false) :
    hasFin x (l ++ m :: r) = hasFin x (l ++ r) := by
  rw [hasFin_append, hasFin_append, hasFin_cons, h, Bool.false_or]

theorem hasPush_insert (x : Nat) (l r : List Msg) (m : Msg) (h : isPush x m = false) :
    hasPush x (l ++ m :: r) = hasPush x (l ++ r) := by
  rw [hasPush_append, hasPush_append, hasPush_cons, h, Bool.false_or]

/-- A message that is neither a `Push x` nor a `Finish x`, inserted anywhere, does not matter. -/
theorem finLast_insert (x : Nat) (l r : List Msg) (m : Msg) (hp : isPush x m = false) (hf : isFin x m = false) :
    finLast x (l ++ m :: r) = finLast x (l ++ r) := by
  induction l with
  | nil => simp [finLast_cons, hf]
  | cons a l ih => rw [List.cons_append, List.cons_append, finLast_cons, finLast_cons, ih, hasPush_insert x l r m hp]

theorem prefix_self_nil {α : Type} {S a b : List α} (h : S ++ (a ++ b) <+: S) : a = [] := by
  have := h.length_le
  simp only [List.length_append] at this
  exact List.eq_nil_of_length_eq_zero (by omega)

/-! ### `Pot` along a step of the left side -/

theorem sk_req (s : Option Slot) : sk s = 1 ↔ ∃ q, s = some (.requested q) := by
  cases s with
  | none => simp [sk]
  | some s => cases s <;> simp [sk]

theorem Pot_iff (x : Nat) (c : PC) :
    Pot x c ↔ (1 ≤ (sm x c).ca ∨ 1 ≤ (sm x c).cb ∨ (sm x c).sb = 1 ∨ 1 ≤ (sm x c).cP) := by
  show _ ↔ (1 ≤ c.a.cnt ∨ 1 ≤ c.b.cnt ∨ sk c.b.slot = 1 ∨ 1 ≤ cC x c.path)
  rw [sk_req, ← hasConn_iff]
  rfl

theorem pot_SStepL {s s' : Sm} (st : SStepL s s') (h : 1 ≤ s'.ca ∨ 1 ≤ s'.cb ∨ s'.sb = 1 ∨ 1 ≤ s'.cP) :
    1 ≤ s.ca ∨ 1 ≤ s.cb ∨ s.sb = 1 ∨ 1 ≤ s.cP := by
  cases st with
  | shrink h1 h2 h3 h4 h5 h6 h7 h8 h9 h10 h11 h12 h13 h14 h15 h16 => omega
  | enqAP w h0 h1 h2 h3 h4 h5 h6 h7 h8 h9 h10 h11 h12 h13 h14 h15 h16 => omega
  | draw b h1 h2 h3 h4 h5 h6 h7 h8 h9 h10 h11 h12 h13 h14 h15 h16 => omega
  | connNew h1 h2 h3 h4 h5 h6 h7 h8 h9 h10 h11 h12 h13 h14 h15 h16 => omega
  | ackNew h1 h2 h3 h4 h5 h6 h7 h8 h9 h10 h11 h12 h13 h14 h15 h16 => omega
  | popBind h1 h2 h3 h4 h5 h6 h7 h8 h9 h10 h11 h12 h13 h14 h15 h16 => omega

/-- A step of the left side creates no new possibility for the right side to create a stream object for `x`. -/
theorem Pot.stepA {jA : Nat} {c c' : PC} {ws : List Msg} {acc : List Bytes} {xl : List XL}
    (st : CStepL x jA c c' ws acc xl) (hn : c'.a.rngNil = false) (h : Pot x c') : Pot x c :=
  (Pot_iff x c).mpr (pot_SStepL (sm_stepL st hn) ((Pot_iff x c').mp h))

/-! ### Steps that hand nothing to the transport -/

theorem Fin.castS {c : PC} {S R W : List Bytes} {P : Nat} (h : Fin x j c S R W P) : Fin x j c (S ++ pX x []) R W P := by
  rw [show S ++ pX x [] = S from List.append_nil S]; exact h

theorem Fin.cast0 {c : PC} {S R W : List Bytes} {P : Nat} (h : Fin x j c S R W P) :
    Fin x j c (S ++ pX x []) R (W ++ XL.wrotes []) P := by
  rw [show W ++ XL.wrotes [] = W from List.append_nil W]; exact h.castS

theorem Fin.castW {c : PC} {S R W : List Bytes} {P : Nat} {xl : List XL} (hx : XL.wrotes xl = [])
    (h : Fin x j c S R W P) : Fin x j c (S ++ pX x []) R (W ++ XL.wrotes xl) P := by
  rw [hx, List.append_nil]; exact h.castS

/-- The right side and the wire are left alone, nothing is sent: the clauses about the receiver transfer. -/
theorem Fin.silentA {c c' : PC} {S R W W' : List Bytes} {P : Nat} (f : Fin x j c S R W P)
    (eb : c'.b = c.b) (eab : c'.ab = c.ab) (eo : c'.abOpen = c.abOpen)
    (hd : (sm x c).dead → (sm x c').dead) (hpot : Pot x c' → Pot x c)
    (g0 : S ++ pX x c'.a.outq <+: W')
    (g1 : S ++ pX x c'.a.outq = W' ∨ (c'.a.outClosed = true ∧ c'.a.outq = []))
    (g2 : hasFin x c'.path = true → (sm x c').dead ∨ (1 ≤ c'.a.nobj ∧ c'.a.nw = 0 ∧ finLast x c'.path = true))
    (g3 : hasFin x (inMsgs c.b.inbox ++ c.ab) = true → (sm x c').dead ∨ S = W')
    (g6 : 1 ≤ P → c.b.rxJ = true → R = W' ∧ 1 ≤ c'.a.nobj ∧ c'.a.nw = 0 ∧ hasPush x c'.path = false) :
    Fin x j c' S R W' P := by
  refine ⟨g0, g1, g2, ?_, ?_, ?_, ?_, ?_, ?_, ?_⟩
  · rw [eb, eab]; exact g3
  · rw [eb, eo]; exact fun h1 h2 h3 => (f.f4 h1 h2 h3).imp hd id
  · rw [eb, eo]; exact fun h1 h2 h3 h4 => (f.f4p h1 h2 (hpot h3) h4).imp hd id
  · rw [eb]; exact f.f5
  · rw [eb]; exact g6
  · rw [eb]; exact f.f7
  · rw [eb]; exact f.f8

/-- The path does not grow (the queue is kept or dropped), the number of writable objects does not grow. -/
theorem Fin.shrinkA {c c' : PC} {S R W : List Bytes} {P : Nat} (f : Fin x j c S R W P)
    (eb : c'.b = c.b) (eab : c'.ab = c.ab) (eo : c'.abOpen = c.abOpen)
    (hd : (sm x c).dead → (sm x c').dead) (hpot : Pot x c' → Pot x c)
    (e1 : c'.a.nobj = c.a.nobj) (e2 : c'.a.nw ≤ c.a.nw)
    (e3 : c'.a.outq = c.a.outq ∨ (c'.a.outq = [] ∧ c'.a.outClosed = true))
    (e4 : c.a.outClosed = true → c'.a.outClosed = true) : Fin x j c' S R W P := by
  have hsub : List.Sublist c'.path c.path := by
    unfold PC.path
    rw [eb, eab]
    rcases e3 with e | ⟨e, _⟩ <;> rw [e]
    · exact List.Sublist.refl _
    · exact (List.Sublist.refl _).append (List.nil_sublist _)
  refine f.silentA eb eab eo hd hpot ?_ ?_ ?_ (fun h => (f.f3 h).imp hd id) ?_
  · rcases e3 with e | ⟨e, _⟩ <;> rw [e]
    · exact f.f0
    · rw [pX_nil, List.append_nil]
      exact List.IsPrefix.trans (List.prefix_append S _) f.f0
  · rcases e3 with e | ⟨e, e'⟩
    · rw [e]
      exact f.f1.imp id (fun h => ⟨e4 h.1, h.2⟩)
    · exact Or.inr ⟨e', e⟩
  · intro h
    rcases f.f2 (hasFin_sublist hsub h) with h' | ⟨h1, h2, h3⟩
    · exact Or.inl (hd h')
    · exact Or.inr ⟨by rw [e1]; exact h1, by omega, finLast_sublist hsub h3⟩
  · intro h1 h2
    obtain ⟨k1, k2, k3, k4⟩ := f.f6 h1 h2
    exact ⟨k1, by rw [e1]; exact k2, by omega, hasPush_sublist_false hsub k4⟩

/-- A message that is neither a `Push x` nor a `Finish x` is queued. -/
theorem Fin.snocA {c c' : PC} {S R W : List Bytes} {P : Nat} (f : Fin x j c S R W P)
    (eb : c'.b = c.b) (eab : c'.ab = c.ab) (eo : c'.abOpen = c.abOpen)
    (hd : (sm x c).dead → (sm x c').dead) (hpot : Pot x c' → Pot x c) (m : Msg)
    (hp : isPush x m = false) (hf : isFin x m = false)
    (e1 : c'.a.nobj = c.a.nobj) (e2 : c'.a.nw = c.a.nw) (e3 : c'.a.outq = c.a.outq ++ [m])
    (ho : c.a.outClosed = false) : Fin x j c' S R W P := by
  have hpath : c'.path = c.path ++ [m] := by
    unfold PC.path
    rw [eb, eab, e3, List.append_assoc _ c.a.outq]
  have hpx : pX x c'.a.outq = pX x c.a.outq := by rw [e3, pX_append, pX_single_other x m hp, List.append_nil]
  refine f.silentA eb eab eo hd hpot ?_ ?_ ?_ (fun h => (f.f3 h).imp hd id) ?_
  · rw [hpx]; exact f.f0
  · rw [hpx]
    rcases f.f1 with h | ⟨h, _⟩
    · exact Or.inl h
    · rw [ho] at h; cases h
  · rw [hpath, hasFin_append, hasFin_single, hf, Bool.or_false, finLast_snoc x _ m hp, e1, e2]
    exact fun h => (f.f2 h).imp hd id
  · rw [hpath, hasPush_append, hasPush_single, hp, Bool.or_false, e1, e2]
    exact f.f6

/-- While something can still be written, no `Finish x` is under way. -/
theorem Fin.noFin {c : PC} {S R W : List Bytes} {P : Nat} (f : Fin x j c S R W P) (hw : 0 < c.a.nw)
    (wle : c.a.nw ≤ c.a.nobj) : hasFin x c.path = false := by
  cases h : hasFin x c.path with
  | false => rfl
  | true =>
    rcases f.f2 h with hd | ⟨_, h2, _⟩
    · have : c.a.nobj = 0 := hd.2.2.1
      omega
    · omega

theorem hasFin_path_of {c : PC} (h : hasFin x (inMsgs c.b.inbox ++ c.ab) = true) : hasFin x c.path = true := by
  rw [PC.path, hasFin_append, h]; rfl

/-- A write queues a `Push x`. -/
theorem Fin.pushA {c c' : PC} {S R W W' : List Bytes} {P : Nat} (f : Fin x j c S R W P)
    (eb : c'.b = c.b) (eab : c'.ab = c.ab) (eo : c'.abOpen = c.abOpen)
    (hd : (sm x c).dead → (sm x c').dead) (hpot : Pot x c' → Pot x c) {p : Bytes}
    (e3 : c'.a.outq = c.a.outq ++ [.frame (.push x p)])
    (ho : c.a.outClosed = false) (hw : 0 < c.a.nw) (wle : c.a.nw ≤ c.a.nobj) (hW : W' = W ++ [p]) :
    Fin x j c' S R W' P := by
  subst hW
  have hnf := f.noFin hw wle
  have hpath : c'.path = c.path ++ [.frame (.push x p)] := by
    unfold PC.path
    rw [eb, eab, e3, List.append_assoc _ c.a.outq]
  have hpx : S ++ pX x c'.a.outq = W ++ [p] := by
    rw [e3, pX_append, pX_cons_push, pX_nil, ← List.append_assoc]
    rcases f.f1 with h | ⟨h, _⟩
    · rw [h]
    · rw [ho] at h; cases h
  refine f.silentA eb eab eo hd hpot ?_ (Or.inl hpx) ?_ ?_ ?_
  · rw [hpx]; exact List.prefix_refl _
  · intro h
    rw [hpath, hasFin_append, hnf, hasFin_single, isFin_push] at h
    cases h
  · intro h
    rw [hasFin_path_of h] at hnf; cases hnf
  · intro h1 h2
    have := (f.f6 h1 h2).2.2.1
    omega

/-- A stream object carrying `x` is shut down. -/
theorem Fin.finSA {c c' : PC} {S R W : List Bytes} {P : Nat} (f : Fin x j c S R W P)
    (eb : c'.b = c.b) (eab : c'.ab = c.ab) (eo : c'.abOpen = c.abOpen)
    (hd : (sm x c).dead → (sm x c').dead) (hpot : Pot x c' → Pot x c)
    (e1 : c'.a.nobj = c.a.nobj) (e2 : c'.a.nw = c.a.nw - 1) (e3 : c'.a.outq = c.a.outq ++ [.frame (.finish x)])
    (ho : c.a.outClosed = false) (hw : 0 < c.a.nw) (wle : c.a.nw ≤ c.a.nobj) (one : c.a.nobj ≤ 1) :
    Fin x j c' S R W P := by
  have hnf := f.noFin hw wle
  have hpath : c'.path = c.path ++ [.frame (.finish x)] := by
    unfold PC.path
    rw [eb, eab, e3, List.append_assoc _ c.a.outq]
  have hpx : pX x c'.a.outq = pX x c.a.outq := by
    rw [e3, pX_append, pX_single_other x _ (isPush_fin x x), List.append_nil]
  refine f.silentA eb eab eo hd hpot ?_ ?_ ?_ ?_ ?_
  · rw [hpx]; exact f.f0
  · rw [hpx]
    rcases f.f1 with h | ⟨h, _⟩
    · exact Or.inl h
    · rw [ho] at h; cases h
  · intro _
    refine Or.inr ⟨by omega, by omega, ?_⟩
    rw [hpath, finLast_append_noFin x _ _ hnf]
    simp [finLast, hasPush]
  · intro h
    rw [hasFin_path_of h] at hnf; cases hnf
  · intro h1 h2
    have := (f.f6 h1 h2).2.2.1
    omega

/-- A held bind request with id `x` is accepted: `x` is dead for streams. -/
theorem Fin.finBA {c c' : PC} {S R W : List Bytes} {P : Nat} (f : Fin x j c S R W P)
    (eb : c'.b = c.b) (eab : c'.ab = c.ab) (eo : c'.abOpen = c.abOpen)
    (hd : (sm x c).dead → (sm x c').dead) (hpot : Pot x c' → Pot x c)
    (e3 : c'.a.outq = c.a.outq ++ [.frame (.finish x)])
    (ho : c.a.outClosed = false) (hdead : (sm x c).dead) : Fin x j c' S R W P := by
  have hpx : pX x c'.a.outq = pX x c.a.outq := by
    rw [e3, pX_append, pX_single_other x _ (isPush_fin x x), List.append_nil]
  refine f.silentA eb eab eo hd hpot ?_ ?_ (fun _ => Or.inl (hd hdead)) (fun _ => Or.inl (hd hdead)) ?_
  · rw [hpx]; exact f.f0
  · rw [hpx]
    rcases f.f1 with h | ⟨h, _⟩
    · exact Or.inl h
    · rw [ho] at h; cases h
  · intro h1 h2
    have := (f.f6 h1 h2).2.1
    have : c.a.nobj = 0 := hdead.2.2.1
    omega

/-- A stream object carrying `x` is created at the left side: it had none, and `x` was not dead. -/
theorem Fin.newObjA {c c' : PC} {S R W : List Bytes} {P : Nat} (f : Fin x j c S R W P)
    (eb : c'.b = c.b) (eab : c'.ab = c.ab) (eo : c'.abOpen = c.abOpen)
    (hd : (sm x c).dead → (sm x c').dead) (hpot : Pot x c' → Pot x c)
    (h0 : c.a.nobj = 0) (hnd : ¬ (sm x c).dead)
    (hpx : pX x c'.a.outq = pX x c.a.outq) (hfq : hasFin x c'.a.outq = hasFin x c.a.outq)
    (h1 : c.a.outClosed = true → c.a.outq = [] → c'.a.outClosed = true ∧ c'.a.outq = []) : Fin x j c' S R W P := by
  have hnf : hasFin x c.path = false := by
    cases h : hasFin x c.path with
    | false => rfl
    | true =>
      rcases f.f2 h with hd | ⟨h2, _⟩
      · exact absurd hd hnd
      · omega
  refine f.silentA eb eab eo hd hpot ?_ ?_ ?_ ?_ ?_
  · rw [hpx]; exact f.f0
  · rw [hpx]; exact f.f1.imp id (fun h => h1 h.1 h.2)
  · intro h
    rw [PC.path, hasFin_append, eb, eab, hfq, ← hasFin_append, ← PC.path, hnf] at h
    cases h
  · intro h
    rw [hasFin_path_of h] at hnf; cases hnf
  · intro k1 k2
    have := (f.f6 k1 k2).2.1
    omega

/-! ### The sink takes the oldest queued message -/

theorem Fin.emitA {c c' : PC} {S R W : List Bytes} {P : Nat} (f : Fin x j c S R W P) (m : Msg) (r : List Msg)
    (eb : c'.b = c.b) (eab : c'.ab = if c.abOpen then c.ab ++ [m] else c.ab) (eo : c'.abOpen = c.abOpen)
    (hd : (sm x c).dead → (sm x c').dead) (hpot : Pot x c' → Pot x c)
    (e1 : c'.a.nobj = c.a.nobj) (e2 : c'.a.nw = c.a.nw) (e3 : c'.a.outq = r) (h : c.a.outq = m :: r) :
    Fin x j c' (S ++ pX x [m]) R W P := by
  have hsub : List.Sublist c'.path c.path := by
    unfold PC.path
    rw [eb, eab, e3, h]
    cases c.abOpen with
    | true =>
      rw [if_pos rfl, List.append_assoc, List.append_assoc, List.append_assoc]
      exact List.Sublist.refl _
    | false =>
      rw [if_neg (by decide)]
      exact (List.Sublist.refl _).append (List.sublist_cons_self m r)
  have hpx : pX x c.a.outq = pX x [m] ++ pX x r := by rw [h, ← pX_append]; rfl
  have g0 : (S ++ pX x [m]) ++ pX x r <+: W := by
    rw [List.append_assoc, ← hpx]; exact f.f0
  -- once everything written has left, the message taken now is no `Push x`
  have key : (sm x c).dead ∨ S = W → (sm x c').dead ∨ S ++ pX x [m] = W := by
    rintro (k | k)
    · exact Or.inl (hd k)
    · refine Or.inr ?_
      have h0 := f.f0
      rw [hpx, ← k] at h0
      rw [prefix_self_nil h0, List.append_nil]; exact k
  have key' : hasFin x (inMsgs c.b.inbox) = true → (sm x c).dead ∨ pX x [m] = [] := by
    intro hi
    rcases f.f3 (by rw [hasFin_append, hi]; rfl) with k | k
    · exact Or.inl k
    · refine Or.inr ?_
      have h0 := f.f0
      rw [hpx, ← k] at h0
      exact prefix_self_nil h0
  refine ⟨?_, ?_, ?_, ?_, ?_, ?_, ?_, ?_, ?_, ?_⟩
  · rw [e3]; exact g0
  · rw [e3]
    rcases f.f1 with k | ⟨_, k⟩
    · rw [hpx, ← List.append_assoc] at k; exact Or.inl k
    · rw [h] at k; cases k
  · intro hf
    rcases f.f2 (hasFin_sublist hsub hf) with h' | ⟨h1, h2, h3⟩
    · exact Or.inl (hd h')
    · exact Or.inr ⟨by rw [e1]; exact h1, by rw [e2]; exact h2, finLast_sublist hsub h3⟩
  · rw [eb, eab]
    intro hf
    by_cases hfin : hasFin x (inMsgs c.b.inbox ++ c.ab) = true
    · exact key (f.f3 hfin)
    · -- the `Finish x` is the message taken now
      cases hab : c.abOpen with
      | false => rw [hab, if_neg (by decide)] at hf; exact absurd hf hfin
      | true =>
        rw [hab, if_pos rfl, ← List.append_assoc, hasFin_append, hasFin_single] at hf
        have hm : isFin x m = true := by
          rcases (Bool.or_eq_true _ _).mp hf with k | k
          · exact absurd k hfin
          · exact k
        have hp : hasFin x c.path = true := by
          rw [PC.path, h, hasFin_append, hasFin_cons, hm]; simp
        rcases f.f2 hp with k | ⟨_, _, k⟩
        · exact Or.inl (hd k)
        · refine Or.inr ?_
          rw [PC.path, h] at k
          have hr : pX x r = [] := pX_of_noPush x r (finLast_fin_tail k hm)
          rcases f.f1 with k1 | ⟨_, k1⟩
          · rw [hpx, hr, List.append_nil] at k1; exact k1
          · rw [h] at k1; cases k1
  · rw [eb, eo]
    intro k1 k2 k3
    rcases f.f4 k1 k2 k3 with k | k
    · exact Or.inl (hd k)
    · rcases key' k3 with k' | k'
      · exact Or.inl (hd k')
      · exact Or.inr (by rw [k', List.append_nil]; exact k)
  · rw [eb, eo]
    intro k1 k2 k3 k4
    rcases f.f4p k1 k2 (hpot k3) k4 with k | k
    · exact Or.inl (hd k)
    · rcases key' k4 with k' | k'
      · exact Or.inl (hd k')
      · exact Or.inr (by rw [k', List.append_nil]; exact k)
  · rw [eb]; exact f.f5
  · rw [eb]
    intro k1 k2
    obtain ⟨q1, q2, q3, q4⟩ := f.f6 k1 k2
    exact ⟨q1, by rw [e1]; exact q2, by rw [e2]; exact q3, hasPush_sublist_false hsub q4⟩
  · rw [eb]; exact f.f7
  · rw [eb]; exact f.f8

/-- A WebSocket Close goes out. -/
theorem Fin.sendCloseA {c c' : PC} {S R W : List Bytes} {P : Nat} (f : Fin x j c S R W P)
    (eb : c'.b = c.b) (ea : c'.a = c.a) (eab : c'.ab = if c.abOpen then c.ab ++ [.close] else c.ab)
    (eo : c'.abOpen = c.abOpen) (hd : (sm x c).dead → (sm x c').dead) (hpot : Pot x c' → Pot x c) :
    Fin x j c' S R W P := by
  cases hab : c.abOpen with
  | false =>
    rw [hab, if_neg (by decide)] at eab
    exact f.shrinkA eb eab eo hd hpot (by rw [ea]) (by rw [ea]; exact Nat.le_refl _) (Or.inl (by rw [ea]))
      (by rw [ea]; exact id)
  | true =>
    rw [hab, if_pos rfl] at eab
    have hpath : c'.path = (inMsgs c.b.inbox ++ c.ab) ++ Msg.close :: c.a.outq := by
      unfold PC.path
      rw [eb, ea, eab]
      simp only [List.append_assoc, List.cons_append, List.nil_append]
    have h1 : hasFin x c'.path = hasFin x c.path := by rw [hpath, hasFin_insert x _ _ _ rfl]; rfl
    have h2 : finLast x c'.path = finLast x c.path := by rw [hpath, finLast_insert x _ _ _ rfl rfl]; rfl
    have h3 : hasPush x c'.path = hasPush x c.path := by rw [hpath, hasPush_insert x _ _ _ rfl]; rfl
    have h4 : hasFin x (inMsgs c.b.inbox ++ (c.ab ++ [.close])) = hasFin x (inMsgs c.b.inbox ++ c.ab) := by
      rw [← List.append_assoc, hasFin_append, hasFin_single]; exact Bool.or_false _
    refine ⟨?_, ?_, ?_, ?_, ?_, ?_, ?_, ?_, ?_, ?_⟩
    · rw [ea]; exact f.f0
    · rw [ea]; exact f.f1
    · rw [h1, h2, ea]; exact fun k => (f.f2 k).imp hd id
    · rw [eb, eab, h4]; exact fun k => (f.f3 k).imp hd id
    · rw [eo, hab]; intro k; cases k
    · rw [eo, hab]; intro k; cases k
    · rw [eb]; exact f.f5
    · rw [eb, h3, ea]; exact f.f6
    · rw [eb]; exact f.f7
    · rw [eb]; exact f.f8

/-! ### Numeric consequences of the id discipline -/

/-- A `Connect x` at the head of the left inbox: the left side has no stream object carrying `x`, and `x` is not
    dead for streams. -/
theorem core_connHead {c : PC} {m : Msg} {r : List WsIn} (hc : CoreS ownA ownB (sm x c)) (h : c.a.inbox = .msg m :: r)
    (hm : isConn x m = true) : c.a.nobj = 0 ∧ ¬ (sm x c).dead := by
  have hq : 1 ≤ (sm x c).cQ := by
    show 1 ≤ cC x (inMsgs c.a.inbox ++ c.ba ++ c.b.outq)
    rw [h, inMsgs_cons_msg, List.cons_append, List.cons_append, cC_cons, hm, if_pos rfl]
    omega
  refine ⟨hc.r.connB hq, fun hd => ?_⟩
  have : (sm x c).cQ = 0 := hd.2.2.2.2.2.1
  omega

/-- A pending stream request of the left side: it has no stream object carrying `x`, and `x` is not dead. -/
theorem core_reqA {c : PC} {q : Nat} (hc : CoreS ownA ownB (sm x c)) (hs : c.a.slot = some (.requested q)) :
    c.a.nobj = 0 ∧ ¬ (sm x c).dead := by
  have h1 : (sm x c).sa = 1 := by show sk c.a.slot = 1; rw [hs]; rfl
  exact ⟨hc.l.reqObj h1, fun hd => hd.2.2.2.2.2.2.1 h1⟩

/-- A held bind request with id `x` at the left side: `x` is dead for streams. -/
theorem core_bindHeld {c : PC} (hc : CoreS ownA ownB (sm x c)) (hb : c.a.bh = true) : (sm x c).dead := by
  have h1 : (sm x c).swap.hb = 1 := by show b2n c.a.bh = 1; rw [hb]; rfl
  exact Sm.dead_swap (hc.r.bindDead (Or.inr h1))

/-! ### Every small step of the left side -/

theorem Fin.stepA (hex : ¬(ownA ∧ ownB)) {jA : Nat} {c c' : PC} {S R W : List Bytes} {P : Nat} {ws : List Msg} {acc : List Bytes}
    {xl : List XL} (hc : CoreS ownA ownB (sm x c)) (hw : Wires c) (d : Dir x j c S R) (f : Fin x j c S R W P)
    (st : CStepL x jA c c' ws acc xl) (hn : c'.a.rngNil = false) :
    Fin x j c' (S ++ pX x ws) R (W ++ XL.wrotes xl) P := by
  have _ := hex
  have _ := hw
  have _ := d
  have hd : (sm x c).dead → (sm x c').dead := fun k => dead_stepL hc k st hn
  have hpot : Pot x c' → Pot x c := Pot.stepA st hn
  cases st with
  | act v ws acc xl h =>
    cases h with
    | emit m r h =>
      rw [show W ++ XL.wrotes [] = W from List.append_nil W]
      exact f.emitA m r rfl rfl rfl hd hpot rfl rfl rfl h
    | sendClose =>
      exact Fin.cast0 (f.sendCloseA rfl rfl rfl rfl hd hpot)
    | enq m hc' h1 h3 h4 h5 h2 =>
      exact Fin.cast0 (f.snocA rfl (ab_nil c) rfl hd hpot m h3 h4 rfl rfl rfl hc')
    | enqPush p hc' hw' =>
      exact Fin.castS (f.pushA rfl (ab_nil c) rfl hd hpot rfl hc' hw' hc.l.wle rfl)
    | enqFinS hc' hw' =>
      exact Fin.cast0 (f.finSA rfl (ab_nil c) rfl hd hpot rfl rfl rfl hc' hw' hc.l.wle hc.l.one)
    | enqFinB hc' hb =>
      exact Fin.cast0 (f.finBA rfl (ab_nil c) rfl hd hpot rfl hc' (core_bindHeld hc hb))
    | rng k n hk hn' =>
      exact Fin.cast0 (f.shrinkA rfl (ab_nil c) rfl hd hpot rfl (Nat.le_refl _) (Or.inl rfl) id)
    | draw k n s m hk hn' hdr hs ho hk' =>
      have hm : isPush x m = false ∧ isFin x m = false := by
        rcases hk' with ⟨q, _, hm⟩ | ⟨q, _, hm⟩
        · exact ⟨isConn_not_push hm, isConn_not_fin hm⟩
        · exact ⟨isBind_not_push hm, isBind_not_fin hm⟩
      exact Fin.cast0 (f.snocA rfl (ab_nil c) rfl hd hpot m hm.1 hm.2 rfl rfl rfl ho)
    | pop w r h hw' => exact Fin.cast0 (f.shrinkA rfl (ab_nil c) rfl hd hpot rfl (Nat.le_refl _) (Or.inl rfl) id)
    | popFin r s h hs =>
      refine Fin.castW (by split <;> rfl) (f.shrinkA rfl (ab_nil c) rfl hd hpot rfl (Nat.le_refl _) (Or.inl rfl) id)
    | popBind m r b h hm hb => exact Fin.cast0 (f.shrinkA rfl (ab_nil c) rfl hd hpot rfl (Nat.le_refl _) (Or.inl rfl) id)
    | degrade s k w b rx hs hk hkeep hw' hb hr =>
      exact Fin.cast0 (f.shrinkA rfl (ab_nil c) rfl hd hpot rfl hw' (Or.inl rfl) id)
    | connRej m r h hm => exact Fin.cast0 (f.shrinkA rfl (ab_nil c) rfl hd hpot rfl (Nat.le_refl _) (Or.inl rfl) id)
    | connNew m r n h hm hs =>
      obtain ⟨h0, hnd⟩ := core_connHead hc h hm
      refine Fin.cast0 (f.newObjA rfl (ab_nil c) rfl hd hpot h0 hnd ?_ ?_ ?_)
      · dsimp only
        split
        · rfl
        · rw [pX_append, pX_single_other x _ (isPush_ack x x n), List.append_nil]
      · dsimp only
        split
        · rfl
        · rw [hasFin_append, hasFin_single, isFin_ack, Bool.or_false]
      · intro k1 k2
        dsimp only
        rw [k1, if_pos rfl]
        exact ⟨rfl, k2⟩
    | ackNew m r q h hm hs =>
      obtain ⟨h0, hnd⟩ := core_reqA hc hs
      exact Fin.cast0 (f.newObjA rfl (ab_nil c) rfl hd hpot h0 hnd rfl rfl (fun k1 k2 => ⟨k1, k2⟩))
    | ackOld m r h hm hs => exact Fin.cast0 (f.shrinkA rfl (ab_nil c) rfl hd hpot rfl (Nat.le_refl _) (Or.inl rfl) id)
    | pushAcc p r h hc' => exact Fin.cast0 (f.shrinkA rfl (ab_nil c) rfl hd hpot rfl (Nat.le_refl _) (Or.inl rfl) id)
    | pushRej p r s h hs => exact Fin.cast0 (f.shrinkA rfl (ab_nil c) rfl hd hpot rfl (Nat.le_refl _) (Or.inl rfl) id)
    | grow n h => exact Fin.cast0 (f.shrinkA rfl (ab_nil c) rfl hd hpot rfl (Nat.le_refl _) (Or.inl rfl) id)
    | clearInbox => exact Fin.cast0 (f.shrinkA rfl (ab_nil c) rfl hd hpot rfl (Nat.le_refl _) (Or.inl rfl) id)
    | closeOut =>
      exact Fin.cast0 (f.shrinkA rfl (ab_nil c) rfl hd hpot rfl (Nat.le_refl _) (Or.inl rfl) (fun _ => rfl))
    | clearOutq =>
      exact Fin.cast0 (f.shrinkA rfl (ab_nil c) rfl hd hpot rfl (Nat.le_refl _) (Or.inr ⟨rfl, rfl⟩) (fun _ => rfl))
  | dlv m rest h hm =>
    exact Fin.cast0 (f.shrinkA rfl rfl rfl hd hpot rfl (Nat.le_refl _) (Or.inl rfl) id)
  | dlvClose rest h =>
    exact Fin.cast0 (f.shrinkA rfl rfl rfl hd hpot rfl (Nat.le_refl _) (Or.inl rfl) id)
  | cut w hw' =>
    exact Fin.cast0 (f.shrinkA rfl rfl rfl hd hpot rfl (Nat.le_refl _) (Or.inl rfl) id)

end Penguin.PairAll
