/-
Lemmas/WakerN — the inductive invariants of `Model/WakerN` (several writers on one stream) and their
preservation by every step.  The property theorems (`…_n` in `Props/C12.lean`,
`one_write_one_credit_under_concurrency` in `Props/C03.lean`) are corollaries.

Structure: a predicate on ONE writer that does not mention the shared cells (`WInv`), a predicate on
one writer and a VIEW of the shared cells (`WOk`: the wake-up accounting by counts), and three kinds of
preservation lemmas — the writer's own operation (a statement about `Writer.next` alone), an
operation of another writer (the view moves monotonically), an operation of an actor.
-/
import Penguin.Model.WakerN
import Penguin.Lemmas.Waker

namespace Penguin.Lemmas.WakerN
open Penguin.Waker (PollResult ActorKind APc Actor WPc)
open Penguin.WakerN
open Penguin.Lemmas.Waker (pCloserMid pCloserDone pAckerMid countP_set_add countP_map_write)

/-! ### Lists -/

theorem sum_map_set {α : Type} (f : α → Nat) :
    ∀ (l : List α) (i : Nat) (a b : α), l[i]? = some a →
      ((l.set i b).map f).sum + f a = (l.map f).sum + f b := by
  intro l
  induction l with
  | nil => intro i a b h; simp at h
  | cons x xs ih =>
    intro i a b h
    cases i with
    | zero => simp at h; subst h; simp; omega
    | succ j =>
      simp at h
      have := ih j a b h
      simp only [List.set_cons_succ, List.map_cons, List.sum_cons] at *
      omega

theorem getElem?_set_cases {α : Type} {l : List α} {i j : Nat} {b x : α}
    (h : (l.set i b)[j]? = some x) :
    (j = i ∧ x = b) ∨ (j ≠ i ∧ l[j]? = some x) := by
  rw [List.getElem?_set] at h
  split at h
  · next e =>
    subst e
    split at h
    · left; exact ⟨rfl, by simpa using h.symm⟩
    · simp at h
  · next e => right; exact ⟨fun e' => e e'.symm, h⟩

/-! ### One writer, no shared cells -/

/-- past `register` in the current poll and not yet past the re-check, or parked -/
def postReg (w : Writer) : Prop := w.pc = .reloadFin ∨ w.pc = .reloadCredit ∨ w.parked = true

structure WInv (w : Writer) : Prop where
  takes_pos : ∀ v ∈ w.takes, 0 < v
  cas_pos : ∀ o, w.pc = .cas o → 0 < o
  sent_takes : w.sent + (if w.pc = .send then 1 else 0) = w.takes.length
  log_some : w.log.countP (fun p => p.2 == .some) = w.sent
  log_closed : ∀ p ∈ w.log, p.1 = true → p.2 = .none
  mid_start : w.pc ≠ .loadFin → w.pc ≠ .finished → w.curStartClosed = false
  post_reg : postReg w → w.curRegistered = true

theorem initWriter_winv (n : Nat) : WInv (initWriter n) := by
  constructor <;> simp [initWriter, postReg, Writer.parked] <;> (try split) <;> simp_all

theorem finishPoll_cases (w : Writer) (r : PollResult) :
    (w.pollsLeft = 0 ∧ w.finishPoll r = { w with log := (w.curStartClosed, r) :: w.log, pc := .finished }) ∨
    (∃ n, w.pollsLeft = n + 1 ∧ w.finishPoll r =
      { w with log := (w.curStartClosed, r) :: w.log, pc := .loadFin, cur := w.cur + 1, pollsLeft := n,
               curRegistered := false }) := by
  unfold Writer.finishPoll
  cases h : w.pollsLeft with
  | zero => left; simp
  | succ n => right; exact ⟨n, rfl, by simp⟩

theorem next_winv {w : Writer} (h : WInv w) (closed : Bool) (credit wakes : Nat) :
    WInv (w.next closed credit wakes) := by
  obtain ⟨h1, h2, h3, h4, h5, h6, h7⟩ := h
  unfold Writer.next
  cases hpc : w.pc <;> simp only []
  case finished => exact ⟨h1, h2, h3, h4, h5, h6, h7⟩
  all_goals (try have hp := h2 _ hpc)
  all_goals clear h2
  all_goals (repeat' split)
  all_goals
    first
    | (constructor <;> simp_all [postReg, Writer.parked] <;> (try omega); done)
    | (cases hl : w.pollsLeft <;> constructor <;>
        simp_all [postReg, Writer.parked, Writer.finishPoll] <;> (try omega))

/-! ### The effect of a writer's operation on the shared cells -/

theorem writerStep_none {s : State} {i : Nat} (h : s.writers[i]? = none) : writerStep s i = s := by
  simp [writerStep, h]

theorem writerStep_some {s : State} {i : Nat} {w : Writer} (h : s.writers[i]? = some w) :
    writerStep s i = { s with
      credit := if w.pc = .cas s.credit then s.credit - 1 else s.credit,
      registered := if w.pc = .register then some (i, w.cur) else s.registered,
      lastReg := if w.pc = .register then some (i, w.cur) else s.lastReg,
      writers := s.writers.set i (w.next s.closed s.credit s.wakeLog.length) } := by
  simp only [writerStep, h]
  cases hpc : w.pc <;> simp
  next orig =>
    by_cases e : s.credit = orig
    · subst e; simp
    · have : ¬ orig = s.credit := fun e' => e e'.symm
      simp [e, this]

/-! ### One writer and a view of the shared cells: the wake-up accounting

`len` = wake-ups delivered so far, `slot` = the `AtomicWaker` holds a waker, `cd` = closers that have
finished, `am` = acknowledgers between `fetch_add` and `wake()`, `credit`. -/

structure WOk (len : Nat) (slot : Bool) (cd am credit : Nat) (w : Writer) : Prop where
  mark_le : w.regMark ≤ len
  /-- no wake-up delivered since this writer registered: the cell is not empty -/
  slot_full : postReg w → w.regMark = len → slot = true
  recheck : w.pc = .reloadCredit → w.regMark = len → cd = 0
  /-- parked and no wake-up delivered since: no close has completed, and any credit is about to be
      announced by a `wake()` -/
  parked_ok : w.parked = true → w.regMark = len → cd = 0 ∧ (0 < credit → 0 < am)

theorem initWriter_wok (n cd am credit : Nat) (slot : Bool) : WOk 0 slot cd am credit (initWriter n) := by
  constructor <;> simp [initWriter, postReg, Writer.parked] <;> (try split) <;> simp_all

/-- The writer's own operation. -/
theorem next_wok {len cd am credit : Nat} {slot : Bool} {w : Writer} (h : WOk len slot cd am credit w)
    (closed : Bool) (hcl : closed = false → cd = 0) :
    WOk len (slot || w.pc == .register) cd am (if w.pc = .cas credit then credit - 1 else credit)
      (w.next closed credit len) := by
  obtain ⟨h1, h2, h3, h4⟩ := h
  unfold Writer.next
  cases hpc : w.pc <;> simp only []
  case finished => exact ⟨h1, by simpa [hpc] using h2, h3, by simpa [hpc] using h4⟩
  all_goals (repeat' split)
  all_goals
    first
    | (constructor <;> simp_all [postReg, Writer.parked] <;> (try omega); done)
    | (cases hl : w.pollsLeft <;> constructor <;>
        simp_all [postReg, Writer.parked, Writer.finishPoll] <;> (try omega))

/-- An operation of another writer: the cell can only become non-empty, the credit only smaller. -/
theorem wok_mono {len cd am credit credit' : Nat} {slot slot' : Bool} {w : Writer}
    (h : WOk len slot cd am credit w) (hs : slot = true → slot' = true) (hc : credit' ≤ credit) :
    WOk len slot' cd am credit' w :=
  ⟨h.1, fun a b => hs (h.2 a b), h.3, fun a b => ⟨(h.4 a b).1, fun c => (h.4 a b).2 (by omega)⟩⟩

/-- `fetch_add(n)` of an acknowledger (which is now between `fetch_add` and `wake()`). -/
theorem wok_ack {len cd am credit : Nat} {slot : Bool} {w : Writer} (h : WOk len slot cd am credit w) (n : Nat) :
    WOk len slot cd (am + 1) (credit + n) w :=
  ⟨h.1, h.2, h.3, fun a b => ⟨(h.4 a b).1, fun _ => by omega⟩⟩

/-- A `wake()` that finds a waker: one more wake-up delivered, everything conditional on "no wake-up
    since" is vacuous. -/
theorem wok_wake_some {len cd am credit cd' am' : Nat} {slot slot' : Bool} {w : Writer}
    (h : WOk len slot cd am credit w) : WOk (len + 1) slot' cd' am' credit w :=
  ⟨by have := h.1; omega, fun _ e => by have := h.1; omega, fun _ e => by have := h.1; omega,
   fun _ e => by have := h.1; omega⟩

/-- A `wake()` that finds the cell empty: then a wake-up HAS been delivered since the registration. -/
theorem wok_wake_none {len cd am credit cd' am' : Nat} {w : Writer}
    (h : WOk len false cd am credit w) : WOk len false cd' am' credit w := by
  obtain ⟨h1, h2, h3, h4⟩ := h
  refine ⟨h1, h2, ?_, ?_⟩
  · intro a b; exact absurd (h2 (Or.inr (Or.inl a)) b) (by simp)
  · intro a b; exact absurd (h2 (Or.inr (Or.inr a)) b) (by simp)

end Penguin.Lemmas.WakerN
