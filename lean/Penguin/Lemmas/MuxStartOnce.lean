/-
`Once` / `OnceB` (Lemmas/MuxOnce, MuxOnceB: every open / bind request is answered at most once, and
only if it was pending) for the three functions of `Model/MuxStart.lean`, and the history step of
`hist_step` / `histB_step` for ANY step that satisfies the relation (so that it applies to the
stimuli of `Model/MuxHist.lean`).
Core Lean only.
-/
import Penguin.Model.MuxStart
import Penguin.Lemmas.MuxOnceB

namespace Penguin.Mux

/-! ### Dropping the `wireClose` events changes no answer -/

theorem doneReqs_dropWireClose (evs : List Ev) : doneReqs (dropWireClose evs) = doneReqs evs := by
  unfold dropWireClose
  induction evs with
  | nil => rfl
  | cons ev rest ih => cases ev <;> simp [doneReqs, ih]

theorem doneB_dropWireClose (evs : List Ev) : doneB (dropWireClose evs) = doneB evs := by
  unfold dropWireClose
  induction evs with
  | nil => rfl
  | cons ev rest ih => cases ev <;> simp [doneB, ih]

/-- Only the answers among the events matter. -/
theorem Once.evsD {new : List Nat} {e e' : EP} {evs evs' : List Ev} (s : Once new e e' evs)
    (h : doneReqs evs' = doneReqs evs) : Once new e e' evs' :=
  ⟨s.sub, s.nd, by rw [h]; exact s.done, by rw [h]; exact s.dnd⟩

theorem OnceB.evsD {new : List Nat} {e e' : EP} {evs evs' : List Ev} (s : OnceB new e e' evs)
    (h : doneB evs' = doneB evs) : OnceB new e e' evs' :=
  ⟨s.sub, s.nd, by rw [h]; exact s.done, by rw [h]; exact s.dnd⟩

/-! ### `Once` -/

theorem windDownPrep_pend (e : EP) : pend (windDownPrep e) = pend e := by
  unfold Mux.windDownPrep; exact disallowAll_pend e e.flows

theorem Once.taskPollSinkFailed (e : EP) : Once [] e (taskPollSinkFailed e).1 (taskPollSinkFailed e).2 := by
  unfold Mux.taskPollSinkFailed
  split
  · exact Once.refl e
  · split
    · rename_i res _
      have g : Once [] e (Mux.windDownTail { e with draining := none, outq := [] } [] e.srcEnded res).1
          (Mux.windDownTail { e with draining := none, outq := [] } [] e.srcEnded res).2 :=
        (Once.windDownTail { e with draining := none, outq := [] } [] e.srcEnded res rfl).congr rfl rfl
      exact g.evsD (doneReqs_dropWireClose _)
    · obtain ⟨evs, h1, h2⟩ := Once.settleLoop (2 * e.inbox.length + 2) { e with droppedq := [] } []
      simp only
      generalize Mux.settleLoop (2 * e.inbox.length + 2) { e with droppedq := [] } [] = r at h1 h2
      obtain ⟨e1, evs1⟩ := r
      simp only [List.nil_append] at h1 h2 ⊢
      subst h1
      have g1 : Once [] e e1 evs1 := h2.congr rfl rfl
      split
      · exact g1.evsD (doneReqs_dropWireClose _)
      · have g2 : Once [] e1 (Mux.windDownTail (Mux.windDownPrep e1) [] e1.srcEnded .wsError).1
            (Mux.windDownTail (Mux.windDownPrep e1) [] e1.srcEnded .wsError).2 :=
          (Once.windDownTail (Mux.windDownPrep e1) [] e1.srcEnded .wsError rfl).congr (windDownPrep_pend e1).symm rfl
        exact (g1.trans g2).evsD (by rw [doneReqs_append, doneReqs_append, doneReqs_dropWireClose])

theorem Once.applySinkFail (e : EP) : Once [] e (applySinkFail e).1 (applySinkFail e).2.2 := by
  have h1 := Once.taskPollSinkFailed e
  unfold Mux.applySinkFail
  generalize Mux.taskPollSinkFailed e = r at h1
  obtain ⟨e1, evs1⟩ := r
  exact h1.trans (Once.settle e1)

theorem Once.applyStart (e : EP) (sf : Bool) : Once [] e (applyStart e sf).1 (applyStart e sf).2.2 := by
  unfold Mux.applyStart
  split
  · exact Once.applySinkFail e
  · exact Once.settle e

/-! ### `OnceB` -/

theorem windDownPrep_pendB (e : EP) : pendB (windDownPrep e) = pendB e := by
  unfold Mux.windDownPrep; exact disallowAll_pendB e e.flows

theorem OnceB.taskPollSinkFailed (e : EP) : OnceB [] e (taskPollSinkFailed e).1 (taskPollSinkFailed e).2 := by
  unfold Mux.taskPollSinkFailed
  split
  · exact OnceB.refl e
  · split
    · rename_i res _
      have g : OnceB [] e (Mux.windDownTail { e with draining := none, outq := [] } [] e.srcEnded res).1
          (Mux.windDownTail { e with draining := none, outq := [] } [] e.srcEnded res).2 :=
        (OnceB.windDownTail { e with draining := none, outq := [] } [] e.srcEnded res rfl).congr rfl rfl
      exact g.evsD (doneB_dropWireClose _)
    · obtain ⟨evs, h1, h2⟩ := OnceB.settleLoop (2 * e.inbox.length + 2) { e with droppedq := [] } []
      simp only
      generalize Mux.settleLoop (2 * e.inbox.length + 2) { e with droppedq := [] } [] = r at h1 h2
      obtain ⟨e1, evs1⟩ := r
      simp only [List.nil_append] at h1 h2 ⊢
      subst h1
      have g1 : OnceB [] e e1 evs1 := h2.congr rfl rfl
      split
      · exact g1.evsD (doneB_dropWireClose _)
      · have g2 : OnceB [] e1 (Mux.windDownTail (Mux.windDownPrep e1) [] e1.srcEnded .wsError).1
            (Mux.windDownTail (Mux.windDownPrep e1) [] e1.srcEnded .wsError).2 :=
          (OnceB.windDownTail (Mux.windDownPrep e1) [] e1.srcEnded .wsError rfl).congr (windDownPrep_pendB e1).symm rfl
        exact (g1.trans g2).evsD (by rw [doneB_append, doneB_append, doneB_dropWireClose])

theorem OnceB.applySinkFail (e : EP) : OnceB [] e (applySinkFail e).1 (applySinkFail e).2.2 := by
  have h1 := OnceB.taskPollSinkFailed e
  unfold Mux.applySinkFail
  generalize Mux.taskPollSinkFailed e = r at h1
  obtain ⟨e1, evs1⟩ := r
  exact h1.trans (OnceB.settle e1)

theorem OnceB.applyStart (e : EP) (sf : Bool) : OnceB [] e (applyStart e sf).1 (applyStart e sf).2.2 := by
  unfold Mux.applyStart
  split
  · exact OnceB.applySinkFail e
  · exact OnceB.settle e

/-! ### The history step, for any step that satisfies the relation -/

theorem hist_step_of {opened done new : List Nat} {e e' : EP} {evs : List Ev} (h : Hist opened done e)
    (s : Once new e e' evs) (hnew : new.Nodup) (hfresh : (opened ++ new).Nodup) :
    Hist (opened ++ new) (done ++ doneReqs evs) e' := by
  have hdisj : ∀ x, x ∈ opened → x ∈ new → False := fun x h1 h2 =>
    (List.nodup_append.mp hfresh).2.2 x h1 x h2 rfl
  have hn : (pend e ++ new).Nodup :=
    List.nodup_append.mpr ⟨h.nd, hnew, fun x hx y hy hxy => hdisj x (h.sub x hx) (hxy ▸ hy)⟩
  refine ⟨?_, s.nd hn, ?_, ?_⟩
  · intro r hr
    rcases s.sub r hr with h1 | h1
    · exact List.mem_append_left _ (h.sub r h1)
    · exact List.mem_append_right _ h1
  · refine List.nodup_append.mpr ⟨h.dnd, s.dnd hn, ?_⟩
    intro x hx y hy hxy
    subst hxy
    rcases (s.done hn x hy).1 with h1 | h1
    · exact (h.dsub x hx).2 h1
    · exact hdisj x (h.dsub x hx).1 h1
  · intro r hr
    rcases List.mem_append.mp hr with h1 | h1
    · refine ⟨List.mem_append_left _ (h.dsub r h1).1, ?_⟩
      intro hc
      rcases s.sub r hc with h2 | h2
      · exact (h.dsub r h1).2 h2
      · exact hdisj r (h.dsub r h1).1 h2
    · obtain ⟨h2, h3⟩ := s.done hn r h1
      refine ⟨?_, h3⟩
      rcases h2 with h2 | h2
      · exact List.mem_append_left _ (h.sub r h2)
      · exact List.mem_append_right _ h2

theorem histB_step_of {opened done new : List Nat} {e e' : EP} {evs : List Ev} (h : HistB opened done e)
    (s : OnceB new e e' evs) (hnew : new.Nodup) (hfresh : (opened ++ new).Nodup) :
    HistB (opened ++ new) (done ++ doneB evs) e' := by
  have hdisj : ∀ x, x ∈ opened → x ∈ new → False := fun x h1 h2 =>
    (List.nodup_append.mp hfresh).2.2 x h1 x h2 rfl
  have hn : (pendB e ++ new).Nodup :=
    List.nodup_append.mpr ⟨h.nd, hnew, fun x hx y hy hxy => hdisj x (h.sub x hx) (hxy ▸ hy)⟩
  refine ⟨?_, s.nd hn, ?_, ?_⟩
  · intro r hr
    rcases s.sub r hr with h1 | h1
    · exact List.mem_append_left _ (h.sub r h1)
    · exact List.mem_append_right _ h1
  · refine List.nodup_append.mpr ⟨h.dnd, s.dnd hn, ?_⟩
    intro x hx y hy hxy
    subst hxy
    rcases (s.done hn x hy).1 with h1 | h1
    · exact (h.dsub x hx).2 h1
    · exact hdisj x (h.dsub x hx).1 h1
  · intro r hr
    rcases List.mem_append.mp hr with h1 | h1
    · refine ⟨List.mem_append_left _ (h.dsub r h1).1, ?_⟩
      intro hc
      rcases s.sub r hc with h2 | h2
      · exact (h.dsub r h1).2 h2
      · exact hdisj r (h.dsub r h1).1 h2
    · obtain ⟨h2, h3⟩ := s.done hn r h1
      refine ⟨?_, h3⟩
      rcases h2 with h2 | h2
      · exact List.mem_append_left _ (h.sub r h2)
      · exact List.mem_append_right _ h2

end Penguin.Mux
