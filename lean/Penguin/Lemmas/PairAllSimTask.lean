/-
`Sim` / `SimX` (see `Lemmas/PairAllView.lean`) for the connection task of the endpoint model: `processIn`,
`recvOne`, the wind-down (`disallowAll`, `sendSome`, `windDownInbox`, `windDownFinish`, `windDownTail`, `windDown`,
`drainStep`, `closingStep`), the task's loop `settleLoop`, the open futures (`runRetries`, `runDone`) and
`settle`.  The functions that process frames are stated as `SimX`, with the `.fin` records of their end-event
mirror (`Lemmas/MuxEof.lean`): one record for every `Finish x` processed while the slot of `x` was
`Established j`; the others record nothing (`Sim`).  The inbox is an argument of `Sim`; the loops that walk over
a list of transport items without updating the `inbox` field (`windDownInbox`) are stated with that list.
Core Lean only.
-/
import Penguin.Lemmas.PairAllSimFrame

namespace Penguin.PairAll
open Penguin.Mux

variable {x j : Nat}

/-- Rewrite the inbox arguments. -/
theorem SimX.inb {l l' l1 l1' : List WsIn} {e e' : EP} {evs : List Ev} {L : Log} {X : List XL}
    (s : SimX x j l e l' e' evs L X) (h1 : l1 = l) (h2 : l1' = l') : SimX x j l1 e l1' e' evs L X := by
  subst h1 h2; exact s

theorem Sim.inb {l l' l1 l1' : List WsIn} {e e' : EP} {evs : List Ev} {L : Log} (s : Sim x j l e l' e' evs L)
    (h1 : l1 = l) (h2 : l1' = l') : Sim x j l1 e l1' e' evs L := SimX.inb s h1 h2

/-- A silent step without records, then a recorded one. -/
theorem SimX.tr0 {la lb lc : List WsIn} {a b c : EP} {ev2 : List Ev} {L : Log} {X : List XL}
    (s : Sim x j la a lb b [] []) (t : SimX x j lb b lc c ev2 L X) : SimX x j la a lc c ev2 L X :=
  (((SimX.trans s t).evs (List.nil_append _).symm).log rfl).rec rfl

/-- A recorded step, then a silent one without records. -/
theorem SimX.tr1 {la lb lc : List WsIn} {a b c : EP} {ev1 : List Ev} {L : Log} {X : List XL}
    (s : SimX x j la a lb b ev1 L X) (t : Sim x j lb b lc c [] []) : SimX x j la a lc c ev1 L X :=
  (((SimX.trans s t).evs (List.append_nil _).symm).log (List.append_nil _).symm).rec (List.append_nil _).symm

/-- A recorded step preceded by a silent one without records. -/
theorem SimX.tr0' {la lb lc : List WsIn} {a b c : EP} {ev2 : List Ev} {L : Log} {X : List XL}
    (t : SimX x j lb b lc c ev2 L X) (s : Sim x j la a lb b [] []) : SimX x j la a lc c ev2 L X := SimX.tr0 s t

/-- A parked hand-over is abandoned. -/
theorem Sim.parkNone {l : List WsIn} (e : EP) : Sim x j l e l { e with park := none } [] [] := by
  refine Sim.bhDrop e _ rfl ?_
  simp only [bindHeld, Bool.or_false]
  intro h; rw [h]; rfl

theorem finsOf_slotEnds_ne (e : EP) (s : Slot) (c : EndCause) (hc : c ≠ .peerFinish x) :
    finsOf x j (slotEnds e s c) = [] := by
  cases s <;> simp only [slotEnds, finsOf_nil]
  split
  · simp [finsOf, hc]
  · rfl

/-! ### One item from the transport -/

/-- `process_message`: the item is the head of the inbox before, and gone after (an item that ends the
    source is taken by `recvOne` / left in place by the wind-down). -/
theorem SimX.processIn {l : List WsIn} (e : EP) (w : WsIn) (ig : Bool) (hsf : SF e) (hj : J x j (processIn e w ig).1)
    (hend : isEnd w = false) :
    SimX x j (w :: l) e l (processIn e w ig).1 (processIn e w ig).2.1 (processInLog e w)
      (finsOf x j (processInEnds e w)) := by
  cases w with
  | msg m =>
    cases m with
    | frame f => exact Sim.processFrame e f ig hsf hj
    | ping => exact (Sim.pop e _ (by intro m hm; cases hm; exact ⟨rfl, rfl, rfl, rfl, rfl⟩) rfl).toX
    | pong => exact (Sim.pop e _ (by intro m hm; cases hm; exact ⟨rfl, rfl, rfl, rfl, rfl⟩) rfl).toX
    | close => exact (Sim.pop e _ (by intro m hm; cases hm; exact ⟨rfl, rfl, rfl, rfl, rfl⟩) rfl).toX
  | bad b => exact (Sim.pop e _ (by intro m hm; cases hm) rfl).toX
  | err => simp [isEnd] at hend
  | eof => simp [isEnd] at hend

theorem recvOne_inbox (e : EP) (w : WsIn) (rest : List WsIn) : (recvOne e w rest).1.inbox = rest := by
  simp only [Mux.recvOne]
  rw [processIn_inbox]

/-- The receive loop takes one item: an item that ends the source marks the source as ended. -/
theorem SimX.recvOne {rest : List WsIn} (e : EP) (w : WsIn) (hsf : SF e) (hj : J x j (recvOne e w rest).1) :
    SimX x j (w :: rest) e rest (recvOne e w rest).1 (recvOne e w rest).2.1 (recvOneLog e w rest)
      (finsOf x j (recvOneEnds e w rest)) := by
  cases w with
  | eof =>
    refine Sim.toX (Sim.one (AStep.pop (view x j e (.eof :: rest)) .eof rest rfl (by intro m hm; cases hm)) ?_ rfl rfl)
    simp [Mux.recvOne, Mux.processIn, view, canAcc, isEnd, bindHeld]
  | err =>
    refine Sim.toX (Sim.one (AStep.pop (view x j e (.err :: rest)) .err rest rfl (by intro m hm; cases hm)) ?_ rfl rfl)
    simp [Mux.recvOne, Mux.processIn, view, canAcc, isEnd, bindHeld]
  | msg m =>
    simp only [Mux.recvOne, recvOneLog, recvOneEnds, reduceCtorEq, or_self, if_false] at hj ⊢
    exact (SimX.processIn (l := rest) { e with inbox := rest } (.msg m) false hsf hj rfl).congr rfl rfl
  | bad b =>
    simp only [Mux.recvOne, recvOneLog, recvOneEnds, reduceCtorEq, or_self, if_false] at hj ⊢
    exact (SimX.processIn (l := rest) { e with inbox := rest } (.bad b) false hsf hj rfl).congr rfl rfl

/-! ### The pieces of the wind-down -/

theorem Sim.disallowAll {l : List WsIn} (e : EP) (fl : List (Nat × Slot)) : Sim x j l e l (disallowAll e fl) [] [] := by
  induction fl generalizing e with
  | nil => exact Sim.refl l e
  | cons p fl ih =>
    obtain ⟨fid, s⟩ := p
    cases s with
    | established i =>
      simp only [Mux.disallowAll]
      exact (Sim.modObj e i Obj.disallowWrite (by sim_side) (by sim_side)).tr0 (ih _)
    | requested r => simp only [Mux.disallowAll]; exact ih e
    | bindRequested r => simp only [Mux.disallowAll]; exact ih e

theorem closeLocal_flows_nil (e : EP) (s : Slot) (fid : Nat) (inh final : Bool) (h : e.flows = []) :
    (closeLocal e s fid inh final).1.flows = [] := by
  unfold Mux.closeLocal Mux.openRejected
  repeat' split
  all_goals simp [EP.modObj, EP.enqFrame, EP.enq, h]
  all_goals split <;> simp

theorem canAcc_flows_nil (e : EP) (h : e.flows = []) : canAcc x j e = false := by
  simp [canAcc, canAccF, h]

/-- The flow table was emptied before: no slot is left that could be object `j`'s. -/
theorem Sim.drainFlows {l : List WsIn} (e : EP) (fl : List (Nat × Slot)) (h : e.flows = []) :
    Sim x j l e l (drainFlows e fl).1 (drainFlows e fl).2 [] := by
  induction fl generalizing e with
  | nil => exact Sim.refl l e
  | cons p fl ih =>
    obtain ⟨fid, s⟩ := p
    simp only [Mux.drainFlows]
    exact (Sim.closeLocal e s fid true true (by intro hc; rw [canAcc_flows_nil e h] at hc; cases hc)).tr
      (ih _ (closeLocal_flows_nil e s fid true true h))

theorem finsOf_drainFlowsEnds (e : EP) (res : ExitRes) (fl : List (Nat × Slot)) :
    finsOf x j (drainFlowsEnds e res fl) = [] := by
  induction fl generalizing e with
  | nil => rfl
  | cons p fl ih =>
    obtain ⟨fid, s⟩ := p
    simp only [drainFlowsEnds, finsOf_append, ih, List.append_nil]
    exact finsOf_slotEnds_ne e s _ (by intro h; cases h)

theorem finsOf_windDownFinishEnds (e : EP) (res : ExitRes) : finsOf x j (windDownFinishEnds e res) = [] :=
  finsOf_drainFlowsEnds _ res _

/-- The send loop hands the `n` oldest queued messages to the transport. -/
theorem Star.emits (n : Nat) (v : View) : Star x j v { v with outq := v.outq.drop n } (v.outq.take n) [] [] := by
  induction n generalizing v with
  | zero => exact (Star.refl v).cast (by rw [List.drop_zero]) (by simp) rfl
  | succ n ih =>
    cases h : v.outq with
    | nil => exact (Star.refl v).cast (by cases v; simp_all) (by simp) rfl
    | cons m r =>
      exact (Star.step (AStep.emit v m r h) (ih { v with outq := r })).cast (by simp) (by simp) rfl

theorem Sim.sendSome {l : List WsIn} (e : EP) : Sim x j l e l (sendSome e).1 (sendSome e).2 [] := by
  unfold Mux.sendSome
  split
  · exact (Star.emits e.outq.length (view x j e l)).cast (by simp [view, canAcc, bindHeld]) (by rw [wireMsgs_wires]; simp [view]) rfl
  · rename_i n _
    exact (Star.emits n (view x j e l)).cast (by simp [view, canAcc, bindHeld]) (by rw [wireMsgs_wires]; simp [view]) rfl

theorem Sim.dropPrep {l : List WsIn} (e : EP) : Sim x j l e l (dropPrep e) [] [] :=
  ((Sim.disallowAll e e.flows).tr0
    (Sim.one (e' := { Mux.disallowAll e e.flows with outClosed := true })
      (AStep.closeOut (view x j (Mux.disallowAll e e.flows) l)) rfl rfl rfl)).tr0
    ((Sim.parkNone _).congr rfl rfl)

theorem Sim.windDownPrep {l : List WsIn} (e : EP) : Sim x j l e l (windDownPrep e) [] [] :=
  ((Sim.disallowAll e e.flows).tr0
    (Sim.one (e' := { Mux.disallowAll e e.flows with outClosed := true, outq := [] })
      (AStep.clearOutq (view x j (Mux.disallowAll e e.flows) l)) rfl rfl rfl)).tr0
    ((Sim.parkNone _).congr rfl rfl)

theorem Sim.unpark {l : List WsIn} (e : EP) : Sim x j l e l (unpark e) [] [] := by
  unfold Mux.unpark
  split
  · exact Sim.refl l e
  · split
    · split
      · exact (Sim.modObj e _ (fun o => { o with rxOpen := false }) (by sim_side) (by sim_side)).tr0
          ((Sim.parkNone _).congr rfl rfl)
      · exact Sim.parkNone e
    · split
      · exact (Sim.parkNone e).congr rfl rfl
      · exact Sim.refl l e
  · rename_i b hp
    split
    · exact (Sim.parkNone e).tr0 (Sim.enqFrame _ _ rfl rfl rfl)
    · split
      · -- the parked bind request moves to the bind queue: it stays held
        refine Sim.bhDrop e _ rfl ?_
        simp only [bindHeld, hp, List.any_append, List.any_cons, List.any_nil, Bool.or_false]
        cases e.bindq.any (fun b => b.fid == x) <;> cases e.held.any (fun b => b.fid == x) <;> simp
      · exact Sim.refl l e

/-! ### What the source still has, after the sink was closed -/

/-- The items from the first one that ends the source on (none if the source does not end). -/
def endRest : List WsIn → List WsIn
  | [] => []
  | .err :: r => .err :: r
  | .eof :: r => .eof :: r
  | _ :: r => endRest r

theorem windDownInbox_not_ended (e : EP) (l : List WsIn) (h : (windDownInbox e l).2.2 = false) : endRest l = [] := by
  induction l generalizing e with
  | nil => rfl
  | cons w l ih =>
    cases w with
    | err => simp [Mux.windDownInbox] at h
    | eof => simp [Mux.windDownInbox] at h
    | msg m => simp only [Mux.windDownInbox] at h; simp only [endRest]; exact ih _ h
    | bad b => simp only [Mux.windDownInbox] at h; simp only [endRest]; exact ih _ h

theorem windDownInbox_ended (e : EP) (l : List WsIn) (h : (windDownInbox e l).2.2 = true) : endRest l ≠ [] := by
  induction l generalizing e with
  | nil => simp [Mux.windDownInbox] at h
  | cons w l ih =>
    cases w with
    | err => simp [endRest]
    | eof => simp [endRest]
    | msg m => simp only [Mux.windDownInbox] at h; simp only [endRest]; exact ih _ h
    | bad b => simp only [Mux.windDownInbox] at h; simp only [endRest]; exact ih _ h

/-- The wind-down reads on until the source ends (the item that ends it stays) or nothing is buffered. -/
theorem SimX.windDownInbox (e : EP) (l : List WsIn) (hsf : SF e) (hj : J x j (windDownInbox e l).1) :
    SimX x j l e (endRest l) (windDownInbox e l).1 (windDownInbox e l).2.1 (windDownInboxLog e l)
      (finsOf x j (windDownInboxEnds e l)) := by
  induction l generalizing e with
  | nil => exact (Sim.refl [] e).toX
  | cons w l ih =>
    cases w with
    | err => exact (Sim.refl _ e).toX
    | eof => exact (Sim.refl _ e).toX
    | msg m =>
      simp only [Mux.windDownInbox, windDownInboxLog, windDownInboxEnds, endRest, finsOf_append] at hj ⊢
      have hsf1 : SF { (Mux.processIn e (.msg m) true).1 with park := none } :=
        SF.grow ((Grow.processIn e (.msg m) true).trans (Grow.same rfl rfl)) hsf
      have hj1 : J x j (Mux.processIn e (.msg m) true).1 :=
        J.back ((Grow.same rfl rfl : Grow (Mux.processIn e (.msg m) true).1 { (Mux.processIn e (.msg m) true).1 with park := none }).trans
          (Grow.windDownInbox _ l)) hj
      exact (SimX.processIn (l := l) e (.msg m) true hsf hj1 rfl).trans ((ih _ hsf1 hj).tr0' (Sim.parkNone _))
    | bad b =>
      simp only [Mux.windDownInbox, windDownInboxLog, windDownInboxEnds, endRest, finsOf_append] at hj ⊢
      have hsf1 : SF { (Mux.processIn e (.bad b) true).1 with park := none } :=
        SF.grow ((Grow.processIn e (.bad b) true).trans (Grow.same rfl rfl)) hsf
      have hj1 : J x j (Mux.processIn e (.bad b) true).1 :=
        J.back ((Grow.same rfl rfl : Grow (Mux.processIn e (.bad b) true).1 { (Mux.processIn e (.bad b) true).1 with park := none }).trans
          (Grow.windDownInbox _ l)) hj
      exact (SimX.processIn (l := l) e (.bad b) true hsf hj1 rfl).trans ((ih _ hsf1 hj).tr0' (Sim.parkNone _))

/-- The end of the wind-down: what the source still had is dropped, every slot is released, every flow
    is closed locally. -/
theorem Sim.windDownFinish {l : List WsIn} (e : EP) (res : ExitRes) :
    Sim x j l e [] (windDownFinish e res).1 (windDownFinish e res).2 [] := by
  have g0 : Sim x j l e [] { e with flows := [] } [] [] :=
    Sim.one (AStep.clearInbox (view x j e l)) rfl rfl rfl
  have g1 := (g0.tr0 (Sim.drainFlows (l := []) { e with flows := [] } e.flows rfl)).tr1
    (Sim.parkNone (l := []) (Mux.drainFlows { e with flows := [] } e.flows).1)
  simp only [Mux.windDownFinish]
  refine (g1.congr rfl rfl).lbl ?_ rfl
  simp [wireMsgs_append, wireMsgs_map_openDone, wireMsgs]

theorem windDownTail_inbox (e1 : EP) (flushed : List Ev) (s : Bool) (res : ExitRes) :
    (windDownTail e1 flushed s res).1.inbox = [] := by
  simp only [Mux.windDownTail]
  split
  · rw [windDownFinish_inbox]
  · rfl

/-- The tail of the wind-down: the sink is closed, the source is read on; its events start with the
    `flushed` ones it was given. -/
theorem SimX.windDownTail (e1 : EP) (flushed : List Ev) (s : Bool) (res : ExitRes) (hsf : SF e1)
    (hj : J x j (windDownTail e1 flushed s res).1) :
    ∃ evs, (windDownTail e1 flushed s res).2 = flushed ++ evs ∧
      SimX x j e1.inbox e1 [] (windDownTail e1 flushed s res).1 evs (windDownTailLog e1)
        (finsOf x j (windDownTailEnds e1 s res)) := by
  have g0 : Sim x j e1.inbox e1 e1.inbox e1 [Ev.wireClose] [] :=
    Sim.one (AStep.sendClose (view x j e1 e1.inbox)) rfl rfl rfl
  revert hj
  simp only [Mux.windDownTail, windDownTailLog, windDownTailEnds]
  split
  · intro hj
    have hj1 : J x j (Mux.windDownInbox e1 e1.inbox).1 :=
      J.back ((Grow.same rfl rfl : Grow (Mux.windDownInbox e1 e1.inbox).1 { (Mux.windDownInbox e1 e1.inbox).1 with inbox := [] }).trans
        (Grow.windDownFinish _ res)) hj
    have g1 := (g0.toX.trans (SimX.windDownInbox e1 e1.inbox hsf hj1)).trans
      ((Sim.windDownFinish (l := endRest e1.inbox) { (Mux.windDownInbox e1 e1.inbox).1 with inbox := [] } res).congr
        (a := (Mux.windDownInbox e1 e1.inbox).1) rfl rfl).toX
    exact ⟨_, by simp only [List.append_assoc], (g1.log (by simp)).rec (by simp [finsOf_append, finsOf_windDownFinishEnds])⟩
  · rename_i hc
    intro hj
    have hnil : endRest e1.inbox = [] := windDownInbox_not_ended e1 e1.inbox (by
      cases h : (Mux.windDownInbox e1 e1.inbox).2.2 with
      | false => rfl
      | true => simp [h] at hc)
    have g1 := (g0.toX.trans (SimX.windDownInbox e1 e1.inbox hsf hj)).inb rfl hnil.symm
    exact ⟨_, by simp only [List.append_assoc], ((g1.congr rfl rfl).log (by simp)).rec (by simp)⟩

theorem sendSome_dropPrep_inbox (e : EP) : (sendSome (dropPrep e)).1.inbox = e.inbox := by
  rw [sendSome_inbox]; exact disallowAll_inbox' e e.flows

/-- `wind_down`. -/
theorem SimX.windDown (e : EP) (drain : Bool) (res : ExitRes) (hsf : SF e) (hj : J x j (windDown e drain res).1) :
    SimX x j e.inbox e (windDown e drain res).1.inbox (windDown e drain res).1 (windDown e drain res).2
      (windDownLog e drain) (finsOf x j (windDownEnds e drain res)) := by
  revert hj
  simp only [Mux.windDown, windDownLog, windDownEnds]
  split
  · have g : Sim x j e.inbox e e.inbox (Mux.sendSome (Mux.dropPrep e)).1 (Mux.sendSome (Mux.dropPrep e)).2 [] :=
      (Sim.dropPrep e).tr0 (Sim.sendSome _)
    split
    · intro hj
      obtain ⟨evs, h1, h2⟩ := SimX.windDownTail (Mux.sendSome (Mux.dropPrep e)).1 (Mux.sendSome (Mux.dropPrep e)).2
        e.srcEnded res (SF.grow ((Grow.dropPrep e).trans (Grow.sendSome _)) hsf) hj
      rw [h1, windDownTail_inbox]
      exact ((g.toX.trans (h2.inb (sendSome_dropPrep_inbox e).symm rfl)).log (by simp)).rec (by simp)
    · intro _
      exact ((g.inb rfl (sendSome_dropPrep_inbox e)).congr rfl rfl).toX
  · intro hj
    have gw : Grow e (Mux.windDownPrep e) :=
      (Grow.disallowAll e e.flows).trans (Grow.same rfl rfl : Grow (Mux.disallowAll e e.flows) (Mux.windDownPrep e))
    obtain ⟨evs, h1, h2⟩ := SimX.windDownTail (Mux.windDownPrep e) [] e.srcEnded res (SF.grow gw hsf) hj
    rw [h1, windDownTail_inbox]
    have hi : (Mux.windDownPrep e).inbox = e.inbox := disallowAll_inbox' e e.flows
    exact (SimX.tr0 (Sim.windDownPrep e) (h2.inb hi.symm rfl)).evs (by simp)

/-- The drain loop of the wind-down after a drop continues. -/
theorem SimX.drainStep (e : EP) (res : ExitRes) (hsf : SF e) (hj : J x j (drainStep e res).1) :
    SimX x j e.inbox e (drainStep e res).1.inbox (drainStep e res).1 (drainStep e res).2 (drainStepLog e)
      (finsOf x j (drainStepEnds e res)) := by
  revert hj
  simp only [Mux.drainStep, drainStepLog, drainStepEnds]
  have g : Sim x j e.inbox e e.inbox (Mux.sendSome e).1 (Mux.sendSome e).2 [] := Sim.sendSome e
  split
  · intro hj
    have hsf1 : SF { (Mux.sendSome e).1 with draining := none } := SF.grow ((Grow.sendSome e).trans (Grow.same rfl rfl)) hsf
    obtain ⟨evs, h1, h2⟩ := SimX.windDownTail { (Mux.sendSome e).1 with draining := none } (Mux.sendSome e).2
      e.srcEnded res hsf1 hj
    rw [h1, windDownTail_inbox]
    exact ((g.toX.trans ((h2.inb (sendSome_inbox e).symm rfl).congr (a := (Mux.sendSome e).1) rfl rfl)).log (by simp)).rec
      (by simp)
  · intro _
    exact (g.inb rfl (sendSome_inbox e)).toX

/-- The close handshake: the task reads on until the source ends. -/
theorem SimX.closingStep (e : EP) (res : ExitRes) (hsf : SF e) (hj : J x j (closingStep e res).1) :
    SimX x j e.inbox e (closingStep e res).1.inbox (closingStep e res).1 (closingStep e res).2 (closingStepLog e)
      (finsOf x j (closingStepEnds e res)) := by
  revert hj
  simp only [Mux.closingStep, closingStepLog, closingStepEnds]
  split
  · intro hj
    have hj1 : J x j (Mux.windDownInbox e e.inbox).1 :=
      J.back ((Grow.same rfl rfl : Grow (Mux.windDownInbox e e.inbox).1 { (Mux.windDownInbox e e.inbox).1 with inbox := [] }).trans
        (Grow.windDownFinish _ res)) hj
    rw [windDownFinish_inbox]
    exact (((SimX.windDownInbox e e.inbox hsf hj1).trans
      ((Sim.windDownFinish (l := endRest e.inbox) { (Mux.windDownInbox e e.inbox).1 with inbox := [] } res).congr
        (a := (Mux.windDownInbox e e.inbox).1) rfl rfl).toX).log (by simp)).rec
      (by simp [finsOf_append, finsOf_windDownFinishEnds])
  · rename_i hc
    intro hj
    have hnil : endRest e.inbox = [] := windDownInbox_not_ended e e.inbox (by simpa using hc)
    exact (((SimX.windDownInbox e e.inbox hsf hj).inb rfl hnil.symm).congr rfl rfl).rec (by simp)

/-! ### The task's loop -/

/-- Receive loop, notification loop, wind-down: the events emitted extend `acc`. -/
theorem SimX.settleLoop (fuel : Nat) (e : EP) (acc : List Ev) (hsf : SF e) :
    J x j (settleLoop fuel e acc).1 →
    ∃ evs, (settleLoop fuel e acc).2 = acc ++ evs ∧
      SimX x j e.inbox e (settleLoop fuel e acc).1.inbox (settleLoop fuel e acc).1 evs (settleLoopLog fuel e)
        (finsOf x j (settleLoopEnds fuel e)) := by
  induction fuel generalizing e acc with
  | zero => intro _; exact ⟨[], by simp [Mux.settleLoop], (Sim.refl _ e).toX⟩
  | succ n ih =>
    unfold Mux.settleLoop settleLoopLog settleLoopEnds
    split
    · intro _; exact ⟨[], by simp, (Sim.refl _ e).toX⟩
    · split
      · rename_i res hdr
        simp only [hdr]
        intro hj
        exact ⟨_, rfl, SimX.drainStep e res hsf hj⟩
      · rename_i hdr
        simp only [hdr]
        split
        · rename_i res hcl
          simp only [hcl]
          intro hj
          exact ⟨_, rfl, SimX.closingStep e res hsf hj⟩
        · rename_i hcl
          simp only [hcl]
          have gu : Sim x j e.inbox e e.inbox (Mux.unpark e) [] [] := Sim.unpark e
          have hsfu : SF (Mux.unpark e) := SF.grow (Grow.unpark e) hsf
          split
          · rename_i w rest hp hi
            rw [recvCase_pos _ _ hp hi, recvOrElse_recv _ _ hp hi]
            have hi' : e.inbox = w :: rest := by rw [← unpark_inbox' e]; exact hi
            have hsf1 : SF (Mux.recvOne (Mux.unpark e) w rest).1 := SF.grow (Grow.recvOne _ w rest) hsfu
            split
            · rename_i r hr
              simp only [hr, finsOf_append]
              intro hj
              have hj1 : J x j (Mux.recvOne (Mux.unpark e) w rest).1 := J.back (Grow.windDown _ false r) hj
              have gp := SimX.tr0 gu ((SimX.recvOne (rest := rest) (Mux.unpark e) w hsfu hj1).inb hi' rfl)
              have gw := (SimX.windDown (Mux.recvOne (Mux.unpark e) w rest).1 false r hsf1 hj).inb
                (recvOne_inbox (Mux.unpark e) w rest).symm rfl
              exact ⟨_, by rw [List.append_assoc], gp.trans gw⟩
            · rename_i hr
              simp only [hr, finsOf_append]
              intro hj
              have hj1 : J x j (Mux.recvOne (Mux.unpark e) w rest).1 := J.back (Grow.settleLoop n _ _) hj
              have gp := SimX.tr0 gu ((SimX.recvOne (rest := rest) (Mux.unpark e) w hsfu hj1).inb hi' rfl)
              obtain ⟨evs, h1, h2⟩ := ih (Mux.recvOne (Mux.unpark e) w rest).1
                (acc ++ (Mux.recvOne (Mux.unpark e) w rest).2.1) hsf1 hj
              exact ⟨(Mux.recvOne (Mux.unpark e) w rest).2.1 ++ evs, by rw [h1, List.append_assoc],
                gp.trans (h2.inb (recvOne_inbox (Mux.unpark e) w rest).symm rfl)⟩
          · rename_i hneg
            rw [recvCase_neg _ _ hneg, recvOrElse_else _ _ hneg]
            split
            · rename_i rest hq
              simp only [hq, if_true]
              intro hj
              have hsf1 : SF { Mux.unpark e with droppedq := rest } :=
                SF.grow ((Grow.unpark e).trans (Grow.same rfl rfl)) hsf
              have gw := (SimX.windDown { Mux.unpark e with droppedq := rest } true .ok hsf1 hj).inb
                (unpark_inbox' e).symm rfl
              exact ⟨_, rfl, SimX.tr0 gu (gw.congr (a := Mux.unpark e) rfl rfl)⟩
            · rename_i fid rest h0 hq
              have hz' : ¬ fid = 0 := fun h => h0 (h ▸ rfl)
              simp only [hq, hz', if_false, finsOf_append]
              rw [finsOf_closeFlowEnds_ne _ fid (.dropped fid) (by intro h; cases h), List.nil_append]
              intro hj
              have hsfq : SF { Mux.unpark e with droppedq := rest } :=
                SF.grow ((Grow.unpark e).trans (Grow.same rfl rfl)) hsf
              have hjq : J x j { Mux.unpark e with droppedq := rest } :=
                J.back ((Grow.closeFlow { Mux.unpark e with droppedq := rest } fid false).trans (Grow.settleLoop n _ _)) hj
              have gc : Sim x j e.inbox (Mux.unpark e) e.inbox (Mux.closeFlow { Mux.unpark e with droppedq := rest } fid false).1
                  (Mux.closeFlow { Mux.unpark e with droppedq := rest } fid false).2 [] :=
                (Sim.closeFlow { Mux.unpark e with droppedq := rest } fid false hsfq hjq).congr rfl rfl
              have hsf1 : SF (Mux.closeFlow { Mux.unpark e with droppedq := rest } fid false).1 :=
                SF.grow (Grow.closeFlow { Mux.unpark e with droppedq := rest } fid false) hsfq
              have hib : (Mux.closeFlow { Mux.unpark e with droppedq := rest } fid false).1.inbox = e.inbox := by
                rw [closeFlow_inbox]; exact unpark_inbox' e
              obtain ⟨evs, h1, h2⟩ := ih (Mux.closeFlow { Mux.unpark e with droppedq := rest } fid false).1
                (acc ++ (Mux.closeFlow { Mux.unpark e with droppedq := rest } fid false).2) hsf1 hj
              exact ⟨(Mux.closeFlow { Mux.unpark e with droppedq := rest } fid false).2 ++ evs,
                by rw [h1, List.append_assoc], ((gu.tr0 gc).toX.trans (h2.inb hib.symm rfl)).rec rfl⟩
            · rename_i hq
              simp only [hq]
              intro _
              exact ⟨[], by simp, (gu.inb rfl (unpark_inbox' e)).toX⟩

/-! ### The open futures, and the whole run -/

theorem Sim.runRetries {l : List WsIn} (e : EP) (rs : List Nat) :
    Sim x j l e l (runRetries e rs).1 (runRetries e rs).2 [] := by
  induction rs generalizing e with
  | nil => exact Sim.refl l e
  | cons req rest ih =>
    unfold Mux.runRetries
    split
    · exact ih e
    · rename_i r _
      exact (Sim.openRound e r).tr (ih _)

theorem Sim.runDone {l : List WsIn} (e : EP) (ds : List (Nat × Nat)) :
    Sim x j l e l (runDone e ds).1 (runDone e ds).2 [] := by
  induction ds generalizing e with
  | nil => exact Sim.refl l e
  | cons p rest ih =>
    obtain ⟨req, i⟩ := p
    unfold Mux.runDone
    have g : Sim x j l e l { e with handles := e.handles ++ [i] } [Ev.openDone req (.ok e.handles.length)] [] :=
      Sim.same rfl rfl rfl
    exact (g.tr (ih _)).evs rfl

theorem Sim.hold {l : List WsIn} (e : EP) (c : Bool) :
    Sim x j l e l (if c then (e, ([] : List Ev)) else Mux.sendSome e).1
      (if c then (e, ([] : List Ev)) else Mux.sendSome e).2 [] := by
  split
  · exact Sim.refl l e
  · exact Sim.sendSome e

/-- The task's run to quiescence after a stimulus, the open futures included. -/
theorem SimX.settle (e : EP) (hsf : SF e) (hj : J x j (settle e).1) :
    SimX x j e.inbox e (settle e).1.inbox (settle e).1 (settle e).2 (settleLog e) (finsOf x j (settleEnds e)) := by
  have h0 := SimX.settleLoop (x := x) (j := j) (2 * e.inbox.length + e.droppedq.length + 2) e [] hsf
  revert hj
  unfold Mux.settle settleLog settleEnds
  generalize Mux.settleLoop (2 * e.inbox.length + e.droppedq.length + 2) e [] = r1 at h0
  obtain ⟨e1, evs1⟩ := r1
  simp only at h0 ⊢
  have s1 := Sim.hold (x := x) (j := j) (l := e1.inbox) e1 (e1.dead || e1.draining.isSome)
  have g1 := Grow.hold e1 (e1.dead || e1.draining.isSome)
  have i1 := hold_inbox e1 (e1.dead || e1.draining.isSome)
  generalize (if (e1.dead || e1.draining.isSome) = true then (e1, ([] : List Ev)) else Mux.sendSome e1) = r2 at s1 g1 i1
  obtain ⟨e2, w2⟩ := r2
  simp only at s1 g1 i1 ⊢
  have s2 : Sim x j e1.inbox e2 e1.inbox (Mux.runDone { e2 with doneq := [] } (e2.doneq.foldr insertDone [])).1
      (Mux.runDone { e2 with doneq := [] } (e2.doneq.foldr insertDone [])).2 [] :=
    (Sim.runDone { e2 with doneq := [] } _).congr rfl rfl
  have g2 : Grow e2 (Mux.runDone { e2 with doneq := [] } (e2.doneq.foldr insertDone [])).1 :=
    (Grow.same rfl rfl : Grow e2 { e2 with doneq := [] }).trans (Grow.runDone _ _)
  have i2 : (Mux.runDone { e2 with doneq := [] } (e2.doneq.foldr insertDone [])).1.inbox = e2.inbox := by
    rw [runDone_inbox]
  generalize Mux.runDone { e2 with doneq := [] } (e2.doneq.foldr insertDone []) = r3 at s2 g2 i2
  obtain ⟨e3, w3⟩ := r3
  simp only at s2 g2 i2 ⊢
  have s3 : Sim x j e1.inbox e3 e1.inbox (Mux.runRetries { e3 with retryq := [] } (sortNat e3.retryq)).1
      (Mux.runRetries { e3 with retryq := [] } (sortNat e3.retryq)).2 [] :=
    (Sim.runRetries { e3 with retryq := [] } (sortNat e3.retryq)).congr rfl rfl
  have g3 : Grow e3 (Mux.runRetries { e3 with retryq := [] } (sortNat e3.retryq)).1 :=
    (Grow.same rfl rfl : Grow e3 { e3 with retryq := [] }).trans (Grow.runRetries _ _)
  have i3 : (Mux.runRetries { e3 with retryq := [] } (sortNat e3.retryq)).1.inbox = e3.inbox := by
    rw [runRetries_inbox]
  generalize Mux.runRetries { e3 with retryq := [] } (sortNat e3.retryq) = r4 at s3 g3 i3
  obtain ⟨e4, w4⟩ := r4
  simp only at s3 g3 i3 ⊢
  have s4 := Sim.hold (x := x) (j := j) (l := e1.inbox) e4 (e4.dead || e4.draining.isSome)
  have g4 := Grow.hold e4 (e4.dead || e4.draining.isSome)
  have i4 := hold_inbox e4 (e4.dead || e4.draining.isSome)
  intro hj
  obtain ⟨evs, h1, h2⟩ := h0 (J.back (((g1.trans g2).trans g3).trans g4) hj)
  simp only [List.nil_append] at h1
  subst h1
  refine ((((((h2.trans s1.toX).trans s2.toX).trans s3.toX).trans s4.toX |>.inb rfl ?_).evs ?_).log (by simp)).rec (by simp)
  · rw [i4, i3, i2, i1]
  · simp [List.append_assoc]

end Penguin.PairAll
