/-
The ORDER layer of the invariant of the pair of bind views (`Inv4`, `Lemmas/BindAllOrd.lean`) holds in every
reachable state of `Model/PairAll.lean`.
Core Lean only.
-/
import Penguin.Lemmas.BindAllOrdStep2
import Penguin.Lemmas.BindAllReach3

namespace Penguin.BindAll
open Penguin.Mux Penguin.PairAll
open Penguin.PairAll (inMsgs inMsgs_append wireMsgs)

/-- A sequence of small steps of the left side. -/
theorem Inv4.starL {c : BC} {v : BV} {ws : List Msg} {gs : List BEv} (h : Inv4 c) (st : BStar c.a v ws gs) (hn : v.rng ≠ []) :
    Inv4 (c.actL v ws gs) := by
  generalize hva : c.a = va at st
  induction st generalizing c with
  | refl v => subst hva; rw [actL_nil]; exact h
  | @step v0 v1 v2 w1 w2 g1 g2 s rest ih =>
    subst hva
    have hn1 : v1.rng ≠ [] := by
      intro h0
      have := rest.rng_suffix
      rw [h0] at this
      exact hn (List.suffix_nil.mp this)
    have h1 := h.act s hn1
    have h2 := ih h1 hn rfl
    rw [actL_trans] at h2
    exact h2

theorem closed_inv4 : Closed Inv4 := ⟨Inv4.swap, Inv4.starL, fun h st hn => h.stepL st hn⟩

theorem PInv.init4 (oa ob : Opts) {ra rb : List Nat} (cfg : Cfg ra rb) : PInv Inv4 { p := PairAll.init oa ob ra rb } := by
  have h0 := PInv.init3 oa ob cfg
  refine ⟨⟨h0.inv, ⟨?_, ?_, ?_, ?_⟩, ?_, ?_, ?_, ?_, ?_, ?_⟩, cfg.neA, cfg.neB⟩
  · intro _; rfl
  · intro _; rfl
  · intro hd; simp [absB, PairAll.init, bview, deafV] at hd
  · intro hd; simp [absB, PairAll.init, bview, deafV] at hd
  · intro k y bt h p hm; simp [absB] at hm
  · intro k y bt h p hm; simp [absB] at hm
  · intro x k bt host port _ hs; simp [absB] at hs
  · intro x k bt host port _ hs; simp [absB, BC.swap] at hs
  · intro req hd; simp [absB] at hd
  · intro req hd; simp [absB, BC.swap] at hd

/-- In every reachable state of the pair (with records), all layers of the invariant hold. -/
theorem reach_inv4 (oa ob : Opts) {ra rb : List Nat} (cfg : Cfg ra rb) (l : List (Side × Stim)) :
    Inv4 (absB (runB { p := PairAll.init oa ob ra rb } l)) :=
  ((PInv.init4 oa ob cfg).run closed_inv4 l).inv

end Penguin.BindAll
