/-
Every slot of the flow table is accounted for — for every history of one endpoint and ANY peer.

While an endpoint is in service (`Serving`: the `Multiplexor` is held, its task runs and has not begun
to wind down) every `Established` slot `x ↦ i` of the flow table is justified (`Just`) by something
that still exists:
 * stream `i` waits in the accept queue, or is the parked hand-over of the receive loop, or is the
   answer of an open request whose future has not run yet (`doneq`; empty between stimuli), or
 * a handle of stream `i` is held by the application and has not been dropped, or
 * a dropped-handle notification for id `x` is queued for the task (`droppedq`).
The other two slot kinds ARE the record of a request that the peer has not answered yet: a `Requested`
slot is an open request (its `Connect` is out, whether its caller still waits or has given up), a
`BindRequested` slot a bind request.  (Such a slot only enters the table together with its frame: a
call that finds the outbound queue closed takes the slot it had inserted out again and returns
`Closed` — `openRound` / `appBindReq`, `Lemmas/MuxEndedTable.lean` — so none of them is the left-over
of a request that was never sent.)

The model has no "dropped" flag on a handle (`rxOpen = false` is also what reading end-of-stream
leaves behind), so the handles a history has dropped are tracked beside the state (`dropsOf`).

`Accounted e D` is shown for the initial state and preserved by every function of the endpoint model
(`KeepsA`), hence by every stimulus and every history.  The justifications are injective (distinct
slots have distinct ids and distinct stream objects), which gives the number: `slot_bound` in
`Lemmas/MuxAccountCount.lean`.
Core Lean only.
-/
import Penguin.Lemmas.MuxLeakDrop
import Penguin.Lemmas.MuxOnce

namespace Penguin.Mux

/-! ### Definitions -/

/-- The endpoint is in service: the `Multiplexor` is held, the task runs and has not begun to wind
    down (its outbound queue is open).  Once one of these fails the task is winding down or about to
    (the notification `0` is queued), and the wind-down ends by clearing the whole table — which then
    stays empty (`reachable_dead_table_empty`, `Lemmas/MuxEndedTable.lean`). -/
structure Serving (e : EP) : Prop where
  outOpen : e.outClosed = false
  mux : e.muxAlive = true
  alive : e.dead = false
  nodrain : e.draining = none
  noclose : e.closing = none

/-- Why the `Established` slot `fid ↦ i` is still in the table (`D`: the handles dropped so far). -/
def Just (e : EP) (D : List Nat) (fid i : Nat) : Prop :=
  i ∈ e.acceptq ∨ e.park = some (.accept i) ∨ i ∈ e.doneq.map (·.2) ∨ fid ∈ e.droppedq ∨
    ∃ h, e.handles[h]? = some i ∧ h ∉ D

structure Acc (e : EP) (D : List Nat) : Prop where
  /-- only handles that exist have been dropped -/
  dv : ∀ h, h ∈ D → h < e.handles.length
  /-- the flow table has one entry per id -/
  keys : (e.flows.map (·.1)).Nodup
  just : ∀ fid i, lookup e.flows fid = some (.established i) → Just e D fid i

/-- Every `Established` slot is accounted for while the endpoint is in service. -/
def Accounted (e : EP) (D : List Nat) : Prop := Serving e → Acc e D

/-- The stream handles a history drops (a `dropStream` on a handle that exists at that point). -/
def dropsOf (e : EP) : List Op → List Nat
  | [] => []
  | op :: rest =>
    (match op with
     | .dropStream h => if (e.handleObj h).isSome then [h] else []
     | _ => []) ++ dropsOf (applyOp e op).1 rest

/-- The handles (by number) the application holds and has not dropped. -/
def heldList (e : EP) (D : List Nat) : List Nat := (List.range e.handles.length).filter (fun h => !D.contains h)

/-- Number of stream handles the application holds and has not dropped. -/
def liveHandles (e : EP) (D : List Nat) : Nat := (heldList e D).length

/-- 1 when the receive loop is parked handing a new stream to a full accept queue. -/
def parkedCount (e : EP) : Nat :=
  match e.park with
  | some (.accept _) => 1
  | _ => 0

def Slot.isEstablished : Slot → Bool
  | .established _ => true
  | _ => false
def Slot.isRequested : Slot → Bool
  | .requested _ => true
  | _ => false
def Slot.isBindRequested : Slot → Bool
  | .bindRequested _ => true
  | _ => false

/-- `Established` slots. -/
def establishedCount (e : EP) : Nat := e.flows.countP (fun p => p.2.isEstablished)
/-- `Requested` slots: open requests whose `Connect` the peer has not answered yet, … -/
def awaitingOpen (e : EP) : Nat := e.flows.countP (fun p => p.2.isRequested)
/-- A `Requested` slot whose caller still waits (its request is in `opens`). -/
def Slot.pendingIn (opens : List OpenReq) : Slot → Bool
  | .requested req => opens.any (·.req == req)
  | _ => false
/-- A `Requested` slot whose caller has given up (`cancelOpen`: the future was dropped; the slot
    stays until the peer answers). -/
def Slot.abandonedIn (opens : List OpenReq) : Slot → Bool
  | .requested req => !opens.any (·.req == req)
  | _ => false
/-- … those of them whose caller still waits … -/
def pendingOpens (e : EP) : Nat := e.flows.countP (fun p => p.2.pendingIn e.opens)
/-- … and those whose caller has given up. -/
def cancelledAwaiting (e : EP) : Nat := e.flows.countP (fun p => p.2.abandonedIn e.opens)
/-- `BindRequested` slots: bind requests the peer has not answered yet. -/
def pendingBinds (e : EP) : Nat := e.flows.countP (fun p => p.2.isBindRequested)

/-! ### The relation and its building blocks -/

/-- `e'` is accounted for whenever `e` is. -/
def KeepsA (e e' : EP) : Prop := ∀ D, Accounted e D → Accounted e' D

theorem KeepsA.refl (e : EP) : KeepsA e e := fun _ h => h
theorem KeepsA.trans {a b c : EP} (s : KeepsA a b) (t : KeepsA b c) : KeepsA a c := fun D h => t D (s D h)
theorem KeepsA.after {a b c : EP} (t : KeepsA b c) (s : KeepsA a b) : KeepsA a c := s.trans t

/-- The later state is not in service (the task winds down, or the `Multiplexor` is gone). -/
theorem KeepsA.off {e e' : EP} (h : ¬ Serving e') : KeepsA e e' := fun _ _ s => absurd s h

theorem Serving.of_ctl {e e' : EP} (c : Ctl e e') (s : Serving e') : Serving e :=
  ⟨by rw [← c.outClosed]; exact s.outOpen, by rw [← c.muxAlive]; exact s.mux, by rw [← c.dead]; exact s.alive,
   by rw [← c.draining]; exact s.nodrain, by rw [← c.closing]; exact s.noclose⟩

theorem KeepsA.of {e e' : EP} (hsrv : Serving e' → Serving e) (hl : e.handles.length ≤ e'.handles.length)
    (hk : (e.flows.map (·.1)).Nodup → (e'.flows.map (·.1)).Nodup)
    (hj : ∀ D, Serving e' → Acc e D → ∀ fid i, lookup e'.flows fid = some (.established i) → Just e' D fid i) :
    KeepsA e e' := by
  intro D h s
  have a := h (hsrv s)
  exact ⟨fun (x : Nat) hx => Nat.lt_of_lt_of_le (a.dv x hx) hl, hk a.keys, hj D s a⟩

theorem Just.mono {e e' : EP} {D : List Nat} {fid i : Nat} (h : Just e D fid i)
    (ha : ∀ j, j ∈ e.acceptq → j ∈ e'.acceptq)
    (hp : e.park = some (.accept i) → e'.park = some (.accept i))
    (hd : ∀ j, j ∈ e.doneq.map (·.2) → j ∈ e'.doneq.map (·.2))
    (hq : ∀ x, x ∈ e.droppedq → x ∈ e'.droppedq)
    (hh : ∀ (k j : Nat), e.handles[k]? = some j → e'.handles[k]? = some j) : Just e' D fid i := by
  rcases h with h | h | h | h | ⟨k, hk, hD⟩
  · exact Or.inl (ha i h)
  · exact Or.inr (Or.inl (hp h))
  · exact Or.inr (Or.inr (Or.inl (hd i h)))
  · exact Or.inr (Or.inr (Or.inr (Or.inl (hq fid h))))
  · exact Or.inr (Or.inr (Or.inr (Or.inr ⟨k, hh k i hk, hD⟩)))

/-- Same queues and handles; every `Established` slot was there before. -/
theorem KeepsA.sub {e e' : EP} (hsrv : Serving e' → Serving e) (hh : e'.handles = e.handles)
    (hk : (e.flows.map (·.1)).Nodup → (e'.flows.map (·.1)).Nodup)
    (hs : ∀ fid i, lookup e'.flows fid = some (.established i) → lookup e.flows fid = some (.established i))
    (ha : e'.acceptq = e.acceptq) (hp : e'.park = e.park) (hd : e'.doneq = e.doneq)
    (hq : e'.droppedq = e.droppedq) : KeepsA e e' := by
  refine KeepsA.of hsrv (by rw [hh]; exact Nat.le_refl _) hk ?_
  intro D _ a fid i hl
  exact Just.mono (a.just fid i (hs fid i hl)) (by rw [ha]; exact fun _ h => h) (by rw [hp]; exact id)
    (by rw [hd]; exact fun _ h => h) (by rw [hq]; exact fun _ h => h) (by rw [hh]; exact fun _ _ h => h)

/-- Nothing the accounting looks at changes. -/
theorem KeepsA.same {e e' : EP} (hsrv : Serving e' → Serving e) (hf : e'.flows = e.flows) (hh : e'.handles = e.handles)
    (ha : e'.acceptq = e.acceptq) (hp : e'.park = e.park) (hd : e'.doneq = e.doneq)
    (hq : e'.droppedq = e.droppedq) : KeepsA e e' :=
  KeepsA.sub hsrv hh (by rw [hf]; exact id) (by rw [hf]; exact fun _ _ h => h) ha hp hd hq

/-- `Serving` of the earlier state from `Serving` of the later one, through `enq` / `modObj` / updates. -/
macro "srv" : tactic => `(tactic|
  (intro s; obtain ⟨h1, h2, h3, h4, h5⟩ := s; simp [EP.enqFrame, EP.modObj] at h1 h2 h3 h4 h5
   exact ⟨h1, h2, h3, h4, h5⟩))

/-- A record update of fields the accounting does not look at. -/
macro "ka" : tactic => `(tactic|
  exact KeepsA.same (fun s => ⟨s.outOpen, s.mux, s.alive, s.nodrain, s.noclose⟩) rfl rfl rfl rfl rfl rfl)

@[simp] theorem enq_handles (e : EP) (m : Msg) : (e.enq m).handles = e.handles := by
  unfold EP.enq; split <;> rfl
@[simp] theorem enq_acceptq (e : EP) (m : Msg) : (e.enq m).acceptq = e.acceptq := by
  unfold EP.enq; split <;> rfl
@[simp] theorem enq_draining (e : EP) (m : Msg) : (e.enq m).draining = e.draining := by
  unfold EP.enq; split <;> rfl
@[simp] theorem enq_closing (e : EP) (m : Msg) : (e.enq m).closing = e.closing := by
  unfold EP.enq; split <;> rfl

theorem KeepsA.enq (e : EP) (m : Msg) : KeepsA e (e.enq m) := by
  unfold EP.enq; split
  · exact KeepsA.refl e
  · ka
theorem KeepsA.enqFrame (e : EP) (f : Frame) : KeepsA e (e.enqFrame f) := KeepsA.enq e _

theorem KeepsA.modObj (e : EP) (i : Nat) (f : Obj → Obj) : KeepsA e (e.modObj i f) := by ka

/-! #### The flow table keeps one entry per id -/

theorem keys_erase_sublist (m : List (Nat × Slot)) (k : Nat) :
    List.Sublist ((erase m k).map (·.1)) (m.map (·.1)) :=
  (List.filter_sublist).map _

theorem keys_nodup_erase {m : List (Nat × Slot)} (k : Nat) (h : (m.map (·.1)).Nodup) :
    ((erase m k).map (·.1)).Nodup := List.Nodup.sublist (keys_erase_sublist m k) h

theorem keys_nodup_insert {m : List (Nat × Slot)} (k : Nat) (v : Slot) (h : (m.map (·.1)).Nodup) :
    ((insert m k v).map (·.1)).Nodup := by
  simp only [insert, List.map_cons]
  refine List.nodup_cons.mpr ⟨?_, keys_nodup_erase k h⟩
  intro hm
  obtain ⟨p, hp, hpk⟩ := List.mem_map.mp hm
  simp only [erase, List.mem_filter, ne_eq, decide_eq_true_eq] at hp
  exact hp.2 hpk

theorem KeepsA.erase (e : EP) (fid : Nat) : KeepsA e { e with flows := erase e.flows fid } :=
  KeepsA.sub (fun s => ⟨s.outOpen, s.mux, s.alive, s.nodrain, s.noclose⟩) rfl (keys_nodup_erase fid)
    (fun _ _ h => lookup_erase_some h) rfl rfl rfl rfl

theorem KeepsA.insertPending (e : EP) (fid : Nat) (s : Slot) (hs : ∀ i, s ≠ .established i) :
    KeepsA e { e with flows := insert e.flows fid s } := by
  refine KeepsA.sub (fun s => ⟨s.outOpen, s.mux, s.alive, s.nodrain, s.noclose⟩) rfl (keys_nodup_insert fid s) ?_ rfl rfl rfl rfl
  intro y i h
  by_cases hy : y = fid
  · subst hy; simp only [lookup_insert_self, Option.some.injEq] at h; exact absurd h (hs i)
  · simp only [lookup_insert_ne _ _ _ _ hy] at h; exact h

/-- A new `Established` slot that comes with its justification. -/
theorem KeepsA.newEst {e e' : EP} (fid i : Nat) (hsrv : Serving e' → Serving e) (hh : e'.handles = e.handles)
    (hf : e'.flows = insert e.flows fid (.established i))
    (hnew : ∀ D, Just e' D fid i)
    (ha : ∀ j, j ∈ e.acceptq → j ∈ e'.acceptq)
    (hp : ∀ j, e.park = some (.accept j) → e'.park = some (.accept j))
    (hd : ∀ j, j ∈ e.doneq.map (·.2) → j ∈ e'.doneq.map (·.2))
    (hq : ∀ x, x ∈ e.droppedq → x ∈ e'.droppedq) : KeepsA e e' := by
  refine KeepsA.of hsrv (by rw [hh]; exact Nat.le_refl _) (by rw [hf]; exact keys_nodup_insert fid _) ?_
  intro D _ a y j hl
  rw [hf] at hl
  by_cases hy : y = fid
  · subst hy
    simp only [lookup_insert_self, Option.some.injEq, Slot.established.injEq] at hl
    subst hl; exact hnew D
  · simp only [lookup_insert_ne _ _ _ _ hy] at hl
    exact Just.mono (a.just y j hl) ha (hp j) hd hq (by rw [hh]; exact fun _ _ h => h)

/-! ### Function by function -/

theorem KeepsA.openRound (e : EP) (r : OpenReq) : KeepsA e (openRound e r).1 := by
  unfold Mux.openRound
  split
  · ka
  · split
    · ka
    · rename_i fid rng' fb' hd
      have g : KeepsA e { e with flows := insert e.flows fid (.requested r.req) } :=
        KeepsA.insertPending e fid _ (by intro i hc; cases hc)
      simp only
      split
      · ka
      · exact (KeepsA.enqFrame _ _).after (g.trans (by ka))

theorem KeepsA.openRejected (e : EP) (req : Nat) (final : Bool) : KeepsA e (openRejected e req final).1 := by
  unfold Mux.openRejected
  repeat' split
  all_goals first | exact KeepsA.refl _ | ka

theorem KeepsA.closeLocal (e : EP) (s : Slot) (fid : Nat) (inh final : Bool) : KeepsA e (closeLocal e s fid inh final).1 := by
  unfold Mux.closeLocal
  cases s with
  | established i =>
    simp only
    cases ho : e.obj? i with
    | none => exact KeepsA.refl e
    | some o =>
      simp only
      have g := KeepsA.modObj e i (fun o => { o.disallowWrite with senderAlive := false })
      split
      · exact g.trans (KeepsA.enqFrame _ _)
      · exact g
  | requested req => exact KeepsA.openRejected e req final
  | bindRequested req => exact KeepsA.refl e

theorem KeepsA.closeFlow (e : EP) (fid : Nat) (inh : Bool) : KeepsA e (closeFlow e fid inh).1 := by
  unfold Mux.closeFlow
  split
  · exact KeepsA.refl e
  · exact (KeepsA.erase e fid).trans (KeepsA.closeLocal _ _ _ _ _)

/-- The receive loop hands over (or parks) only when it is not parked already. -/
theorem KeepsA.offerBind (e : EP) (b : BindIn) (hp : e.park = none) : KeepsA e (offerBind e b) := by
  unfold Mux.offerBind
  split
  · ka
  · refine KeepsA.of (fun s => ⟨s.outOpen, s.mux, s.alive, s.nodrain, s.noclose⟩) (Nat.le_refl _) id ?_
    intro D _ a fid i hl
    exact Just.mono (a.just fid i hl) (fun _ h => h) (by rw [hp]; intro h; cases h) (fun _ h => h) (fun _ h => h) (fun _ _ h => h)

theorem KeepsA.processFrame (e : EP) (f : Frame) (ig : Bool) (hp : e.park = none) :
    KeepsA e (processFrame e f ig).1 := by
  cases f with
  | connect fid rwnd port host =>
    simp only [Mux.processFrame]
    split
    · exact KeepsA.enqFrame _ _
    · split
      · rename_i hoc
        exact KeepsA.off (fun s => by have h2 := s.outOpen; simp_all)
      · split
        · rename_i hm
          refine KeepsA.off (fun s => ?_)
          have h2 := s.mux
          simp [EP.enqFrame, EP.modObj] at hm h2
          simp [hm] at h2
        · unfold Mux.offerAccept
          split
          · refine KeepsA.newEst fid e.objs.length (by srv) (by simp [EP.enqFrame])
              (by simp [EP.enqFrame]) ?_ ?_ ?_ ?_ ?_
            · intro D; exact Or.inl (by simp [EP.enqFrame])
            · intro j hj; simp [EP.enqFrame]; exact Or.inl hj
            · intro j hj; rw [hp] at hj; cases hj
            · intro j hj; simpa [EP.enqFrame] using hj
            · intro x hx; simpa [EP.enqFrame] using hx
          · refine KeepsA.newEst fid e.objs.length (by srv) (by simp [EP.enqFrame])
              (by simp [EP.enqFrame]) ?_ ?_ ?_ ?_ ?_
            · intro D; exact Or.inr (Or.inl rfl)
            · intro j hj; simpa [EP.enqFrame] using hj
            · intro j hj; rw [hp] at hj; cases hj
            · intro j hj; simpa [EP.enqFrame] using hj
            · intro x hx; simpa [EP.enqFrame] using hx
  | acknowledge fid n =>
    simp only [Mux.processFrame]
    split
    · exact KeepsA.modObj _ _ _
    · split
      · refine KeepsA.newEst fid e.objs.length (fun s => ⟨s.outOpen, s.mux, s.alive, s.nodrain, s.noclose⟩) rfl rfl ?_ ?_ ?_ ?_ ?_
        · intro D; exact Or.inr (Or.inr (Or.inl (by simp)))
        · intro j hj; exact hj
        · intro j hj; exact hj
        · intro j hj; simp only [List.map_append, List.mem_append]; exact Or.inl hj
        · intro x hx; exact hx
      · refine KeepsA.newEst fid e.objs.length (fun s => ⟨s.outOpen, s.mux, s.alive, s.nodrain, s.noclose⟩) rfl rfl ?_ ?_ ?_ ?_ ?_
        · intro D; exact Or.inr (Or.inr (Or.inr (Or.inl (by simp))))
        · intro j hj; exact hj
        · intro j hj; exact hj
        · intro j hj; exact hj
        · intro x hx; simp only [List.mem_append]; exact Or.inl hx
    · exact KeepsA.enqFrame _ _
    · exact KeepsA.enqFrame _ _
  | finish fid =>
    simp only [Mux.processFrame]
    split
    · exact KeepsA.enqFrame _ _
    · exact KeepsA.erase e fid
    · exact (KeepsA.enqFrame _ _).after ((KeepsA.erase e fid).trans (by ka))
    · exact KeepsA.modObj _ _ _
  | reset fid =>
    simp only [Mux.processFrame]
    exact KeepsA.closeFlow e fid true
  | push fid d =>
    simp only [Mux.processFrame]
    split
    · split
      · exact KeepsA.refl e
      · split
        · exact KeepsA.enqFrame _ _
        · split
          · exact KeepsA.refl e
          · split
            · exact KeepsA.modObj _ _ _
            · exact KeepsA.closeFlow e fid false
    · exact KeepsA.enqFrame _ _
  | bind fid bt port host =>
    simp only [Mux.processFrame]
    repeat' split
    all_goals first | exact KeepsA.refl e | exact KeepsA.enqFrame _ _ | exact KeepsA.offerBind _ _ hp
  | datagram fid port host d =>
    simp only [Mux.processFrame]
    repeat' split
    all_goals first | exact KeepsA.refl e | ka

theorem KeepsA.processIn (e : EP) (w : WsIn) (ig : Bool) (hp : e.park = none) : KeepsA e (processIn e w ig).1 := by
  cases w with
  | msg m => cases m <;> first | exact KeepsA.processFrame _ _ ig hp | exact KeepsA.refl e
  | bad b => exact KeepsA.refl e
  | err => exact KeepsA.refl e
  | eof => exact KeepsA.refl e

/-! ### Wind-down: the result is never in service -/

theorem windDownFinish_off (e : EP) (res : ExitRes) : ¬ Serving (windDownFinish e res).1 := by
  intro s
  have h := (windDownFinish_resolves e res).1
  rw [s.alive] at h; cases h

theorem windDownTail_off (e1 : EP) (flushed : List Ev) (srcEnded : Bool) (res : ExitRes) :
    ¬ Serving (windDownTail e1 flushed srcEnded res).1 := by
  simp only [Mux.windDownTail]
  split
  · exact windDownFinish_off _ res
  · intro s; have h := s.noclose; cases h

theorem windDown_off (e : EP) (drain : Bool) (res : ExitRes) : ¬ Serving (windDown e drain res).1 := by
  simp only [Mux.windDown]
  split
  · split
    · exact windDownTail_off _ _ _ _
    · intro s; have h := s.nodrain; cases h
  · exact windDownTail_off _ _ _ _

theorem sendSome_draining (e : EP) : (sendSome e).1.draining = e.draining := by
  unfold Mux.sendSome; split <;> rfl

theorem drainStep_off (e : EP) (res : ExitRes) (hd : e.draining = some res) : ¬ Serving (drainStep e res).1 := by
  simp only [Mux.drainStep]
  split
  · exact windDownTail_off _ _ _ _
  · intro s; have h := s.nodrain; rw [sendSome_draining, hd] at h; cases h

theorem processIn_closing (e : EP) (w : WsIn) (ig : Bool) : (processIn e w ig).1.closing = e.closing := by
  cases w with
  | msg m => cases m <;> first | exact (Ctl.processFrame e _ ig).closing | rfl
  | bad b => rfl
  | err => rfl
  | eof => rfl

theorem windDownInbox_closing (e : EP) (l : List WsIn) : (windDownInbox e l).1.closing = e.closing := by
  induction l generalizing e with
  | nil => rfl
  | cons w l ih =>
    cases w with
    | err => rfl
    | eof => rfl
    | msg m => simp only [Mux.windDownInbox]; rw [ih]; exact processIn_closing e _ true
    | bad b => simp only [Mux.windDownInbox]; rw [ih]; exact processIn_closing e _ true

theorem closingStep_off (e : EP) (res : ExitRes) (hc : e.closing = some res) : ¬ Serving (closingStep e res).1 := by
  simp only [Mux.closingStep]
  split
  · exact windDownFinish_off _ res
  · intro s
    have h := s.noclose
    have h2 : (windDownInbox e e.inbox).1.closing = none := h
    rw [windDownInbox_closing, hc] at h2; cases h2

/-! ### The task's loops -/

theorem KeepsA.unpark (e : EP) : KeepsA e (unpark e) := by
  unfold Mux.unpark
  split
  · exact KeepsA.refl e
  · rename_i i hp
    split
    · rename_i hm
      refine KeepsA.off (fun s => ?_)
      have h2 := s.mux
      split at h2 <;> simp_all [EP.modObj]
    · split
      · -- the hand-over completes: the stream moves from the parked hand-over to the accept queue
        refine KeepsA.of (fun s => ⟨s.outOpen, s.mux, s.alive, s.nodrain, s.noclose⟩) (Nat.le_refl _) id ?_
        intro D _ a fid j hl
        rcases a.just fid j hl with h | h | h | h | h
        · exact Or.inl (List.mem_append_left _ h)
        · rw [hp] at h; simp only [Option.some.injEq, Park.accept.injEq] at h
          subst h; exact Or.inl (by simp)
        · exact Or.inr (Or.inr (Or.inl h))
        · exact Or.inr (Or.inr (Or.inr (Or.inl h)))
        · exact Or.inr (Or.inr (Or.inr (Or.inr h)))
      · exact KeepsA.refl e
  · rename_i b hp
    have hnp : ∀ j, e.park ≠ some (.accept j) := by intro j h; rw [hp] at h; cases h
    split
    · have g1 : KeepsA e { e with park := none } := by
        refine KeepsA.of (fun s => ⟨s.outOpen, s.mux, s.alive, s.nodrain, s.noclose⟩) (Nat.le_refl _) id ?_
        intro D _ a fid j hl
        exact Just.mono (a.just fid j hl) (fun _ h => h) (fun h => absurd h (hnp j)) (fun _ h => h) (fun _ h => h) (fun _ _ h => h)
      exact g1.trans (KeepsA.enqFrame _ _)
    · split
      · refine KeepsA.of (fun s => ⟨s.outOpen, s.mux, s.alive, s.nodrain, s.noclose⟩) (Nat.le_refl _) id ?_
        intro D _ a fid j hl
        exact Just.mono (a.just fid j hl) (fun _ h => h) (fun h => absurd h (hnp j)) (fun _ h => h) (fun _ h => h) (fun _ _ h => h)
      · exact KeepsA.refl e

theorem KeepsA.recvOne (e : EP) (w : WsIn) (rest : List WsIn) (hp : e.park = none) : KeepsA e (recvOne e w rest).1 := by
  simp only [Mux.recvOne]
  refine KeepsA.after (KeepsA.processIn _ _ _ (by split <;> exact hp)) ?_
  split <;> ka

/-- The task takes a dropped-handle notification off the queue and closes that flow: the slot under
    that id goes, every other slot keeps its justification. -/
theorem KeepsA.notif (e : EP) (fid : Nat) (rest : List Nat) (hq : e.droppedq = fid :: rest) :
    KeepsA e (Mux.closeFlow { e with droppedq := rest } fid false).1 := by
  have key : ∀ e' : EP, (Serving e' → Serving e) → e'.handles = e.handles →
      ((e.flows.map (·.1)).Nodup → (e'.flows.map (·.1)).Nodup) →
      (∀ y i, lookup e'.flows y = some (.established i) → y ≠ fid ∧ lookup e.flows y = some (.established i)) →
      e'.acceptq = e.acceptq → e'.park = e.park → e'.doneq = e.doneq → e'.droppedq = rest → KeepsA e e' := by
    intro e' hsrv hh hk hs ha hp hd hq'
    refine KeepsA.of hsrv (by rw [hh]; exact Nat.le_refl _) hk ?_
    intro D _ a y i hl
    obtain ⟨hne, hl0⟩ := hs y i hl
    refine Just.mono (e := { e with droppedq := rest }) ?_ (by rw [ha]; exact fun _ h => h) (by rw [hp]; exact id)
      (by rw [hd]; exact fun _ h => h) (by rw [hq']; exact fun _ h => h) (by rw [hh]; exact fun _ _ h => h)
    rcases a.just y i hl0 with h | h | h | h | h
    · exact Or.inl h
    · exact Or.inr (Or.inl h)
    · exact Or.inr (Or.inr (Or.inl h))
    · rw [hq] at h
      rcases List.mem_cons.mp h with h | h
      · exact absurd h hne
      · exact Or.inr (Or.inr (Or.inr (Or.inl h)))
    · exact Or.inr (Or.inr (Or.inr (Or.inr h)))
  unfold Mux.closeFlow
  split
  · rename_i hnone
    refine key _ (fun s => ⟨s.outOpen, s.mux, s.alive, s.nodrain, s.noclose⟩) rfl id ?_ rfl rfl rfl rfl
    intro y i hl
    have hl' : lookup e.flows y = some (.established i) := hl
    refine ⟨?_, hl'⟩
    intro hy; subst hy
    have : lookup e.flows y = none := hnone
    rw [this] at hl'; cases hl'
  · refine (key { e with droppedq := rest, flows := Mux.erase e.flows fid } (fun s => ⟨s.outOpen, s.mux, s.alive, s.nodrain, s.noclose⟩)
      rfl (keys_nodup_erase fid) ?_ rfl rfl rfl rfl).trans (KeepsA.closeLocal _ _ _ _ _)
    intro y i hl
    have hl' : lookup (Mux.erase e.flows fid) y = some (.established i) := hl
    refine ⟨?_, lookup_erase_some hl'⟩
    intro hy; subst hy
    rw [lookup_erase_self] at hl'; cases hl'

theorem KeepsA.settleLoop (fuel : Nat) (e : EP) (acc : List Ev) : KeepsA e (settleLoop fuel e acc).1 := by
  induction fuel generalizing e acc with
  | zero => exact KeepsA.refl e
  | succ n ih =>
    unfold Mux.settleLoop
    split
    · exact KeepsA.refl e
    · split
      · rename_i res hdr
        exact KeepsA.off (drainStep_off e res hdr)
      · split
        · rename_i res hcl
          exact KeepsA.off (closingStep_off e res hcl)
        · have gu := KeepsA.unpark e
          split
          · rename_i w rest hpk _
            have gp := gu.trans (KeepsA.recvOne (Mux.unpark e) w rest hpk)
            split
            · exact gp.trans (KeepsA.off (windDown_off _ _ _))
            · exact gp.trans (ih _ _)
          · split
            · exact KeepsA.off (windDown_off _ _ _)
            · rename_i fid rest _ hq
              exact (ih _ _).after ((KeepsA.notif (Mux.unpark e) fid rest hq).after gu)
            · exact gu

/-! ### The open futures -/

theorem KeepsA.runRetries (e : EP) (l : List Nat) : KeepsA e (runRetries e l).1 := by
  induction l generalizing e with
  | nil => exact KeepsA.refl e
  | cons req rest ih =>
    unfold Mux.runRetries
    split
    · exact ih e
    · rename_i r _
      exact (KeepsA.openRound e r).trans (ih _)

theorem runDone_fst (e : EP) (l : List (Nat × Nat)) :
    (runDone e l).1 = { e with handles := e.handles ++ l.map (·.2) } := by
  induction l generalizing e with
  | nil => simp [Mux.runDone]
  | cons x rest ih =>
    obtain ⟨req, i⟩ := x
    simp only [Mux.runDone, ih, List.map_cons, List.append_assoc, List.singleton_append]

/-- The answered futures run: each stream of `doneq` becomes a handle of the application. -/
theorem KeepsA.runDoneAll (e : EP) :
    KeepsA e (Mux.runDone { e with doneq := [] } (e.doneq.foldr insertDone [])).1 := by
  rw [runDone_fst]
  refine KeepsA.of (fun s => ⟨s.outOpen, s.mux, s.alive, s.nodrain, s.noclose⟩) (by simp) id ?_
  intro D _ a fid i hl
  rcases a.just fid i hl with h | h | h | h | ⟨k, hk, hD⟩
  · exact Or.inl h
  · exact Or.inr (Or.inl h)
  · -- the stream gets a new handle, which has not been dropped
    have hm : i ∈ (e.doneq.foldr insertDone []).map (·.2) := by
      obtain ⟨x, hx, hxi⟩ := List.mem_map.mp h
      exact List.mem_map.mpr ⟨x, (sortDone_perm e.doneq).mem_iff.mpr hx, hxi⟩
    obtain ⟨k, hk, hki⟩ := List.getElem_of_mem hm
    refine Or.inr (Or.inr (Or.inr (Or.inr ⟨e.handles.length + k, ?_, ?_⟩)))
    · show (e.handles ++ (e.doneq.foldr insertDone []).map (·.2))[e.handles.length + k]? = some i
      rw [List.getElem?_append_right (by omega)]
      simp only [Nat.add_sub_cancel_left]
      rw [List.getElem?_eq_getElem hk, hki]
    · intro hin; have := a.dv _ hin; omega
  · exact Or.inr (Or.inr (Or.inr (Or.inl h)))
  · refine Or.inr (Or.inr (Or.inr (Or.inr ⟨k, ?_, hD⟩)))
    show (e.handles ++ _)[k]? = some i
    rw [List.getElem?_append_left (List.getElem?_eq_some_iff.mp hk).1]; exact hk

theorem KeepsA.sendSome (e : EP) : KeepsA e (sendSome e).1 := by
  unfold Mux.sendSome
  split <;> ka

theorem KeepsA.hold (e : EP) (c : Bool) : KeepsA e (if c then (e, ([] : List Ev)) else Mux.sendSome e).1 := by
  split
  · exact KeepsA.refl e
  · exact KeepsA.sendSome e

theorem KeepsA.settle (e : EP) : KeepsA e (settle e).1 := by
  have h1 := KeepsA.settleLoop (2 * e.inbox.length + e.droppedq.length + 2) e []
  unfold Mux.settle
  generalize Mux.settleLoop (2 * e.inbox.length + e.droppedq.length + 2) e [] = r1 at h1
  obtain ⟨e1, evs1⟩ := r1
  simp only
  have s1 := KeepsA.hold e1 (e1.dead || e1.draining.isSome)
  generalize (if (e1.dead || e1.draining.isSome) = true then (e1, ([] : List Ev)) else Mux.sendSome e1) = r2 at s1
  obtain ⟨e2, w2⟩ := r2
  simp only at s1 ⊢
  have s2 : KeepsA e2 (Mux.runDone { e2 with doneq := [] } (e2.doneq.foldr insertDone [])).1 := KeepsA.runDoneAll e2
  generalize Mux.runDone { e2 with doneq := [] } (e2.doneq.foldr insertDone []) = r3 at s2
  obtain ⟨e3, w3⟩ := r3
  simp only at s2 ⊢
  have s3 : KeepsA e3 (Mux.runRetries { e3 with retryq := [] } (sortNat e3.retryq)).1 :=
    ((by ka) : KeepsA e3 { e3 with retryq := [] }).trans (KeepsA.runRetries _ _)
  generalize Mux.runRetries { e3 with retryq := [] } (sortNat e3.retryq) = r4 at s3
  obtain ⟨e4, w4⟩ := r4
  simp only at s3 ⊢
  have s4 := KeepsA.hold e4 (e4.dead || e4.draining.isSome)
  exact h1.trans (((s1.trans s2).trans s3).trans s4)

/-! ### Application calls -/

theorem KeepsA.appWrite (e : EP) (h : Nat) (d : Bytes) : KeepsA e (appWrite e h d).1 := by
  unfold Mux.appWrite
  split
  · exact KeepsA.refl e
  · split
    · exact KeepsA.modObj e _ _
    · split
      · exact KeepsA.modObj e _ _
      · split
        · exact KeepsA.modObj e _ _
        · split
          · exact KeepsA.modObj e _ _
          · exact (KeepsA.enqFrame _ _).after (KeepsA.modObj e _ _)

theorem KeepsA.ackStep (e : EP) (i : Nat) (o : Obj) : KeepsA e (ackStep e i o) := by
  unfold Mux.ackStep
  split
  · exact (KeepsA.enqFrame _ _).after (KeepsA.modObj e _ _)
  · exact KeepsA.modObj e _ _

theorem KeepsA.fillBuf (fuel : Nat) (e : EP) (i : Nat) : KeepsA e (fillBuf fuel e i).1 := by
  induction fuel generalizing e with
  | zero => exact KeepsA.refl e
  | succ n ih =>
    unfold Mux.fillBuf
    split
    · exact KeepsA.refl e
    · split
      · exact KeepsA.refl e
      · split
        · rename_i _ o _ _ _ f rest _
          have s := (KeepsA.modObj e i (fun o => { o with rxq := rest, buf := f })).trans
            (KeepsA.ackStep _ i { o with rxq := rest, buf := f })
          simp only
          split
          · exact s.trans (ih _)
          · exact s
        · split
          · exact KeepsA.refl e
          · exact KeepsA.modObj e _ _

theorem KeepsA.appRead (e : EP) (h n : Nat) : KeepsA e (appRead e h n).1 := by
  unfold Mux.appRead
  split
  · exact KeepsA.refl e
  · rename_i i o _
    have s := KeepsA.fillBuf (o.rxq.length + 2) e i
    split
    · rename_i e' b heq
      rw [heq] at s
      exact s.trans (KeepsA.modObj _ _ _)
    · exact s

theorem KeepsA.appShutdown (e : EP) (h : Nat) : KeepsA e (appShutdown e h).1 := by
  unfold Mux.appShutdown
  split
  · exact KeepsA.refl e
  · split
    · exact KeepsA.modObj e _ _
    · exact (KeepsA.enqFrame _ _).after (KeepsA.modObj e _ _)

/-- Accepting a stream: it leaves the accept queue and becomes a (new, not dropped) handle. -/
theorem KeepsA.appAccept (e : EP) : KeepsA e (appAccept e).1 := by
  unfold Mux.appAccept
  split
  · rename_i i rest hq
    split
    · refine KeepsA.of (fun s => ⟨s.outOpen, s.mux, s.alive, s.nodrain, s.noclose⟩) (by simp) id ?_
      intro D _ a fid j hl
      have keep : ∀ k : Nat, e.handles[k]? = some j → (e.handles ++ [i])[k]? = some j := by
        intro k hk
        rw [List.getElem?_append_left (List.getElem?_eq_some_iff.mp hk).1]; exact hk
      rcases a.just fid j hl with h | h | h | h | ⟨k, hk, hD⟩
      · rw [hq] at h
        rcases List.mem_cons.mp h with h | h
        · subst h
          refine Or.inr (Or.inr (Or.inr (Or.inr ⟨e.handles.length, ?_, ?_⟩)))
          · show (e.handles ++ [j])[e.handles.length]? = some j
            simp
          · intro hin; have := a.dv _ hin; omega
        · exact Or.inl h
      · exact Or.inr (Or.inl h)
      · exact Or.inr (Or.inr (Or.inl h))
      · exact Or.inr (Or.inr (Or.inr (Or.inl h)))
      · exact Or.inr (Or.inr (Or.inr (Or.inr ⟨k, keep k hk, hD⟩)))
    · exact KeepsA.refl e
  · split <;> exact KeepsA.refl e

theorem KeepsA.appSendDgram (e : EP) (d : Dgram) : KeepsA e (appSendDgram e d).1 := by
  unfold Mux.appSendDgram
  split
  · exact KeepsA.refl e
  · split
    · exact KeepsA.refl e
    · exact KeepsA.enqFrame _ _

theorem KeepsA.appRecvDgram (e : EP) : KeepsA e (appRecvDgram e).1 := by
  unfold Mux.appRecvDgram
  split
  · ka
  · split <;> exact KeepsA.refl e

theorem KeepsA.appBindReq (e : EP) (req : Nat) (bt : BindType) (host : Bytes) (port : Nat) :
    KeepsA e (appBindReq e req bt host port).1 := by
  unfold Mux.appBindReq
  split
  · exact KeepsA.refl e
  · rename_i fid rng' fb' hd
    split
    · ka
    · have s : KeepsA e { e with rng := rng', fallback := fb', flows := insert e.flows fid (.bindRequested req) } :=
        (KeepsA.insertPending e fid (.bindRequested req) (by intro i hc; cases hc)).trans (by ka)
      exact s.trans (KeepsA.enqFrame _ _)

theorem KeepsA.appBindNext (e : EP) : KeepsA e (appBindNext e).1 := by
  unfold Mux.appBindNext
  split
  · exact KeepsA.refl e
  · split
    · ka
    · split <;> exact KeepsA.refl e

theorem KeepsA.appBindReply (e : EP) (k : Nat) (a : Bool) : KeepsA e (appBindReply e k a).1 := by
  unfold Mux.appBindReply
  split
  · exact KeepsA.refl e
  · split
    · exact KeepsA.refl e
    · split
      · exact KeepsA.refl e
      · exact (KeepsA.enqFrame e _).trans (by ka)

theorem KeepsA.appBindDrop (e : EP) (k : Nat) : KeepsA e (appBindDrop e k).1 := by
  unfold Mux.appBindDrop
  split
  · exact KeepsA.refl e
  · split
    · exact KeepsA.refl e
    · simp only
      split
      · ka
      · exact (KeepsA.enqFrame _ _).after (by ka)

theorem foldEnq_muxAlive (l : List BindIn) (e : EP) :
    (l.foldl (fun e b => e.enqFrame (.reset b.fid)) e).muxAlive = e.muxAlive := by
  induction l generalizing e with
  | nil => rfl
  | cons b rest ih => simp only [List.foldl_cons]; rw [ih]; simp [EP.enqFrame]

/-- Dropping the `Multiplexor` takes the endpoint out of service. -/
theorem KeepsA.appDropMux (e : EP) : KeepsA e (appDropMux e).1 := by
  refine KeepsA.off (fun s => ?_)
  have h := s.mux
  simp only [Mux.appDropMux] at h
  have h2 := foldEnq_muxAlive e.bindq { e with muxAlive := false, droppedq := if e.dead then e.droppedq else e.droppedq ++ [0] }
  simp only at h2
  rw [h2] at h; cases h

/-- Every operation except dropping a stream handle (which changes the set of dropped handles). -/
theorem KeepsA.opStep (e : EP) (op : Op) (hop : ∀ h, op ≠ .dropStream h) : KeepsA e (opStep e op).1 := by
  cases op with
  | «open» req host port =>
    simp only [Mux.opStep]
    split
    · exact KeepsA.refl e
    · exact KeepsA.openRound e _
  | accept => exact KeepsA.appAccept e
  | write h d => exact KeepsA.appWrite e h d
  | read h n => exact KeepsA.appRead e h n
  | shutdown h => exact KeepsA.appShutdown e h
  | dropStream h => exact absurd rfl (hop h)
  | sendDgram d => exact KeepsA.appSendDgram e d
  | recvDgram => exact KeepsA.appRecvDgram e
  | bindReq req bt host port => exact KeepsA.appBindReq e req bt host port
  | bindNext => exact KeepsA.appBindNext e
  | bindReply k a => exact KeepsA.appBindReply e k a
  | bindDrop k => exact KeepsA.appBindDrop e k
  | dropMux => exact KeepsA.appDropMux e
  | sinkRoom n => ka
  | cancelOpen req => ka
  | deliver w =>
    simp only [Mux.opStep]
    split
    · exact KeepsA.refl e
    · split <;> ka

/-- Dropping a stream handle: the handle joins the dropped ones, and the notification that is queued
    for the task takes over as the justification of that stream's slot (which is under the id the
    notification carries, `SlotFidE`). -/
theorem dropStream_accounted (e : EP) (D : List Nat) (h i : Nat) (o : Obj) (hs : SlotFidE e)
    (hh : e.handleObj h = some (i, o)) (ha : Accounted e D) :
    Accounted (appDropStream e h).1 (D ++ [h]) := by
  have ho : e.objs[i]? = some o := handleObj_some hh
  have hhi : e.handles[h]? = some i := by
    unfold EP.handleObj at hh
    split at hh
    · cases hh
    · rename_i j hj
      split at hh
      · cases hh
      · simp at hh; rw [hj, hh.1]
  unfold Mux.appDropStream
  rw [hh]
  simp only
  split
  · rename_i hd
    intro s; have h2 := s.alive
    rw [h2] at hd; cases hd
  · intro s
    have a := ha ⟨s.outOpen, s.mux, s.alive, s.nodrain, s.noclose⟩
    refine ⟨?_, a.keys, ?_⟩
    · intro x hx
      rcases List.mem_append.mp hx with hx | hx
      · exact a.dv x hx
      · simp only [List.mem_singleton] at hx; subst hx
        exact (List.getElem?_eq_some_iff.mp hhi).1
    · intro fid j hl
      rcases a.just fid j hl with h1 | h1 | h1 | h1 | ⟨k, hk, hD⟩
      · exact Or.inl h1
      · exact Or.inr (Or.inl h1)
      · exact Or.inr (Or.inr (Or.inl h1))
      · exact Or.inr (Or.inr (Or.inr (Or.inl (List.mem_append_left _ h1))))
      · by_cases hkh : k = h
        · subst hkh
          rw [hhi] at hk; cases hk
          have hfid : o.fid = fid := hs fid i o hl ho
          exact Or.inr (Or.inr (Or.inr (Or.inl (by rw [hfid]; simp))))
        · refine Or.inr (Or.inr (Or.inr (Or.inr ⟨k, hk, ?_⟩)))
          intro hin
          rcases List.mem_append.mp hin with hin | hin
          · exact hD hin
          · simp only [List.mem_singleton] at hin; exact hkh hin

/-! ### Every stimulus, every history -/

/-- The handle a stimulus drops. -/
def dropOf (e : EP) : Op → List Nat
  | .dropStream h => if (e.handleObj h).isSome then [h] else []
  | _ => []

theorem dropsOf_cons (e : EP) (op : Op) (rest : List Op) :
    dropsOf e (op :: rest) = dropOf e op ++ dropsOf (applyOp e op).1 rest := by
  cases op <;> rfl

theorem applyOp_accounted (e : EP) (op : Op) (D : List Nat) (hs : SlotFidE e) (ha : Accounted e D) :
    Accounted (applyOp e op).1 (D ++ dropOf e op) := by
  have h1 : Accounted (Mux.opStep e op).1 (D ++ dropOf e op) := by
    by_cases hop : ∃ h, op = .dropStream h
    · obtain ⟨h, rfl⟩ := hop
      cases hh : e.handleObj h with
      | none =>
        have : (Mux.opStep e (.dropStream h)).1 = e := by simp [Mux.opStep, Mux.appDropStream, hh]
        rw [this]; simpa [dropOf, hh] using ha
      | some p =>
        obtain ⟨i, o⟩ := p
        have := dropStream_accounted e D h i o hs hh ha
        simpa [dropOf, hh, Mux.opStep] using this
    · have hne : ∀ h, op ≠ .dropStream h := fun h hc => hop ⟨h, hc⟩
      have hd : dropOf e op = [] := by
        cases op <;> first | rfl | exact absurd rfl (hne _)
      rw [hd, List.append_nil]
      exact KeepsA.opStep e op hne D ha
  unfold Mux.applyOp
  generalize Mux.opStep e op = r at h1
  obtain ⟨e1, r1, evs1⟩ := r
  exact KeepsA.settle e1 _ h1

theorem runOps_accounted (e : EP) (ops : List Op) (D : List Nat) (hi : Inv2 e) (hs : SlotFidE e)
    (ha : Accounted e D) : Accounted (runOps e ops) (D ++ dropsOf e ops) := by
  induction ops generalizing e D with
  | nil => simpa [runOps, dropsOf] using ha
  | cons op rest ih =>
    rw [dropsOf_cons, ← List.append_assoc]
    exact ih (applyOp e op).1 (D ++ dropOf e op) (applyOp_inv e op hi) (applyOp_slotFid e op hi hs)
      (applyOp_accounted e op D hs ha)

theorem init_accounted (o : Opts) : Accounted { opts := o } [] :=
  fun _ => ⟨fun _ h => (by cases h), List.nodup_nil, fun fid i h => (by simp at h)⟩

/-- In every state an endpoint reaches — any sequence of application calls and deliveries, any peer —
    every `Established` slot is accounted for (while the endpoint is in service). -/
theorem reachable_accounted (o : Opts) (ops : List Op) :
    Accounted (runOps { opts := o } ops) (dropsOf { opts := o } ops) := by
  have := runOps_accounted { opts := o } ops [] (init_inv o) (by intro fid i ob h; simp [lookup] at h) (init_accounted o)
  simpa using this

end Penguin.Mux
