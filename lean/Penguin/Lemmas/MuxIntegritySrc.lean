/-
Where accepted frames come from: for every history of one endpoint and ANY peer, the payloads accepted
into stream objects (all objects together, in the order they were accepted), followed by the `Push`
payloads still waiting in the inbox, are a SUBSEQUENCE of the payloads of the `Push` frames the transport
delivered, in delivery order — every delivered `Push` is accepted at most once, into at most one object,
never out of order, and nothing that was not delivered as a `Push` is ever accepted.
`Src e e' L`: from `e` to `e'`, with accept log `L`: `L`'s payloads ++ the `Push` payloads in `e'.inbox` are
a subsequence of the `Push` payloads in `e.inbox`.
Core Lean only.
-/
import Penguin.Lemmas.MuxIntegrityHist

namespace Penguin.Mux

local infixl:50 " <+ " => List.Sublist

/-- The payloads of the `Push` frames among transport items, in order. -/
def pushData : List WsIn → List Bytes
  | [] => []
  | .msg (.frame (.push _ d)) :: r => d :: pushData r
  | _ :: r => pushData r

theorem pushData_append (a b : List WsIn) : pushData (a ++ b) = pushData a ++ pushData b := by
  induction a with
  | nil => rfl
  | cons w r ih =>
    cases w with
    | msg m =>
      cases m with
      | frame f => cases f <;> simp [pushData, ih]
      | ping => simpa [pushData] using ih
      | pong => simpa [pushData] using ih
      | close => simpa [pushData] using ih
    | bad b => simpa [pushData] using ih
    | err => simpa [pushData] using ih
    | eof => simpa [pushData] using ih

theorem pushData_cons_sub (w : WsIn) (r : List WsIn) : pushData r <+ pushData (w :: r) := by
  cases w with
  | msg m =>
    cases m with
    | frame f => cases f <;> first | exact List.Sublist.refl _ | exact List.sublist_cons_self _ _
    | ping => exact List.Sublist.refl _
    | pong => exact List.Sublist.refl _
    | close => exact List.Sublist.refl _
  | bad b => exact List.Sublist.refl _
  | err => exact List.Sublist.refl _
  | eof => exact List.Sublist.refl _

/-- The payloads of a log, all objects together. -/
def Log.data (L : Log) : List Bytes := L.map (·.2)

theorem Log.data_append (a b : Log) : Log.data (a ++ b) = Log.data a ++ Log.data b := by simp [Log.data]

/-- One item: what is accepted from it is its own `Push` payload, at most once. -/
theorem processInLog_sub (e : EP) (w : WsIn) (r : List WsIn) :
    Log.data (processInLog e w) ++ pushData r <+ pushData (w :: r) := by
  by_cases hn : processInLog e w = []
  · rw [hn]; exact pushData_cons_sub w r
  · cases w with
    | msg m =>
      cases m with
      | frame f =>
        simp only [processInLog] at hn ⊢
        obtain ⟨p, hp⟩ := List.exists_mem_of_ne_nil _ hn
        obtain ⟨fid, hf, _, hl⟩ := acceptedInto_spec e f p.1 p.2 hp
        rw [hl, hf]
        exact List.Sublist.refl _
      | ping => exact absurd rfl hn
      | pong => exact absurd rfl hn
      | close => exact absurd rfl hn
    | bad b => exact absurd rfl hn
    | err => exact absurd rfl hn
    | eof => exact absurd rfl hn

theorem windDownInboxLog_sub (e : EP) (l : List WsIn) : Log.data (windDownInboxLog e l) <+ pushData l := by
  induction l generalizing e with
  | nil => exact List.Sublist.refl _
  | cons w l ih =>
    cases w with
    | err => exact List.nil_sublist _
    | eof => exact List.nil_sublist _
    | msg m =>
      simp only [windDownInboxLog, Log.data_append]
      exact (List.Sublist.append (List.Sublist.refl _) (ih _)).trans (processInLog_sub e (.msg m) l)
    | bad b =>
      simp only [windDownInboxLog, Log.data_append]
      exact (List.Sublist.append (List.Sublist.refl _) (ih _)).trans (processInLog_sub e (.bad b) l)

/-! ### The inbox is only consumed by the receive loop and the wind-down -/

@[simp] theorem enq_inbox (e : EP) (m : Msg) : (e.enq m).inbox = e.inbox := by
  unfold EP.enq; split <;> rfl
@[simp] theorem enqFrame_inbox (e : EP) (f : Frame) : (e.enqFrame f).inbox = e.inbox := enq_inbox e _
@[simp] theorem modObj_inbox (e : EP) (i : Nat) (f : Obj → Obj) : (e.modObj i f).inbox = e.inbox := rfl

theorem openRound_inbox (e : EP) (r : OpenReq) : (openRound e r).1.inbox = e.inbox := by
  unfold Mux.openRound
  split
  · rfl
  · split
    · rfl
    · simp only
      split <;> simp

theorem openRejected_inbox (e : EP) (req : Nat) (final : Bool) : (openRejected e req final).1.inbox = e.inbox := by
  unfold Mux.openRejected
  repeat' split
  all_goals rfl

theorem closeLocal_inbox (e : EP) (s : Slot) (fid : Nat) (inh final : Bool) :
    (closeLocal e s fid inh final).1.inbox = e.inbox := by
  unfold Mux.closeLocal
  cases s with
  | established i =>
    simp only
    cases e.obj? i with
    | none => rfl
    | some o => simp only; split <;> simp
  | requested req => exact openRejected_inbox e req final
  | bindRequested req => rfl

theorem closeFlow_inbox (e : EP) (fid : Nat) (inh : Bool) : (closeFlow e fid inh).1.inbox = e.inbox := by
  unfold Mux.closeFlow
  split
  · rfl
  · exact closeLocal_inbox _ _ _ _ _

theorem offerAccept_inbox (e : EP) (i : Nat) : (offerAccept e i).inbox = e.inbox := by
  unfold Mux.offerAccept; split <;> rfl

theorem offerBind_inbox (e : EP) (b : BindIn) : (offerBind e b).inbox = e.inbox := by
  unfold Mux.offerBind; split <;> rfl

theorem processFrame_inbox (e : EP) (f : Frame) (ig : Bool) : (processFrame e f ig).1.inbox = e.inbox := by
  cases f with
  | connect fid rwnd port host =>
    simp only [Mux.processFrame]
    repeat' split
    all_goals simp [offerAccept_inbox]
  | acknowledge fid n =>
    simp only [Mux.processFrame]
    repeat' split
    all_goals simp
  | finish fid =>
    simp only [Mux.processFrame]
    repeat' split
    all_goals simp
  | reset fid =>
    simp only [Mux.processFrame]
    exact closeFlow_inbox e fid true
  | push fid d =>
    simp only [Mux.processFrame]
    repeat' split
    all_goals first | rfl | exact closeFlow_inbox e fid false | simp
  | bind fid bt port host =>
    simp only [Mux.processFrame]
    repeat' split
    all_goals first | rfl | exact offerBind_inbox _ _ | simp
  | datagram fid port host d =>
    simp only [Mux.processFrame]
    repeat' split
    all_goals rfl

theorem processIn_inbox (e : EP) (w : WsIn) (ig : Bool) : (processIn e w ig).1.inbox = e.inbox := by
  cases w with
  | msg m => cases m <;> first | exact processFrame_inbox _ _ ig | rfl
  | bad b => rfl
  | err => rfl
  | eof => rfl

theorem disallowAll_inbox' (e : EP) (l : List (Nat × Slot)) : (disallowAll e l).inbox = e.inbox := by
  induction l generalizing e with
  | nil => rfl
  | cons p l ih =>
    obtain ⟨fid, s⟩ := p
    cases s <;> simp only [Mux.disallowAll] <;> first | exact ih _ | exact ih e

theorem drainFlows_inbox (e : EP) (l : List (Nat × Slot)) : (drainFlows e l).1.inbox = e.inbox := by
  induction l generalizing e with
  | nil => rfl
  | cons p l ih =>
    obtain ⟨fid, s⟩ := p
    simp only [Mux.drainFlows]
    rw [ih, closeLocal_inbox]

theorem windDownFinish_inbox (e : EP) (res : ExitRes) : (windDownFinish e res).1.inbox = e.inbox := by
  simp only [Mux.windDownFinish]
  exact drainFlows_inbox { e with flows := [] } e.flows

theorem sendSome_inbox (e : EP) : (sendSome e).1.inbox = e.inbox := by
  unfold Mux.sendSome; split <;> rfl

theorem unpark_inbox' (e : EP) : (unpark e).inbox = e.inbox := by
  unfold Mux.unpark
  repeat' split
  all_goals first | rfl | simp

theorem runRetries_inbox (e : EP) (l : List Nat) : (runRetries e l).1.inbox = e.inbox := by
  induction l generalizing e with
  | nil => rfl
  | cons req rest ih =>
    unfold Mux.runRetries
    split
    · exact ih e
    · simp only; rw [ih, openRound_inbox]

theorem runDone_inbox (e : EP) (l : List (Nat × Nat)) : (runDone e l).1.inbox = e.inbox := by
  induction l generalizing e with
  | nil => rfl
  | cons x rest ih =>
    obtain ⟨req, i⟩ := x
    unfold Mux.runDone
    simp only; rw [ih]

/-! ### The relation -/

def Src (e e' : EP) (L : Log) : Prop := Log.data L ++ pushData e'.inbox <+ pushData e.inbox

theorem Src.silent {e e' : EP} (h : e'.inbox = e.inbox) : Src e e' [] := by
  unfold Src; rw [h]; exact List.Sublist.refl _

theorem Src.refl (e : EP) : Src e e [] := Src.silent rfl

theorem Src.clear {e e' : EP} (h : e'.inbox = []) : Src e e' [] := by
  unfold Src; rw [h]; exact List.nil_sublist _

theorem Src.trans {a b c : EP} {L1 L2 : Log} (s : Src a b L1) (t : Src b c L2) : Src a c (L1 ++ L2) := by
  unfold Src at *
  rw [Log.data_append, List.append_assoc]
  exact (List.Sublist.append (List.Sublist.refl _) t).trans s

theorem Src.log {e e' : EP} {L L' : Log} (s : Src e e' L) (h : L' = L) : Src e e' L' := h ▸ s

theorem Src.trans0 {a b c : EP} {L : Log} (s : Src a b []) (t : Src b c L) : Src a c L := (s.trans t).log rfl
theorem Src.trans1 {a b c : EP} {L : Log} (s : Src a b L) (t : Src b c []) : Src a c L := (s.trans t).log (by simp)

theorem Src.congr {e e' a a' : EP} {L : Log} (s : Src e e' L) (h1 : a.inbox = e.inbox) (h2 : a'.inbox = e'.inbox) :
    Src a a' L := by
  unfold Src at *; rw [h1, h2]; exact s

/-- The whole log of a wind-down pass over the inbox, the inbox being emptied afterwards. -/
theorem Src.windDownPass (e e' : EP) (h : e'.inbox = []) : Src e e' (windDownInboxLog e e.inbox) := by
  unfold Src; rw [h]
  simpa [pushData] using windDownInboxLog_sub e e.inbox

theorem Src.windDownTail (e1 : EP) (flushed : List Ev) (srcEnded : Bool) (res : ExitRes) :
    Src e1 (windDownTail e1 flushed srcEnded res).1 (windDownTailLog e1) := by
  simp only [Mux.windDownTail, windDownTailLog]
  split
  · exact Src.windDownPass e1 _ (by rw [windDownFinish_inbox])
  · exact Src.windDownPass e1 _ rfl

theorem Src.windDown (e : EP) (drain : Bool) (res : ExitRes) : Src e (windDown e drain res).1 (windDownLog e drain) := by
  simp only [Mux.windDown, windDownLog]
  have hd : (Mux.sendSome (Mux.dropPrep e)).1.inbox = e.inbox := by
    rw [sendSome_inbox]; exact disallowAll_inbox' e e.flows
  split
  · split
    · exact (Src.silent hd).trans0 (Src.windDownTail _ _ _ _)
    · exact Src.silent hd
  · exact (Src.silent (disallowAll_inbox' e e.flows) : Src e (Mux.windDownPrep e) []).trans0 (Src.windDownTail _ _ _ _)

theorem Src.drainStep (e : EP) (res : ExitRes) : Src e (drainStep e res).1 (drainStepLog e) := by
  simp only [Mux.drainStep, drainStepLog]
  split
  · exact (Src.silent (sendSome_inbox e) : Src e { (Mux.sendSome e).1 with draining := none } []).trans0
      (Src.windDownTail _ _ _ _)
  · exact Src.silent (sendSome_inbox e)

theorem Src.closingStep (e : EP) (res : ExitRes) : Src e (closingStep e res).1 (closingStepLog e) := by
  simp only [Mux.closingStep, closingStepLog]
  split
  · exact Src.windDownPass e _ (by rw [windDownFinish_inbox])
  · exact Src.windDownPass e _ rfl

/-- The receive loop takes the oldest item. -/
theorem Src.recvOne (e : EP) (w : WsIn) (rest : List WsIn) (hi : e.inbox = w :: rest) :
    Src e (recvOne e w rest).1 (recvOneLog e w rest) := by
  unfold Src
  simp only [Mux.recvOne, recvOneLog]
  rw [processIn_inbox, hi]
  exact processInLog_sub _ w rest

theorem Src.settleLoop (fuel : Nat) (e : EP) (acc : List Ev) : Src e (settleLoop fuel e acc).1 (settleLoopLog fuel e) := by
  induction fuel generalizing e acc with
  | zero => exact Src.refl e
  | succ n ih =>
    unfold Mux.settleLoop settleLoopLog
    split
    · exact Src.refl e
    · split
      · rename_i res hdr
        simp only [hdr]
        exact Src.drainStep _ _
      · rename_i hdr
        simp only [hdr]
        split
        · rename_i res hcl
          simp only [hcl]
          exact Src.closingStep _ _
        · rename_i hcl
          simp only [hcl]
          have gu : Src e (Mux.unpark e) [] := Src.silent (unpark_inbox' e)
          split
          · rename_i w rest hp hi
            rw [recvCase_pos _ _ hp hi]
            have gp := gu.trans0 (Src.recvOne (Mux.unpark e) w rest hi)
            split
            · rename_i r hr
              simp only [hr]
              exact gp.trans (Src.windDown _ _ _)
            · rename_i hr
              simp only [hr]
              exact gp.trans (ih _ _)
          · rename_i hneg
            rw [recvCase_neg _ _ hneg]
            split
            · rename_i rest hq
              simp only [hq]
              exact gu.trans0 ((Src.windDown { Mux.unpark e with droppedq := rest } true .ok).congr rfl rfl)
            · rename_i fid rest h0 hq
              simp only [hq]
              exact (gu.trans0 (Src.silent (closeFlow_inbox { Mux.unpark e with droppedq := rest } fid false))).trans0 (ih _ _)
            · rename_i hq
              simp only [hq]
              exact gu

theorem hold_inbox (e : EP) (c : Bool) : (if c then (e, ([] : List Ev)) else Mux.sendSome e).1.inbox = e.inbox := by
  split
  · rfl
  · exact sendSome_inbox e

/-- The task's run to quiescence consumes inbox items in order; what it accepts is what it consumed. -/
theorem Src.settle (e : EP) : Src e (settle e).1 (settleLog e) := by
  have h1 := Src.settleLoop (2 * e.inbox.length + e.droppedq.length + 2) e []
  unfold Mux.settle
  unfold settleLog
  generalize Mux.settleLoop (2 * e.inbox.length + e.droppedq.length + 2) e [] = r1 at h1
  obtain ⟨e1, evs1⟩ := r1
  simp only
  have s1 := hold_inbox e1 (e1.dead || e1.draining.isSome)
  generalize (if (e1.dead || e1.draining.isSome) = true then (e1, ([] : List Ev)) else Mux.sendSome e1) = r2 at s1
  obtain ⟨e2, w2⟩ := r2
  simp only at s1 ⊢
  have s2 : (Mux.runDone { e2 with doneq := [] } (e2.doneq.foldr insertDone [])).1.inbox = e2.inbox := by
    rw [runDone_inbox]
  generalize Mux.runDone { e2 with doneq := [] } (e2.doneq.foldr insertDone []) = r3 at s2
  obtain ⟨e3, w3⟩ := r3
  simp only at s2 ⊢
  have s3 : (Mux.runRetries { e3 with retryq := [] } (sortNat e3.retryq)).1.inbox = e3.inbox := by
    rw [runRetries_inbox]
  generalize Mux.runRetries { e3 with retryq := [] } (sortNat e3.retryq) = r4 at s3
  obtain ⟨e4, w4⟩ := r4
  simp only at s3 ⊢
  have s4 := hold_inbox e4 (e4.dead || e4.draining.isSome)
  exact h1.trans1 (Src.silent (by rw [s4, s3, s2, s1]))

/-! ### Application calls do not touch the inbox; a delivery appends to it (or is ignored) -/

theorem appWrite_inbox (e : EP) (h : Nat) (d : Bytes) : (appWrite e h d).1.inbox = e.inbox := by
  unfold Mux.appWrite
  repeat' split
  all_goals first | rfl | simp

theorem ackStep_inbox (e : EP) (i : Nat) (o : Obj) : (ackStep e i o).inbox = e.inbox := by
  unfold Mux.ackStep; split <;> simp

theorem fillBuf_inbox (fuel : Nat) (e : EP) (i : Nat) : (fillBuf fuel e i).1.inbox = e.inbox := by
  induction fuel generalizing e with
  | zero => rfl
  | succ n ih =>
    unfold Mux.fillBuf
    split
    · rfl
    · split
      · rfl
      · split
        · simp only
          split
          · rw [ih, ackStep_inbox]; rfl
          · rw [ackStep_inbox]; rfl
        · split <;> rfl

theorem appRead_inbox (e : EP) (h n : Nat) : (appRead e h n).1.inbox = e.inbox := by
  unfold Mux.appRead
  split
  · rfl
  · rename_i i o _
    have s := fillBuf_inbox (o.rxq.length + 2) e i
    split
    · rename_i e' b heq
      rw [heq] at s
      exact s
    · exact s

theorem appShutdown_inbox (e : EP) (h : Nat) : (appShutdown e h).1.inbox = e.inbox := by
  unfold Mux.appShutdown
  repeat' split
  all_goals first | rfl | simp

theorem appDropStream_inbox (e : EP) (h : Nat) : (appDropStream e h).1.inbox = e.inbox := by
  unfold Mux.appDropStream
  split
  · rfl
  · simp only
    split <;> rfl

theorem appAccept_inbox (e : EP) : (appAccept e).1.inbox = e.inbox := by
  unfold Mux.appAccept
  repeat' split
  all_goals rfl

theorem appSendDgram_inbox (e : EP) (d : Dgram) : (appSendDgram e d).1.inbox = e.inbox := by
  unfold Mux.appSendDgram
  repeat' split
  all_goals first | rfl | simp

theorem appRecvDgram_inbox (e : EP) : (appRecvDgram e).1.inbox = e.inbox := by
  unfold Mux.appRecvDgram
  repeat' split
  all_goals rfl

theorem appBindReq_inbox (e : EP) (req : Nat) (bt : BindType) (host : Bytes) (port : Nat) :
    (appBindReq e req bt host port).1.inbox = e.inbox := by
  unfold Mux.appBindReq
  repeat' split
  all_goals first | rfl | simp

theorem appBindNext_inbox (e : EP) : (appBindNext e).1.inbox = e.inbox := by
  unfold Mux.appBindNext
  repeat' split
  all_goals rfl

theorem appBindReply_inbox (e : EP) (k : Nat) (a : Bool) : (appBindReply e k a).1.inbox = e.inbox := by
  unfold Mux.appBindReply
  repeat' split
  all_goals first | rfl | simp

theorem appBindDrop_inbox (e : EP) (k : Nat) : (appBindDrop e k).1.inbox = e.inbox := by
  unfold Mux.appBindDrop
  split
  · rfl
  · split
    · rfl
    · simp only
      split <;> simp

theorem foldEnq_inbox (l : List BindIn) (e : EP) :
    (l.foldl (fun e b => e.enqFrame (.reset b.fid)) e).inbox = e.inbox := by
  induction l generalizing e with
  | nil => rfl
  | cons b rest ih => simp only [List.foldl_cons]; rw [ih]; simp

theorem appDropMux_inbox (e : EP) : (appDropMux e).1.inbox = e.inbox := by
  unfold Mux.appDropMux
  simp only
  rw [foldEnq_inbox]

/-- The `Push` payloads a stimulus delivers. -/
def deliveredBy : Op → List Bytes
  | .deliver (.msg (.frame (.push _ d))) => [d]
  | _ => []

/-- The `Push` payloads the transport delivered along a history, in order. -/
def deliveredData : List Op → List Bytes
  | [] => []
  | op :: rest => deliveredBy op ++ deliveredData rest

theorem deliveredData_append (a b : List Op) : deliveredData (a ++ b) = deliveredData a ++ deliveredData b := by
  induction a with
  | nil => rfl
  | cons op r ih => simp [deliveredData, ih]

/-- A stimulus adds to the inbox at most what it delivers. -/
theorem opStep_inbox (e : EP) (op : Op) :
    pushData (opStep e op).1.inbox <+ pushData e.inbox ++ deliveredBy op := by
  have keep : ∀ e' : EP, e'.inbox = e.inbox → pushData e'.inbox <+ pushData e.inbox ++ deliveredBy op := by
    intro e' h; rw [h]; exact List.sublist_append_left _ _
  cases op with
  | «open» req host port =>
    simp only [Mux.opStep]
    split
    · exact keep _ rfl
    · exact keep _ (openRound_inbox e _)
  | accept => exact keep _ (appAccept_inbox e)
  | write h d => exact keep _ (appWrite_inbox e h d)
  | read h n => exact keep _ (appRead_inbox e h n)
  | shutdown h => exact keep _ (appShutdown_inbox e h)
  | dropStream h => exact keep _ (appDropStream_inbox e h)
  | sendDgram d => exact keep _ (appSendDgram_inbox e d)
  | recvDgram => exact keep _ (appRecvDgram_inbox e)
  | bindReq req bt host port => exact keep _ (appBindReq_inbox e req bt host port)
  | bindNext => exact keep _ (appBindNext_inbox e)
  | bindReply k a => exact keep _ (appBindReply_inbox e k a)
  | bindDrop k => exact keep _ (appBindDrop_inbox e k)
  | dropMux => exact keep _ (appDropMux_inbox e)
  | sinkRoom n => exact keep _ rfl
  | cancelOpen req => exact keep _ rfl
  | deliver w =>
    simp only [Mux.opStep]
    split
    · exact keep _ rfl
    · split
      · show pushData (e.inbox ++ [.msg .close, .eof]) <+ _
        rw [pushData_append]
        exact List.Sublist.append (List.Sublist.refl _) (List.nil_sublist _)
      · show pushData (e.inbox ++ [w]) <+ _
        rw [pushData_append]
        refine List.Sublist.append (List.Sublist.refl _) ?_
        cases w with
        | msg m =>
          cases m with
          | frame f => cases f <;> first | exact List.Sublist.refl _ | exact List.nil_sublist _
          | ping => exact List.nil_sublist _
          | pong => exact List.nil_sublist _
          | close => exact List.nil_sublist _
        | bad b => exact List.nil_sublist _
        | err => exact List.nil_sublist _
        | eof => exact List.nil_sublist _

/-- Every history: accepted payloads, then the `Push` payloads still in the inbox, are a subsequence
    of the delivered `Push` payloads. -/
theorem src_run (e : EP) (g : Ghost) (D : List Bytes) (ops : List Op)
    (h : Log.data g.accepted ++ pushData e.inbox <+ D) :
    Log.data (runOpsG e g ops).2.accepted ++ pushData (runOpsG e g ops).1.inbox <+ D ++ deliveredData ops := by
  induction ops generalizing e g D with
  | nil => simpa [runOpsG, deliveredData] using h
  | cons op rest ih =>
    simp only [runOpsG, deliveredData]
    rw [← List.append_assoc]
    refine ih _ _ _ ?_
    have h1 := opStep_inbox e op
    have h2 : Src (opStep e op).1 (applyOp e op).1 (settleLog (opStep e op).1) := Src.settle _
    unfold Src at h2
    show Log.data (g.accepted ++ settleLog (opStep e op).1) ++ pushData (applyOp e op).1.inbox <+ D ++ deliveredBy op
    rw [Log.data_append, List.append_assoc]
    have h3 : Log.data g.accepted ++ (Log.data (settleLog (opStep e op).1) ++ pushData (applyOp e op).1.inbox) <+
        Log.data g.accepted ++ (pushData e.inbox ++ deliveredBy op) :=
      List.Sublist.append (List.Sublist.refl _) (h2.trans h1)
    exact h3.trans (by rw [← List.append_assoc]; exact List.Sublist.append h (List.Sublist.refl _))

/-- The payloads a log attributes to object `i`, frame by frame. -/
def Log.dataOf (L : Log) (i : Nat) : List Bytes := (L.filter (fun p => p.1 == i)).map (·.2)

theorem chunks_eq_flatten (L : Log) (i : Nat) : chunks L i = (Log.dataOf L i).flatten := by
  induction L with
  | nil => rfl
  | cons p r ih =>
    obtain ⟨j, d⟩ := p
    by_cases hj : j = i
    · simp [chunks, Log.dataOf, hj] at ih ⊢
      exact ih
    · simp [chunks, Log.dataOf, hj] at ih ⊢
      exact ih

theorem Log.dataOf_sub (L : Log) (i : Nat) : Log.dataOf L i <+ Log.data L :=
  List.Sublist.map _ List.filter_sublist

/-- Accepted frames come from delivered `Push` frames: each at most once, in delivery order. -/
theorem accepted_sublist_delivered (o : Opts) (ops : List Op) :
    Log.data (runOpsG { opts := o } {} ops).2.accepted <+ deliveredData ops := by
  have h := src_run { opts := o } {} [] ops (List.Sublist.refl _)
  simp only [List.nil_append] at h
  exact (List.sublist_append_left _ _).trans h

end Penguin.Mux
