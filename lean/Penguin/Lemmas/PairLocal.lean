/-
Object-local updates of the endpoint model: `LocalUpd e e' i o' em dq` says that going from `e` to
`e'` only replaced stream object `i` by `o'`, appended `em` to the outbound queue and `dq` to the
notification queue.  The application calls on a stream handle (`appWrite`, `appRead`,
`appShutdown`, `appDropStream`) are object-local; their exact effect is given case by case.
-/
import Penguin.Model.Mux
import Penguin.Lemmas.MuxBasic
import Penguin.Lemmas.PairEff

namespace Penguin.Mux

structure LocalUpd (e e' : EP) (i : Nat) (o' : Obj) (em : List Msg) (dq : List Nat) : Prop where
  flows : e'.flows = e.flows
  rng : e'.rng = e.rng
  opts : e'.opts = e.opts
  others : ∀ k, k ≠ i → e'.objs[k]? = e.objs[k]?
  self : e'.objs[i]? = some o'
  outq : e'.outq = e.outq ++ em
  dq : e'.droppedq = e.droppedq ++ dq

namespace LocalUpd

theorem refl (e : EP) (i : Nat) (o : Obj) (ho : e.objs[i]? = some o) : LocalUpd e e i o [] [] :=
  ⟨rfl, rfl, rfl, fun _ _ => rfl, ho, by simp, by simp⟩

theorem trans {a b c : EP} {i : Nat} {o1 o2 : Obj} {em1 em2 : List Msg} {dq1 dq2 : List Nat}
    (s : LocalUpd a b i o1 em1 dq1) (t : LocalUpd b c i o2 em2 dq2) : LocalUpd a c i o2 (em1 ++ em2) (dq1 ++ dq2) :=
  ⟨by rw [t.flows, s.flows], by rw [t.rng, s.rng], by rw [t.opts, s.opts],
   fun k hk => by rw [t.others k hk, s.others k hk], t.self,
   by rw [t.outq, s.outq, List.append_assoc], by rw [t.dq, s.dq, List.append_assoc]⟩

theorem modObj (e : EP) (i : Nat) (f : Obj → Obj) (o o' : Obj) (ho : e.objs[i]? = some o) (hf : f o = o') :
    LocalUpd e (e.modObj i f) i o' [] [] :=
  ⟨rfl, rfl, rfl, fun k hk => modObj_get_ne e i k f hk, by rw [modObj_get_self, ho, ← hf]; rfl, by simp, by simp⟩

theorem enqFrame (e : EP) (fr : Frame) (i : Nat) (o : Obj) (ho : e.objs[i]? = some o) (hoc : e.outClosed = false) :
    LocalUpd e (e.enqFrame fr) i o [.frame fr] [] :=
  ⟨by simp [EP.enqFrame], by simp [EP.enqFrame], by simp [EP.enqFrame], fun _ _ => by simp [EP.enqFrame],
   by simpa [EP.enqFrame] using ho, by simp [EP.enqFrame, enq_outq, hoc], by simp [EP.enqFrame]⟩

theorem dqPush (e : EP) (y : Nat) (i : Nat) (o : Obj) (ho : e.objs[i]? = some o) :
    LocalUpd e { e with droppedq := e.droppedq ++ [y] } i o [] [y] :=
  ⟨rfl, rfl, rfl, fun _ _ => rfl, ho, by simp, rfl⟩

/-- `modObj` then `enqFrame`. -/
theorem modEnq (e : EP) (i : Nat) (f : Obj → Obj) (fr : Frame) (o o' : Obj) (ho : e.objs[i]? = some o) (hf : f o = o')
    (hoc : e.outClosed = false) : LocalUpd e ((e.modObj i f).enqFrame fr) i o' [.frame fr] [] := by
  have s1 := modObj e i f o o' ho hf
  have s2 := enqFrame (e.modObj i f) fr i o' s1.self hoc
  simpa using s1.trans s2

/-- The result determines the new object and what was emitted. -/
theorem unique {e e' : EP} {i : Nat} {o1 o2 : Obj} {em1 em2 : List Msg} {dq1 dq2 : List Nat}
    (s : LocalUpd e e' i o1 em1 dq1) (t : LocalUpd e e' i o2 em2 dq2) : o1 = o2 ∧ em1 = em2 ∧ dq1 = dq2 := by
  refine ⟨?_, ?_, ?_⟩
  · have := s.self; rw [t.self] at this; cases this; rfl
  · have := s.outq; rw [t.outq] at this; exact (List.append_cancel_left this).symm
  · have := s.dq; rw [t.dq] at this; exact (List.append_cancel_left this).symm

end LocalUpd

/-! ### `poll_write` -/

/-- The four outcomes of a write, as object-local updates. -/
theorem appWrite_local (e : EP) (h i : Nat) (o : Obj) (d : Bytes)
    (hh : e.handleObj h = some (i, o)) (hoc : e.outClosed = false) :
    (o.finishSent = true ∧ (appWrite e h d).2 = .brokenPipe ∧
        LocalUpd e (appWrite e h d).1 i { o with parked := false } [] []) ∨
    (o.finishSent = false ∧ d = [] ∧ (appWrite e h d).2 = .wrote 0 ∧
        LocalUpd e (appWrite e h d).1 i { o with parked := false } [] []) ∨
    (o.finishSent = false ∧ d ≠ [] ∧ o.credit = 0 ∧ (appWrite e h d).2 = .pending ∧
        LocalUpd e (appWrite e h d).1 i { o with parked := true, woken := false } [] []) ∨
    (o.finishSent = false ∧ d ≠ [] ∧ o.credit ≠ 0 ∧ (appWrite e h d).2 = .wrote d.length ∧
        LocalUpd e (appWrite e h d).1 i { o with credit := o.credit - 1, parked := false }
          [.frame (.push o.fid d)] []) := by
  have ho := handleObj_obj hh
  by_cases hf : o.finishSent = true
  · left
    have hres : appWrite e h d = (e.modObj i (fun o => { o with parked := false }), .brokenPipe) := by
      unfold appWrite; rw [hh]; simp [hf]
    rw [hres]
    exact ⟨hf, rfl, LocalUpd.modObj e i _ o _ ho rfl⟩
  · have hf' : o.finishSent = false := by simpa using hf
    right
    by_cases hd : d = []
    · left
      have hres : appWrite e h d = (e.modObj i (fun o => { o with parked := false }), .wrote 0) := by
        unfold appWrite; rw [hh]; simp [hf', hd]
      rw [hres]
      exact ⟨hf', hd, rfl, LocalUpd.modObj e i _ o _ ho rfl⟩
    · right
      have hde : d.isEmpty = false := by cases d <;> simp_all
      by_cases hc : o.credit = 0
      · left
        have hres : appWrite e h d = (e.modObj i (fun o => { o with parked := true, woken := false }), .pending) := by
          unfold appWrite; rw [hh]; simp [hf', hde, hc]
        rw [hres]
        exact ⟨hf', hd, hc, rfl, LocalUpd.modObj e i _ o _ ho rfl⟩
      · right
        have hres : appWrite e h d =
            ((e.modObj i (fun o => { o with credit := o.credit - 1, parked := false })).enqFrame (.push o.fid d),
             .wrote d.length) := by
          unfold appWrite; rw [hh]; simp [hf', hde, hc, hoc]
        rw [hres]
        exact ⟨hf', hd, hc, rfl, LocalUpd.modEnq e i _ _ o _ ho rfl hoc⟩

/-! ### `poll_shutdown` -/

theorem appShutdown_local (e : EP) (h i : Nat) (o : Obj)
    (hh : e.handleObj h = some (i, o)) (hoc : e.outClosed = false) :
    (o.finishSent = true ∧ LocalUpd e (appShutdown e h).1 i { o with parked := false } [] []) ∨
    (o.finishSent = false ∧
        LocalUpd e (appShutdown e h).1 i { o with finishSent := true, parked := false } [.frame (.finish o.fid)] []) := by
  have ho := handleObj_obj hh
  by_cases hf : o.finishSent = true
  · left
    have hres : appShutdown e h = (e.modObj i (fun o => { o with parked := false }), .unit) := by
      unfold appShutdown; rw [hh]; simp [hf]
    rw [hres]
    exact ⟨hf, LocalUpd.modObj e i _ o _ ho rfl⟩
  · right
    have hf' : o.finishSent = false := by simpa using hf
    have hres : appShutdown e h = ((e.modObj i (fun o => { o with finishSent := true, parked := false })).enqFrame (.finish o.fid), .unit) := by
      unfold appShutdown; rw [hh]; simp [hf']
    rw [hres]
    exact ⟨hf', LocalUpd.modEnq e i _ _ o _ ho rfl hoc⟩

/-! ### Dropping a `MuxStream` -/

theorem appDropStream_local (e : EP) (h i : Nat) (o : Obj)
    (hh : e.handleObj h = some (i, o)) (hd : e.dead = false) :
    LocalUpd e (appDropStream e h).1 i { o with rxOpen := false, rxq := [], parked := false } [] [o.fid] := by
  have ho := handleObj_obj hh
  have hres : appDropStream e h =
      ({ (e.modObj i (fun o => { o with rxOpen := false, rxq := [], parked := false })) with
          droppedq := e.droppedq ++ [o.fid] }, .unit) := by
    unfold appDropStream; rw [hh]; simp [hd]
  rw [hres]
  have s1 := LocalUpd.modObj e i (fun o => { o with rxOpen := false, rxq := [], parked := false }) o _ ho rfl
  have s2 := LocalUpd.dqPush (e.modObj i (fun o => { o with rxOpen := false, rxq := [], parked := false })) o.fid i _ s1.self
  simpa using s1.trans s2

/-! ### `poll_read` -/

/-- `increment_psh_recvd_since` as an object-local update. -/
theorem ackStep_local (e : EP) (i : Nat) (o x : Obj) (hx : e.objs[i]? = some x) (hoc : e.outClosed = false) :
    (o.recvdSince + 1 ≥ o.threshold ∧
        LocalUpd e (ackStep e i o) i { x with recvdSince := 0 } [.frame (.acknowledge o.fid (o.recvdSince + 1))] []) ∨
    (¬ o.recvdSince + 1 ≥ o.threshold ∧
        LocalUpd e (ackStep e i o) i { x with recvdSince := o.recvdSince + 1 } [] []) := by
  by_cases ht : o.recvdSince + 1 ≥ o.threshold
  · left
    have hres : ackStep e i o = (e.modObj i (fun x => { x with recvdSince := 0 })).enqFrame (.acknowledge o.fid (o.recvdSince + 1)) := by
      unfold ackStep; rw [if_pos ht]
    rw [hres]
    exact ⟨ht, LocalUpd.modEnq e i _ _ x _ hx rfl hoc⟩
  · right
    have hres : ackStep e i o = e.modObj i (fun x => { x with recvdSince := o.recvdSince + 1 }) := by
      unfold ackStep; rw [if_neg ht]
    rw [hres]
    exact ⟨ht, LocalUpd.modObj e i _ x _ hx rfl⟩

/-- A read on an object whose queued frames are all non-empty (true whenever the peer conforms):
    the four outcomes. -/
theorem appRead_local (e : EP) (h i n : Nat) (o : Obj)
    (hh : e.handleObj h = some (i, o)) (hoc : e.outClosed = false) (hne : ∀ d ∈ o.rxq, d ≠ []) :
    (o.buf ≠ [] ∧ (appRead e h n).2 = .data (o.buf.take n) ∧
        LocalUpd e (appRead e h n).1 i { o with buf := o.buf.drop n } [] []) ∨
    (o.buf = [] ∧ ∃ f rest, o.rxq = f :: rest ∧ (appRead e h n).2 = .data (f.take n) ∧
        ((o.recvdSince + 1 ≥ o.threshold ∧
          LocalUpd e (appRead e h n).1 i { o with rxq := rest, buf := f.drop n, recvdSince := 0 }
            [.frame (.acknowledge o.fid (o.recvdSince + 1))] []) ∨
         (¬ o.recvdSince + 1 ≥ o.threshold ∧
          LocalUpd e (appRead e h n).1 i { o with rxq := rest, buf := f.drop n, recvdSince := o.recvdSince + 1 } [] []))) ∨
    (o.buf = [] ∧ o.rxq = [] ∧ o.senderAlive = true ∧ (appRead e h n).2 = .pending ∧ (appRead e h n).1 = e) ∨
    (o.buf = [] ∧ o.rxq = [] ∧ o.senderAlive = false ∧ (appRead e h n).2 = .eof ∧
        LocalUpd e (appRead e h n).1 i { o with rxOpen := false } [] []) := by
  have ho := handleObj_obj hh
  by_cases hb : o.buf = []
  · right
    cases hq : o.rxq with
    | nil =>
      right
      by_cases hal : o.senderAlive = true
      · left
        have hfill : fillBuf (o.rxq.length + 2) e i = (e, .pending) := by
          rw [hq]; unfold fillBuf; rw [ho]; simp [hb, hq, hal]
        have hres : appRead e h n = (e, .pending) := by
          unfold appRead; rw [hh]; simp only; rw [hfill]
        rw [hres]
        exact ⟨hb, rfl, hal, rfl, rfl⟩
      · right
        have hal' : o.senderAlive = false := by simpa using hal
        have hfill : fillBuf (o.rxq.length + 2) e i = (e.modObj i (fun o => { o with rxOpen := false }), .eof) := by
          rw [hq]; unfold fillBuf; rw [ho]; simp [hb, hq, hal']
        have hres : appRead e h n = (e.modObj i (fun o => { o with rxOpen := false }), .eof) := by
          unfold appRead; rw [hh]; simp only; rw [hfill]
        rw [hres]
        exact ⟨hb, rfl, hal', rfl, LocalUpd.modObj e i _ o _ ho (by simp [hq])⟩
    | cons f rest =>
      left
      have hfne : f ≠ [] := hne f (by rw [hq]; simp)
      have hfe : f.isEmpty = false := by cases f <;> simp_all
      refine ⟨hb, f, rest, rfl, ?_⟩
      have s1 := LocalUpd.modObj e i (fun o => { o with rxq := rest, buf := f }) o _ ho rfl
      have hfill : fillBuf (o.rxq.length + 2) e i =
          (ackStep (e.modObj i (fun o => { o with rxq := rest, buf := f })) i { o with rxq := rest, buf := f }, .data f) := by
        rw [hq, show (f :: rest).length + 2 = (rest.length + 2) + 1 by simp]
        unfold fillBuf; rw [ho]; simp [hb, hq, hfe]
      have hres : appRead e h n =
          ((ackStep (e.modObj i (fun o => { o with rxq := rest, buf := f })) i { o with rxq := rest, buf := f }).modObj i
              (fun o => { o with buf := f.drop n }), .data (f.take n)) := by
        unfold appRead; rw [hh]; simp only; rw [hfill]
      rw [hres]
      have hoc1 : (e.modObj i (fun o => { o with rxq := rest, buf := f })).outClosed = false := hoc
      rcases ackStep_local _ i { o with rxq := rest, buf := f } _ s1.self hoc1 with ⟨ht, s2⟩ | ⟨ht, s2⟩
      · refine ⟨rfl, Or.inl ⟨ht, ?_⟩⟩
        have s3 := LocalUpd.modObj _ i (fun o => { o with buf := f.drop n }) _ _ s2.self rfl
        simpa using (s1.trans s2).trans s3
      · refine ⟨rfl, Or.inr ⟨ht, ?_⟩⟩
        have s3 := LocalUpd.modObj _ i (fun o => { o with buf := f.drop n }) _ _ s2.self rfl
        simpa using (s1.trans s2).trans s3
  · left
    have hbe : o.buf.isEmpty = false := by cases hbb : o.buf <;> simp_all
    have hfill : fillBuf (o.rxq.length + 2) e i = (e, .data o.buf) := by
      rw [show o.rxq.length + 2 = (o.rxq.length + 1) + 1 by omega]
      unfold fillBuf; rw [ho]; simp [hbe]
    have hres : appRead e h n = (e.modObj i (fun x => { x with buf := o.buf.drop n }), .data (o.buf.take n)) := by
      unfold appRead; rw [hh]; simp only; rw [hfill]
    rw [hres]
    exact ⟨hb, rfl, LocalUpd.modObj e i _ o _ ho rfl⟩

end Penguin.Mux

namespace Penguin.Mux

/-- What a read can never change: the object's sending role, its window parameters and its id. -/
structure SenderSame (o o' : Obj) : Prop where
  credit : o'.credit = o.credit
  finishSent : o'.finishSent = o.finishSent
  cap : o'.cap = o.cap
  threshold : o'.threshold = o.threshold
  fid : o'.fid = o.fid
  alive : o'.senderAlive = o.senderAlive
  rxOpen : o'.rxOpen = true → o.rxOpen = true

theorem SenderSame.refl (o : Obj) : SenderSame o o := ⟨rfl, rfl, rfl, rfl, rfl, rfl, id⟩
theorem SenderSame.trans {a b c : Obj} (s : SenderSame a b) (t : SenderSame b c) : SenderSame a c :=
  ⟨by rw [t.credit, s.credit], by rw [t.finishSent, s.finishSent], by rw [t.cap, s.cap],
   by rw [t.threshold, s.threshold], by rw [t.fid, s.fid], by rw [t.alive, s.alive], fun h => s.rxOpen (t.rxOpen h)⟩

abbrev AcksOf (y : Nat) (em : List Msg) : Prop := ∀ m ∈ em, ∃ n, m = .frame (.acknowledge y n)

theorem AcksOf.append {y : Nat} {a b : List Msg} (ha : AcksOf y a) (hb : AcksOf y b) : AcksOf y (a ++ b) := by
  intro m hm
  rcases List.mem_append.mp hm with h | h
  · exact ha m h
  · exact hb m h

/-- `poll_fill_buf` in any state: object-local, sending role untouched, only acknowledgements emitted. -/
theorem fillBuf_coarse (fuel : Nat) (e : EP) (i : Nat) (o : Obj) (ho : e.objs[i]? = some o) (hoc : e.outClosed = false) :
    ∃ o' em, LocalUpd e (fillBuf fuel e i).1 i o' em [] ∧ SenderSame o o' ∧ AcksOf o.fid em := by
  induction fuel generalizing e o with
  | zero => exact ⟨o, [], LocalUpd.refl e i o ho, SenderSame.refl o, by intro m hm; cases hm⟩
  | succ n ih =>
    unfold fillBuf
    rw [ho]
    simp only
    split
    · exact ⟨o, [], LocalUpd.refl e i o ho, SenderSame.refl o, by intro m hm; cases hm⟩
    · split
      · rename_i f rest hq
        have s1 := LocalUpd.modObj e i (fun o => { o with rxq := rest, buf := f }) o _ ho rfl
        have hoc1 : (e.modObj i (fun o => { o with rxq := rest, buf := f })).outClosed = false := hoc
        have key : ∃ o2 em2, LocalUpd e (ackStep (e.modObj i (fun o => { o with rxq := rest, buf := f })) i
              { o with rxq := rest, buf := f }) i o2 em2 [] ∧ SenderSame o o2 ∧ AcksOf o.fid em2 := by
          rcases ackStep_local _ i { o with rxq := rest, buf := f } _ s1.self hoc1 with ⟨_, s2⟩ | ⟨_, s2⟩
          · have u := s1.trans s2
            simp only [List.nil_append, List.append_nil] at u
            exact ⟨_, _, u, ⟨rfl, rfl, rfl, rfl, rfl, rfl, id⟩, by intro m hm; simp at hm; exact ⟨_, hm⟩⟩
          · have u := s1.trans s2
            simp only [List.append_nil] at u
            exact ⟨_, _, u, ⟨rfl, rfl, rfl, rfl, rfl, rfl, id⟩, by intro m hm; cases hm⟩
        obtain ⟨o2, em2, u2, ss2, ak2⟩ := key
        split
        · have hoc2 : (ackStep (e.modObj i (fun o => { o with rxq := rest, buf := f })) i
              { o with rxq := rest, buf := f }).outClosed = false := by
            unfold ackStep; split <;> simp [EP.enqFrame, hoc]
          obtain ⟨o3, em3, u3, ss3, ak3⟩ := ih _ o2 u2.self hoc2
          have u := u2.trans u3
          simp only [List.append_nil] at u
          refine ⟨o3, em2 ++ em3, u, ss2.trans ss3, ak2.append ?_⟩
          rw [← ss2.fid]; exact ak3
        · exact ⟨o2, em2, u2, ss2, ak2⟩
      · split
        · exact ⟨o, [], LocalUpd.refl e i o ho, SenderSame.refl o, by intro m hm; cases hm⟩
        · exact ⟨_, [], LocalUpd.modObj e i _ o _ ho rfl, ⟨rfl, rfl, rfl, rfl, rfl, rfl, fun h => by cases h⟩, by intro m hm; cases hm⟩

/-- `poll_read` in any state. -/
theorem appRead_coarse (e : EP) (h i n : Nat) (o : Obj) (hh : e.handleObj h = some (i, o)) (hoc : e.outClosed = false) :
    ∃ o' em, LocalUpd e (appRead e h n).1 i o' em [] ∧ SenderSame o o' ∧ AcksOf o.fid em := by
  have ho := handleObj_obj hh
  obtain ⟨o1, em1, u1, ss1, ak1⟩ := fillBuf_coarse (o.rxq.length + 2) e i o ho hoc
  unfold appRead
  rw [hh]
  simp only
  generalize fillBuf (o.rxq.length + 2) e i = r at u1
  obtain ⟨e1, res⟩ := r
  cases res with
  | data b =>
    have s2 := LocalUpd.modObj e1 i (fun o => { o with buf := b.drop n }) o1 _ u1.self rfl
    have u := u1.trans s2
    simp only [List.append_nil] at u
    exact ⟨_, _, u, ss1.trans ⟨rfl, rfl, rfl, rfl, rfl, rfl, id⟩, ak1⟩
  | _ => exact ⟨o1, em1, u1, ss1, ak1⟩

end Penguin.Mux

namespace Penguin.Mux

abbrev ResetsOf (x : Nat) (em : List Msg) : Prop := ∀ m ∈ em, m = .frame (.reset x)

theorem closeFlow_slot_none (e : EP) (x : Nat) (inh : Bool) : lookup (closeFlow e x inh).1.flows x = none := by
  unfold closeFlow
  cases hl : lookup e.flows x with
  | none => simpa using hl
  | some s =>
    simp only
    have : (closeLocal { e with flows := erase e.flows x } s x inh false).1.flows = erase e.flows x := by
      unfold closeLocal
      cases s with
      | established i =>
        simp only
        cases ho : EP.obj? { e with flows := erase e.flows x } i with
        | none => rfl
        | some o => simp only; split <;> simp [EP.enqFrame]
      | requested req => simp only; rw [openRejected_flows]
      | bindRequested req => rfl
    rw [this]; exact lookup_erase_self _ _

theorem LocalUpd.silent {e e' : EP} (i : Nat) (o : Obj) (ho : e.objs[i]? = some o)
    (h1 : e'.flows = e.flows) (h2 : e'.rng = e.rng) (h3 : e'.opts = e.opts) (h4 : e'.objs = e.objs)
    (h5 : e'.outq = e.outq) (h6 : e'.droppedq = e.droppedq) : LocalUpd e e' i o [] [] :=
  ⟨h1, h2, h3, fun _ _ => by rw [h4], by rw [h4]; exact ho, by simp [h5], by simp [h6]⟩

/-- The slot of flow `x` (established, object `i`) is removed: the object is closed in both
    directions, at most one `Reset` is queued, nothing else changes. -/
structure RemUpd (e e' : EP) (x i : Nat) (o' : Obj) (em : List Msg) : Prop where
  flows : e'.flows = erase e.flows x
  rng : e'.rng = e.rng
  opts : e'.opts = e.opts
  others : ∀ k, k ≠ i → e'.objs[k]? = e.objs[k]?
  self : e'.objs[i]? = some o'
  outq : e'.outq = e.outq ++ em
  dq : e'.droppedq = e.droppedq

theorem closeFlow_est (e : EP) (x i : Nat) (o : Obj) (inh : Bool)
    (hs : lookup e.flows x = some (.established i)) (ho : e.objs[i]? = some o) (hoc : e.outClosed = false) :
    RemUpd e (closeFlow e x inh).1 x i { o.disallowWrite with senderAlive := false }
      (if !o.finishSent && !inh then [.frame (.reset x)] else []) := by
  have ho' : EP.obj? { e with flows := erase e.flows x } i = some o := ho
  unfold closeFlow
  rw [hs]
  simp only [closeLocal, ho']
  split
  · refine ⟨by simp [EP.enqFrame], by simp [EP.enqFrame], by simp [EP.enqFrame], ?_, ?_, ?_, by simp [EP.enqFrame]⟩
    · intro k hk; simp only [EP.enqFrame, enq_objs]; exact modObj_get_ne _ _ _ _ hk
    · simp only [EP.enqFrame, enq_objs]; rw [modObj_get_self]; simp [ho]
    · simp [EP.enqFrame, enq_outq, hoc]
  · refine ⟨rfl, rfl, rfl, ?_, ?_, by simp, rfl⟩
    · intro k hk; exact modObj_get_ne _ _ _ _ hk
    · rw [modObj_get_self]; simp [ho]

/-- A frame (not a `Connect`, not a `Bind`) for a flow whose slot is established: either the slot is
    removed (`Reset`, or a `Push` beyond the window), or the effect is local to the stream object. -/
theorem processFrame_est (e : EP) (f : Frame) (ig : Bool) (x i : Nat) (o : Obj)
    (hs : lookup e.flows x = some (.established i)) (ho : e.objs[i]? = some o) (hid : f.id = x)
    (hnc : (Msg.frame f).isConnect = false) (hoc : e.outClosed = false) :
    (RemUpd e (processFrame e f ig).1 x i { o.disallowWrite with senderAlive := false } [] ∧ f = .reset x) ∨
    (∃ d, f = .push x d ∧ o.senderAlive = true ∧ o.rxOpen = true ∧ ¬ o.rxq.length < o.cap ∧
        RemUpd e (processFrame e f ig).1 x i { o.disallowWrite with senderAlive := false }
          (if !o.finishSent then [.frame (.reset x)] else [])) ∨
    ∃ o' em, LocalUpd e (processFrame e f ig).1 i o' em [] ∧
      ((∃ n, f = .acknowledge x n ∧ o' = { o.wake with credit := (o.credit + n) % 4294967296 } ∧ em = []) ∨
       (f = .finish x ∧ o' = { o with senderAlive := false } ∧ em = []) ∨
       (∃ d, f = .push x d ∧
          ((o.senderAlive = true ∧ o.rxOpen = true ∧ o.rxq.length < o.cap ∧ o' = { o with rxq := o.rxq ++ [d] } ∧ em = []) ∨
           (o.senderAlive = false ∧ o' = o ∧ em = [.frame (.reset x)]) ∨
           (o.senderAlive = true ∧ o.rxOpen = false ∧ o' = o ∧ em = []))) ∨
       ((∃ bt port host, f = .bind x bt port host) ∨ (∃ port host d, f = .datagram x port host d))) := by
  have ho' : e.obj? i = some o := ho
  cases f with
  | connect fid rwnd port host => simp [Msg.isConnect] at hnc
  | acknowledge fid n =>
    simp only [Frame.id] at hid; subst hid
    right; right
    refine ⟨_, [], ?_, Or.inl ⟨n, rfl, rfl, rfl⟩⟩
    simp only [processFrame, hs]
    exact LocalUpd.modObj e i _ o _ ho rfl
  | finish fid =>
    simp only [Frame.id] at hid; subst hid
    right; right
    refine ⟨_, [], ?_, Or.inr (Or.inl ⟨rfl, rfl, rfl⟩)⟩
    simp only [processFrame, hs]
    exact LocalUpd.modObj e i _ o _ ho rfl
  | reset fid =>
    simp only [Frame.id] at hid; subst hid
    left
    simp only [processFrame]
    have := closeFlow_est e fid i o true hs ho hoc
    simp only [Bool.not_true, Bool.and_false, Bool.false_eq_true, if_false] at this
    exact ⟨this, trivial⟩
  | push fid d =>
    simp only [Frame.id] at hid; subst hid
    by_cases ha : o.senderAlive = true
    · by_cases hr : o.rxOpen = true
      · by_cases hroom : o.rxq.length < o.cap
        · right; right
          have hres : (processFrame e (.push fid d) ig).1 = e.modObj i (fun o => { o with rxq := o.rxq ++ [d] }) := by
            simp [processFrame, hs, ho', ha, hr, hroom]
          rw [hres]
          exact ⟨_, [], LocalUpd.modObj e i _ o _ ho rfl,
            Or.inr (Or.inr (Or.inl ⟨d, rfl, Or.inl ⟨ha, hr, hroom, rfl, rfl⟩⟩))⟩
        · right; left
          have hres : (processFrame e (.push fid d) ig).1 = (closeFlow e fid false).1 := by
            simp [processFrame, hs, ho', ha, hr, hroom]
          rw [hres]
          have := closeFlow_est e fid i o false hs ho hoc
          simp only [Bool.not_false, Bool.and_true] at this
          exact ⟨d, rfl, ha, hr, hroom, this⟩
      · right; right
        have hr' : o.rxOpen = false := by simpa using hr
        have hres : (processFrame e (.push fid d) ig).1 = e := by
          simp [processFrame, hs, ho', ha, hr']
        rw [hres]
        exact ⟨o, [], LocalUpd.refl e i o ho,
          Or.inr (Or.inr (Or.inl ⟨d, rfl, Or.inr (Or.inr ⟨ha, hr', rfl, rfl⟩)⟩))⟩
    · right; right
      have ha' : o.senderAlive = false := by simpa using ha
      have hres : (processFrame e (.push fid d) ig).1 = e.enqFrame (.reset fid) := by
        simp [processFrame, hs, ho', ha']
      rw [hres]
      exact ⟨o, [.frame (.reset fid)], LocalUpd.enqFrame e _ i o ho hoc,
        Or.inr (Or.inr (Or.inl ⟨d, rfl, Or.inr (Or.inl ⟨ha', rfl, rfl⟩)⟩))⟩
  | bind fid bt port host =>
    simp only [Frame.id] at hid; subst hid
    right; right
    simp only [processFrame]
    split
    · exact ⟨o, [.frame (.reset fid)], LocalUpd.enqFrame e _ i o ho hoc, Or.inr (Or.inr (Or.inr (Or.inl ⟨bt, port, host, rfl⟩)))⟩
    · split
      · exact ⟨o, [], LocalUpd.refl e i o ho, Or.inr (Or.inr (Or.inr (Or.inl ⟨bt, port, host, rfl⟩)))⟩
      · split
        · exact ⟨o, [.frame (.reset fid)], LocalUpd.enqFrame e _ i o ho hoc, Or.inr (Or.inr (Or.inr (Or.inl ⟨bt, port, host, rfl⟩)))⟩
        · refine ⟨o, [], ?_, Or.inr (Or.inr (Or.inr (Or.inl ⟨bt, port, host, rfl⟩)))⟩
          unfold offerBind
          split <;> exact LocalUpd.silent i o ho rfl rfl rfl rfl rfl rfl
  | datagram fid port host d =>
    simp only [Frame.id] at hid; subst hid
    right; right
    refine ⟨o, [], ?_, Or.inr (Or.inr (Or.inr (Or.inr ⟨port, host, d, rfl⟩)))⟩
    simp only [processFrame]
    repeat' split
    all_goals first | exact LocalUpd.refl e i o ho | exact LocalUpd.silent i o ho rfl rfl rfl rfl rfl rfl

/-- A frame (not a `Connect`, not a `Bind`) for a flow that has no slot: no object is touched; the
    answer is at most one `Reset`. -/
theorem processFrame_none_local (e : EP) (f : Frame) (ig : Bool) (x i : Nat) (o : Obj)
    (hs : lookup e.flows x = none) (ho : e.objs[i]? = some o) (hid : f.id = x)
    (hnc : (Msg.frame f).isConnect = false) (hnb : ∀ a b c d, f ≠ .bind a b c d) (hoc : e.outClosed = false) :
    ∃ em, LocalUpd e (processFrame e f ig).1 i o em [] ∧ ResetsOf x em := by
  cases f with
  | connect fid rwnd port host => simp [Msg.isConnect] at hnc
  | bind fid bt port host => exact absurd rfl (hnb _ _ _ _)
  | acknowledge fid n =>
    simp only [Frame.id] at hid; subst hid
    simp only [processFrame, hs]
    exact ⟨_, LocalUpd.enqFrame e _ i o ho hoc, by intro m hm; simpa using hm⟩
  | finish fid =>
    simp only [Frame.id] at hid; subst hid
    simp only [processFrame, hs]
    exact ⟨_, LocalUpd.enqFrame e _ i o ho hoc, by intro m hm; simpa using hm⟩
  | reset fid =>
    simp only [Frame.id] at hid; subst hid
    simp only [processFrame, closeFlow, hs]
    exact ⟨[], LocalUpd.refl e i o ho, by intro m hm; cases hm⟩
  | push fid d =>
    simp only [Frame.id] at hid; subst hid
    simp only [processFrame, hs]
    exact ⟨_, LocalUpd.enqFrame e _ i o ho hoc, by intro m hm; simpa using hm⟩
  | datagram fid port host d =>
    simp only [Frame.id] at hid; subst hid
    refine ⟨[], ?_, by intro m hm; cases hm⟩
    simp only [processFrame]
    repeat' split
    all_goals first | exact LocalUpd.refl e i o ho | exact LocalUpd.silent i o ho rfl rfl rfl rfl rfl rfl

/-- A frame that is not a `Connect` never gives a slot to a flow that has none. -/
theorem processFrame_none_stays (e : EP) (f : Frame) (ig : Bool) (x : Nat)
    (hs : lookup e.flows x = none) (hid : f.id = x) (hnc : (Msg.frame f).isConnect = false) :
    lookup (processFrame e f ig).1.flows x = none := by
  cases f with
  | connect fid rwnd port host => simp [Msg.isConnect] at hnc
  | acknowledge fid n => simp only [Frame.id] at hid; subst hid; simp [processFrame, hs, EP.enqFrame]
  | finish fid => simp only [Frame.id] at hid; subst hid; simp [processFrame, hs, EP.enqFrame]
  | reset fid => simp only [Frame.id] at hid; subst hid; simp only [processFrame]; exact closeFlow_slot_none e fid true
  | push fid d => simp only [Frame.id] at hid; subst hid; simp [processFrame, hs, EP.enqFrame]
  | bind fid bt port host =>
    simp only [Frame.id] at hid; subst hid
    simp only [processFrame]
    repeat' split
    all_goals simp [EP.enqFrame, offerBind_flows, hs]
  | datagram fid port host d =>
    simp only [Frame.id] at hid; subst hid
    simp only [processFrame]
    repeat' split
    all_goals simp [hs]

end Penguin.Mux
