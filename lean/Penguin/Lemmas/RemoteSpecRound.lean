/-
`Display` then `from_str` on a well-formed `Remote` (C01 glue): the side conditions, and the proof
that they suffice.  (That each of them is needed is shown by the examples next to the theorem in
`Props/C01.lean`.)
-/
import Penguin.Lemmas.RemoteSpecParse

namespace Penguin.RemoteSpec
open Penguin.Constants

/-- What a host must satisfy to survive `Display` followed by `from_str`:
    * not empty (an empty host is displayed as nothing: `:80:…` is an empty segment);
    * with a `:` in it (displayed in brackets) it contains no `]` (the tokenizer stops at the first);
    * without a `:` (displayed bare) it does not start with `[`;
    * `idna::domain_to_ascii` leaves it alone (the parser stores idna's answer, not the text). -/
def HostOK (o : Oracle) (h : Str) : Prop :=
  h ≠ [] ∧ (':' ∈ h → ']' ∉ h) ∧ (':' ∉ h → h.head? ≠ some '[') ∧ o.idna h = some h

/-- `to_lowercase` leaves `tcp` and `udp` alone. -/
def OracleOK (o : Oracle) : Prop := o.lower kwTcp = kwTcp ∧ o.lower kwUdp = kwUdp

/-- The well-formed remotes: ports are `u16`s; hosts as above; a socket path contains no `]`; the
    combination is one the parser lets through (no `socks`/`http` with udp, no unix socket with udp
    or `tproxy`, no `stdio` with `tproxy`); and a local HOST called `stdio` has a fixed target
    (`stdio:80:socks` is read as the stdio form with host `80` and port `socks`). -/
def Remote.WF (o : Oracle) (r : Remote) : Prop :=
  (match r.localAddr with
    | .inet h p => HostOK o h ∧ p ≤ u16Max ∧ (h = kwStdio → ∃ rh rp, r.remoteAddr = .inet rh rp)
    | .stdio => r.remoteAddr ≠ .tproxy
    | .domainSocket path => ']' ∉ path ∧ r.protocol = .tcp ∧ r.remoteAddr ≠ .tproxy) ∧
  (match r.remoteAddr with
    | .inet h p => HostOK o h ∧ p ≤ u16Max
    | .socks => r.protocol = .tcp
    | .http => r.protocol = .tcp
    | .tproxy => True)

/-! ### Tokens of a displayed remote -/

def hostTok (h : Str) : Tok := ⟨h, decide (':' ∈ h)⟩
def portTok (n : Nat) : Tok := ⟨showPort n, false⟩
def bareTok (t : Str) : Tok := ⟨t, false⟩
def unixTok (path : Str) : Tok := ⟨unixPrefix ++ path, true⟩

theorem hostTok_render (h : Str) : (hostTok h).render = addBrackets h := by
  unfold hostTok Tok.render addBrackets
  by_cases hc : ':' ∈ h <;> simp [hc]

theorem hostTok_wf {o : Oracle} {h : Str} (hh : HostOK o h) : (hostTok h).WF := by
  obtain ⟨h1, h2, h3, _⟩ := hh
  refine ⟨h1, ?_⟩
  unfold hostTok
  by_cases hc : ':' ∈ h
  · have hd : decide (':' ∈ h) = true := by simp [hc]
    simp only [hd, if_true]; exact h2 hc
  · have hd : decide (':' ∈ h) = false := by simp [hc]
    simp only [hd, Bool.false_eq_true, if_false]; exact ⟨hc, h3 hc⟩

theorem allDigits_not_mem {ds : Str} {c : Char} (hd : AllDigits ds) (hc : c.isDigit = false) : c ∉ ds :=
  fun hm => by rw [hd c hm] at hc; cases hc

theorem allDigits_head {ds : Str} {c : Char} (hd : AllDigits ds) (hc : c.isDigit = false) : ds.head? ≠ some c := by
  cases ds with
  | nil => simp
  | cons x xs =>
    simp; intro e
    have := hd x (by simp)
    rw [e] at this; rw [this] at hc; cases hc

theorem portTok_wf (n : Nat) : (portTok n).WF :=
  ⟨showPort_ne_nil n, by
    simp only [portTok, Bool.false_eq_true, if_false]
    exact ⟨allDigits_not_mem (showPort_allDigits n) (by decide), allDigits_head (showPort_allDigits n) (by decide)⟩⟩

theorem portTok_render (n : Nat) : (portTok n).render = showPort n := by simp [portTok, Tok.render]

theorem unixTok_wf {path : Str} (h : ']' ∉ path) : (unixTok path).WF := by
  refine ⟨by simp [unixTok, unixPrefix_eq], ?_⟩
  simp only [unixTok, if_true]
  simp [unixPrefix_eq, h]

theorem bareTok_render (t : Str) : (bareTok t).render = t := by simp [bareTok, Tok.render]

theorem unixTok_render (path : Str) : (unixTok path).render = '[' :: unixPrefix ++ path ++ [']'] := by
  simp [unixTok, Tok.render]

theorem digits_not_special {t : Str} (hd : AllDigits t) (hne : t ≠ []) :
    isSpecial t = false ∧ t ≠ kwStdio ∧ isUnix t = false := by
  obtain ⟨c, cs, rfl⟩ := List.exists_cons_of_ne_nil hne
  have hc : c.isDigit = true := hd c (by simp)
  have hs : c ≠ 's' := by intro e; subst e; simp [Char.isDigit] at hc
  have hh : c ≠ 'h' := by intro e; subst e; simp [Char.isDigit] at hc
  have ht : c ≠ 't' := by intro e; subst e; simp [Char.isDigit] at hc
  have hu : c ≠ 'u' := by intro e; subst e; simp [Char.isDigit] at hc
  refine ⟨?_, ?_, ?_⟩
  · simp [isSpecial, kwSocks_eq, kwHttp_eq, kwTproxy_eq, hs, hh, ht]
  · simp [kwStdio_eq, hs]
  · simp [isUnix, unixPrefix_eq, List.isPrefixOf]
    intro e; exact absurd e.symm hu

theorem portOrBail_showPort {n : Nat} (h : n ≤ u16Max) : portOrBail (showPort n) = .ok n := by
  simp [portOrBail, parseU16_showPort h]

theorem domainOrBail_of {o : Oracle} {h a : Str} (hi : o.idna h = some a) : domainOrBail o h = .ok a := by
  simp [domainOrBail, hi]

theorem isUnix_unix (path : Str) : isUnix (unixPrefix ++ path) = true := by
  simp [isUnix, unixPrefix_eq, List.isPrefixOf]

theorem udsPath_unix (path : Str) : udsPath (unixPrefix ++ path) = path := by
  simp [udsPath]

theorem unix_ne_stdio (path : Str) : unixPrefix ++ path ≠ kwStdio := by
  simp [unixPrefix_eq, kwStdio_eq]

theorem proto_display_facts (p : Protocol) : '/' ∉ p.display ∧ ':' ∉ p.display := by
  cases p <;> simp [Protocol.display, kwTcp_eq, kwUdp_eq]

theorem parseProtocol_display {o : Oracle} (ho : OracleOK o) (p : Protocol) : parseProtocol o p.display = .ok p := by
  cases p
  · exact parseProtocol_tcp ho.1
  · exact parseProtocol_udp ho.2

theorem remoteSpecial_socks : remoteSpecial kwSocks = .ok .socks := by decide
theorem remoteSpecial_http : remoteSpecial kwHttp = .ok .http := by decide
theorem remoteSpecial_tproxy : remoteSpecial kwTproxy = .ok .tproxy := by decide

theorem bareTok_wf_kw {k : Str} (h : k = kwSocks ∨ k = kwHttp ∨ k = kwTproxy ∨ k = kwStdio) : (bareTok k).WF := by
  rcases h with rfl | rfl | rfl | rfl <;>
    exact ⟨by decide, by simp only [bareTok, Bool.false_eq_true, if_false]; decide⟩

/-- The text of a displayed remote, as tokens. -/
def displayToks (r : Remote) : List Tok :=
  (match r.localAddr with
    | .inet h p => [hostTok h, portTok p]
    | .stdio => [bareTok kwStdio]
    | .domainSocket path => [unixTok path]) ++
  (match r.remoteAddr with
    | .inet h p => [hostTok h, portTok p]
    | .socks => [bareTok kwSocks]
    | .http => [bareTok kwHttp]
    | .tproxy => [bareTok kwTproxy])

theorem display_eq (r : Remote) : r.display = joinToks (displayToks r) ++ '/' :: r.protocol.display := by
  obtain ⟨l, rm, p⟩ := r
  cases l <;> cases rm <;>
    simp [Remote.display, LocalSpec.display, RemoteSpec.display, displayToks, joinToks, hostTok_render,
      portTok_render, unixTok_render, bareTok_render]

theorem displayToks_wf {o : Oracle} {r : Remote} (h : r.WF o) : ∀ t ∈ displayToks r, t.WF := by
  obtain ⟨l, rm, p⟩ := r
  obtain ⟨hl, hr⟩ := h
  intro t ht
  simp only [displayToks, List.mem_append] at ht
  rcases ht with ht | ht
  · cases l with
    | inet h n => simp at ht; rcases ht with rfl | rfl; exact hostTok_wf hl.1; exact portTok_wf n
    | stdio => simp at ht; subst ht; exact bareTok_wf_kw (by simp)
    | domainSocket path => simp at ht; subst ht; exact unixTok_wf hl.1
  · cases rm with
    | inet h n => simp at ht; rcases ht with rfl | rfl; exact hostTok_wf hr.1; exact portTok_wf n
    | socks => simp at ht; subst ht; exact bareTok_wf_kw (by simp)
    | http => simp at ht; subst ht; exact bareTok_wf_kw (by simp)
    | tproxy => simp at ht; subst ht; exact bareTok_wf_kw (by simp)

theorem displayToks_len (r : Remote) : displayToks r ≠ [] ∧ (displayToks r).length ≤ 4 := by
  obtain ⟨l, rm, p⟩ := r
  cases l <;> cases rm <;> simp [displayToks]

/-- The arm body and the post-checks on the tokens of a displayed well-formed remote give it back. -/
theorem finish_display {o : Oracle} {r : Remote} (h : r.WF o) :
    finish o r.protocol ((displayToks r).map (·.text)) = .ok r := by
  obtain ⟨l, rm, p⟩ := r
  obtain ⟨hl, hr⟩ := h
  cases l with
  | inet lh lp =>
    obtain ⟨hlh, hlp, hstd⟩ := hl
    cases rm with
    | inet rh rp =>
      obtain ⟨hrh, hrp⟩ := hr
      simp [finish, displayToks, hostTok, portTok, selectArm, evalArm, domainOrBail_of hlh.2.2.2,
        domainOrBail_of hrh.2.2.2, portOrBail_showPort hlp, portOrBail_showPort hrp, bind, Except.bind, postChecks,
        LocalSpec.isDomainSocket]
    | socks =>
      have hne : lh ≠ kwStdio := fun e => by obtain ⟨_, _, h⟩ := hstd e; cases h
      simp only at hr
      simp [finish, displayToks, hostTok, portTok, bareTok, selectArm, hne, show isSpecial kwSocks = true by decide,
        evalArm, domainOrBail_of hlh.2.2.2, portOrBail_showPort hlp, remoteSpecial_socks, bind, Except.bind, postChecks,
        LocalSpec.isDomainSocket, hr]
    | http =>
      have hne : lh ≠ kwStdio := fun e => by obtain ⟨_, _, h⟩ := hstd e; cases h
      simp only at hr
      simp [finish, displayToks, hostTok, portTok, bareTok, selectArm, hne, show isSpecial kwHttp = true by decide,
        evalArm, domainOrBail_of hlh.2.2.2, portOrBail_showPort hlp, remoteSpecial_http, bind, Except.bind, postChecks,
        LocalSpec.isDomainSocket, hr]
    | tproxy =>
      have hne : lh ≠ kwStdio := fun e => by obtain ⟨_, _, h⟩ := hstd e; cases h
      simp [finish, displayToks, hostTok, portTok, bareTok, selectArm, hne, show isSpecial kwTproxy = true by decide,
        evalArm, domainOrBail_of hlh.2.2.2, portOrBail_showPort hlp, remoteSpecial_tproxy, bind, Except.bind, postChecks,
        LocalSpec.isDomainSocket]
  | stdio =>
    cases rm with
    | inet rh rp =>
      obtain ⟨hrh, hrp⟩ := hr
      simp [finish, displayToks, hostTok, portTok, bareTok, selectArm, evalArm, domainOrBail_of hrh.2.2.2,
        portOrBail_showPort hrp, bind, Except.bind, postChecks, LocalSpec.isDomainSocket]
    | socks =>
      simp only at hr
      simp [finish, displayToks, bareTok, selectArm, evalArm, remoteSpecial_socks, bind, Except.bind, postChecks,
        LocalSpec.isDomainSocket, hr]
    | http =>
      simp only at hr
      simp [finish, displayToks, bareTok, selectArm, evalArm, remoteSpecial_http, bind, Except.bind, postChecks,
        LocalSpec.isDomainSocket, hr]
    | tproxy => exact absurd rfl hl
  | domainSocket path =>
    obtain ⟨hpath, hp, hnt⟩ := hl
    simp only at hp
    subst hp
    cases rm with
    | inet rh rp =>
      obtain ⟨hrh, hrp⟩ := hr
      have hd := digits_not_special (showPort_allDigits rp) (showPort_ne_nil rp)
      simp [finish, displayToks, hostTok, portTok, unixTok, selectArm, unix_ne_stdio, hd.1, isUnix_unix, udsPath_unix,
        evalArm, domainOrBail_of hrh.2.2.2, portOrBail_showPort hrp, bind, Except.bind, postChecks,
        LocalSpec.isDomainSocket]
    | socks =>
      simp [finish, displayToks, bareTok, unixTok, selectArm, unix_ne_stdio, show isSpecial kwSocks = true by decide,
        isUnix_unix, udsPath_unix, evalArm, remoteSpecial_socks, bind, Except.bind, postChecks, LocalSpec.isDomainSocket]
    | http =>
      simp [finish, displayToks, bareTok, unixTok, selectArm, unix_ne_stdio, show isSpecial kwHttp = true by decide,
        isUnix_unix, udsPath_unix, evalArm, remoteSpecial_http, bind, Except.bind, postChecks, LocalSpec.isDomainSocket]
    | tproxy => exact absurd rfl hnt

/-- `Display` followed by `from_str` is the identity on well-formed remotes. -/
theorem display_parse_roundtrip (o : Oracle) (ho : OracleOK o) (r : Remote) (h : r.WF o) :
    parse o r.display = .ok r := by
  rw [display_eq]
  have hp := proto_display_facts r.protocol
  rw [parse_join_suffix o (displayToks_wf h) (displayToks_len r).1 (displayToks_len r).2 hp.1 hp.2
    (parseProtocol_display ho r.protocol)]
  exact finish_display h

end Penguin.RemoteSpec
