/-
Helper lemmas and invariants for the keepalive model (C16).
-/
import Penguin.Model.Timing

namespace Penguin.Lemmas.Timing
open Penguin.Timing

/-! ## `latest` -/

theorem latest_ge (l : List Nat) (a : Nat) : a ≤ latest a l := by
  unfold latest
  induction l generalizing a with
  | nil => simp
  | cons x xs ih =>
    simp only [List.foldl_cons]
    exact Nat.le_trans (Nat.le_max_left a x) (ih _)

theorem latest_mem (l : List Nat) (a x : Nat) (h : x ∈ l) : x ≤ latest a l := by
  unfold latest
  induction l generalizing a with
  | nil => cases h
  | cons y ys ih =>
    simp only [List.foldl_cons]
    rcases List.mem_cons.mp h with rfl | h
    · exact Nat.le_trans (Nat.le_max_right a _) (latest_ge _ _)
    · exact ih _ h

theorem latest_le (l : List Nat) (a b : Nat) (ha : a ≤ b) (h : ∀ x ∈ l, x ≤ b) : latest a l ≤ b := by
  unfold latest
  induction l generalizing a with
  | nil => simpa
  | cons y ys ih =>
    simp only [List.foldl_cons]
    apply ih
    · exact Nat.max_le.mpr ⟨ha, h y (List.mem_cons_self ..)⟩
    · intro x hx; exact h x (List.mem_cons_of_mem _ hx)

/-- `last_pong_timestamp` is the start-up time or the arrival time of a pong that was read. -/
theorem latest_is (l : List Nat) (a : Nat) : latest a l = a ∨ latest a l ∈ l := by
  unfold latest
  induction l generalizing a with
  | nil => simp
  | cons y ys ih =>
    simp only [List.foldl_cons]
    rcases ih (max a y) with h | h
    · rw [h]
      rcases Nat.le_total a y with hay | hay
      · right; rw [Nat.max_eq_right hay]; exact List.mem_cons_self ..
      · left; exact Nat.max_eq_left hay
    · right; exact List.mem_cons_of_mem _ h

/-! ## `cmp_duration` -/

theorem cmpDuration_lt (T : OptionalDuration) (e : Nat) :
    OptionalDuration.cmpDuration T e = .lt ↔ ∃ T', T = some T' ∧ T' < e := by
  cases T with
  | none => simp [OptionalDuration.cmpDuration]
  | some d => simp [OptionalDuration.cmpDuration, Nat.compare_eq_lt]

/-! ## One step of the ping loop -/

/-- The two ways a tick of a live loop can go. -/
theorem tickStep_alive (I : Nat) (T : OptionalDuration) (delay : Nat → Option Nat) (s : PingLoop)
    (h : s.dead = none) :
    let now := s.tick * I
    let lp := latest s.lastPong (s.inflight.filter (fun a => a ≤ now))
    let rest := s.inflight.filter (fun a => ¬ a ≤ now)
    ((∃ T', T = some T' ∧ T' < now - lp) ∧
        tickStep I T delay s = { s with lastPong := lp, inflight := rest, dead := some now }) ∨
    ((∀ T', T = some T' → now - lp ≤ T') ∧
        tickStep I T delay s =
          { tick := s.tick + 1, lastPong := lp, pings := now :: s.pings, dead := none,
            inflight := match delay s.tick with
              | some d => rest ++ [now + d]
              | none => rest }) := by
  intro now lp rest
  by_cases hc : OptionalDuration.cmpDuration T (now - lp) = .lt
  · left
    refine ⟨(cmpDuration_lt _ _).mp hc, ?_⟩
    simp only [tickStep, h]
    simp [now, lp, rest] at hc ⊢
    simp [hc]
  · right
    refine ⟨?_, ?_⟩
    · intro T' hT
      have := mt (cmpDuration_lt T (now - lp)).mpr hc
      simp only [not_exists, not_and] at this
      exact Nat.le_of_not_lt (this T' hT)
    · simp only [tickStep, h]
      simp [now, lp, rest] at hc ⊢
      simp [hc]
      cases delay s.tick <;> rfl

theorem tickStep_dead (I : Nat) (T : OptionalDuration) (delay : Nat → Option Nat) (s : PingLoop)
    (t : Nat) (h : s.dead = some t) : tickStep I T delay s = s := by
  simp [tickStep, h]


/-! ## Invariants of `run` -/

/-- Timing invariant: while alive, the last pong is not in the future and, when the latest tick
    passed the check, not older than `T` at that tick; once dead, the death tick failed the check
    and the tick before it (if any) passed it. -/
structure Inv (I : Nat) (T : OptionalDuration) (s : PingLoop) : Prop where
  lastPong_le : s.dead = none → (s.tick = 0 ∧ s.lastPong = 0) ∨ s.lastPong + I ≤ s.tick * I
  recent : s.dead = none → ∀ T', T = some T' → s.tick * I ≤ s.lastPong + T' + I
  window : ∀ t, s.dead = some t →
    t = s.tick * I ∧ ∃ T', T = some T' ∧ T' < t - s.lastPong ∧ t ≤ s.lastPong + T' + I

theorem inv_init (I : Nat) (T : OptionalDuration) (extra : List Nat) : Inv I T (PingLoop.init extra) := by
  refine ⟨?_, ?_, ?_⟩ <;> simp [PingLoop.init]

theorem inv_step (I : Nat) (T : OptionalDuration) (delay : Nat → Option Nat) (s : PingLoop)
    (hs : Inv I T s) : Inv I T (tickStep I T delay s) := by
  cases hd : s.dead with
  | some t => rw [tickStep_dead I T delay s t hd]; exact hs
  | none =>
    have h1 := hs.lastPong_le hd
    have h2 := hs.recent hd
    have hge := latest_ge (s.inflight.filter (fun a => a ≤ s.tick * I)) s.lastPong
    have hle : latest s.lastPong (s.inflight.filter (fun a => a ≤ s.tick * I)) ≤ s.tick * I := by
      apply latest_le
      · rcases h1 with ⟨_, h0⟩ | h; · omega
        · omega
      · intro x hx
        have := (List.mem_filter.mp hx).2
        simpa using this
    have hmul : (s.tick + 1) * I = s.tick * I + I := Nat.succ_mul _ _
    rcases tickStep_alive I T delay s hd with ⟨⟨T', hT, hlt⟩, heq⟩ | ⟨hno, heq⟩
    · rw [heq]
      refine ⟨by simp, by simp, ?_⟩
      intro t ht
      simp only [Option.some.injEq] at ht
      subst ht
      refine ⟨rfl, T', hT, hlt, ?_⟩
      have := h2 T' hT
      simp only
      omega
    · rw [heq]
      refine ⟨?_, ?_, by simp⟩
      · intro _
        right
        simp only
        omega
      · intro _ T' hT
        have := hno T' hT
        simp only
        omega

theorem inv_run (I : Nat) (T : OptionalDuration) (delay : Nat → Option Nat) (extra : List Nat) (n : Nat) :
    Inv I T (run I T delay extra n) := by
  induction n with
  | zero => exact inv_init I T extra
  | succ n ih => exact inv_step I T delay _ ih

/-- Once dead, always dead, with nothing changing any more. -/
theorem run_dead_stays (I : Nat) (T : OptionalDuration) (delay : Nat → Option Nat) (extra : List Nat)
    (n m : Nat) (t : Nat) (h : (run I T delay extra n).dead = some t) :
    run I T delay extra (n + m) = run I T delay extra n := by
  induction m with
  | zero => rfl
  | succ m ih =>
    show tickStep I T delay (run I T delay extra (n + m)) = _
    rw [ih]; exact tickStep_dead I T delay _ t h

theorem run_alive_prefix (I : Nat) (T : OptionalDuration) (delay : Nat → Option Nat) (extra : List Nat)
    (n m : Nat) (hm : m ≤ n) (h : (run I T delay extra n).dead = none) :
    (run I T delay extra m).dead = none := by
  cases hd : (run I T delay extra m).dead with
  | none => rfl
  | some t =>
    have := run_dead_stays I T delay extra m (n - m) t hd
    rw [show m + (n - m) = n by omega] at this
    rw [this, hd] at h; cases h

/-- While alive, every tick so far has been served. -/
theorem run_alive_tick (I : Nat) (T : OptionalDuration) (delay : Nat → Option Nat) (extra : List Nat)
    (n : Nat) (h : (run I T delay extra n).dead = none) : (run I T delay extra n).tick = n := by
  induction n with
  | zero => rfl
  | succ n ih =>
    have hp := run_alive_prefix I T delay extra (n + 1) n (Nat.le_succ n) h
    have ihn := ih hp
    show (tickStep I T delay (run I T delay extra n)).tick = n + 1
    have h' : (tickStep I T delay (run I T delay extra n)).dead = none := h
    rcases tickStep_alive I T delay _ hp with ⟨_, heq⟩ | ⟨_, heq⟩
    · rw [heq] at h'; simp at h'
    · rw [heq]; simp [ihn]

theorem run_tick_le (I : Nat) (T : OptionalDuration) (delay : Nat → Option Nat) (extra : List Nat)
    (n : Nat) : (run I T delay extra n).tick ≤ n := by
  induction n with
  | zero => exact Nat.le_refl 0
  | succ n ih =>
    show (tickStep I T delay (run I T delay extra n)).tick ≤ n + 1
    cases hd : (run I T delay extra n).dead with
    | some t => rw [tickStep_dead I T delay _ t hd]; omega
    | none =>
      rcases tickStep_alive I T delay _ hd with ⟨_, heq⟩ | ⟨_, heq⟩
      · rw [heq]; simp only; omega
      · rw [heq]; simp only; omega

/-- A ping at every tick that was served: `0, I, 2I, …`. -/
def PingsOk (I : Nat) (s : PingLoop) : Prop :=
  s.pings.reverse = (List.range s.tick).map (· * I)

theorem pingsOk_step (I : Nat) (T : OptionalDuration) (delay : Nat → Option Nat) (s : PingLoop)
    (hs : PingsOk I s) : PingsOk I (tickStep I T delay s) := by
  cases hd : s.dead with
  | some t => rw [tickStep_dead I T delay s t hd]; exact hs
  | none =>
    rcases tickStep_alive I T delay s hd with ⟨_, heq⟩ | ⟨_, heq⟩
    · rw [heq]; exact hs
    · rw [heq]
      unfold PingsOk at hs ⊢
      simp [List.range_succ, hs]

theorem run_pings (I : Nat) (T : OptionalDuration) (delay : Nat → Option Nat) (extra : List Nat) (n : Nat) :
    PingsOk I (run I T delay extra n) := by
  induction n with
  | zero => rfl
  | succ n ih => exact pingsOk_step I T delay _ ih

/-- Every pong the peer sent for a ping is either read already or still on its way. -/
def Accounted (I : Nat) (delay : Nat → Option Nat) (s : PingLoop) : Prop :=
  ∀ j d, j < s.tick → delay j = some d → j * I + d ≤ s.lastPong ∨ j * I + d ∈ s.inflight

theorem accounted_step (I : Nat) (T : OptionalDuration) (delay : Nat → Option Nat) (s : PingLoop)
    (hs : Accounted I delay s) : Accounted I delay (tickStep I T delay s) := by
  cases hd : s.dead with
  | some t => rw [tickStep_dead I T delay s t hd]; exact hs
  | none =>
    have old : ∀ j d, j < s.tick → delay j = some d →
        j * I + d ≤ latest s.lastPong (s.inflight.filter (fun a => a ≤ s.tick * I)) ∨
        j * I + d ∈ s.inflight.filter (fun a => ¬ a ≤ s.tick * I) := by
      intro j d hj hdel
      rcases hs j d hj hdel with h | h
      · left; exact Nat.le_trans h (latest_ge _ _)
      · by_cases hnow : j * I + d ≤ s.tick * I
        · left; apply latest_mem; exact List.mem_filter.mpr ⟨h, by simpa using hnow⟩
        · right; exact List.mem_filter.mpr ⟨h, by simpa using hnow⟩
    rcases tickStep_alive I T delay s hd with ⟨_, heq⟩ | ⟨_, heq⟩
    · rw [heq]; intro j d hj hdel; exact old j d hj hdel
    · rw [heq]
      intro j d hj hdel
      simp only at hj ⊢
      by_cases hjt : j < s.tick
      · rcases old j d hjt hdel with h | h
        · left; exact h
        · right
          split
          · exact List.mem_append_left _ h
          · exact h
      · have : j = s.tick := by omega
        subst this
        right; rw [hdel]; simp

theorem accounted_run (I : Nat) (T : OptionalDuration) (delay : Nat → Option Nat) (extra : List Nat) (n : Nat) :
    Accounted I delay (run I T delay extra n) := by
  induction n with
  | zero => intro j d hj; cases hj
  | succ n ih => exact accounted_step I T delay _ ih

/-- If no pong ever arrives later than `P`, nothing in the state is later than `P`. -/
def Bounded (P : Nat) (s : PingLoop) : Prop := s.lastPong ≤ P ∧ ∀ a ∈ s.inflight, a ≤ P

theorem bounded_step (I : Nat) (T : OptionalDuration) (delay : Nat → Option Nat) (s : PingLoop) (P : Nat)
    (hdelay : ∀ j d, delay j = some d → j * I + d ≤ P) (hs : Bounded P s) :
    Bounded P (tickStep I T delay s) := by
  cases hd : s.dead with
  | some t => rw [tickStep_dead I T delay s t hd]; exact hs
  | none =>
    have hlp : latest s.lastPong (s.inflight.filter (fun a => a ≤ s.tick * I)) ≤ P :=
      latest_le _ _ _ hs.1 (fun x hx => hs.2 x (List.mem_filter.mp hx).1)
    have hrest : ∀ a ∈ s.inflight.filter (fun a => ¬ a ≤ s.tick * I), a ≤ P :=
      fun a ha => hs.2 a (List.mem_filter.mp ha).1
    rcases tickStep_alive I T delay s hd with ⟨_, heq⟩ | ⟨_, heq⟩
    · rw [heq]; exact ⟨hlp, hrest⟩
    · rw [heq]
      refine ⟨hlp, ?_⟩
      intro a ha
      simp only at ha
      cases hdel : delay s.tick with
      | none => rw [hdel] at ha; exact hrest a ha
      | some d =>
        rw [hdel] at ha
        rcases List.mem_append.mp ha with h | h
        · exact hrest a h
        · simp only [List.mem_singleton] at h; rw [h]; exact hdelay _ _ hdel

theorem bounded_run (I : Nat) (T : OptionalDuration) (delay : Nat → Option Nat) (extra : List Nat) (P : Nat)
    (hextra : ∀ a ∈ extra, a ≤ P) (hdelay : ∀ j d, delay j = some d → j * I + d ≤ P) (n : Nat) :
    Bounded P (run I T delay extra n) := by
  induction n with
  | zero => exact ⟨Nat.zero_le _, hextra⟩
  | succ n ih => exact bounded_step I T delay _ P hdelay ih


/-! ## The builder -/

theorem od_max_some_some (t i : Nat) :
    OptionalDuration.max (some t) (some i) = some (max t i) := by
  simp only [OptionalDuration.max, OptionalDuration.cmp]
  by_cases h : i < t
  · have : compare t i = .gt := Nat.compare_eq_gt.mpr h
    simp [this, Nat.max_eq_left (Nat.le_of_lt h)]
  · have : compare t i ≠ .gt := fun hc => h (Nat.compare_eq_gt.mp hc)
    simp [this, Nat.max_eq_right (Nat.le_of_not_lt h)]

theorem od_max_none_left (b : OptionalDuration) : OptionalDuration.max none b = none := by
  cases b <;> simp [OptionalDuration.max, OptionalDuration.cmp]

theorem od_max_some_none (t : Nat) : OptionalDuration.max (some t) none = none := by
  simp [OptionalDuration.max, OptionalDuration.cmp]

/-- The effective timeout is the documented clamp of the requested timeout and the interval. -/
def Good (o : Options) : Prop :=
  o.keepaliveTimeout = clampTo o.keepaliveTimeoutRequested o.keepaliveInterval

theorem clamp_good (o : Options) : Good (Options.clampKeepaliveTimeout o) := by
  unfold Good Options.clampKeepaliveTimeout
  cases hi : o.keepaliveInterval with
  | none => cases hr : o.keepaliveTimeoutRequested <;> simp [clampTo]
  | some i =>
    cases hr : o.keepaliveTimeoutRequested with
    | none => simp [clampTo, od_max_none_left]
    | some t => simp [clampTo, od_max_some_some]

theorem apply_spec (o o1 : Options) (c : Setter) (h : Options.apply o c = some o1) :
    o1.keepaliveInterval = (match c with | .keepaliveInterval d => d | _ => o.keepaliveInterval) ∧
    o1.keepaliveTimeoutRequested = (match c with | .keepaliveTimeout d => d | _ => o.keepaliveTimeoutRequested) ∧
    (Good o → Good o1) := by
  cases c with
  | keepaliveInterval d =>
    simp only [Options.apply, Option.some.injEq] at h
    subst h
    exact ⟨rfl, rfl, fun _ => clamp_good _⟩
  | keepaliveTimeout d =>
    simp only [Options.apply, Option.some.injEq] at h
    subst h
    exact ⟨rfl, rfl, fun _ => clamp_good _⟩
  | bindBufferSize n =>
    simp only [Options.apply, Option.some.injEq] at h
    subst h
    exact ⟨rfl, rfl, fun g => g⟩
  | datagramBufferSize n | streamBufferSize n | maxFlowIdRetries n | rwnd n | defaultRwndThreshold n =>
    simp only [Options.apply] at h
    split at h
    · simp only [Option.some.injEq] at h
      subst h
      exact ⟨rfl, rfl, fun g => g⟩
    · cases h

theorem buildFrom_spec (calls : List Setter) : ∀ (o o' : Options), Options.buildFrom o calls = some o' →
    o'.keepaliveInterval = lastIntervalFrom o.keepaliveInterval calls ∧
    o'.keepaliveTimeoutRequested = lastTimeoutFrom o.keepaliveTimeoutRequested calls ∧
    (Good o → Good o') := by
  induction calls with
  | nil =>
    intro o o' h
    simp only [Options.buildFrom, Option.some.injEq] at h
    subst h
    exact ⟨rfl, rfl, fun g => g⟩
  | cons c cs ih =>
    intro o o' h
    simp only [Options.buildFrom] at h
    cases hc : Options.apply o c with
    | none => rw [hc] at h; cases h
    | some o1 =>
      rw [hc] at h
      obtain ⟨a1, a2, a3⟩ := apply_spec o o1 c hc
      obtain ⟨b1, b2, b3⟩ := ih o1 o' h
      refine ⟨?_, ?_, fun g => b3 (a3 g)⟩
      · rw [b1, a1]; cases c <;> rfl
      · rw [b2, a2]; cases c <;> rfl

theorem new_good : Good Options.new := by
  simp [Good, Options.new, clampTo]

end Penguin.Lemmas.Timing
