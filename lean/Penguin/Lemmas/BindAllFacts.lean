/-
Facts about ONE small step of a bind view (`BStep`): where the `Bind` / `Finish` frames it queues or hands
to the transport come from, where the requests in its bind queue come from, what its recorded events
mean; and the two invariants that concern one endpoint and its observer alone.
Core Lean only.
-/
import Penguin.Lemmas.BindAllView
import Penguin.Lemmas.MuxBasic

namespace Penguin.BindAll
open Penguin.Mux

variable {v v' : BV} {ws : List Msg} {gs : List BEv}

theorem BStep.inbox_suffix (st : BStep v v' ws gs) : v'.inbox <:+ v.inbox := by
  cases st with
  | shrink v' hs => exact hs.inbox
  | connNew y w p hh r hi hf => simp only; rw [hi]; exact List.suffix_cons _ _
  | ackNew y n q r hi hs => simp only; rw [hi]; exact List.suffix_cons _ _
  | offerQ b r hi => simp only; rw [hi]; exact List.suffix_cons _ _
  | offerPark b r hi => simp only; rw [hi]; exact List.suffix_cons _ _
  | _ => exact List.suffix_refl _

theorem BStep.rng_suffix (st : BStep v v' ws gs) : v'.rng <:+ v.rng := by
  cases st <;> first | exact List.suffix_refl _ | skip
  · rename_i h; exact h.rng
  all_goals
    rename_i hs _ _
    rcases hs with hs | hs
    · exact (List.suffix_cons _ _).trans hs
    · rw [hs]; exact List.nil_suffix

/-- A `Bind` frame the step queues or hands to the transport was queued before, or comes with the record
    of the request. -/
theorem BStep.bind_out (st : BStep v v' ws gs) (y : Nat) (bt : BindType) (p : Nat) (h : Bytes)
    (hm : Msg.frame (.bind y bt p h) ∈ ws ++ v'.outq) :
    Msg.frame (.bind y bt p h) ∈ v.outq ∨ ∃ req, BEv.asked req y bt h p ∈ gs := by
  cases st with
  | emit m r ho => left; rw [ho]; simpa using hm
  | shrink v' hs =>
    rcases hs.outq with h1 | ⟨h1, _⟩
    · left; simpa [h1] using hm
    · simp [h1] at hm
  | enq m hc ok =>
    simp only [List.nil_append, List.mem_append, List.mem_singleton] at hm
    rcases hm with hm | hm
    · exact Or.inl hm
    · subst hm; exact absurd ok (by simp [OkEnq])
  | drawBind y' req bt' host port r' hs hf ho =>
    simp only [List.nil_append, List.mem_append, List.mem_singleton] at hm
    rcases hm with hm | hm
    · exact Or.inl hm
    · simp only [Msg.frame.injEq, Frame.bind.injEq] at hm
      obtain ⟨rfl, rfl, rfl, rfl⟩ := hm
      exact Or.inr ⟨req, by simp⟩
  | reply k b acc hk hal ho => left; cases acc <;> simpa using hm
  | dropReq k b hk =>
    left
    simp only [List.nil_append] at hm
    split at hm
    · exact hm
    · simpa using hm
  | dropMux =>
    left
    simp only [List.nil_append] at hm
    split at hm
    · exact hm
    · simpa using hm
  | _ => left; simpa using hm

/-- A request is recorded only when its id is drawn. -/
theorem BStep.asked_drawn (st : BStep v v' ws gs) (req y : Nat) (bt : BindType) (h : Bytes) (p : Nat)
    (hm : BEv.asked req y bt h p ∈ gs) : (y :: v'.rng) <:+ v.rng ∨ v'.rng = [] := by
  cases st with
  | drawBind y' req' bt' host port r' hs hf ho =>
    simp only [List.mem_singleton, BEv.asked.injEq] at hm
    obtain ⟨_, rfl, _⟩ := hm
    exact hs
  | finishAll =>
    simp only [List.mem_filterMap] at hm
    obtain ⟨q, _, hq⟩ := hm
    split at hq <;> cases hq
  | _ => simp at hm

/-- `accepted` is recorded only for the request holding the slot of the `Finish` at the head of the inbox. -/
theorem BStep.accepted_why (st : BStep v v' ws gs) (req : Nat) (hm : BEv.done req .accepted ∈ gs) :
    ∃ y r, v.inbox = .msg (.frame (.finish y)) :: r ∧ (y, Slot.bindRequested req) ∈ v.flows := by
  cases st with
  | finBind y req' r hi hs =>
    simp only [List.mem_singleton, BEv.done.injEq, and_true] at hm
    subst hm
    exact ⟨y, r, hi, hs⟩
  | finishAll =>
    simp only [List.mem_filterMap] at hm
    obtain ⟨q, _, hq⟩ := hm
    split at hq <;> cases hq
  | _ => simp at hm

/-- A queued request was queued before, or was parked, or is the `Bind` at the head of the inbox. -/
theorem BStep.bindq_from (st : BStep v v' ws gs) (b : BindIn) (hm : b ∈ v'.bindq) :
    b ∈ v.bindq ∨ v.park = some b ∨ ∃ r, v.inbox = .msg (.frame (.bind b.fid b.bt b.port b.host)) :: r := by
  cases st with
  | shrink v' hs => exact Or.inl (hs.bindq.subset hm)
  | offerQ b' r hi =>
    simp only [List.mem_append, List.mem_singleton] at hm
    rcases hm with hm | hm
    · exact Or.inl hm
    · subst hm; exact Or.inr (Or.inr ⟨r, hi⟩)
  | unparkQ b' hp =>
    simp only [List.mem_append, List.mem_singleton] at hm
    rcases hm with hm | hm
    · exact Or.inl hm
    · subst hm; exact Or.inr (Or.inl hp)
  | bindNext b' r hq => left; rw [hq]; exact List.mem_cons_of_mem _ hm
  | dropMux => simp at hm
  | _ => exact Or.inl hm

theorem BStep.park_from (st : BStep v v' ws gs) (b : BindIn) (hm : v'.park = some b) :
    v.park = some b ∨ ∃ r, v.inbox = .msg (.frame (.bind b.fid b.bt b.port b.host)) :: r := by
  cases st with
  | shrink v' hs =>
    rcases hs.park with h1 | h1
    · left; rw [← h1]; exact hm
    · rw [h1] at hm; cases hm
  | offerPark b' r hi =>
    simp only [Option.some.injEq] at hm
    subst hm; exact Or.inr ⟨r, hi⟩
  | unparkQ b' hp => cases hm
  | _ => exact Or.inl hm

/-- A `BindRequest` is shown only for a queued request, with its fields. -/
theorem BStep.shown_from (st : BStep v v' ws gs) (k y : Nat) (bt : BindType) (h : Bytes) (p : Nat)
    (hm : BEv.shown k y bt h p ∈ gs) : ∃ b ∈ v.bindq, b.fid = y ∧ b.bt = bt ∧ b.host = h ∧ b.port = p := by
  cases st with
  | bindNext b r hq =>
    simp only [List.mem_singleton, BEv.shown.injEq] at hm
    obtain ⟨_, rfl, rfl, rfl, rfl⟩ := hm
    exact ⟨b, by rw [hq]; exact List.mem_cons_self, rfl, rfl, rfl, rfl⟩
  | finishAll =>
    simp only [List.mem_filterMap] at hm
    obtain ⟨q, _, hq⟩ := hm
    split at hq <;> cases hq
  | _ => simp at hm

/-- A `Finish` the step queues or hands to the transport was queued before, or its id is carried by a
    stream object, or it is the `reply(true)` on a held request of that id. -/
theorem BStep.finish_out (st : BStep v v' ws gs) (y : Nat) (hm : Msg.frame (.finish y) ∈ ws ++ v'.outq) :
    Msg.frame (.finish y) ∈ v.outq ∨ y ∈ v.fids ∨ ∃ k b, v.held[k]? = some b ∧ b.fid = y ∧ BEv.replied k true ∈ gs := by
  cases st with
  | emit m r ho => left; rw [ho]; simpa using hm
  | shrink v' hs =>
    rcases hs.outq with h1 | ⟨h1, _⟩
    · left; simpa [h1] using hm
    · simp [h1] at hm
  | enq m hc ok =>
    simp only [List.nil_append, List.mem_append, List.mem_singleton] at hm
    rcases hm with hm | hm
    · exact Or.inl hm
    · subst hm; exact Or.inr (Or.inl ok)
  | reply k b acc hk hal ho =>
    simp only [List.nil_append, List.mem_append, List.mem_singleton] at hm
    rcases hm with hm | hm
    · exact Or.inl hm
    · cases acc with
      | false => simp at hm
      | true =>
        simp only [if_true, Msg.frame.injEq, Frame.finish.injEq] at hm
        exact Or.inr (Or.inr ⟨k, b, hk, hm.symm, by simp⟩)
  | dropReq k b hk =>
    left
    simp only [List.nil_append] at hm
    split at hm
    · exact hm
    · simpa using hm
  | dropMux =>
    left
    simp only [List.nil_append] at hm
    split at hm
    · exact hm
    · simpa using hm
  | _ => left; simpa using hm

/-! ### One endpoint and its observer -/

/-- Every `BindRequest` the application holds was shown to it, with these fields, under its number. -/
def HeldShown (v : BV) (g : List BEv) : Prop :=
  ∀ k b, v.held[k]? = some b → BEv.shown k b.fid b.bt b.host b.port ∈ g

/-- Every pending bind request slot belongs to a recorded request with that number and that id. -/
def SlotAsked (v : BV) (g : List BEv) : Prop :=
  ∀ y r, (y, Slot.bindRequested r) ∈ v.flows → ∃ bt host port, BEv.asked r y bt host port ∈ g

theorem getElem?_modify_fields {l : List BindIn} {k k' : Nat} {f : BindIn → BindIn} {b : BindIn}
    (hf : ∀ b, (f b).fid = b.fid ∧ (f b).bt = b.bt ∧ (f b).host = b.host ∧ (f b).port = b.port)
    (h : (l.modify k f)[k']? = some b) :
    ∃ b0, l[k']? = some b0 ∧ b.fid = b0.fid ∧ b.bt = b0.bt ∧ b.host = b0.host ∧ b.port = b0.port := by
  rw [List.getElem?_modify] at h
  cases h0 : l[k']? with
  | none => simp [h0] at h
  | some b0 =>
    simp only [h0, Option.map_eq_map, Option.map_some, Option.some.injEq] at h
    refine ⟨b0, rfl, ?_⟩
    subst h
    split
    · exact hf b0
    · exact ⟨rfl, rfl, rfl, rfl⟩

theorem HeldShown.step {g : List BEv} (h : HeldShown v g) (st : BStep v v' ws gs) : HeldShown v' (g ++ gs) := by
  intro k b hk
  cases st with
  | shrink v' hs => rw [hs.held] at hk; exact List.mem_append_left _ (h k b hk)
  | bindNext b' r hq =>
    simp only at hk
    by_cases hlt : k < v.held.length
    · rw [List.getElem?_append_left hlt] at hk
      exact List.mem_append_left _ (h k b hk)
    · have hge : v.held.length ≤ k := Nat.le_of_not_lt hlt
      rw [List.getElem?_append_right hge] at hk
      have hk0 : k - v.held.length = 0 := by
        cases hd : k - v.held.length with
        | zero => rfl
        | succ n => simp [hd] at hk
      simp only [hk0, List.getElem?_cons_zero, Option.some.injEq] at hk
      subst hk
      have : k = v.held.length := by omega
      subst this
      simp
  | reply k' b' acc hk' hal ho =>
    obtain ⟨b0, h0, e1, e2, e3, e4⟩ := getElem?_modify_fields (f := fun b => { b with replied := true })
      (fun _ => ⟨rfl, rfl, rfl, rfl⟩) hk
    rw [e1, e2, e3, e4]; exact List.mem_append_left _ (h k b0 h0)
  | dropReq k' b' hk' =>
    obtain ⟨b0, h0, e1, e2, e3, e4⟩ := getElem?_modify_fields (f := fun b => { b with alive := false })
      (fun _ => ⟨rfl, rfl, rfl, rfl⟩) hk
    rw [e1, e2, e3, e4]; exact List.mem_append_left _ (h k b0 h0)
  | _ => exact List.mem_append_left _ (h k b hk)

theorem mem_insert {fl : List (Nat × Slot)} {y : Nat} {s : Slot} {p : Nat × Slot} (h : p ∈ Mux.insert fl y s) :
    p = (y, s) ∨ p ∈ fl := by
  simp only [Mux.insert, Mux.erase, List.mem_cons, List.mem_filter] at h
  rcases h with h | h
  · exact Or.inl h
  · exact Or.inr h.1

theorem SlotAsked.step {g : List BEv} (h : SlotAsked v g) (st : BStep v v' ws gs) : SlotAsked v' (g ++ gs) := by
  intro y r hm
  have old : (y, Slot.bindRequested r) ∈ v.flows → ∃ bt host port, BEv.asked r y bt host port ∈ g ++ gs := fun hm => by
    obtain ⟨bt, host, port, ha⟩ := h y r hm
    exact ⟨bt, host, port, List.mem_append_left _ ha⟩
  cases st with
  | shrink v' hs => exact old (hs.flows.subset hm)
  | drawOpen y' q r' w p hh hs hf ho =>
    rcases mem_insert hm with h1 | h1
    · cases h1
    · exact old h1
  | drawBind y' req bt host port r' hs hf ho =>
    rcases mem_insert hm with h1 | h1
    · simp only [Prod.mk.injEq, Slot.bindRequested.injEq] at h1
      obtain ⟨rfl, rfl⟩ := h1
      exact ⟨bt, host, port, by simp⟩
    · exact old h1
  | connNew y' w p hh r' hi hf =>
    rcases mem_insert hm with h1 | h1
    · cases h1
    · exact old h1
  | ackNew y' n q r' hi hs =>
    rcases mem_insert hm with h1 | h1
    · cases h1
    · exact old h1
  | finishAll => simp at hm
  | _ => exact old hm

end Penguin.BindAll
