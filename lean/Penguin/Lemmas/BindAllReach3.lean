/-
The second layer of the invariant of the pair of bind views (`Inv3`, `Lemmas/BindAllInv3.lean`) holds in
every reachable state of `Model/PairAll.lean`; and `bind_buffer_size` never changes along a run.
Core Lean only.
-/
import Penguin.Lemmas.BindAllInv3
import Penguin.Lemmas.BindAllReach

namespace Penguin.BindAll
open Penguin.Mux Penguin.PairAll
open Penguin.PairAll (inMsgs inMsgs_append wireMsgs)

/-- A sequence of small steps of the left side. -/
theorem Inv3.starL {c : BC} {v : BV} {ws : List Msg} {gs : List BEv} (h : Inv3 c) (st : BStar c.a v ws gs) (hn : v.rng ≠ []) :
    Inv3 (c.actL v ws gs) := by
  generalize hva : c.a = va at st
  induction st generalizing c with
  | refl v => subst hva; rw [actL_nil]; exact h
  | @step v0 v1 v2 w1 w2 g1 g2 s rest ih =>
    subst hva
    have hn1 : v1.rng ≠ [] := by
      intro h0
      have := rest.rng_suffix
      rw [h0] at this
      exact hn (List.suffix_nil.mp this)
    have h1 := h.act s hn1
    have h2 := ih h1 hn rfl
    rw [actL_trans] at h2
    exact h2

theorem closed_inv3 : Closed Inv3 := ⟨Inv3.swap, Inv3.starL, fun h st hn => h.stepL st hn⟩

theorem Loc.init (o : Opts) (r : List Nat) : Loc (bview { opts := o, rng := r } []) [] := by
  refine ⟨?_, ?_, ?_, ?_, ?_⟩
  · intro h; simp [bview] at h
  · intro y hy; simp [bview] at hy
  · intro k hk; simp at hk
  · intro k b hk; simp [bview] at hk
  · intro k b hk; simp [bview] at hk

theorem PInv.init3 (oa ob : Opts) {ra rb : List Nat} (cfg : Cfg ra rb) : PInv Inv3 { p := PairAll.init oa ob ra rb } := by
  have h0 := PInv.init oa ob cfg
  refine ⟨⟨h0.inv, Loc.init oa ra, Loc.init ob rb, ⟨?_, ?_, ?_⟩, ⟨?_, ?_, ?_⟩⟩, cfg.neA, cfg.neB⟩
  · intro x hf; simp [absB, PairAll.init, bview, BC.path, BC.swap, inMsgs] at hf
  · intro req hd; simp [absB] at hd
  · intro x _ hm; simp [absB, PairAll.init, bview, BC.path, inMsgs] at hm
  · intro x hf; simp [absB, PairAll.init, bview, BC.path, BC.swap, inMsgs] at hf
  · intro req hd; simp [absB, BC.swap] at hd
  · intro x _ hm; simp [absB, PairAll.init, bview, BC.path, BC.swap, inMsgs] at hm

/-- In every reachable state of the pair (with records), both layers of the invariant hold. -/
theorem reach_inv3 (oa ob : Opts) {ra rb : List Nat} (cfg : Cfg ra rb) (l : List (Side × Stim)) :
    Inv3 (absB (runB { p := PairAll.init oa ob ra rb } l)) :=
  ((PInv.init3 oa ob cfg).run closed_inv3 l).inv

/-! ### `bind_buffer_size` is constant -/

theorem BStar.bindCap_eq {v v' : BV} {ws : List Msg} {gs : List BEv} (h : BStar v v' ws gs) : v'.bindCap = v.bindCap := by
  induction h with
  | refl v => rfl
  | step st _ ih => rw [ih, st.bindCap_eq]

theorem opStep_deliver_opts (e : EP) (w : WsIn) : (opStep e (.deliver w)).1.opts = e.opts := by
  simp only [Mux.opStep]
  split
  · rfl
  · split <;> rfl

theorem applyOp_bindCap (e : EP) (op : Mux.Op) : (applyOp e op).1.opts.bindCap = e.opts.bindCap := by
  by_cases hc : isCall op = true
  · exact (bstar_call e op hc).bindCap_eq
  · cases op with
    | deliver w =>
      have := (bstar_deliver e w).bindCap_eq
      simp only [bview] at this
      rw [this, opStep_deliver_opts]
    | _ => exact absurd rfl hc

theorem actL_a (p : PS) (op : Mux.Op) : (actL p op).a = (applyOp p.a op).1 := rfl
theorem actL_b (p : PS) (op : Mux.Op) : (actL p op).b = p.b := rfl

theorem actL_caps (p : PS) (op : Mux.Op) (ba : List Msg) (bo : Bool) :
    ({ actL p op with ba := ba, baOpen := bo } : PS).a.opts.bindCap = p.a.opts.bindCap ∧
    ({ actL p op with ba := ba, baOpen := bo } : PS).b = p.b := by
  refine ⟨?_, actL_b p op⟩
  show (actL p op).a.opts.bindCap = _
  rw [actL_a]; exact applyOp_bindCap p.a op

theorem stimL_caps {p p' : PS} {st : Stim} (h : stimL p st = some p') :
    p'.a.opts.bindCap = p.a.opts.bindCap ∧ p'.b = p.b := by
  cases st with
  | call op =>
    simp only [stimL] at h
    split at h
    · have := Option.some.inj h
      rw [← this]
      exact actL_caps p op p.ba p.baOpen
    · cases h
  | deliver =>
    simp only [stimL] at h
    split at h
    · cases h
    · split at h
      · have := Option.some.inj h; rw [← this]; exact actL_caps p _ [] false
      · have := Option.some.inj h; rw [← this]; exact actL_caps p _ _ p.baOpen
  | cut eof =>
    have h2 : some ({ actL p (.deliver (if eof = true then WsIn.eof else WsIn.err)) with ba := [], baOpen := false } : PS) = some p' := h
    have := Option.some.inj h2; rw [← this]; exact actL_caps p _ [] false

theorem stepL_caps {p p' : PS} {st : Stim} (h : stepL p st = some p') :
    p'.a.opts.bindCap = p.a.opts.bindCap ∧ p'.b = p.b := by
  simp only [stepL] at h
  split at h
  · rename_i q' hq
    split at h
    · cases h
    · have := Option.some.inj h; subst this; exact stimL_caps hq
  · cases h

/-- Neither endpoint's `bind_buffer_size` changes along a run. -/
theorem runB_caps (q : PB) (l : List (Side × Stim)) :
    (runB q l).p.a.opts.bindCap = q.p.a.opts.bindCap ∧ (runB q l).p.b.opts.bindCap = q.p.b.opts.bindCap := by
  induction l generalizing q with
  | nil => exact ⟨rfl, rfl⟩
  | cons a l ih =>
    obtain ⟨s, st⟩ := a
    simp only [runB]
    obtain ⟨i1, i2⟩ := ih (stepB q s st)
    rw [i1, i2]
    cases s with
    | A =>
      simp only [stepB]
      cases hs : stepL q.p st with
      | none => exact ⟨rfl, rfl⟩
      | some p' =>
        obtain ⟨c1, c2⟩ := stepL_caps hs
        exact ⟨c1, by simp only; rw [c2]⟩
    | B =>
      simp only [stepB]
      cases hs : stepL q.p.swap st with
      | none => exact ⟨rfl, rfl⟩
      | some p' =>
        obtain ⟨c1, c2⟩ := stepL_caps hs
        exact ⟨by show p'.b.opts.bindCap = _; rw [c2]; rfl, c1⟩

end Penguin.BindAll
