/-
Helper lemmas for the SOCKS session handler (`Model/SocksSession.lean`): reader scripts on extended
inputs, what a reader may have written, and the generic facts about running a session script
(`Sess.run`): effects performed on a prefix of the input are never revised by what arrives later.
The property statements live in `Props/C18Session.lean`.  (Imports `Props/C18.lean`: the facts proved there
about the readers are what the session-level statements are assembled from.)
-/
import Penguin.Model.SocksSession
import Penguin.Lemmas.Socks
import Penguin.Props.C18

namespace Penguin.Lemmas.SocksSession
open Penguin Penguin.Socks Penguin.SocksSession Penguin.Constants Penguin.Lemmas.Socks

/-! ### Reader scripts: more input changes nothing once a reader has finished -/

section script
variable {α : Type}

theorem splitAtN_some {n : Nat} {p x r : Bytes} (h : splitAtN n p = some (x, r)) :
    n ≤ p.length ∧ x = p.take n ∧ r = p.drop n := by
  simp only [splitAtN] at h
  split at h
  · simp at h; exact ⟨by assumption, h.1.symm, h.2.symm⟩
  · simp at h

/-- A reader that has completed on `p` completes in the same way on `p ++ q`, whether the stream
    has ended or not. -/
theorem run_done_append (s : Script α) (p q : Bytes) (e0 e : Bool) (c : Nat) (w : Bytes)
    (a : α) (c' : Nat) (w' : Bytes) (h : s.run p e0 c w = .done a c' w') :
    s.run (p ++ q) e c w = .done a c' w' := by
  induction s generalizing p c w with
  | ret a0 => simpa [Script.run] using h
  | fail err => simp [Script.run] at h
  | write bs k ih =>
    simp only [Script.run] at h ⊢
    exact ih p c (w ++ bs) h
  | readN ctx n k ih =>
    simp only [Script.run] at h ⊢
    cases hs : splitAtN n p with
    | none => rw [hs] at h; cases e0 <;> simp at h
    | some xr =>
      obtain ⟨x, r⟩ := xr
      rw [hs] at h
      obtain ⟨hn, rfl, rfl⟩ := splitAtN_some hs
      rw [splitAtN_of_le hn q]
      exact ih _ _ _ _ h
  | readUntilNul ctx k ih =>
    simp only [Script.run] at h ⊢
    cases hs : splitNul p with
    | none => rw [hs] at h; cases e0 <;> simp at h
    | some fr =>
      obtain ⟨f, r⟩ := fr
      rw [hs] at h
      rw [splitNul_append_of_some hs q]
      exact ih _ _ _ _ h

/-- A reader that has failed on `p` with the stream still open (so: not for want of input) fails in
    the same way on `p ++ q`. -/
theorem run_error_append (s : Script α) (p q : Bytes) (e : Bool) (c : Nat) (w : Bytes)
    (err : ErrKind) (w' : Bytes) (h : s.run p false c w = .error err w') :
    s.run (p ++ q) e c w = .error err w' := by
  induction s generalizing p c w with
  | ret a0 => simp [Script.run] at h
  | fail err0 => simpa [Script.run] using h
  | write bs k ih =>
    simp only [Script.run] at h ⊢
    exact ih p c (w ++ bs) h
  | readN ctx n k ih =>
    simp only [Script.run] at h ⊢
    cases hs : splitAtN n p with
    | none => rw [hs] at h; simp at h
    | some xr =>
      obtain ⟨x, r⟩ := xr
      rw [hs] at h
      obtain ⟨hn, rfl, rfl⟩ := splitAtN_some hs
      rw [splitAtN_of_le hn q]
      exact ih _ _ _ _ h
  | readUntilNul ctx k ih =>
    simp only [Script.run] at h ⊢
    cases hs : splitNul p with
    | none => rw [hs] at h; simp at h
    | some fr =>
      obtain ⟨f, r⟩ := fr
      rw [hs] at h
      rw [splitNul_append_of_some hs q]
      exact ih _ _ _ _ h

/-- A reader consumes no more than there is. -/
theorem run_done_consumed (s : Script α) (p : Bytes) (e : Bool) (c : Nat) (w : Bytes)
    (a : α) (c' : Nat) (w' : Bytes) (h : s.run p e c w = .done a c' w') :
    c ≤ c' ∧ c' ≤ c + p.length := by
  induction s generalizing p c w with
  | ret a0 =>
    simp only [Script.run, Result.done.injEq] at h
    omega
  | fail err => simp [Script.run] at h
  | write bs k ih =>
    simp only [Script.run] at h
    exact ih p c (w ++ bs) h
  | readN ctx n k ih =>
    simp only [Script.run] at h
    cases hs : splitAtN n p with
    | none => rw [hs] at h; cases e <;> simp at h
    | some xr =>
      obtain ⟨x, r⟩ := xr
      rw [hs] at h
      obtain ⟨hn, rfl, rfl⟩ := splitAtN_some hs
      have := ih _ _ _ _ h
      simp at this
      omega
  | readUntilNul ctx k ih =>
    simp only [Script.run] at h
    cases hs : splitNul p with
    | none => rw [hs] at h; cases e <;> simp at h
    | some fr =>
      obtain ⟨f, r⟩ := fr
      rw [hs] at h
      have hl := splitNul_some_length hs
      have := ih _ _ _ _ h
      omega

/-- The only write a reader makes, if any, is `ob`, immediately before it fails. -/
inductive FinalWrite (ob : Option Bytes) : Script α → Prop where
  | ret (a : α) : FinalWrite ob (.ret a)
  | fail (e : ErrKind) : FinalWrite ob (.fail e)
  | writeFail (bs : Bytes) (e : ErrKind) (h : ob = some bs) : FinalWrite ob (.write bs (.fail e))
  | readN (ctx : Ctx) (n : Nat) (k : Bytes → Script α) (h : ∀ bs, FinalWrite ob (k bs)) :
      FinalWrite ob (.readN ctx n k)
  | readUntilNul (ctx : Ctx) (k : Bytes → Script α) (h : ∀ bs, FinalWrite ob (k bs)) :
      FinalWrite ob (.readUntilNul ctx k)

theorem FinalWrite.run_done {ob : Option Bytes} {s : Script α} (hs : FinalWrite ob s) (inp : Bytes)
    (e : Bool) (c : Nat) (w : Bytes) (a : α) (c' : Nat) (w' : Bytes)
    (h : s.run inp e c w = .done a c' w') : w' = w := by
  induction hs generalizing inp c with
  | ret a0 => simp only [Script.run, Result.done.injEq] at h; exact h.2.2.symm
  | fail err => simp [Script.run] at h
  | writeFail bs err _ => simp [Script.run] at h
  | readN ctx n k _ ih =>
    simp only [Script.run] at h
    cases hs : splitAtN n inp with
    | none => rw [hs] at h; cases e <;> simp at h
    | some xr => obtain ⟨x, r⟩ := xr; rw [hs] at h; exact ih x r _ h
  | readUntilNul ctx k _ ih =>
    simp only [Script.run] at h
    cases hs : splitNul inp with
    | none => rw [hs] at h; cases e <;> simp at h
    | some fr => obtain ⟨f, r⟩ := fr; rw [hs] at h; exact ih f r _ h

theorem FinalWrite.run_error {ob : Option Bytes} {s : Script α} (hs : FinalWrite ob s) (inp : Bytes)
    (e : Bool) (c : Nat) (w : Bytes) (err : ErrKind) (w' : Bytes)
    (h : s.run inp e c w = .error err w') : w' = w ∨ ∃ bs, ob = some bs ∧ w' = w ++ bs := by
  induction hs generalizing inp c with
  | ret a0 => simp [Script.run] at h
  | fail err0 => simp only [Script.run, Result.error.injEq] at h; exact Or.inl h.2.symm
  | writeFail bs err0 hb =>
    simp only [Script.run, Result.error.injEq] at h
    exact Or.inr ⟨bs, hb, h.2.symm⟩
  | readN ctx n k _ ih =>
    simp only [Script.run] at h
    cases hs : splitAtN n inp with
    | none =>
      rw [hs] at h
      cases e <;> simp at h
      exact Or.inl h.2.symm
    | some xr => obtain ⟨x, r⟩ := xr; rw [hs] at h; exact ih x r _ h
  | readUntilNul ctx k _ ih =>
    simp only [Script.run] at h
    cases hs : splitNul inp with
    | none =>
      rw [hs] at h
      cases e <;> simp at h
      exact Or.inl h.2.symm
    | some fr => obtain ⟨f, r⟩ := fr; rw [hs] at h; exact ih f r _ h

end script

/-- Steps through a reader script, discharging `FinalWrite`. -/
macro "final_write" : tactic => `(tactic|
  repeat (first
    | apply FinalWrite.ret
    | apply FinalWrite.fail
    | exact FinalWrite.writeFail _ _ rfl
    | (apply FinalWrite.readN; intro _; try dsimp only)
    | (apply FinalWrite.readUntilNul; intro _; try dsimp only)
    | split))

theorem readVersion_quiet : FinalWrite none readVersion := by
  unfold readVersion readU8; final_write

theorem readAuthMethods_quiet : FinalWrite none readAuthMethods := by
  unfold readAuthMethods readU8; final_write

theorem readRequest4_quiet : FinalWrite none readRequest4 := by
  unfold readRequest4 readU8 readU16 readU32; final_write

theorem readRequest5_finalWrite : FinalWrite (some atypUnsupReply) readRequest5 := by
  unfold readRequest5 readAddress5 readU8 readU16; final_write

/-- The version byte: there or not. -/
theorem readVersion_run (b : Bytes) (eof : Bool) :
    readVersion.run b eof 0 [] =
      match b with
      | [] => if eof then .error (.eof .version) [] else .needMore
      | v :: _ => .done v 1 [] := by
  cases b with
  | nil => simp [readVersion, readU8, Script.run, splitAtN]
  | cons v rest => simp [readVersion, run_readU8_cons, Script.run]

/-! ### Views of a trace -/

@[simp] theorem writes_append (a b : List Event) : writes (a ++ b) = writes a ++ writes b := by
  simp [writes]

@[simp] theorem written_append (a b : List Event) : written (a ++ b) = written a ++ written b := by
  simp [written]

@[simp] theorem requests_append (a b : List Event) :
    requests (a ++ b) = requests a ++ requests b := by
  simp [requests]

@[simp] theorem relays_append (a b : List Event) : relays (a ++ b) = relays a ++ relays b := by
  simp [relays]

@[simp] theorem wroteIf_nil : wroteIf [] = [] := rfl

/-! ### Session scripts: what has happened on a prefix of the input stays -/

/-- The outcome on a longer input of a run that had already ended on the shorter one: the same,
    except that a bridge receives what came later, too. -/
def extend (o : Outcome) (q : Bytes) : Outcome :=
  match o.result with
  | .bridge => { o with leftover := o.leftover ++ q }
  | _ => o

/-- What had happened before a script runs is still there after it, in the same order. -/
theorem run_trace_prefix (S : Sess) (inp : Bytes) (e : Bool) (c : Nat) (tr : List Event) :
    tr <+: (S.run inp e c tr).trace ∧ c ≤ (S.run inp e c tr).consumed := by
  induction S generalizing inp c tr with
  | ret r =>
    cases r with
    | ok u => cases u; simp [Sess.run]
    | error err => simp [Sess.run]
  | emit ev k ih =>
    simp only [Sess.run]
    obtain ⟨h1, h2⟩ := ih inp c (tr ++ [ev])
    exact ⟨(List.prefix_append tr [ev]).trans h1, h2⟩
  | read s k ih =>
    simp only [Sess.run]
    cases hs : s.run inp e 0 [] with
    | needMore => simp
    | error err w => simp
    | done a n w =>
      simp only
      obtain ⟨h1, h2⟩ := ih a (inp.drop n) (c + n) (tr ++ wroteIf w)
      exact ⟨(List.prefix_append tr _).trans h1, by omega⟩
  | readIgnored k ih =>
    simp only [Sess.run]
    cases inp with
    | nil =>
      cases e
      · simp
      · simpa using ih [] c tr
    | cons x rest =>
      simp only
      obtain ⟨h1, h2⟩ := ih rest (c + 1) tr
      exact ⟨h1, by omega⟩
  | bridge => simp [Sess.run]

/-- A run that has ended on `p` (the stream still open) — returned, or entered the bridge — is not
    changed by what the client sends afterwards, nor by its closing the stream. -/
theorem run_stable (S : Sess) (p q : Bytes) (e : Bool) (c : Nat) (tr : List Event)
    (h : (S.run p false c tr).result ≠ .needMore) :
    S.run (p ++ q) e c tr = extend (S.run p false c tr) q := by
  induction S generalizing p c tr with
  | ret r =>
    cases r with
    | ok u => cases u; simp [Sess.run, extend]
    | error err => simp [Sess.run, extend]
  | emit ev k ih =>
    simp only [Sess.run] at h ⊢
    exact ih p c _ h
  | read s k ih =>
    simp only [Sess.run] at h ⊢
    cases hs : s.run p false 0 [] with
    | needMore => rw [hs] at h; simp at h
    | error err w =>
      rw [run_error_append s p q e 0 [] err w hs]
      simp [extend]
    | done a n w =>
      rw [hs] at h
      simp only at h
      rw [run_done_append s p q false e 0 [] a n w hs]
      have hn := (run_done_consumed s p false 0 [] a n w hs).2
      simp only
      rw [List.drop_append_of_le_length (by omega)]
      exact ih a (p.drop n) (c + n) _ h
  | readIgnored k ih =>
    simp only [Sess.run] at h ⊢
    cases p with
    | nil => simp at h
    | cons x rest =>
      simp only [List.cons_append] at h ⊢
      exact ih rest (c + 1) tr h
  | bridge => simp [Sess.run, extend]

/-- Whatever a run has done on `p` with the stream open, a run on `p ++ q` does first. -/
theorem run_mono (S : Sess) (p q : Bytes) (e : Bool) (c : Nat) (tr : List Event) :
    (S.run p false c tr).trace <+: (S.run (p ++ q) e c tr).trace ∧
      (S.run p false c tr).consumed ≤ (S.run (p ++ q) e c tr).consumed := by
  induction S generalizing p c tr with
  | ret r =>
    cases r with
    | ok u => cases u; simp [Sess.run]
    | error err => simp [Sess.run]
  | emit ev k ih =>
    simp only [Sess.run]
    exact ih p c _
  | read s k ih =>
    simp only [Sess.run]
    cases hs : s.run p false 0 [] with
    | needMore =>
      have := run_trace_prefix (.read s k) (p ++ q) e c tr
      simpa only [Sess.run] using this
    | error err w =>
      rw [run_error_append s p q e 0 [] err w hs]
      simp
    | done a n w =>
      rw [run_done_append s p q false e 0 [] a n w hs]
      have hn := (run_done_consumed s p false 0 [] a n w hs).2
      simp only
      rw [List.drop_append_of_le_length (by omega)]
      exact ih a (p.drop n) (c + n) _
  | readIgnored k ih =>
    cases p with
    | nil =>
      have := run_trace_prefix (.readIgnored k) q e c tr
      simpa [Sess.run] using this
    | cons x rest =>
      simp only [Sess.run, List.cons_append]
      exact ih rest (c + 1) tr
  | bridge => simp [Sess.run]


/-! ### Stepping through the handler -/

open Penguin.Spec

theorem read_run_done {α : Type} (s : Script α) (k : α → Sess) (inp : Bytes) (eof : Bool) (c : Nat)
    (tr : List Event) (a : α) (n : Nat) (h : s.run inp eof 0 [] = .done a n []) :
    (Sess.read s k).run inp eof c tr = (k a).run (inp.drop n) eof (c + n) tr := by
  simp [Sess.run, h]

theorem session_nil (eof : Bool) (env : Env) :
    session ⟨[], eof⟩ env
      = ⟨[], 0, [], if eof then .err (.socks (.reader (.eof .version))) else .needMore⟩ := by
  cases eof <;> simp [session, onSocksAccept, Sess.run, readVersion_run]

theorem session_cons (v : UInt8) (rest : Bytes) (eof : Bool) (env : Env) :
    session ⟨v :: rest, eof⟩ env
      = if v = 4 then (socks4 env).run rest eof 1 []
        else if v = 5 then (socks5 env).run rest eof 1 []
        else ⟨[], 1, [], .err (.socks (.reader (.version v)))⟩ := by
  have e4 : (v.toNat = socksVer4) = (v = 4) := by
    simp only [socksVer4, ← UInt8.toNat_inj]; rfl
  have e5 : (v.toNat = socksVer5) = (v = 5) := by
    simp only [socksVer5, ← UInt8.toNat_inj]; rfl
  simp only [session, onSocksAccept, Sess.run, readVersion_run, e4, e5, wroteIf_nil, List.append_nil,
    List.drop_succ_cons, List.drop_zero, Nat.zero_add]
  split
  · rfl
  · split <;> simp [Sess.run]

/-- `read_request` of SOCKS5 on a request whose reserved byte is anything. -/
theorem read5_wellformed_rsv (r : Rfc1928.Request) (h : r.wf) (rsv : UInt8) (rest : Bytes)
    (eof : Bool) :
    read5 (requestRsv r rsv ++ rest) eof
      = .done ⟨r.cmd, hostOf r.addr, r.port⟩ (requestRsv r rsv).length [] := by
  obtain ⟨cmd, addr, port⟩ := r
  obtain ⟨ha, hp⟩ := h
  simp only at ha hp
  cases addr with
  | ipv4 a b c d =>
    simp [read5, readRequest5, readAddress5, requestRsv, Rfc1928.addrBytes, be16,
      run_readU8_cons, run_readU16_cons, run_readN4_cons, Script.run, hostOf, rd16_be16 port hp,
      socksVer5, socksAtypIpv4]
  | domain n =>
    simp only [Rfc1928.Addr.wf] at ha
    have hm : n.length % 256 = n.length := by omega
    simp [read5, readRequest5, readAddress5, requestRsv, Rfc1928.addrBytes, be16,
      run_readU8_cons, run_readU16_cons, run_readN_append (a := n) rfl, Script.run, hostOf,
      rd16_be16 port hp, socksVer5, socksAtypIpv4, socksAtypDomain, hm]
    omega
  | ipv6 o =>
    simp only [Rfc1928.Addr.wf] at ha
    simp [read5, readRequest5, readAddress5, requestRsv, Rfc1928.addrBytes, be16,
      run_readU8_cons, run_readU16_cons, run_readN_append ha, Script.run, hostOf, rd16_be16 port hp,
      socksVer5, socksAtypIpv4, socksAtypDomain, socksAtypIpv6]
    omega

/-- Whatever `read_auth_methods` accepts is a method list of the announced length. -/
theorem readMethods_done_wellformed (inp : Bytes) (eof : Bool) (ms : Bytes) (n : Nat) (w : Bytes)
    (h : readMethods inp eof = .done ms n w) :
    w = [] ∧ ms.length ≤ 255 ∧ n = ms.length + 1 ∧
      ∃ rest, inp = (Rfc1928.greeting ms).drop 1 ++ rest := by
  unfold readMethods readAuthMethods at h
  obtain ⟨l, r1, e1, h1⟩ := run_readU8_done h
  obtain ⟨x, r2, hx, e2, h2⟩ := run_readN_done h1
  simp only [Script.run, Result.done.injEq] at h2
  obtain ⟨rfl, rfl, rfl⟩ := h2
  have hl := l.toNat_lt
  have hxl : UInt8.ofNat x.length = l := by rw [hx]; simp
  subst e1 e2
  refine ⟨rfl, by omega, by omega, r2, ?_⟩
  simp [Rfc1928.greeting, hxl]

/-- The session after a SOCKS5 greeting. -/
theorem session_greeting (ms : Bytes) (hl : ms.length ≤ 255) (X : Bytes) (eof : Bool) (env : Env) :
    session ⟨Rfc1928.greeting ms ++ X, eof⟩ env
      = if 0 ∈ ms then
          (socks5Request env).run X eof (Rfc1928.greeting ms).length
            [.wrote (Rfc1928.methodSelection 0x00)]
        else ⟨[.wrote (Rfc1928.methodSelection 0xFF)], (Rfc1928.greeting ms).length, [],
              .err .otherAuth⟩ := by
  have hw := C18.authMethods_wellformed ms hl X eof
  simp only [readMethods, Rfc1928.greeting, List.drop_succ_cons, List.drop_zero, List.length_cons] at hw
  have hd : List.drop (ms.length + 1) (UInt8.ofNat ms.length :: (ms ++ X)) = X := by
    simp
  simp only [Rfc1928.greeting, List.cons_append, session_cons]
  simp only [socks5, Sess.run]
  simp only [List.cons_append] at hw
  simp only [show ((5 : UInt8) = 4) = False by decide, if_false, if_true]
  rw [hw]
  simp only [Nat.add_sub_cancel, hd, wroteIf_nil, List.append_nil]
  by_cases h0 : (0 : UInt8) ∈ ms
  · have hc : ms.contains (u8 socksAuthNoauth) = true := by
      simpa [u8, socksAuthNoauth] using h0
    simp [h0, Sess.run, writeAuthMethod, Rfc1928.methodSelection, u8, socksVer5,
      socksAuthNoauth, Nat.add_comm]
  · have hc : ms.contains (u8 socksAuthNoauth) = false := by
      simpa [u8, socksAuthNoauth] using h0
    simp [h0, Sess.run, writeAuthMethod, Rfc1928.methodSelection, u8, socksVer5,
      socksAuthNoaccept, socksAuthNoauth, Nat.add_comm]

/-- … and after a well-formed SOCKS5 request: the dispatch on its command. -/
theorem socks5Request_run (r : Rfc1928.Request) (hr : r.wf) (rsv : UInt8) (X : Bytes) (eof : Bool)
    (env : Env) (c : Nat) (tr : List Event) :
    (socks5Request env).run (requestRsv r rsv ++ X) eof c tr
      = (dispatch5 env ⟨r.cmd, hostOf r.addr, r.port⟩).run X eof
          (c + (requestRsv r rsv).length) tr := by
  have hw := read5_wellformed_rsv r hr rsv X eof
  unfold read5 at hw
  rw [socks5Request, read_run_done _ _ _ _ _ _ _ _ hw]
  simp

/-- The session on a SOCKS5 greeting offering NOAUTH and a well-formed request. -/
theorem session_request5 (ms : Bytes) (hl : ms.length ≤ 255) (h0 : (0 : UInt8) ∈ ms)
    (r : Rfc1928.Request) (hr : r.wf) (rsv : UInt8) (Y : Bytes) (eof : Bool) (env : Env) :
    session ⟨Rfc1928.greeting ms ++ requestRsv r rsv ++ Y, eof⟩ env
      = (dispatch5 env ⟨r.cmd, hostOf r.addr, r.port⟩).run Y eof
          ((Rfc1928.greeting ms).length + (requestRsv r rsv).length)
          [.wrote (Rfc1928.methodSelection 0x00)] := by
  rw [List.append_assoc, session_greeting ms hl, if_pos h0, socks5Request_run r hr]

theorem socks4_run_request4 (r : Socks4a.Request4) (hr : r.wf) (X : Bytes) (eof : Bool)
    (env : Env) :
    session ⟨Socks4a.request4 r ++ X, eof⟩ env
      = (dispatch4 env ⟨r.cmd, ⟨.ipv4, [r.a, r.b, r.c, r.d]⟩, r.port⟩).run X eof
          (Socks4a.request4 r).length [] := by
  have hw := C18.read4_wellformed r hr X eof
  unfold read4 at hw
  have hs : Socks4a.request4 r ++ X = 4 :: ((Socks4a.request4 r).drop 1 ++ X) := by
    simp [Socks4a.request4]
  have hlen : 1 ≤ (Socks4a.request4 r).length := by simp [Socks4a.request4]
  rw [hs, session_cons]
  simp only [if_true]
  rw [socks4, read_run_done _ _ _ _ _ _ _ _ hw]
  have : List.drop ((Socks4a.request4 r).length - 1) (List.drop 1 (Socks4a.request4 r) ++ X) = X := by
    rw [List.drop_append_of_le_length (by simp)]
    simp
    omega
  rw [this]
  congr 1
  omega

theorem socks4_run_request4a (r : Socks4a.Request4a) (hr : r.wf) (X : Bytes) (eof : Bool)
    (env : Env) :
    session ⟨Socks4a.request4a r ++ X, eof⟩ env
      = (dispatch4 env ⟨r.cmd, ⟨.domain, r.domain⟩, r.port⟩).run X eof
          (Socks4a.request4a r).length [] := by
  have hw := C18.read4a_wellformed r hr X eof
  unfold read4 at hw
  have hs : Socks4a.request4a r ++ X = 4 :: ((Socks4a.request4a r).drop 1 ++ X) := by
    simp [Socks4a.request4a]
  have hlen : 1 ≤ (Socks4a.request4a r).length := by simp [Socks4a.request4a]
  rw [hs, session_cons]
  simp only [if_true]
  rw [socks4, read_run_done _ _ _ _ _ _ _ _ hw]
  have : List.drop ((Socks4a.request4a r).length - 1) (List.drop 1 (Socks4a.request4a r) ++ X) = X := by
    rw [List.drop_append_of_le_length (by simp)]
    simp
    omega
  rw [this]
  congr 1
  omega


/-! ### The dispatch on the command, in closed form -/

@[simp] theorem requests_wroteIf (w : Bytes) : requests (wroteIf w) = [] := by
  unfold wroteIf; split <;> simp [requests]

@[simp] theorem relays_wroteIf (w : Bytes) : relays (wroteIf w) = [] := by
  unfold wroteIf; split <;> simp [relays]

@[simp] theorem written_wroteIf (w : Bytes) : written (wroteIf w) = w := by
  unfold wroteIf; split <;> simp_all [written, writes]

theorem cmd_connect_iff (c : UInt8) : (c.toNat = socksCmdConnect) = (c = 1) := by
  simp only [socksCmdConnect, ← UInt8.toNat_inj]; rfl

theorem cmd_assoc_iff (c : UInt8) : (c.toNat = socksCmdAssoc) = (c = 3) := by
  simp only [socksCmdAssoc, ← UInt8.toNat_inj]; rfl

/-- `handle_connect` behind `reserve()`, whatever the environment answers. -/
def connectRun (env : Env) (host : Host) (port : Nat) (okReply : Bytes) (X : Bytes) (c : Nat)
    (tr : List Event) : Outcome :=
  if env.reserveOk = false then ⟨tr, c, [], .err .fatalRequestStream⟩
  else if env.streamOk = false then
    ⟨tr ++ [.reserved, .requested host port], c, [], .err .fatalMainLoopExit⟩
  else ⟨tr ++ [.reserved, .requested host port, .gotStream, .wrote okReply], c, X, .bridge⟩

theorem dispatch4_run (env : Env) (q : Req) (X : Bytes) (eof : Bool) (c : Nat) (tr : List Event) :
    (dispatch4 env q).run X eof c tr =
      if q.cmd = 1 then connectRun env q.host q.port (Socks4a.reply4 90) X c tr
      else ⟨tr ++ [.wrote (Socks4a.reply4 91)], c, [], .err (.socks (.invalidCommand q.cmd))⟩ := by
  obtain ⟨ro, so, u⟩ := env
  simp only [dispatch4, cmd_connect_iff]
  by_cases hc : q.cmd = 1
  · cases ro <;> cases so <;>
      simp [hc, reserveThen, handleConnect, connectRun, Sess.run, writeResponse4, Socks4a.reply4, u8,
        socksVerRep4, socksRepV4Succ]
  · simp [hc, Sess.run, writeResponse4, Socks4a.reply4, u8, socksVerRep4, socksRepV4Fail]

/-- `handle_associate`, whatever the environment answers and the client does next. -/
def assocRun (env : Env) (X : Bytes) (eof : Bool) (c : Nat) (tr : List Event) : Outcome :=
  match env.udp with
  | .bindFails =>
    ⟨tr ++ [.wrote (Rfc1928.reply 0x01 (.ipv4 0 0 0 0) 0)], c, [], .err (.socks .bindUdp)⟩
  | .localAddrFails =>
    ⟨tr ++ [.wrote (Rfc1928.reply 0x01 (.ipv4 0 0 0 0) 0)], c, [], .err (.socks .udpLocalAddr)⟩
  | .bound a =>
    match X with
    | _ :: _ => ⟨tr ++ [.relayStarted a, .wrote (writeResponse5 0 a), .relayAborted], c + 1, [], .ok⟩
    | [] =>
      if eof then ⟨tr ++ [.relayStarted a, .wrote (writeResponse5 0 a), .relayAborted], c, [], .ok⟩
      else ⟨tr ++ [.relayStarted a, .wrote (writeResponse5 0 a)], c, [], .needMore⟩

theorem dispatch5_run (env : Env) (q : Req) (X : Bytes) (eof : Bool) (c : Nat) (tr : List Event) :
    (dispatch5 env q).run X eof c tr =
      if q.cmd = 1 then connectRun env q.host q.port (Rfc1928.reply 0x00 (.ipv4 0 0 0 0) 0) X c tr
      else if q.cmd = 3 then assocRun env X eof c tr
      else ⟨tr ++ [.wrote (Rfc1928.reply 0x07 (.ipv4 0 0 0 0) 0)], c, [],
            .err (.socks (.invalidCommand q.cmd))⟩ := by
  obtain ⟨ro, so, u⟩ := env
  simp only [dispatch5, cmd_connect_iff, cmd_assoc_iff]
  by_cases hc : q.cmd = 1
  · cases ro <;> cases so <;>
      simp [hc, reserveThen, handleConnect, connectRun, Sess.run, C18.writeResponseUnspecified_eq_rfc,
        u8, socksRepSucc]
  · by_cases ha : q.cmd = 3
    · simp only [ha, if_true, handleAssociate, assocRun]
      cases u with
      | bindFails => simp [Sess.run, C18.writeResponseUnspecified_eq_rfc, u8, socksRepGenfail]
      | localAddrFails => simp [Sess.run, C18.writeResponseUnspecified_eq_rfc, u8, socksRepGenfail]
      | bound a =>
        cases X with
        | nil => cases eof <;> simp [Sess.run, u8, socksRepSucc]
        | cons x rest => simp [Sess.run, u8, socksRepSucc]
    · simp [hc, ha, Sess.run, C18.writeResponseUnspecified_eq_rfc, u8, socksRepCmdunsup]


/-! ### Every input falls into one of nine shapes -/

/-- A reader did not complete: the handler waits, or returns the reader's error. -/
def Short (res : Res) : Prop := res = .needMore ∨ ∃ e, res = .err (.socks (.reader e))

/-- How far the client's bytes `b` get the handler: the case analysis all the "for every input"
    statements are made of. -/
inductive Shape (b : Bytes) (eof : Bool) (env : Env) : Prop where
  | empty (hb : b = [])
  | badVersion (v : UInt8) (rest : Bytes) (hb : b = v :: rest) (h4 : v ≠ 4) (h5 : v ≠ 5)
  /-- SOCKS4, the request is not complete (or not terminated) -/
  | short4 (rest : Bytes) (hb : b = 4 :: rest) (res : Res) (hres : Short res)
      (hs : session ⟨b, eof⟩ env = ⟨[], 1, [], res⟩)
  | req4 (r : Socks4a.Request4) (X : Bytes) (hr : r.wf) (hb : b = Socks4a.request4 r ++ X)
  | req4a (r : Socks4a.Request4a) (X : Bytes) (hr : r.wf) (hb : b = Socks4a.request4a r ++ X)
  /-- SOCKS5, the method list is not complete -/
  | shortMethods (rest : Bytes) (hb : b = 5 :: rest) (res : Res) (hres : Short res)
      (hs : session ⟨b, eof⟩ env = ⟨[], 1, [], res⟩)
  | noNoauth (ms X : Bytes) (hl : ms.length ≤ 255) (h0 : (0 : UInt8) ∉ ms)
      (hb : b = Rfc1928.greeting ms ++ X)
  /-- SOCKS5, NOAUTH selected, the request is not complete or is refused by `read_request` -/
  | shortRequest (ms X : Bytes) (hl : ms.length ≤ 255) (h0 : (0 : UInt8) ∈ ms)
      (hb : b = Rfc1928.greeting ms ++ X) (w : Bytes) (hw : w = [] ∨ w = atypUnsupReply)
      (res : Res) (hres : Short res)
      (hs : session ⟨b, eof⟩ env
        = ⟨.wrote (Rfc1928.methodSelection 0x00) :: wroteIf w, (Rfc1928.greeting ms).length, [], res⟩)
  | req5 (ms : Bytes) (r : Rfc1928.Request) (rsv : UInt8) (Y : Bytes) (hl : ms.length ≤ 255)
      (h0 : (0 : UInt8) ∈ ms) (hr : r.wf)
      (hb : b = Rfc1928.greeting ms ++ requestRsv r rsv ++ Y)

theorem shape (b : Bytes) (eof : Bool) (env : Env) : Shape b eof env := by
  cases b with
  | nil => exact .empty rfl
  | cons v rest =>
    by_cases h4 : v = 4
    · subst h4
      cases hs : readRequest4.run rest eof 0 [] with
      | needMore =>
        refine .short4 rest rfl .needMore (Or.inl rfl) ?_
        simp [session_cons, socks4, Sess.run, hs]
      | error e w =>
        have hw : w = [] := by
          rcases readRequest4_quiet.run_error _ _ _ _ _ _ hs with h | ⟨bs, hb, _⟩
          · exact h
          · cases hb
        subst hw
        refine .short4 rest rfl (.err (.socks (.reader e))) (Or.inr ⟨e, rfl⟩) ?_
        simp [session_cons, socks4, Sess.run, hs]
      | done q n w =>
        obtain ⟨_, rest', h⟩ := C18.read4_done_wellformed rest eof q n w hs
        rcases h with ⟨r, hr, _, hb, _⟩ | ⟨r, hr, _, hb, _⟩
        · exact .req4 r rest' hr (by rw [hb]; simp [Socks4a.request4])
        · exact .req4a r rest' hr (by rw [hb]; simp [Socks4a.request4a])
    · by_cases h5 : v = 5
      · subst h5
        cases hs : readAuthMethods.run rest eof 0 [] with
        | needMore =>
          refine .shortMethods rest rfl .needMore (Or.inl rfl) ?_
          simp [session_cons, socks5, Sess.run, hs]
        | error e w =>
          have hw : w = [] := by
            rcases readAuthMethods_quiet.run_error _ _ _ _ _ _ hs with h | ⟨bs, hb, _⟩
            · exact h
            · cases hb
          subst hw
          refine .shortMethods rest rfl (.err (.socks (.reader e))) (Or.inr ⟨e, rfl⟩) ?_
          simp [session_cons, socks5, Sess.run, hs]
        | done ms n w =>
          obtain ⟨_, hl, _, X, hb⟩ := readMethods_done_wellformed rest eof ms n w hs
          have hb' : (5 : UInt8) :: rest = Rfc1928.greeting ms ++ X := by
            rw [hb]; simp [Rfc1928.greeting]
          by_cases h0 : (0 : UInt8) ∈ ms
          · cases hq : readRequest5.run X eof 0 [] with
            | needMore =>
              refine .shortRequest ms X hl h0 hb' [] (Or.inl rfl) .needMore (Or.inl rfl) ?_
              rw [hb', session_greeting ms hl, if_pos h0]
              simp [socks5Request, Sess.run, hq]
            | error e w =>
              have hw : w = [] ∨ w = atypUnsupReply := by
                rcases readRequest5_finalWrite.run_error _ _ _ _ _ _ hq with h | ⟨bs, hb, h⟩
                · exact Or.inl h
                · cases hb; exact Or.inr (by simpa using h)
              refine .shortRequest ms X hl h0 hb' w hw (.err (.socks (.reader e))) (Or.inr ⟨e, rfl⟩) ?_
              rw [hb', session_greeting ms hl, if_pos h0]
              simp [socks5Request, Sess.run, hq]
            | done q n' w' =>
              obtain ⟨_, r, rsv, Y, hr, _, hX, _⟩ := C18.read5_done_wellformed X eof q n' w' hq
              exact .req5 ms r rsv Y hl h0 hr (by rw [hb', hX, List.append_assoc])
          · exact .noNoauth ms X hl h0 hb'
      · exact .badVersion v rest rfl h4 h5


/-! ### Views of the closed forms -/

theorem connectRun_requests (env : Env) (h : Host) (p : Nat) (ok X : Bytes) (c : Nat)
    (tr : List Event) :
    (connectRun env h p ok X c tr).requests
      = requests tr ++ (if env.reserveOk = true then [(h, p)] else []) := by
  obtain ⟨ro, so, u⟩ := env
  cases ro <;> cases so <;> simp [connectRun, Outcome.requests, requests]

theorem connectRun_written (env : Env) (h : Host) (p : Nat) (ok X : Bytes) (c : Nat)
    (tr : List Event) :
    (connectRun env h p ok X c tr).written
      = written tr ++ (if env.reserveOk = true ∧ env.streamOk = true then ok else []) := by
  obtain ⟨ro, so, u⟩ := env
  cases ro <;> cases so <;> simp [connectRun, Outcome.written, written, writes]

theorem connectRun_beforeRequest (env : Env) (h : Host) (p : Nat) (ok X : Bytes) (c : Nat)
    (tr : List Event) (htr : requests tr = []) (hres : env.reserveOk = true) :
    written (beforeRequest (connectRun env h p ok X c tr).trace) = written tr := by
  have hb : ∀ (t rest : List Event), requests t = [] →
      beforeRequest (t ++ .requested h p :: rest) = t := by
    intro t rest ht
    induction t with
    | nil => simp [beforeRequest]
    | cons e t ih =>
      cases e <;> simp_all [beforeRequest, requests]
  obtain ⟨ro, so, u⟩ := env
  simp only at hres
  subst hres
  cases so
  · have := hb (tr ++ [.reserved]) [] (by rw [requests_append, htr]; simp [requests])
    simp only [List.append_assoc, List.cons_append, List.nil_append] at this
    simp [connectRun, this, written, writes]
  · have := hb (tr ++ [.reserved]) [.gotStream, .wrote ok] (by rw [requests_append, htr]; simp [requests])
    simp only [List.append_assoc, List.cons_append, List.nil_append] at this
    simp [connectRun, this, written, writes]

theorem assocRun_requests (env : Env) (X : Bytes) (eof : Bool) (c : Nat) (tr : List Event) :
    (assocRun env X eof c tr).requests = requests tr := by
  unfold assocRun
  cases env.udp with
  | bindFails => simp [Outcome.requests, requests]
  | localAddrFails => simp [Outcome.requests, requests]
  | bound a =>
    cases X with
    | nil => cases eof <;> simp [Outcome.requests, requests]
    | cons x r => simp [Outcome.requests, requests]

/-- What `handle_associate` writes: the general-failure reply, or the reply with the bound address. -/
theorem assocRun_written (env : Env) (X : Bytes) (eof : Bool) (c : Nat) (tr : List Event) :
    ∃ x, (assocRun env X eof c tr).written = written tr ++ x ∧
      (x = Rfc1928.reply 0x01 (.ipv4 0 0 0 0) 0 ∨ ∃ a, env.udp = .bound a ∧ x = writeResponse5 0 a) := by
  unfold assocRun
  cases hu : env.udp with
  | bindFails => exact ⟨_, by simp [Outcome.written, written, writes], Or.inl rfl⟩
  | localAddrFails => exact ⟨_, by simp [Outcome.written, written, writes], Or.inl rfl⟩
  | bound a =>
    refine ⟨writeResponse5 0 a, ?_, Or.inr ⟨a, rfl, rfl⟩⟩
    cases X with
    | nil => cases eof <;> simp [Outcome.written, written, writes]
    | cons x r => simp [Outcome.written, written, writes]

/-- A strict prefix of a well-formed SOCKS5 request (any reserved byte): wait, or unexpected EOF. -/
theorem read5_prefix_rsv (r : Rfc1928.Request) (h : r.wf) (rsv : UInt8) (p q : Bytes)
    (hpq : requestRsv r rsv = p ++ q) (hq : q ≠ []) :
    read5 p false = .needMore ∧ ∃ ctx, read5 p true = .error (.eof ctx) [] := by
  have hw := read5_wellformed_rsv r h rsv [] false
  rw [List.append_nil, hpq] at hw
  have hql : 0 < q.length := List.length_pos_iff.mpr hq
  obtain ⟨h1, ctx, w, h2, h3⟩ := run_prefix readRequest5 p q false 0 [] _ _ _ hw (by simp; omega)
  have hw0 : w = [] := List.eq_nil_of_length_eq_zero (by simpa using h3)
  subst hw0
  exact ⟨h1, ctx, h2⟩

end Penguin.Lemmas.SocksSession
