/-
`BSim` (see `Lemmas/BindAllView.lean`) for the APPLICATION CALLS of the endpoint model: every stimulus except
a delivery (`write`, `read`, `shutdown`, `dropStream`, `accept`, the datagram and bind calls, `dropMux`,
`sinkRoom`, `cancelOpen`, `open`).  An application call never touches the inbox: the inbox `l` is arbitrary
and stays; nothing is handed to the transport; the bind events are those of the call and of its result
(`callEvs`) and the `bindDone` events it emits (`doneEvs`).
Core Lean only.
-/
import Penguin.Lemmas.BindAllSimBase

namespace Penguin.BindAll
open Penguin.Mux
open Penguin.PairAll (wireMsgs isCall)

/-! ### Drawing an id -/

theorem drawScript_suffix (flows : List (Nat × Slot)) (s : List Nat) (k : Nat) (rest : List Nat)
    (h : drawScript flows s = some (k, rest)) : (k :: rest) <:+ s := by
  induction s with
  | nil => simp [drawScript] at h
  | cons a r ih =>
    unfold drawScript at h
    split at h
    · simp only [Option.some.injEq, Prod.mk.injEq] at h
      obtain ⟨rfl, rfl⟩ := h
      exact List.suffix_refl _
    · exact (ih h).trans (List.suffix_cons a r)

/-- The id drawn comes from the script, which is consumed up to it — or the script is exhausted. -/
theorem drawId_suffix (flows : List (Nat × Slot)) (s : List Nat) (fb fuel k : Nat) (rest : List Nat) (fb' : Nat)
    (h : drawId flows s fb fuel = some (k, rest, fb')) : ((k :: rest) <:+ s ∨ rest = []) ∧ rest <:+ s := by
  unfold drawId at h
  split at h
  · rename_i k' rest' hs
    simp only [Option.some.injEq, Prod.mk.injEq] at h
    obtain ⟨rfl, rfl, rfl⟩ := h
    have := drawScript_suffix flows s _ _ hs
    exact ⟨Or.inl this, (List.suffix_cons _ _).trans this⟩
  · simp only [Option.map_eq_some_iff] at h
    obtain ⟨r, _, hr⟩ := h
    simp only [Prod.mk.injEq] at hr
    obtain ⟨_, rfl, _⟩ := hr
    exact ⟨Or.inr rfl, List.nil_suffix⟩

/-- Script values are consumed (an id was drawn, and given back because the outbound queue is closed). -/
theorem BSim.rng {l : List WsIn} (e : EP) (rng' : List Nat) (fb' : Nat) (h : rng' <:+ e.rng) :
    BSim l e l { e with rng := rng', fallback := fb' } [] [] :=
  BSim.shrink { Shrinks.refl (bview e l) with rng := h } rfl

/-- One round of `new_stream_channel` (private copy of `BSim.openRound`, see `Lemmas/BindAllSimFrame.lean`). -/
theorem BSim.openRound' {l : List WsIn} (e : EP) (r : OpenReq) :
    BSim l e l (openRound e r).1 (openRound e r).2 [] := by
  unfold Mux.openRound
  split
  · bsim_same
  · split
    · bsim_same
    · rename_i fid rng' fb' hd
      obtain ⟨hs1, hs2⟩ := drawId_suffix _ _ _ _ _ _ _ hd
      obtain ⟨_, hfree⟩ := drawId_spec _ _ _ _ _ _ _ hd
      simp only
      split
      · exact BSim.shrink { Shrinks.refl (bview e l) with rng := hs2 } rfl
      · rename_i hoc
        have hoc' : e.outClosed = false := by simpa using hoc
        refine BSim.one (BStep.drawOpen (bview e l) fid r.req rng' e.opts.rwnd r.port r.host hs1
          (not_mem_of_lookup_none hfree) hoc') ?_ rfl
        simp [bview, EP.enqFrame, EP.enq, hoc']

theorem openRound_doneEvs (e : EP) (r : OpenReq) : doneEvs (openRound e r).2 = [] := by
  unfold Mux.openRound
  split
  · rfl
  · split
    · rfl
    · simp only
      split <;> rfl

/-! ### Queuing a `Push` / `Finish` / `Acknowledge` for the flow of an existing stream object -/

theorem fid_mem_fids {l : List WsIn} (e : EP) (i : Nat) (o : Obj) (ho : e.objs[i]? = some o) :
    o.fid ∈ (bview e l).fids :=
  List.mem_map.mpr ⟨o, List.mem_of_getElem? ho, rfl⟩

/-- An object update that keeps the id, then a frame that is fine for an id carried by a stream object. -/
theorem BSim.enqObj {l : List WsIn} (e : EP) (i : Nat) (g : Obj → Obj) (hg : ∀ o, (g o).fid = o.fid) (y : Nat)
    (hy : y ∈ (bview e l).fids) (f : Frame) (hf : ∀ v : BV, y ∈ v.fids → OkEnq v (.frame f)) :
    BSim l e l ((e.modObj i g).enqFrame f) [] [] :=
  (BSim.modObj e i g hg).tr0 (BSim.enqFrame _ f (hf _ (by rw [bview_modObj e l i g hg]; exact hy)))

/-! ### The stream calls -/

theorem BSim.appWrite {l : List WsIn} (e : EP) (h : Nat) (d : Bytes) : BSim l e l (appWrite e h d).1 [] [] := by
  unfold Mux.appWrite
  cases hh : e.handleObj h with
  | none => exact BSim.refl l e
  | some p =>
    obtain ⟨i, o⟩ := p
    have ho := handleObj_some hh
    simp only
    split
    · exact BSim.modObj e _ _ (by bsim_fid)
    · split
      · exact BSim.modObj e _ _ (by bsim_fid)
      · split
        · exact BSim.modObj e _ _ (by bsim_fid)
        · split
          · exact BSim.modObj e _ _ (by bsim_fid)
          · exact BSim.enqObj e i _ (by bsim_fid) o.fid (fid_mem_fids e i o ho) _ (fun _ h => h)

theorem BSim.ackStep {l : List WsIn} (e : EP) (i : Nat) (o : Obj) (ho : o.fid ∈ (bview e l).fids) :
    BSim l e l (ackStep e i o) [] [] := by
  unfold Mux.ackStep
  split
  · exact BSim.enqObj e i _ (by bsim_fid) o.fid ho _ (fun _ h => h)
  · exact BSim.modObj e _ _ (by bsim_fid)

theorem BSim.fillBuf {l : List WsIn} (fuel : Nat) (e : EP) (i : Nat) : BSim l e l (fillBuf fuel e i).1 [] [] := by
  induction fuel generalizing e with
  | zero => exact BSim.refl l e
  | succ n ih =>
    unfold Mux.fillBuf
    split
    · exact BSim.refl l e
    · rename_i o ho
      split
      · exact BSim.refl l e
      · split
        · rename_i f rest hq
          have s : BSim l e l
              (Mux.ackStep (e.modObj i (fun o => { o with rxq := rest, buf := f })) i { o with rxq := rest, buf := f }) [] [] :=
            (BSim.modObj e i (fun o => { o with rxq := rest, buf := f }) (by bsim_fid)).tr0
              (BSim.ackStep _ i { o with rxq := rest, buf := f }
                (by rw [bview_modObj e l i _ (by bsim_fid)]; exact fid_mem_fids e i o ho))
          simp only
          split
          · exact s.tr0 (ih _)
          · exact s
        · split
          · exact BSim.refl l e
          · exact BSim.modObj e _ _ (by bsim_fid)

theorem BSim.appRead {l : List WsIn} (e : EP) (h n : Nat) : BSim l e l (appRead e h n).1 [] [] := by
  unfold Mux.appRead
  split
  · exact BSim.refl l e
  · rename_i i o _
    have s := BSim.fillBuf (l := l) (o.rxq.length + 2) e i
    split
    · rename_i e' b heq
      rw [heq] at s
      exact s.tr0 (BSim.modObj e' _ _ (by bsim_fid))
    · exact s

theorem BSim.appShutdown {l : List WsIn} (e : EP) (h : Nat) : BSim l e l (appShutdown e h).1 [] [] := by
  unfold Mux.appShutdown
  cases hh : e.handleObj h with
  | none => exact BSim.refl l e
  | some p =>
    obtain ⟨i, o⟩ := p
    have ho := handleObj_some hh
    simp only
    split
    · exact BSim.modObj e _ _ (by bsim_fid)
    · exact BSim.enqObj e i _ (by bsim_fid) o.fid (fid_mem_fids e i o ho) _ (fun _ h => h)

/-- A dropped-handle notification for an id carried by a stream object (or the `0` of the `Multiplexor`). -/
theorem BSim.notify {l : List WsIn} (e : EP) (y : Nat) (hy : y = 0 ∨ y ∈ (bview e l).fids) :
    BSim l e l { e with droppedq := e.droppedq ++ [y] } [] [] := by
  refine BSim.shrink { Shrinks.refl (bview e l) with dq := ?_ } rfl
  intro z hz
  rcases List.mem_append.mp hz with h | h
  · exact Or.inr (Or.inl h)
  · have hz' : z = y := by simpa using h
    subst hz'
    rcases hy with h | h
    · exact Or.inl h
    · exact Or.inr (Or.inr h)

theorem BSim.appDropStream {l : List WsIn} (e : EP) (h : Nat) : BSim l e l (appDropStream e h).1 [] [] := by
  unfold Mux.appDropStream
  cases hh : e.handleObj h with
  | none => exact BSim.refl l e
  | some p =>
    obtain ⟨i, o⟩ := p
    have ho := handleObj_some hh
    have g := BSim.modObj (l := l) e i (fun o => { o with rxOpen := false, rxq := [], parked := false }) (by bsim_fid)
    simp only
    split
    · exact g
    · exact g.tr0 (BSim.notify _ o.fid (Or.inr (by rw [bview_modObj e l i _ (by bsim_fid)]; exact fid_mem_fids e i o ho)))

theorem BSim.appAccept {l : List WsIn} (e : EP) : BSim l e l (appAccept e).1 [] [] := by
  unfold Mux.appAccept
  split
  · split
    · bsim_same
    · exact BSim.refl l e
  · split <;> exact BSim.refl l e

/-! ### Datagrams -/

theorem BSim.appSendDgram {l : List WsIn} (e : EP) (d : Dgram) : BSim l e l (appSendDgram e d).1 [] [] := by
  unfold Mux.appSendDgram
  split
  · exact BSim.refl l e
  · split
    · exact BSim.refl l e
    · exact BSim.enqFrame _ _ trivial

theorem BSim.appRecvDgram {l : List WsIn} (e : EP) : BSim l e l (appRecvDgram e).1 [] [] := by
  unfold Mux.appRecvDgram
  split
  · bsim_same
  · split <;> exact BSim.refl l e

/-! ### Binds -/

/-- `request_bind`: Closed at once (no id, or the outbound queue is closed — then the id drawn is given back),
    or an id is drawn, its slot is `BindRequested`, the `Bind` is queued. -/
theorem BSim.appBindReq {l : List WsIn} (e : EP) (req : Nat) (bt : BindType) (host : Bytes) (port : Nat) (res : Res) :
    BSim l e l (appBindReq e req bt host port).1 (appBindReq e req bt host port).2
      (callEvs e (.bindReq req bt host port) res ++ doneEvs (appBindReq e req bt host port).2) := by
  cases hd : drawId e.flows e.rng e.fallback 64 with
  | none =>
    simp only [Mux.appBindReq, callEvs, hd]
    exact BSim.one (BStep.doneClosed (bview e l) req) rfl rfl
  | some p =>
    obtain ⟨fid, rng', fb'⟩ := p
    obtain ⟨hs1, hs2⟩ := drawId_suffix _ _ _ _ _ _ _ hd
    obtain ⟨_, hfree⟩ := drawId_spec _ _ _ _ _ _ _ hd
    simp only [Mux.appBindReq, callEvs, hd]
    cases hoc : e.outClosed with
    | true =>
      simp only [if_true]
      exact (BSim.rng e rng' fb' hs2).tr0
        (BSim.one (BStep.doneClosed (bview { e with rng := rng', fallback := fb' } l) req)
          (by simp [bview, hoc]) rfl)
    | false =>
      refine BSim.one (BStep.drawBind (bview e l) fid req bt host port rng' hs1 (not_mem_of_lookup_none hfree) hoc)
        ?_ rfl
      simp [bview, EP.enqFrame, EP.enq, hoc]

theorem BSim.appBindNext {l : List WsIn} (e : EP) :
    BSim l e l (appBindNext e).1 [] (callEvs e .bindNext (appBindNext e).2) := by
  unfold Mux.appBindNext
  split
  · exact BSim.refl l e
  · split
    · rename_i b rest hq
      exact BSim.one (BStep.bindNext (bview e l) b rest hq) rfl rfl
    · split <;> exact BSim.refl l e

theorem BSim.appBindReply {l : List WsIn} (e : EP) (k : Nat) (a : Bool) :
    BSim l e l (appBindReply e k a).1 [] (callEvs e (.bindReply k a) (appBindReply e k a).2) := by
  unfold Mux.appBindReply
  split
  · exact BSim.refl l e
  · rename_i b hk
    split
    · exact BSim.refl l e
    · rename_i hal
      have hal' : b.alive = true := by simpa using hal
      split
      · exact BSim.refl l e
      · rename_i hoc
        have hoc' : e.outClosed = false := by simpa using hoc
        refine BSim.one (BStep.reply (bview e l) k b a hk hal' hoc') ?_ rfl
        simp [bview, EP.enqFrame, EP.enq, hoc']

theorem BSim.appBindDrop {l : List WsIn} (e : EP) (k : Nat) :
    BSim l e l (appBindDrop e k).1 [] (callEvs e (.bindDrop k) (appBindDrop e k).2) := by
  unfold Mux.appBindDrop
  split
  · exact BSim.refl l e
  · rename_i b hk
    split
    · exact BSim.refl l e
    · refine BSim.one (BStep.dropReq (bview e l) k b hk) ?_ rfl
      cases hr : b.replied <;> cases hoc : e.outClosed <;> simp [bview, EP.enqFrame, EP.enq, hoc]

/-! ### Dropping the `Multiplexor` -/

theorem foldEnq_eq (bs : List BindIn) (e : EP) :
    bs.foldl (fun e b => e.enqFrame (.reset b.fid)) e =
      if e.outClosed then e else { e with outq := e.outq ++ bs.map (fun b => Msg.frame (.reset b.fid)) } := by
  induction bs generalizing e with
  | nil => simp
  | cons b rest ih =>
    rw [List.foldl_cons, ih]
    cases hoc : e.outClosed <;> simp [EP.enqFrame, EP.enq, hoc]

theorem BSim.appDropMux {l : List WsIn} (e : EP) :
    BSim l e l (appDropMux e).1 [] [.muxDropped] := by
  unfold Mux.appDropMux
  simp only
  have s1 : BSim l e l { e with droppedq := if e.dead then e.droppedq else e.droppedq ++ [0] } [] [] := by
    split
    · exact BSim.refl l e
    · exact BSim.notify e 0 (Or.inl rfl)
  refine s1.tr0 (BSim.one (BStep.dropMux _) ?_ rfl)
  rw [foldEnq_eq]
  cases hoc : e.outClosed <;> simp [bview]

/-! ### Every application call -/

/-- Every stimulus except a delivery: the bind view moves by small steps that hand nothing to the transport
    (the events of a call are `openDone` / `bindDone` at most); the bind events are those of the call
    (`callEvs`, from the call and its result) followed by the `bindDone` events it emits; the inbox is not
    touched. -/
theorem BSim.opStep' {l : List WsIn} (e : EP) (op : Mux.Op) (hc : isCall op = true) :
    BSim l e l (opStep e op).1 (opStep e op).2.2
      (callEvs e op (opStep e op).2.1 ++ doneEvs (opStep e op).2.2) := by
  cases op with
  | «open» req host port =>
    simp only [Mux.opStep]
    split
    · exact BSim.refl l e
    · exact (BSim.openRound' e _).gs (by simp [callEvs, Mux.appOpen, openRound_doneEvs])
  | accept => exact BSim.appAccept e
  | write h d => exact BSim.appWrite e h d
  | read h n => exact BSim.appRead e h n
  | shutdown h => exact BSim.appShutdown e h
  | dropStream h => exact BSim.appDropStream e h
  | sendDgram d => exact BSim.appSendDgram e d
  | recvDgram => exact BSim.appRecvDgram e
  | bindReq req bt host port => exact BSim.appBindReq e req bt host port _
  | bindNext => exact (BSim.appBindNext e).gs (List.append_nil _)
  | bindReply k a => exact (BSim.appBindReply e k a).gs (List.append_nil _)
  | bindDrop k => exact (BSim.appBindDrop e k).gs (List.append_nil _)
  | dropMux => exact BSim.appDropMux e
  | sinkRoom n => exact BSim.same rfl rfl
  | cancelOpen req => exact BSim.same rfl rfl
  | deliver w => cases hc

theorem BSim.opStep (e : EP) (op : Mux.Op) (hc : isCall op = true) :
    BSim e.inbox e e.inbox (opStep e op).1 (opStep e op).2.2
      (callEvs e op (opStep e op).2.1 ++ doneEvs (opStep e op).2.2) :=
  BSim.opStep' e op hc

/-- An application call does not touch the inbox (same statement as `Penguin.PairAll.opStep_call_inbox` in
    `Lemmas/PairAllGlue.lean`, proved here from the per-call lemmas of `Lemmas/MuxIntegritySrc.lean` so that the
    bind development need not import the stream glue). -/
theorem opStep_call_inbox' (e : EP) (op : Mux.Op) (hc : isCall op = true) : (opStep e op).1.inbox = e.inbox := by
  cases op with
  | «open» req host port =>
    simp only [Mux.opStep]
    split
    · rfl
    · exact openRound_inbox e _
  | accept => exact appAccept_inbox e
  | write h d => exact appWrite_inbox e h d
  | read h n => exact appRead_inbox e h n
  | shutdown h => exact appShutdown_inbox e h
  | dropStream h => exact appDropStream_inbox e h
  | sendDgram d => exact appSendDgram_inbox e d
  | recvDgram => exact appRecvDgram_inbox e
  | bindReq req bt host port => exact appBindReq_inbox e req bt host port
  | bindNext => exact appBindNext_inbox e
  | bindReply k a => exact appBindReply_inbox e k a
  | bindDrop k => exact appBindDrop_inbox e k
  | dropMux => exact appDropMux_inbox e
  | sinkRoom n => rfl
  | cancelOpen req => rfl
  | deliver w => cases hc

end Penguin.BindAll
