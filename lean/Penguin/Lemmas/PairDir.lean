/-
How each object-local update and each processed frame acts on the relation `DirRel` between one
direction of a linked flow and the link model: every one of them is a step of `Penguin.Link`
(or leaves the related link state alone).
-/
import Penguin.Lemmas.PairInv
import Penguin.Lemmas.PairLocal

namespace Penguin.Pair
open Penguin.Mux

/-- `DirRel` only looks at the sender's credit and finished flag, the receiver's queue, buffer,
    counters and liveness, the data items on the forward path and the acknowledgements on the way back. -/
theorem DirRel.congr {oS oR oS' oR' : Obj} {fwd bwd fwd' bwd' : List Msg} {w r w' r' : Bytes} {eof eof' : Bool}
    {l : Link.St} (h : DirRel oS oR fwd bwd w r eof l)
    (h1 : oS'.credit = oS.credit) (h2 : oS'.finishSent = oS.finishSent)
    (h3 : oR'.cap = oR.cap) (h4 : oR'.threshold = oR.threshold) (h5 : oR'.senderAlive = oR.senderAlive)
    (h6 : oR'.rxq = oR.rxq) (h7 : oR'.buf = oR.buf) (h8 : oR'.recvdSince = oR.recvdSince)
    (h9 : fwd'.filterMap toItem = fwd.filterMap toItem) (h10 : bwd'.filterMap ackOf = bwd.filterMap ackOf)
    (h11 : w' = w) (h12 : r' = r) (h13 : eof' = eof) (h14 : oR'.rxOpen = oR.rxOpen) :
    DirRel oS' oR' fwd' bwd' w' r' eof' l :=
  ⟨h.inv, by rw [h3]; exact h.hW, by rw [h3]; exact h.hWb, by rw [h4]; exact h.hth, by rw [h1]; exact h.hcredit,
   by rw [h2]; exact h.hfin, by rw [h9]; exact h.hwire, by rw [h5]; exact h.halive, by rw [h6]; exact h.hrxq,
   by rw [h7]; exact h.hbuf, by rw [h8]; exact h.hsince, by rw [h10]; exact h.hacks, by rw [h11]; exact h.hacc,
   by rw [h12]; exact h.hdel, by rw [h13]; exact h.heof, by rw [h14, h5]; exact h.hrx⟩

@[simp] theorem toItem_push (y : Nat) (d : Bytes) : toItem (.frame (.push y d)) = some (.push d) := rfl
@[simp] theorem toItem_finish (y : Nat) : toItem (.frame (.finish y)) = some .fin := rfl
@[simp] theorem toItem_ack (y n : Nat) : toItem (.frame (.acknowledge y n)) = none := rfl
@[simp] theorem toItem_reset (y : Nat) : toItem (.frame (.reset y)) = some .rst := rfl
@[simp] theorem ackOf_push (y : Nat) (d : Bytes) : ackOf (.frame (.push y d)) = none := rfl
@[simp] theorem ackOf_finish (y : Nat) : ackOf (.frame (.finish y)) = none := rfl
@[simp] theorem ackOf_ack (y n : Nat) : ackOf (.frame (.acknowledge y n)) = some n := rfl
@[simp] theorem ackOf_reset (y : Nat) : ackOf (.frame (.reset y)) = none := rfl

/-! ### Sender side -/

/-- A successful write is `Link.step (.write d)`. -/
theorem DirRel.write {oS oR : Obj} {fwd bwd : List Msg} {w r : Bytes} {eof : Bool} {l : Link.St} (y : Nat) (d : Bytes)
    (h : DirRel oS oR fwd bwd w r eof l) (hf : oS.finishSent = false) (hd : d ≠ []) (hc : oS.credit ≠ 0) :
    DirRel { oS with credit := oS.credit - 1, parked := false } oR (fwd ++ [.frame (.push y d)]) bwd (w ++ d) r eof
      (Link.step l (.write d)).1 := by
  have hinv := Link.step_inv l (.write d) h.inv
  have hde : d.isEmpty = false := by cases d <;> simp_all
  have hs : (Link.step l (.write d)).1 =
      { l with credit := l.credit - 1, wire := l.wire ++ [.push d], accepted := l.accepted ++ d, sent := l.sent + 1 } := by
    simp [Link.step, h.hfin, hf, hde, h.hcredit, hc]
  rw [hs] at hinv ⊢
  exact ⟨hinv, h.hW, h.hWb, h.hth, by simp [h.hcredit], h.hfin, by simp [h.hwire], h.halive, h.hrxq, h.hbuf, h.hsince,
    h.hacks, by simp [h.hacc], h.hdel, h.heof, h.hrx⟩

/-- A first shutdown is `Link.step .shutdown`. -/
theorem DirRel.shutdown {oS oR : Obj} {fwd bwd : List Msg} {w r : Bytes} {eof : Bool} {l : Link.St} (y : Nat)
    (h : DirRel oS oR fwd bwd w r eof l) (hf : oS.finishSent = false) :
    DirRel { oS with finishSent := true } oR (fwd ++ [.frame (.finish y)]) bwd w r eof (Link.step l .shutdown).1 := by
  have hinv := Link.step_inv l .shutdown h.inv
  have hs : (Link.step l .shutdown).1 = { l with sFin := true, wire := l.wire ++ [.fin] } := by
    simp [Link.step, h.hfin, hf]
  rw [hs] at hinv ⊢
  exact ⟨hinv, h.hW, h.hWb, h.hth, h.hcredit, rfl, by simp [h.hwire], h.halive, h.hrxq, h.hbuf, h.hsince,
    h.hacks, h.hacc, h.hdel, h.heof, h.hrx⟩

/-- An `Acknowledge` reaching the sender is `Link.step .deliverAck`. -/
theorem DirRel.deliverAck {oS oR : Obj} {fwd bwd : List Msg} {w r : Bytes} {eof : Bool} {l : Link.St} (y n : Nat)
    (h : DirRel oS oR fwd (.frame (.acknowledge y n) :: bwd) w r eof l) :
    DirRel { oS.wake with credit := (oS.credit + n) % 4294967296 } oR fwd bwd w r eof (Link.step l .deliverAck).1 := by
  have hinv := Link.step_inv l .deliverAck h.inv
  have ha : l.acks = n :: bwd.filterMap ackOf := by rw [h.hacks]; simp
  have hs : (Link.step l .deliverAck).1 = { l with acks := bwd.filterMap ackOf, credit := l.credit + n, granted := l.granted + n } := by
    simp [Link.step, ha]
  rw [hs] at hinv ⊢
  have hle : l.credit + n ≤ l.W := by
    have := h.inv.hcredit
    rw [ha] at this
    simp at this
    omega
  have hlt : oS.credit + n < 4294967296 := by
    rw [← h.hcredit]; have := h.hWb; rw [← h.hW] at this; omega
  refine ⟨hinv, h.hW, h.hWb, h.hth, ?_, ?_, h.hwire, h.halive, h.hrxq, h.hbuf, h.hsince, rfl, h.hacc, h.hdel, h.heof, h.hrx⟩
  · show l.credit + n = (oS.credit + n) % 4294967296
    rw [Nat.mod_eq_of_lt hlt, h.hcredit]
  · show l.sFin = (oS.wake).finishSent
    rw [h.hfin]; unfold Obj.wake; split <;> rfl

/-! ### Receiver side -/

/-- A read served from the handle's buffer. -/
theorem DirRel.readBuf {oS oR : Obj} {fwd bwd : List Msg} {w r : Bytes} {eof : Bool} {l : Link.St} (n : Nat)
    (h : DirRel oS oR fwd bwd w r eof l) (hb : oR.buf ≠ []) :
    DirRel oS { oR with buf := oR.buf.drop n } fwd bwd w (r ++ oR.buf.take n) eof (Link.step l (.read n)).1 := by
  have hinv := Link.step_inv l (.read n) h.inv
  have hbe : l.buf.isEmpty = false := by rw [h.hbuf]; cases hbb : oR.buf <;> simp_all
  have hs : (Link.step l (.read n)).1 = { l with buf := l.buf.drop n, delivered := l.delivered ++ l.buf.take n } := by
    simp [Link.step, Link.fill_one _ _ h.inv.hne_rxq, hbe]
  rw [hs] at hinv ⊢
  exact ⟨hinv, h.hW, h.hWb, h.hth, h.hcredit, h.hfin, h.hwire, h.halive, h.hrxq, by simp [h.hbuf], h.hsince,
    h.hacks, h.hacc, by simp [h.hdel, h.hbuf], h.heof, h.hrx⟩

/-- A read that takes the next frame from the queue (and acknowledges at the threshold). -/
theorem DirRel.readFrame {oS oR : Obj} {fwd bwd : List Msg} {w r : Bytes} {eof : Bool} {l : Link.St} (y n : Nat)
    (f : Bytes) (rest : List Bytes)
    (h : DirRel oS oR fwd bwd w r eof l) (hb : oR.buf = []) (hq : oR.rxq = f :: rest) :
    (oR.recvdSince + 1 ≥ oR.threshold →
      DirRel oS { oR with rxq := rest, buf := f.drop n, recvdSince := 0 } fwd
        (bwd ++ [.frame (.acknowledge y (oR.recvdSince + 1))]) w (r ++ f.take n) eof (Link.step l (.read n)).1) ∧
    (¬ oR.recvdSince + 1 ≥ oR.threshold →
      DirRel oS { oR with rxq := rest, buf := f.drop n, recvdSince := oR.recvdSince + 1 } fwd bwd w (r ++ f.take n) eof
        (Link.step l (.read n)).1) := by
  have hinv := Link.step_inv l (.read n) h.inv
  have hbe : l.buf.isEmpty = true := by rw [h.hbuf, hb]; rfl
  have hq' : l.rxq = f :: rest := by rw [h.hrxq, hq]
  constructor
  · intro ht
    have ht' : l.since + 1 ≥ l.th := by rw [h.hsince, h.hth]; exact ht
    have hs : (Link.step l (.read n)).1 =
        { l with rxq := rest, buf := f.drop n, since := 0, acks := l.acks ++ [l.since + 1], consumed := l.consumed + 1,
                 acked := l.acked + (l.since + 1), delivered := l.delivered ++ f.take n } := by
      simp [Link.step, Link.fill_one _ _ h.inv.hne_rxq, hbe, hq', Link.countFrame, ht']
    rw [hs] at hinv ⊢
    exact ⟨hinv, h.hW, h.hWb, h.hth, h.hcredit, h.hfin, h.hwire, h.halive, rfl, rfl, rfl,
      by simp [h.hacks, h.hsince], h.hacc, by simp [h.hdel], h.heof, h.hrx⟩
  · intro ht
    have ht' : ¬ l.since + 1 ≥ l.th := by rw [h.hsince, h.hth]; exact ht
    have hs : (Link.step l (.read n)).1 =
        { l with rxq := rest, buf := f.drop n, since := l.since + 1, consumed := l.consumed + 1,
                 delivered := l.delivered ++ f.take n } := by
      simp [Link.step, Link.fill_one _ _ h.inv.hne_rxq, hbe, hq', Link.countFrame, ht']
    rw [hs] at hinv ⊢
    exact ⟨hinv, h.hW, h.hWb, h.hth, h.hcredit, h.hfin, h.hwire, h.halive, rfl, rfl, by simp [h.hsince],
      h.hacks, h.hacc, by simp [h.hdel], h.heof, h.hrx⟩

/-- A read that finds nothing buffered after the peer ended: end-of-stream. -/
theorem DirRel.readEof {oS oR : Obj} {fwd bwd : List Msg} {w r : Bytes} {eof : Bool} {l : Link.St} (n : Nat)
    (h : DirRel oS oR fwd bwd w r eof l) (hb : oR.buf = []) (hq : oR.rxq = []) (ha : oR.senderAlive = false) :
    DirRel oS { oR with rxOpen := false } fwd bwd w r true (Link.step l (.read n)).1 := by
  have hinv := Link.step_inv l (.read n) h.inv
  have hbe : l.buf.isEmpty = true := by rw [h.hbuf, hb]; rfl
  have hq' : l.rxq = [] := by rw [h.hrxq, hq]
  have hs : (Link.step l (.read n)).1 = { l with eofSeen := true } := by
    simp [Link.step, Link.fill_one _ _ h.inv.hne_rxq, hbe, hq', h.halive, ha]
  rw [hs] at hinv ⊢
  exact ⟨hinv, h.hW, h.hWb, h.hth, h.hcredit, h.hfin, h.hwire, h.halive, h.hrxq, h.hbuf, h.hsince,
    h.hacks, h.hacc, h.hdel, rfl, fun _ => ha⟩

/-- A `Push` reaching the receiver is `Link.step .deliver`; under the invariant there is room. -/
theorem DirRel.deliverPush {oS oR : Obj} {fwd bwd : List Msg} {w r : Bytes} {eof : Bool} {l : Link.St} (y : Nat) (d : Bytes)
    (h : DirRel oS oR (.frame (.push y d) :: fwd) bwd w r eof l) :
    oR.senderAlive = true ∧ oR.rxq.length < oR.cap ∧
    DirRel oS { oR with rxq := oR.rxq ++ [d] } fwd bwd w r eof (Link.step l .deliver).1 := by
  have hinv := Link.step_inv l .deliver h.inv
  have hw : l.wire = .push d :: fwd.filterMap toItem := by rw [h.hwire]; simp
  have hal : l.rAlive = true := by
    cases ha : l.rAlive with
    | true => rfl
    | false => have := h.inv.hdeadwire ha; rw [hw] at this; cases this
  have hroom : l.rxq.length < l.W := by
    have := h.inv.hcredit
    rw [hw] at this
    simp [Link.pushes] at this
    omega
  have hs : (Link.step l .deliver).1 = { l with wire := fwd.filterMap toItem, rxq := l.rxq ++ [d] } := by
    simp [Link.step, hw, hal, hroom]
  rw [hs] at hinv ⊢
  refine ⟨by rw [← h.halive]; exact hal, by rw [← h.hrxq, ← h.hW]; exact hroom, ?_⟩
  exact ⟨hinv, h.hW, h.hWb, h.hth, h.hcredit, h.hfin, rfl, h.halive, by simp [h.hrxq], h.hbuf, h.hsince,
    h.hacks, h.hacc, h.hdel, h.heof, h.hrx⟩

/-- A `Finish` reaching the receiver is `Link.step .deliver`. -/
theorem DirRel.deliverFinish {oS oR : Obj} {fwd bwd : List Msg} {w r : Bytes} {eof : Bool} {l : Link.St} (y : Nat)
    (h : DirRel oS oR (.frame (.finish y) :: fwd) bwd w r eof l) :
    DirRel oS { oR with senderAlive := false } fwd bwd w r eof (Link.step l .deliver).1 := by
  have hinv := Link.step_inv l .deliver h.inv
  have hw : l.wire = .fin :: fwd.filterMap toItem := by rw [h.hwire]; simp
  have hrest : fwd.filterMap toItem = [] := by
    have := Link.shapeOk_end_head .fin _ rfl (by rw [← hw]; exact h.inv.hshape)
    exact this
  have hs : (Link.step l .deliver).1 = { l with wire := fwd.filterMap toItem, rAlive := false } := by
    simp [Link.step, hw]
  rw [hs] at hinv ⊢
  exact ⟨hinv, h.hW, h.hWb, h.hth, h.hcredit, h.hfin, rfl, rfl, h.hrxq, h.hbuf, h.hsince,
    h.hacks, h.hacc, h.hdel, h.heof, fun _ => rfl⟩

/-! ### No data after an end marker -/

theorem npae_pushes_nil (l : List Link.Item) (h : Link.pushes l = []) : noPushAfterEnd l = true := by
  induction l with
  | nil => rfl
  | cons x rest ih =>
    cases x with
    | push d => simp [Link.pushes] at h
    | fin => simpa [noPushAfterEnd, Link.pushes] using h
    | rst => simpa [noPushAfterEnd, Link.pushes] using h

theorem npae_append (a b : List Link.Item) (ha : noPushAfterEnd a = true) (hb : noPushAfterEnd b = true)
    (hab : Link.hasEnd a = true → Link.pushes b = []) : noPushAfterEnd (a ++ b) = true := by
  induction a with
  | nil => exact hb
  | cons x rest ih =>
    cases x with
    | push d =>
      simp only [List.cons_append, noPushAfterEnd] at ha ⊢
      exact ih ha (fun h => hab (by simpa using h))
    | fin =>
      simp only [List.cons_append, noPushAfterEnd, List.isEmpty_iff] at ha ⊢
      rw [Link.pushes_append, ha, hab (by simp)]; rfl
    | rst =>
      simp only [List.cons_append, noPushAfterEnd, List.isEmpty_iff] at ha ⊢
      rw [Link.pushes_append, ha, hab (by simp)]; rfl

theorem npae_end_prefix (a b : List Link.Item) (h : noPushAfterEnd (a ++ b) = true) (ha : Link.hasEnd a = true) :
    Link.pushes b = [] := by
  induction a with
  | nil => simp at ha
  | cons x rest ih =>
    cases x with
    | push d =>
      simp only [List.cons_append, noPushAfterEnd] at h
      exact ih h (by simpa using ha)
    | fin =>
      simp only [List.cons_append, noPushAfterEnd, List.isEmpty_iff, Link.pushes_append, List.append_eq_nil_iff] at h
      exact h.2
    | rst =>
      simp only [List.cons_append, noPushAfterEnd, List.isEmpty_iff, Link.pushes_append, List.append_eq_nil_iff] at h
      exact h.2

theorem npae_suffix (a b : List Link.Item) (h : noPushAfterEnd (a ++ b) = true) : noPushAfterEnd b = true := by
  induction a with
  | nil => exact h
  | cons x rest ih =>
    cases x with
    | push d => simp only [List.cons_append, noPushAfterEnd] at h; exact ih h
    | fin =>
      simp only [List.cons_append, noPushAfterEnd, List.isEmpty_iff, Link.pushes_append, List.append_eq_nil_iff] at h
      exact npae_pushes_nil _ h.2
    | rst =>
      simp only [List.cons_append, noPushAfterEnd, List.isEmpty_iff, Link.pushes_append, List.append_eq_nil_iff] at h
      exact npae_pushes_nil _ h.2

/-! ### After the sender has released the flow -/

theorem cutEnd_of_shapeOk (l : List Link.Item) (h : Link.shapeOk l = true) : cutEnd l = l := by
  induction l with
  | nil => rfl
  | cons x rest ih =>
    cases x with
    | push d => simp only [cutEnd]; rw [ih (Link.shapeOk_tail d rest h)]
    | fin => rw [Link.shapeOk_end_head .fin rest rfl h]; rfl
    | rst => rw [Link.shapeOk_end_head .rst rest rfl h]; rfl

theorem hasEnd_cutEnd (l : List Link.Item) : Link.hasEnd (cutEnd l) = Link.hasEnd l := by
  induction l with
  | nil => rfl
  | cons x rest ih => cases x <;> simp [cutEnd, ih]

theorem cutEnd_append_of_hasEnd (l m : List Link.Item) (h : Link.hasEnd l = true) : cutEnd (l ++ m) = cutEnd l := by
  induction l with
  | nil => simp at h
  | cons x rest ih =>
    cases x with
    | push d => simp only [List.cons_append, cutEnd]; rw [ih (by simpa using h)]
    | fin => rfl
    | rst => rfl

theorem cutEnd_append_end (l : List Link.Item) (x : Link.Item) (hx : x.isPush = false) (h : Link.hasEnd l = false) :
    cutEnd (l ++ [x]) = l ++ [x] := by
  induction l with
  | nil => cases x <;> simp_all [cutEnd, Link.Item.isPush]
  | cons y rest ih =>
    cases y with
    | push d => simp only [List.cons_append, cutEnd]; rw [ih (by simpa using h)]
    | fin => simp at h
    | rst => simp at h

/-- The sender drops its handle without having shut down: `Link.step .abort` (a `Reset` is queued). -/
theorem DirRel.release_reset {oS oR : Obj} {fwd bwd : List Msg} {w r : Bytes} {eof : Bool} {l : Link.St} (y : Nat)
    (h : DirRel oS oR fwd bwd w r eof l) (hf : oS.finishSent = false) :
    DirRelA oR (fwd ++ [.frame (.reset y)]) w r eof (Link.step l .abort).1 := by
  have hinv := Link.step_inv l .abort h.inv
  have hs : (Link.step l .abort).1 = { l with sFin := true, wire := l.wire ++ [.rst] } := by
    simp [Link.step, h.hfin, hf]
  rw [hs] at hinv ⊢
  have hopen := h.inv.hopen (by rw [h.hfin]; exact hf)
  have hal : oR.senderAlive = true := by rw [← h.halive]; exact hopen.2
  refine ⟨hinv, h.hW, h.hWb, h.hth, rfl, ?_, h.halive, h.hrxq, h.hbuf, h.hsince, h.hacc, h.hdel, h.heof, h.hrx⟩
  simp only [hal, if_true, List.filterMap_append, List.filterMap_cons, toItem_reset, List.filterMap_nil]
  rw [← h.hwire, cutEnd_append_end _ _ rfl hopen.1]

/-- The sender releases the flow after having shut down: the link state is unchanged. -/
theorem DirRel.release_quiet {oS oR : Obj} {fwd bwd : List Msg} {w r : Bytes} {eof : Bool} {l : Link.St}
    (h : DirRel oS oR fwd bwd w r eof l) (hf : oS.finishSent = true) :
    DirRelA oR fwd w r eof l := by
  refine ⟨h.inv, h.hW, h.hWb, h.hth, by rw [h.hfin]; exact hf, ?_, h.halive, h.hrxq, h.hbuf, h.hsince, h.hacc, h.hdel, h.heof, h.hrx⟩
  cases hal : oR.senderAlive with
  | true => simp only [if_true]; rw [← h.hwire, cutEnd_of_shapeOk _ h.inv.hshape]
  | false => simp only [Bool.false_eq_true, if_false]; exact h.inv.hdeadwire (by rw [h.halive]; exact hal)

/-- The sender releases the flow because the receiver's `Reset` arrived (no `Reset` goes back): the
    receiver had ended its side already, so nothing is in flight any more. -/
theorem DirRel.release_inhibit {oS oR : Obj} {fwd bwd : List Msg} {w r : Bytes} {eof : Bool} {l : Link.St}
    (h : DirRel oS oR fwd bwd w r eof l) (hal : oR.senderAlive = false) :
    ∃ l', DirRelA oR fwd w r eof l' := by
  by_cases hf : oS.finishSent = true
  · exact ⟨l, h.release_quiet hf⟩
  · have hf' : oS.finishSent = false := by simpa using hf
    -- the sender was still open, but the receiver is not alive: contradiction with the invariant
    have := (h.inv.hopen (by rw [h.hfin]; exact hf')).2
    rw [h.halive, hal] at this; cases this

/-- `DirRelA` only looks at the receiver and, while it is alive, at the data items up to the first end marker. -/
theorem DirRelA.congr {oR oR' : Obj} {fwd fwd' : List Msg} {w r w' r' : Bytes} {eof eof' : Bool} {l : Link.St}
    (h : DirRelA oR fwd w r eof l)
    (h3 : oR'.cap = oR.cap) (h4 : oR'.threshold = oR.threshold) (h5 : oR'.senderAlive = oR.senderAlive)
    (h6 : oR'.rxq = oR.rxq) (h7 : oR'.buf = oR.buf) (h8 : oR'.recvdSince = oR.recvdSince)
    (h9 : oR.senderAlive = true → cutEnd (fwd'.filterMap toItem) = cutEnd (fwd.filterMap toItem))
    (h11 : w' = w) (h12 : r' = r) (h13 : eof' = eof) (h14 : oR'.rxOpen = oR.rxOpen) :
    DirRelA oR' fwd' w' r' eof' l := by
  refine ⟨h.inv, by rw [h3]; exact h.hW, by rw [h3]; exact h.hWb, by rw [h4]; exact h.hth, h.hfin, ?_,
    by rw [h5]; exact h.halive, by rw [h6]; exact h.hrxq, by rw [h7]; exact h.hbuf, by rw [h8]; exact h.hsince,
    by rw [h11]; exact h.hacc, by rw [h12]; exact h.hdel, by rw [h13]; exact h.heof, by rw [h14, h5]; exact h.hrx⟩
  rw [h5, h.hwire]
  cases hal : oR.senderAlive with
  | true => simp only [if_true]; exact (h9 hal).symm
  | false => rfl

/-- Noise after the end marker (the `Reset` replies of the endpoint that released the flow, its
    `Acknowledge` frames) does not show. -/
theorem DirRelA.noise {oR : Obj} {fwd em : List Msg} {w r : Bytes} {eof : Bool} {l : Link.St}
    (h : DirRelA oR fwd w r eof l) : DirRelA oR (fwd ++ em) w r eof l := by
  refine h.congr rfl rfl rfl rfl rfl rfl ?_ rfl rfl rfl rfl
  intro hal
  have hw := h.hwire
  rw [hal] at hw; simp only [if_true] at hw
  have hend : Link.hasEnd (fwd.filterMap toItem) = true := by
    rcases h.inv.hfin h.hfin with h1 | h1
    · rw [hw, hasEnd_cutEnd] at h1; exact h1
    · rw [h.halive, hal] at h1; cases h1
  rw [List.filterMap_append, cutEnd_append_of_hasEnd _ _ hend]

/-- The full relation seen from the frozen-sender relation: the receiver-side steps are the same. -/
theorem DirRelA.read {oR oR' : Obj} {fwd : List Msg} {w r r' : Bytes} {eof eof' : Bool} {l l' : Link.St}
    (h : DirRelA oR fwd w r eof l) (hinv : Link.Inv l')
    (hf : l'.sFin = l.sFin) (hwr : l'.wire = l.wire) (hal : l'.rAlive = l.rAlive) (hW : l'.W = l.W) (hth : l'.th = l.th)
    (hacc : l'.accepted = l.accepted)
    (o1 : oR'.cap = oR.cap) (o2 : oR'.threshold = oR.threshold) (o3 : oR'.senderAlive = oR.senderAlive)
    (hrxq : l'.rxq = oR'.rxq) (hbuf : l'.buf = oR'.buf) (hsince : l'.since = oR'.recvdSince)
    (hdel : l'.delivered = r') (heof : l'.eofSeen = eof') (hrx : oR'.rxOpen = false → oR'.senderAlive = false) :
    DirRelA oR' fwd w r' eof' l' :=
  ⟨hinv, by rw [hW, o1]; exact h.hW, by rw [o1]; exact h.hWb, by rw [hth, o2]; exact h.hth, by rw [hf]; exact h.hfin,
   by rw [hwr, o3]; exact h.hwire, by rw [hal, o3]; exact h.halive, hrxq, hbuf, hsince, by rw [hacc]; exact h.hacc, hdel, heof, hrx⟩

theorem DirRelA.readBuf {oR : Obj} {fwd : List Msg} {w r : Bytes} {eof : Bool} {l : Link.St} (n : Nat)
    (h : DirRelA oR fwd w r eof l) (hb : oR.buf ≠ []) :
    DirRelA { oR with buf := oR.buf.drop n } fwd w (r ++ oR.buf.take n) eof (Link.step l (.read n)).1 := by
  have hinv := Link.step_inv l (.read n) h.inv
  have hbe : l.buf.isEmpty = false := by rw [h.hbuf]; cases hbb : oR.buf <;> simp_all
  have hs : (Link.step l (.read n)).1 = { l with buf := l.buf.drop n, delivered := l.delivered ++ l.buf.take n } := by
    simp [Link.step, Link.fill_one _ _ h.inv.hne_rxq, hbe]
  rw [hs] at hinv ⊢
  exact h.read hinv rfl rfl rfl rfl rfl rfl rfl rfl rfl h.hrxq (by simp [h.hbuf]) h.hsince (by simp [h.hdel, h.hbuf]) h.heof h.hrx

theorem DirRelA.readFrame {oR : Obj} {fwd : List Msg} {w r : Bytes} {eof : Bool} {l : Link.St} (n : Nat)
    (f : Bytes) (rest : List Bytes) (h : DirRelA oR fwd w r eof l) (hb : oR.buf = []) (hq : oR.rxq = f :: rest) :
    (oR.recvdSince + 1 ≥ oR.threshold →
      DirRelA { oR with rxq := rest, buf := f.drop n, recvdSince := 0 } fwd w (r ++ f.take n) eof (Link.step l (.read n)).1) ∧
    (¬ oR.recvdSince + 1 ≥ oR.threshold →
      DirRelA { oR with rxq := rest, buf := f.drop n, recvdSince := oR.recvdSince + 1 } fwd w (r ++ f.take n) eof
        (Link.step l (.read n)).1) := by
  have hinv := Link.step_inv l (.read n) h.inv
  have hbe : l.buf.isEmpty = true := by rw [h.hbuf, hb]; rfl
  have hq' : l.rxq = f :: rest := by rw [h.hrxq, hq]
  constructor
  · intro ht
    have ht' : l.since + 1 ≥ l.th := by rw [h.hsince, h.hth]; exact ht
    have hs : (Link.step l (.read n)).1 =
        { l with rxq := rest, buf := f.drop n, since := 0, acks := l.acks ++ [l.since + 1], consumed := l.consumed + 1,
                 acked := l.acked + (l.since + 1), delivered := l.delivered ++ f.take n } := by
      simp [Link.step, Link.fill_one _ _ h.inv.hne_rxq, hbe, hq', Link.countFrame, ht']
    rw [hs] at hinv ⊢
    exact h.read hinv rfl rfl rfl rfl rfl rfl rfl rfl rfl rfl rfl rfl (by simp [h.hdel]) h.heof h.hrx
  · intro ht
    have ht' : ¬ l.since + 1 ≥ l.th := by rw [h.hsince, h.hth]; exact ht
    have hs : (Link.step l (.read n)).1 =
        { l with rxq := rest, buf := f.drop n, since := l.since + 1, consumed := l.consumed + 1,
                 delivered := l.delivered ++ f.take n } := by
      simp [Link.step, Link.fill_one _ _ h.inv.hne_rxq, hbe, hq', Link.countFrame, ht']
    rw [hs] at hinv ⊢
    exact h.read hinv rfl rfl rfl rfl rfl rfl rfl rfl rfl rfl rfl (by simp [h.hsince]) (by simp [h.hdel]) h.heof h.hrx

theorem DirRelA.readEof {oR : Obj} {fwd : List Msg} {w r : Bytes} {eof : Bool} {l : Link.St} (n : Nat)
    (h : DirRelA oR fwd w r eof l) (hb : oR.buf = []) (hq : oR.rxq = []) (ha : oR.senderAlive = false) :
    DirRelA { oR with rxOpen := false } fwd w r true (Link.step l (.read n)).1 := by
  have hinv := Link.step_inv l (.read n) h.inv
  have hbe : l.buf.isEmpty = true := by rw [h.hbuf, hb]; rfl
  have hq' : l.rxq = [] := by rw [h.hrxq, hq]
  have hs : (Link.step l (.read n)).1 = { l with eofSeen := true } := by
    simp [Link.step, Link.fill_one _ _ h.inv.hne_rxq, hbe, hq', h.halive, ha]
  rw [hs] at hinv ⊢
  exact h.read hinv rfl rfl rfl rfl rfl rfl rfl rfl rfl h.hrxq h.hbuf h.hsince h.hdel rfl (fun _ => ha)

/-- A frame of the flow reaches a receiver whose peer has released the flow. While the receiver's side
    is alive, a `Push` is queued (it fits), `Finish`/`Reset` end it; afterwards nothing matters. -/
theorem DirRelA.deliverPush {oR : Obj} {fwd : List Msg} {w r : Bytes} {eof : Bool} {l : Link.St} (y : Nat) (d : Bytes)
    (h : DirRelA oR (.frame (.push y d) :: fwd) w r eof l) (hal : oR.senderAlive = true) :
    oR.rxq.length < oR.cap ∧ DirRelA { oR with rxq := oR.rxq ++ [d] } fwd w r eof (Link.step l .deliver).1 := by
  have hinv := Link.step_inv l .deliver h.inv
  have hw : l.wire = .push d :: cutEnd (fwd.filterMap toItem) := by rw [h.hwire, hal]; simp [cutEnd]
  have hal' : l.rAlive = true := by rw [h.halive]; exact hal
  have hroom : l.rxq.length < l.W := by
    have := h.inv.hcredit
    rw [hw] at this
    simp [Link.pushes] at this
    omega
  have hs : (Link.step l .deliver).1 = { l with wire := cutEnd (fwd.filterMap toItem), rxq := l.rxq ++ [d] } := by
    simp [Link.step, hw, hal', hroom]
  rw [hs] at hinv ⊢
  refine ⟨by rw [← h.hrxq, ← h.hW]; exact hroom, ?_⟩
  exact ⟨hinv, h.hW, h.hWb, h.hth, h.hfin, by simp [hal], h.halive, by simp [h.hrxq], h.hbuf, h.hsince, h.hacc, h.hdel, h.heof, h.hrx⟩

theorem DirRelA.deliverEnd {oR : Obj} {fwd : List Msg} {w r : Bytes} {eof : Bool} {l : Link.St} (m : Msg)
    (hm : toItem m = some .fin ∨ toItem m = some .rst)
    (h : DirRelA oR (m :: fwd) w r eof l) :
    ∃ l', DirRelA { oR with senderAlive := false } fwd w r eof l' := by
  cases hal : oR.senderAlive with
  | false =>
    refine ⟨l, h.inv, h.hW, h.hWb, h.hth, h.hfin, ?_, by rw [h.halive, hal], h.hrxq, h.hbuf, h.hsince, h.hacc, h.hdel, h.heof, fun _ => rfl⟩
    have := h.hwire; rw [hal] at this; simpa using this
  | true =>
    have hinv := Link.step_inv l .deliver h.inv
    have hw : l.wire = [.fin] ∨ l.wire = [.rst] := by
      rw [h.hwire, hal]
      rcases hm with hm | hm <;> simp [List.filterMap_cons, hm, cutEnd]
    have hs : (Link.step l .deliver).1 = { l with wire := [], rAlive := false } := by
      rcases hw with hw | hw <;> simp [Link.step, hw]
    rw [hs] at hinv
    exact ⟨_, hinv, h.hW, h.hWb, h.hth, h.hfin, by simp, rfl, h.hrxq, h.hbuf, h.hsince, h.hacc, h.hdel, h.heof, fun _ => rfl⟩

/-- A message that carries no data item disappears from the path. -/
theorem DirRelA.skip {oR : Obj} {fwd : List Msg} {w r : Bytes} {eof : Bool} {l : Link.St} (m : Msg) (hm : toItem m = none)
    (h : DirRelA oR (m :: fwd) w r eof l) : DirRelA oR fwd w r eof l :=
  h.congr rfl rfl rfl rfl rfl rfl (fun _ => by rw [List.filterMap_cons, hm]) rfl rfl rfl rfl

end Penguin.Pair
