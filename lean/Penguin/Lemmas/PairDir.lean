/-
How each object-local update and each processed frame acts on the relation `DirRel` between one
direction of a linked flow and the link model: every one of them is a step of `Penguin.Link`
(or leaves the related link state alone).
-/
import Penguin.Lemmas.PairInv
import Penguin.Lemmas.PairLocal

namespace Penguin.Pair
open Penguin.Mux

/-- `DirRel` only looks at the sender's credit and finished flag, the receiver's queue, buffer,
    counters and liveness, the data items on the forward path and the acknowledgements on the way back. -/
theorem DirRel.congr {oS oR oS' oR' : Obj} {fwd bwd fwd' bwd' : List Msg} {w r w' r' : Bytes} {eof eof' : Bool}
    {l : Link.St} (h : DirRel oS oR fwd bwd w r eof l)
    (h1 : oS'.credit = oS.credit) (h2 : oS'.finishSent = oS.finishSent)
    (h3 : oR'.cap = oR.cap) (h4 : oR'.threshold = oR.threshold) (h5 : oR'.senderAlive = oR.senderAlive)
    (h6 : oR'.rxq = oR.rxq) (h7 : oR'.buf = oR.buf) (h8 : oR'.recvdSince = oR.recvdSince)
    (h9 : fwd'.filterMap toItem = fwd.filterMap toItem) (h10 : bwd'.filterMap ackOf = bwd.filterMap ackOf)
    (h11 : w' = w) (h12 : r' = r) (h13 : eof' = eof) (h14 : oR'.rxOpen = oR.rxOpen) :
    DirRel oS' oR' fwd' bwd' w' r' eof' l :=
  ⟨h.inv, by rw [h3]; exact h.hW, by rw [h3]; exact h.hWb, by rw [h4]; exact h.hth, by rw [h1]; exact h.hcredit,
   by rw [h2]; exact h.hfin, by rw [h9]; exact h.hwire, by rw [h5]; exact h.halive, by rw [h6]; exact h.hrxq,
   by rw [h7]; exact h.hbuf, by rw [h8]; exact h.hsince, by rw [h10]; exact h.hacks, by rw [h11]; exact h.hacc,
   by rw [h12]; exact h.hdel, by rw [h13]; exact h.heof, by rw [h14, h5]; exact h.hrx⟩

@[simp] theorem toItem_push (y : Nat) (d : Bytes) : toItem (.frame (.push y d)) = some (.push d) := rfl
@[simp] theorem toItem_finish (y : Nat) : toItem (.frame (.finish y)) = some .fin := rfl
@[simp] theorem toItem_ack (y n : Nat) : toItem (.frame (.acknowledge y n)) = none := rfl
@[simp] theorem toItem_reset (y : Nat) : toItem (.frame (.reset y)) = none := rfl
@[simp] theorem ackOf_push (y : Nat) (d : Bytes) : ackOf (.frame (.push y d)) = none := rfl
@[simp] theorem ackOf_finish (y : Nat) : ackOf (.frame (.finish y)) = none := rfl
@[simp] theorem ackOf_ack (y n : Nat) : ackOf (.frame (.acknowledge y n)) = some n := rfl
@[simp] theorem ackOf_reset (y : Nat) : ackOf (.frame (.reset y)) = none := rfl

/-! ### Sender side -/

/-- A successful write is `Link.step (.write d)`. -/
theorem DirRel.write {oS oR : Obj} {fwd bwd : List Msg} {w r : Bytes} {eof : Bool} {l : Link.St} (y : Nat) (d : Bytes)
    (h : DirRel oS oR fwd bwd w r eof l) (hf : oS.finishSent = false) (hd : d ≠ []) (hc : oS.credit ≠ 0) :
    DirRel { oS with credit := oS.credit - 1, parked := false } oR (fwd ++ [.frame (.push y d)]) bwd (w ++ d) r eof
      (Link.step l (.write d)).1 := by
  have hinv := Link.step_inv l (.write d) h.inv
  have hde : d.isEmpty = false := by cases d <;> simp_all
  have hs : (Link.step l (.write d)).1 =
      { l with credit := l.credit - 1, wire := l.wire ++ [.push d], accepted := l.accepted ++ d, sent := l.sent + 1 } := by
    simp [Link.step, h.hfin, hf, hde, h.hcredit, hc]
  rw [hs] at hinv ⊢
  exact ⟨hinv, h.hW, h.hWb, h.hth, by simp [h.hcredit], h.hfin, by simp [h.hwire], h.halive, h.hrxq, h.hbuf, h.hsince,
    h.hacks, by simp [h.hacc], h.hdel, h.heof, h.hrx⟩

/-- A first shutdown is `Link.step .shutdown`. -/
theorem DirRel.shutdown {oS oR : Obj} {fwd bwd : List Msg} {w r : Bytes} {eof : Bool} {l : Link.St} (y : Nat)
    (h : DirRel oS oR fwd bwd w r eof l) (hf : oS.finishSent = false) :
    DirRel { oS with finishSent := true } oR (fwd ++ [.frame (.finish y)]) bwd w r eof (Link.step l .shutdown).1 := by
  have hinv := Link.step_inv l .shutdown h.inv
  have hs : (Link.step l .shutdown).1 = { l with sFin := true, wire := l.wire ++ [.fin] } := by
    simp [Link.step, h.hfin, hf]
  rw [hs] at hinv ⊢
  exact ⟨hinv, h.hW, h.hWb, h.hth, h.hcredit, rfl, by simp [h.hwire], h.halive, h.hrxq, h.hbuf, h.hsince,
    h.hacks, h.hacc, h.hdel, h.heof, h.hrx⟩

/-- An `Acknowledge` reaching the sender is `Link.step .deliverAck`. -/
theorem DirRel.deliverAck {oS oR : Obj} {fwd bwd : List Msg} {w r : Bytes} {eof : Bool} {l : Link.St} (y n : Nat)
    (h : DirRel oS oR fwd (.frame (.acknowledge y n) :: bwd) w r eof l) :
    DirRel { oS.wake with credit := (oS.credit + n) % 4294967296 } oR fwd bwd w r eof (Link.step l .deliverAck).1 := by
  have hinv := Link.step_inv l .deliverAck h.inv
  have ha : l.acks = n :: bwd.filterMap ackOf := by rw [h.hacks]; simp
  have hs : (Link.step l .deliverAck).1 = { l with acks := bwd.filterMap ackOf, credit := l.credit + n, granted := l.granted + n } := by
    simp [Link.step, ha]
  rw [hs] at hinv ⊢
  have hle : l.credit + n ≤ l.W := by
    have := h.inv.hcredit
    rw [ha] at this
    simp at this
    omega
  have hlt : oS.credit + n < 4294967296 := by
    rw [← h.hcredit]; have := h.hWb; rw [← h.hW] at this; omega
  refine ⟨hinv, h.hW, h.hWb, h.hth, ?_, ?_, h.hwire, h.halive, h.hrxq, h.hbuf, h.hsince, rfl, h.hacc, h.hdel, h.heof, h.hrx⟩
  · show l.credit + n = (oS.credit + n) % 4294967296
    rw [Nat.mod_eq_of_lt hlt, h.hcredit]
  · show l.sFin = (oS.wake).finishSent
    rw [h.hfin]; unfold Obj.wake; split <;> rfl

/-! ### Receiver side -/

/-- A read served from the handle's buffer. -/
theorem DirRel.readBuf {oS oR : Obj} {fwd bwd : List Msg} {w r : Bytes} {eof : Bool} {l : Link.St} (n : Nat)
    (h : DirRel oS oR fwd bwd w r eof l) (hb : oR.buf ≠ []) :
    DirRel oS { oR with buf := oR.buf.drop n } fwd bwd w (r ++ oR.buf.take n) eof (Link.step l (.read n)).1 := by
  have hinv := Link.step_inv l (.read n) h.inv
  have hbe : l.buf.isEmpty = false := by rw [h.hbuf]; cases hbb : oR.buf <;> simp_all
  have hs : (Link.step l (.read n)).1 = { l with buf := l.buf.drop n, delivered := l.delivered ++ l.buf.take n } := by
    simp [Link.step, Link.fill_one _ _ h.inv.hne_rxq, hbe]
  rw [hs] at hinv ⊢
  exact ⟨hinv, h.hW, h.hWb, h.hth, h.hcredit, h.hfin, h.hwire, h.halive, h.hrxq, by simp [h.hbuf], h.hsince,
    h.hacks, h.hacc, by simp [h.hdel, h.hbuf], h.heof, h.hrx⟩

/-- A read that takes the next frame from the queue (and acknowledges at the threshold). -/
theorem DirRel.readFrame {oS oR : Obj} {fwd bwd : List Msg} {w r : Bytes} {eof : Bool} {l : Link.St} (y n : Nat)
    (f : Bytes) (rest : List Bytes)
    (h : DirRel oS oR fwd bwd w r eof l) (hb : oR.buf = []) (hq : oR.rxq = f :: rest) :
    (oR.recvdSince + 1 ≥ oR.threshold →
      DirRel oS { oR with rxq := rest, buf := f.drop n, recvdSince := 0 } fwd
        (bwd ++ [.frame (.acknowledge y (oR.recvdSince + 1))]) w (r ++ f.take n) eof (Link.step l (.read n)).1) ∧
    (¬ oR.recvdSince + 1 ≥ oR.threshold →
      DirRel oS { oR with rxq := rest, buf := f.drop n, recvdSince := oR.recvdSince + 1 } fwd bwd w (r ++ f.take n) eof
        (Link.step l (.read n)).1) := by
  have hinv := Link.step_inv l (.read n) h.inv
  have hbe : l.buf.isEmpty = true := by rw [h.hbuf, hb]; rfl
  have hq' : l.rxq = f :: rest := by rw [h.hrxq, hq]
  constructor
  · intro ht
    have ht' : l.since + 1 ≥ l.th := by rw [h.hsince, h.hth]; exact ht
    have hs : (Link.step l (.read n)).1 =
        { l with rxq := rest, buf := f.drop n, since := 0, acks := l.acks ++ [l.since + 1], consumed := l.consumed + 1,
                 acked := l.acked + (l.since + 1), delivered := l.delivered ++ f.take n } := by
      simp [Link.step, Link.fill_one _ _ h.inv.hne_rxq, hbe, hq', Link.countFrame, ht']
    rw [hs] at hinv ⊢
    exact ⟨hinv, h.hW, h.hWb, h.hth, h.hcredit, h.hfin, h.hwire, h.halive, rfl, rfl, rfl,
      by simp [h.hacks, h.hsince], h.hacc, by simp [h.hdel], h.heof, h.hrx⟩
  · intro ht
    have ht' : ¬ l.since + 1 ≥ l.th := by rw [h.hsince, h.hth]; exact ht
    have hs : (Link.step l (.read n)).1 =
        { l with rxq := rest, buf := f.drop n, since := l.since + 1, consumed := l.consumed + 1,
                 delivered := l.delivered ++ f.take n } := by
      simp [Link.step, Link.fill_one _ _ h.inv.hne_rxq, hbe, hq', Link.countFrame, ht']
    rw [hs] at hinv ⊢
    exact ⟨hinv, h.hW, h.hWb, h.hth, h.hcredit, h.hfin, h.hwire, h.halive, rfl, rfl, by simp [h.hsince],
      h.hacks, h.hacc, by simp [h.hdel], h.heof, h.hrx⟩

/-- A read that finds nothing buffered after the peer ended: end-of-stream. -/
theorem DirRel.readEof {oS oR : Obj} {fwd bwd : List Msg} {w r : Bytes} {eof : Bool} {l : Link.St} (n : Nat)
    (h : DirRel oS oR fwd bwd w r eof l) (hb : oR.buf = []) (hq : oR.rxq = []) (ha : oR.senderAlive = false) :
    DirRel oS { oR with rxOpen := false } fwd bwd w r true (Link.step l (.read n)).1 := by
  have hinv := Link.step_inv l (.read n) h.inv
  have hbe : l.buf.isEmpty = true := by rw [h.hbuf, hb]; rfl
  have hq' : l.rxq = [] := by rw [h.hrxq, hq]
  have hs : (Link.step l (.read n)).1 = { l with eofSeen := true } := by
    simp [Link.step, Link.fill_one _ _ h.inv.hne_rxq, hbe, hq', h.halive, ha]
  rw [hs] at hinv ⊢
  exact ⟨hinv, h.hW, h.hWb, h.hth, h.hcredit, h.hfin, h.hwire, h.halive, h.hrxq, h.hbuf, h.hsince,
    h.hacks, h.hacc, h.hdel, rfl, fun _ => ha⟩

/-- A `Push` reaching the receiver is `Link.step .deliver`; under the invariant there is room. -/
theorem DirRel.deliverPush {oS oR : Obj} {fwd bwd : List Msg} {w r : Bytes} {eof : Bool} {l : Link.St} (y : Nat) (d : Bytes)
    (h : DirRel oS oR (.frame (.push y d) :: fwd) bwd w r eof l) :
    oR.senderAlive = true ∧ oR.rxq.length < oR.cap ∧
    DirRel oS { oR with rxq := oR.rxq ++ [d] } fwd bwd w r eof (Link.step l .deliver).1 := by
  have hinv := Link.step_inv l .deliver h.inv
  have hw : l.wire = .push d :: fwd.filterMap toItem := by rw [h.hwire]; simp
  have hal : l.rAlive = true := by
    cases ha : l.rAlive with
    | true => rfl
    | false => have := h.inv.hdeadwire ha; rw [hw] at this; cases this
  have hroom : l.rxq.length < l.W := by
    have := h.inv.hcredit
    rw [hw] at this
    simp [Link.pushes] at this
    omega
  have hs : (Link.step l .deliver).1 = { l with wire := fwd.filterMap toItem, rxq := l.rxq ++ [d] } := by
    simp [Link.step, hw, hal, hroom]
  rw [hs] at hinv ⊢
  refine ⟨by rw [← h.halive]; exact hal, by rw [← h.hrxq, ← h.hW]; exact hroom, ?_⟩
  exact ⟨hinv, h.hW, h.hWb, h.hth, h.hcredit, h.hfin, rfl, h.halive, by simp [h.hrxq], h.hbuf, h.hsince,
    h.hacks, h.hacc, h.hdel, h.heof, h.hrx⟩

/-- A `Finish` reaching the receiver is `Link.step .deliver`. -/
theorem DirRel.deliverFinish {oS oR : Obj} {fwd bwd : List Msg} {w r : Bytes} {eof : Bool} {l : Link.St} (y : Nat)
    (h : DirRel oS oR (.frame (.finish y) :: fwd) bwd w r eof l) :
    DirRel oS { oR with senderAlive := false } fwd bwd w r eof (Link.step l .deliver).1 := by
  have hinv := Link.step_inv l .deliver h.inv
  have hw : l.wire = .fin :: fwd.filterMap toItem := by rw [h.hwire]; simp
  have hrest : fwd.filterMap toItem = [] := by
    have := Link.shapeOk_end_head .fin _ rfl (by rw [← hw]; exact h.inv.hshape)
    exact this
  have hs : (Link.step l .deliver).1 = { l with wire := fwd.filterMap toItem, rAlive := false } := by
    simp [Link.step, hw]
  rw [hs] at hinv ⊢
  exact ⟨hinv, h.hW, h.hWb, h.hth, h.hcredit, h.hfin, rfl, rfl, h.hrxq, h.hbuf, h.hsince,
    h.hacks, h.hacc, h.hdel, h.heof, fun _ => rfl⟩

end Penguin.Pair
